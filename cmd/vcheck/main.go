// vcheck is the driver registered in MANIFEST.json: it rebuilds one monitor
// from /repo's current working tree (hooks on, -race where the monitor needs
// it), runs it, and turns process-level events (crash, race report, watchdog)
// into the verdict lines of the interface.
package main

import (
	"bufio"
	"bytes"
	"encoding/json"
	"flag"
	"fmt"
	"io"
	"os"
	"os/exec"
	"path/filepath"
	"strings"
	"time"
)

var raceBuild = map[string]bool{"C12": true, "C13": true}

func main() {
	prop := flag.String("p", "", "property id, e.g. C07")
	tier := flag.String("tier", envOr("VERIF_TIER", "quick"), "quick|thorough")
	replay := flag.String("replay", "", "replay file")
	seed := flag.String("seed", envOr("VERIF_SEED", "1"), "seed")
	keep := flag.Bool("keep", false, "keep scratch dir")
	flag.Parse()
	if *prop == "" {
		fmt.Fprintln(os.Stderr, "usage: vcheck -p Cnn [-tier quick|thorough] [-replay file]")
		os.Exit(64)
	}
	id := strings.ToUpper(*prop)
	verif, err := os.Getwd()
	must(err)
	pkg := "./monitors/" + strings.ToLower(id)
	if _, err := os.Stat(filepath.Join(verif, pkg)); err != nil {
		fmt.Fprintf(os.Stderr, "no monitor for %s\n", id)
		os.Exit(64)
	}
	scratchRoot := "/var/tmp"
	if _, err := os.Stat(scratchRoot); err != nil {
		scratchRoot = os.TempDir()
	}
	scratch, err := os.MkdirTemp(scratchRoot, "vcheck-"+id+"-")
	must(err)
	code := run(id, *tier, *seed, *replay, verif, pkg, scratch)
	if !*keep {
		os.RemoveAll(scratch)
	}
	os.Exit(code)
}

func goEnv() []string {
	env := os.Environ()
	env = append(env, "GOFLAGS=-mod=mod", "GOPROXY=off", "GOSUMDB=off", "GOTOOLCHAIN=local")
	return env
}

func run(id, tier, seed, replay, verif, pkg, scratch string) int {
	start := time.Now()
	bin := filepath.Join(scratch, strings.ToLower(id))
	args := []string{"build", "-tags", "verif"}
	if raceBuild[id] {
		args = append(args, "-race")
	}
	if alt := os.Getenv("VERIF_REPO"); alt != "" {
		// Validation aid: build against a scratch copy of the repository (seeded
		// mutations). Never used by the registered commands.
		gm, err := os.ReadFile(filepath.Join(verif, "go.mod"))
		must(err)
		gm2 := strings.Replace(string(gm), "=> /repo", "=> "+alt, 1)
		must(os.WriteFile(filepath.Join(scratch, "go.mod"), []byte(gm2), 0644))
		gs, _ := os.ReadFile(filepath.Join(verif, "go.sum"))
		os.WriteFile(filepath.Join(scratch, "go.sum"), gs, 0644)
		args = append(args, "-modfile="+filepath.Join(scratch, "go.mod"))
		fmt.Printf("vcheck: building against VERIF_REPO=%s\n", alt)
	}
	args = append(args, "-o", bin, pkg)
	build := exec.Command("go", args...)
	build.Dir = verif
	build.Env = goEnv()
	out, err := build.CombinedOutput()
	if err != nil {
		os.Stdout.Write(out)
		fmt.Printf("INCONCLUSIVE property=%s reason=build-failed\n", id)
		return 2
	}
	fmt.Printf("vcheck: built %s in %.1fs\n", pkg, time.Since(start).Seconds())

	evidence := filepath.Join(verif, "evidence", id+".json")
	replays := filepath.Join("replays", id)
	if os.Getenv("VERIF_REPO") != "" {
		// keep the registered evidence untouched when validating against a copy
		evidence = filepath.Join(verif, "replays", "alt-evidence", id+".json")
		replays = filepath.Join("replays", "alt", id)
	}
	known := filepath.Join(verif, "known_findings.jsonl")
	caselog := filepath.Join(scratch, "cases.log")

	mul := 1.0
	for attempt := 0; attempt < 2; attempt++ {
		os.Remove(caselog)
		margs := []string{"-tier", tier, "-seed", seed, "-evidence", evidence, "-replays", replays,
			"-known", known, "-caselog", caselog, "-watchdog-mul", fmt.Sprint(mul)}
		if replay != "" {
			margs = append(margs, "-replay", replay)
		}
		code, stdout, stderrTail := runMonitor(bin, margs, verif, scratch, raceBuild[id])
		switch code {
		case 0:
			if strings.Contains(stdout, "\nVIOLATION ") || strings.HasPrefix(stdout, "VIOLATION ") {
				return 1
			}
			return 0
		case 1:
			return 1
		case 10:
			return 2
		case 11:
			if attempt == 0 {
				fmt.Printf("vcheck: watchdog fired once (undecided); re-running with 3x limits\n")
				mul = 3
				continue
			}
			path := crashReplay(verif, id, seed, tier, "progress", caselog, stderrTail)
			fmt.Printf("VIOLATION property=%s replay=%s key=progress bounded-progress watchdog fired twice (second time with 3x limit)\n", id, path)
			writeCrashEvidence(evidence, id, tier, seed, start, "watchdog fired twice")
			return 1
		default:
			key := "crash"
			if code == 66 {
				key = "race"
			}
			if site := crashSite(stderrTail); site != "" {
				key += "/" + site
			}
			if f, ok := knownFinding(known, id, key); ok {
				// A listed process-fatal finding cannot be continued past; report it and
				// stop as inconclusive so that it is not mistaken for "held".
				fmt.Printf("KNOWN-FINDING: property=%s key=%s %s\n", id, key, f)
				fmt.Printf("INCONCLUSIVE property=%s reason=process-fatal-known-finding\n", id)
				return 2
			}
			path := crashReplay(verif, id, seed, tier, key, caselog, stderrTail)
			fmt.Printf("VIOLATION property=%s replay=%s key=%s monitor process died (exit %d); last logged cases and stderr tail are in the replay file\n", id, path, key, code)
			writeCrashEvidence(evidence, id, tier, seed, start, fmt.Sprintf("process died with exit %d", code))
			return 1
		}
	}
	return 2
}

func runMonitor(bin string, args []string, dir, scratch string, race bool) (int, string, string) {
	cmd := exec.Command(bin, args...)
	cmd.Dir = dir
	cmd.Env = os.Environ()
	if race {
		cmd.Env = append(cmd.Env, "GORACE=halt_on_error=1 exitcode=66")
	}
	errPath := filepath.Join(scratch, "stderr.log")
	errFile, err := os.Create(errPath)
	must(err)
	var outBuf bytes.Buffer
	cmd.Stdout = io.MultiWriter(os.Stdout, &outBuf)
	cmd.Stderr = errFile
	err = cmd.Run()
	errFile.Close()
	tail := tailFile(errPath, 24000)
	code := 0
	if err != nil {
		if ee, ok := err.(*exec.ExitError); ok {
			code = ee.ExitCode()
			if code < 0 {
				code = 137
			}
		} else {
			code = 127
		}
	}
	if code != 0 && code != 1 {
		os.Stderr.WriteString(tail)
	} else if len(tail) > 0 {
		// monitor diagnostics
		if len(tail) > 4000 {
			tail = tail[len(tail)-4000:]
		}
		os.Stderr.WriteString(tail)
	}
	return code, outBuf.String(), tail
}

func tailFile(path string, n int64) string {
	f, err := os.Open(path)
	if err != nil {
		return ""
	}
	defer f.Close()
	st, _ := f.Stat()
	if st.Size() > n {
		f.Seek(st.Size()-n, 0)
	}
	data, _ := io.ReadAll(f)
	return string(data)
}

// crashSite names the first model3d function in a fatal stack or race report.
func crashSite(stderr string) string {
	sc := bufio.NewScanner(strings.NewReader(stderr))
	sc.Buffer(make([]byte, 1<<20), 1<<20)
	for sc.Scan() {
		line := strings.TrimSpace(sc.Text())
		if strings.HasPrefix(line, "github.com/unixpickle/model3d/") {
			line = strings.TrimPrefix(line, "github.com/unixpickle/model3d/")
			if i := strings.LastIndex(line, "("); i > 0 {
				line = line[:i]
			}
			line = strings.Replace(line, "[...]", "", -1)
			return line
		}
	}
	return ""
}

func knownFinding(path, id, key string) (string, bool) {
	f, err := os.Open(path)
	if err != nil {
		return "", false
	}
	defer f.Close()
	sc := bufio.NewScanner(f)
	sc.Buffer(make([]byte, 1<<20), 1<<20)
	for sc.Scan() {
		var k struct {
			Property, Key, Status, What string
		}
		if json.Unmarshal(sc.Bytes(), &k) == nil && k.Property == id && k.Key == key && k.Status == "known" {
			return k.What, true
		}
	}
	return "", false
}

func crashReplay(verif, id, seed, tier, key, caselog, stderrTail string) string {
	dir := filepath.Join(verif, "replays", id)
	if os.Getenv("VERIF_REPO") != "" {
		dir = filepath.Join(verif, "replays", "alt", id)
	}
	os.MkdirAll(dir, 0755)
	lines := strings.Split(strings.TrimSpace(tailFile(caselog, 8000)), "\n")
	if len(lines) > 40 {
		lines = lines[len(lines)-40:]
	}
	section, index := "", 0
	for i := len(lines) - 1; i >= 0; i-- {
		if !strings.HasPrefix(lines[i], "#") {
			fmt.Sscan(lines[i], &section, &index)
			break
		}
	}
	var seedN int64
	fmt.Sscan(seed, &seedN)
	obj := map[string]interface{}{
		"property": id, "key": key, "seed": seedN, "tier": tier, "section": section, "index": index,
		"last_logged_cases": lines, "stderr_tail": stderrTail,
	}
	data, _ := json.MarshalIndent(obj, "", " ")
	name := strings.Map(func(r rune) rune {
		if r == '/' || r == ' ' || r == '*' || r == '(' || r == ')' {
			return '_'
		}
		return r
	}, key)
	path := filepath.Join("replays", id, fmt.Sprintf("%s-s%s-%s.json", name, seed, tier))
	os.WriteFile(filepath.Join(verif, path), data, 0644)
	return path
}

func writeCrashEvidence(path, id, tier, seed string, start time.Time, why string) {
	var seedN int64
	fmt.Sscan(seed, &seedN)
	level := "exploration"
	if id == "C16" {
		level = "fault_enumeration"
	}
	ev := map[string]interface{}{
		"property_id": id, "tier": tier, "seed": seedN, "level": level,
		"coverage": map[string]interface{}{
			"evaluations": 1, "distinct_nontrivial": 0, "rule": "monitor process ended abnormally: " + why,
			"samples": []string{why},
		},
		"wall_s": time.Since(start).Seconds(), "violations": 1,
	}
	data, _ := json.MarshalIndent(ev, "", " ")
	os.MkdirAll(filepath.Dir(path), 0755)
	os.WriteFile(path, data, 0644)
}

func envOr(k, d string) string {
	if v := os.Getenv(k); v != "" {
		return v
	}
	return d
}

func must(err error) {
	if err != nil {
		fmt.Fprintln(os.Stderr, err)
		os.Exit(70)
	}
}
