// C04 — Solid combinators implement exact, order-independent set algebra.
// Shape: seeded hostile operand lists + pointwise executable reference
// (DESIGN.md C04). See the file comments of boolean.go, stack.go, smooth.go and
// rectset.go for the oracles.
package main

import (
	"verif/vlib"
)

func main() {
	r := vlib.Start("C04", "exploration")
	r.ScaleQuick(3) // quick tier: 3x the case counts written at the sections (still well under a minute)
	r.Rule("operand lists of 1..12 solids built by the harness (closed-form balls, boxes, flat boxes, checkerboards, shells, library primitives; duplicates of the very same solid; nesting up to two levels of join/intersect/subtract/Optimize/SolidMux), on dyadic coordinates (touching, coincident and nested operands, exact boundaries) and on random reals; query points on every bound of every solid of the scene (and one ulp either side), on the half-step lattice, uniform and far away; every accelerated or nested form is compared with the boolean formula over the operands' own Contains at the same point, under all n! operand orders for n<=4 and >=8 orders otherwise; smooth joins: the query point is chosen first and balls/boxes are placed at prescribed exact signed distances (some within, some beyond the radius, ties included) and evaluated under all 3!/4! arrival orders, plus random scenes; RectSet: Add/Remove/AddRectSet/RemoveRectSet histories against a cell-array model. A case is non-trivial if it has >=3 operands and points inside, outside and inside >=2 operands (boolean), a point contained through a translated operand (stack), a point within the radius of >=2 surfaces (smooth), or >=4 operations with a removal and a non-empty result (RectSet); distinct by hash of the operand/operation descriptions")
	r.Assume("operands are only trusted pointwise: the reference is a formula over each operand's own Contains/SDF at the same (for stacks: the translated) point; a point where an operand answers true outside its own bounding box breaks the Solid precondition and is undecided")
	r.Assume("stacked solids: offsets are recomputed from the operands' reported bounds; exact workload on multiples of 1/8, float workload with a 1e-9 margin to every decision boundary of the translated harness leaves")
	r.Assume("smooth joins: the blend shape inside the zone within the radius of two or more surfaces is not specified; only order invariance is demanded there. SmoothJoinV2 order invariance is undecided when the second and third closest distances tie (the normal used is then ambiguous)")
	r.Assume("RectSet: boxes are closed; points on a removed box that still touch a present cell are undecided (literal and regularised difference disagree there)")

	k3 := newKit3()
	k2 := newKit2()

	booleanSection(r, k3, r.N(5000, 30000))
	booleanSection(r, k2, r.N(4000, 24000))
	stackSection(r, k3, r.N(12000, 70000))
	smoothSections(r, k3, r.N(24000, 150000), r.N(5000, 30000))
	smoothSections(r, k2, r.N(24000, 150000), r.N(5000, 30000))
	rectSetSection(r, r.N(6000, 36000))
	rectSetForkSection(r, r.N(2500, 20000))
	rectSetUnboundedSection(r, r.N(2000, 20000))

	for _, t := range []string{"3d", "2d"} {
		r.Require(t+".bool.points", 10000)
		r.Require(t+".bool.join", 10000)
		r.Require(t+".bool.intersect", 10000)
		r.Require(t+".bool.optimize", 10000)
		r.Require(t+".bool.subtract", 5000)
		r.Require(t+".bool.nested.join", 500)
		r.Require(t+".bool.nested.intersect", 500)
		r.Require(t+".bool.nested.subtract", 500)
		r.Require(t+".bool.nested.optimize", 500)
		r.Require(t+".bool.nested.mux", 500)
		r.Require(t+".mux.points", 10000)
		r.Require(t+".mux.callbacks", 10000)
		r.Require(t+".mux.points_in_two_or_more", 1000)
		r.Require(t+".mux.leaf_calls_pruned_by_bbox", 100)
		r.Require(t+".mux.empty_points", 10)
		for _, v := range []string{"smoothjoin", "smoothjoinv2"} {
			r.Require(t+"."+v+".order_points", 10000)
			r.Require(t+"."+v+".points_in_blend_zone", 2000)
			r.Require(t+"."+v+".points_added_by_smoothing", 500)
			r.Require(t+"."+v+".points_inside_union", 1000)
			r.Require(t+"."+v+".points_away_from_meeting", 1000)
			r.Require(t+"."+v+".points_near_exactly_one", 200)
			r.Require(t+"."+v+".points_single_operand_within_radius", 50)
			r.Require(t+"."+v+".points_radius_zero_outside", 500)
		}
		r.Require(t+".smoothorder.scenes", 1000)
		r.Require(t+".smoothorder.operands_3", 300)
		r.Require(t+".smoothorder.operands_4", 300)
		r.Require(t+".smoothorder.scenes_with_blend_point", 300)
	}
	r.Require("3d.stack.points_exact", 10000)
	r.Require("3d.stack.points_float", 5000)
	r.Require("3d.stack.points_inside_translated_operand", 2000)
	r.Require("3d.stack.points_on_interface", 200)
	r.Require("rectset.histories", 100)
	r.Require("rectset.unbounded.points_inside", 2000)
	r.Require("rectset.histories_with_removal", 50)
	r.Require("rectset.points", 50000)
	r.Require("rectset.points_on_set_boundary_decided", 1000)
	r.Finish()
}
