// model2d adapter of the dimension-agnostic engine.
package main

import (
	"fmt"
	"math/rand"

	"github.com/unixpickle/model3d/model2d"
)

func c2(v vec) model2d.Coord { return model2d.XY(v[0], v[1]) }
func v2(c model2d.Coord) vec { return vec{c.X, c.Y, 0} }

type hLeaf2 struct{ g *leafG }

func (h *hLeaf2) Min() model2d.Coord            { return c2(h.g.lo) }
func (h *hLeaf2) Max() model2d.Coord            { return c2(h.g.hi) }
func (h *hLeaf2) Contains(c model2d.Coord) bool { return h.g.contains(v2(c)) }

type s2 struct{ S model2d.Solid }

func (s s2) Has(x vec) bool { return s.S.Contains(c2(x)) }
func (s s2) Lo() vec        { return v2(s.S.Min()) }
func (s s2) Hi() vec        { return v2(s.S.Max()) }

func native2(ops []solidG) []model2d.Solid {
	res := make([]model2d.Solid, len(ops))
	for i, o := range ops {
		switch o := o.(type) {
		case s2:
			res[i] = o.S
		case *mux2:
			res[i] = o.M
		default:
			panic("foreign solid")
		}
	}
	return res
}

type mux2 struct {
	M *model2d.SolidMux
}

func (m *mux2) Has(x vec) bool   { return m.M.Contains(c2(x)) }
func (m *mux2) Lo() vec          { return v2(m.M.Min()) }
func (m *mux2) Hi() vec          { return v2(m.M.Max()) }
func (m *mux2) All(x vec) []bool { return m.M.AllContains(c2(x)) }
func (m *mux2) Iter(x vec, f func(int)) int {
	return m.M.IterContains(c2(x), f)
}
func (m *mux2) SameSolids(ops []solidG) bool {
	got := m.M.Solids()
	want := native2(ops)
	if len(got) != len(want) {
		return false
	}
	for i := range got {
		if !sameIface(got[i], want[i]) {
			return false
		}
	}
	return true
}

type hSDF2 struct{ g *sdfLeafG }

func (h *hSDF2) Min() model2d.Coord { return c2(h.g.lo) }
func (h *hSDF2) Max() model2d.Coord { return c2(h.g.hi) }
func (h *hSDF2) SDF(c model2d.Coord) float64 {
	_, d := h.g.ndist(v2(c))
	return d
}
func (h *hSDF2) NormalSDF(c model2d.Coord) (model2d.Coord, float64) {
	n, d := h.g.ndist(v2(c))
	return c2(n), d
}

type sdf2 struct {
	S    model2d.NormalSDF
	desc string
}

func (s sdf2) Lo() vec            { return v2(s.S.Min()) }
func (s sdf2) Hi() vec            { return v2(s.S.Max()) }
func (s sdf2) Dist(x vec) float64 { return s.S.SDF(c2(x)) }
func (s sdf2) NDist(x vec) (vec, float64) {
	n, d := s.S.NormalSDF(c2(x))
	return v2(n), d
}
func (s sdf2) Desc() string { return s.desc }

func nativeSDF2(ops []sdfG) []model2d.NormalSDF {
	res := make([]model2d.NormalSDF, len(ops))
	for i, o := range ops {
		res[i] = o.(sdf2).S
	}
	return res
}

func libShape2(rng *rand.Rand, dyadic bool) (interface {
	model2d.Solid
	model2d.NormalSDF
}, string) {
	coord := func() float64 {
		if dyadic {
			return dy(rng, 4, 2)
		}
		return rng.NormFloat64() * 2
	}
	size := func() float64 {
		if dyadic {
			return float64(1+rng.Intn(8)) / 4
		}
		return 0.05 + rng.ExpFloat64()
	}
	pt := func() model2d.Coord { return model2d.XY(coord(), coord()) }
	switch rng.Intn(4) {
	case 0:
		s := &model2d.Circle{Center: pt(), Radius: size()}
		return s, fmt.Sprintf("lib.Circle(%v,%g)", s.Center, s.Radius)
	case 1:
		mn := pt()
		r := &model2d.Rect{MinVal: mn, MaxVal: mn.Add(model2d.XY(size(), size()))}
		return r, fmt.Sprintf("lib.Rect(%v,%v)", r.MinVal, r.MaxVal)
	case 2:
		for {
			a, b := pt(), pt()
			if a.Dist(b) > 0.1 {
				s := &model2d.Capsule{P1: a, P2: b, Radius: size()}
				return s, fmt.Sprintf("lib.Capsule(%v,%v,%g)", a, b, s.Radius)
			}
		}
	default:
		for {
			a, b, c := pt(), pt(), pt()
			// clearly non-degenerate triangles only
			area := (b.X-a.X)*(c.Y-a.Y) - (b.Y-a.Y)*(c.X-a.X)
			if area > 0.1 || area < -0.1 {
				s := model2d.NewTriangle(a, b, c)
				return s, fmt.Sprintf("lib.Triangle(%v,%v,%v)", a, b, c)
			}
		}
	}
}

func newKit2() *kit {
	return &kit{
		dim: 2, pkg: "model2d", tag: "2d",
		leaf: func(l *leafG) solidG { return s2{&hLeaf2{l}} },
		libLeaf: func(rng *rand.Rand, dyadic bool) (solidG, string) {
			s, d := libShape2(rng, dyadic)
			return s2{s}, d
		},
		join:      func(ops []solidG) solidG { return s2{model2d.JoinedSolid(native2(ops))} },
		intersect: func(ops []solidG) solidG { return s2{model2d.IntersectedSolid(native2(ops))} },
		subtract: func(pos, neg solidG) solidG {
			n := native2([]solidG{pos, neg})
			return s2{&model2d.SubtractedSolid{Positive: n[0], Negative: n[1]}}
		},
		optimize: func(ops []solidG) solidG {
			// the caller keeps its operand list: Optimize must not reorder or overwrite it
			list := native2(ops)
			before := append([]model2d.Solid{}, list...)
			res := model2d.JoinedSolid(list).Optimize()
			for i := range list {
				if !sameOperand(list[i], before[i]) {
					optimizeReordered.Add(1)
					break
				}
			}
			optimizeChecked.Add(1)
			return s2{res}
		},
		mux:      func(ops []solidG) muxG { return &mux2{model2d.NewSolidMux(native2(ops))} },
		staged: func(ops []solidG, cuts []int) (solidG, solidG) {
			all := native2(ops)
			outer := model2d.JoinedSolid{}
			for _, cut := range cuts {
				outer = append(outer, model2d.JoinedSolid(all[:cut]))
			}
			return s2{outer}, s2{outer.Optimize()}
		},

		sdfLeaf: func(l *sdfLeafG) sdfG { return sdf2{&hSDF2{l}, l.desc()} },
		libSDF: func(rng *rand.Rand, dyadic bool) sdfG {
			s, d := libShape2(rng, dyadic)
			return sdf2{s, d}
		},
		smooth: func(radius float64, ops []sdfG) solidG {
			n := nativeSDF2(ops)
			plain := make([]model2d.SDF, len(n))
			for i, s := range n {
				plain[i] = s
			}
			return s2{model2d.SmoothJoin(radius, plain...)}
		},
		smoothV2: func(radius float64, ops []sdfG) solidG {
			return s2{model2d.SmoothJoinV2(radius, nativeSDF2(ops)...)}
		},
	}
}
