// Dimension-agnostic layer of the C04 monitor.
//
// The oracles of C04 are the same in 2D and 3D ("boolean formula over the
// operands' own Contains", "same answer under every operand order", ...), so the
// engine works on points of type vec ([3]float64; the third component is 0 in
// 2D) and on the small interfaces below. kit3.go / kit2.go adapt model3d and
// model2d to them; nothing in here calls the library directly.
package main

import (
	"fmt"
	"math"
	"math/rand"
	"reflect"
	"sort"
	"strings"
	"sync/atomic"

	"verif/vlib"
)

// caseCtx batches the evidence counters of one case locally and hands them to
// the run once, at the end of the case (the run's counters sit behind one mutex
// and the hot loops below count several times per query point).
type caseCtx struct {
	*vlib.Case
	counts map[string]int64
	undec  map[string]int64
}

func newCase(c *vlib.Case) *caseCtx {
	return &caseCtx{Case: c, counts: map[string]int64{}, undec: map[string]int64{}}
}

func (c *caseCtx) Count(name string, n int64) { c.counts[name] += n }
func (c *caseCtx) Undecided(reason string)    { c.undec[reason]++ }

func (c *caseCtx) flush() {
	for k, v := range c.counts {
		c.Case.Count(k, v)
	}
	for k, v := range c.undec {
		for i := int64(0); i < v; i++ {
			c.Case.Undecided(k)
		}
	}
}

type vec [3]float64

func (v vec) hex(dim int) string {
	if dim == 2 {
		return fmt.Sprintf("(%x,%x)", v[0], v[1])
	}
	return fmt.Sprintf("(%x,%x,%x)", v[0], v[1], v[2])
}

func (v vec) dec(dim int) string {
	if dim == 2 {
		return fmt.Sprintf("(%g,%g)", v[0], v[1])
	}
	return fmt.Sprintf("(%g,%g,%g)", v[0], v[1], v[2])
}

// solidG is a library-facing solid (native model3d.Solid / model2d.Solid
// underneath) seen through the engine's point type.
type solidG interface {
	Has(x vec) bool
	Lo() vec
	Hi() vec
}

// muxG is a SolidMux.
type muxG interface {
	solidG
	All(x vec) []bool
	Iter(x vec, f func(int)) int // f may be nil
	// SameSolids reports whether Solids() returns exactly the operands the mux
	// was built from, in order.
	SameSolids(ops []solidG) bool
}

// sdfG is a library-facing SDF with normals.
type sdfG interface {
	Lo() vec
	Hi() vec
	Dist(x vec) float64
	NDist(x vec) (vec, float64)
	Desc() string
}

// kit is the set of library constructors for one dimension.
type kit struct {
	dim  int
	pkg  string // "model3d" / "model2d": prefix of violation keys
	tag  string // "3d" / "2d": prefix of evidence counters
	leaf func(l *leafG) solidG
	// libLeaf returns a library primitive with the given style of coordinates.
	libLeaf   func(rng *rand.Rand, dyadic bool) (solidG, string)
	join      func(ops []solidG) solidG
	intersect func(ops []solidG) solidG
	subtract  func(pos, neg solidG) solidG
	optimize  func(ops []solidG) solidG
	mux       func(ops []solidG) muxG
	// staged: a scene assembled in stages from ONE list of parts: the nested joins are the prefix
	// views list[:cut] (same backing array, same first element, different lengths), put into an
	// outer join in the given order; returns that outer join plain and optimised
	staged func(ops []solidG, cuts []int) (plain, optimized solidG)
	// 3D only (nil in 2D)
	stackSolids  func(ops []solidG) solidG
	stackedSolid func(ops []solidG) solidG

	sdfLeaf  func(l *sdfLeafG) sdfG
	libSDF   func(rng *rand.Rand, dyadic bool) sdfG
	smooth   func(radius float64, ops []sdfG) solidG
	smoothV2 func(radius float64, ops []sdfG) solidG
}

func inBox(x, lo, hi vec, dim int) bool {
	for k := 0; k < dim; k++ {
		if !(x[k] >= lo[k] && x[k] <= hi[k]) {
			return false
		}
	}
	return true
}

func inBounds(s interface {
	Lo() vec
	Hi() vec
}, x vec, dim int) bool {
	return inBox(x, s.Lo(), s.Hi(), dim)
}

// ---------------------------------------------------------------------------
// harness leaves: closed-form, deterministic, bounds-checked by construction

const (
	lkSphere  = iota // closed ball
	lkBox            // closed box (may be flat in some axes)
	lkChecker        // checkerboard inside a box: hostile, non-convex, many components
	lkShell          // closed spherical shell r2 <= |x-c| <= r
)

type leafG struct {
	dim    int
	kind   int
	c      vec
	r, r2  float64
	lo, hi vec
	cell   float64
	calls  int64 // Contains calls (cases are single-threaded)
	outOfB int64 // ... of which at points outside the leaf's own bounds
}

func (l *leafG) desc() string {
	switch l.kind {
	case lkSphere:
		return fmt.Sprintf("ball(c=%s r=%g)", l.c.dec(l.dim), l.r)
	case lkBox:
		return fmt.Sprintf("box(%s..%s)", l.lo.dec(l.dim), l.hi.dec(l.dim))
	case lkChecker:
		return fmt.Sprintf("checker(%s..%s cell=%g)", l.lo.dec(l.dim), l.hi.dec(l.dim), l.cell)
	default:
		return fmt.Sprintf("shell(c=%s r=%g..%g)", l.c.dec(l.dim), l.r2, l.r)
	}
}

func (l *leafG) dist2(x vec) float64 {
	s := 0.0
	for k := 0; k < l.dim; k++ {
		d := x[k] - l.c[k]
		s += d * d
	}
	return s
}

func (l *leafG) contains(x vec) bool {
	l.calls++
	if !inBox(x, l.lo, l.hi, l.dim) {
		l.outOfB++
		return false
	}
	switch l.kind {
	case lkSphere:
		return l.dist2(x) <= l.r*l.r
	case lkBox:
		return true
	case lkChecker:
		p := 0
		for k := 0; k < l.dim; k++ {
			p += int(math.Floor((x[k] - l.lo[k]) / l.cell))
		}
		return p%2 == 0
	default:
		d2 := l.dist2(x)
		return d2 <= l.r*l.r && d2 >= l.r2*l.r2
	}
}

// margin is a lower bound of the distance from x to the nearest point where
// contains() changes its answer (used only by the floating-point stack
// workload).
func (l *leafG) margin(x vec) float64 {
	m := math.Inf(1)
	for k := 0; k < l.dim; k++ {
		m = math.Min(m, math.Abs(x[k]-l.lo[k]))
		m = math.Min(m, math.Abs(x[k]-l.hi[k]))
	}
	switch l.kind {
	case lkSphere:
		m = math.Min(m, math.Abs(math.Sqrt(l.dist2(x))-l.r))
	case lkShell:
		d := math.Sqrt(l.dist2(x))
		m = math.Min(m, math.Min(math.Abs(d-l.r), math.Abs(d-l.r2)))
	case lkChecker:
		for k := 0; k < l.dim; k++ {
			t := (x[k] - l.lo[k]) / l.cell
			m = math.Min(m, math.Abs(t-math.Round(t))*l.cell)
		}
	}
	return m
}

// dy returns a random multiple of 1/den in [-lim, lim].
func dy(rng *rand.Rand, lim int, den int) float64 {
	return float64(rng.Intn(2*lim*den+1)-lim*den) / float64(den)
}

// newLeaf draws a harness leaf. dyadic: every parameter is a small multiple of
// 1/4 (touching, nested and identical operands are then common and every
// boundary coordinate is exactly representable).
func newLeaf(rng *rand.Rand, dim int, dyadic bool) *leafG {
	l := &leafG{dim: dim}
	coord := func() float64 {
		if dyadic {
			return dy(rng, 4, 2)
		}
		return rng.NormFloat64() * 2
	}
	size := func() float64 {
		if dyadic {
			return float64(1+rng.Intn(8)) / 4
		}
		return 0.05 + rng.ExpFloat64()
	}
	switch k := rng.Intn(10); {
	case k < 4:
		l.kind = lkSphere
	case k < 7:
		l.kind = lkBox
	case k < 9:
		l.kind = lkChecker
	default:
		l.kind = lkShell
	}
	switch l.kind {
	case lkSphere, lkShell:
		for k := 0; k < dim; k++ {
			l.c[k] = coord()
		}
		l.r = size()
		l.r2 = l.r / 2
		for k := 0; k < dim; k++ {
			l.lo[k] = l.c[k] - l.r
			l.hi[k] = l.c[k] + l.r
		}
		if !dyadic {
			// c-r / c+r round: make sure the bounds really enclose the ball
			for k := 0; k < dim; k++ {
				l.lo[k] = math.Nextafter(l.lo[k], math.Inf(-1))
				l.hi[k] = math.Nextafter(l.hi[k], math.Inf(1))
			}
		}
	default:
		for k := 0; k < dim; k++ {
			l.lo[k] = coord()
			w := size()
			if l.kind == lkBox && rng.Intn(12) == 0 {
				w = 0 // flat box: valid bounds (max == min), measure zero
			}
			l.hi[k] = l.lo[k] + w
		}
		l.cell = 0.5
		if !dyadic {
			l.cell = 0.2 + rng.Float64()
		}
	}
	return l
}

// ---------------------------------------------------------------------------
// harness SDF leaves (closed forms written from the definitions)

const (
	skSphere = iota
	skBox
)

type sdfLeafG struct {
	dim    int
	kind   int
	c      vec
	r      float64
	lo, hi vec
}

func (s *sdfLeafG) desc() string {
	if s.kind == skSphere {
		return fmt.Sprintf("sdf-ball(c=%s r=%g)", s.c.dec(s.dim), s.r)
	}
	return fmt.Sprintf("sdf-box(%s..%s)", s.lo.dec(s.dim), s.hi.dec(s.dim))
}

// ndist returns the unit normal at the nearest surface point and the signed
// distance (positive inside).
func (s *sdfLeafG) ndist(x vec) (vec, float64) {
	var n vec
	if s.kind == skSphere {
		d2 := 0.0
		for k := 0; k < s.dim; k++ {
			d := x[k] - s.c[k]
			d2 += d * d
		}
		d := math.Sqrt(d2)
		if d == 0 {
			n[0] = 1
		} else {
			for k := 0; k < s.dim; k++ {
				n[k] = (x[k] - s.c[k]) / d
			}
		}
		return n, s.r - d
	}
	// box
	outside := false
	var q vec // clamped point
	for k := 0; k < s.dim; k++ {
		q[k] = math.Max(s.lo[k], math.Min(s.hi[k], x[k]))
		if q[k] != x[k] {
			outside = true
		}
	}
	if outside {
		d2 := 0.0
		for k := 0; k < s.dim; k++ {
			d := x[k] - q[k]
			d2 += d * d
		}
		d := math.Sqrt(d2)
		for k := 0; k < s.dim; k++ {
			n[k] = (x[k] - q[k]) / d
		}
		return n, -d
	}
	best := math.Inf(1)
	for k := 0; k < s.dim; k++ {
		a, b := x[k]-s.lo[k], s.hi[k]-x[k]
		if a < best {
			best = a
			n = vec{}
			n[k] = -1
		}
		if b < best {
			best = b
			n = vec{}
			n[k] = 1
		}
	}
	return n, best
}

// ---------------------------------------------------------------------------
// permutations

// perms returns all n! orders for n <= 4, otherwise identity, reverse, two
// rotations, an adjacent swap and random shuffles up to count (>= 6).
func perms(rng *rand.Rand, n, count int) [][]int {
	id := make([]int, n)
	for i := range id {
		id[i] = i
	}
	if n <= 4 {
		var res [][]int
		var rec func(k int)
		p := append([]int{}, id...)
		rec = func(k int) {
			if k == n {
				res = append(res, append([]int{}, p...))
				return
			}
			for i := k; i < n; i++ {
				p[k], p[i] = p[i], p[k]
				rec(k + 1)
				p[k], p[i] = p[i], p[k]
			}
		}
		rec(0)
		return res
	}
	if count < 6 {
		count = 6
	}
	res := [][]int{id}
	rev := make([]int, n)
	rot1 := make([]int, n)
	rot2 := make([]int, n)
	for i := 0; i < n; i++ {
		rev[i] = n - 1 - i
		rot1[i] = (i + 1) % n
		rot2[i] = (i + n/2) % n
	}
	sw := append([]int{}, id...)
	sw[0], sw[1] = sw[1], sw[0]
	res = append(res, rev, rot1, rot2, sw)
	for len(res) < count {
		res = append(res, rng.Perm(n))
	}
	return res
}

func permKey(p []int) string {
	var b strings.Builder
	for _, i := range p {
		fmt.Fprintf(&b, "%d,", i)
	}
	return b.String()
}

// ---------------------------------------------------------------------------
// query points

// queryPoints draws n points aimed at the decision boundaries of a scene: every
// coordinate that is a bound of some solid of the scene (exactly, and one ulp
// either side when nudge is set), the half-step lattice over the scene, uniform
// points and a few far away ones.
func queryPoints(rng *rand.Rand, dim int, los, his []vec, n int, nudge bool, extra []vec) []vec {
	var vals [3][]float64
	lo, hi := los[0], his[0]
	for i := range los {
		for k := 0; k < dim; k++ {
			vals[k] = append(vals[k], los[i][k], his[i][k], (los[i][k]+his[i][k])/2)
			lo[k] = math.Min(lo[k], los[i][k])
			hi[k] = math.Max(hi[k], his[i][k])
		}
	}
	for k := 0; k < dim; k++ {
		sort.Float64s(vals[k])
	}
	res := append([]vec{}, extra...)
	for len(res) < n {
		var p vec
		switch m := rng.Intn(20); {
		case m < 8: // boundary coordinates
			for k := 0; k < dim; k++ {
				v := vals[k][rng.Intn(len(vals[k]))]
				if nudge {
					switch rng.Intn(6) {
					case 0:
						v = math.Nextafter(v, math.Inf(1))
					case 1:
						v = math.Nextafter(v, math.Inf(-1))
					}
				}
				p[k] = v
			}
		case m < 13: // half-step lattice
			for k := 0; k < dim; k++ {
				a := math.Floor(lo[k]*2) - 1
				b := math.Ceil(hi[k]*2) + 1
				p[k] = (a + float64(rng.Intn(int(b-a)+1))) / 2
			}
		case m < 19: // uniform in the slightly enlarged scene box
			for k := 0; k < dim; k++ {
				w := hi[k] - lo[k]
				p[k] = lo[k] - 0.05*w - 0.01 + rng.Float64()*(1.1*w+0.02)
			}
		default: // far away
			for k := 0; k < dim; k++ {
				p[k] = (rng.Float64()*2 - 1) * math.Pow(10, float64(rng.Intn(12)))
			}
		}
		res = append(res, p)
	}
	return res
}

// optimizeReordered counts JoinedSolid.Optimize() calls after which the caller's operand list was
// no longer what it had been (checked inside the kits, reported by the boolean sections).
var optimizeReordered, optimizeChecked atomic.Int64

// sameOperand: identity of two operands held in interface values (pointers and slices by address
// and length, other comparable values by ==; operands are never copied by the kits).
func sameOperand(a, b interface{}) bool {
	va, vb := reflect.ValueOf(a), reflect.ValueOf(b)
	if va.Type() != vb.Type() {
		return false
	}
	switch va.Kind() {
	case reflect.Ptr, reflect.Map, reflect.Func, reflect.Chan, reflect.UnsafePointer:
		return va.Pointer() == vb.Pointer()
	case reflect.Slice:
		return va.Pointer() == vb.Pointer() && va.Len() == vb.Len()
	}
	if va.Type().Comparable() {
		return a == b
	}
	return true
}
