// StackSolids / StackedSolid (3D only): the stacked solid must contain exactly
// the union of the operands translated along Z so that each one starts where
// the previous one's bounding box ends. Offsets are recomputed here from the
// operands' reported bounds.
//
// Two workloads: "exact" (every Z bound and every query Z is a small multiple
// of 1/8, so translated coordinates are exact and every point is decided,
// including points exactly on the interfaces) and "float" (random reals, harness
// leaves only, points closer than 1e-9 to a decision boundary of a translated
// operand are undecided).
package main

import (
	"fmt"
	"math"
	"strings"

	"verif/vlib"
)

func isEighth(x float64) bool {
	return math.Abs(x) < 1<<20 && x*8 == math.Floor(x*8)
}

func stackOffsets(ops []solidG) (offs []float64, tops []float64) {
	offs = make([]float64, len(ops))
	tops = make([]float64, len(ops))
	top := ops[0].Hi()[2]
	tops[0] = top
	for i := 1; i < len(ops); i++ {
		offs[i] = top - ops[i].Lo()[2]
		top = ops[i].Hi()[2] + offs[i]
		tops[i] = top
	}
	return
}

func stackSection(r *vlib.Run, k *kit, nCases int) {
	const T = "3d.stack."
	keys := [2]string{"model3d.StackSolids/translated-union", "model3d.StackedSolid.Contains/translated-union"}
	r.Section("stack", nCases, vlib.SectionOpts{}, func(c0 *vlib.Case) {
		c := newCase(c0)
		defer c.flush()
		rng := c.Rng
		exact := rng.Intn(3) != 0
		b := &builder{k: k, rng: rng, dyadic: exact}
		n := 1 + rng.Intn(8)
		var ops []*node
		for len(ops) < n {
			var nd *node
			if exact {
				nd = b.operand(1) // leaves and one level of nesting
				if !isEighth(nd.s.Lo()[2]) || !isEighth(nd.s.Hi()[2]) {
					continue // e.g. Cylinder bounds carry a 1e-8 slack: offsets would not be exact
				}
			} else {
				l := newLeaf(rng, 3, false)
				nd = &node{kind: "leaf", s: k.leaf(l), hl: l, desc: l.desc()}
			}
			ops = append(ops, nd)
		}
		so := solidsOf(ops)
		libs := [2]solidG{k.stackSolids(so), k.stackedSolid(so)}
		offs, tops := stackOffsets(so)
		c.Count(T+"cases", 1)
		if exact {
			c.Count(T+"cases_exact", 1)
		}
		c.Count(fmt.Sprintf("%soperands_%d", T, n), 1)

		// query points
		lo, hi := so[0].Lo(), so[0].Hi()
		for _, s := range so {
			for a := 0; a < 2; a++ {
				lo[a] = math.Min(lo[a], s.Lo()[a])
				hi[a] = math.Max(hi[a], s.Hi()[a])
			}
		}
		bottom := so[0].Lo()[2]
		npts := r.N(150, 250)
		inUpper, onIface := false, false
		for q := 0; q < npts; q++ {
			var x vec
			i := rng.Intn(n)
			if exact {
				for a := 0; a < 2; a++ {
					switch rng.Intn(3) {
					case 0:
						x[a] = so[i].Lo()[a]
					case 1:
						x[a] = so[i].Hi()[a]
					default:
						x[a] = math.Floor((lo[a]-0.5+rng.Float64()*(hi[a]-lo[a]+1))*8) / 8
					}
				}
				switch rng.Intn(6) {
				case 0:
					x[2] = tops[i] // exactly on an interface / the top
				case 1:
					x[2] = so[i].Lo()[2] + offs[i] // bottom of translated operand i
				case 2:
					x[2] = tops[i] + float64(rng.Intn(5)-2)/8
				default:
					x[2] = math.Floor((bottom-0.5+rng.Float64()*(tops[n-1]-bottom+1))*8) / 8
				}
				if !isEighth(x[2]) {
					continue
				}
			} else {
				for a := 0; a < 2; a++ {
					w := so[i].Hi()[a] - so[i].Lo()[a]
					x[a] = so[i].Lo()[a] - 0.1*w + rng.Float64()*1.2*w
				}
				if rng.Intn(3) == 0 {
					x[2] = tops[i] + (rng.Float64()*2-1)*math.Pow(10, -float64(1+rng.Intn(6)))
				} else {
					x[2] = bottom - 0.3 + rng.Float64()*(tops[n-1]-bottom+0.6)
				}
			}
			// reference: union of operands evaluated at the translated-back point
			want := false
			undec := ""
			which := -1
			for j, o := range ops {
				y := x
				y[2] = x[2] - offs[j]
				if exact {
					if y[2]+offs[j] != x[2] {
						undec = "stack.inexact-translation"
						break
					}
				} else if o.hl.margin(y) < 1e-9 {
					undec = "stack.margin"
					break
				}
				e := &evalCtx{dim: 3, memo: map[*node]bool{}}
				v := e.eval(o, y)
				if e.oob != nil {
					undec = "operand-contains-outside-own-bounds"
					break
				}
				// a nested operand that is itself wrong at y is reported under its
				// own key, not as a stacking defect
				if !checkTree(c, k, e, o, y, T, map[*node]bool{}) {
					return
				}
				if v {
					want = true
					if which < 0 || j > which {
						which = j
					}
				}
			}
			if undec != "" {
				c.Undecided(undec)
				continue
			}
			if exact {
				c.Count(T+"points_exact", 1)
			} else {
				c.Count(T+"points_float", 1)
			}
			if which >= 1 {
				c.Count(T+"points_inside_translated_operand", 1)
				inUpper = true
			}
			for j := 1; j < n; j++ {
				if x[2] == tops[j-1] {
					c.Count(T+"points_on_interface", 1)
					onIface = true
					break
				}
			}
			for f, lib := range libs {
				got := lib.Has(x)
				if got != want {
					c.Violation(keys[f], fmt.Sprintf("stack of %d answers %v, union of independently translated operands gives %v", n, got, want),
						map[string]interface{}{"operands": descs(ops), "offsets": offs, "point": x.hex(3), "point_dec": x.dec(3), "exact_workload": exact,
							"containing_operand": which})
				}
			}
		}
		if n >= 3 && inUpper {
			sig := "stack|" + strings.Join(descs(ops), "|")
			c.Nontrivial(sig)
			_ = onIface
		}
		if c.Index < 1 {
			c.Sample("stack-operands", 1, map[string]interface{}{"operands": descs(ops), "offsets": offs})
		}
	})
}
