// SmoothJoin / SmoothJoinV2.
//
// Clauses (from the property text):
//
//	permutation-invariance        same answer for every order of the operands
//	never-removes-union-point     a point with some operand SDF > 0 is contained
//	single-operand-equals-union   one operand: contained iff its SDF > 0
//	radius-zero-equals-union      radius 0: contained iff some SDF > 0
//	adds-only-near-two-operands   a point outside every operand and within the
//	                              radius of at most one operand's surface is
//	                              not contained
//
// The shape of the blend itself (points within the radius of two or more
// surfaces) is not specified by the property; there only the order clause is
// checked. Distances are the operands' own SDF values at the query point (the
// harness leaves are closed forms written here; library primitives are asked
// through the same method the join itself calls).
package main

import (
	"fmt"
	"math"
	"math/rand"
	"sort"
	"strings"

	"verif/vlib"
)

const smoothEps = 1e-9

type smoothForms struct {
	ps   [][]int
	libs [2][]solidG // [version][order]
}

func buildSmooth(k *kit, radius float64, ops []sdfG, ps [][]int) *smoothForms {
	f := &smoothForms{ps: ps}
	for _, p := range ps {
		po := make([]sdfG, len(p))
		for j, i := range p {
			po[j] = ops[i]
		}
		f.libs[0] = append(f.libs[0], k.smooth(radius, po))
		f.libs[1] = append(f.libs[1], k.smoothV2(radius, po))
	}
	return f
}

var smoothNames = [2]string{"SmoothJoin", "SmoothJoinV2"}

// smoothPoint applies every clause at x. Returns true if x was in the blend
// zone (outside every operand, within the radius of two or more).
func smoothPoint(c *caseCtx, k *kit, ops []sdfG, radius float64, f *smoothForms, x vec) (blend bool) {
	n := len(ops)
	for v := 0; v < 2; v++ {
		T := k.tag + "." + strings.ToLower(smoothNames[v]) + "."
		api := k.pkg + "." + smoothNames[v] + "/"
		ds := make([]float64, n)
		skip := ""
		for i, o := range ops {
			if v == 0 {
				ds[i] = o.Dist(x)
			} else {
				_, ds[i] = o.NDist(x)
			}
			if math.IsNaN(ds[i]) || math.IsInf(ds[i], 0) {
				skip = "smooth.operand-sdf-not-finite"
			} else if ds[i] > 0 && !inBounds(o, x, k.dim) {
				skip = "smooth.operand-sdf-positive-outside-own-bounds"
			}
		}
		if skip != "" {
			c.Undecided(skip)
			continue
		}
		got := make([]bool, len(f.ps))
		for q := range f.ps {
			got[q] = f.libs[v][q].Has(x)
		}
		wit := func() map[string]interface{} {
			var od []string
			for _, o := range ops {
				od = append(od, o.Desc())
			}
			hd := make([]string, n)
			for i, d := range ds {
				hd[i] = fmt.Sprintf("%x", d)
			}
			var orders []string
			for q, p := range f.ps {
				orders = append(orders, fmt.Sprintf("%v->%v", p, got[q]))
				if q >= 24 {
					break
				}
			}
			return map[string]interface{}{"operands": od, "radius": fmt.Sprintf("%x", radius), "radius_dec": radius, "point": x.hex(k.dim), "point_dec": x.dec(k.dim),
				"operand_sdf": ds, "operand_sdf_hex": hd, "order->answer": orders}
		}

		// --- order clause
		sorted := append([]float64{}, ds...)
		sort.Sort(sort.Reverse(sort.Float64Slice(sorted)))
		if v == 1 && n >= 3 && sorted[1]-sorted[2] < smoothEps && sorted[0] <= 0 {
			// which operand is "second closest" is ambiguous, and V2 uses its normal
			c.Undecided("smooth.v2-second-third-distance-tie")
		} else {
			c.Count(T+"order_points", 1)
			c.Count(T+"orders_compared", int64(len(f.ps)))
			for q := range got {
				if got[q] != got[0] {
					c.Violation(api+"permutation-invariance", fmt.Sprintf("%d operands: order %v answers %v, order %v answers %v", n, f.ps[0], got[0], f.ps[q], got[q]), wit())
					break
				}
			}
		}

		// --- union clauses (identity order)
		onSurface, inside := false, false
		for _, d := range ds {
			if d > smoothEps {
				inside = true
			} else if d >= -smoothEps {
				onSurface = true
			}
		}
		switch {
		case inside:
			c.Count(T+"points_inside_union", 1)
			if !got[0] {
				c.Violation(api+"never-removes-union-point", "a point with an operand SDF > 0 is not contained", wit())
			}
		case onSurface:
			c.Undecided("smooth.on-operand-surface")
		case n == 1:
			c.Count(T+"points_single_operand_outside", 1)
			if -ds[0] < radius {
				c.Count(T+"points_single_operand_within_radius", 1)
			}
			if got[0] {
				c.Violation(api+"single-operand-equals-union", fmt.Sprintf("single operand, SDF=%g <= 0, but the point is contained (radius %g)", ds[0], radius), wit())
			}
		case radius == 0:
			c.Count(T+"points_radius_zero_outside", 1)
			if got[0] {
				c.Violation(api+"radius-zero-equals-union", "radius 0 but a point outside every operand is contained", wit())
			}
		default:
			near, amb := 0, false
			for _, d := range ds {
				if math.Abs(d+radius) <= smoothEps*(1+radius) {
					amb = true
				} else if d > -radius {
					near++
				}
			}
			switch {
			case amb:
				c.Undecided("smooth.at-radius-from-a-surface")
			case near <= 1:
				c.Count(T+"points_away_from_meeting", 1)
				if near == 1 {
					c.Count(T+"points_near_exactly_one", 1)
				}
				if got[0] {
					c.Violation(api+"adds-only-near-two-operands", fmt.Sprintf("point outside every operand and within the radius of %d operand(s) is contained", near), wit())
				}
			default:
				blend = true
				c.Count(T+"points_in_blend_zone", 1)
				if got[0] {
					c.Count(T+"points_added_by_smoothing", 1)
				}
			}
		}
	}
	return blend
}

// prescribedScene chooses the query point first and then places balls and
// boxes at prescribed signed distances from it (dyadic, axis aligned, so the
// SDF values at the point are exact), some within and some beyond the radius.
func prescribedScene(rng *rand.Rand, k *kit) (ops []sdfG, radius float64, p vec, want []float64) {
	for a := 0; a < k.dim; a++ {
		p[a] = dy(rng, 2, 4)
	}
	radius = []float64{0.25, 0.5, 1, 1, 2, 2}[rng.Intn(6)]
	if rng.Intn(12) == 0 {
		radius = 0
	}
	n := 3 + rng.Intn(2)
	switch rng.Intn(20) {
	case 0:
		n = 2
	case 1, 2:
		n = 5
	case 3:
		n = 6
	}
	r16 := int(radius * 16)
	for i := 0; i < n; i++ {
		var j int
		if r16 > 1 && rng.Intn(10) < 7 {
			j = 1 + rng.Intn(r16-1) // strictly within the radius
		} else {
			j = r16 + rng.Intn(33) // at or beyond the radius
			if j == 0 {
				j = 1
			}
		}
		if i > 0 && rng.Intn(8) == 0 {
			j = int(-want[rng.Intn(i)] * 16) // exact tie with an earlier operand
		}
		dist := float64(j) / 16
		want = append(want, -dist)
		axis := rng.Intn(k.dim)
		sign := float64(1 - 2*rng.Intn(2))
		l := &sdfLeafG{dim: k.dim}
		if rng.Intn(2) == 0 {
			l.kind = skSphere
			l.r = []float64{0.25, 0.5, 1, 2}[rng.Intn(4)]
			l.c = p
			l.c[axis] = p[axis] + sign*(l.r+dist)
			for a := 0; a < k.dim; a++ {
				l.lo[a] = l.c[a] - l.r
				l.hi[a] = l.c[a] + l.r
			}
		} else {
			l.kind = skBox
			w := []float64{0.25, 1, 2}[rng.Intn(3)]
			h := []float64{0.5, 1, 2}[rng.Intn(3)]
			for a := 0; a < k.dim; a++ {
				l.lo[a] = p[a] - h
				l.hi[a] = p[a] + h
			}
			if sign > 0 {
				l.lo[axis] = p[axis] + dist
				l.hi[axis] = p[axis] + dist + w
			} else {
				l.hi[axis] = p[axis] - dist
				l.lo[axis] = p[axis] - dist - w
			}
		}
		ops = append(ops, k.sdfLeaf(l))
	}
	return
}

func smoothSections(r *vlib.Run, k *kit, nPrescribed, nRandom int) {
	r.Section("smoothorder"+k.tag, nPrescribed, vlib.SectionOpts{}, func(c0 *vlib.Case) {
		c := newCase(c0)
		defer c.flush()
		rng := c.Rng
		ops, radius, p, want := prescribedScene(rng, k)
		n := len(ops)
		T := k.tag + ".smoothorder."
		// the construction must have produced exactly the prescribed distances
		for i, o := range ops {
			if d := o.Dist(p); d != want[i] {
				c.Undecided("smooth.prescribed-distance-not-exact")
				return
			}
		}
		ps := perms(rng, n, 24)
		f := buildSmooth(k, radius, ops, ps)
		c.Count(T+"scenes", 1)
		c.Count(fmt.Sprintf("%soperands_%d", T, n), 1)
		within := 0
		for _, d := range want {
			if -d < radius {
				within++
			}
		}
		c.Count(fmt.Sprintf("%swithin_radius_%d", T, minInt(within, 4)), 1)
		// distance-rank pattern of the arrival order (which of the 3!/4! orders of
		// d1<d2<d3.. the identity order is); all others come from the permutations
		blend := smoothPoint(c, k, ops, radius, f, p)
		for q := 0; q < 12; q++ {
			x := p
			for a := 0; a < k.dim; a++ {
				x[a] += (rng.Float64()*2 - 1) * (0.05 + radius/3)
			}
			if smoothPoint(c, k, ops, radius, f, x) {
				blend = true
			}
		}
		if n >= 3 && blend {
			var ds []string
			for _, o := range ops {
				ds = append(ds, o.Desc())
			}
			c.Nontrivial(fmt.Sprintf("%ssmoothorder|%g|%s", k.tag, radius, strings.Join(ds, "|")))
			c.Count(T+"scenes_with_blend_point", 1)
		}
		if c.Index < 1 {
			c.Sample(k.tag+"-smooth-prescribed", 1, map[string]interface{}{"point": p.dec(k.dim), "radius": radius, "prescribed_sdf": want})
		}
	})

	r.Section("smoothrandom"+k.tag, nRandom, vlib.SectionOpts{}, func(c0 *vlib.Case) {
		c := newCase(c0)
		defer c.flush()
		rng := c.Rng
		T := k.tag + ".smoothrandom."
		dyadic := rng.Intn(2) == 0
		n := 1 + rng.Intn(12)
		switch rng.Intn(8) {
		case 0:
			n = 1
		case 1:
			n = 2 + rng.Intn(3)
		}
		var ops []sdfG
		for len(ops) < n {
			switch {
			case len(ops) > 0 && rng.Intn(7) == 0:
				ops = append(ops, ops[rng.Intn(len(ops))]) // duplicate
			case rng.Intn(5) < 2:
				ops = append(ops, k.libSDF(rng, dyadic))
			default:
				g := newLeaf(rng, k.dim, dyadic)
				l := &sdfLeafG{dim: k.dim}
				if g.kind == lkSphere || g.kind == lkShell {
					l.kind, l.c, l.r = skSphere, g.c, g.r
					for a := 0; a < k.dim; a++ {
						l.lo[a] = math.Nextafter(g.c[a]-g.r, math.Inf(-1))
						l.hi[a] = math.Nextafter(g.c[a]+g.r, math.Inf(1))
					}
				} else {
					l.kind, l.lo, l.hi = skBox, g.lo, g.hi
					for a := 0; a < k.dim; a++ {
						if l.hi[a] == l.lo[a] {
							l.hi[a] += 0.25
						}
					}
				}
				ops = append(ops, k.sdfLeaf(l))
			}
		}
		radius := 0.0
		if rng.Intn(5) != 0 {
			radius = 0.03 + rng.ExpFloat64()*0.6
			if dyadic {
				radius = float64(1+rng.Intn(8)) / 4
			}
		}
		ps := perms(rng, n, r.N(8, 24))
		f := buildSmooth(k, radius, ops, ps)
		c.Count(T+"scenes", 1)
		c.Count(fmt.Sprintf("%soperands_%02d", T, n), 1)
		if radius == 0 {
			c.Count(T+"scenes_radius_zero", 1)
		}
		var los, his []vec
		for _, o := range ops {
			lo, hi := o.Lo(), o.Hi()
			los = append(los, lo)
			his = append(his, hi)
			for a := 0; a < k.dim; a++ {
				lo[a] -= radius
				hi[a] += radius
			}
			los = append(los, lo)
			his = append(his, hi)
		}
		blend := false
		for _, x := range queryPoints(rng, k.dim, los, his, r.N(70, 120), false, nil) {
			if smoothPoint(c, k, ops, radius, f, x) {
				blend = true
			}
		}
		if n >= 3 && blend {
			var ds []string
			for _, o := range ops {
				ds = append(ds, o.Desc())
			}
			c.Nontrivial(fmt.Sprintf("%ssmoothrandom|%g|%s", k.tag, radius, strings.Join(ds, "|")))
		}
	})
}

func minInt(a, b int) int {
	if a < b {
		return a
	}
	return b
}
