package main

// Box sets with boxes that are unbounded on one or more axes (a through-hole prism, a half
// space): add-only histories, so the set is the plain union of closed boxes and every point is
// decided exactly, also points far outside the finite boxes.

import (
	"fmt"
	"math"

	"github.com/unixpickle/model3d/model3d"
	"github.com/unixpickle/model3d/toolbox3d"
	"verif/vlib"
)

func rectSetUnboundedSection(r *vlib.Run, nCases int) {
	const T = "rectset.unbounded."
	const key = "toolbox3d.RectSet.Solid/contains-equals-union-of-boxes-with-unbounded-boxes"
	r.Section("rectset.unbounded", nCases, vlib.SectionOpts{}, func(c0 *vlib.Case) {
		c := newCase(c0)
		defer c.flush()
		rng := c.Rng
		var f rsFrame
		for a := 0; a < 3; a++ {
			f.base[a] = float64(rng.Intn(7) - 3)
			f.scale[a] = []float64{1, 1, 0.5, 0.25, 2}[rng.Intn(5)]
		}
		rs := toolbox3d.NewRectSet()
		var rects []*model3d.Rect
		var hist []string
		n := 1 + rng.Intn(5)
		unboundedAt := rng.Intn(n)
		for i := 0; i < n; i++ {
			rc := f.rect(randBox(rng))
			if i == unboundedAt || rng.Intn(6) == 0 {
				mn, mx := rc.MinVal.Array(), rc.MaxVal.Array()
				for a, k := 0, 1+rng.Intn(2); a < k; a++ {
					ax := rng.Intn(3)
					switch rng.Intn(3) {
					case 0:
						mn[ax], mx[ax] = math.Inf(-1), math.Inf(1)
						c.Count(T+"boxes_spanning_a_whole_axis", 1)
					case 1:
						mn[ax] = math.Inf(-1)
						c.Count(T+"half_unbounded_boxes", 1)
					default:
						mx[ax] = math.Inf(1)
						c.Count(T+"half_unbounded_boxes", 1)
					}
				}
				rc = &model3d.Rect{MinVal: model3d.NewCoord3DArray(mn), MaxVal: model3d.NewCoord3DArray(mx)}
			}
			rects = append(rects, rc)
			hist = append(hist, fmt.Sprintf("Add[%v, %v]", rc.MinVal, rc.MaxVal))
			rs.Add(rc)
		}
		solid := rs.Solid()
		for p := 0; p < 60; p++ {
			var t8 [3]int
			for a := 0; a < 3; a++ {
				switch rng.Intn(4) {
				case 0:
					t8[a] = 8 * (rng.Intn(rsG+3) - 1)
				case 1:
					t8[a] = 8*(rng.Intn(rsG+2)-1) + 4
				case 2:
					t8[a] = rng.Intn(8*(rsG+2)+1) - 8
				default:
					t8[a] = (rng.Intn(2)*2 - 1) * (800 + rng.Intn(100000)) // far outside the finite boxes
				}
			}
			x := f.coord(t8)
			want := false
			for _, rc := range rects {
				if x.X >= rc.MinVal.X && x.X <= rc.MaxVal.X && x.Y >= rc.MinVal.Y && x.Y <= rc.MaxVal.Y && x.Z >= rc.MinVal.Z && x.Z <= rc.MaxVal.Z {
					want = true
				}
			}
			c.Count(T+"points", 1)
			if want {
				c.Count(T+"points_inside", 1)
			}
			if got := solid.Contains(x); got != want {
				c.Violation(key, fmt.Sprintf("Solid().Contains=%v, the union of the added boxes says %v", got, want),
					map[string]interface{}{"history": hist, "point": fmt.Sprintf("(%x,%x,%x)", x.X, x.Y, x.Z), "point_dec": fmt.Sprint(x)})
				return
			}
		}
		c.Nontrivial(fmt.Sprint("unbounded", hist))
	})
}
