// Boolean combinators and their accelerated forms: JoinedSolid,
// IntersectedSolid, SubtractedSolid, JoinedSolid.Optimize, SolidMux — each
// compared point by point with the boolean formula over the operands' own
// Contains, for every nested node of a random expression DAG and for the top
// level operand list under many operand orders.
package main

import (
	"fmt"
	"math/rand"
	"strings"

	"verif/vlib"
)

type node struct {
	kind string // leaf | join | intersect | subtract | optimize | mux
	kids []*node
	s    solidG
	m    muxG
	hl   *leafG // harness leaf, if the node is one
	desc string
}

type evalCtx struct {
	dim  int
	memo map[*node]bool
	oob  *node // a leaf that answered true outside its own bounds (precondition broken)
}

// eval is the reference: the boolean formula over the leaves' own answers at x.
func (e *evalCtx) eval(n *node, x vec) bool {
	if v, ok := e.memo[n]; ok {
		return v
	}
	var v bool
	switch n.kind {
	case "leaf":
		v = n.s.Has(x)
		if v && !inBounds(n.s, x, e.dim) {
			e.oob = n
		}
	case "join", "optimize", "mux":
		for _, k := range n.kids {
			if e.eval(k, x) { // no short circuit: every leaf is consulted
				v = true
			}
		}
	case "intersect":
		v = true
		for _, k := range n.kids {
			if !e.eval(k, x) {
				v = false
			}
		}
	case "subtract":
		a, b := e.eval(n.kids[0], x), e.eval(n.kids[1], x)
		v = a && !b
	default:
		panic("bad node kind " + n.kind)
	}
	e.memo[n] = v
	return v
}

var nodeKey = map[string]string{
	"join":      "JoinedSolid.Contains/union",
	"intersect": "IntersectedSolid.Contains/intersection",
	"subtract":  "SubtractedSolid.Contains/difference",
	"optimize":  "JoinedSolid.Optimize/equals-plain-join",
	"mux":       "SolidMux.Contains/equals-plain-join",
}

type builder struct {
	k      *kit
	rng    *rand.Rand
	dyadic bool
	pool   []*node // every node built so far (for duplicates across levels)
	order  []*node // unique nodes in post order
	leaves int
}

func (b *builder) add(n *node) *node {
	b.pool = append(b.pool, n)
	b.order = append(b.order, n)
	return n
}

func (b *builder) operand(depth int) *node {
	rng := b.rng
	if len(b.pool) > 0 && rng.Intn(5) == 0 {
		return b.pool[rng.Intn(len(b.pool))] // duplicate: the very same solid again
	}
	if depth < 2 && b.leaves < 40 && rng.Intn(10) < 3 {
		kinds := []string{"join", "intersect", "subtract", "optimize", "mux"}
		kind := kinds[rng.Intn(len(kinds))]
		m := 1 + rng.Intn(4)
		if kind == "subtract" {
			m = 2
		}
		kids := make([]*node, m)
		for i := range kids {
			kids[i] = b.operand(depth + 1)
		}
		return b.add(b.combine(kind, kids))
	}
	b.leaves++
	if rng.Intn(4) == 0 {
		s, d := b.k.libLeaf(rng, b.dyadic)
		return b.add(&node{kind: "leaf", s: s, desc: d})
	}
	l := newLeaf(rng, b.k.dim, b.dyadic)
	return b.add(&node{kind: "leaf", s: b.k.leaf(l), hl: l, desc: l.desc()})
}

func solidsOf(ns []*node) []solidG {
	res := make([]solidG, len(ns))
	for i, n := range ns {
		res[i] = n.s
	}
	return res
}

func (b *builder) combine(kind string, kids []*node) *node {
	n := &node{kind: kind, kids: kids}
	ops := solidsOf(kids)
	switch kind {
	case "join":
		n.s = b.k.join(ops)
	case "intersect":
		n.s = b.k.intersect(ops)
	case "subtract":
		n.s = b.k.subtract(ops[0], ops[1])
	case "optimize":
		n.s = b.k.optimize(ops)
	case "mux":
		n.m = b.k.mux(ops)
		n.s = n.m
	}
	var ds []string
	for _, k := range kids {
		ds = append(ds, k.desc)
	}
	n.desc = kind + "[" + strings.Join(ds, "; ") + "]"
	return n
}

func descs(ns []*node) []string {
	res := make([]string, len(ns))
	for i, n := range ns {
		res[i] = n.desc
	}
	return res
}

func permuted(ns []*node, p []int) []*node {
	res := make([]*node, len(p))
	for j, i := range p {
		res[j] = ns[i]
	}
	return res
}

func booleanSection(r *vlib.Run, k *kit, nCases int) {
	T := k.tag + ".bool."
	r.Section("boolean"+k.tag, nCases, vlib.SectionOpts{}, func(c0 *vlib.Case) {
		c := newCase(c0)
		defer c.flush()
		defer func() {
			c.Count(k.tag+".bool.optimize_calls_with_operand_list_snapshot", optimizeChecked.Swap(0))
			if n := optimizeReordered.Swap(0); n > 0 {
				c.Violation(k.pkg+".JoinedSolid.Optimize/operand-list-unchanged", fmt.Sprintf("after %d Optimize() calls the caller's operand list was reordered or overwritten (a SolidMux or StackSolids built over the same list no longer matches it)", n), nil)
			}
		}()
		rng := c.Rng
		dyadic := rng.Intn(2) == 0
		b := &builder{k: k, rng: rng, dyadic: dyadic}
		n := 1 + rng.Intn(12)
		big := false
		switch rng.Intn(12) {
		case 0, 1, 2:
			n = 1 + rng.Intn(4)
		case 3: // a deep bounding hierarchy: many small operands, no nesting
			n = 13 + rng.Intn(68)
			big = true
		}
		subAssembly := rng.Intn(12) == 0
		ops := make([]*node, n)
		for i := range ops {
			if big {
				ops[i] = b.operand(2)
			} else {
				ops[i] = b.operand(0)
			}
		}
		if subAssembly {
			// one operand is itself a large assembly: a join of 64-300 small overlapping parts
			m := []int{64, 65, 100, 128, 300}[rng.Intn(5)]
			kids := make([]*node, m)
			for i := range kids {
				l := newLeaf(rng, k.dim, dyadic)
				kids[i] = &node{kind: "leaf", s: k.leaf(l), hl: l, desc: l.desc()}
			}
			asm := b.combine("join", kids)
			asm.desc = fmt.Sprintf("join[%d small parts]", m)
			b.add(asm)
			ops = append(ops, asm)
			n++
			c.Count(T+"cases_with_a_large_sub_assembly_operand", 1)
		}
		nested := append([]*node{}, b.order...) // nodes to check individually

		// top level forms under several operand orders
		type forms struct {
			p       []int
			j, i, o solidG
			m       muxG
		}
		ps := perms(rng, n, 8)
		if big {
			ps = perms(rng, n, 6)
		} else if n > 4 && !r.Quick() {
			ps = perms(rng, n, 24)
		}
		fs := make([]forms, len(ps))
		for q, p := range ps {
			po := solidsOf(permuted(ops, p))
			fs[q] = forms{p: p, j: k.join(po), i: k.intersect(po), o: k.optimize(po), m: k.mux(po)}
			if !fs[q].m.SameSolids(po) {
				c.Violation(k.pkg+".SolidMux.Solids/identity", "Solids() is not the operand list the mux was built from",
					map[string]interface{}{"operands": descs(permuted(ops, p))})
			}
		}
		var sub solidG
		if n >= 2 {
			sub = k.subtract(ops[0].s, k.join(solidsOf(ops[1:])))
		}
		c.Count(T+"cases", 1)
		c.Count(T+"operand_orders", int64(len(ps)))
		c.Count(fmt.Sprintf("%soperands_%02d", T, minInt(n, 13)), 1)

		var los, his, extra []vec
		for _, nd := range b.order {
			los = append(los, nd.s.Lo())
			his = append(his, nd.s.Hi())
			if nd.hl != nil && (nd.hl.kind == lkSphere || nd.hl.kind == lkShell) {
				extra = append(extra, nd.hl.c)
			}
		}
		pts := queryPoints(rng, k.dim, los, his, r.N(120, 200), true, extra)

		sawIn, sawOut, sawMulti := false, false, false
		allHarness := true
		for _, o := range ops {
			if o.hl == nil {
				allHarness = false
			}
		}
		for _, x := range pts {
			e := &evalCtx{dim: k.dim, memo: map[*node]bool{}}
			truth := make([]bool, n)
			any, all, cnt := false, true, 0
			for i, o := range ops {
				truth[i] = e.eval(o, x)
				if truth[i] {
					any = true
					cnt++
				} else {
					all = false
				}
			}
			if e.oob != nil {
				c.Undecided("operand-contains-outside-own-bounds")
				c.Sample(k.tag+"-operand-true-outside-bounds", 2, map[string]string{"operand": e.oob.desc, "point": x.hex(k.dim)})
				continue
			}
			c.Count(T+"points", 1)
			if any {
				sawIn = true
			} else {
				sawOut = true
			}
			if cnt >= 2 {
				sawMulti = true
			}
			wit := func(p []int, got, want interface{}) map[string]interface{} {
				return map[string]interface{}{"operands": descs(ops), "order": p, "point": x.hex(k.dim),
					"point_dec": x.dec(k.dim), "operand_contains": truth, "got": got, "want": want}
			}
			// every nested node, deepest first
			for _, nd := range nested {
				if !checkNode(c, k, e, nd, x, T) {
					return
				}
			}
			// top level
			var first [3]bool
			for q, f := range fs {
				res := [3]bool{f.j.Has(x), f.i.Has(x), f.o.Has(x)}
				wants := [3]bool{any, all, any}
				names := [3]string{"join", "intersect", "optimize"}
				if q == 0 {
					first = res
				}
				for t := 0; t < 3; t++ {
					c.Count(T+names[t], 1)
					if res[t] != wants[t] {
						key := nodeKey[names[t]]
						if q > 0 && first[t] == wants[t] {
							key = strings.Split(key, "/")[0] + "/permutation-invariance"
						}
						c.Violation(k.pkg+"."+key, fmt.Sprintf("%s of %d operands answers %v, formula gives %v", names[t], n, res[t], wants[t]), wit(f.p, res[t], wants[t]))
					}
				}
				muxPoint(c, k, f.m, ops, f.p, truth, x, any, wit)
			}
			if sub != nil {
				restAny := false
				for _, t := range truth[1:] {
					restAny = restAny || t
				}
				want := truth[0] && !restAny
				c.Count(T+"subtract", 1)
				if got := sub.Has(x); got != want {
					c.Violation(k.pkg+"."+nodeKey["subtract"], fmt.Sprintf("SubtractedSolid answers %v, formula gives %v", got, want), wit(nil, got, want))
				}
			}
		}
		// a scene assembled in stages from one list (prefix views of one backing array nested in an
		// outer join, in seeded order): the optimised form is the union of the longest stage
		if n >= 2 && !subAssembly {
			ncuts := 2 + rng.Intn(3)
			cuts := make([]int, ncuts)
			mx := 0
			for i := range cuts {
				cuts[i] = 1 + rng.Intn(n)
				if cuts[i] > mx {
					mx = cuts[i]
				}
			}
			plain, opt := k.staged(solidsOf(ops), cuts)
			c.Count(T+"staged_assemblies", 1)
			for _, x := range pts {
				e := &evalCtx{dim: k.dim, memo: map[*node]bool{}}
				want := false
				for _, o := range ops[:mx] {
					if e.eval(o, x) {
						want = true
					}
				}
				if e.oob != nil {
					continue
				}
				if got := plain.Has(x); got != want {
					c.Violation(k.pkg+".JoinedSolid.Contains/union(staged-assembly)", fmt.Sprintf("join of the stages list[:c] for c=%v answers %v, the union of the first %d parts is %v", cuts, got, mx, want),
						map[string]interface{}{"operands": descs(ops), "cuts": cuts, "point": x.hex(k.dim)})
					break
				}
				if got := opt.Has(x); got != want {
					c.Violation(k.pkg+".JoinedSolid.Optimize/equals-plain-join(staged-assembly)", fmt.Sprintf("Optimize() of the join of the stages list[:c] for c=%v answers %v, the union of the first %d parts is %v", cuts, got, mx, want),
						map[string]interface{}{"operands": descs(ops), "cuts": cuts, "point": x.hex(k.dim)})
					break
				}
			}
			lo, hi := opt.Lo(), opt.Hi()
			for _, o := range ops[:mx] {
				ol, oh := o.s.Lo(), o.s.Hi()
				for d := 0; d < k.dim; d++ {
					if ol[d] < lo[d] || oh[d] > hi[d] {
						c.Violation(k.pkg+".JoinedSolid.Optimize/bounds(staged-assembly)", "the optimised assembly's box does not enclose one of its parts' boxes",
							map[string]interface{}{"operands": descs(ops), "cuts": cuts})
					}
				}
			}
		}
		// pruning evidence: flat lists of harness leaves only
		if allHarness {
			m := fs[0].m
			for _, x := range pts[:len(pts)/4] {
				before := make([]int64, n)
				for i, o := range ops {
					before[i] = o.hl.calls
				}
				m.Iter(x, nil)
				for i, o := range ops {
					if !inBounds(o.s, x, k.dim) {
						if o.hl.calls == before[i] {
							c.Count(k.tag+".mux.leaf_calls_pruned_by_bbox", 1)
						} else {
							c.Count(k.tag+".mux.leaf_calls_outside_bbox", 1)
						}
					}
				}
			}
		}
		if n >= 3 && sawIn && sawOut && sawMulti {
			c.Nontrivial(k.tag + "bool|" + strings.Join(descs(ops), "|"))
		}
		if c.Index < 2 {
			c.Sample(k.tag+"-boolean-operands", 2, descs(ops))
		}
	})

	// the empty multiplexer
	r.Section("muxempty"+k.tag, 1, vlib.SectionOpts{}, func(c0 *vlib.Case) {
		c := newCase(c0)
		defer c.flush()
		m := k.mux(nil)
		for i := 0; i < 50; i++ {
			x := vec{c.Rng.NormFloat64(), c.Rng.NormFloat64(), c.Rng.NormFloat64()}
			if i == 0 {
				x = vec{}
			}
			if k.dim == 2 {
				x[2] = 0
			}
			cb := 0
			if m.Has(x) || len(m.All(x)) != 0 || m.Iter(x, func(int) { cb++ }) != 0 || m.Iter(x, nil) != 0 || cb != 0 {
				c.Violation(k.pkg+".SolidMux/empty", "a mux of no solids reports containment", map[string]string{"point": x.hex(k.dim)})
			}
			c.Count(k.tag+".mux.empty_points", 1)
		}
	})
}

// checkNode compares one combinator node with the formula over its operands at
// x (the operands' values come from the memo, i.e. ultimately from the leaves).
func checkNode(c *caseCtx, k *kit, e *evalCtx, nd *node, x vec, T string) bool {
	if nd.kind == "leaf" {
		return true
	}
	want := e.eval(nd, x)
	if e.oob != nil {
		c.Undecided("operand-contains-outside-own-bounds")
		return true
	}
	got := nd.s.Has(x)
	c.Count(T+"nested."+nd.kind, 1)
	if got != want {
		c.Violation(k.pkg+"."+nodeKey[nd.kind], fmt.Sprintf("nested %s node answers %v, formula over its operands gives %v", nd.kind, got, want),
			map[string]interface{}{"node": nd.desc, "point": x.hex(k.dim), "point_dec": x.dec(k.dim)})
		return false
	}
	return true
}

// checkTree checks every combinator below (and including) nd, deepest first.
func checkTree(c *caseCtx, k *kit, e *evalCtx, nd *node, x vec, T string, done map[*node]bool) bool {
	if done[nd] {
		return true
	}
	done[nd] = true
	for _, kid := range nd.kids {
		if !checkTree(c, k, e, kid, x, T, done) {
			return false
		}
	}
	return checkNode(c, k, e, nd, x, T)
}

// muxPoint checks Contains, AllContains and IterContains (with and without
// callback) of a mux built from the operands in order p against the operands'
// own answers truth (indexed in the original order).
func muxPoint(c *caseCtx, k *kit, m muxG, ops []*node, p []int, truth []bool, x vec, any bool,
	wit func(p []int, got, want interface{}) map[string]interface{}) {
	n := len(p)
	T := k.tag + ".mux."
	api := k.pkg + ".SolidMux."
	c.Count(T+"points", 1)
	if got := m.Has(x); got != any {
		c.Violation(api+"Contains/equals-plain-join", fmt.Sprintf("mux.Contains=%v, plain join gives %v", got, any), wit(p, got, any))
	}
	want := make([]bool, n)
	pop := 0
	for j, i := range p {
		want[j] = truth[i]
		if want[j] {
			pop++
		}
	}
	all := m.All(x)
	if len(all) != n {
		c.Violation(api+"AllContains/length", fmt.Sprintf("AllContains returned %d entries for %d solids", len(all), n), wit(p, len(all), n))
		return
	}
	for j := range want {
		if all[j] != want[j] {
			c.Violation(api+"AllContains/per-operand", fmt.Sprintf("AllContains[%d]=%v but that operand's Contains is %v", j, all[j], want[j]), wit(p, all, want))
			break
		}
	}
	// the returned slice belongs to the caller: later queries (here: far away, and at the mirrored
	// point) must not change it
	kept := append([]bool{}, all...)
	m.All(vec{1e6, -1e6, 0})
	m.All(vec{-x[0], -x[1], -x[2]})
	for j := range kept {
		if all[j] != kept[j] {
			c.Violation(api+"AllContains/result-kept-across-later-calls", fmt.Sprintf("the slice returned for one point changed at [%d] after AllContains was called for other points", j), wit(p, all, kept))
			break
		}
	}
	if pop > 0 && c.Rng.Intn(4) == 0 {
		// an enumeration left from inside the callback (a panic that the caller recovers) must not
		// change what later queries on this or any other mux report
		after, k := c.Rng.Intn(2), 0
		func() {
			defer func() {
				if e := recover(); e != nil {
					if _, ok := e.(abandonedIter); !ok {
						panic(e)
					}
					c.Count(T+"enumerations_abandoned_from_the_callback", 1)
				}
			}()
			m.Iter(x, func(int) {
				if k == after {
					panic(abandonedIter{})
				}
				k++
			})
		}()
	}
	seen := make([]int, n)
	bad := false
	cnt := m.Iter(x, func(i int) {
		if i < 0 || i >= n {
			bad = true
			return
		}
		seen[i]++
	})
	cbs := 0
	for j := range seen {
		cbs += seen[j]
	}
	for j := range seen {
		if seen[j] > 1 {
			c.Violation(api+"IterContains/index-repeated", fmt.Sprintf("callback invoked %d times for index %d", seen[j], j), wit(p, seen, want))
		}
		if (seen[j] > 0) != want[j] {
			c.Violation(api+"IterContains/callback-set", fmt.Sprintf("callback for index %d: %d calls, operand Contains=%v", j, seen[j], want[j]), wit(p, seen, want))
			break
		}
	}
	if bad {
		c.Violation(api+"IterContains/index-range", "callback invoked with an index outside [0,n)", wit(p, nil, nil))
	}
	if cnt != pop || cnt != cbs {
		c.Violation(api+"IterContains/count", fmt.Sprintf("IterContains returned %d, made %d callbacks, %d operands contain the point", cnt, cbs, pop), wit(p, cnt, pop))
	}
	if cn := m.Iter(x, nil); cn != pop {
		c.Violation(api+"IterContains/nil-callback-count", fmt.Sprintf("IterContains(nil) returned %d, %d operands contain the point", cn, pop), wit(p, cn, pop))
	}
	c.Count(T+"callbacks", int64(cbs))
	if pop >= 2 {
		c.Count(T+"points_in_two_or_more", 1)
	}
}

type abandonedIter struct{}
