// toolbox3d.RectSet.Solid() after Add / Remove / AddRectSet / RemoveRectSet
// histories, against a set model: a 3D array of unit cells on the integer grid
// the boxes are drawn from. All coordinates are base + index*scale with dyadic
// scale, so every comparison in the library and in the model is exact.
//
// Semantics at the boundary. The set is documented as "the set of all points
// contained in a union of rectangular volumes": boxes are closed, so a point is
// contained iff it lies in the closure of a present cell. After a Remove the
// literal reading ("points of the union not in the removed box") and the
// regularised reading (closure of what is left) differ exactly at points that
// lie on a removed box and still touch a present cell; those points are
// undecided. Everything else — all interior points, all boundary points of
// add-only histories, boundary points never touched by a removed box — is
// decided exactly.
package main

import (
	"fmt"
	"math/rand"

	"github.com/unixpickle/model3d/model3d"
	"github.com/unixpickle/model3d/toolbox3d"
	"verif/vlib"
)

const rsG = 6 // cells per axis

type rsModel struct {
	cells [rsG][rsG][rsG]bool
	taint [2*rsG + 1][2*rsG + 1][2*rsG + 1]bool // half-step lattice h=0..2G: on a removed (closed) box
}

type rsBox struct{ lo, hi [3]int }

func (b rsBox) String() string {
	return fmt.Sprintf("[%d,%d]x[%d,%d]x[%d,%d]", b.lo[0], b.hi[0], b.lo[1], b.hi[1], b.lo[2], b.hi[2])
}

func randBox(rng *rand.Rand) rsBox {
	var b rsBox
	for a := 0; a < 3; a++ {
		l := rng.Intn(rsG)
		h := l + 1 + rng.Intn(rsG-l)
		if rng.Intn(3) == 0 { // small boxes make sparse sets
			h = l + 1
		}
		b.lo[a], b.hi[a] = l, h
	}
	return b
}

func (m *rsModel) set(b rsBox, v bool) {
	for i := b.lo[0]; i < b.hi[0]; i++ {
		for j := b.lo[1]; j < b.hi[1]; j++ {
			for k := b.lo[2]; k < b.hi[2]; k++ {
				m.cells[i][j][k] = v
			}
		}
	}
	if !v {
		for i := 2 * b.lo[0]; i <= 2*b.hi[0]; i++ {
			for j := 2 * b.lo[1]; j <= 2*b.hi[1]; j++ {
				for k := 2 * b.lo[2]; k <= 2*b.hi[2]; k++ {
					m.taint[i][j][k] = true
				}
			}
		}
	}
}

func (m *rsModel) empty() bool {
	for i := range m.cells {
		for j := range m.cells[i] {
			for k := range m.cells[i][j] {
				if m.cells[i][j][k] {
					return false
				}
			}
		}
	}
	return true
}

func (m *rsModel) addSet(o *rsModel) {
	for i := range m.cells {
		for j := range m.cells[i] {
			for k := range m.cells[i][j] {
				if o.cells[i][j][k] {
					m.cells[i][j][k] = true
				}
			}
		}
	}
	m.orTaint(o)
}

func (m *rsModel) orTaint(o *rsModel) {
	for i := range m.taint {
		for j := range m.taint[i] {
			for k := range m.taint[i][j] {
				if o.taint[i][j][k] {
					m.taint[i][j][k] = true
				}
			}
		}
	}
}

func (m *rsModel) removeSet(o *rsModel) {
	for i := range m.cells {
		for j := range m.cells[i] {
			for k := range m.cells[i][j] {
				if o.cells[i][j][k] {
					m.set(rsBox{lo: [3]int{i, j, k}, hi: [3]int{i + 1, j + 1, k + 1}}, false)
				}
			}
		}
	}
	m.orTaint(o)
}

// classify a point given in eighths of a cell (t8[a] = 8*(index position)).
// Returns in/total adjacent cells and whether the point is on a removed box.
func (m *rsModel) classify(t8 [3]int) (in, total int, tainted bool) {
	var cand [3][]int
	var h [3]int
	outside := false
	for a := 0; a < 3; a++ {
		t := t8[a]
		if t < 0 || t > 8*rsG {
			outside = true
			continue
		}
		if t%8 == 0 {
			i := t / 8
			cand[a] = []int{i - 1, i}
			h[a] = 2 * i
		} else {
			i := t / 8
			cand[a] = []int{i}
			h[a] = 2*i + 1
		}
	}
	if outside {
		return 0, 1, false
	}
	for _, i := range cand[0] {
		for _, j := range cand[1] {
			for _, k := range cand[2] {
				total++
				if i >= 0 && i < rsG && j >= 0 && j < rsG && k >= 0 && k < rsG && m.cells[i][j][k] {
					in++
				}
			}
		}
	}
	return in, total, m.taint[h[0]][h[1]][h[2]]
}

type rsFrame struct {
	base  [3]float64
	scale [3]float64
}

func (f rsFrame) coord(t8 [3]int) model3d.Coord3D {
	var v [3]float64
	for a := 0; a < 3; a++ {
		v[a] = f.base[a] + float64(t8[a])/8*f.scale[a]
	}
	return model3d.NewCoord3DArray(v)
}

func (f rsFrame) rect(b rsBox) *model3d.Rect {
	var lo, hi [3]int
	for a := 0; a < 3; a++ {
		lo[a], hi[a] = 8*b.lo[a], 8*b.hi[a]
	}
	return &model3d.Rect{MinVal: f.coord(lo), MaxVal: f.coord(hi)}
}

func rectSetSection(r *vlib.Run, nCases int) {
	const T = "rectset."
	const key = "toolbox3d.RectSet.Solid/contains-equals-box-set-model"
	r.Section("rectset", nCases, vlib.SectionOpts{}, func(c0 *vlib.Case) {
		c := newCase(c0)
		defer c.flush()
		rng := c.Rng
		var f rsFrame
		for a := 0; a < 3; a++ {
			f.base[a] = float64(rng.Intn(7) - 3)
			f.scale[a] = []float64{1, 1, 0.5, 0.25, 2}[rng.Intn(5)]
		}
		if rng.Intn(3) == 0 { // a frame in which the real origin is a grid corner
			for a := 0; a < 3; a++ {
				f.base[a] = -f.scale[a] * float64(rng.Intn(rsG+1))
			}
		}
		rs := toolbox3d.NewRectSet()
		mod := &rsModel{}
		var hist []string
		removes := 0
		addOnly := rng.Intn(3) == 0

		check := func(npts int, final bool) bool {
			solid := rs.Solid()
			isEmpty := mod.empty()
			pts := make([][3]int, 0, npts+8)
			// the real origin, if it is a grid position
			var o8 [3]int
			originOnGrid := true
			for a := 0; a < 3; a++ {
				t := -f.base[a] / f.scale[a] * 8
				if t != float64(int(t)) {
					originOnGrid = false
				}
				o8[a] = int(t)
			}
			if originOnGrid {
				pts = append(pts, o8)
			}
			for len(pts) < npts {
				var t8 [3]int
				switch rng.Intn(10) {
				case 0, 1, 2, 3: // grid corners / edges / faces
					for a := 0; a < 3; a++ {
						t8[a] = 8 * (rng.Intn(rsG+3) - 1)
						if rng.Intn(3) == 0 {
							t8[a] += 4
						}
					}
				case 4, 5, 6: // cell centres
					for a := 0; a < 3; a++ {
						t8[a] = 8*(rng.Intn(rsG+2)-1) + 4
					}
				default: // anywhere, in eighths
					for a := 0; a < 3; a++ {
						t8[a] = rng.Intn(8*(rsG+2)+1) - 8
					}
				}
				pts = append(pts, t8)
			}
			for _, t8 := range pts {
				in, total, tainted := mod.classify(t8)
				var want bool
				switch {
				case in == 0:
					want = false
				case in == total:
					want = true
				case tainted:
					c.Undecided("rectset.boundary-of-removed-volume")
					continue
				default:
					want = true
					c.Count(T+"points_on_set_boundary_decided", 1)
				}
				c.Count(T+"points", 1)
				if total > 1 {
					c.Count(T+"points_on_grid_planes", 1)
				}
				x := f.coord(t8)
				got := solid.Contains(x)
				if isEmpty {
					c.Count(T+"points_on_empty_set", 1)
				}
				if got != want {
					k := key
					if isEmpty {
						k = "toolbox3d.RectSet.Solid/empty-set-contains-a-point"
					}
					c.Violation(k, fmt.Sprintf("Solid().Contains=%v, box-set model says %v (%d of %d adjacent cells present)", got, want, in, total),
						map[string]interface{}{"history": append([]string{}, hist...), "frame_base": f.base, "frame_scale": f.scale,
							"point": fmt.Sprintf("(%x,%x,%x)", x.X, x.Y, x.Z), "point_dec": fmt.Sprint(x), "point_grid_eighths": t8})
					return false
				}
			}
			return true
		}

		subSet := func() (*toolbox3d.RectSet, *rsModel, string) {
			o := toolbox3d.NewRectSet()
			om := &rsModel{}
			desc := ""
			for i, n := 0, 1+rng.Intn(3); i < n; i++ {
				b := randBox(rng)
				if i > 0 && !addOnly && rng.Intn(4) == 0 {
					o.Remove(f.rect(b))
					om.set(b, false)
					desc += "-" + b.String()
				} else {
					o.Add(f.rect(b))
					om.set(b, true)
					desc += "+" + b.String()
				}
			}
			return o, om, desc
		}

		steps := 1 + rng.Intn(12)
		if rng.Intn(12) == 0 {
			steps = 0 // the empty set
		}
		for s := 0; s < steps; s++ {
			op := rng.Intn(10)
			if addOnly && op >= 5 && op < 9 {
				op = 0
			}
			switch {
			case op < 5:
				b := randBox(rng)
				hist = append(hist, "Add"+b.String())
				rs.Add(f.rect(b))
				mod.set(b, true)
				c.Count(T+"ops.Add", 1)
			case op < 8:
				b := randBox(rng)
				hist = append(hist, "Remove"+b.String())
				rs.Remove(f.rect(b))
				mod.set(b, false)
				removes++
				c.Count(T+"ops.Remove", 1)
			case op < 9:
				o, om, d := subSet()
				hist = append(hist, "RemoveRectSet{"+d+"}")
				rs.RemoveRectSet(o)
				mod.removeSet(om)
				removes++
				c.Count(T+"ops.RemoveRectSet", 1)
			default:
				o, om, d := subSet()
				hist = append(hist, "AddRectSet{"+d+"}")
				rs.AddRectSet(o)
				mod.addSet(om)
				c.Count(T+"ops.AddRectSet", 1)
			}
			if !check(40, false) {
				return
			}
		}
		if !check(r.N(300, 600), true) {
			return
		}
		c.Count(T+"histories", 1)
		if removes > 0 {
			c.Count(T+"histories_with_removal", 1)
		}
		if mod.empty() {
			c.Count(T+"histories_ending_empty", 1)
		}
		if len(hist) >= 4 && removes > 0 && !mod.empty() {
			c.Nontrivial("rectset|" + fmt.Sprint(hist) + fmt.Sprint(f))
		}
		if c.Index < 1 {
			c.Sample("rectset-history", 1, hist)
		}
	})
}
