package main

// Several RectSets alive at once: sets are cloned (AddRectSet into an empty set), merged into
// and subtracted from each other, and all of them keep being edited and queried. An edit of one
// set must never change what another set contains (no shared split planes or boxes).

import (
	"fmt"

	"github.com/unixpickle/model3d/toolbox3d"
	"verif/vlib"
)

func rectSetForkSection(r *vlib.Run, nCases int) {
	const T = "rectset.forks."
	const key = "toolbox3d.RectSet.Solid/contains-equals-box-set-model-with-several-live-sets"
	r.Section("rectset.forks", nCases, vlib.SectionOpts{}, func(c0 *vlib.Case) {
		c := newCase(c0)
		defer c.flush()
		rng := c.Rng
		var f rsFrame
		for a := 0; a < 3; a++ {
			f.base[a] = float64(rng.Intn(7) - 3)
			f.scale[a] = []float64{1, 1, 0.5, 0.25, 2}[rng.Intn(5)]
		}
		type live struct {
			rs  *toolbox3d.RectSet
			mod *rsModel
		}
		sets := []*live{{toolbox3d.NewRectSet(), &rsModel{}}}
		var hist []string
		addOnly := rng.Intn(2) == 0 // removal taints boundaries (undecided); keep half the histories exact

		check := func(npts int) bool {
			for si, s := range sets {
				solid := s.rs.Solid()
				for n := 0; n < npts; n++ {
					var t8 [3]int
					switch rng.Intn(3) {
					case 0:
						for a := 0; a < 3; a++ {
							t8[a] = 8 * (rng.Intn(rsG+3) - 1)
							if rng.Intn(3) == 0 {
								t8[a] += 4
							}
						}
					case 1:
						for a := 0; a < 3; a++ {
							t8[a] = 8*(rng.Intn(rsG+2)-1) + 4
						}
					default:
						for a := 0; a < 3; a++ {
							t8[a] = rng.Intn(8*(rsG+2)+1) - 8
						}
					}
					in, total, tainted := s.mod.classify(t8)
					var want bool
					switch {
					case in == 0:
						want = false
					case in == total:
						want = true
					case tainted:
						c.Undecided("rectset.boundary-of-removed-volume")
						continue
					default:
						want = true
					}
					c.Count(T+"points", 1)
					x := f.coord(t8)
					if got := solid.Contains(x); got != want {
						c.Violation(key, fmt.Sprintf("set #%d: Solid().Contains=%v, box-set model says %v (%d of %d adjacent cells present)", si, got, want, in, total),
							map[string]interface{}{"history": append([]string{}, hist...), "frame_base": f.base, "frame_scale": f.scale,
								"point": fmt.Sprintf("(%x,%x,%x)", x.X, x.Y, x.Z), "point_grid_eighths": t8, "set": si})
						return false
					}
				}
			}
			return true
		}

		steps := 4 + rng.Intn(12)
		for s := 0; s < steps; s++ {
			i := rng.Intn(len(sets))
			switch op := rng.Intn(10); {
			case op < 4:
				b := randBox(rng)
				hist = append(hist, fmt.Sprintf("#%d.Add%s", i, b))
				sets[i].rs.Add(f.rect(b))
				sets[i].mod.set(b, true)
				c.Count(T+"ops.Add", 1)
			case op < 5 && !addOnly:
				b := randBox(rng)
				hist = append(hist, fmt.Sprintf("#%d.Remove%s", i, b))
				sets[i].rs.Remove(f.rect(b))
				sets[i].mod.set(b, false)
				c.Count(T+"ops.Remove", 1)
			case op < 7 && len(sets) < 4:
				// clone: a new empty set receives set i
				n := &live{toolbox3d.NewRectSet(), &rsModel{}}
				n.rs.AddRectSet(sets[i].rs)
				n.mod.addSet(sets[i].mod)
				sets = append(sets, n)
				hist = append(hist, fmt.Sprintf("#%d = clone of #%d", len(sets)-1, i))
				c.Count(T+"ops.clone", 1)
			case op < 9 && len(sets) > 1:
				j := rng.Intn(len(sets))
				if j == i {
					j = (i + 1) % len(sets)
				}
				hist = append(hist, fmt.Sprintf("#%d.AddRectSet(#%d)", i, j))
				sets[i].rs.AddRectSet(sets[j].rs)
				sets[i].mod.addSet(sets[j].mod)
				c.Count(T+"ops.AddRectSet", 1)
			case !addOnly && len(sets) > 1:
				j := rng.Intn(len(sets))
				if j == i {
					j = (i + 1) % len(sets)
				}
				hist = append(hist, fmt.Sprintf("#%d.RemoveRectSet(#%d)", i, j))
				sets[i].rs.RemoveRectSet(sets[j].rs)
				sets[i].mod.removeSet(sets[j].mod)
				c.Count(T+"ops.RemoveRectSet", 1)
			default:
				b := randBox(rng)
				hist = append(hist, fmt.Sprintf("#%d.Add%s", i, b))
				sets[i].rs.Add(f.rect(b))
				sets[i].mod.set(b, true)
				c.Count(T+"ops.Add", 1)
			}
			if !check(25) {
				return
			}
		}
		if !check(150) {
			return
		}
		c.Count(T+"histories", 1)
		if len(sets) > 1 {
			c.Count(T+"histories_with_several_live_sets", 1)
			c.Nontrivial("rectset.forks|" + fmt.Sprint(hist) + fmt.Sprint(f))
		}
	})
}
