// model3d adapter of the dimension-agnostic engine.
package main

import (
	"fmt"
	"math"
	"math/rand"

	"github.com/unixpickle/model3d/model3d"
)

func c3(v vec) model3d.Coord3D { return model3d.XYZ(v[0], v[1], v[2]) }
func v3(c model3d.Coord3D) vec { return vec{c.X, c.Y, c.Z} }

// hLeaf3 is a harness leaf as a model3d.Solid.
type hLeaf3 struct{ g *leafG }

func (h *hLeaf3) Min() model3d.Coord3D            { return c3(h.g.lo) }
func (h *hLeaf3) Max() model3d.Coord3D            { return c3(h.g.hi) }
func (h *hLeaf3) Contains(c model3d.Coord3D) bool { return h.g.contains(v3(c)) }

// s3 wraps any model3d.Solid.
type s3 struct{ S model3d.Solid }

func (s s3) Has(x vec) bool { return s.S.Contains(c3(x)) }
func (s s3) Lo() vec        { return v3(s.S.Min()) }
func (s s3) Hi() vec        { return v3(s.S.Max()) }

func native3(ops []solidG) []model3d.Solid {
	res := make([]model3d.Solid, len(ops))
	for i, o := range ops {
		switch o := o.(type) {
		case s3:
			res[i] = o.S
		case *mux3:
			res[i] = o.M
		default:
			panic("foreign solid")
		}
	}
	return res
}

type mux3 struct {
	M *model3d.SolidMux
}

func (m *mux3) Has(x vec) bool   { return m.M.Contains(c3(x)) }
func (m *mux3) Lo() vec          { return v3(m.M.Min()) }
func (m *mux3) Hi() vec          { return v3(m.M.Max()) }
func (m *mux3) All(x vec) []bool { return m.M.AllContains(c3(x)) }
func (m *mux3) Iter(x vec, f func(int)) int {
	return m.M.IterContains(c3(x), f)
}
func (m *mux3) SameSolids(ops []solidG) bool {
	got := m.M.Solids()
	want := native3(ops)
	if len(got) != len(want) {
		return false
	}
	for i := range got {
		if !sameIface(got[i], want[i]) {
			return false
		}
	}
	return true
}

// sameIface compares two interface values for identity without panicking on
// uncomparable dynamic types (JoinedSolid is a slice).
func sameIface(a, b interface{}) (eq bool) {
	defer func() {
		if recover() != nil {
			eq = fmt.Sprintf("%p", a) == fmt.Sprintf("%p", b)
		}
	}()
	return a == b
}

// hSDF3 is a harness SDF leaf as a model3d.NormalSDF.
type hSDF3 struct{ g *sdfLeafG }

func (h *hSDF3) Min() model3d.Coord3D { return c3(h.g.lo) }
func (h *hSDF3) Max() model3d.Coord3D { return c3(h.g.hi) }
func (h *hSDF3) SDF(c model3d.Coord3D) float64 {
	_, d := h.g.ndist(v3(c))
	return d
}
func (h *hSDF3) NormalSDF(c model3d.Coord3D) (model3d.Coord3D, float64) {
	n, d := h.g.ndist(v3(c))
	return c3(n), d
}

type sdf3 struct {
	S    model3d.NormalSDF
	desc string
}

func (s sdf3) Lo() vec            { return v3(s.S.Min()) }
func (s sdf3) Hi() vec            { return v3(s.S.Max()) }
func (s sdf3) Dist(x vec) float64 { return s.S.SDF(c3(x)) }
func (s sdf3) NDist(x vec) (vec, float64) {
	n, d := s.S.NormalSDF(c3(x))
	return v3(n), d
}
func (s sdf3) Desc() string { return s.desc }

func nativeSDF3(ops []sdfG) []model3d.NormalSDF {
	res := make([]model3d.NormalSDF, len(ops))
	for i, o := range ops {
		res[i] = o.(sdf3).S
	}
	return res
}

// libShape3 draws a library primitive that is both a Solid and a NormalSDF.
// Parameters respect the documented preconditions (Torus: inner < outer
// radius; segments of positive length; positive radii).
func libShape3(rng *rand.Rand, dyadic bool) (interface {
	model3d.Solid
	model3d.NormalSDF
}, string) {
	coord := func() float64 {
		if dyadic {
			return dy(rng, 4, 2)
		}
		return rng.NormFloat64() * 2
	}
	size := func() float64 {
		if dyadic {
			return float64(1+rng.Intn(8)) / 4
		}
		return 0.05 + rng.ExpFloat64()
	}
	pt := func() model3d.Coord3D { return model3d.XYZ(coord(), coord(), coord()) }
	twoPts := func() (model3d.Coord3D, model3d.Coord3D) {
		for {
			a, b := pt(), pt()
			if dyadic && rng.Intn(2) == 0 { // axis aligned
				b = a
				arr := b.Array()
				arr[rng.Intn(3)] += size()
				b = model3d.NewCoord3DArray(arr)
			}
			if a.Dist(b) > 0.1 {
				return a, b
			}
		}
	}
	switch rng.Intn(6) {
	case 0:
		s := &model3d.Sphere{Center: pt(), Radius: size()}
		return s, fmt.Sprintf("lib.Sphere(%v,%g)", s.Center, s.Radius)
	case 1:
		mn := pt()
		r := &model3d.Rect{MinVal: mn, MaxVal: mn.Add(model3d.XYZ(size(), size(), size()))}
		return r, fmt.Sprintf("lib.Rect(%v,%v)", r.MinVal, r.MaxVal)
	case 2:
		a, b := twoPts()
		s := &model3d.Cylinder{P1: a, P2: b, Radius: size()}
		return s, fmt.Sprintf("lib.Cylinder(%v,%v,%g)", a, b, s.Radius)
	case 3:
		a, b := twoPts()
		s := &model3d.Capsule{P1: a, P2: b, Radius: size()}
		return s, fmt.Sprintf("lib.Capsule(%v,%v,%g)", a, b, s.Radius)
	case 4:
		a, b := twoPts()
		s := &model3d.Cone{Tip: a, Base: b, Radius: size()}
		return s, fmt.Sprintf("lib.Cone(%v,%v,%g)", a, b, s.Radius)
	default:
		outer := size() + 0.25
		inner := outer * (0.2 + 0.6*rng.Float64())
		if dyadic {
			inner = outer / 2
		}
		axis := model3d.XYZ(rng.NormFloat64(), rng.NormFloat64(), rng.NormFloat64()).Normalize()
		if dyadic || math.IsNaN(axis.Sum()) {
			arr := [3]float64{}
			arr[rng.Intn(3)] = 1
			axis = model3d.NewCoord3DArray(arr)
		}
		s := &model3d.Torus{Center: pt(), Axis: axis, OuterRadius: outer, InnerRadius: inner}
		return s, fmt.Sprintf("lib.Torus(%v,%v,%g,%g)", s.Center, s.Axis, outer, inner)
	}
}

func newKit3() *kit {
	return &kit{
		dim: 3, pkg: "model3d", tag: "3d",
		leaf: func(l *leafG) solidG { return s3{&hLeaf3{l}} },
		libLeaf: func(rng *rand.Rand, dyadic bool) (solidG, string) {
			s, d := libShape3(rng, dyadic)
			return s3{s}, d
		},
		join:      func(ops []solidG) solidG { return s3{model3d.JoinedSolid(native3(ops))} },
		intersect: func(ops []solidG) solidG { return s3{model3d.IntersectedSolid(native3(ops))} },
		subtract: func(pos, neg solidG) solidG {
			n := native3([]solidG{pos, neg})
			return s3{&model3d.SubtractedSolid{Positive: n[0], Negative: n[1]}}
		},
		optimize: func(ops []solidG) solidG {
			// the caller keeps its operand list: Optimize must not reorder or overwrite it
			list := native3(ops)
			before := append([]model3d.Solid{}, list...)
			res := model3d.JoinedSolid(list).Optimize()
			for i := range list {
				if !sameOperand(list[i], before[i]) {
					optimizeReordered.Add(1)
					break
				}
			}
			optimizeChecked.Add(1)
			return s3{res}
		},
		mux:      func(ops []solidG) muxG { return &mux3{model3d.NewSolidMux(native3(ops))} },
		staged: func(ops []solidG, cuts []int) (solidG, solidG) {
			all := native3(ops)
			outer := model3d.JoinedSolid{}
			for _, cut := range cuts {
				outer = append(outer, model3d.JoinedSolid(all[:cut]))
			}
			return s3{outer}, s3{outer.Optimize()}
		},
		stackSolids: func(ops []solidG) solidG {
			return s3{model3d.StackSolids(native3(ops)...)}
		},
		stackedSolid: func(ops []solidG) solidG { return s3{model3d.StackedSolid(native3(ops))} },

		sdfLeaf: func(l *sdfLeafG) sdfG { return sdf3{&hSDF3{l}, l.desc()} },
		libSDF: func(rng *rand.Rand, dyadic bool) sdfG {
			s, d := libShape3(rng, dyadic)
			return sdf3{s, d}
		},
		smooth: func(radius float64, ops []sdfG) solidG {
			n := nativeSDF3(ops)
			plain := make([]model3d.SDF, len(n))
			for i, s := range n {
				plain[i] = s
			}
			return s3{model3d.SmoothJoin(radius, plain...)}
		},
		smoothV2: func(radius float64, ops []sdfG) solidG {
			return s3{model3d.SmoothJoinV2(radius, nativeSDF3(ops)...)}
		},
	}
}
