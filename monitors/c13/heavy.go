package main

// Workloads at sizes where size-gated behaviour of the library would switch on:
// memoisation tables that have seen several hundred thousand distinct keys, and
// hierarchies / indexes built over tens of thousands of objects (a build that
// parallelises above some size must not race on its own scratch state, and the
// result is a function of the input alone). They cost seconds under the race
// detector, so they repeat less often than the others (heavyWorkloads).

import (
	"fmt"
	"math"
	"math/rand"
	"sync/atomic"

	"github.com/unixpickle/model3d/model2d"
	"github.com/unixpickle/model3d/model3d"
	"github.com/unixpickle/model3d/render3d"
)

var heavyWorkloads = map[string]bool{"cache-many-keys": true, "large-builds": true}

func wCacheManyKeys(w *wctx) {
	f := func(x float64) float64 { return math.Sin(x)*x + 1 }
	cf := model2d.CacheScalarFunc(f)
	curve := model2d.BezierCurve{model2d.XY(0, 0), model2d.XY(1, 2), model2d.XY(2, -1), model2d.XY(3, 1)}
	cb := curve.CachedEvalX(0)
	perG := 700000 / w.gos
	if w.seed%4 == 0 {
		perG = 1500000 / w.gos
	}
	var bad int32
	w.parallel(w.gos, func(g int, rng *rand.Rand) {
		for k := 0; k < perG && atomic.LoadInt32(&bad) == 0; k++ {
			// mostly new keys (distinct per goroutine), some shared with everybody
			var x float64
			if k%8 == 0 {
				x = float64(rng.Intn(1000)) * 0.001
			} else {
				x = float64(g) + float64(k)/float64(perG)
			}
			if got := cf(x); got != f(x) {
				atomic.StoreInt32(&bad, 1)
				w.behav("model2d.CacheScalarFunc/equals-function(many-keys)", fmt.Sprintf("after ~%d distinct keys per goroutine: cached f(%g)=%g want %g", k, x, got, f(x)))
				return
			}
			if k%4 == 0 {
				xx := 3 * float64(k) / float64(perG)
				if got, want := cb(xx), curve.EvalX(xx); got != want && !(math.IsNaN(got) && math.IsNaN(want)) {
					atomic.StoreInt32(&bad, 1)
					w.behav("model2d.BezierCurve.CachedEvalX/equals-function(many-keys)", fmt.Sprintf("cached EvalX(%g)=%g want %g", xx, got, want))
					return
				}
			}
		}
		w.ops(perG)
	})
	w.count("cache_many_keys.distinct_keys", int64(perG*w.gos*7/8))
}

func bvhDigest3(b *model3d.BVH[*model3d.Triangle], depth int, h *uint64, leaves *int) {
	if b == nil {
		return
	}
	if b.Leaf != nil {
		*leaves++
		for _, p := range b.Leaf {
			for _, x := range p.Array() {
				*h = (*h ^ math.Float64bits(x) ^ uint64(depth)) * 1099511628211
			}
		}
		return
	}
	*h = (*h ^ uint64(len(b.Branch))<<32 ^ uint64(depth)) * 1099511628211
	for _, ch := range b.Branch {
		bvhDigest3(ch, depth+1, h, leaves)
	}
}

func bvhDigest2(b *model2d.BVH[*model2d.Segment], depth int, h *uint64, leaves *int) {
	if b == nil {
		return
	}
	if b.Leaf != nil {
		*leaves++
		for _, p := range b.Leaf {
			for _, x := range p.Array() {
				*h = (*h ^ math.Float64bits(x) ^ uint64(depth)) * 1099511628211
			}
		}
		return
	}
	*h = (*h ^ uint64(len(b.Branch))<<32 ^ uint64(depth)) * 1099511628211
	for _, ch := range b.Branch {
		bvhDigest2(ch, depth+1, h, leaves)
	}
}

func wLargeBuilds(w *wctx) {
	rng := w.rng
	n := 33 + rng.Intn(6) // 20*n*n triangles: 21780..28880
	mesh := model3d.NewMeshIcosphere(model3d.XYZ(rng.NormFloat64(), rng.NormFloat64(), rng.NormFloat64()), 1+rng.Float64(), n)
	tris := mesh.TriangleSlice()
	rng.Shuffle(len(tris), func(i, j int) { tris[i], tris[j] = tris[j], tris[i] })
	w.count("large_builds.triangles", int64(len(tris)))

	// the hierarchy is a function of the input: two builds over equal inputs are the same tree,
	// and every object is in it exactly once
	digest := func() (uint64, int) {
		in := append([]*model3d.Triangle{}, tris...)
		b := model3d.NewBVHAreaDensity(in)
		var h uint64 = 14695981039346656037
		leaves := 0
		bvhDigest3(b, 0, &h, &leaves)
		return h, leaves
	}
	h1, l1 := digest()
	h2, l2 := digest()
	if l1 != len(tris) || l2 != len(tris) {
		w.behav("model3d.NewBVHAreaDensity/every-object-once(large)", fmt.Sprintf("%d objects, hierarchy has %d / %d leaves", len(tris), l1, l2))
	} else if h1 != h2 {
		w.behav("model3d.NewBVHAreaDensity/deterministic(large)", fmt.Sprintf("two builds over the same %d triangles give different hierarchies", len(tris)))
	}
	w.ops(2)

	// colliders / fields built over the large mesh, then queried concurrently against a second build
	c1, c2 := model3d.MeshToCollider(mesh), model3d.MeshToCollider(mesh)
	s1, s2 := model3d.MeshToSDF(mesh), model3d.MeshToSDF(mesh)
	pts := mesh.VertexSlice()
	t1 := model3d.NewCoordTree(pts)
	ctr := mesh.Min().Mid(mesh.Max())
	var bad int32
	w.parallel(w.gos, func(g int, rng *rand.Rand) {
		for k := 0; k < 60 && atomic.LoadInt32(&bad) == 0; k++ {
			o := ctr.Add(model3d.XYZ(rng.NormFloat64(), rng.NormFloat64(), rng.NormFloat64()).Scale(2))
			ray := &model3d.Ray{Origin: o, Direction: ctr.Add(model3d.XYZ(rng.NormFloat64(), rng.NormFloat64(), rng.NormFloat64()).Scale(0.5)).Sub(o)}
			a, aok := c1.FirstRayCollision(ray)
			b, bok := c2.FirstRayCollision(ray)
			if aok != bok || (aok && a.Scale != b.Scale) {
				atomic.StoreInt32(&bad, 1)
				w.behav("model3d.MeshToCollider/two-builds-agree(large)", fmt.Sprintf("ray %v: %v/%v vs %v/%v", *ray, a.Scale, aok, b.Scale, bok))
				return
			}
			if s1.SDF(o) != s2.SDF(o) {
				atomic.StoreInt32(&bad, 1)
				w.behav("model3d.MeshToSDF/two-builds-agree(large)", fmt.Sprintf("at %v: %g vs %g", o, s1.SDF(o), s2.SDF(o)))
				return
			}
			nn := t1.NearestNeighbor(o)
			best := math.Inf(1)
			for _, p := range pts {
				if d := p.Dist(o); d < best {
					best = d
				}
			}
			if nn.Dist(o) != best {
				atomic.StoreInt32(&bad, 1)
				w.behav("model3d.CoordTree.NearestNeighbor/equals-linear-scan(large)", fmt.Sprintf("at %v: tree gives distance %g, scan %g", o, nn.Dist(o), best))
				return
			}
		}
		w.ops(180)
	})

	// 2D: a closed polygon with >= 20000 segments
	m2 := model2d.NewMesh()
	ns := 20000 + rng.Intn(8000)
	pt := func(i int) model2d.Coord {
		th := 2 * math.Pi * float64(i%ns) / float64(ns)
		r := 1 + 0.2*math.Sin(7*th) + 0.05*math.Sin(113*th)
		return model2d.XY(r*math.Cos(th), r*math.Sin(th))
	}
	for i := 0; i < ns; i++ {
		m2.Add(&model2d.Segment{pt(i), pt(i + 1)})
	}
	segs := m2.SegmentSlice()
	rng.Shuffle(len(segs), func(i, j int) { segs[i], segs[j] = segs[j], segs[i] })
	digest2 := func() (uint64, int) {
		in := append([]*model2d.Segment{}, segs...)
		b := model2d.NewBVHAreaDensity(in)
		var h uint64 = 14695981039346656037
		leaves := 0
		bvhDigest2(b, 0, &h, &leaves)
		return h, leaves
	}
	g1, k1 := digest2()
	g2, k2 := digest2()
	if k1 != len(segs) || k2 != len(segs) {
		w.behav("model2d.NewBVHAreaDensity/every-object-once(large)", fmt.Sprintf("%d objects, hierarchy has %d / %d leaves", len(segs), k1, k2))
	} else if g1 != g2 {
		w.behav("model2d.NewBVHAreaDensity/deterministic(large)", fmt.Sprintf("two builds over the same %d segments give different hierarchies", len(segs)))
	}
	d1, d2 := model2d.MeshToSDF(m2), model2d.MeshToSDF(m2)
	w.parallel(w.gos, func(g int, rng *rand.Rand) {
		for k := 0; k < 100; k++ {
			p := model2d.XY(rng.NormFloat64(), rng.NormFloat64())
			if d1.SDF(p) != d2.SDF(p) {
				w.behav("model2d.MeshToSDF/two-builds-agree(large)", fmt.Sprintf("at %v: %g vs %g", p, d1.SDF(p), d2.SDF(p)))
				return
			}
		}
		w.ops(100)
	})
	w.count("large_builds.segments", int64(ns))
}

// wMedium: one ParticipatingMedium object shared by all goroutines (as the render workers share
// the scene): every goroutine casts along its own line, whose stretch inside the ball is disjoint
// from the others'; a collision must lie inside the caller's own stretch.
func wMedium(w *wctx) {
	ctr := model3d.XYZ(w.rng.NormFloat64(), w.rng.NormFloat64(), w.rng.NormFloat64())
	med := &render3d.ParticipatingMedium{Collider: &model3d.Sphere{Center: ctr, Radius: 1}, Material: &render3d.HGMaterial{G: 0.2, ScatterColor: render3d.NewColor(0.8)}, Lambda: 3}
	var bad int32
	w.parallel(w.gos, func(g int, rng *rand.Rand) {
		dir := model3d.XYZ(rng.NormFloat64(), rng.NormFloat64(), rng.NormFloat64()).Normalize()
		back := 2 + 3*float64(g) // the ball is entered at distance back-1 and left at back+1
		origin := ctr.Sub(dir.Scale(back))
		for k := 0; k < 300 && atomic.LoadInt32(&bad) == 0; k++ {
			rc, _, ok := med.Cast(&model3d.Ray{Origin: origin, Direction: dir})
			if ok && (rc.Scale < back-1-1e-9 || rc.Scale > back+1+1e-9) {
				atomic.StoreInt32(&bad, 1)
				w.behav("render3d.ParticipatingMedium.Cast/concurrent-collision-inside-own-stretch", fmt.Sprintf("goroutine %d: collision at %g, its ray is inside the medium from %g to %g", g, rc.Scale, back-1, back+1))
				return
			}
		}
		w.ops(300)
	})
	// and inside a render
	cam := render3d.NewCameraAt(ctr.Add(model3d.XYZ(0, -4, 0)), ctr, 0.8)
	rt := &render3d.RecursiveRayTracer{Camera: cam, MaxDepth: 3, NumSamples: 4,
		Lights: []*render3d.PointLight{{Origin: ctr.Add(model3d.XYZ(2, -3, 4)), Color: render3d.NewColor(20)}}}
	img := render3d.NewImage(24, 18)
	rt.Render(img, med)
	w.ops(24 * 18)
}
