package main

import (
	"fmt"
	"math"
	"math/rand"
	"os"
	"runtime"
	"sort"
	"strconv"
	"strings"
	"sync"
	"sync/atomic"

	"github.com/unixpickle/model3d/model2d"
	"github.com/unixpickle/model3d/model3d"
	"github.com/unixpickle/model3d/numerical"
	"github.com/unixpickle/model3d/render3d"
	"github.com/unixpickle/model3d/toolbox3d"
	"verif/vlib"
)

type C3 = model3d.Coord3D

type wctx struct {
	name string
	gos  int
	seed int64
	rng  *rand.Rand
	out  sync.Mutex
	nops int64
}

func (w *wctx) count(name string, n int64) {
	w.out.Lock()
	fmt.Printf("COUNT %s %d\n", name, n)
	w.out.Unlock()
}

func (w *wctx) ops(n int) {
	w.out.Lock()
	w.nops += int64(n)
	w.out.Unlock()
}

func (w *wctx) behav(key, what string) {
	w.out.Lock()
	fmt.Printf("BEHAV %s|%s\n", key, strings.Replace(what, "\n", " ", -1))
	w.out.Unlock()
}

// parallel releases n goroutines from a barrier.
func (w *wctx) parallel(n int, f func(g int, rng *rand.Rand)) {
	var start, done sync.WaitGroup
	start.Add(1)
	for g := 0; g < n; g++ {
		done.Add(1)
		go func(g int) {
			defer done.Done()
			rng := rand.New(rand.NewSource(w.seed*1000 + int64(g)))
			start.Wait()
			f(g, rng)
		}(g)
	}
	start.Done()
	done.Wait()
}

func childMain(args []string) {
	name := args[0]
	gos, _ := strconv.Atoi(args[1])
	seed, _ := strconv.ParseInt(args[2], 10, 64)
	runtime.GOMAXPROCS(16)
	rand.Seed(seed)
	w := &wctx{name: name, gos: gos, seed: seed, rng: rand.New(rand.NewSource(seed))}
	for _, wl := range workloads() {
		if wl.name == name {
			wl.run(w)
			w.count("ops."+name, w.nops)
			os.Exit(0)
		}
	}
	fmt.Fprintln(os.Stderr, "unknown workload", name)
	os.Exit(64)
}

// ---------------------------------------------------------------------------
// shared fixtures

func blobMeshTris(rng *rand.Rand) []*model3d.Triangle {
	a := vlib.SphereSolid(model3d.XYZ(0, 0, 0), 0.6+0.3*rng.Float64())
	b := vlib.SphereSolid(model3d.XYZ(0.7, 0.2, 0), 0.4+0.2*rng.Float64())
	s := vlib.UnionSolid(a, b)
	old := runtime.GOMAXPROCS(1)
	m := model3d.MarchingCubesSearch(s, 0.12+0.04*rng.Float64(), 2)
	runtime.GOMAXPROCS(old)
	ts := m.TriangleSlice()
	sort.Slice(ts, func(i, j int) bool { return lessTri(ts[i], ts[j]) })
	return ts
}

func lessTri(a, b *model3d.Triangle) bool {
	for k := 0; k < 3; k++ {
		if a[k] != b[k] {
			if a[k].X != b[k].X {
				return a[k].X < b[k].X
			}
			if a[k].Y != b[k].Y {
				return a[k].Y < b[k].Y
			}
			return a[k].Z < b[k].Z
		}
	}
	return false
}

// freshMesh builds a mesh of copies of the triangles, without touching any
// query (so the lazy vertex index does not exist yet).
func freshMesh(ts []*model3d.Triangle) (*model3d.Mesh, []*model3d.Triangle) {
	m := model3d.NewMesh()
	cp := make([]*model3d.Triangle, len(ts))
	for i, t := range ts {
		c := *t
		cp[i] = &c
		m.Add(cp[i])
	}
	return m, cp
}

func triKey(t *model3d.Triangle) string {
	return fmt.Sprintf("%x,%x,%x;%x,%x,%x;%x,%x,%x", t[0].X, t[0].Y, t[0].Z, t[1].X, t[1].Y, t[1].Z, t[2].X, t[2].Y, t[2].Z)
}

func trisDigest(ts []*model3d.Triangle) string {
	keys := make([]string, len(ts))
	for i, t := range ts {
		keys[i] = triKey(t)
	}
	sort.Strings(keys)
	return fmt.Sprint(len(keys), keys)
}

func coordsDigest(cs []C3) string {
	keys := make([]string, len(cs))
	for i, c := range cs {
		keys[i] = fmt.Sprintf("%x,%x,%x", c.X, c.Y, c.Z)
	}
	sort.Strings(keys)
	return fmt.Sprint(len(keys), keys)
}

// meshQuery answers read-only query q on mesh m (own triangle list ts) as a digest.
func meshQuery(m *model3d.Mesh, ts []*model3d.Triangle, q int, i int) string {
	t := ts[i%len(ts)]
	switch q % 14 {
	case 0:
		return "Find1:" + trisDigest(m.Find(t[0]))
	case 1:
		return "Find2:" + trisDigest(m.Find(t[0], t[1]))
	case 2:
		return "Neighbors:" + trisDigest(m.Neighbors(t))
	case 3:
		return "VertexSlice:" + coordsDigest(m.VertexSlice())
	case 4:
		var all []*model3d.Triangle
		m.Iterate(func(x *model3d.Triangle) { all = append(all, x) })
		return "Iterate:" + trisDigest(all)
	case 5:
		var vs []C3
		m.IterateVertices(func(c C3) { vs = append(vs, c) })
		return "IterateVertices:" + coordsDigest(vs)
	case 6:
		n := m.AllVertexNeighbors()
		return "AllVertexNeighbors:" + coordsDigest(n.Value(t[1])) + fmt.Sprint(n.Len())
	case 7:
		return fmt.Sprintf("MinMax:%x %x", m.Min(), m.Max())
	case 8:
		return fmt.Sprint("NeedsRepair:", m.NeedsRepair(), len(m.SingularVertices()), m.NumTriangles())
	case 9:
		mm := m.MapCoords(func(c C3) C3 { return c.Scale(2) })
		return "MapCoords:" + trisDigest(mm.TriangleSlice())
	case 10:
		m.Blur(0.3) // summation order follows map iteration: executed, not compared
		return "Blur"
	case 12, 13:
		// a sorted traversal with the caller's own comparator is a read like any other
		ax := i % 3
		if q%14 == 13 {
			ax = (i + 1) % 3
		}
		var all []*model3d.Triangle
		sorted := true
		var prev *model3d.Triangle
		key := func(x *model3d.Triangle) float64 { return x[0].Array()[ax] + x[1].Array()[ax] + x[2].Array()[ax] }
		m.IterateSorted(func(x *model3d.Triangle) {
			if prev != nil && key(prev) > key(x) {
				sorted = false
			}
			prev = x
			all = append(all, x)
		}, func(a, b *model3d.Triangle) bool { return key(a) < key(b) })
		return fmt.Sprint("IterateSorted:", sorted, trisDigest(all))
	default:
		return fmt.Sprint("Contains:", m.Contains(t), len(m.TriangleSlice()))
	}
}

func workloads() []workload {
	return []workload{
		{"mesh3d-readers", "model3d.Mesh read-only queries incl. lazy index construction", wMesh3},
		{"mesh2d-readers", "model2d.Mesh read-only queries incl. lazy index construction", wMesh2},
		{"collider3d", "model3d.MeshToCollider queries", wCollider3},
		{"sdf3d", "model3d.MeshToSDF queries", wSDF3},
		{"solid3d", "model3d.ColliderSolid / MeshHierarchy queries", wSolid3},
		{"model2d-derived", "model2d MeshToCollider/MeshToSDF/ColliderSolid and ProfileCollider queries", wDerived2},
		{"cached-funcs", "model2d.CacheScalarFunc / toolbox3d.CoordColorFunc.Cached", wCached},
		{"raycaster", "render3d.RayCaster rendering several images at once", wRayCaster},
		{"raytracer", "render3d.RecursiveRayTracer / BidirPathTracer rendering several images at once", wRayTracer},
		{"render-progress", "render3d.RecursiveRayTracer / BidirPathTracer single render with progress reporting (LogFunc) switched on", wRenderProgress},
		{"meshing", "MarchingCubes/Search/Filter, MarchingSquares, DualContouring worker pools", wMeshing},
		{"rasterize", "model2d.Rasterizer worker pool", wRaster},
		{"kmeans", "numerical.KMeans.Iterate/Assign worker pools", wKMeans},
		{"heightmap", "toolbox3d.HeightMap.AddSpheresSDF worker pool", wHeightMap},
		{"obj-builders", "model3d.Build*OBJ and CoordColorFunc.QuantizedTriangleColor worker pools", wOBJ},
		{"first-use", "concurrent first calls of independent library entry points in a fresh process (package-level lazy state)", wFirstUse},
		{"first-use-bezier", "model2d.BezierCurve.Eval / CachedEvalX of high-degree curves, first evaluations of each degree made concurrently in a fresh process", wFirstUseBezier},
		{"wrapped-colliders", "model3d.TransformCollider / ProfileCollider / JoinedCollider of primitives: concurrent ray and ball queries on one object", wWrappedColliders},
		{"uv-mapfn", "model3d.MeshUVMap.MapFn: one lookup function shared by all goroutines (the texture-fill pattern)", wMapFn},
		{"cache-many-keys", "model2d.CacheScalarFunc / BezierCurve.CachedEvalX shared by all goroutines and asked for several hundred thousand distinct arguments", wCacheManyKeys},
		{"large-builds", "NewBVHAreaDensity / MeshToCollider / MeshToSDF / NewCoordTree over more than 20000 objects (2D and 3D): builds are deterministic, complete and race-free, then queried concurrently", wLargeBuilds},
		{"participating-medium", "render3d.ParticipatingMedium.Cast on one shared medium object, directly and inside a render", wMedium},
		{"joined-shared-child", "model3d.NewJoinedCollider: several goroutines build and query their own join over one shared child collider", wJoinedSharedChild},
		{"profile-flat-rays", "model3d.ProfileCollider: rays lying in a z plane (several outline crossings each) enumerated with callbacks that yield the processor, by many goroutines on few processors", wProfileFlatRays},
	}
}

func wMesh3(w *wctx) {
	ts := blobMeshTris(w.rng)
	// sequential reference on an identical fresh mesh
	refMesh, refTs := freshMesh(ts)
	nq := 40
	type q struct{ kind, idx int }
	plans := make([][]q, w.gos)
	for g := range plans {
		for k := 0; k < nq; k++ {
			plans[g] = append(plans[g], q{w.rng.Intn(14), w.rng.Intn(len(ts))})
		}
	}
	mesh, mts := freshMesh(ts)
	if mesh.VerifIndexBuilt() {
		w.behav("harness/fresh-mesh", "fresh mesh already has an index")
	}
	// on odd seeds the readers do not start on a fresh mesh: one goroutine has queried it (the
	// index exists) and then removed a tenth of the faces; the concurrent readers come right after
	// the last removal. The reference mesh gets the same history.
	if w.seed%2 == 1 {
		refMesh.VertexSlice()
		mesh.VertexSlice()
		for k := 0; k < len(ts)/10+1; k++ {
			i := w.rng.Intn(len(ts))
			refMesh.Remove(refTs[i])
			mesh.Remove(mts[i])
		}
	}
	want := make([][]string, w.gos)
	for g := range plans {
		for _, p := range plans[g] {
			want[g] = append(want[g], meshQuery(refMesh, refTs, p.kind, p.idx))
		}
	}
	w.parallel(w.gos, func(g int, _ *rand.Rand) {
		for k, p := range plans[g] {
			got := meshQuery(mesh, mts, p.kind, p.idx)
			if got != want[g][k] {
				w.behav("model3d.Mesh."+strings.SplitN(got, ":", 2)[0]+"/concurrent-equals-sequential", fmt.Sprintf("concurrent answer differs from sequential answer on an identical mesh: %.200s vs %.200s", got, want[g][k]))
				return
			}
		}
		w.ops(len(plans[g]))
	})
}

func wMesh2(w *wctx) {
	// 2D mesh from marching squares of discs
	c1 := model2d.XY(0, 0)
	s := &model2d.Circle{Center: c1, Radius: 0.7 + 0.2*w.rng.Float64()}
	base := model2d.MarchingSquaresSearch(s, 0.05, 2)
	segs := base.SegmentSlice()
	sort.Slice(segs, func(i, j int) bool {
		a, b := segs[i], segs[j]
		if a[0] != b[0] {
			if a[0].X != b[0].X {
				return a[0].X < b[0].X
			}
			return a[0].Y < b[0].Y
		}
		if a[1].X != b[1].X {
			return a[1].X < b[1].X
		}
		return a[1].Y < b[1].Y
	})
	fresh := func() (*model2d.Mesh, []*model2d.Segment) {
		m := model2d.NewMesh()
		cp := make([]*model2d.Segment, len(segs))
		for i, s := range segs {
			c := *s
			cp[i] = &c
			m.Add(cp[i])
		}
		return m, cp
	}
	query := func(m *model2d.Mesh, ss []*model2d.Segment, kind, i int) string {
		sg := ss[i%len(ss)]
		dig := func(xs []*model2d.Segment) string {
			keys := make([]string, len(xs))
			for i, x := range xs {
				keys[i] = fmt.Sprintf("%x,%x;%x,%x", x[0].X, x[0].Y, x[1].X, x[1].Y)
			}
			sort.Strings(keys)
			return fmt.Sprint(keys)
		}
		switch kind % 8 {
		case 0:
			return "Find:" + dig(m.Find(sg[0]))
		case 1:
			return "Neighbors:" + dig(m.Neighbors(sg))
		case 2:
			vs := m.VertexSlice()
			keys := make([]string, len(vs))
			for i, v := range vs {
				keys[i] = fmt.Sprintf("%x,%x", v.X, v.Y)
			}
			sort.Strings(keys)
			return "VertexSlice:" + fmt.Sprint(keys)
		case 3:
			n := 0
			m.IterateVertices(func(model2d.Coord) { n++ })
			return fmt.Sprint("IterateVertices:", n)
		case 4:
			return fmt.Sprint("Manifold:", m.Manifold(), m.NumSegments())
		case 5:
			return "MapCoords:" + dig(m.MapCoords(func(c model2d.Coord) model2d.Coord { return c.Scale(3) }).SegmentSlice())
		case 6:
			return fmt.Sprintf("MinMax:%x %x", m.Min(), m.Max())
		default:
			return fmt.Sprint("AllVertexNeighbors:", m.AllVertexNeighbors().Len())
		}
	}
	refM, refS := fresh()
	type q struct{ kind, idx int }
	plans := make([][]q, w.gos)
	want := make([][]string, w.gos)
	for g := range plans {
		for k := 0; k < 40; k++ {
			p := q{w.rng.Intn(8), w.rng.Intn(len(segs))}
			plans[g] = append(plans[g], p)
			want[g] = append(want[g], query(refM, refS, p.kind, p.idx))
		}
	}
	m, ss := fresh()
	w.parallel(w.gos, func(g int, _ *rand.Rand) {
		for k, p := range plans[g] {
			if got := query(m, ss, p.kind, p.idx); got != want[g][k] {
				w.behav("model2d.Mesh."+strings.SplitN(got, ":", 2)[0]+"/concurrent-equals-sequential", fmt.Sprintf("%.150s vs %.150s", got, want[g][k]))
				return
			}
		}
		w.ops(len(plans[g]))
	})
}

func randRay(rng *rand.Rand) *model3d.Ray {
	return &model3d.Ray{Origin: model3d.XYZ(rng.NormFloat64(), rng.NormFloat64(), rng.NormFloat64()), Direction: model3d.XYZ(rng.NormFloat64(), rng.NormFloat64(), rng.NormFloat64())}
}

// concurrentVsSequential evaluates nq seeded queries per goroutine first
// sequentially on refObj and then concurrently on obj.
func concurrentVsSequential(w *wctx, api string, nq int, ref, obj func(rng *rand.Rand) string) {
	want := make([][]string, w.gos)
	for g := 0; g < w.gos; g++ {
		rng := rand.New(rand.NewSource(w.seed*1000 + int64(g)))
		for k := 0; k < nq; k++ {
			want[g] = append(want[g], ref(rng))
		}
	}
	w.parallel(w.gos, func(g int, rng *rand.Rand) {
		for k := 0; k < nq; k++ {
			if got := obj(rng); got != want[g][k] {
				w.behav(api+"/concurrent-equals-sequential", fmt.Sprintf("%.150s vs %.150s", got, want[g][k]))
				return
			}
		}
		w.ops(nq)
	})
}

func wCollider3(w *wctx) {
	ts := blobMeshTris(w.rng)
	mk := func() model3d.MultiCollider { m, _ := freshMesh(ts); return model3d.MeshToCollider(m) }
	q := func(c model3d.MultiCollider) func(rng *rand.Rand) string {
		return func(rng *rand.Rand) string {
			ray := randRay(rng)
			switch rng.Intn(5) {
			case 0:
				var ps []float64
				n := c.RayCollisions(ray, func(rc model3d.RayCollision) { ps = append(ps, rc.Scale) })
				sort.Float64s(ps)
				return fmt.Sprintf("RayCollisions:%d %x", n, ps)
			case 1:
				rc, ok := c.FirstRayCollision(ray)
				return fmt.Sprintf("First:%v %x %x", ok, rc.Scale, rc.Normal)
			case 2:
				return fmt.Sprint("Sphere:", c.SphereCollision(ray.Origin, math.Abs(ray.Direction.X)))
			case 3:
				return fmt.Sprint("Rect:", c.RectCollision(model3d.NewRect(ray.Origin, ray.Origin.Add(model3d.XYZ(0.3, 0.3, 0.3)))))
			default:
				return fmt.Sprint("Segment:", c.SegmentCollision(model3d.NewSegment(ray.Origin, ray.Origin.Add(ray.Direction))))
			}
		}
	}
	shared := mk() // no lazy state: the sequential reference is taken on the same object (tie-breaking depends on how the hierarchy was built)
	concurrentVsSequential(w, "model3d.MeshToCollider", 150, q(shared), q(shared))
}

func wSDF3(w *wctx) {
	ts := blobMeshTris(w.rng)
	mk := func() model3d.FaceSDF { m, _ := freshMesh(ts); return model3d.MeshToSDF(m) }
	q := func(s model3d.FaceSDF) func(rng *rand.Rand) string {
		return func(rng *rand.Rand) string {
			p := model3d.XYZ(rng.NormFloat64(), rng.NormFloat64(), rng.NormFloat64())
			switch rng.Intn(4) {
			case 0:
				return fmt.Sprintf("SDF:%x", s.SDF(p))
			case 1:
				pt, d := s.PointSDF(p)
				return fmt.Sprintf("PointSDF:%x %x", pt, d)
			case 2:
				n, d := s.NormalSDF(p)
				return fmt.Sprintf("NormalSDF:%x %x", n, d)
			default:
				f, pt, d := s.FaceSDF(p)
				return fmt.Sprintf("FaceSDF:%s %x %x", triKey(f), pt, d)
			}
		}
	}
	shared := mk() // no lazy state: the sequential reference is taken on the same object (tie-breaking depends on how the hierarchy was built)
	concurrentVsSequential(w, "model3d.MeshToSDF", 150, q(shared), q(shared))
}

func wSolid3(w *wctx) {
	ts := blobMeshTris(w.rng)
	type both struct {
		cs *model3d.ColliderSolid
		h  []*model3d.MeshHierarchy
	}
	mk := func() both {
		m, _ := freshMesh(ts)
		m2, _ := freshMesh(ts)
		return both{model3d.NewColliderSolid(model3d.MeshToCollider(m)), model3d.MeshToHierarchy(m2)}
	}
	q := func(b both) func(rng *rand.Rand) string {
		return func(rng *rand.Rand) string {
			p := model3d.XYZ(rng.NormFloat64(), rng.NormFloat64(), rng.NormFloat64()).Scale(0.7)
			in := false
			for _, h := range b.h {
				in = in || h.Contains(p)
			}
			return fmt.Sprint("Contains:", b.cs.Contains(p), in)
		}
	}
	shared := mk() // no lazy state: the sequential reference is taken on the same object (tie-breaking depends on how the hierarchy was built)
	concurrentVsSequential(w, "model3d.ColliderSolid+MeshHierarchy", 150, q(shared), q(shared))
}

func wDerived2(w *wctx) {
	s := &model2d.Circle{Radius: 0.8}
	base := model2d.MarchingSquaresSearch(s, 0.04, 2)
	type objs struct {
		c  model2d.MultiCollider
		sd model2d.PointSDF
		cs *model2d.ColliderSolid
		pc model3d.Collider
	}
	mk := func() objs {
		m := base.DeepCopy()
		m2 := base.DeepCopy()
		m3 := base.DeepCopy()
		c := model2d.MeshToCollider(m)
		return objs{c, model2d.MeshToSDF(m2), model2d.NewColliderSolid(c), model3d.ProfileCollider(model2d.MeshToCollider(m3), -0.5, 0.5)}
	}
	q := func(o objs) func(rng *rand.Rand) string {
		return func(rng *rand.Rand) string {
			p := model2d.XY(rng.NormFloat64(), rng.NormFloat64())
			d := model2d.XY(rng.NormFloat64(), rng.NormFloat64())
			switch rng.Intn(5) {
			case 0:
				n := o.c.RayCollisions(&model2d.Ray{Origin: p, Direction: d}, nil)
				return fmt.Sprint("Ray2:", n)
			case 1:
				pt, dist := o.sd.PointSDF(p)
				return fmt.Sprintf("PointSDF2:%x %x", pt, dist)
			case 2:
				return fmt.Sprint("Contains2:", o.cs.Contains(p))
			case 3:
				return fmt.Sprint("Circle2:", o.c.CircleCollision(p, math.Abs(d.X)))
			default:
				ray := randRay(rng)
				rc, ok := o.pc.FirstRayCollision(ray)
				return fmt.Sprintf("Profile:%v %x %d", ok, rc.Scale, o.pc.RayCollisions(ray, nil))
			}
		}
	}
	shared := mk() // no lazy state: the sequential reference is taken on the same object (tie-breaking depends on how the hierarchy was built)
	concurrentVsSequential(w, "model2d.derived+ProfileCollider", 150, q(shared), q(shared))
}

func wCached(w *wctx) {
	f := func(x float64) float64 { return math.Sin(x)*x + 1 }
	cf := model2d.CacheScalarFunc(f)
	col := toolbox3d.CoordColorFunc(func(c C3) render3d.Color { return render3d.NewColorRGB(c.X, c.Y*2, c.Z+1) })
	cc := col.Cached()
	w.parallel(w.gos, func(g int, rng *rand.Rand) {
		for k := 0; k < 400; k++ {
			x := float64(rng.Intn(40)) * 0.25 // few keys: many goroutines hit the same entries
			if got := cf(x); got != f(x) {
				w.behav("model2d.CacheScalarFunc/equals-function", fmt.Sprintf("cached f(%g)=%g want %g", x, got, f(x)))
				return
			}
			p := model3d.XYZ(x, float64(rng.Intn(3)), 1)
			if got := cc(p); got != col(p) {
				w.behav("toolbox3d.CoordColorFunc.Cached/equals-function", fmt.Sprintf("cached colour at %v differs", p))
				return
			}
		}
		w.ops(800)
	})
}

func sceneObject(rng *rand.Rand) render3d.Object {
	return render3d.JoinedObject{
		&render3d.ColliderObject{Collider: &model3d.Sphere{Center: model3d.XYZ(0, 0, 0), Radius: 1}, Material: &render3d.LambertMaterial{DiffuseColor: render3d.NewColor(0.6), AmbientColor: render3d.NewColor(0.1)}},
		&render3d.ColliderObject{Collider: model3d.NewRect(model3d.XYZ(-3, -3, -1.5), model3d.XYZ(3, 3, -1.2)), Material: &render3d.PhongMaterial{Alpha: 5, SpecularColor: render3d.NewColor(0.3), DiffuseColor: render3d.NewColor(0.4)}},
	}
}

func wRayCaster(w *wctx) {
	obj := sceneObject(w.rng)
	rc := &render3d.RayCaster{Camera: render3d.NewCameraAt(model3d.XYZ(0, -5, 2), model3d.XYZ(0, 0, 0), 0.9),
		Lights: []*render3d.PointLight{{Origin: model3d.XYZ(3, -4, 5), Color: render3d.NewColor(1)}}}
	ref := render3d.NewImage(23, 17)
	rc.Render(ref, obj)
	w.parallel(w.gos, func(g int, _ *rand.Rand) {
		img := render3d.NewImage(23, 17)
		rc.Render(img, obj)
		for i := range img.Data {
			if img.Data[i] != ref.Data[i] {
				w.behav("render3d.RayCaster.Render/concurrent-equals-sequential", fmt.Sprintf("pixel %d differs: %v vs %v", i, img.Data[i], ref.Data[i]))
				return
			}
		}
		w.ops(len(img.Data))
	})
}

func wRayTracer(w *wctx) {
	obj := sceneObject(w.rng)
	light := &render3d.ColliderObject{Collider: &model3d.Sphere{Center: model3d.XYZ(2, -2, 4), Radius: 0.5}, Material: &render3d.LambertMaterial{EmissionColor: render3d.NewColor(20)}}
	full := render3d.JoinedObject{obj, light}
	cam := render3d.NewCameraAt(model3d.XYZ(0, -5, 2), model3d.XYZ(0, 0, 0), 0.9)
	rt := &render3d.RecursiveRayTracer{Camera: cam, MaxDepth: 3, NumSamples: 6, MinSamples: 2, MaxStddev: 0.05, Antialias: 0.5,
		FocusPoints: []render3d.FocusPoint{&render3d.SphereFocusPoint{Center: model3d.XYZ(2, -2, 4), Radius: 0.5}}, FocusPointProbs: []float64{0.3}}
	bd := &render3d.BidirPathTracer{Camera: cam, Light: render3d.NewSphereAreaLight(&model3d.Sphere{Center: model3d.XYZ(2, -2, 4), Radius: 0.5}, render3d.NewColor(20)),
		MaxDepth: 4, NumSamples: 4, MinSamples: 2, MaxStddev: 0.05}
	w.parallel(w.gos, func(g int, _ *rand.Rand) {
		img := render3d.NewImage(9, 7)
		if g%2 == 0 {
			rt.Render(img, full)
		} else {
			bd.Render(img, obj)
		}
		for _, c := range img.Data {
			if math.IsNaN(c.X+c.Y+c.Z) || c.X < 0 {
				w.behav("render3d.Render/finite-nonnegative", fmt.Sprintf("pixel %v", c))
				return
			}
		}
		w.ops(len(img.Data))
	})
}

// wRenderProgress: one render at a time, with the optional progress callback set. The
// renderer's workers are its own (runtime.NumCPU() of them); the callback's state is atomic on the
// harness side, so any race report concerns the renderer's own bookkeeping. Behavioural part:
// every report has 0 < frac <= 1 and a mean sample count within the configured limits.
func wRenderProgress(w *wctx) {
	obj := sceneObject(w.rng)
	light := &render3d.ColliderObject{Collider: &model3d.Sphere{Center: model3d.XYZ(2, -2, 4), Radius: 0.5}, Material: &render3d.LambertMaterial{EmissionColor: render3d.NewColor(20)}}
	full := render3d.JoinedObject{obj, light}
	cam := render3d.NewCameraAt(model3d.XYZ(0, -5, 2), model3d.XYZ(0, 0, 0), 0.9)
	runtime.GOMAXPROCS(w.gos)
	for rep := 0; rep < 3; rep++ {
		var calls, bad int64
		minS, maxS := 2, 6
		logf := func(frac, rate float64) {
			atomic.AddInt64(&calls, 1)
			if !(frac > 0 && frac <= 1) || !(rate >= float64(minS)-1e-9 && rate <= float64(maxS)+1e-9) {
				atomic.AddInt64(&bad, 1)
			}
		}
		img := render3d.NewImage(40+w.rng.Intn(40), 30+w.rng.Intn(30))
		if rep%2 == 0 {
			rt := &render3d.RecursiveRayTracer{Camera: cam, MaxDepth: 2, NumSamples: maxS, MinSamples: minS, MaxStddev: 0.05, Antialias: 0.5, LogFunc: logf}
			rt.Render(img, full)
		} else {
			bd := &render3d.BidirPathTracer{Camera: cam, Light: render3d.NewSphereAreaLight(&model3d.Sphere{Center: model3d.XYZ(2, -2, 4), Radius: 0.5}, render3d.NewColor(20)),
				MaxDepth: 3, NumSamples: maxS, MinSamples: minS, MaxStddev: 0.05, LogFunc: logf}
			bd.Render(img, obj)
		}
		if atomic.LoadInt64(&bad) > 0 {
			w.behav("render3d.Render/progress-reports-within-range", fmt.Sprintf("%d of %d progress reports had frac outside (0,1] or a mean sample count outside [%d,%d]", bad, calls, minS, maxS))
		}
		if atomic.LoadInt64(&calls) == 0 {
			w.behav("render3d.Render/progress-reported", "LogFunc was never called during a render of more than 1000 pixels")
		}
		w.count("render_progress_reports", atomic.LoadInt64(&calls))
		w.ops(len(img.Data))
	}
}

func wMeshing(w *wctx) {
	s := vlib.CSG(w.rng, 3, 1)
	delta := 0.07 + 0.03*w.rng.Float64()
	runtime.GOMAXPROCS(1)
	refMC := vlib.CanonTris(vlib.Tris(model3d.MarchingCubesSearch(s, delta, 2)))
	dcRef := vlib.CanonTris(vlib.Tris((&model3d.DualContouring{S: model3d.SolidSurfaceEstimator{Solid: s}, Delta: delta, MaxGos: 1}).Mesh()))
	runtime.GOMAXPROCS(w.gos)
	got := vlib.CanonTris(vlib.Tris(model3d.MarchingCubesSearch(s, delta, 2)))
	if eq, why := vlib.EqualCanonTris(refMC, got); !eq {
		w.behav("model3d.MarchingCubesSearch/workers-equal-sequential", why)
	}
	got = vlib.CanonTris(vlib.Tris(model3d.MarchingCubesSearchFilter(s, func(*model3d.Rect) bool { return true }, delta, 2)))
	if eq, why := vlib.EqualCanonTris(refMC, got); !eq {
		w.behav("model3d.MarchingCubesSearchFilter/workers-equal-sequential", why)
	}
	m, in := model3d.MarchingCubesInterior(s, delta, 2)
	if in.Len() == 0 && m.NumTriangles() > 0 {
		w.behav("model3d.MarchingCubesInterior/interior-points", "no interior points")
	}
	got = vlib.CanonTris(vlib.Tris((&model3d.DualContouring{S: model3d.SolidSurfaceEstimator{Solid: s}, Delta: delta, MaxGos: w.gos, BufferSize: 3000}).Mesh()))
	if eq, why := vlib.EqualCanonTris(dcRef, got); !eq {
		w.behav("model3d.DualContouring.Mesh/workers-equal-sequential", why)
	}
	(&model3d.DualContouring{S: model3d.SolidSurfaceEstimator{Solid: s}, Delta: delta, MaxGos: w.gos, Repair: true, Clip: true}).Mesh()
	c := &model2d.Circle{Radius: 0.9}
	model2d.MarchingSquaresSearchFilter(c, func(*model2d.Rect) bool { return true }, 0.03, 2)
	model2d.MarchingSquaresC2F(c, 0.1, 0.02, 0, 2)
	w.ops(100)
}

func wRaster(w *wctx) {
	c := &model2d.Circle{Radius: 0.9, Center: model2d.XY(w.rng.Float64(), 0)}
	r := &model2d.Rasterizer{Scale: 40, Subsamples: 3}
	runtime.GOMAXPROCS(1)
	ref := r.RasterizeSolid(c)
	runtime.GOMAXPROCS(w.gos)
	got := r.RasterizeSolid(c)
	for i := range ref.Pix {
		if ref.Pix[i] != got.Pix[i] {
			w.behav("model2d.Rasterizer.RasterizeSolid/workers-equal-sequential", fmt.Sprint("pixel ", i))
			break
		}
	}
	mesh := model2d.MarchingSquaresSearch(c, 0.05, 2)
	r.RasterizeCollider(model2d.MeshToCollider(mesh))
	r.RasterizeColliderSolid(model2d.MeshToCollider(mesh))
	w.ops(len(ref.Pix))
}

func wKMeans(w *wctx) {
	var data []numerical.Vec3
	for i := 0; i < 600; i++ {
		data = append(data, numerical.Vec3{float64(w.rng.Intn(50)), float64(w.rng.Intn(50)), float64(w.rng.Intn(50))})
	}
	rand.Seed(w.seed)
	runtime.GOMAXPROCS(1)
	a := numerical.NewKMeans(data, 5)
	rand.Seed(w.seed)
	b := numerical.NewKMeans(data, 5)
	for i := range a.Centers {
		if a.Centers[i] != b.Centers[i] {
			return // initialisation draws from the global RNG differently: nothing to compare
		}
	}
	for it := 0; it < 4; it++ {
		runtime.GOMAXPROCS(1)
		la := a.Iterate()
		runtime.GOMAXPROCS(w.gos)
		lb := b.Iterate()
		if math.Abs(la-lb) > 1e-9*(1+math.Abs(la)) {
			w.behav("numerical.KMeans.Iterate/workers-equal-sequential", fmt.Sprintf("loss %g vs %g", la, lb))
			return
		}
		for i := range a.Centers {
			if a.Centers[i].Sub(b.Centers[i]).Norm() > 1e-9*(1+a.Centers[i].Norm()) {
				w.behav("numerical.KMeans.Iterate/workers-equal-sequential", fmt.Sprintf("centre %d: %v vs %v", i, a.Centers[i], b.Centers[i]))
				return
			}
			b.Centers[i] = a.Centers[i] // keep the runs in lock step despite summation-order rounding
		}
	}
	runtime.GOMAXPROCS(1)
	x := a.Assign(data)
	runtime.GOMAXPROCS(w.gos)
	y := b.Assign(data)
	for i := range x {
		if x[i] != y[i] {
			w.behav("numerical.KMeans.Assign/workers-equal-sequential", fmt.Sprint("index ", i))
			break
		}
	}
	w.ops(len(data) * 5)
}

func wHeightMap(w *wctx) {
	sdf := model2d.MeshToSDF(model2d.MarchingSquaresSearch(&model2d.Circle{Radius: 1}, 0.05, 2))
	for _, maxRadius := range []float64{0, 0.2} {
		hm := toolbox3d.NewHeightMap(sdf.Min(), sdf.Max(), 60)
		var mu sync.Mutex
		type op struct {
			fill  bool
			x, y  float64
			r, sr float64
		}
		var ops []op
		depth := map[int]int{}
		_ = depth
		toolbox3d.SetVerifSink(func(name string, args ...float64) {
			mu.Lock()
			switch name {
			case "AddSphere":
				ops = append(ops, op{false, args[0], args[1], args[2], 0})
			case "AddSphereFill":
				ops = append(ops, op{true, args[0], args[1], args[2], args[3]})
			}
			mu.Unlock()
		})
		runtime.GOMAXPROCS(w.gos)
		hm.AddSpheresSDF(sdf, 300, 1e-3, maxRadius)
		toolbox3d.SetVerifSink(nil)
		if len(ops) == 0 {
			w.behav("harness/heightmap-hook", "no AddSphere events observed")
			return
		}
		// conservation: the final state equals the max-fold of the recorded operations
		// (max is commutative, associative and idempotent, so order does not matter;
		// AddSphereFill's fallback to AddSphere records both, which is harmless for a max-fold)
		ref := toolbox3d.NewHeightMap(sdf.Min(), sdf.Max(), 60)
		for _, o := range ops {
			if o.fill {
				ref.AddSphereFill(model2d.XY(o.x, o.y), o.r, o.sr)
			} else {
				ref.AddSphere(model2d.XY(o.x, o.y), o.r)
			}
		}
		for i := range ref.Data {
			if ref.Data[i] != hm.Data[i] {
				w.behav("toolbox3d.HeightMap.AddSpheresSDF/final-state-equals-max-fold", fmt.Sprintf("cell %d: %x after the parallel fill, %x when the %d recorded spheres are applied one by one (lost update)", i, hm.Data[i], ref.Data[i], len(ops)))
				break
			}
		}
		w.count("heightmap.spheres_recorded", int64(len(ops)))
		w.ops(len(ops))
	}
}

func wOBJ(w *wctx) {
	ts := blobMeshTris(w.rng)
	runtime.GOMAXPROCS(w.gos)
	vc := func(c C3) [3]float64 { return [3]float64{math.Abs(c.X) / 2, math.Abs(c.Y) / 2, 0.5} }
	tc := func(t *model3d.Triangle) [3]float64 {
		return [3]float64{math.Round(math.Abs(t[0].X)*4) / 8, math.Round(math.Abs(t[1].Y)*4) / 8, 0.25}
	}
	o := model3d.BuildVertexColorOBJ(ts, vc)
	for i, v := range o.Vertices {
		if o.VertexColors[i] != vc(model3d.NewCoord3DArray(v)) {
			w.behav("model3d.BuildVertexColorOBJ/colour-per-vertex", fmt.Sprint("vertex ", i))
			break
		}
	}
	o2, mtl := model3d.BuildMaterialOBJ(ts, tc)
	nf := 0
	for _, g := range o2.FaceGroups {
		nf += len(g.Faces)
	}
	if nf != len(ts) || len(mtl.Materials) == 0 {
		w.behav("model3d.BuildMaterialOBJ/every-face-once", fmt.Sprintf("%d faces for %d triangles", nf, len(ts)))
	}
	o3, _, _ := model3d.BuildQuantizedMaterialOBJ(ts, 32, tc)
	nf = 0
	for _, g := range o3.FaceGroups {
		nf += len(g.Faces)
	}
	if nf != len(ts) {
		w.behav("model3d.BuildQuantizedMaterialOBJ/every-face-once", fmt.Sprintf("%d faces for %d triangles", nf, len(ts)))
	}
	m, _ := freshMesh(ts)
	cf := toolbox3d.CoordColorFunc(func(c C3) render3d.Color { return render3d.NewColorRGB(math.Abs(c.X)/2, 0.5, 0.1) }).Cached()
	q := cf.QuantizedTriangleColor(m, 4)
	_ = q(ts[0])
	w.ops(len(ts) * 4)
}

// wFirstUse: the very first library calls of the process are made concurrently by
// several goroutines, each on its own inputs; every result must equal the result of
// the same call made sequentially afterwards. This is where package-level lazily
// initialised state (lookup tables, caches) would race or be observed half-built.
func wFirstUse(w *wctx) {
	type call struct {
		name string
		f    func(seed int64) string
	}
	calls := []call{
		{"model3d.MarchingCubes", func(seed int64) string {
			rng := rand.New(rand.NewSource(seed))
			s := vlib.CSG(rng, 2, 1)
			return fmt.Sprint(vlib.CanonTris(vlib.Tris(model3d.MarchingCubes(s, 0.11))))
		}},
		{"model3d.MarchingCubesSearch", func(seed int64) string {
			rng := rand.New(rand.NewSource(seed))
			s := vlib.SphereSolid(model3d.XYZ(rng.Float64(), 0, 0), 0.5+rng.Float64())
			return fmt.Sprint(vlib.CanonTris(vlib.Tris(model3d.MarchingCubesSearch(s, 0.17, 3))))
		}},
		{"model3d.MarchingCubesFilter", func(seed int64) string {
			rng := rand.New(rand.NewSource(seed))
			s := vlib.SphereSolid(model3d.XYZ(0, rng.Float64(), 0), 0.5+rng.Float64())
			return fmt.Sprint(vlib.CanonTris(vlib.Tris(model3d.MarchingCubesFilter(s, func(*model3d.Rect) bool { return true }, 0.19))))
		}},
		{"model2d.MarchingSquares", func(seed int64) string {
			rng := rand.New(rand.NewSource(seed))
			c := &model2d.Circle{Center: model2d.XY(rng.Float64(), rng.Float64()), Radius: 0.5 + rng.Float64()}
			return fmt.Sprint(vlib.CanonSegs(vlib.Segs(model2d.MarchingSquaresSearch(c, 0.07, 2))))
		}},
		{"model3d.DualContour", func(seed int64) string {
			rng := rand.New(rand.NewSource(seed))
			s := vlib.SphereSolid(model3d.XYZ(0, 0, rng.Float64()), 0.5+rng.Float64())
			return fmt.Sprint(vlib.CanonTris(vlib.Tris(model3d.DualContour(s, 0.21, false, true))))
		}},
		{"model3d.NewMeshIcosphere+MeshToSDF", func(seed int64) string {
			rng := rand.New(rand.NewSource(seed))
			m := model3d.NewMeshIcosphere(model3d.XYZ(rng.Float64(), 0, 0), 1+rng.Float64(), 3)
			sdf := model3d.MeshToSDF(m)
			return fmt.Sprintf("%d %x %x", m.NumTriangles(), sdf.SDF(model3d.XYZ(0.1, 0.2, 0.3)), sdf.SDF(model3d.XYZ(3, 0.2, 0.3)))
		}},
		{"model2d.Triangulate+BezierEval", func(seed int64) string {
			rng := rand.New(rand.NewSource(seed))
			var poly []model2d.Coord
			for i := 0; i < 9; i++ {
				a := float64(i) * 2 * math.Pi / 9
				r := 1 + 0.5*rng.Float64()
				poly = append(poly, model2d.XY(r*math.Cos(a), r*math.Sin(a)))
			}
			b := model2d.BezierCurve(poly)
			return fmt.Sprintf("%x %x", model2d.Triangulate(poly), b.Eval(0.37))
		}},
		{"model3d.NewCoordTree", func(seed int64) string {
			rng := rand.New(rand.NewSource(seed))
			var pts []C3
			for i := 0; i < 300; i++ {
				pts = append(pts, model3d.XYZ(rng.NormFloat64(), rng.NormFloat64(), rng.NormFloat64()))
			}
			t := model3d.NewCoordTree(pts)
			return fmt.Sprintf("%x %x", t.NearestNeighbor(C3{}), t.KNN(5, model3d.XYZ(1, 1, 1)))
		}},
	}
	got := make([]string, w.gos)
	which := make([]int, w.gos)
	for g := range which {
		// several goroutines make the same kind of call: the marching cubes family first
		which[g] = g % len(calls)
		if g < 4 {
			which[g] = g % 3
		}
	}
	w.parallel(w.gos, func(g int, _ *rand.Rand) {
		got[g] = calls[which[g]].f(w.seed*100 + int64(g))
		w.ops(1)
	})
	for g := range got {
		want := calls[which[g]].f(w.seed*100 + int64(g))
		if got[g] != want {
			w.behav(calls[which[g]].name+"/concurrent-first-use-equals-sequential", fmt.Sprintf("result of a concurrent first call differs from the same call made sequentially afterwards (lengths %d vs %d)", len(got[g]), len(want)))
		}
	}
	w.ops(49)
}

// wFirstUseBezier: curves with 14-20 control points (beyond the degrees a process normally has seen)
// are evaluated for the first time by all goroutines at once. The reference is the harness's own
// de Casteljau evaluation, so that no library call precedes the concurrent phase.
func wFirstUseBezier(w *wctx) {
	type job struct {
		ctrl []model2d.Coord
		ts   []float64
	}
	jobs := make([]job, w.gos)
	for g := range jobs {
		n := 14 + (g+int(w.seed%5))%7
		var ctrl []model2d.Coord
		for i := 0; i < n; i++ {
			ctrl = append(ctrl, model2d.XY(float64(i)+0.3*w.rng.Float64(), w.rng.NormFloat64()))
		}
		jobs[g] = job{ctrl, []float64{w.rng.Float64(), w.rng.Float64(), w.rng.Float64()}}
	}
	deCasteljau := func(ctrl []model2d.Coord, t float64) model2d.Coord {
		pts := append([]model2d.Coord{}, ctrl...)
		for k := len(pts) - 1; k > 0; k-- {
			for i := 0; i < k; i++ {
				pts[i] = pts[i].Scale(1 - t).Add(pts[i+1].Scale(t))
			}
		}
		return pts[0]
	}
	got := make([][]model2d.Coord, w.gos)
	w.parallel(w.gos, func(g int, _ *rand.Rand) {
		b := model2d.BezierCurve(jobs[g].ctrl)
		for _, t := range jobs[g].ts {
			got[g] = append(got[g], b.Eval(t))
		}
		w.ops(len(jobs[g].ts))
	})
	for g := range got {
		for i, t := range jobs[g].ts {
			want := deCasteljau(jobs[g].ctrl, t)
			if got[g][i].Dist(want) > 1e-6*(1+want.Norm()) {
				w.behav("model2d.BezierCurve.Eval/concurrent-first-use-equals-de-casteljau", fmt.Sprintf("%d control points, t=%g: %v, de Casteljau gives %v", len(jobs[g].ctrl), t, got[g][i], want))
				return
			}
		}
	}
	w.ops(49)
}

// wJoinedSharedChild: one joined collider is the first child of several new joins, built
// concurrently, each with its own extra member inside the shared child's bounds. Building a join
// must not write to its children; afterwards every join answers for exactly its own members.
func wJoinedSharedChild(w *wctx) {
	var baseMembers []model3d.Collider
	nb := 3 + int(w.seed%6)
	// a frame of spheres spanning the bounds, so that the markers do not extend them
	for i := 0; i < nb; i++ {
		c := model3d.XYZ(float64(i%2)*10, float64((i/2)%2)*10, float64((i/4)%2)*10)
		baseMembers = append(baseMembers, &model3d.Sphere{Center: c, Radius: 0.5})
	}
	baseMembers = append(baseMembers, &model3d.Sphere{Center: model3d.XYZ(10, 10, 10), Radius: 0.5})
	base := model3d.NewJoinedCollider(baseMembers)
	markers := make([]*model3d.Sphere, w.gos)
	for g := range markers {
		markers[g] = &model3d.Sphere{Center: model3d.XYZ(2+6*w.rng.Float64(), 2+6*w.rng.Float64(), 2+6*w.rng.Float64()), Radius: 0.05 + 0.1*w.rng.Float64()}
	}
	joins := make([]model3d.Collider, w.gos)
	w.parallel(w.gos, func(g int, _ *rand.Rand) {
		joins[g] = model3d.NewJoinedCollider([]model3d.Collider{base, markers[g]})
		w.ops(1)
	})
	// queries after all joins exist (sequentially and then concurrently)
	check := func(g int) {
		m := markers[g]
		ray := &model3d.Ray{Origin: m.Center.Add(model3d.XYZ(0.013, 0.021, -20)), Direction: model3d.Z(1)}
		want, _ := m.FirstRayCollision(ray)
		got, ok := joins[g].FirstRayCollision(ray)
		// the ray may also hit a frame sphere first only if it passes within 0.5 of a frame centre: markers are >= 1.4 away in x,y
		if !ok || got.Scale != want.Scale {
			w.behav("model3d.NewJoinedCollider/join-answers-for-its-own-members", fmt.Sprintf("join %d: first hit of a ray through its own marker is (%v, %v), the marker alone gives %v", g, got.Scale, ok, want.Scale))
		}
		for h := range markers {
			if h != g && markers[h].Center.Dist(m.Center) > markers[h].Radius+m.Radius+0.3 {
				if joins[g].SphereCollision(markers[h].Center, 1e-3) && !base.SphereCollision(markers[h].Center, 1e-3) {
					w.behav("model3d.NewJoinedCollider/join-answers-for-its-own-members", fmt.Sprintf("join %d touches the marker of join %d", g, h))
				}
			}
		}
	}
	for g := range joins {
		check(g)
	}
	w.parallel(w.gos, func(g int, _ *rand.Rand) {
		check(g)
		w.ops(10)
	})
	w.ops(49)
}

// wMapFn: the function returned by MeshUVMap.MapFn is called from many goroutines at once, as
// CoordColorFunc.ToTexture does; every answer must equal the answer of the same function called
// sequentially beforehand.
func wMapFn(w *wctx) {
	n := 12 + w.rng.Intn(12)
	uvm := model3d.MeshUVMap{}
	height := func(i, j int) float64 { return 0.3 * math.Sin(float64(i)*0.7+float64(j)*0.4) }
	for i := 0; i < n; i++ {
		for j := 0; j < n; j++ {
			p := func(a, b int) (model3d.Coord3D, model2d.Coord) {
				return model3d.XYZ(float64(a), float64(b), height(a, b)), model2d.XY(float64(a)/float64(n), float64(b)/float64(n))
			}
			a3, a2 := p(i, j)
			b3, b2 := p(i+1, j)
			c3, c2 := p(i+1, j+1)
			d3, d2 := p(i, j+1)
			uvm[&model3d.Triangle{a3, b3, c3}] = [3]model2d.Coord{a2, b2, c2}
			uvm[&model3d.Triangle{a3, c3, d3}] = [3]model2d.Coord{a2, c2, d2}
		}
	}
	fn := uvm.MapFn()
	nq := 3000
	qs := make([]model2d.Coord, nq)
	for i := range qs {
		qs[i] = model2d.XY(w.rng.Float64(), w.rng.Float64())
	}
	type ans struct {
		p model3d.Coord3D
		t *model3d.Triangle
	}
	want := make([]ans, nq)
	for i, q := range qs {
		p, t := fn(q)
		want[i] = ans{p, t}
	}
	w.parallel(w.gos, func(g int, rng *rand.Rand) {
		bad := 0
		for k := 0; k < nq; k++ {
			i := (k*7 + g*131) % nq
			p, t := fn(qs[i])
			if p != want[i].p || t != want[i].t {
				bad++
			}
		}
		if bad > 0 {
			w.behav("model3d.MeshUVMap.MapFn/concurrent-equals-sequential", fmt.Sprintf("%d of %d lookups made concurrently differ from the same lookups made sequentially", bad, nq))
		}
		w.ops(nq)
	})
}

// wWrappedColliders: collider wrappers (which hold no lazy state) answer concurrent queries exactly
// as they answered the same queries sequentially before.
func wWrappedColliders(w *wctx) {
	mesh := model3d.NewMeshIcosphere(model3d.XYZ(0.2, -0.1, 0.3), 1, 2)
	inner := model3d.MeshToCollider(mesh)
	tr := model3d.JoinedTransform{&model3d.Scale{Scale: 1.5}, model3d.Rotation(model3d.XYZ(1, 2, 3).Normalize(), 0.7), &model3d.Translate{Offset: model3d.XYZ(0.5, -1, 2)}}
	outline := model2d.NewMeshPolar(func(t float64) float64 { return 1 + 0.3*math.Sin(3*t) }, 40)
	colls := []model3d.Collider{
		model3d.TransformCollider(tr, inner),
		model3d.TransformCollider(&model3d.Translate{Offset: model3d.XYZ(1, 0, 0)}, model3d.TransformCollider(&model3d.Scale{Scale: 0.5}, inner)),
		model3d.ProfileCollider(model2d.MeshToCollider(outline), -0.5, 0.7),
		model3d.NewJoinedCollider([]model3d.Collider{&model3d.Sphere{Radius: 0.7}, &model3d.Cylinder{P1: model3d.XYZ(0, 0, -1), P2: model3d.XYZ(0, 0, 1), Radius: 0.4}, &model3d.Capsule{P1: model3d.XYZ(-1, 0, 0), P2: model3d.XYZ(1, 0, 0), Radius: 0.3}}),
	}
	type query struct {
		ray  *model3d.Ray
		c    model3d.Coord3D
		r    float64
		coll int
	}
	nq := 400
	qs := make([]query, nq)
	for i := range qs {
		o := model3d.XYZ(w.rng.NormFloat64(), w.rng.NormFloat64(), w.rng.NormFloat64()).Scale(3)
		tgt := model3d.XYZ(w.rng.NormFloat64(), w.rng.NormFloat64(), w.rng.NormFloat64()).Scale(0.5)
		qs[i] = query{&model3d.Ray{Origin: o, Direction: tgt.Sub(o)}, tgt, 0.1 + w.rng.Float64(), i % len(colls)}
	}
	answer := func(q query) string {
		cl := colls[q.coll]
		var scales []float64
		n := cl.RayCollisions(q.ray, func(rc model3d.RayCollision) { scales = append(scales, rc.Scale) })
		sort.Float64s(scales)
		first, ok := cl.FirstRayCollision(q.ray)
		return fmt.Sprintf("%d %x %x %v %v", n, scales, first.Scale, ok, cl.SphereCollision(q.c, q.r))
	}
	want := make([]string, nq)
	for i, q := range qs {
		want[i] = answer(q)
	}
	w.parallel(w.gos, func(g int, _ *rand.Rand) {
		for k := 0; k < nq; k++ {
			i := (k*13 + g*17) % nq
			if got := answer(qs[i]); got != want[i] {
				w.behav(fmt.Sprintf("model3d.Collider[%d]/concurrent-equals-sequential", qs[i].coll), fmt.Sprintf("concurrent answer %q, sequential answer %q", got, want[i]))
				return
			}
		}
		w.ops(nq)
	})
}

// wProfileFlatRays: one extruded outline shared by all goroutines; most rays lie in a plane of
// constant z and cross the outline several times. The callbacks yield the processor between hits
// (a caller doing real work per collision), and the workload runs on two processors so that the
// goroutines take turns on the same P while enumerations are under way.
func wProfileFlatRays(w *wctx) {
	old := runtime.GOMAXPROCS(2)
	defer runtime.GOMAXPROCS(old)
	outline := model2d.NewMeshPolar(func(t float64) float64 { return 1 + 0.45*math.Sin(5*t) }, 80)
	squares := model2d.NewMeshRect(model2d.XY(2, -0.5), model2d.XY(3, 0.5))
	squares.AddMesh(model2d.NewMeshRect(model2d.XY(4, -0.5), model2d.XY(5, 0.5)))
	colls := []model3d.Collider{
		model3d.ProfileCollider(model2d.MeshToCollider(outline), -0.5, 0.7),
		model3d.ProfileCollider(model2d.MeshToCollider(squares), 0, 1),
	}
	nq := 300
	type query struct {
		ray  *model3d.Ray
		coll int
	}
	qs := make([]query, nq)
	for i := range qs {
		ci := i % len(colls)
		z := -0.4 + w.rng.Float64()
		if ci == 1 {
			z = 0.1 + 0.8*w.rng.Float64()
		}
		th := w.rng.Float64() * 2 * math.Pi
		o := model3d.XYZ(8*math.Cos(th), 8*math.Sin(th), z)
		tgt := model3d.XYZ(0.3*w.rng.NormFloat64(), 0.3*w.rng.NormFloat64(), z)
		if ci == 1 {
			o = model3d.XYZ(-1-w.rng.Float64(), 0.4*(2*w.rng.Float64()-1), z)
			tgt = model3d.XYZ(6, 0.4*(2*w.rng.Float64()-1), z)
		}
		if i%5 == 4 {
			tgt.Z += w.rng.NormFloat64() // some rays are not flat
		}
		qs[i] = query{&model3d.Ray{Origin: o, Direction: tgt.Sub(o)}, ci}
	}
	answer := func(q query, yield bool) string {
		var scales []float64
		n := colls[q.coll].RayCollisions(q.ray, func(rc model3d.RayCollision) {
			scales = append(scales, rc.Scale)
			if yield {
				for k := 0; k < 3; k++ {
					runtime.Gosched()
				}
			}
		})
		return fmt.Sprintf("%d %x", n, scales)
	}
	want := make([]string, nq)
	multi := 0
	for i, q := range qs {
		want[i] = answer(q, false)
		if strings.Count(want[i], "0x") >= 3 {
			multi++
		}
	}
	if multi < nq/4 {
		w.behav("harness/profile-flat-rays", fmt.Sprintf("only %d of %d rays cross the outline three or more times", multi, nq))
	}
	w.parallel(w.gos, func(g int, _ *rand.Rand) {
		for k := 0; k < nq; k++ {
			i := (k*13 + g*17) % nq
			if got := answer(qs[i], true); got != want[i] {
				w.behav("model3d.ProfileCollider.RayCollisions/concurrent-equals-sequential", fmt.Sprintf("collisions reported to the callback %q, sequential answer %q (ray %v)", got, want[i], *qs[i].ray))
				return
			}
		}
		w.ops(nq)
	})
}
