// C13 — Concurrent read-only use is race-free and matches sequential use.
// Sanitizer part: Go race detector (built with -race, GORACE halt_on_error=1),
// one child process per workload repetition so that one report does not end
// the others. Behavioural part: every concurrent response is compared with the
// response of a sequential run on an identical fresh object; AddSpheresSDF is
// checked against the order-independent max-fold of the operations recorded at
// the verif hook. DESIGN.md C13.
package main

import (
	"bufio"
	"bytes"
	"fmt"
	"os"
	"os/exec"
	"sort"
	"strings"
	"time"

	"verif/vlib"
)

type workload struct {
	name string
	// entry is the library entry point (for keys)
	entry string
	run   func(w *wctx)
}

func main() {
	if len(os.Args) > 1 && os.Args[1] == "-c13work" {
		childMain(os.Args[2:])
		return
	}
	r := vlib.Start("C13", "exploration")
	r.Rule("each workload repetition runs in its own child process built with the race detector (halt_on_error=1): N in {2,4,16} goroutines released from a barrier onto one FRESH shared object (mesh with unbuilt lazy index, collider, SDF, solid, hierarchy, cached function, renderer), or one internally parallel routine at several worker counts; responses are compared with a sequential run on an identical fresh object. Non-trivial = repetition that completed with >= 2 goroutines and >= 50 operations; distinct by workload+goroutines+seed")
	r.Assume("race reports are deduplicated per workload; the key names the workload and the first library frame of the report")
	r.Assume("Blur-like operations whose floating point summation order follows map iteration are executed for the race detector but not compared bit-exactly")

	ws := workloads()
	reps := r.N(12, 120)
	type job struct {
		w    workload
		rep  int
		gos  int
		seed int64
	}
	var jobs []job
	for _, w := range ws {
		n := reps
		if heavyWorkloads[w.name] {
			n = reps / 4
		}
		for rep := 0; rep < n; rep++ {
			jobs = append(jobs, job{w, rep, []int{2, 4, 16}[rep%3], 0})
		}
	}
	r.Section("workloads", len(jobs), vlib.SectionOpts{Watchdog: 10 * time.Minute}, func(c *vlib.Case) {
		j := jobs[c.Index]
		cmd := exec.Command(os.Args[0], "-c13work", j.w.name, fmt.Sprint(j.gos), fmt.Sprint(c.SubSeed))
		cmd.Env = append(os.Environ(), "GORACE=halt_on_error=1 exitcode=66")
		var stdout, stderr bytes.Buffer
		cmd.Stdout = &stdout
		cmd.Stderr = &stderr
		err := cmd.Run()
		code := 0
		if err != nil {
			if ee, ok := err.(*exec.ExitError); ok {
				code = ee.ExitCode()
			} else {
				code = -1
			}
		}
		wit := map[string]interface{}{"workload": j.w.name, "goroutines": j.gos, "seed": c.SubSeed}
		c.Count("runs."+j.w.name, 1)
		ops := int64(0)
		sc := bufio.NewScanner(&stdout)
		sc.Buffer(make([]byte, 1<<20), 1<<20)
		for sc.Scan() {
			line := sc.Text()
			switch {
			case strings.HasPrefix(line, "COUNT "):
				var name string
				var n int64
				fmt.Sscanf(line[6:], "%s %d", &name, &n)
				c.Count(name, n)
				if name == "ops."+j.w.name {
					ops += n
				}
			case strings.HasPrefix(line, "BEHAV "):
				parts := strings.SplitN(line[6:], "|", 2)
				what := ""
				if len(parts) > 1 {
					what = parts[1]
				}
				c.Violation(parts[0], what, wit)
			case strings.HasPrefix(line, "UNDECIDED "):
				c.Undecided(line[10:])
			}
		}
		switch {
		case code == 66 || strings.Contains(stderr.String(), "WARNING: DATA RACE"):
			site := raceSite(stderr.String())
			wit["race_report"] = tail(stderr.String(), 6000)
			c.Violation("race/"+j.w.name+"/"+site, "the race detector reported a data race in "+j.w.entry+" (first library frame: "+site+")", wit)
			c.Count("race_reports", 1)
		case code != 0:
			wit["stderr"] = tail(stderr.String(), 6000)
			c.Violation("crash/"+j.w.name+"/"+raceSite(stderr.String()), fmt.Sprintf("workload process exited with %d", code), wit)
		default:
			if j.gos >= 2 && ops >= 50 {
				c.Nontrivial(fmt.Sprint(j.w.name, j.gos, c.SubSeed))
			}
		}
		if c.Index%len(ws) == 0 && c.Index < 3*len(ws) {
			c.Sample("workload-run", 3, wit)
		}
	})
	for _, w := range ws {
		r.Require("runs."+w.name, 3)
		r.Require("ops."+w.name, 20)
	}
	r.Finish()
}

func tail(s string, n int) string {
	if len(s) > n {
		return s[len(s)-n:]
	}
	return s
}

// raceSite names the first model3d function in a report.
func raceSite(stderr string) string {
	for _, line := range strings.Split(stderr, "\n") {
		line = strings.TrimSpace(line)
		if strings.HasPrefix(line, "github.com/unixpickle/model3d/") {
			line = strings.TrimPrefix(line, "github.com/unixpickle/model3d/")
			if i := strings.LastIndex(line, "("); i > 0 {
				line = line[:i]
			}
			line = strings.Replace(line, "[...]", "", -1)
			// strip closure suffixes so keys are stable
			for strings.HasSuffix(line, ".func1") || strings.HasSuffix(line, ".1") || strings.HasSuffix(line, ".func2") {
				line = line[:strings.LastIndex(line, ".")]
			}
			return line
		}
	}
	return "unknown"
}

func sortedStrings(m map[string]bool) []string {
	var res []string
	for k := range m {
		res = append(res, k)
	}
	sort.Strings(res)
	return res
}
