#!/usr/bin/env python3
# Derives check2.go (model2d) from check3.go (model3d). Run in monitors/c06
# after editing check3.go:  python3 gen_check2.py && gofmt -w check2.go
import re
s = open('check3.go').read()
subs = [
    (r'\bC3\b', 'C2'), ('subject3', 'subject2'), ('check3', 'check2'), ('checkNormal3', 'checkNormal2'),
    ('boundaryBound3', 'boundaryBound2'), ('lipschitz3', 'lipschitz2'), ('query3', 'query2'),
    ('runSubject3', 'runSubject2'), ('github.com/unixpickle/model3d/model3d', 'github.com/unixpickle/model3d/model2d'),
    ('model3d', 'model2d'), ('fin3', 'fin2'), (r'\bhx\(', 'hx2('), (r'\bdec\(', 'dec2('),
    (r'g\.(MaxAbs|Dist|Len|Add|Sub|Scale|RandUnit|Lerp|StableSmooth|GradRef)3', r'g.\g<1>2'),
    ('RefShape3', 'RefShape2'), ('RefEval3', 'RefEval2'),
]
for a, b in subs:
    s = re.sub(a, b, s)
s = s.replace('github.com/unixpickle/model2d/model2d', 'github.com/unixpickle/model3d/model2d')
s = s.replace('type C2 = model2d.Coord3D', 'type C2 = model2d.Coord')
s = re.sub(r'const \(\n\trelTol.*?\n\)\n', '', s, flags=re.S)
s = s.replace('func fin(x float64) bool { return !math.IsNaN(x) && !math.IsInf(x, 0) }\n', '')
s = s.replace('return fin(c.X) && fin(c.Y) && fin(c.Z)', 'return fin(c.X) && fin(c.Y)')
s = s.replace('fmt.Sprintf("(%x,%x,%x)", c.X, c.Y, c.Z)', 'fmt.Sprintf("(%x,%x)", c.X, c.Y)')
s = s.replace('fmt.Sprintf("(%.17g,%.17g,%.17g)", c.X, c.Y, c.Z)', 'fmt.Sprintf("(%.17g,%.17g)", c.X, c.Y)')
s = re.sub(r'func inout\(in bool\) string \{.*?\n\}\n', '', s, flags=re.S)
s = s.replace('g.V3(mn.X+d.X*rng.Float64(), mn.Y+d.Y*rng.Float64(), mn.Z+d.Z*rng.Float64())', 'g.V2(mn.X+d.X*rng.Float64(), mn.Y+d.Y*rng.Float64())')
s = s.replace('g.V3(lo.X+d.X*rng.Float64(), lo.Y+d.Y*rng.Float64(), lo.Z+d.Z*rng.Float64())', 'g.V2(lo.X+d.X*rng.Float64(), lo.Y+d.Y*rng.Float64())')
s = s.replace('package main\n', '// Code generated from check3.go by gen_check2.py; DO NOT EDIT.\n\npackage main\n', 1)
assert 'V3' not in s and 'Coord3D' not in s
open('check2.go', 'w').write(s)
