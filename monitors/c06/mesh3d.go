package main

import (
	"fmt"
	"math"
	"math/rand"

	"github.com/unixpickle/model3d/model3d"
	"verif/vlib"
	g "verif/vlib/c06ref"
)

// the fixed direction ColliderContains casts along (sdf.go: meshSDF sign);
// used only to compute a soundness margin, never to decide membership.
var libRayDir3 = C3{X: 0.5224892708603626, Y: 0.10494477243214506, Z: 0.43558938446126527}

// ---------------------------------------------------------------------------
// own mesh builders (outward oriented: counter-clockwise seen from outside)

func uvSphere(nLat, nLon int) []g.Tri {
	pt := func(i, j int) C3 {
		if i == 0 {
			return g.V3(0, 0, 1)
		}
		if i == nLat {
			return g.V3(0, 0, -1)
		}
		th := math.Pi * float64(i) / float64(nLat)
		ph := 2 * math.Pi * float64(j%nLon) / float64(nLon)
		return g.V3(math.Sin(th)*math.Cos(ph), math.Sin(th)*math.Sin(ph), math.Cos(th))
	}
	var ts []g.Tri
	for i := 0; i < nLat; i++ {
		for j := 0; j < nLon; j++ {
			a, b, c, d := pt(i, j), pt(i+1, j), pt(i+1, j+1), pt(i, j+1)
			if i > 0 {
				ts = append(ts, g.Tri{a, b, d})
			}
			if i < nLat-1 {
				ts = append(ts, g.Tri{b, c, d})
			}
		}
	}
	return ts
}

func torusGrid(n, m int, ro, ri float64) []g.Tri {
	pt := func(i, j int) C3 {
		a := 2 * math.Pi * float64(i%n) / float64(n)
		b := 2 * math.Pi * float64(j%m) / float64(m)
		r := ro + ri*math.Cos(b)
		return g.V3(r*math.Cos(a), r*math.Sin(a), ri*math.Sin(b))
	}
	var ts []g.Tri
	for i := 0; i < n; i++ {
		for j := 0; j < m; j++ {
			a, b, c, d := pt(i, j), pt(i+1, j), pt(i+1, j+1), pt(i, j+1)
			ts = append(ts, g.Tri{a, b, c}, g.Tri{a, c, d})
		}
	}
	return ts
}

func boxGrid(k int, ext C3) []g.Tri {
	var ts []g.Tri
	e := [3]float64{ext.X, ext.Y, ext.Z}
	for axis := 0; axis < 3; axis++ {
		u, v := (axis+1)%3, (axis+2)%3
		for side := 0; side < 2; side++ {
			pt := func(i, j int) C3 {
				var a [3]float64
				a[axis] = float64(side) * e[axis]
				a[u] = e[u] * float64(i) / float64(k)
				a[v] = e[v] * float64(j) / float64(k)
				return g.V3(a[0], a[1], a[2])
			}
			for i := 0; i < k; i++ {
				for j := 0; j < k; j++ {
					a, b, c, d := pt(i, j), pt(i+1, j), pt(i+1, j+1), pt(i, j+1)
					if side == 1 {
						ts = append(ts, g.Tri{a, b, c}, g.Tri{a, c, d})
					} else {
						ts = append(ts, g.Tri{a, c, b}, g.Tri{a, d, c})
					}
				}
			}
		}
	}
	return ts
}

func flipTris(ts []g.Tri) []g.Tri {
	res := make([]g.Tri, len(ts))
	for i, t := range ts {
		res[i] = g.Tri{t[1], t[0], t[2]}
	}
	return res
}

func mapTris(ts []g.Tri, f func(C3) C3) []g.Tri {
	res := make([]g.Tri, len(ts))
	for i, t := range ts {
		res[i] = g.Tri{f(t[0]), f(t[1]), f(t[2])}
	}
	return res
}

// ownSolid3 is a union of reference shapes offered to the library's meshers
// as input; it shares no code with the primitives under test.
type ownSolid3 struct{ refs []g.RefShape3 }

func (o ownSolid3) Min() C3 {
	mn, _ := o.refs[0].Bounds()
	for _, r := range o.refs[1:] {
		lo, _ := r.Bounds()
		mn = g.V3(math.Min(mn.X, lo.X), math.Min(mn.Y, lo.Y), math.Min(mn.Z, lo.Z))
	}
	return g.Sub3(mn, g.V3(1e-6, 1e-6, 1e-6))
}
func (o ownSolid3) Max() C3 {
	_, mx := o.refs[0].Bounds()
	for _, r := range o.refs[1:] {
		_, hi := r.Bounds()
		mx = g.V3(math.Max(mx.X, hi.X), math.Max(mx.Y, hi.Y), math.Max(mx.Z, hi.Z))
	}
	return g.Add3(mx, g.V3(1e-6, 1e-6, 1e-6))
}
func (o ownSolid3) Contains(p C3) bool {
	for _, r := range o.refs {
		if r.Eval(p).SD >= 0 {
			return true
		}
	}
	return false
}

type meshCase3 struct {
	kind   string
	tris   []g.Tri
	closed bool // closed, consistently oriented manifold with outward normals (by the independent topology oracle)
}

func genMesh3(rng *rand.Rand, thorough bool) meshCase3 {
	var mc meshCase3
	big := 1
	if thorough {
		big = 2
	}
	noRot := false
	switch rng.Intn(10) {
	case 9:
		// a mesh that is very sparse in a (nearly) cubic bounding box: two small closed pieces at
		// opposite corners; queried also beside the box edges that touch neither piece, where the
		// nearest face is more than one box side away
		side := g.V3(1, 1+0.03*(2*rng.Float64()-1), 1+0.03*(2*rng.Float64()-1))
		rad := 0.005 + 0.04*rng.Float64()
		a := mapTris(uvSphere(3+rng.Intn(3), 4+rng.Intn(3)), func(p C3) C3 { return g.Add3(g.Scale3(p, rad), g.V3(rad, rad, rad)) })
		far := g.V3(side.X-rad, side.Y-rad, side.Z-rad)
		b := mapTris(uvSphere(3+rng.Intn(3), 4+rng.Intn(3)), func(p C3) C3 { return g.Add3(g.Scale3(p, rad), far) })
		mc.kind, mc.tris = "sparse-corners", append(a, b...)
		noRot = true
	case 0:
		n := 3 + rng.Intn(10*big)
		mc.kind, mc.tris = "uv-sphere", uvSphere(n, 3+rng.Intn(14*big))
	case 1:
		k := 1 + rng.Intn(6*big)
		mc.kind, mc.tris = "box-grid", boxGrid(k, g.V3(aspect(rng), aspect(rng), aspect(rng)))
	case 2:
		n, m := 3+rng.Intn(16*big), 3+rng.Intn(10*big)
		mc.kind, mc.tris = "torus-grid", torusGrid(n, m, 1, 0.1+0.8*rng.Float64())
	case 3: // nested shells: even-odd sign
		out := uvSphere(4+rng.Intn(8), 5+rng.Intn(8))
		k := 0.15 + 0.4*rng.Float64() // below the inradius (>= 0.7) of the coarsest outer shell
		in := flipTris(mapTris(uvSphere(3+rng.Intn(6), 4+rng.Intn(6)), func(p C3) C3 { return g.Scale3(p, k) }))
		mc.kind, mc.tris = "nested-shells", append(out, in...)
		if rng.Intn(2) == 0 { // a third shell inside the cavity
			// (the coarsest cavity polyhedron, 3 stacks x 4 slices, has an inradius of 0.5 of its
			// circumradius: the island must stay well inside it, or the two shells intersect)
			k2 := k * (0.15 + 0.25*rng.Float64())
			mc.tris = append(mc.tris, mapTris(uvSphere(3+rng.Intn(4), 4+rng.Intn(4)), func(p C3) C3 { return g.Scale3(p, k2) })...)
		}
	case 4: // library icosphere (input only; orientation certified below)
		n := 1 + rng.Intn(5*big)
		mc.kind, mc.tris = "icosphere", vlib.Tris(model3d.NewMeshIcosphere(C3{}, 1, n))
	case 5: // marching cubes mesh of a smooth solid (input only; the solid is the monitor's own, not a library primitive)
		var solid model3d.Solid
		if rng.Intn(2) == 0 {
			solid = ownSolid3{refs: []g.RefShape3{
				g.RefSphere{C: g.V3(0.3*rng.Float64(), 0, 0), R: 0.6 + 0.3*rng.Float64()},
				g.RefSphere{C: g.V3(0.8, 0.5*rng.Float64(), 0.3*rng.Float64()), R: 0.4 + 0.3*rng.Float64()}}}
		} else {
			solid = ownSolid3{refs: []g.RefShape3{g.RefTorus{Axis: g.V3(0, 0, 1), Ro: 1, Ri: 0.25 + 0.3*rng.Float64()}}}
		}
		delta := 0.11 + 0.2*rng.Float64()
		if thorough {
			delta = 0.06 + 0.2*rng.Float64()
		}
		mc.kind, mc.tris = "marching-cubes", vlib.Tris(model3d.MarchingCubesSearch(solid, delta, 4))
	case 6: // two disjoint closed components
		a := uvSphere(3+rng.Intn(6), 4+rng.Intn(6))
		off := g.V3(1.5+rng.Float64(), 0, 0)
		b := mapTris(boxGrid(1+rng.Intn(3), g.V3(1, 1, 1)), func(p C3) C3 { return g.Add3(p, off) })
		mc.kind, mc.tris = "two-components", append(a, b...)
	case 7: // triangle soup (open): distance clauses only
		n := 1 + rng.Intn(12)
		for i := 0; i < n; i++ {
			for {
				c0 := g.V3(rng.NormFloat64(), rng.NormFloat64(), rng.NormFloat64())
				t := g.Tri{c0, g.Add3(c0, g.Scale3(g.RandUnit3(rng), 0.2+rng.Float64())), g.Add3(c0, g.Scale3(g.RandUnit3(rng), 0.2+rng.Float64()))}
				if g.TriQuality(t) > 0.05 {
					mc.tris = append(mc.tris, t)
					break
				}
			}
		}
		mc.kind = "soup"
	default: // exact integer box, 12 faces
		mc.kind, mc.tris = "unit-box", boxGrid(1, g.V3(float64(1+rng.Intn(3)), float64(1+rng.Intn(3)), float64(1+rng.Intn(3))))
	}
	// random similarity (own code); identical inputs map to identical outputs
	if mc.kind != "unit-box" || rng.Intn(2) == 0 {
		rot := g.Rot3{Axis: g.RandUnit3(rng), Angle: rng.Float64() * 6}
		if rng.Intn(4) == 0 || noRot {
			rot.Angle = 0
		}
		sc := math.Pow(10, -2+4*rng.Float64())
		sh := g.Scale3(g.V3(rng.Float64()*4-2, rng.Float64()*4-2, rng.Float64()*4-2), sc)
		mc.tris = mapTris(mc.tris, func(p C3) C3 { return g.Add3(g.Scale3(rot.Apply(p), sc), sh) })
	}
	if mc.kind != "soup" {
		topo := vlib.AnalyzeTris(mc.tris)
		mc.closed = topo.ClosedOrientedManifold()
	}
	return mc
}

func boundsTris(ts []g.Tri) (C3, C3) {
	mn, mx := ts[0][0], ts[0][0]
	for _, t := range ts {
		for _, p := range t {
			mn = g.V3(math.Min(mn.X, p.X), math.Min(mn.Y, p.Y), math.Min(mn.Z, p.Z))
			mx = g.V3(math.Max(mx.X, p.X), math.Max(mx.Y, p.Y), math.Max(mx.Z, p.Z))
		}
	}
	return mn, mx
}

func meshQuery3(rng *rand.Rand, ts []g.Tri, lo, hi C3, size float64) (C3, string) {
	t := ts[rng.Intn(len(ts))]
	onFace := func() C3 {
		a, b := rng.Float64(), rng.Float64()
		if a+b > 1 {
			a, b = 1-a, 1-b
		}
		return g.Add3(t[0], g.Add3(g.Scale3(g.Sub3(t[1], t[0]), a), g.Scale3(g.Sub3(t[2], t[0]), b)))
	}
	switch rng.Intn(10) {
	case 0, 1:
		d := g.Sub3(hi, lo)
		f := 0.5
		return g.V3(lo.X-f*d.X+(1+2*f)*d.X*rng.Float64(), lo.Y-f*d.Y+(1+2*f)*d.Y*rng.Float64(), lo.Z-f*d.Z+(1+2*f)*d.Z*rng.Float64()), "box"
	case 2:
		d := g.Sub3(hi, lo)
		return g.V3(lo.X+d.X*rng.Float64(), lo.Y+d.Y*rng.Float64(), lo.Z+d.Z*rng.Float64()), "inner"
	case 3, 4: // off a face along its normal, both sides
		n := g.TriNormal(t)
		return g.Add3(onFace(), g.Scale3(n, size*math.Pow(10, -9+8.5*rng.Float64())*float64(1-2*rng.Intn(2)))), "off-face"
	case 5: // exactly a vertex / an edge midpoint / a face point
		switch rng.Intn(3) {
		case 0:
			return t[rng.Intn(3)], "vertex"
		case 1:
			return g.Lerp3(t[0], t[1], 0.5), "edge-midpoint"
		default:
			return onFace(), "on-face"
		}
	case 6: // outside a vertex or an edge (nearest feature is not a face interior)
		v := t[rng.Intn(3)]
		return g.Add3(v, g.Scale3(g.RandUnit3(rng), size*math.Pow(10, -6+5.5*rng.Float64()))), "near-vertex"
	case 7: // centre of the bounding box (many nearly equidistant faces)
		return g.Add3(g.Lerp3(lo, hi, 0.5), g.Scale3(g.RandUnit3(rng), size*math.Pow(10, -12+10*rng.Float64()))), "centre"
	default: // far away: the pruning bound matters
		return g.Add3(g.Lerp3(lo, hi, 0.5), g.Scale3(g.RandUnit3(rng), size*math.Pow(10, 0.2+2.5*rng.Float64()))), "far"
	}
}

func meshes3(r *vlib.Run) {
	thorough := !r.Quick()
	r.Section("mesh3d", r.N(2400, 30000), vlib.SectionOpts{}, func(c *vlib.Case) {
		rng := c.Rng
		mc := genMesh3(rng, thorough)
		ts := mc.tris
		if len(ts) == 0 {
			c.Undecided("mesh:generator-produced-no-faces")
			return
		}
		// The faces handed to the library may have some or all orientations reversed: distance,
		// nearest point and the even-odd sign do not depend on the winding of the faces (the sign is
		// documented to come from ray parity), so the reference keeps using the oriented original ts.
		lts := ts
		reoriented := ""
		if mc.kind != "soup" && rng.Intn(4) == 0 {
			lts = append([]g.Tri{}, ts...)
			switch rng.Intn(3) {
			case 0:
				reoriented = "all-faces-reversed"
				for i, t := range lts {
					lts[i] = g.Tri{t[0], t[2], t[1]}
				}
			case 1:
				reoriented = "one-face-reversed"
				i := rng.Intn(len(lts))
				lts[i] = g.Tri{lts[i][0], lts[i][2], lts[i][1]}
			default:
				reoriented = "random-faces-reversed"
				for i, t := range lts {
					if rng.Intn(2) == 0 {
						lts[i] = g.Tri{t[0], t[2], t[1]}
					}
				}
			}
			c.Count("mesh3d.reoriented."+reoriented, 1)
		}
		// library object
		faces := make([]*model3d.Triangle, len(ts))
		index := map[*model3d.Triangle]int{}
		for i, t := range lts {
			faces[i] = &model3d.Triangle{t[0], t[1], t[2]}
			index[faces[i]] = i
		}
		var sdf model3d.FaceSDF
		ctor := "MeshToSDF"
		if rng.Intn(4) == 0 {
			// ungrouped order is documented as merely inefficient
			rng.Shuffle(len(faces), func(i, j int) { faces[i], faces[j] = faces[j], faces[i] })
			// the slice handed over belongs to the caller, who goes on using it (re-sorts it, reuses it as
			// a scratch buffer): the finished field must keep describing the faces it was built from
			handed := append([]*model3d.Triangle{}, faces...)
			sdf = model3d.GroupedTrianglesToSDF(handed)
			rng.Shuffle(len(handed), func(i, j int) { handed[i], handed[j] = handed[j], handed[i] })
			for i := range handed {
				if i%2 == 0 {
					handed[i] = handed[0]
				}
			}
			ctor = "GroupedTrianglesToSDF(ungrouped)"
		} else {
			sdf = model3d.MeshToSDF(model3d.NewMeshTriangles(faces))
		}
		lo, hi := boundsTris(ts)
		size := g.Len3(g.Sub3(hi, lo))
		M := size + g.MaxAbs3(lo) + g.MaxAbs3(hi)
		minQ := math.Inf(1)
		for _, t := range ts {
			minQ = math.Min(minQ, g.TriQuality(t))
		}
		c.Count("mesh3d.meshes", 1)
		c.Count("mesh3d.kind."+mc.kind, 1)
		c.Count("mesh3d.ctor."+ctor, 1)
		c.Count("mesh3d.faces_total", int64(len(ts)))
		c.Max("mesh3d.max_faces", float64(len(ts)))
		if mc.closed {
			c.Count("mesh3d.closed_oriented", 1)
		}
		outward := mc.closed && vlib.SignedVolume(ts) > 0 && reoriented == ""
		wit := func(p C3, more map[string]interface{}) map[string]interface{} {
			w := map[string]interface{}{"mesh": mc.kind, "faces": len(ts), "constructor": ctor, "faces_reoriented": reoriented, "query_hex": hx(p), "query": dec(p), "bounds": dec(lo) + " " + dec(hi),
				"replay_note": "the mesh is regenerated from (seed, section, index)"}
			if len(ts) <= 12 {
				var fs []string
				for _, t := range lts {
					fs = append(fs, hx(t[0])+hx(t[1])+hx(t[2]))
				}
				w["face_list_hex"] = fs
			}
			for k, v := range more {
				w[k] = v
			}
			return w
		}
		api := "model3d.MeshToSDF"
		nq := 24
		var prevP C3
		var prevSD float64
		havePrev := false
		for qi := 0; qi < nq; qi++ {
			p, kind := meshQuery3(rng, ts, lo, hi, size)
			if mc.kind == "sparse-corners" && rng.Intn(2) == 0 {
				// beside the midpoint of one of the twelve box edges
				ax := rng.Intn(3)
				e := [3]float64{float64(rng.Intn(2)), float64(rng.Intn(2)), float64(rng.Intn(2))}
				e[ax] = 0.5
				d := g.Sub3(hi, lo)
				j := func() float64 { return 0.03 * (2*rng.Float64() - 1) }
				p, kind = g.V3(lo.X+d.X*(e[0]+j()), lo.Y+d.Y*(e[1]+j()), lo.Z+d.Z*(e[2]+j())), "box-edge-midpoint"
			}
			c.Count("mesh3d.queries."+kind, 1)
			abs := absTolK * (M + g.MaxAbs3(p))
			nb := g.BruteNearest3(p, ts, -1)
			// sliver faces: the library solves a 3x3 system per face; grant its conditioning
			tol := relTol*nb.Dist + abs
			sd := sdf.SDF(p)
			c.Count("mesh3d.SDF.calls", 1)
			if !fin(sd) {
				c.Violation(api+".SDF/finite", fmt.Sprint("SDF returned ", sd), wit(p, nil))
				continue
			}
			if diff := math.Abs(math.Abs(sd) - nb.Dist); diff > tol {
				c.Violation(api+".SDF/distance-vs-exhaustive-minimum", fmt.Sprintf("|SDF|=%.17g but the minimum over all %d faces is %.17g (face %d, diff %.3g > tol %.3g)", math.Abs(sd), len(ts), nb.Dist, nb.Face, diff, tol),
					wit(p, map[string]interface{}{"sdf": g.Hex(sd), "brute_force": g.Hex(nb.Dist), "nearest_face": nb.Face}))
			} else {
				c.Count("mesh3d.SDF.distance_ok", 1)
			}
			// sign
			signKnown := false
			inside := false
			if mc.closed {
				switch {
				case nb.Dist <= 2*tol+1e-7*size:
					c.Undecided("mesh-sign:query-near-surface")
				default:
					w := g.Winding3(p, ts)
					wr := math.Round(w)
					_, clear := g.RayClearance(p, libRayDir3, ts)
					switch {
					case math.Abs(w-wr) > 1e-4:
						c.Undecided("mesh-sign:winding-number-not-integral")
					case clear < 1e-7:
						c.Undecided("mesh-sign:library-ray-grazes-an-edge")
						c.Count("mesh3d.sign.ray_grazing_cases", 1)
					default:
						signKnown = true
						inside = int64(math.Abs(wr))%2 == 1
						if (sd > 0) != inside {
							c.Violation(api+".SDF/sign", fmt.Sprintf("SDF=%.17g but the winding number of the closed oriented mesh around the query is %.6f (%s)", sd, w, inout(inside)),
								wit(p, map[string]interface{}{"winding": w, "ray_clearance": clear}))
						} else {
							c.Count("mesh3d.SDF.sign_ok", 1)
							if inside {
								c.Count("mesh3d.SDF.sign_ok_inside", 1)
							}
							if reoriented != "" {
								c.Count("mesh3d.SDF.sign_ok_on_reoriented_mesh", 1)
							}
						}
					}
				}
			}
			// PointSDF
			q, sd2 := sdf.PointSDF(p)
			c.Count("mesh3d.PointSDF.calls", 1)
			if !fin3(q) || math.Abs(sd2-sd) > tol {
				c.Violation(api+".PointSDF/same-distance-as-SDF", fmt.Sprintf("PointSDF returned %v, %.17g; SDF %.17g", q, sd2, sd), wit(p, nil))
			} else {
				onB := g.BruteNearest3(q, ts, 0).Dist
				if onB > tol {
					c.Violation(api+".PointSDF/point-on-boundary", fmt.Sprintf("returned point is %.3g off the mesh surface (tol %.3g)", onB, tol), wit(p, map[string]interface{}{"point_hex": hx(q)}))
				} else if d := g.Dist3(p, q); math.Abs(d-nb.Dist) > tol {
					c.Violation(api+".PointSDF/point-at-distance", fmt.Sprintf("returned point is %.17g from the query; the minimum over all faces is %.17g", d, nb.Dist), wit(p, map[string]interface{}{"point_hex": hx(q)}))
				} else {
					c.Count("mesh3d.PointSDF.ok", 1)
				}
			}
			// FaceSDF
			f, fq, sd4 := sdf.FaceSDF(p)
			c.Count("mesh3d.FaceSDF.calls", 1)
			fi, known := index[f]
			switch {
			case f == nil || !known:
				c.Violation(api+".FaceSDF/face-of-the-mesh", "FaceSDF returned a face that is not one of the mesh's faces", wit(p, nil))
			case math.Abs(sd4-sd) > tol:
				c.Violation(api+".FaceSDF/same-distance-as-SDF", fmt.Sprintf("FaceSDF distance %.17g, SDF %.17g", sd4, sd), wit(p, nil))
			default:
				myq, _, _ := g.ClosestOnTri(p, ts[fi])
				dFace := g.Dist3(p, myq)
				ptol := 1e-6*size + 1e-7*g.MaxAbs3(p)
				if dFace > nb.Dist+tol {
					c.Violation(api+".FaceSDF/face-attains-minimum", fmt.Sprintf("returned face %d is at distance %.17g, but face %d is at %.17g", fi, dFace, nb.Face, nb.Dist), wit(p, map[string]interface{}{"returned_face": fi, "nearest_face": nb.Face}))
				} else if d := g.Dist3(fq, myq); d > ptol {
					c.Violation(api+".FaceSDF/point-is-nearest-on-face", fmt.Sprintf("returned point is %.3g away from the nearest point of the returned face", d), wit(p, map[string]interface{}{"returned_face": fi, "point_hex": hx(fq)}))
				} else {
					c.Count("mesh3d.FaceSDF.ok", 1)
				}
			}
			// NormalSDF
			n, sd5 := sdf.NormalSDF(p)
			c.Count("mesh3d.NormalSDF.calls", 1)
			if !fin3(n) || math.Abs(sd5-sd) > tol {
				c.Violation(api+".NormalSDF/same-distance-as-SDF", fmt.Sprintf("NormalSDF returned %v, %.17g; SDF %.17g", n, sd5, sd), wit(p, nil))
			} else if l := g.Len3(n); math.Abs(l-1) > unitTol {
				c.Violation(api+".NormalSDF/unit", fmt.Sprintf("normal %v has length %.17g", n, l), wit(p, nil))
			} else {
				c.Count("mesh3d.NormalSDF.unit_ok", 1)
				minB := math.Min(nb.Bary[0], math.Min(nb.Bary[1], nb.Bary[2]))
				smooth := nb.Region == g.TriInterior && minB >= 1e-3 && nb.Second >= nb.Dist+1e-6*(size+nb.Dist) && g.TriQuality(ts[nb.Face]) >= 1e-3
				if !smooth {
					c.Undecided("mesh-normal:nearest-point-not-stably-inside-one-face")
				} else {
					want := g.TriNormal(lts[nb.Face])
					if d := g.Len3(g.Sub3(n, want)); d > normalTol {
						c.Violation(api+".NormalSDF/normal-of-nearest-face", fmt.Sprintf("normal %v differs from the right-hand normal %v of the unique nearest face %d by %.3g", n, want, nb.Face, d), wit(p, map[string]interface{}{"nearest_face": nb.Face}))
					} else {
						c.Count("mesh3d.NormalSDF.face_normal_ok", 1)
					}
					// outward: the field decreases along the normal
					if outward && signKnown && nb.Dist > 1e-6*size {
						dir := g.Scale3(g.Sub3(p, nb.Near), 1/nb.Dist) // = -grad|d| outside, +grad inside
						if inside {
							dir = g.Scale3(dir, -1)
						}
						if d := g.Len3(g.Sub3(n, dir)); d > 1e-5+1e-9*M/nb.Dist {
							c.Violation(api+".NormalSDF/outward-normal", fmt.Sprintf("normal %v is not the direction %v in which the field decreases fastest (query %s, nearest face %d)", n, dir, inout(inside), nb.Face), wit(p, map[string]interface{}{"nearest_face": nb.Face}))
						} else {
							c.Count("mesh3d.NormalSDF.outward_ok", 1)
						}
					}
				}
			}
			// 1-Lipschitz (signed for closed meshes, magnitude for soups)
			val := sd
			if !mc.closed {
				val = math.Abs(sd)
			}
			if havePrev {
				d := g.Dist3(p, prevP)
				if math.Abs(val-prevSD) > d*(1+1e-9)+2*tol+relTol*(math.Abs(val)+math.Abs(prevSD)) {
					// a sign disagreement shows up here too; only report when both signs were certified or the mesh is open
					c.Violation(api+".SDF/1-Lipschitz", fmt.Sprintf("SDF changes by %.17g between two points %.17g apart", math.Abs(val-prevSD), d), wit(p, map[string]interface{}{"second_query_hex": hx(prevP)}))
				} else {
					c.Count("mesh3d.SDF.lipschitz_pairs_ok", 1)
				}
			}
			if mc.closed && !signKnown {
				havePrev = false
			} else {
				prevP, prevSD, havePrev = p, val, true
			}
		}
		// collider-derived field of the same mesh (bisection on Triangle /
		// JoinedCollider sphere collisions, sign from ray parity)
		if len(ts) <= 3000 {
			const iters = 24
			var coll model3d.Collider = model3d.MeshToCollider(model3d.NewMeshTriangles(faces))
			capi := "model3d.ColliderToSDF[MeshToCollider]"
			padded := rng.Intn(3) == 0
			if padded {
				// a caller's own collider type that takes its bounds from an embedded *Rect (and
				// with them, by method promotion, the box's SDF and Contains methods) but answers
				// every collision query from the mesh
				pad := size * (0.1 + rng.Float64())
				coll = &paddedCollider3{Rect: &model3d.Rect{MinVal: coll.Min().AddScalar(-pad), MaxVal: coll.Max().AddScalar(pad)}, Inner: coll}
				capi = "model3d.ColliderToSDF[caller's collider embedding *Rect]"
				c.Count("mesh3d.ColliderToSDF.colliders_embedding_a_rect", 1)
			}
			cs := model3d.ColliderToSDF(coll, iters)
			csolid := model3d.NewColliderSolid(coll)
			for qi := 0; qi < 4; qi++ {
				p, _ := meshQuery3(rng, ts, lo, hi, size)
				nb := g.BruteNearest3(p, ts, -1)
				if nb.Dist < math.Pow(2, -18) || nb.Dist > math.Pow(2, 18) {
					c.Undecided("collider:distance-outside-bisection-range")
					continue
				}
				tol := relTol*nb.Dist + absTolK*(M+g.MaxAbs3(p)) + 2*math.Pow(2, -iters)*math.Max(nb.Dist, 1)
				v := cs.SDF(p)
				c.Count("mesh3d.ColliderToSDF.calls", 1)
				if !(math.Abs(math.Abs(v)-nb.Dist) <= tol) {
					c.Violation(capi+".SDF/distance-vs-exhaustive-minimum", fmt.Sprintf("|SDF|=%.17g but the minimum over all %d faces is %.17g (tol %.3g incl. bisection resolution)", math.Abs(v), len(ts), nb.Dist, tol), wit(p, nil))
					continue
				}
				c.Count("mesh3d.ColliderToSDF.distance_ok", 1)
				if mc.closed && nb.Dist > 2*tol+1e-7*size {
					w := g.Winding3(p, ts)
					_, clear := g.RayClearance(p, libRayDir3, ts)
					if math.Abs(w-math.Round(w)) <= 1e-4 && clear >= 1e-7 {
						inside := int64(math.Abs(math.Round(w)))%2 == 1
						if (v > 0) != inside {
							c.Violation(capi+".SDF/sign", fmt.Sprintf("SDF=%.17g but the winding number is %.6f", v, w), wit(p, nil))
						} else {
							c.Count("mesh3d.ColliderToSDF.sign_ok", 1)
						}
						if padded && csolid.Contains(model3d.XYZ(p.X, p.Y, p.Z)) != inside {
							c.Violation("model3d.NewColliderSolid[caller's collider embedding *Rect].Contains/even-odd", fmt.Sprintf("Contains=%v but the winding number is %.6f", !inside, w), wit(p, nil))
						}
					}
				}
			}
		}
		if len(ts) >= 4 {
			c.Nontrivial(fmt.Sprint(mc.kind, len(ts), hx(lo), hx(hi)))
		}
		if c.Index < 3 {
			c.Sample("mesh3d", 3, map[string]interface{}{"kind": mc.kind, "faces": len(ts), "closed_oriented": mc.closed})
		}
	})
}

// ---------------------------------------------------------------------------
// primitives.go: Triangle.Dist/Closest and Segment.Dist/Closest

func trianglePrims3(r *vlib.Run) {
	r.Section("triangle3d", r.N(20000, 400000), vlib.SectionOpts{}, func(c *vlib.Case) {
		rng := c.Rng
		var t g.Tri
		sc := math.Pow(10, -2+4*rng.Float64())
		exact := rng.Intn(3) == 0
		for {
			if exact {
				sc = 1
				for i := range t {
					t[i] = g.V3(float64(rng.Intn(7)-3), float64(rng.Intn(7)-3), float64(rng.Intn(7)-3))
				}
			} else {
				c0 := g.Scale3(g.V3(rng.Float64()*4-2, rng.Float64()*4-2, rng.Float64()*4-2), sc)
				t = g.Tri{c0, g.Add3(c0, g.Scale3(g.RandUnit3(rng), sc*(0.1+rng.Float64()))), g.Add3(c0, g.Scale3(g.RandUnit3(rng), sc*(0.1+rng.Float64())))}
			}
			if g.TriQuality(t) >= 0.02 {
				break
			}
		}
		lt := &model3d.Triangle{t[0], t[1], t[2]}
		size := math.Max(g.Dist3(t[0], t[1]), math.Max(g.Dist3(t[1], t[2]), g.Dist3(t[2], t[0])))
		M := size + g.MaxAbs3(t[0])
		n := g.TriNormal(t)
		for qi := 0; qi < 12; qi++ {
			var p C3
			a, b := rng.Float64()*1.6-0.3, rng.Float64()*1.6-0.3
			inPlane := g.Add3(t[0], g.Add3(g.Scale3(g.Sub3(t[1], t[0]), a), g.Scale3(g.Sub3(t[2], t[0]), b)))
			switch rng.Intn(6) {
			case 0:
				p = inPlane // in the plane of the triangle
			case 1:
				p = t[rng.Intn(3)]
			case 2:
				p = g.Lerp3(t[0], t[1], rng.Float64()*2-0.5) // on an edge line
			case 3:
				if exact {
					p = g.V3(float64(rng.Intn(9)-4), float64(rng.Intn(9)-4), float64(rng.Intn(9)-4))
				} else {
					p = g.Add3(inPlane, g.Scale3(n, size*math.Pow(10, -10+10*rng.Float64())*float64(1-2*rng.Intn(2))))
				}
			default:
				p = g.Add3(inPlane, g.Scale3(g.RandUnit3(rng), size*math.Pow(10, -3+5*rng.Float64())))
			}
			want, _, reg := g.ClosestOnTri(p, t)
			wd := g.Dist3(p, want)
			tol := relTol*wd + absTolK*(M+g.MaxAbs3(p))
			wit := map[string]interface{}{"triangle_hex": hx(t[0]) + hx(t[1]) + hx(t[2]), "query_hex": hx(p), "query": dec(p), "region": reg}
			d := lt.Dist(p)
			c.Count("Triangle.Dist.calls", 1)
			if !(math.Abs(d-wd) <= tol) {
				c.Violation("model3d.Triangle.Dist/distance", fmt.Sprintf("Dist=%.17g, reference %.17g (region %d)", d, wd, reg), wit)
			} else {
				c.Count("Triangle.Dist.ok", 1)
			}
			q := lt.Closest(p)
			c.Count("Triangle.Closest.calls", 1)
			// the closest point of a convex set is unique
			if !fin3(q) || math.Abs(g.Dist3(p, q)-wd) > tol || g.Dist3(q, want) > 1e-6*size+tol {
				c.Violation("model3d.Triangle.Closest/nearest-point", fmt.Sprintf("Closest=%v (at %.17g), reference %v (at %.17g, region %d)", q, g.Dist3(p, q), want, wd, reg), wit)
			} else {
				c.Count("Triangle.Closest.ok", 1)
			}
			c.Count(fmt.Sprintf("Triangle.region.%d", reg), 1)
			// segment
			sa, sb := t[0], t[1]
			seg := model3d.NewSegment(sa, sb)
			ws := g.ClosestOnSeg3(p, sa, sb)
			wsd := g.Dist3(p, ws)
			sq := seg.Closest(p)
			if math.Abs(seg.Dist(p)-wsd) > tol || g.Dist3(sq, ws) > 1e-6*size+tol {
				c.Violation("model3d.Segment.Closest/nearest-point", fmt.Sprintf("Segment.Closest=%v Dist=%.17g, reference %v at %.17g", sq, seg.Dist(p), ws, wsd), wit)
			} else {
				c.Count("Segment3.ok", 1)
			}
		}
		c.Nontrivial(hx(t[0]) + hx(t[1]) + hx(t[2]))
	})
}

// paddedCollider3 is a caller-defined collider: bounds (and everything else a *Rect has) from the
// embedded box, collisions from the inner collider.
type paddedCollider3 struct {
	*model3d.Rect
	Inner model3d.Collider
}

func (p *paddedCollider3) RayCollisions(r *model3d.Ray, f func(model3d.RayCollision)) int {
	return p.Inner.RayCollisions(r, f)
}
func (p *paddedCollider3) FirstRayCollision(r *model3d.Ray) (model3d.RayCollision, bool) {
	return p.Inner.FirstRayCollision(r)
}
func (p *paddedCollider3) SphereCollision(c model3d.Coord3D, r float64) bool {
	return p.Inner.SphereCollision(c, r)
}
