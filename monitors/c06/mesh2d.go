package main

import (
	"fmt"
	"math"
	"math/rand"

	"github.com/unixpickle/model3d/model2d"
	"github.com/unixpickle/model3d/model3d"
	"verif/vlib"
	g "verif/vlib/c06ref"
)

var libRayDir2 = C2{X: 0.5224892708603626, Y: 0.10494477243214506}

// polygon returns the clockwise boundary (outward (-dy,dx) normals) of the
// polar curve r(theta).
func polygon(n int, radius func(i int) float64) []g.Seg {
	pt := func(i int) C2 {
		a := -2 * math.Pi * float64(i%n) / float64(n) // clockwise
		r := radius(i % n)
		return g.V2(r*math.Cos(a), r*math.Sin(a))
	}
	var ss []g.Seg
	for i := 0; i < n; i++ {
		ss = append(ss, g.Seg{pt(i), pt(i + 1)})
	}
	return ss
}

func flipSegs(ss []g.Seg) []g.Seg {
	res := make([]g.Seg, len(ss))
	for i, s := range ss {
		res[i] = g.Seg{s[1], s[0]}
	}
	return res
}

func mapSegs(ss []g.Seg, f func(C2) C2) []g.Seg {
	res := make([]g.Seg, len(ss))
	for i, s := range ss {
		res[i] = g.Seg{f(s[0]), f(s[1])}
	}
	return res
}

// ownSolid2: see ownSolid3.
type ownSolid2 struct{ refs []g.RefShape2 }

func (o ownSolid2) Min() C2 {
	mn, _ := o.refs[0].Bounds()
	for _, r := range o.refs[1:] {
		lo, _ := r.Bounds()
		mn = g.V2(math.Min(mn.X, lo.X), math.Min(mn.Y, lo.Y))
	}
	return g.Sub2(mn, g.V2(1e-6, 1e-6))
}
func (o ownSolid2) Max() C2 {
	_, mx := o.refs[0].Bounds()
	for _, r := range o.refs[1:] {
		_, hi := r.Bounds()
		mx = g.V2(math.Max(mx.X, hi.X), math.Max(mx.Y, hi.Y))
	}
	return g.Add2(mx, g.V2(1e-6, 1e-6))
}
func (o ownSolid2) Contains(p C2) bool {
	for _, r := range o.refs {
		if r.Eval(p).SD >= 0 {
			return true
		}
	}
	return false
}

type meshCase2 struct {
	kind   string
	segs   []g.Seg
	closed bool
}

func genMesh2(rng *rand.Rand, thorough bool) meshCase2 {
	var mc meshCase2
	big := 1
	if thorough {
		big = 4
	}
	switch rng.Intn(7) {
	case 0:
		mc.kind, mc.segs = "regular-polygon", polygon(3+rng.Intn(40*big), func(int) float64 { return 1 })
	case 1:
		n := 2 * (3 + rng.Intn(12*big))
		in := 0.3 + 0.5*rng.Float64()
		mc.kind, mc.segs = "star", polygon(n, func(i int) float64 {
			if i%2 == 0 {
				return 1
			}
			return in
		})
	case 2: // annulus: outer clockwise, hole counter-clockwise
		nOut := 4 + rng.Intn(20)
		k := (0.2 + 0.7*rng.Float64()) * math.Cos(math.Pi/float64(nOut)) // strictly inside the outer polygon's incircle
		mc.kind = "nested-loops"
		mc.segs = append(polygon(nOut, func(int) float64 { return 1 }),
			flipSegs(mapSegs(polygon(3+rng.Intn(12), func(int) float64 { return 1 }), func(p C2) C2 { return g.Scale2(p, k) }))...)
	case 3: // exact rectangle
		w, h := float64(1+rng.Intn(4)), float64(1+rng.Intn(4))
		mc.kind, mc.segs = "exact-rect", []g.Seg{{g.V2(0, 0), g.V2(0, h)}, {g.V2(0, h), g.V2(w, h)}, {g.V2(w, h), g.V2(w, 0)}, {g.V2(w, 0), g.V2(0, 0)}}
	case 4: // library marching squares (input only)
		solid := ownSolid2{refs: []g.RefShape2{g.RefCircle{R: 0.7 + 0.3*rng.Float64()}, g.RefCircle{C: g.V2(0.9, 0.2), R: 0.5}}}
		delta := 0.05 + 0.1*rng.Float64()
		mc.kind, mc.segs = "marching-squares", vlib.Segs(model2d.MarchingSquaresSearch(solid, delta, 4))
	case 5: // segment soup
		n := 1 + rng.Intn(10)
		for i := 0; i < n; i++ {
			a := g.V2(rng.NormFloat64(), rng.NormFloat64())
			mc.segs = append(mc.segs, g.Seg{a, g.Add2(a, g.Scale2(g.RandUnit2(rng), 0.2+rng.Float64()))})
		}
		mc.kind = "soup"
	default: // wobbly blob
		n := 8 + rng.Intn(60*big)
		ph, amp, fr := rng.Float64()*6, 0.1+0.4*rng.Float64(), float64(2+rng.Intn(5))
		mc.kind, mc.segs = "blob", polygon(n, func(i int) float64 { return 1 + amp*math.Sin(fr*2*math.Pi*float64(i)/float64(n)+ph) })
	}
	if mc.kind != "exact-rect" || rng.Intn(2) == 0 {
		ang := rng.Float64() * 6
		if rng.Intn(4) == 0 {
			ang = 0
		}
		sc := math.Pow(10, -2+4*rng.Float64())
		sh := g.Scale2(g.V2(rng.Float64()*4-2, rng.Float64()*4-2), sc)
		cs, sn := math.Cos(ang), math.Sin(ang)
		mc.segs = mapSegs(mc.segs, func(p C2) C2 { return g.Add2(g.Scale2(g.V2(cs*p.X-sn*p.Y, sn*p.X+cs*p.Y), sc), sh) })
	}
	if mc.kind != "soup" && len(mc.segs) > 0 {
		topo := vlib.AnalyzeSegs(mc.segs)
		mc.closed = topo.ClosedOrientedManifold()
	}
	return mc
}

// rayClearance2 is the 2D analogue of RayClearance (margin only).
func rayClearance2(p, dir C2, segs []g.Seg) float64 {
	clear := math.Inf(1)
	d := g.Scale2(dir, 1/g.Len2(dir))
	for _, s := range segs {
		e := g.Sub2(s[1], s[0])
		l := g.Len2(e)
		if l == 0 {
			return 0
		}
		den := g.CrossZ2(d, e)
		if math.Abs(den) < 1e-6*l {
			// nearly parallel: fragile if the segment is close to the ray line
			for _, v := range s {
				w := g.Sub2(v, p)
				if g.Dot2(w, d) > -l && math.Abs(g.CrossZ2(d, w)) < 2*l {
					return 0
				}
			}
			continue
		}
		w := g.Sub2(s[0], p)
		t := g.CrossZ2(w, e) / den // along the ray (length units)
		u := g.CrossZ2(w, d) / den // along the segment, 0..1
		m := math.Min(u, 1-u)      // > 0 inside the segment
		ms := t / l
		var cl float64
		switch {
		case m > 0 && ms > 0:
			cl = math.Min(m, ms)
		case m > 0:
			cl = -ms
		case ms > 0:
			cl = -m
		default:
			cl = math.Max(-ms, -m)
		}
		if cl < clear {
			clear = cl
		}
	}
	return clear
}

func meshes2(r *vlib.Run) {
	thorough := !r.Quick()
	r.Section("mesh2d", r.N(3000, 40000), vlib.SectionOpts{}, func(c *vlib.Case) {
		rng := c.Rng
		mc := genMesh2(rng, thorough)
		ss := mc.segs
		if len(ss) == 0 {
			c.Undecided("mesh:generator-produced-no-faces")
			return
		}
		// as in 3D: the segments handed to the library may be reversed (all, one, or a random
		// subset); distance, nearest point and the even-odd sign do not depend on that
		lss := ss
		reoriented := ""
		if mc.closed && rng.Intn(4) == 0 {
			lss = append(lss[:0:0], ss...)
			switch rng.Intn(3) {
			case 0:
				reoriented = "all-segments-reversed"
				for i := range lss {
					lss[i][0], lss[i][1] = lss[i][1], lss[i][0]
				}
			case 1:
				reoriented = "one-segment-reversed"
				i := rng.Intn(len(lss))
				lss[i][0], lss[i][1] = lss[i][1], lss[i][0]
			default:
				reoriented = "random-segments-reversed"
				for i := range lss {
					if rng.Intn(2) == 0 {
						lss[i][0], lss[i][1] = lss[i][1], lss[i][0]
					}
				}
			}
			c.Count("mesh2d.reoriented."+reoriented, 1)
		}
		faces := make([]*model2d.Segment, len(ss))
		index := map[*model2d.Segment]int{}
		for i, s := range lss {
			faces[i] = &model2d.Segment{s[0], s[1]}
			index[faces[i]] = i
		}
		var sdf model2d.FaceSDF
		ctor := "MeshToSDF"
		if rng.Intn(4) == 0 {
			rng.Shuffle(len(faces), func(i, j int) { faces[i], faces[j] = faces[j], faces[i] })
			// the slice handed over belongs to the caller, who goes on using it (re-sorts it, reuses it as
			// a scratch buffer): the finished field must keep describing the faces it was built from
			handed := append([]*model2d.Segment{}, faces...)
			sdf = model2d.GroupedSegmentsToSDF(handed)
			rng.Shuffle(len(handed), func(i, j int) { handed[i], handed[j] = handed[j], handed[i] })
			for i := range handed {
				if i%2 == 0 {
					handed[i] = handed[0]
				}
			}
			ctor = "GroupedSegmentsToSDF(ungrouped)"
		} else {
			sdf = model2d.MeshToSDF(model2d.NewMeshSegments(faces))
		}
		poly := g.RefPoly2{Segs: ss, Name: mc.kind}
		lo, hi := poly.Bounds()
		size := g.Len2(g.Sub2(hi, lo))
		M := size + g.MaxAbs2(lo) + g.MaxAbs2(hi)
		outward := mc.closed && vlib.SignedArea2(ss) < 0 && reoriented == "" // clockwise
		c.Count("mesh2d.meshes", 1)
		c.Count("mesh2d.kind."+mc.kind, 1)
		c.Count("mesh2d.faces_total", int64(len(ss)))
		if mc.closed {
			c.Count("mesh2d.closed_oriented", 1)
		}
		api := "model2d.MeshToSDF"
		wit := func(p C2, more map[string]interface{}) map[string]interface{} {
			w := map[string]interface{}{"mesh": mc.kind, "faces": len(ss), "constructor": ctor, "query_hex": hx2(p), "query": dec2(p)}
			if len(ss) <= 12 {
				w["segments"] = poly.Describe()["segments"]
			}
			for k, v := range more {
				w[k] = v
			}
			return w
		}
		var prevP C2
		var prevSD float64
		havePrev := false
		for qi := 0; qi < 24; qi++ {
			var p C2
			var kind string
			sg := ss[rng.Intn(len(ss))]
			switch rng.Intn(8) {
			case 0, 1:
				d := g.Sub2(hi, lo)
				p, kind = g.V2(lo.X-0.5*d.X+2*d.X*rng.Float64(), lo.Y-0.5*d.Y+2*d.Y*rng.Float64()), "box"
			case 2, 3:
				e := g.Sub2(sg[1], sg[0])
				nn := g.Scale2(g.V2(-e.Y, e.X), 1/g.Len2(e))
				p, kind = g.Add2(g.Lerp2(sg[0], sg[1], rng.Float64()), g.Scale2(nn, size*math.Pow(10, -9+8.5*rng.Float64())*float64(1-2*rng.Intn(2)))), "off-face"
			case 4:
				p, kind = poly.Special(rng), "special"
			case 5:
				p, kind = g.Add2(sg[rng.Intn(2)], g.Scale2(g.RandUnit2(rng), size*math.Pow(10, -6+5.5*rng.Float64()))), "near-vertex"
			case 6:
				p, kind = g.Add2(g.Lerp2(lo, hi, 0.5), g.Scale2(g.RandUnit2(rng), size*math.Pow(10, -12+10*rng.Float64()))), "centre"
			default:
				p, kind = g.Add2(g.Lerp2(lo, hi, 0.5), g.Scale2(g.RandUnit2(rng), size*math.Pow(10, 0.2+2.5*rng.Float64()))), "far"
			}
			c.Count("mesh2d.queries."+kind, 1)
			abs := absTolK * (M + g.MaxAbs2(p))
			dist, bf, near, bt, second := g.BruteNearest2(p, ss, -1)
			tol := relTol*dist + abs
			sd := sdf.SDF(p)
			c.Count("mesh2d.SDF.calls", 1)
			if !fin(sd) {
				c.Violation(api+".SDF/finite", fmt.Sprint("SDF returned ", sd), wit(p, nil))
				continue
			}
			if diff := math.Abs(math.Abs(sd) - dist); diff > tol {
				c.Violation(api+".SDF/distance-vs-exhaustive-minimum", fmt.Sprintf("|SDF|=%.17g but the minimum over all %d segments is %.17g (segment %d)", math.Abs(sd), len(ss), dist, bf), wit(p, nil))
			} else {
				c.Count("mesh2d.SDF.distance_ok", 1)
			}
			signKnown, inside := false, false
			if mc.closed {
				if dist <= 2*tol+1e-7*size {
					c.Undecided("mesh-sign:query-near-surface")
				} else if rayClearance2(p, libRayDir2, ss) < 1e-7 || rayClearance2(p, g.V2(1, 0), ss) < 1e-9 {
					c.Undecided("mesh-sign:ray-grazes-a-vertex")
				} else {
					signKnown, inside = true, g.Parity2(p, ss)
					if (sd > 0) != inside {
						c.Violation(api+".SDF/sign", fmt.Sprintf("SDF=%.17g but the even-odd crossing parity says the query is %s", sd, inout(inside)), wit(p, nil))
					} else {
						c.Count("mesh2d.SDF.sign_ok", 1)
						if inside {
							c.Count("mesh2d.SDF.sign_ok_inside", 1)
						}
					}
				}
			}
			q, sd2 := sdf.PointSDF(p)
			c.Count("mesh2d.PointSDF.calls", 1)
			if !fin2(q) || math.Abs(sd2-sd) > tol {
				c.Violation(api+".PointSDF/same-distance-as-SDF", fmt.Sprintf("PointSDF returned %v, %.17g; SDF %.17g", q, sd2, sd), wit(p, nil))
			} else {
				onB, _, _, _, _ := g.BruteNearest2(q, ss, 0)
				if onB > tol {
					c.Violation(api+".PointSDF/point-on-boundary", fmt.Sprintf("returned point is %.3g off the outline", onB), wit(p, nil))
				} else if d := g.Dist2(p, q); math.Abs(d-dist) > tol {
					c.Violation(api+".PointSDF/point-at-distance", fmt.Sprintf("returned point is %.17g from the query; minimum over all segments %.17g", d, dist), wit(p, nil))
				} else {
					c.Count("mesh2d.PointSDF.ok", 1)
				}
			}
			f, fq, sd4 := sdf.FaceSDF(p)
			c.Count("mesh2d.FaceSDF.calls", 1)
			fi, known := index[f]
			switch {
			case f == nil || !known:
				c.Violation(api+".FaceSDF/face-of-the-mesh", "FaceSDF returned a segment that is not in the mesh", wit(p, nil))
			case math.Abs(sd4-sd) > tol:
				c.Violation(api+".FaceSDF/same-distance-as-SDF", fmt.Sprintf("FaceSDF distance %.17g, SDF %.17g", sd4, sd), wit(p, nil))
			default:
				myq, _ := g.ClosestOnSeg(p, ss[fi])
				dFace := g.Dist2(p, myq)
				if dFace > dist+tol {
					c.Violation(api+".FaceSDF/face-attains-minimum", fmt.Sprintf("returned segment %d is at %.17g, segment %d at %.17g", fi, dFace, bf, dist), wit(p, nil))
				} else if d := g.Dist2(fq, myq); d > 1e-6*size+1e-7*g.MaxAbs2(p) {
					c.Violation(api+".FaceSDF/point-is-nearest-on-face", fmt.Sprintf("returned point is %.3g away from the nearest point of the returned segment", d), wit(p, nil))
				} else {
					c.Count("mesh2d.FaceSDF.ok", 1)
				}
			}
			n, sd5 := sdf.NormalSDF(p)
			c.Count("mesh2d.NormalSDF.calls", 1)
			if !fin2(n) || math.Abs(sd5-sd) > tol {
				c.Violation(api+".NormalSDF/same-distance-as-SDF", fmt.Sprintf("NormalSDF returned %v, %.17g; SDF %.17g", n, sd5, sd), wit(p, nil))
			} else if l := g.Len2(n); math.Abs(l-1) > unitTol {
				c.Violation(api+".NormalSDF/unit", fmt.Sprintf("normal %v has length %.17g", n, l), wit(p, nil))
			} else {
				c.Count("mesh2d.NormalSDF.unit_ok", 1)
				smooth := bt > 1e-3 && bt < 1-1e-3 && second >= dist+1e-6*(size+dist) && g.Dist2(ss[bf][0], ss[bf][1]) > 1e-6*size
				if !smooth {
					c.Undecided("mesh-normal:nearest-point-not-stably-inside-one-face")
				} else {
					e := g.Sub2(lss[bf][1], lss[bf][0])
					want := g.Scale2(g.V2(-e.Y, e.X), 1/g.Len2(e))
					if d := g.Len2(g.Sub2(n, want)); d > normalTol {
						c.Violation(api+".NormalSDF/normal-of-nearest-face", fmt.Sprintf("normal %v differs from the normal %v of the unique nearest segment %d", n, want, bf), wit(p, nil))
					} else {
						c.Count("mesh2d.NormalSDF.face_normal_ok", 1)
					}
					if outward && signKnown && dist > 1e-6*size {
						dir := g.Scale2(g.Sub2(p, near), 1/dist)
						if inside {
							dir = g.Scale2(dir, -1)
						}
						if d := g.Len2(g.Sub2(n, dir)); d > 1e-5+1e-9*M/dist {
							c.Violation(api+".NormalSDF/outward-normal", fmt.Sprintf("normal %v is not the direction %v in which the field decreases fastest", n, dir), wit(p, nil))
						} else {
							c.Count("mesh2d.NormalSDF.outward_ok", 1)
						}
					}
				}
			}
			val := sd
			if !mc.closed {
				val = math.Abs(sd)
			}
			if havePrev {
				d := g.Dist2(p, prevP)
				if math.Abs(val-prevSD) > d*(1+1e-9)+2*tol+relTol*(math.Abs(val)+math.Abs(prevSD)) {
					c.Violation(api+".SDF/1-Lipschitz", fmt.Sprintf("SDF changes by %.17g between two points %.17g apart", math.Abs(val-prevSD), d), wit(p, map[string]interface{}{"second_query_hex": hx2(prevP)}))
				} else {
					c.Count("mesh2d.SDF.lipschitz_pairs_ok", 1)
				}
			}
			if mc.closed && !signKnown {
				havePrev = false
			} else {
				prevP, prevSD, havePrev = p, val, true
			}
			// model2d.Segment.Closest / Dist on the nearest face
			ls := faces[0]
			mq, _ := g.ClosestOnSeg(p, g.Seg{ls[0], ls[1]})
			if lq := ls.Closest(p); g.Dist2(lq, mq) > 1e-6*size+tol || math.Abs(ls.Dist(p)-g.Dist2(p, mq)) > relTol*g.Dist2(p, mq)+abs {
				c.Violation("model2d.Segment.Closest/nearest-point", fmt.Sprintf("Segment.Closest=%v Dist=%.17g, reference %v at %.17g", lq, ls.Dist(p), mq, g.Dist2(p, mq)), wit(p, nil))
			} else {
				c.Count("Segment2.ok", 1)
			}
		}
		{
			const iters = 24
			var coll model2d.Collider = model2d.MeshToCollider(model2d.NewMeshSegments(faces))
			capi := "model2d.ColliderToSDF[MeshToCollider]"
			padded := rng.Intn(3) == 0
			if padded {
				// see paddedCollider3
				pad := size * (0.1 + rng.Float64())
				coll = &paddedCollider2{Rect: &model2d.Rect{MinVal: coll.Min().AddScalar(-pad), MaxVal: coll.Max().AddScalar(pad)}, Inner: coll}
				capi = "model2d.ColliderToSDF[caller's collider embedding *Rect]"
				c.Count("mesh2d.ColliderToSDF.colliders_embedding_a_rect", 1)
			}
			cs := model2d.ColliderToSDF(coll, iters)
			csolid := model2d.NewColliderSolid(coll)
			for qi := 0; qi < 4; qi++ {
				d := g.Sub2(hi, lo)
				p := g.V2(lo.X-0.5*d.X+2*d.X*rng.Float64(), lo.Y-0.5*d.Y+2*d.Y*rng.Float64())
				dist, _, _, _, _ := g.BruteNearest2(p, ss, -1)
				if dist < math.Pow(2, -18) || dist > math.Pow(2, 18) {
					c.Undecided("collider:distance-outside-bisection-range")
					continue
				}
				tol := relTol*dist + absTolK*(M+g.MaxAbs2(p)) + 2*math.Pow(2, -iters)*math.Max(dist, 1)
				v := cs.SDF(p)
				c.Count("mesh2d.ColliderToSDF.calls", 1)
				if !(math.Abs(math.Abs(v)-dist) <= tol) {
					c.Violation(capi+".SDF/distance-vs-exhaustive-minimum", fmt.Sprintf("|SDF|=%.17g but the minimum over all %d segments is %.17g", math.Abs(v), len(ss), dist), wit(p, nil))
					continue
				}
				c.Count("mesh2d.ColliderToSDF.distance_ok", 1)
				if mc.closed && dist > 2*tol+1e-7*size && rayClearance2(p, libRayDir2, ss) >= 1e-7 && rayClearance2(p, g.V2(1, 0), ss) >= 1e-9 {
					inside := g.Parity2(p, ss)
					if (v > 0) != inside {
						c.Violation(capi+".SDF/sign", fmt.Sprintf("SDF=%.17g but the crossing parity says %s", v, inout(inside)), wit(p, nil))
					} else {
						c.Count("mesh2d.ColliderToSDF.sign_ok", 1)
					}
					if padded && csolid.Contains(model2d.XY(p.X, p.Y)) != inside {
						c.Violation("model2d.NewColliderSolid[caller's collider embedding *Rect].Contains/even-odd", fmt.Sprintf("Contains=%v but the crossing parity says %s", !inside, inout(inside)), wit(p, nil))
					}
				}
			}
		}
		if len(ss) >= 3 {
			c.Nontrivial(fmt.Sprint(mc.kind, len(ss), hx2(lo), hx2(hi)))
		}
	})
}

// ---------------------------------------------------------------------------
// extruded profiles

func profiles(r *vlib.Run) {
	r.Section("profile", r.N(4000, 50000), vlib.SectionOpts{}, func(c *vlib.Case) {
		rng := c.Rng
		var base *subject2
		polyMesh := rng.Intn(5) == 0
		if polyMesh {
			// polygon outline through model2d.MeshToSDF, reference = exhaustive minimum over segments
			var mc meshCase2
			for {
				mc = genMesh2(rng, false)
				if mc.closed && mc.kind != "marching-squares" {
					break
				}
			}
			faces := make([]*model2d.Segment, len(mc.segs))
			for i, s := range mc.segs {
				faces[i] = &model2d.Segment{s[0], s[1]}
			}
			lib := model2d.MeshToSDF(model2d.NewMeshSegments(faces))
			base = &subject2{api: "model2d.MeshToSDF", tag: "2d.Mesh", sdf: lib, point: lib, ref: g.RefPoly2{Segs: mc.segs, Name: mc.kind}}
		} else {
			base = gens2[rng.Intn(len(gens2))].gen(rng)
		}
		finish2(base)
		sz := base.ref.Size()
		minZ := (rng.Float64()*4 - 2) * sz
		h := sz * aspect(rng)
		if rng.Intn(3) == 0 {
			minZ, h = dyadic(rng, -2, 2), dyadic(rng, 0.125, 4)
		}
		maxZ := minZ + h
		ref := g.RefProfile{Base: base.ref, MinZ: minZ, MaxZ: maxZ}
		params := ref.Describe()
		c.Count("Profile.of."+base.tag, 1)
		// a defect of the 2D outline itself is reported under the outline's keys only
		okSDF := baseAgrees2(base)
		baseOK := func(p C3) bool {
			q := g.V2(p.X, p.Y)
			if !okSDF(q) {
				return false
			}
			if base.point != nil {
				bp, _ := base.point.PointSDF(q)
				e := base.ref.Eval(q)
				tol := relTol*math.Abs(e.SD) + absTolK*(base.scale+g.MaxAbs2(q))
				if !fin2(bp) || math.Abs(base.ref.Eval(bp).SD) > tol || math.Abs(g.Dist2(q, bp)-math.Abs(e.SD)) > tol {
					return false
				}
			}
			return true
		}
		s := &subject3{api: "model3d.ProfileSDF", tag: "ProfileSDF", sdf: model3d.ProfileSDF(base.sdf, minZ, maxZ), ref: ref, params: params, baseOK: baseOK}
		if polyMesh {
			s.quiet = true // piece ids are segment indices
		}
		runSubject3(c, s, 16)
		if base.point != nil {
			lib := model3d.ProfilePointSDF(base.point, minZ, maxZ)
			s2 := &subject3{api: "model3d.ProfilePointSDF", tag: "ProfilePointSDF", sdf: lib, point: lib, ref: ref, params: params, quiet: polyMesh, baseOK: baseOK}
			runSubject3(c, s2, 16)
		}
		// extrusions that are unbounded on one or both sides (minZ = -Inf and/or maxZ = +Inf): the
		// field is that of the same prism cut far away (1e7 sizes), where the cut cannot be the
		// nearest part for any query made here
		if c.Index%4 == 1 {
			lo, hi := minZ, maxZ
			switch rng.Intn(3) {
			case 0:
				hi = math.Inf(1)
			case 1:
				lo = math.Inf(-1)
			default:
				lo, hi = math.Inf(-1), math.Inf(1)
			}
			far := 1e7 * (sz + math.Abs(minZ) + math.Abs(maxZ))
			cutLo, cutHi := math.Max(lo, -far), math.Min(hi, far)
			libCut := model3d.ProfileSDF(base.sdf, cutLo, cutHi)
			libU := model3d.ProfileSDF(base.sdf, lo, hi)
			var libUP, libCutP model3d.PointSDF
			if base.point != nil {
				libUP = model3d.ProfilePointSDF(base.point, lo, hi)
				libCutP = model3d.ProfilePointSDF(base.point, cutLo, cutHi)
			}
			wit := map[string]interface{}{"base": base.api, "params": params, "minZ": lo, "maxZ": hi, "cut_at": far}
			for i := 0; i < 8; i++ {
				p, _ := query3(rng, ref)
				if math.Abs(p.Z) > 1e3*(sz+math.Abs(minZ)+math.Abs(maxZ)) || !fin3(p) {
					continue
				}
				q := model3d.XYZ(p.X, p.Y, p.Z)
				want := libCut.SDF(q)
				tol := 1e-12 * (math.Abs(want) + base.scale + sz + g.MaxAbs3(p))
				wit["query_hex"] = fmt.Sprintf("(%x,%x,%x)", p.X, p.Y, p.Z)
				c.Count("Profile.unbounded_extent.queries", 1)
				if v := libU.SDF(q); !(math.Abs(v-want) <= tol) {
					c.Violation("model3d.ProfileSDF.SDF/value-with-unbounded-extent", fmt.Sprintf("SDF=%.17g, the same prism cut far away gives %.17g (tol %.3g)", v, want, tol), wit)
					break
				}
				if libUP != nil {
					np, v := libUP.PointSDF(q)
					wp, wv := libCutP.PointSDF(q)
					if !(math.Abs(v-wv) <= tol) || !(np.Dist(wp) <= tol) {
						c.Violation("model3d.ProfilePointSDF.PointSDF/value-with-unbounded-extent", fmt.Sprintf("PointSDF=(%v, %.17g); the same prism cut far away gives (%v, %.17g) (tol %.3g)", np, v, wp, wv, tol), wit)
						break
					}
				}
			}
		}
	})
}

type paddedCollider2 struct {
	*model2d.Rect
	Inner model2d.Collider
}

func (p *paddedCollider2) RayCollisions(r *model2d.Ray, f func(model2d.RayCollision)) int {
	return p.Inner.RayCollisions(r, f)
}
func (p *paddedCollider2) FirstRayCollision(r *model2d.Ray) (model2d.RayCollision, bool) {
	return p.Inner.FirstRayCollision(r)
}
func (p *paddedCollider2) CircleCollision(c model2d.Coord, r float64) bool {
	return p.Inner.CircleCollision(c, r)
}
