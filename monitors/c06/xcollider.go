package main

// ColliderToSDF over TransformCollider(t, primitive): a "collider- and transform-derived field".
// The reference is the harness's own similarity image of the primitive's reference shape.

import (
	"fmt"
	"math"

	"github.com/unixpickle/model3d/model2d"
	"github.com/unixpickle/model3d/model3d"
	"verif/vlib"
	g "verif/vlib/c06ref"
)

func transformedColliderDerived(r *vlib.Run) {
	r.Section("collider3d.transformed", r.N(2500, 30000), vlib.SectionOpts{}, func(c *vlib.Case) {
		rng := c.Rng
		gn := gens3[rng.Intn(len(gens3))]
		base := finish3(gn.gen(rng))
		base.init()
		coll, ok := base.sdf.(model3d.Collider)
		if !ok {
			panic("primitive is not a collider")
		}
		sc := base.ref.Size()
		k := math.Pow(2, float64(rng.Intn(5)-2)) * (1 + float64(rng.Intn(2))*rng.Float64())
		off := g.Scale3(g.V3(rng.Float64()*4-2, rng.Float64()*4-2, rng.Float64()*4-2), sc)
		var t model3d.DistTransform
		name := ""
		switch rng.Intn(3) {
		case 0:
			t, name = &model3d.Scale{Scale: k}, "Scale"
			off = C3{}
		case 1:
			t, name = model3d.JoinedTransform{&model3d.Scale{Scale: k}, &model3d.Translate{Offset: off}}, "Joined[Scale,Translate]"
		default:
			k = 1
			t, name = &model3d.Translate{Offset: off}, "Translate"
		}
		own := g.RefSimilar3{Inner: base.ref, Scale: k, Shift: off}
		iters := []int{0, 20, 32, 48}[rng.Intn(4)]
		eff := iters
		if eff == 0 {
			eff = 32
		}
		params := map[string]string{"transform": name, "scale": g.Hex(k), "offset": hx(off), "iterations": fmt.Sprint(iters)}
		for kk, v := range base.params {
			params[kk] = v
		}
		okBase := baseAgrees(base)
		back := func(p C3) C3 { return g.Scale3(g.Sub3(p, off), 1/k) }
		s := &subject3{
			api: "model3d.ColliderToSDF[TransformCollider[" + name + "]]", tag: "ColliderToSDF.TransformCollider",
			sdf: model3d.ColliderToSDF(model3d.TransformCollider(t, coll), iters), ref: own, params: params, quiet: true,
			baseOK: func(p C3) bool { return okBase(back(p)) },
		}
		res := math.Pow(2, -float64(eff))
		baseExtra := base.extra
		s.extra = func(p C3, refSD float64) float64 {
			e := 2 * res * math.Max(math.Abs(refSD), 1)
			if baseExtra != nil {
				e += k * baseExtra(back(p), refSD/k)
			}
			return e
		}
		lim := math.Pow(2, float64(eff-2))
		s.skip = func(p C3, refSD float64) string {
			if a := math.Abs(refSD); a > lim || (a < 1/lim && eff < 32) {
				return "collider:distance-outside-bisection-range"
			}
			return ""
		}
		c.Count("ColliderToSDF.TransformCollider.fields", 1)
		if k != 1 {
			c.Count("ColliderToSDF.TransformCollider.fields_with_scale", 1)
		}
		runSubject3(c, s, 12)
	})

	r.Section("collider2d.transformed", r.N(2500, 30000), vlib.SectionOpts{}, func(c *vlib.Case) {
		rng := c.Rng
		gn := gens2[rng.Intn(len(gens2))]
		base := finish2(gn.gen(rng))
		base.init()
		coll, ok := base.sdf.(model2d.Collider)
		if !ok {
			panic("2D primitive is not a collider")
		}
		sc := base.ref.Size()
		k := math.Pow(2, float64(rng.Intn(5)-2)) * (1 + float64(rng.Intn(2))*rng.Float64())
		off := g.Scale2(g.V2(rng.Float64()*4-2, rng.Float64()*4-2), sc)
		var t model2d.DistTransform
		name := ""
		switch rng.Intn(3) {
		case 0:
			t, name = &model2d.Scale{Scale: k}, "Scale"
			off = C2{}
		case 1:
			t, name = model2d.JoinedTransform{&model2d.Scale{Scale: k}, &model2d.Translate{Offset: off}}, "Joined[Scale,Translate]"
		default:
			k = 1
			t, name = &model2d.Translate{Offset: off}, "Translate"
		}
		own := g.RefSimilar2{Inner: base.ref, Scale: k, Shift: off}
		iters := []int{0, 20, 32, 48}[rng.Intn(4)]
		eff := iters
		if eff == 0 {
			eff = 32
		}
		params := map[string]string{"transform": name, "scale": g.Hex(k), "offset": hx2(off), "iterations": fmt.Sprint(iters)}
		for kk, v := range base.params {
			params[kk] = v
		}
		okBase := baseAgrees2(base)
		back := func(p C2) C2 { return g.Scale2(g.Sub2(p, off), 1/k) }
		s := &subject2{
			api: "model2d.ColliderToSDF[TransformCollider[" + name + "]]", tag: "2d.ColliderToSDF.TransformCollider",
			sdf: model2d.ColliderToSDF(model2d.TransformCollider(t, coll), iters), ref: own, params: params, quiet: true,
			baseOK: func(p C2) bool { return okBase(back(p)) },
		}
		res := math.Pow(2, -float64(eff))
		s.extra = func(p C2, refSD float64) float64 { return 2 * res * math.Max(math.Abs(refSD), 1) }
		lim := math.Pow(2, float64(eff-2))
		s.skip = func(p C2, refSD float64) string {
			if a := math.Abs(refSD); a > lim || (a < 1/lim && eff < 32) {
				return "collider:distance-outside-bisection-range"
			}
			return ""
		}
		c.Count("2d.ColliderToSDF.TransformCollider.fields", 1)
		runSubject2(c, s, 12)
	})
}
