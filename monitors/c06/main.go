// C06 — Signed distance fields report true distance, nearest point and normal.
// Shape: seeded hostile (shape, query) generator + independent closed-form /
// brute-force reference + soundness margins (DESIGN.md C06).
package main

import "verif/vlib"

func main() {
	r := vlib.Start("C06", "exploration")
	r.Rule("a case is one seeded shape (exact dyadic/axis-aligned or random tilted, needle/flat aspect ratios, scales 1e-2..1e2) with 8-60 hostile queries (bounding box, near boundary over 12 decades, exactly on the boundary, symmetry axes/centres/apex/rims and nudges of those, far away); each query is decided against a closed-form or exhaustive reference written without the library's vector/shape code; a case is non-trivial if its queries reached >= 2 different nearest boundary pieces; distinct by hash of the shape parameters")
	r.Assume("IEEE double rounding: distances are compared with relative 1e-6 + absolute 1e-9*(shape extent + coordinate magnitude); sign/Contains are undecided within twice that tolerance of the boundary")
	r.Assume("the outward-normal clause is decided only where the reference nearest point stays on one smooth boundary piece for 14 probes at 1e-3*feature around the query and the closed-form reference normal agrees with -grad(reference distance) by central differences")
	r.Assume("Cone: inside the needle zone within 1e-5 rad of the axis (seen from Base) the coded safeNormal fallback is granted 2*rho extra tolerance")
	r.Assume("TransformSDF: the image of the shape is defined through the transform's own Apply (its laws are C05); translate/scale chains are also compared with an own model")

	selfTest(r)
	primitives3(r)
	colliderDerived3(r)
	transformDerived3(r)
	primitives2(r)
	colliderDerived2(r)
	transformDerived2(r)
	meshes3(r)
	trianglePrims3(r)
	meshes2(r)
	profiles(r)

	r.Finish()
}
