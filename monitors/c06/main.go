// C06 — Signed distance fields report true distance, nearest point and normal.
// Shape: seeded hostile (shape, query) generator + independent closed-form /
// brute-force reference + soundness margins (DESIGN.md C06).
package main

import "verif/vlib"

func main() {
	r := vlib.Start("C06", "exploration")
	r.Rule("a case is one seeded shape (exact dyadic/axis-aligned or random tilted, needle/flat aspect ratios, scales 1e-2..1e2) with 8-60 hostile queries (bounding box, near boundary over 12 decades, exactly on the boundary, symmetry axes/centres/apex/rims and nudges of those, far away); each query is decided against a closed-form or exhaustive reference written without the library's vector/shape code; a case is non-trivial if its queries reached >= 2 different nearest boundary pieces; distinct by hash of the shape parameters")
	r.Assume("IEEE double rounding: distances are compared with relative 1e-6 + absolute 1e-9*(shape extent + coordinate magnitude); sign/Contains are undecided within twice that tolerance of the boundary")
	r.Assume("the outward-normal clause is decided only where the reference nearest point stays on one smooth boundary piece for 14 probes at 1e-3*feature around the query and the closed-form reference normal agrees with -grad(reference distance) by central differences")
	r.Assume("Cone: inside the zone within 3e-5 rad of the axis (seen from Base) the distance error caused by the safeNormal fallback is reported once, under model3d.Cone.SDF/distance-near-axis (FINDINGS.md F2); the other clauses there and every field derived from a cone are granted 2*rho")
	r.Assume("derived fields (ColliderToSDF, TransformSDF, Profile*SDF) are decided only at queries where the library's base field agrees with the base reference, so a defect of a primitive is reported under the primitive's keys only")
	r.Assume("mesh sign: decided only for closed consistently oriented meshes (independent topology oracle), at more than 1e-7*size from the surface, where the generalised winding number is integral to 1e-4 and an independently cast ray in the library's fixed parity direction clears every edge by 1e-7 (barycentric); open triangle soups get the distance, nearest-point, face and |SDF|-Lipschitz clauses only")
	r.Assume("mesh inputs built by the library (icosphere, marching cubes/squares of the monitor's own solids) are inputs only; every oracle runs on their raw face lists")
	r.Assume("TransformSDF: the image of the shape is defined through the transform's own Apply (its laws are C05); translate/scale chains are also compared with an own model")

	selfTest(r)
	primitives3(r)
	colliderDerived3(r)
	transformDerived3(r)
	primitives2(r)
	colliderDerived2(r)
	transformedColliderDerived(r)
	transformDerived2(r)
	meshes3(r)
	trianglePrims3(r)
	meshes2(r)
	profiles(r)

	requires(r)
	r.Finish()
}

// requires lists the observations every claimed clause depends on; a run in
// which one of them saw (almost) nothing is inconclusive, not "held".
func requires(r *vlib.Run) {
	q := int64(r.N(1, 10))
	for _, t := range []string{"Sphere", "Rect", "Capsule", "Cylinder", "Cone", "Torus", "2d.Circle", "2d.Rect", "2d.Capsule", "2d.Triangle"} {
		r.Require(t+".SDF.distance_ok", 20000*q)
		r.Require(t+".SDF.sign_ok", 10000*q)
		r.Require(t+".Contains.agrees", 10000*q)
		r.Require(t+".PointSDF.on_boundary_ok", 20000*q)
		r.Require(t+".PointSDF.at_distance_ok", 20000*q)
		r.Require(t+".NormalSDF.unit_ok", 20000*q)
		r.Require(t+".NormalSDF.outward_decided", 3000*q)
		r.Require(t+".SDF.lipschitz_pairs_ok", 20000*q)
		r.Require(t+".SDF.boundary_samples_ok", 20000*q)
		r.Require(t+".queries.special", 3000*q)
	}
	// every smooth piece of the piecewise shapes reached by the normal clause
	for _, k := range []string{"Cone.NormalSDF.outward_decided.slant", "Cone.NormalSDF.outward_decided.base",
		"Cylinder.NormalSDF.outward_decided.side", "Cylinder.NormalSDF.outward_decided.cap1", "Cylinder.NormalSDF.outward_decided.cap2",
		"Capsule.NormalSDF.outward_decided.side", "Capsule.NormalSDF.outward_decided.cap1", "Torus.NormalSDF.outward_decided.surface",
		"2d.Triangle.NormalSDF.outward_decided.edge", "2d.Capsule.NormalSDF.outward_decided.side"} {
		r.Require(k, 300*q)
	}
	// degenerate centres / symmetry axes actually visited
	for _, k := range []string{"Sphere.region.centre", "Capsule.region.core", "Torus.region.axis", "Torus.region.ring", "Cone.region.apex", "Cone.region.rim", "Cylinder.region.rim", "Rect.region.edge", "Rect.region.corner", "2d.Circle.region.centre"} {
		r.Require(k, 50*q)
	}
	r.Require("2d.Triangle.BarycentricSDF.nearest_ok", 20000*q)
	for _, m := range []string{"mesh3d", "mesh2d"} {
		r.Require(m+".SDF.distance_ok", 20000*q)
		r.Require(m+".SDF.sign_ok", 5000*q)
		r.Require(m+".SDF.sign_ok_inside", 1000*q)
		r.Require(m+".PointSDF.ok", 20000*q)
		r.Require(m+".FaceSDF.ok", 20000*q)
		r.Require(m+".NormalSDF.unit_ok", 20000*q)
		r.Require(m+".NormalSDF.face_normal_ok", 5000*q)
		r.Require(m+".NormalSDF.outward_ok", 2000*q)
		r.Require(m+".SDF.lipschitz_pairs_ok", 5000*q)
		r.Require(m+".queries.far", 2000*q)
		r.Require(m+".ColliderToSDF.distance_ok", 2000*q)
		r.Require(m+".ColliderToSDF.sign_ok", 1000*q)
		r.Require(m+".kind.soup", 50*q)
	}
	r.Require("mesh3d.kind.nested-shells", 50*q)
	r.Require("mesh3d.kind.marching-cubes", 50*q)
	r.Require("mesh2d.kind.nested-loops", 50*q)
	r.Require("Triangle.Dist.ok", 100000*q)
	r.Require("Triangle.Closest.ok", 100000*q)
	r.Require("Segment3.ok", 100000*q)
	r.Require("Segment2.ok", 20000*q)
	for _, t := range []string{"ProfileSDF", "ProfilePointSDF"} {
		r.Require(t+".SDF.distance_ok", 20000*q)
		r.Require(t+".SDF.sign_ok", 10000*q)
		r.Require(t+".SDF.lipschitz_pairs_ok", 20000*q)
	}
	r.Require("ProfilePointSDF.PointSDF.on_boundary_ok", 20000*q)
	r.Require("ProfilePointSDF.PointSDF.at_distance_ok", 20000*q)
	r.Require("ColliderToSDF.fields", 1000*q)
	r.Require("2d.ColliderToSDF.fields", 1000*q)
	r.Require("TransformSDF.fields", 1000*q)
	r.Require("2d.TransformSDF.fields", 1000*q)
	for _, p := range []string{"Sphere", "Rect", "Capsule", "Cylinder", "Cone", "Torus"} {
		r.Require("ColliderToSDF."+p+".SDF.distance_ok", 1000*q)
		r.Require("ColliderToSDF."+p+".SDF.sign_ok", 500*q)
	}
	for _, t := range []string{"Translate", "Scale", "Rotation", "Joined[Scale,Translate]", "Joined[Translate,Rotation,Scale]"} {
		r.Require("TransformSDF."+t+".SDF.distance_ok", 2000*q)
		r.Require("2d.TransformSDF."+t+".SDF.distance_ok", 2000*q)
	}
}
