package main

import (
	"fmt"
	"math"
	"math/rand"

	"github.com/unixpickle/model3d/model3d"
	"verif/vlib"
	g "verif/vlib/c06ref"
)

// ---------------------------------------------------------------------------
// parameter generators

// aspect returns a ratio; a quarter of the draws are needle/flat (1e-3..1e3).
func aspect(rng *rand.Rand) float64 {
	if rng.Intn(4) == 0 {
		return math.Pow(10, -3+6*rng.Float64())
	}
	return math.Pow(10, -0.7+1.4*rng.Float64())
}

// dyadic returns k/8 with k in [lo*8, hi*8].
func dyadic(rng *rand.Rand, lo, hi float64) float64 {
	a, b := int(lo*8), int(hi*8)
	return float64(a+rng.Intn(b-a+1)) / 8
}

type frame3 struct {
	exact bool
	scale float64
	c     C3 // centre / first point
	dir   C3 // unit axis
}

func newFrame3(rng *rand.Rand) frame3 {
	f := frame3{}
	if rng.Intn(3) == 0 {
		f.exact = true
		f.scale = 1
		f.c = g.V3(dyadic(rng, -2, 2), dyadic(rng, -2, 2), dyadic(rng, -2, 2))
		var a [3]float64
		a[rng.Intn(3)] = float64(1 - 2*rng.Intn(2))
		f.dir = g.V3(a[0], a[1], a[2])
		return f
	}
	f.scale = math.Pow(10, -2+4*rng.Float64())
	f.c = g.Scale3(g.V3(rng.Float64()*6-3, rng.Float64()*6-3, rng.Float64()*6-3), f.scale)
	if rng.Intn(5) == 0 { // exactly axis aligned but otherwise random
		var a [3]float64
		a[rng.Intn(3)] = float64(1 - 2*rng.Intn(2))
		f.dir = g.V3(a[0], a[1], a[2])
	} else {
		f.dir = g.RandUnit3(rng)
	}
	return f
}

func (f frame3) length(rng *rand.Rand) float64 {
	if f.exact {
		return dyadic(rng, 0.25, 4)
	}
	return f.scale * (0.3 + 2*rng.Float64())
}

func (f frame3) radius(rng *rand.Rand, l float64) float64 {
	if f.exact {
		return dyadic(rng, 0.125, 3)
	}
	return l * aspect(rng)
}

func genSphere(rng *rand.Rand) *subject3 {
	f := newFrame3(rng)
	r := f.length(rng)
	lib := &model3d.Sphere{Center: f.c, Radius: r}
	return &subject3{api: "model3d.Sphere", tag: "Sphere", sdf: lib, point: lib, normal: lib, solid: lib,
		ref: g.RefSphere{C: f.c, R: r}}
}

func genRect(rng *rand.Rand) *subject3 {
	f := newFrame3(rng)
	var ext C3
	if f.exact {
		ext = g.V3(dyadic(rng, 0.125, 4), dyadic(rng, 0.125, 4), dyadic(rng, 0.125, 4))
	} else {
		ext = g.Scale3(g.V3(aspect(rng), aspect(rng), aspect(rng)), f.scale)
	}
	mn, mx := f.c, g.Add3(f.c, ext)
	lib := model3d.NewRect(mn, mx)
	return &subject3{api: "model3d.Rect", tag: "Rect", sdf: lib, point: lib, normal: lib, solid: lib,
		ref: g.RefBox{Min: mn, Max: mx}}
}

func genCapsule(rng *rand.Rand) *subject3 {
	f := newFrame3(rng)
	l := f.length(rng)
	r := f.radius(rng, l)
	p2 := g.Add3(f.c, g.Scale3(f.dir, l))
	lib := &model3d.Capsule{P1: f.c, P2: p2, Radius: r}
	return &subject3{api: "model3d.Capsule", tag: "Capsule", sdf: lib, point: lib, normal: lib, solid: lib,
		ref: g.RefCapsule{P1: f.c, P2: p2, R: r}}
}

func genCylinder(rng *rand.Rand) *subject3 {
	f := newFrame3(rng)
	l := f.length(rng)
	r := f.radius(rng, l)
	p2 := g.Add3(f.c, g.Scale3(f.dir, l))
	lib := &model3d.Cylinder{P1: f.c, P2: p2, Radius: r}
	return &subject3{api: "model3d.Cylinder", tag: "Cylinder", sdf: lib, point: lib, normal: lib, solid: lib,
		ref: g.RefCylinder{P1: f.c, P2: p2, R: r}}
}

func genCone(rng *rand.Rand) *subject3 {
	f := newFrame3(rng)
	l := f.length(rng)
	r := f.radius(rng, l)
	tip := g.Add3(f.c, g.Scale3(f.dir, l))
	lib := &model3d.Cone{Tip: tip, Base: f.c, Radius: r}
	ref := g.RefCone{Tip: tip, Base: f.c, R: r}
	s := &subject3{api: "model3d.Cone", tag: "Cone", sdf: lib, point: lib, normal: lib, solid: lib, ref: ref}
	s.extra = coneAxisSlack(ref)
	s.zoneKey = ".SDF/distance-near-axis"
	return s
}

// coneAxisSlack: Cone.genericSDF picks the azimuth of the slant line with
// safeNormal(p-Base, fallback, axis). p-Base is not orthogonal to the axis, so
// the 1e-5 guard inside safeNormal replaces the azimuth by a fixed fallback
// for every query within 1e-5 rad of the axis as seen from Base. Inside that
// zone (off the axis) the library measures the distance in a rotated half
// plane, i.e. at a point up to 2*rho away. This is reported ONCE, under
// model3d.Cone.SDF/distance-near-axis (see FINDINGS.md); every other clause
// and every field derived from a cone is granted 2*rho so that the same root
// cause does not fire under ten keys.
func coneAxisSlack(ref g.RefCone) func(p C3, refSD float64) float64 {
	return func(p C3, refSD float64) float64 {
		rho, _ := ref.Cyl(p)
		if rho > 0 && rho < 3e-5*g.Dist3(p, ref.Base) {
			return 2 * rho
		}
		return 0
	}
}

func genTorus(rng *rand.Rand) *subject3 {
	f := newFrame3(rng)
	ro := f.length(rng)
	var ri float64
	if f.exact {
		ri = ro * dyadic(rng, 0.125, 0.875)
	} else if rng.Intn(4) == 0 {
		if rng.Intn(2) == 0 {
			ri = ro * math.Pow(10, -3+2*rng.Float64()) // thin ring
		} else {
			ri = ro * (1 - math.Pow(10, -3+2*rng.Float64())) // nearly closed hole
		}
	} else {
		ri = ro * (0.1 + 0.8*rng.Float64())
	}
	axis := f.dir
	if !f.exact && rng.Intn(2) == 0 {
		axis = g.Scale3(axis, math.Pow(10, -2+4*rng.Float64())) // the axis is not documented to be unit
	}
	lib := &model3d.Torus{Center: f.c, Axis: axis, OuterRadius: ro, InnerRadius: ri}
	return &subject3{api: "model3d.Torus", tag: "Torus", sdf: lib, point: lib, normal: lib, solid: lib,
		ref: g.RefTorus{C: f.c, Axis: axis, Ro: ro, Ri: ri}}
}

var gens3 = []struct {
	name string
	gen  func(*rand.Rand) *subject3
}{
	{"Sphere", genSphere}, {"Rect", genRect}, {"Capsule", genCapsule},
	{"Cylinder", genCylinder}, {"Cone", genCone}, {"Torus", genTorus},
}

func finish3(s *subject3) *subject3 {
	s.params = s.ref.Describe()
	return s
}

func primitives3(r *vlib.Run) {
	for _, gn := range gens3 {
		gn := gn
		r.Section("prim3d."+gn.name, r.N(3000, 40000), vlib.SectionOpts{}, func(c *vlib.Case) {
			s := finish3(gn.gen(c.Rng))
			c.Count(s.tag+".shapes", 1)
			if c.Index < 1 {
				c.Sample("shape3d", 8, s.params)
			}
			runSubject3(c, s, 48)
			// the same field handed over as plain functions (FuncSDF / FuncPointSDF): same answers,
			// the bounds that were passed in
			if c.Index%8 == 3 {
				lib := s.sdf
				pt := s.point
				mn, mx := lib.Min(), lib.Max()
				var w model3d.SDF = model3d.FuncSDF(mn, mx, lib.SDF)
				ws := &subject3{api: "model3d.FuncSDF[" + gn.name + "]", tag: "FuncSDF", sdf: w, ref: s.ref, params: s.params, quiet: true, baseOK: baseAgrees(s)}
				if pt != nil && c.Index%16 == 3 {
					pw := model3d.FuncPointSDF(mn, mx, pt.PointSDF)
					ws = &subject3{api: "model3d.FuncPointSDF[" + gn.name + "]", tag: "FuncPointSDF", sdf: pw, point: pw, ref: s.ref, params: s.params, quiet: true, baseOK: baseAgrees(s)}
					w = pw
				}
				if w.Min() != mn || w.Max() != mx {
					c.Violation(ws.api+".Min/Max/as-given", fmt.Sprintf("bounds %v..%v, constructed with %v..%v", w.Min(), w.Max(), mn, mx), nil)
				}
				c.Count("FuncSDF.wrappers", 1)
				runSubject3(c, ws, 12)
			}
		})
	}
}

// baseAgrees builds the baseOK hook of a field derived from base: the base
// library field must match the base reference at the query.
func baseAgrees(base *subject3) func(p C3) bool {
	base.init()
	return func(p C3) bool {
		want := base.ref.Eval(p).SD
		got := base.sdf.SDF(p)
		tol := relTol*math.Abs(want) + absTolK*(base.scale+g.MaxAbs3(p))
		if base.extra != nil {
			tol += base.extra(p, want)
		}
		return fin(got) && math.Abs(got-want) <= tol
	}
}

// ---------------------------------------------------------------------------
// collider-derived fields

func colliderDerived3(r *vlib.Run) {
	r.Section("collider3d", r.N(4000, 50000), vlib.SectionOpts{}, func(c *vlib.Case) {
		rng := c.Rng
		gn := gens3[rng.Intn(len(gens3))]
		base := finish3(gn.gen(rng))
		coll, ok := base.sdf.(model3d.Collider)
		if !ok {
			panic("primitive is not a collider")
		}
		iters := []int{0, 12, 20, 32, 48}[rng.Intn(5)]
		eff := iters
		if eff == 0 {
			eff = 32
		}
		s := &subject3{
			api: "model3d.ColliderToSDF[" + gn.name + "]", tag: "ColliderToSDF." + gn.name,
			sdf: model3d.ColliderToSDF(coll, iters), ref: base.ref, params: base.params, quiet: true, baseOK: baseAgrees(base),
		}
		s.params["iterations"] = fmt.Sprint(iters)
		res := math.Pow(2, -float64(eff))
		baseExtra := base.extra
		s.extra = func(p C3, refSD float64) float64 {
			e := 2 * res * math.Max(math.Abs(refSD), 1)
			if baseExtra != nil {
				e += baseExtra(p, refSD)
			}
			return e
		}
		lim := math.Pow(2, float64(eff-2))
		s.skip = func(p C3, refSD float64) string {
			if a := math.Abs(refSD); a > lim || (a < 1/lim && eff < 32) {
				return "collider:distance-outside-bisection-range"
			}
			return ""
		}
		c.Count("ColliderToSDF.fields", 1)
		runSubject3(c, s, 16)
	})
}

// ---------------------------------------------------------------------------
// transform-derived fields

func transformDerived3(r *vlib.Run) {
	r.Section("transform3d", r.N(4000, 50000), vlib.SectionOpts{}, func(c *vlib.Case) {
		rng := c.Rng
		gn := gens3[rng.Intn(len(gens3))]
		base := finish3(gn.gen(rng))
		base.init()
		sc := base.ref.Size()
		var t model3d.DistTransform
		var name string
		k := 1.0
		var own *g.RefSimilar3 // own model where the transform's meaning is unambiguous
		mkScale := func() float64 { return math.Pow(2, float64(rng.Intn(7)-3)) * (1 + float64(rng.Intn(2))*rng.Float64()) }
		off := g.Scale3(g.V3(rng.Float64()*4-2, rng.Float64()*4-2, rng.Float64()*4-2), sc)
		switch rng.Intn(5) {
		case 0:
			t, name = &model3d.Translate{Offset: off}, "Translate"
			own = &g.RefSimilar3{Inner: base.ref, Scale: 1, Shift: off}
		case 1:
			k = mkScale()
			t, name = &model3d.Scale{Scale: k}, "Scale"
			own = &g.RefSimilar3{Inner: base.ref, Scale: k}
		case 2:
			t, name = model3d.Rotation(g.RandUnit3(rng), rng.Float64()*2*math.Pi-math.Pi), "Rotation"
		case 3:
			k = mkScale()
			t, name = model3d.JoinedTransform{&model3d.Scale{Scale: k}, &model3d.Translate{Offset: off}}, "Joined[Scale,Translate]"
			own = &g.RefSimilar3{Inner: base.ref, Scale: k, Shift: off}
		default:
			k = mkScale()
			t, name = model3d.JoinedTransform{&model3d.Translate{Offset: off}, model3d.Rotation(g.RandUnit3(rng), rng.Float64()*6), &model3d.Scale{Scale: k}}, "Joined[Translate,Rotation,Scale]"
		}
		field := model3d.TransformSDF(t, base.sdf)
		params := map[string]string{"transform": name, "scale": g.Hex(k), "offset": hx(off)}
		for kk, v := range base.params {
			params[kk] = v
		}
		// (a) image of the shape under the library's own Apply
		baseExtra := base.extra
		s := &subject3{
			api: "model3d.TransformSDF[" + name + "]", tag: "TransformSDF." + name,
			sdf: field, ref: base.ref, params: params, mapQuery: t.Apply, distScale: k, quiet: true, baseOK: baseAgrees(base),
		}
		if baseExtra != nil {
			s.extra = func(p C3, refSD float64) float64 { return k * baseExtra(p, refSD/k) }
		}
		c.Count("TransformSDF.fields", 1)
		c.Count("TransformSDF.of."+gn.name, 1)
		runSubject3(c, s, 12)
		// (b) own model of translate/scale
		if own != nil {
			inner := *own
			ok := baseAgrees(base)
			s2 := &subject3{api: s.api, tag: s.tag + ".ownmodel", sdf: field, ref: *own, params: params, quiet: true,
				baseOK: func(p C3) bool { return ok(g.Scale3(g.Sub3(p, inner.Shift), 1/inner.Scale)) }}
			if baseExtra != nil {
				s2.extra = func(p C3, refSD float64) float64 {
					q := g.Scale3(g.Sub3(p, inner.Shift), 1/inner.Scale)
					return k * baseExtra(q, refSD/k)
				}
			}
			runSubject3(c, s2, 8)
		}
	})
}
