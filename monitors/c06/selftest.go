package main

import (
	"fmt"
	"math"
	"sync/atomic"

	"verif/vlib"
	g "verif/vlib/c06ref"
)

// selfTest validates the reference geometry against the shapes' boundary
// parametrisations (which share no code with Eval): every parametrised
// boundary point has reference distance ~0, no boundary sample is closer to a
// query than |SD|, the reference nearest point is itself on the boundary at
// distance |SD|, and the best of many samples approaches |SD| from above. A
// failure is a bug of the monitor, not of the library: it makes the run
// inconclusive instead of raising a violation.
func selfTest(r *vlib.Run) {
	var fails int64
	fail := func(c *vlib.Case, what string, params map[string]string) {
		atomic.AddInt64(&fails, 1)
		c.Count("oracle.selftest_failed", 1)
		c.Sample("oracle-selftest-failure", 4, map[string]interface{}{"what": what, "shape": params})
	}
	r.Section("oracle.selftest3d", r.N(600, 6000), vlib.SectionOpts{}, func(c *vlib.Case) {
		rng := c.Rng
		var ref g.RefShape3
		if rng.Intn(4) == 0 {
			b := gens2[rng.Intn(len(gens2))].gen(rng)
			z := rng.Float64()*2 - 1
			ref = g.RefProfile{Base: b.ref, MinZ: z, MaxZ: z + b.ref.Size()*aspect(rng)}
		} else {
			ref = gens3[rng.Intn(len(gens3))].gen(rng).ref
		}
		size := ref.Size()
		lo, hi := ref.Bounds()
		M := size + g.MaxAbs3(lo) + g.MaxAbs3(hi)
		const K = 300
		bs := make([]C3, K)
		for i := range bs {
			bs[i] = ref.Boundary(rng)
			if sd := ref.Eval(bs[i]).SD; !(math.Abs(sd) <= 1e-9*M) {
				fail(c, fmt.Sprintf("parametrised boundary point has reference SD %.3g", sd), ref.Describe())
				return
			}
		}
		for qi := 0; qi < 6; qi++ {
			p, _ := query3(rng, ref)
			e := ref.Eval(p)
			tol := 1e-9*(M+g.MaxAbs3(p)) + 1e-9*math.Abs(e.SD)
			best := math.Inf(1)
			for _, b := range bs {
				d := g.Dist3(p, b)
				if d < best {
					best = d
				}
			}
			if best < math.Abs(e.SD)-tol {
				fail(c, fmt.Sprintf("a boundary sample is at %.17g < |SD| = %.17g (%s)", best, math.Abs(e.SD), e.Region), ref.Describe())
				return
			}
			if d := math.Abs(ref.Eval(e.Near).SD); d > tol*10 {
				fail(c, fmt.Sprintf("reference nearest point is %.3g off the boundary (%s)", d, e.Region), ref.Describe())
				return
			}
			if d := g.Dist3(p, e.Near); math.Abs(d-math.Abs(e.SD)) > tol*10 {
				fail(c, fmt.Sprintf("reference nearest point at %.17g, |SD| = %.17g (%s)", d, math.Abs(e.SD), e.Region), ref.Describe())
				return
			}
			if e.Smooth && math.Abs(g.Len3(e.Normal)-1) > 1e-12 {
				fail(c, "reference normal not unit", ref.Describe())
				return
			}
			c.Max("oracle.selftest_sampling_gap_over_size", (best-math.Abs(e.SD))/size)
			c.Count("oracle.selftest3d_queries_ok", 1)
		}
	})
	r.Section("oracle.selftest2d", r.N(600, 6000), vlib.SectionOpts{}, func(c *vlib.Case) {
		rng := c.Rng
		ref := gens2[rng.Intn(len(gens2))].gen(rng).ref
		size := ref.Size()
		lo, hi := ref.Bounds()
		M := size + g.MaxAbs2(lo) + g.MaxAbs2(hi)
		const K = 400
		bs := make([]C2, K)
		for i := range bs {
			bs[i] = ref.Boundary(rng)
			if sd := ref.Eval(bs[i]).SD; !(math.Abs(sd) <= 1e-9*M) {
				fail(c, fmt.Sprintf("parametrised boundary point has reference SD %.3g", sd), ref.Describe())
				return
			}
		}
		for qi := 0; qi < 6; qi++ {
			p, _ := query2(rng, ref)
			e := ref.Eval(p)
			tol := 1e-9*(M+g.MaxAbs2(p)) + 1e-9*math.Abs(e.SD)
			best := math.Inf(1)
			for _, b := range bs {
				if d := g.Dist2(p, b); d < best {
					best = d
				}
			}
			if best < math.Abs(e.SD)-tol {
				fail(c, fmt.Sprintf("a boundary sample is at %.17g < |SD| = %.17g (%s)", best, math.Abs(e.SD), e.Region), ref.Describe())
				return
			}
			if d := math.Abs(ref.Eval(e.Near).SD); d > tol*10 {
				fail(c, fmt.Sprintf("reference nearest point is %.3g off the boundary (%s)", d, e.Region), ref.Describe())
				return
			}
			if d := g.Dist2(p, e.Near); math.Abs(d-math.Abs(e.SD)) > tol*10 {
				fail(c, fmt.Sprintf("reference nearest point at %.17g, |SD| = %.17g (%s)", d, math.Abs(e.SD), e.Region), ref.Describe())
				return
			}
			// with 400 samples on a 1D boundary the best sample is close to the minimum
			if best-math.Abs(e.SD) > 0.2*size {
				fail(c, fmt.Sprintf("best of %d boundary samples is %.3g, |SD| = %.3g: reference distance too small?", K, best, math.Abs(e.SD)), ref.Describe())
				return
			}
			c.Count("oracle.selftest2d_queries_ok", 1)
		}
	})
	if atomic.LoadInt64(&fails) == 0 {
		r.Count("oracle.selftest_clean", 1)
	}
	r.Require("oracle.selftest_clean", 1)
	r.Require("oracle.selftest3d_queries_ok", 1000)
	r.Require("oracle.selftest2d_queries_ok", 1000)
}
