// Code generated from check3.go by gen_check2.py; DO NOT EDIT.

package main

import (
	"fmt"
	"math"
	"math/rand"

	"github.com/unixpickle/model3d/model2d"
	"verif/vlib"
	g "verif/vlib/c06ref"
)

type C2 = model2d.Coord

// subject2 binds one library object to its independent reference.
type subject2 struct {
	api    string // key prefix, e.g. "model2d.Cone"
	tag    string // counter prefix, e.g. "Cone"
	sdf    model2d.SDF
	point  model2d.PointSDF  // nil if the object has no PointSDF
	normal model2d.NormalSDF // nil if the object has no NormalSDF
	solid  model2d.Solid     // nil if the object has no Contains
	ref    g.RefShape2
	// extra returns an additional absolute distance tolerance at p (e.g. the
	// bisection resolution of ColliderToSDF), given the reference distance.
	extra func(p C2, refSD float64) float64
	// skip declines queries outside the documented/usable domain of the object.
	skip func(p C2, refSD float64) string
	// mapQuery maps a query of the reference frame into the object's frame
	// (TransformSDF: the library's own Apply defines the image); nil = identity.
	mapQuery func(p C2) C2
	// distScale multiplies reference distances (uniform scale of a transform).
	distScale float64
	params    map[string]string
	scale     float64 // cached coordinate scale M for absolute tolerances
	quiet     bool    // derived field: no per-region / per-kind counters
	// after runs extra API-specific clauses at a decided query.
	after func(c *vlib.Case, p C2, refSD, tol float64)
	// baseOK, for a derived field, reports whether the library's base field is
	// itself right at the (reference-frame) query; where it is not, the derived
	// clauses are not decided, so that a defect of a primitive is reported
	// under the primitive's keys only.
	baseOK func(p C2) bool
	// zoneKey, if set, is the clause under which a distance error is reported
	// that is only covered by the extra tolerance (a coded numerical guard of
	// the base shape that is itself a finding); derived fields leave it empty
	// so that one root cause is reported once.
	zoneKey string
}

func (s *subject2) init() {
	lo, hi := s.ref.Bounds()
	s.scale = math.Max(s.ref.Size(), math.Max(g.MaxAbs2(lo), g.MaxAbs2(hi)))
	if s.distScale == 0 {
		s.distScale = 1
	}
}

func fin2(c C2) bool   { return fin(c.X) && fin(c.Y) }
func hx2(c C2) string  { return fmt.Sprintf("(%x,%x)", c.X, c.Y) }
func dec2(c C2) string { return fmt.Sprintf("(%.17g,%.17g)", c.X, c.Y) }

func (s *subject2) witness(p C2, more map[string]interface{}) map[string]interface{} {
	w := map[string]interface{}{"api": s.api, "shape": s.params, "query_hex": hx2(p), "query": dec2(p)}
	for k, v := range more {
		w[k] = v
	}
	return w
}

// check2 evaluates every clause the subject supports at reference-frame query
// p0 and returns the library's SDF value (NaN if the query was skipped) and
// whether the distance clause held there.
func check2(c *vlib.Case, s *subject2, p0 C2, kind string) (float64, bool) {
	e := s.ref.Eval(p0)
	p := p0
	if s.mapQuery != nil {
		p = s.mapQuery(p0)
	}
	k := s.distScale
	refSD := e.SD * k
	if s.skip != nil {
		if why := s.skip(p0, refSD); why != "" {
			c.Undecided(why)
			return math.NaN(), false
		}
	}
	if !fin2(p) || !fin(refSD) {
		return math.NaN(), false
	}
	if s.baseOK != nil && !s.baseOK(p0) {
		c.Undecided("derived-field:base-field-already-wrong-at-this-query")
		return math.NaN(), false
	}
	abs := absTolK*s.scale*k + absTolK*g.MaxAbs2(p)
	extra := 0.0
	if s.extra != nil {
		extra = s.extra(p0, refSD)
	}
	tol := relTol*math.Abs(refSD) + abs + extra
	if !s.quiet {
		c.Count(s.tag+".queries."+kind, 1)
		c.Count(s.tag+".region."+e.Region, 1)
	}

	// --- SDF: magnitude and sign
	sd := s.sdf.SDF(p)
	c.Count(s.tag+".SDF.calls", 1)
	if !fin(sd) {
		c.Violation(s.api+".SDF/finite", fmt.Sprintf("SDF returned %v, reference %.17g", sd, refSD), s.witness(p, nil))
		return sd, false
	}
	distOK := true
	if diff := math.Abs(math.Abs(sd) - math.Abs(refSD)); diff > tol {
		distOK = false
		c.Violation(s.api+".SDF/distance", fmt.Sprintf("|SDF|=%.17g but the Euclidean distance to the boundary is %.17g (diff %.3g > tol %.3g, nearest piece %s)", math.Abs(sd), math.Abs(refSD), diff, tol, e.Region),
			s.witness(p, map[string]interface{}{"sdf": g.Hex(sd), "reference": g.Hex(refSD), "region": e.Region}))
	} else {
		c.Count(s.tag+".SDF.distance_ok", 1)
		if base := relTol*math.Abs(refSD) + abs; diff <= base {
			c.Max(s.tag+".worst_distance_error_over_tolerance", diff/base)
		} else {
			c.Count(s.tag+".SDF.distance_ok_only_with_extra_tolerance", 1)
			if s.zoneKey != "" {
				c.Violation(s.api+s.zoneKey, fmt.Sprintf("|SDF|=%.17g but the Euclidean distance to the boundary is %.17g (relative error %.3g; nearest piece %s)", math.Abs(sd), math.Abs(refSD), diff/math.Abs(refSD), e.Region),
					s.witness(p, map[string]interface{}{"sdf": g.Hex(sd), "reference": g.Hex(refSD), "region": e.Region}))
			}
		}
	}
	signDecided := math.Abs(refSD) > 2*tol
	if signDecided {
		if (sd > 0) != (refSD > 0) {
			c.Violation(s.api+".SDF/sign", fmt.Sprintf("SDF=%.17g but the reference signed distance is %.17g (point is %s the shape)", sd, refSD, inout(refSD > 0)),
				s.witness(p, map[string]interface{}{"sdf": g.Hex(sd), "reference": g.Hex(refSD)}))
		} else {
			c.Count(s.tag+".SDF.sign_ok", 1)
		}
		// a field is also a Bounder: every point of the shape's interior lies in the reported box
		if refSD > 0 {
			mn, mx := s.sdf.Min(), s.sdf.Max()
			c.Count(s.tag+".bounds.interior_points", 1)
			if p.X < mn.X-tol || p.Y < mn.Y-tol || p.X > mx.X+tol || p.Y > mx.Y+tol {
				c.Violation(s.api+".Min/Max/bounds-contain-interior", fmt.Sprintf("a point %.3g inside the shape lies outside the reported bounds %v..%v", refSD, mn, mx), s.witness(p, nil))
			}
		}
	} else {
		c.Undecided("sign:reference-within-tolerance-of-boundary")
	}

	// --- Contains vs reference membership and vs sign(SDF)
	if s.solid != nil {
		in := s.solid.Contains(p)
		c.Count(s.tag+".Contains.calls", 1)
		if signDecided {
			if in != (refSD > 0) {
				c.Violation(s.api+".Contains/reference-membership", fmt.Sprintf("Contains=%v but reference signed distance is %.17g", in, refSD), s.witness(p, nil))
			} else if in != (sd > 0) {
				c.Violation(s.api+".SDF/sign-vs-Contains", fmt.Sprintf("Contains=%v but SDF=%.17g", in, sd), s.witness(p, nil))
			} else {
				c.Count(s.tag+".Contains.agrees", 1)
			}
		}
	}

	// --- PointSDF: nearest point on the boundary, at the reported distance
	if s.point != nil {
		q, sd2 := s.point.PointSDF(p)
		c.Count(s.tag+".PointSDF.calls", 1)
		switch {
		case !fin2(q) || !fin(sd2):
			c.Violation(s.api+".PointSDF/finite", fmt.Sprintf("PointSDF returned %v, %v", q, sd2), s.witness(p, nil))
		default:
			if math.Abs(sd2-sd) > tol {
				c.Violation(s.api+".PointSDF/same-distance-as-SDF", fmt.Sprintf("PointSDF distance %.17g differs from SDF %.17g", sd2, sd), s.witness(p, nil))
			}
			// on the boundary: reference |SD| at the returned point
			var onB float64
			if s.mapQuery == nil {
				onB = math.Abs(s.ref.Eval(q).SD) * k
			} else {
				onB = math.NaN() // decided through the inverse image below
			}
			dq := g.Dist2(p, q)
			if s.mapQuery == nil {
				if onB > tol {
					c.Violation(s.api+".PointSDF/point-on-boundary", fmt.Sprintf("returned nearest point is %.3g away from the boundary (tol %.3g); query region %s", onB, tol, e.Region),
						s.witness(p, map[string]interface{}{"point_hex": hx2(q), "point": dec2(q), "reference_nearest": dec2(e.Near)}))
				} else {
					c.Count(s.tag+".PointSDF.on_boundary_ok", 1)
				}
			}
			if diff := math.Abs(dq - math.Abs(refSD)); diff > tol {
				c.Violation(s.api+".PointSDF/point-at-distance", fmt.Sprintf("returned point is at distance %.17g from the query but the distance to the boundary is %.17g (region %s)", dq, math.Abs(refSD), e.Region),
					s.witness(p, map[string]interface{}{"point_hex": hx2(q), "point": dec2(q), "reference_nearest": dec2(e.Near)}))
			} else {
				c.Count(s.tag+".PointSDF.at_distance_ok", 1)
			}
		}
	}

	// --- NormalSDF: unit, outward normal where the boundary is smooth
	if s.normal != nil {
		n, sd3 := s.normal.NormalSDF(p)
		c.Count(s.tag+".NormalSDF.calls", 1)
		switch {
		case !fin2(n) || !fin(sd3):
			c.Violation(s.api+".NormalSDF/finite", fmt.Sprintf("NormalSDF returned %v, %v", n, sd3), s.witness(p, nil))
		default:
			if math.Abs(sd3-sd) > tol {
				c.Violation(s.api+".NormalSDF/same-distance-as-SDF", fmt.Sprintf("NormalSDF distance %.17g differs from SDF %.17g", sd3, sd), s.witness(p, nil))
			}
			if l := g.Len2(n); math.Abs(l-1) > unitTol {
				c.Violation(s.api+".NormalSDF/unit", fmt.Sprintf("normal %v has length %.17g (region %s)", n, l, e.Region), s.witness(p, nil))
			} else {
				c.Count(s.tag+".NormalSDF.unit_ok", 1)
			}
			if s.mapQuery == nil {
				checkNormal2(c, s, p, e, n)
			}
		}
	}
	if s.after != nil {
		s.after(c, p, refSD, tol)
	}
	return sd, distOK
}

// checkNormal2 decides the outward-normal clause only where the reference
// says the nearest point is stably on one smooth piece, and only if the
// closed-form reference normal agrees with -grad of the reference distance by
// central differences (self-check of the oracle).
func checkNormal2(c *vlib.Case, s *subject2, p C2, e g.RefEval2, n C2) {
	delta := 1e-3 * s.ref.Feature()
	if !g.StableSmooth2(s.ref, p, e, delta) {
		c.Undecided("normal:nearest-point-not-stably-smooth(" + e.Region + ")")
		return
	}
	h := delta * 1e-3
	if hmin := 1e-7 * (s.scale + g.MaxAbs2(p)); h < hmin {
		h = hmin
	}
	if h > delta/4 {
		c.Undecided("normal:finite-difference-step-too-coarse")
		return
	}
	grad := g.GradRef2(s.ref, p, h)
	if g.Len2(g.Add2(grad, e.Normal)) > 1e-4 {
		c.Undecided("normal:oracle-self-check(closed-form vs finite differences)")
		c.Count("oracle.normal_selfcheck_failed."+s.tag, 1)
		return
	}
	c.Count("oracle.normal_selfcheck_ok", 1)
	c.Count(s.tag+".NormalSDF.outward_decided", 1)
	if !s.quiet {
		c.Count(s.tag+".NormalSDF.outward_decided."+e.Region, 1)
	}
	if d := g.Len2(g.Sub2(n, e.Normal)); d > normalTol {
		c.Violation(s.api+".NormalSDF/outward-normal", fmt.Sprintf("normal %v differs from the outward unit normal %v of the %s at the nearest point by %.3g (= -grad of the distance field by central differences: %v)", n, e.Normal, e.Region, d, g.Scale2(grad, -1)),
			s.witness(p, map[string]interface{}{"normal_hex": hx2(n), "reference_normal": dec2(e.Normal), "region": e.Region}))
	} else {
		c.Count(s.tag+".NormalSDF.outward_ok", 1)
		if !s.quiet {
			c.Count(s.tag+".NormalSDF.outward_ok."+e.Region, 1)
		}
	}
}

// boundaryBound2 is the reference-free half of "exhaustive minimum": no
// boundary point (taken from the parametrisation) may be closer than |SDF|,
// and the field vanishes on boundary points.
func boundaryBound2(c *vlib.Case, s *subject2, p C2, sd float64, rng *rand.Rand, n int) {
	if s.mapQuery != nil || !fin(sd) {
		return
	}
	refSD := s.ref.Eval(p).SD
	extra := 0.0
	if s.extra != nil {
		extra = s.extra(p, refSD)
	}
	for i := 0; i < n; i++ {
		b := s.ref.Boundary(rng)
		d := g.Dist2(p, b)
		tol := relTol*d + absTolK*(s.scale+g.MaxAbs2(p)) + extra
		if math.Abs(sd) > d+tol {
			c.Violation(s.api+".SDF/not-above-distance-to-a-boundary-point", fmt.Sprintf("|SDF|=%.17g exceeds the distance %.17g to the boundary point %v", math.Abs(sd), d, b),
				s.witness(p, map[string]interface{}{"boundary_point": dec2(b)}))
			return
		}
	}
	c.Count(s.tag+".SDF.boundary_samples_ok", int64(n))
}

// lipschitz2 checks |f(a)-f(b)| <= |a-b| (reference-free).
func lipschitz2(c *vlib.Case, s *subject2, a, b C2, fa, fb float64) {
	if !fin(fa) || !fin(fb) {
		return
	}
	ex := 0.0
	if s.extra != nil {
		ex = s.extra(a, fa) + s.extra(b, fb)
	}
	if s.mapQuery != nil {
		a, b = s.mapQuery(a), s.mapQuery(b)
	}
	d := g.Dist2(a, b)
	tol := 1e-9*d + 2*absTolK*(s.scale*s.distScale+g.MaxAbs2(a)+g.MaxAbs2(b)) + relTol*(math.Abs(fa)+math.Abs(fb)) + ex
	if math.Abs(fa-fb) > d+tol {
		c.Violation(s.api+".SDF/1-Lipschitz", fmt.Sprintf("SDF changes by %.17g between two points only %.17g apart", math.Abs(fa-fb), d),
			s.witness(a, map[string]interface{}{"second_query_hex": hx2(b), "second_query": dec2(b), "sdf_a": g.Hex(fa), "sdf_b": g.Hex(fb)}))
	} else {
		c.Count(s.tag+".SDF.lipschitz_pairs_ok", 1)
	}
}

// query2 draws a hostile query point for the subject.
func query2(rng *rand.Rand, ref g.RefShape2) (C2, string) {
	lo, hi := ref.Bounds()
	size := ref.Size()
	switch rng.Intn(10) {
	case 0, 1: // anywhere in the (enlarged) bounding box
		f := 0.25 + rng.Float64()
		ext := g.Scale2(g.Sub2(hi, lo), f)
		mn := g.Sub2(lo, ext)
		d := g.Add2(g.Sub2(hi, lo), g.Scale2(ext, 2))
		return g.V2(mn.X+d.X*rng.Float64(), mn.Y+d.Y*rng.Float64()), "box"
	case 2, 3: // inside the tight box
		d := g.Sub2(hi, lo)
		return g.V2(lo.X+d.X*rng.Float64(), lo.Y+d.Y*rng.Float64()), "inner"
	case 4, 5: // near the boundary, both sides, over many orders of magnitude
		b := ref.Boundary(rng)
		return g.Add2(b, g.Scale2(g.RandUnit2(rng), size*math.Pow(10, -12+11.5*rng.Float64()))), "near-boundary"
	case 6: // exactly a parametrised boundary point
		return ref.Boundary(rng), "on-boundary"
	case 7: // special: axes, centres, apex, rims
		return ref.Special(rng), "special"
	case 8: // special, nudged
		return g.Add2(ref.Special(rng), g.Scale2(g.RandUnit2(rng), size*math.Pow(10, -14+12*rng.Float64()))), "special-nudged"
	default: // far away
		c := g.Lerp2(lo, hi, 0.5)
		return g.Add2(c, g.Scale2(g.RandUnit2(rng), size*math.Pow(10, 0.3+2.7*rng.Float64()))), "far"
	}
}

// runSubject2 is the standard per-subject workload.
func runSubject2(c *vlib.Case, s *subject2, nq int) {
	rng := c.Rng
	s.init()
	var prev C2
	var prevSD float64
	havePrev := false
	regions := map[string]bool{}
	for i := 0; i < nq; i++ {
		p, kind := query2(rng, s.ref)
		sd, ok := check2(c, s, p, kind)
		if math.IsNaN(sd) {
			continue
		}
		regions[s.ref.Eval(p).Region] = true
		if !ok {
			// already reported against the reference; the reference-free
			// clauses below would only repeat it under more keys
			havePrev = false
			continue
		}
		boundaryBound2(c, s, p, sd, rng, 3)
		// Lipschitz: against the previous query and against a close neighbour
		if havePrev {
			lipschitz2(c, s, prev, p, prevSD, sd)
		}
		step := s.ref.Size() * math.Pow(10, -9+8*rng.Float64())
		p2 := g.Add2(p, g.Scale2(g.RandUnit2(rng), step))
		q2 := p2
		if s.mapQuery != nil {
			q2 = s.mapQuery(p2)
		}
		if (s.skip == nil || s.skip(p2, s.ref.Eval(p2).SD*s.distScale) == "") && (s.baseOK == nil || s.baseOK(p2)) {
			lipschitz2(c, s, p, p2, sd, s.sdf.SDF(q2))
		}
		prev, prevSD, havePrev = p, sd, true
	}
	if len(regions) >= 2 {
		c.Nontrivial(fmt.Sprint(s.api, s.params))
	}
}
