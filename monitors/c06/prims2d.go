package main

import (
	"fmt"
	"math"
	"math/rand"

	"github.com/unixpickle/model3d/model2d"
	"verif/vlib"
	g "verif/vlib/c06ref"
)

type frame2 struct {
	exact bool
	scale float64
	c     C2
	dir   C2
}

func newFrame2(rng *rand.Rand) frame2 {
	f := frame2{}
	axisDir := func() C2 {
		if rng.Intn(2) == 0 {
			return g.V2(float64(1-2*rng.Intn(2)), 0)
		}
		return g.V2(0, float64(1-2*rng.Intn(2)))
	}
	if rng.Intn(3) == 0 {
		f.exact = true
		f.scale = 1
		f.c = g.V2(dyadic(rng, -2, 2), dyadic(rng, -2, 2))
		f.dir = axisDir()
		return f
	}
	f.scale = math.Pow(10, -2+4*rng.Float64())
	f.c = g.Scale2(g.V2(rng.Float64()*6-3, rng.Float64()*6-3), f.scale)
	if rng.Intn(5) == 0 {
		f.dir = axisDir()
	} else {
		f.dir = g.RandUnit2(rng)
	}
	return f
}

func (f frame2) length(rng *rand.Rand) float64 {
	if f.exact {
		return dyadic(rng, 0.25, 4)
	}
	return f.scale * (0.3 + 2*rng.Float64())
}

func genCircle(rng *rand.Rand) *subject2 {
	f := newFrame2(rng)
	r := f.length(rng)
	lib := &model2d.Circle{Center: f.c, Radius: r}
	return &subject2{api: "model2d.Circle", tag: "2d.Circle", sdf: lib, point: lib, normal: lib, solid: lib,
		ref: g.RefCircle{C: f.c, R: r}}
}

func genRect2(rng *rand.Rand) *subject2 {
	f := newFrame2(rng)
	var ext C2
	if f.exact {
		ext = g.V2(dyadic(rng, 0.125, 4), dyadic(rng, 0.125, 4))
	} else {
		ext = g.Scale2(g.V2(aspect(rng), aspect(rng)), f.scale)
	}
	mn, mx := f.c, g.Add2(f.c, ext)
	lib := model2d.NewRect(mn, mx)
	return &subject2{api: "model2d.Rect", tag: "2d.Rect", sdf: lib, point: lib, normal: lib, solid: lib,
		ref: g.RefRect2{Min: mn, Max: mx}}
}

func genCapsule2(rng *rand.Rand) *subject2 {
	f := newFrame2(rng)
	l := f.length(rng)
	var r float64
	if f.exact {
		r = dyadic(rng, 0.125, 3)
	} else {
		r = l * aspect(rng)
	}
	p2 := g.Add2(f.c, g.Scale2(f.dir, l))
	lib := &model2d.Capsule{P1: f.c, P2: p2, Radius: r}
	return &subject2{api: "model2d.Capsule", tag: "2d.Capsule", sdf: lib, point: lib, normal: lib, solid: lib,
		ref: g.RefCapsule2{P1: f.c, P2: p2, R: r}}
}

// triangle2 draws a non-degenerate triangle (doubled area >= 2e-3 * longest
// edge squared: the documentation leaves degenerate triangles undefined).
func triangle2(rng *rand.Rand) (a, b, c C2) {
	f := newFrame2(rng)
	for {
		if f.exact {
			a = g.V2(dyadic(rng, -2, 2), dyadic(rng, -2, 2))
			b = g.V2(dyadic(rng, -2, 2), dyadic(rng, -2, 2))
			c = g.V2(dyadic(rng, -2, 2), dyadic(rng, -2, 2))
		} else {
			a = f.c
			b = g.Add2(a, g.Scale2(g.RandUnit2(rng), f.scale*(0.2+rng.Float64())))
			if rng.Intn(4) == 0 { // sliver
				d := g.Sub2(b, a)
				c = g.Add2(g.Lerp2(a, b, rng.Float64()*1.4-0.2), g.Scale2(g.V2(-d.Y, d.X), math.Pow(10, -2.3+2*rng.Float64())))
			} else {
				c = g.Add2(a, g.Scale2(g.RandUnit2(rng), f.scale*(0.2+rng.Float64())))
			}
		}
		l := math.Max(g.Dist2(a, b), math.Max(g.Dist2(b, c), g.Dist2(c, a)))
		if l > 0 && math.Abs(g.CrossZ2(g.Sub2(b, a), g.Sub2(c, a))) >= 2e-3*l*l {
			return
		}
	}
}

func genTriangle2(rng *rand.Rand) *subject2 {
	a, b, c := triangle2(rng)
	lib := model2d.NewTriangle(a, b, c)
	s := &subject2{api: "model2d.Triangle", tag: "2d.Triangle", sdf: lib, point: lib, normal: lib, solid: lib,
		ref: g.RefTriangle2(a, b, c)}
	s.after = func(cs *vlib.Case, p C2, refSD, tol float64) {
		bary, sd := lib.BarycentricSDF(p)
		cs.Count("2d.Triangle.BarycentricSDF.calls", 1)
		sum := bary[0] + bary[1] + bary[2]
		mn := math.Min(bary[0], math.Min(bary[1], bary[2]))
		wit := s.witness(p, map[string]interface{}{"barycentric": fmt.Sprintf("%x %x %x", bary[0], bary[1], bary[2])})
		if !fin(sum) || !fin(sd) {
			cs.Violation("model2d.Triangle.BarycentricSDF/finite", fmt.Sprint("non-finite result ", bary, sd), wit)
			return
		}
		if math.Abs(math.Abs(sd)-math.Abs(refSD)) > tol {
			cs.Violation("model2d.Triangle.BarycentricSDF/distance", fmt.Sprintf("distance %.17g, reference %.17g", sd, refSD), wit)
		}
		if math.Abs(sum-1) > 1e-9 || mn < -1e-9 || mn > 1e-9 {
			cs.Violation("model2d.Triangle.BarycentricSDF/on-border", fmt.Sprintf("barycentric coordinates %v do not describe a border point (sum %.17g, smallest %.3g)", bary, sum, mn), wit)
			return
		}
		q := g.Add2(g.Add2(g.Scale2(a, bary[0]), g.Scale2(b, bary[1])), g.Scale2(c, bary[2]))
		if d := g.Dist2(p, q); math.Abs(d-math.Abs(refSD)) > tol {
			cs.Violation("model2d.Triangle.BarycentricSDF/point-at-distance", fmt.Sprintf("barycentric point %v is at %.17g from the query; distance to the border is %.17g", q, d, math.Abs(refSD)), wit)
			return
		}
		cs.Count("2d.Triangle.BarycentricSDF.nearest_ok", 1)
	}
	return s
}

var gens2 = []struct {
	name string
	gen  func(*rand.Rand) *subject2
}{
	{"Circle", genCircle}, {"Rect", genRect2}, {"Capsule", genCapsule2}, {"Triangle", genTriangle2},
}

func finish2(s *subject2) *subject2 {
	s.params = s.ref.Describe()
	return s
}

func primitives2(r *vlib.Run) {
	for _, gn := range gens2 {
		gn := gn
		r.Section("prim2d."+gn.name, r.N(3000, 40000), vlib.SectionOpts{}, func(c *vlib.Case) {
			s := finish2(gn.gen(c.Rng))
			c.Count(s.tag+".shapes", 1)
			if c.Index < 1 {
				c.Sample("shape2d", 8, s.params)
			}
			runSubject2(c, s, 48)
		})
	}
}

func baseAgrees2(base *subject2) func(p C2) bool {
	base.init()
	return func(p C2) bool {
		want := base.ref.Eval(p).SD
		got := base.sdf.SDF(p)
		return fin(got) && math.Abs(got-want) <= relTol*math.Abs(want)+absTolK*(base.scale+g.MaxAbs2(p))
	}
}

func colliderDerived2(r *vlib.Run) {
	r.Section("collider2d", r.N(3000, 40000), vlib.SectionOpts{}, func(c *vlib.Case) {
		rng := c.Rng
		gn := gens2[rng.Intn(len(gens2))]
		base := finish2(gn.gen(rng))
		coll, ok := base.sdf.(model2d.Collider)
		if !ok {
			panic("2D primitive is not a collider")
		}
		iters := []int{0, 12, 20, 32, 48}[rng.Intn(5)]
		eff := iters
		if eff == 0 {
			eff = 32
		}
		s := &subject2{
			api: "model2d.ColliderToSDF[" + gn.name + "]", tag: "2d.ColliderToSDF." + gn.name,
			sdf: model2d.ColliderToSDF(coll, iters), ref: base.ref, params: base.params, quiet: true, baseOK: baseAgrees2(base),
		}
		s.params["iterations"] = fmt.Sprint(iters)
		res := math.Pow(2, -float64(eff))
		s.extra = func(p C2, refSD float64) float64 { return 2 * res * math.Max(math.Abs(refSD), 1) }
		lim := math.Pow(2, float64(eff-2))
		s.skip = func(p C2, refSD float64) string {
			if a := math.Abs(refSD); a > lim || (a < 1/lim && eff < 32) {
				return "collider:distance-outside-bisection-range"
			}
			return ""
		}
		c.Count("2d.ColliderToSDF.fields", 1)
		runSubject2(c, s, 16)
	})
}

func transformDerived2(r *vlib.Run) {
	r.Section("transform2d", r.N(3000, 40000), vlib.SectionOpts{}, func(c *vlib.Case) {
		rng := c.Rng
		gn := gens2[rng.Intn(len(gens2))]
		base := finish2(gn.gen(rng))
		base.init()
		sc := base.ref.Size()
		var t model2d.DistTransform
		var name string
		k := 1.0
		var own *g.RefSimilar2
		mkScale := func() float64 { return math.Pow(2, float64(rng.Intn(7)-3)) * (1 + float64(rng.Intn(2))*rng.Float64()) }
		off := g.Scale2(g.V2(rng.Float64()*4-2, rng.Float64()*4-2), sc)
		switch rng.Intn(5) {
		case 0:
			t, name = &model2d.Translate{Offset: off}, "Translate"
			own = &g.RefSimilar2{Inner: base.ref, Scale: 1, Shift: off}
		case 1:
			k = mkScale()
			t, name = &model2d.Scale{Scale: k}, "Scale"
			own = &g.RefSimilar2{Inner: base.ref, Scale: k}
		case 2:
			t, name = model2d.Rotation(rng.Float64()*2*math.Pi-math.Pi), "Rotation"
		case 3:
			k = mkScale()
			t, name = model2d.JoinedTransform{&model2d.Scale{Scale: k}, &model2d.Translate{Offset: off}}, "Joined[Scale,Translate]"
			own = &g.RefSimilar2{Inner: base.ref, Scale: k, Shift: off}
		default:
			k = mkScale()
			t, name = model2d.JoinedTransform{&model2d.Translate{Offset: off}, model2d.Rotation(rng.Float64() * 6), &model2d.Scale{Scale: k}}, "Joined[Translate,Rotation,Scale]"
		}
		field := model2d.TransformSDF(t, base.sdf)
		params := map[string]string{"transform": name, "scale": g.Hex(k), "offset": hx2(off)}
		for kk, v := range base.params {
			params[kk] = v
		}
		s := &subject2{
			api: "model2d.TransformSDF[" + name + "]", tag: "2d.TransformSDF." + name,
			sdf: field, ref: base.ref, params: params, mapQuery: t.Apply, distScale: k, quiet: true, baseOK: baseAgrees2(base),
		}
		c.Count("2d.TransformSDF.fields", 1)
		runSubject2(c, s, 12)
		if own != nil {
			inner := *own
			ok := baseAgrees2(base)
			s2 := &subject2{api: s.api, tag: s.tag + ".ownmodel", sdf: field, ref: *own, params: params, quiet: true,
				baseOK: func(p C2) bool { return ok(g.Scale2(g.Sub2(p, inner.Shift), 1/inner.Scale)) }}
			runSubject2(c, s2, 8)
		}
	})
}
