package main

// Grammar-level PLY files: headers assembled from element blocks (standard
// and non-standard "vertex"/"face" layouts, other elements, REPEATED element
// names, reordered / extra / missing properties, all scalar types and list
// length types) with bodies that are consistent with the header, in ascii and
// both binary byte orders, so that parsing gets past the generic reader and
// into the typed mesh decoder with rows of every declared layout. Byte-level
// corruption of a valid file never produces a second well-formed element of
// the same name; a PLY file written by other software may.

import (
	"bytes"
	"encoding/binary"
	"fmt"
	"math"
	"math/rand"
	"strings"
)

type plyProp struct {
	name    string
	typ     string // scalar type, or element type of a list
	lenType string // "" for scalars
}

type plyBlock struct {
	name  string
	props []plyProp
	count int
}

var plyScalarTypes = []string{"char", "uchar", "short", "ushort", "int", "uint", "float", "double",
	"int8", "uint8", "int16", "uint16", "int32", "uint32", "float32", "float64"}

func stdVertexProps() []plyProp {
	return []plyProp{{"x", "float", ""}, {"y", "float", ""}, {"z", "float", ""}, {"red", "uchar", ""}, {"green", "uchar", ""}, {"blue", "uchar", ""}}
}

func randomVertexBlock(rng *rand.Rand) []plyProp {
	p := stdVertexProps()
	switch rng.Intn(9) {
	case 0, 1, 2: // standard
	case 3:
		for i := 0; i < 3; i++ {
			p[i].typ = "double"
		}
	case 4:
		for i := 3; i < 6; i++ {
			p[i].typ = "ushort"
		}
	case 5:
		p = append(p, plyProp{"alpha", "uchar", ""})
	case 6:
		p = p[:3]
	case 7:
		p[0], p[3] = p[3], p[0]
	default:
		i := rng.Intn(len(p))
		p[i] = plyProp{p[i].name, "int", "uchar"} // a list where a scalar is expected
	}
	return p
}

func randomFaceBlock(rng *rand.Rand) []plyProp {
	switch rng.Intn(9) {
	case 0, 1, 2:
		return []plyProp{{"vertex_index", "int", "uchar"}}
	case 3:
		return []plyProp{{"vertex_index", "uint", "uchar"}}
	case 4:
		return []plyProp{{"vertex_index", "int", []string{"ushort", "int", "char", "uint"}[rng.Intn(4)]}}
	case 5:
		return []plyProp{{"vertex_index", "int", ""}} // scalar
	case 6:
		return []plyProp{{"vertex_indices", "int", "uchar"}}
	case 7:
		return []plyProp{{"vertex_index", "int", "uchar"}, {"texcoord", "float", "uchar"}}
	default:
		return []plyProp{{"vertex_index", []string{"short", "uchar", "float", "double"}[rng.Intn(4)], "uchar"}}
	}
}

func randomOtherBlock(rng *rand.Rand) []plyProp {
	n := 1 + rng.Intn(3)
	var p []plyProp
	for i := 0; i < n; i++ {
		pp := plyProp{fmt.Sprintf("p%d", i), plyScalarTypes[rng.Intn(len(plyScalarTypes))], ""}
		if rng.Intn(3) == 0 {
			pp.lenType = []string{"uchar", "ushort", "uint", "char", "int"}[rng.Intn(5)]
		}
		p = append(p, pp)
	}
	return p
}

func plyCanon(t string) string {
	switch t {
	case "int8":
		return "char"
	case "uint8":
		return "uchar"
	case "int16":
		return "short"
	case "uint16":
		return "ushort"
	case "int32":
		return "int"
	case "uint32":
		return "uint"
	case "float32":
		return "float"
	case "float64":
		return "double"
	}
	return t
}

type plyEnc struct {
	ascii bool
	order binary.ByteOrder
	buf   bytes.Buffer
	first bool
}

func (e *plyEnc) num(t string, v float64) {
	t = plyCanon(t)
	if e.ascii {
		if !e.first {
			e.buf.WriteByte(' ')
		}
		e.first = false
		switch t {
		case "float", "double":
			fmt.Fprintf(&e.buf, "%g", v)
		default:
			fmt.Fprintf(&e.buf, "%d", int64(v))
		}
		return
	}
	switch t {
	case "char":
		e.buf.WriteByte(byte(int8(v)))
	case "uchar":
		e.buf.WriteByte(byte(uint8(int64(v))))
	case "short":
		binary.Write(&e.buf, e.order, int16(v))
	case "ushort":
		binary.Write(&e.buf, e.order, uint16(int64(v)))
	case "int":
		binary.Write(&e.buf, e.order, int32(v))
	case "uint":
		binary.Write(&e.buf, e.order, uint32(int64(v)))
	case "float":
		binary.Write(&e.buf, e.order, float32(v))
	case "double":
		binary.Write(&e.buf, e.order, v)
	}
}

func (e *plyEnc) endRow() {
	if e.ascii {
		e.buf.WriteByte('\n')
		e.first = true
	}
}

// plyGrammarFile returns one generated file and a short description.
func plyGrammarFile(rng *rand.Rand) ([]byte, string) {
	var blocks []plyBlock
	nb := 1 + rng.Intn(4)
	names := []string{"vertex", "face", "vertex", "face", "edge", "other"}
	// most files start with the standard pair so that header validation of a mesh decoder is satisfied
	if rng.Intn(4) != 0 {
		blocks = append(blocks, plyBlock{"vertex", stdVertexProps(), 1 + rng.Intn(3)})
		blocks = append(blocks, plyBlock{"face", []plyProp{{"vertex_index", "int", "uchar"}}, rng.Intn(3)})
		nb = rng.Intn(3)
	}
	for i := 0; i < nb; i++ {
		name := names[rng.Intn(len(names))]
		var props []plyProp
		switch name {
		case "vertex":
			props = randomVertexBlock(rng)
		case "face":
			props = randomFaceBlock(rng)
		default:
			props = randomOtherBlock(rng)
		}
		blocks = append(blocks, plyBlock{name, props, rng.Intn(4)})
	}
	if rng.Intn(5) == 0 {
		rng.Shuffle(len(blocks), func(i, j int) { blocks[i], blocks[j] = blocks[j], blocks[i] })
	}
	format := []string{"ascii", "binary_little_endian", "binary_big_endian"}[rng.Intn(3)]
	var h strings.Builder
	h.WriteString("ply\nformat " + format + " 1.0\n")
	var desc []string
	nverts := 0
	for _, b := range blocks {
		fmt.Fprintf(&h, "element %s %d\n", b.name, b.count)
		var ps []string
		for _, p := range b.props {
			if p.lenType != "" {
				fmt.Fprintf(&h, "property list %s %s %s\n", p.lenType, p.typ, p.name)
				ps = append(ps, "list:"+p.lenType+":"+p.typ)
			} else {
				fmt.Fprintf(&h, "property %s %s\n", p.typ, p.name)
				ps = append(ps, p.typ)
			}
		}
		desc = append(desc, fmt.Sprintf("%s*%d(%s)", b.name, b.count, strings.Join(ps, ",")))
		if b.name == "vertex" {
			nverts += b.count
		}
	}
	h.WriteString("end_header\n")
	e := &plyEnc{ascii: format == "ascii", order: binary.LittleEndian, first: true}
	if format == "binary_big_endian" {
		e.order = binary.BigEndian
	}
	value := func(p plyProp, list bool) float64 {
		if list || strings.HasPrefix(p.name, "vertex_ind") {
			// an index: mostly in range
			switch rng.Intn(12) {
			case 0:
				return float64(nverts + rng.Intn(3))
			case 1:
				return -1
			}
			if nverts == 0 {
				return 0
			}
			return float64(rng.Intn(nverts))
		}
		switch plyCanon(p.typ) {
		case "float", "double":
			return math.Round(rng.NormFloat64()*100) / 8
		}
		return float64(rng.Intn(100))
	}
	for _, b := range blocks {
		for r := 0; r < b.count; r++ {
			for _, p := range b.props {
				if p.lenType != "" {
					n := []int{3, 3, 3, 0, 1, 2, 4, 5}[rng.Intn(8)]
					e.num(p.lenType, float64(n))
					for i := 0; i < n; i++ {
						e.num(p.typ, value(p, true))
					}
				} else {
					e.num(p.typ, value(p, false))
				}
			}
			e.endRow()
		}
	}
	return append([]byte(h.String()), e.buf.Bytes()...), format + " " + strings.Join(desc, " ")
}

func plyGrammarCases(rng *rand.Rand, n int, emit func(testCase)) {
	for i := 0; i < n; i++ {
		data, desc := plyGrammarFile(rng)
		for _, dec := range []int{2, 3, decRetryBase + 0} {
			emit(testCase{dec, modePlain, 0, data, fmt.Sprintf("plygrammar/#%d %s", i, trunc80(desc))})
		}
		if rng.Intn(4) == 0 && len(data) > 0 {
			k := rng.Intn(len(data))
			emit(testCase{2, modePlain, 0, data[:k], fmt.Sprintf("plygrammar/#%d truncate@%d %s", i, k, trunc80(desc))})
		}
	}
}

func trunc80(s string) string {
	if len(s) > 160 {
		return s[:160] + "..."
	}
	return s
}
