package main

import (
	"bytes"
	"fmt"
	"math/rand"
	"strings"

	"github.com/unixpickle/model3d/fileformats"
	"github.com/unixpickle/model3d/model2d"
	"github.com/unixpickle/model3d/model3d"
)

type seedFile struct {
	name     string
	data     []byte
	decoders []int
	text     bool
	// bodyStart is the offset where binary payload starts (binary PLY), 0 for text
	bodyStart int
}

func someTriangles(n int) []*model3d.Triangle {
	var res []*model3d.Triangle
	m := model3d.NewMeshIcosphere(model3d.XYZ(0.5, -1, 2), 1.5, 2)
	ts := m.TriangleSlice()
	// deterministic order
	model3dSort(ts)
	for i := 0; i < n && i < len(ts); i++ {
		res = append(res, ts[i])
	}
	return res
}

func model3dSort(ts []*model3d.Triangle) {
	less := func(a, b *model3d.Triangle) bool {
		for k := 0; k < 3; k++ {
			if a[k] != b[k] {
				if a[k].X != b[k].X {
					return a[k].X < b[k].X
				}
				if a[k].Y != b[k].Y {
					return a[k].Y < b[k].Y
				}
				return a[k].Z < b[k].Z
			}
		}
		return false
	}
	for i := 1; i < len(ts); i++ {
		for j := i; j > 0 && less(ts[j], ts[j-1]); j-- {
			ts[j], ts[j-1] = ts[j-1], ts[j]
		}
	}
}

func asciiSTL(tris []*model3d.Triangle, name string, finalNewline bool) []byte {
	var b strings.Builder
	fmt.Fprintf(&b, "solid %s\n", name)
	for _, t := range tris {
		n := t.Normal()
		fmt.Fprintf(&b, "facet normal %g %g %g\n  outer loop\n", n.X, n.Y, n.Z)
		for _, v := range t {
			fmt.Fprintf(&b, "    vertex %.9g %.9g %.9g\n", v.X, v.Y, v.Z)
		}
		b.WriteString("  endloop\nendfacet\n")
	}
	fmt.Fprintf(&b, "endsolid %s", name)
	if finalNewline {
		b.WriteString("\n")
	}
	return []byte(b.String())
}

func offFile(tris []*model3d.Triangle, sameLine, quad bool) []byte {
	var verts []model3d.Coord3D
	idx := map[model3d.Coord3D]int{}
	var faces [][]int
	for _, t := range tris {
		var f []int
		for _, v := range t {
			if _, ok := idx[v]; !ok {
				idx[v] = len(verts)
				verts = append(verts, v)
			}
			f = append(f, idx[v])
		}
		faces = append(faces, f)
	}
	if quad {
		// a planar quad and a pentagon
		base := len(verts)
		verts = append(verts, model3d.XYZ(0, 0, 5), model3d.XYZ(1, 0, 5), model3d.XYZ(1, 1, 5), model3d.XYZ(0, 1, 5), model3d.XYZ(-0.5, 0.5, 5))
		faces = append(faces, []int{base, base + 1, base + 2, base + 3}, []int{base, base + 1, base + 2, base + 3, base + 4})
	}
	var b strings.Builder
	if sameLine {
		fmt.Fprintf(&b, "OFF %d %d 0\n", len(verts), len(faces))
	} else {
		fmt.Fprintf(&b, "OFF\n%d %d 0\n", len(verts), len(faces))
	}
	for _, v := range verts {
		fmt.Fprintf(&b, "%g %g %g\n", v.X, v.Y, v.Z)
	}
	for _, f := range faces {
		fmt.Fprintf(&b, "%d", len(f))
		for _, i := range f {
			fmt.Fprintf(&b, " %d", i)
		}
		b.WriteString("\n")
	}
	return []byte(b.String())
}

func binaryPLY(tris []*model3d.Triangle, format fileformats.PLYFormat) ([]byte, int) {
	var verts []model3d.Coord3D
	idx := map[model3d.Coord3D]int{}
	var faces [][3]int
	for _, t := range tris {
		var f [3]int
		for k, v := range t {
			if _, ok := idx[v]; !ok {
				idx[v] = len(verts)
				verts = append(verts, v)
			}
			f[k] = idx[v]
		}
		faces = append(faces, f)
	}
	h := &fileformats.PLYHeader{Format: format, Elements: []*fileformats.PLYElement{
		fileformats.NewPLYElementColoredVertex(int64(len(verts))),
		fileformats.NewPLYElementFace(int64(len(faces))),
	}}
	var buf bytes.Buffer
	w, err := fileformats.NewPLYWriter(&buf, h)
	if err != nil {
		panic(err)
	}
	bodyStart := buf.Len()
	for i, v := range verts {
		err := w.Write([]fileformats.PLYValue{
			fileformats.PLYValueFloat32{Value: float32(v.X)}, fileformats.PLYValueFloat32{Value: float32(v.Y)}, fileformats.PLYValueFloat32{Value: float32(v.Z)},
			fileformats.PLYValueUint8{Value: uint8(i)}, fileformats.PLYValueUint8{Value: uint8(2 * i)}, fileformats.PLYValueUint8{Value: 7},
		})
		if err != nil {
			panic(err)
		}
	}
	for _, f := range faces {
		err := w.Write([]fileformats.PLYValue{fileformats.PLYValueList{Length: fileformats.PLYValueUint8{Value: 3}, Values: []fileformats.PLYValue{
			fileformats.PLYValueInt32{Value: int32(f[0])}, fileformats.PLYValueInt32{Value: int32(f[1])}, fileformats.PLYValueInt32{Value: int32(f[2])}}}})
		if err != nil {
			panic(err)
		}
	}
	return buf.Bytes(), bodyStart
}

// genericPLY: several elements, scalar and list properties of various types.
func genericPLY(format string) []byte {
	hdr := "ply\nformat " + format + " 1.0\ncomment made by the harness\n" +
		"element vertex 2\nproperty float x\nproperty double y\nproperty short s\nproperty ushort us\n" +
		"element thing 1\nproperty list uchar int idx\nproperty list ushort float w\nproperty char c\n" +
		"element empty 0\nproperty int q\n" +
		"element tail 1\nproperty uint u\nproperty int8 a\nproperty uint8 b\nproperty int16 d\nproperty uint16 e\nproperty int32 f\nproperty uint32 g\nproperty float32 h\nproperty float64 i\n" +
		"end_header\n"
	if format == "ascii" {
		return []byte(hdr + "1.5 2.5 -3 4\n-1 1e10 5 6\n3 1 2 3 2 0.5 0.25 -7\n9 -1 2 -3 4 -5 6 7.5 8.5\n")
	}
	// binary forms are produced by the library writer from the decoded header
	h, err := fileformats.NewPLYHeaderDecode(hdr)
	if err != nil {
		panic(err)
	}
	var buf bytes.Buffer
	w, err := fileformats.NewPLYWriter(&buf, h)
	if err != nil {
		panic(err)
	}
	F32 := func(v float32) fileformats.PLYValue { return fileformats.PLYValueFloat32{Value: v} }
	rows := [][]fileformats.PLYValue{
		{F32(1.5), fileformats.PLYValueFloat64{Value: 2.5}, fileformats.PLYValueInt16{Value: -3}, fileformats.PLYValueUint16{Value: 4}},
		{F32(-1), fileformats.PLYValueFloat64{Value: 1e10}, fileformats.PLYValueInt16{Value: 5}, fileformats.PLYValueUint16{Value: 6}},
		{fileformats.PLYValueList{Length: fileformats.PLYValueUint8{Value: 3}, Values: []fileformats.PLYValue{fileformats.PLYValueInt32{Value: 1}, fileformats.PLYValueInt32{Value: 2}, fileformats.PLYValueInt32{Value: 3}}},
			fileformats.PLYValueList{Length: fileformats.PLYValueUint16{Value: 2}, Values: []fileformats.PLYValue{F32(0.5), F32(0.25)}},
			fileformats.PLYValueInt8{Value: -7}},
		{fileformats.PLYValueUint32{Value: 9}, fileformats.PLYValueInt8{Value: -1}, fileformats.PLYValueUint8{Value: 2}, fileformats.PLYValueInt16{Value: -3}, fileformats.PLYValueUint16{Value: 4},
			fileformats.PLYValueInt32{Value: -5}, fileformats.PLYValueUint32{Value: 6}, F32(7.5), fileformats.PLYValueFloat64{Value: 8.5}},
	}
	for _, r := range rows {
		if err := w.Write(r); err != nil {
			// writer may reject; keep what we have
			break
		}
	}
	return buf.Bytes()
}

func bodyStartOf(data []byte) int {
	i := bytes.Index(data, []byte("end_header\n"))
	if i < 0 {
		return 0
	}
	return i + len("end_header\n")
}

func seedCorpus() []seedFile {
	var res []seedFile
	stlDec := []int{0, 6}
	offDec := []int{1, 5}
	plyDec := []int{2, 3}
	csvDec := []int{7, 8}
	for _, n := range []int{0, 1, 3, 50} {
		tris := someTriangles(n)
		res = append(res, seedFile{name: fmt.Sprintf("stl-binary-%d", n), data: model3d.EncodeSTL(tris), decoders: stlDec})
		res = append(res, seedFile{name: fmt.Sprintf("stl-ascii-%d", n), data: asciiSTL(tris, "harness", true), decoders: stlDec, text: true})
		ply := model3d.EncodePLY(tris, func(c model3d.Coord3D) [3]uint8 { return [3]uint8{uint8(c.X * 50), uint8(c.Y * 50), 9} })
		res = append(res, seedFile{name: fmt.Sprintf("ply-ascii-%d", n), data: ply, decoders: plyDec, text: true})
		for _, f := range []fileformats.PLYFormat{fileformats.PLYFormatBinaryLittle, fileformats.PLYFormatBinaryBig} {
			data, bs := binaryPLY(tris, f)
			res = append(res, seedFile{name: fmt.Sprintf("ply-binary%d-%d", f, n), data: data, decoders: plyDec, bodyStart: bs})
		}
		res = append(res, seedFile{name: fmt.Sprintf("off-%d", n), data: offFile(tris, false, false), decoders: offDec, text: true})
		if n <= 3 {
			res = append(res, seedFile{name: fmt.Sprintf("off-sameline-poly-%d", n), data: offFile(tris, true, true), decoders: offDec, text: true})
		}
		m2 := model2d.NewMesh()
		for i := 0; i < n; i++ {
			m2.Add(&model2d.Segment{model2d.XY(float64(i), 0.5), model2d.XY(float64(i+1), -1.25)})
		}
		res = append(res, seedFile{name: fmt.Sprintf("csv-%d", n), data: model2d.EncodeCSV(m2), decoders: csvDec, text: true})
	}
	res = append(res, seedFile{name: "stl-ascii-nonewline", data: asciiSTL(someTriangles(2), "", false), decoders: stlDec, text: true})
	res = append(res, seedFile{name: "stl-binary-solid-prefix", data: append([]byte("solid x"), model3d.EncodeSTL(someTriangles(2))[7:]...), decoders: stlDec})
	for _, f := range []string{"ascii", "binary_little_endian", "binary_big_endian"} {
		d := genericPLY(f)
		res = append(res, seedFile{name: "ply-generic-" + f, data: d, decoders: []int{3, 2}, text: f == "ascii", bodyStart: bodyStartOf(d)})
	}
	// headers alone for the header decoder
	for _, s := range res {
		if strings.HasPrefix(s.name, "ply-") {
			if bs := bodyStartOf(s.data); bs > 0 {
				res = append(res, seedFile{name: s.name + "-header", data: s.data[:bs], decoders: []int{4}, text: true})
			}
		}
	}
	return res
}

var hostileTokens = []string{"0", "-1", "1", "3", "255", "256", "65535", "1000000", "10000000", "2147483647", "2147483648", "4294967295",
	"9223372036854775807", "-9223372036854775808", "1000000000000000000", "nan", "inf", "-inf", "1e400", "",
	strings.Repeat("9", 400), "x", "0x10", "1.5", "-0", "list", "uchar", "int8", "char", "float", "double", "uint64", "element", "property", "end_header", "comment"}

type testCase struct {
	dec, mode, k int
	data         []byte
	desc         string
}

// tokenSpans finds whitespace-separated tokens in data[:limit].
func tokenSpans(data []byte, limit int) [][2]int {
	var res [][2]int
	i := 0
	for i < limit {
		for i < limit && (data[i] == ' ' || data[i] == '\n' || data[i] == '\t' || data[i] == '\r' || data[i] == ',') {
			i++
		}
		j := i
		for j < limit && !(data[j] == ' ' || data[j] == '\n' || data[j] == '\t' || data[j] == '\r' || data[j] == ',') {
			j++
		}
		if j > i {
			res = append(res, [2]int{i, j})
		}
		i = j
	}
	return res
}

func replaceSpan(data []byte, span [2]int, tok string) []byte {
	out := make([]byte, 0, len(data)+len(tok))
	out = append(out, data[:span[0]]...)
	out = append(out, tok...)
	out = append(out, data[span[1]:]...)
	return out
}

// enumerate generates the fault cases for one seed file. quick subsamples the
// byte-level corruptions; truncations and field corruptions are always complete
// for files up to maxFull bytes.
func enumerate(s seedFile, rng *rand.Rand, quick bool, emit func(testCase)) {
	maxFull := 4000
	if quick {
		maxFull = 1500
	}
	for _, dec := range s.decoders {
		emit(testCase{dec, modePlain, 0, s.data, s.name + "/valid"})
		if s.text {
			emit(testCase{dec, modePlain, 0, bytes.Replace(s.data, []byte("\n"), []byte("\r"), -1), s.name + "/line-ends=CR"})
			emit(testCase{dec, modePlain, 0, bytes.Replace(s.data, []byte("\n"), []byte("\r\n"), -1), s.name + "/line-ends=CRLF"})
			if n := bytes.Count(s.data, []byte("\n")); n > 1 {
				emit(testCase{dec, modePlain, 0, bytes.Replace(s.data, []byte("\n"), []byte("\r"), n/2), s.name + "/line-ends=CR-then-LF"})
			}
		}
		// data after the end of a complete file: form feeds and vertical tabs (page separators),
		// blank space of every kind, a second copy of the file, text, NULs
		for ti, tail := range []string{"\f", "\v", "\n\n\fpage 2: notes\n", " \t\vsolid next\n", "\x00\x00\x00", "\r\n \r\n", "trailing text\n", "\u00a0\u2028\n", string(s.data), "\f" + string(s.data)} {
			if !s.text && ti < 8 && ti != 4 {
				continue
			}
			emit(testCase{dec, modePlain, 0, append(append([]byte{}, s.data...), tail...), fmt.Sprintf("%s/trailing-data-%d", s.name, ti)})
		}
		emit(testCase{dec, modeOneByte, 0, s.data, s.name + "/valid-1byte-reads"})
		// every truncation point
		step := 1
		if len(s.data) > maxFull {
			step = len(s.data)/maxFull + 1
		}
		for n := 0; n < len(s.data); n += step {
			emit(testCase{dec, modePlain, 0, s.data[:n], fmt.Sprintf("%s/truncate@%d", s.name, n)})
		}
		// reader error after byte k
		estep := step
		if quick {
			estep = step * 3
		}
		for k := 0; k <= len(s.data); k += estep {
			emit(testCase{dec, modeErrAt, k, s.data, fmt.Sprintf("%s/read-error@%d", s.name, k)})
		}
		// a source that stalls at byte k: every further call fails with an error whose
		// Temporary()/Timeout() methods answer true (EAGAIN, a deadline) and never recovers
		for k := 0; k <= len(s.data); k += estep * 2 {
			emit(testCase{dec, modeStalledAt, k, s.data, fmt.Sprintf("%s/stalled-source@%d", s.name, k)})
		}
		// streaming readers called again after an error: one transient read error before byte k,
		// a permanent one, and every truncation
		if rd, ok := retryOf[dec]; ok {
			for k := 0; k <= len(s.data); k += step {
				emit(testCase{rd, modeTransientAt, k, s.data, fmt.Sprintf("%s/transient-read-error@%d", s.name, k)})
			}
			for k := 0; k <= len(s.data); k += estep {
				emit(testCase{rd, modeErrAt, k, s.data, fmt.Sprintf("%s/read-error@%d", s.name, k)})
			}
			for n := 0; n < len(s.data); n += estep {
				emit(testCase{rd, modePlain, 0, s.data[:n], fmt.Sprintf("%s/truncate@%d", s.name, n)})
			}
		}
		// every single-field corruption (text tokens; for binary PLY the header tokens)
		limit := len(s.data)
		if !s.text {
			limit = s.bodyStart
		}
		spans := tokenSpans(s.data, limit)
		if len(spans) > 400 {
			// long files: all tokens of the first 200 and a seeded sample of the rest
			keep := spans[:200]
			for i := 0; i < 200; i++ {
				keep = append(keep, spans[200+rng.Intn(len(spans)-200)])
			}
			spans = keep
		}
		for _, sp := range spans {
			for _, tok := range hostileTokens {
				emit(testCase{dec, modePlain, 0, replaceSpan(s.data, sp, tok), fmt.Sprintf("%s/token@%d=%q", s.name, sp[0], trunc(tok))})
			}
		}
		// lines that lose their trailing tokens (a keyword left alone on its line, a record with
		// fewer fields than its kind has), and lines that are repeated or dropped
		if textLimit := limit; textLimit > 0 {
			lines := bytes.SplitAfter(s.data[:textLimit], []byte("\n"))
			rest := s.data[textLimit:]
			lstep := 1
			if len(lines) > 300 {
				lstep = len(lines)/300 + 1
			}
			for li := 0; li < len(lines); li += lstep {
				ln := lines[li]
				fields := bytes.Fields(ln)
				join := func(repl []byte) []byte {
					var d []byte
					for j, l := range lines {
						if j == li {
							d = append(d, repl...)
						} else {
							d = append(d, l...)
						}
					}
					return append(d, rest...)
				}
				for keep := 1; keep < len(fields) && keep <= 6; keep++ {
					short := append(bytes.Join(fields[:keep], []byte(" ")), '\n')
					emit(testCase{dec, modePlain, 0, join(short), fmt.Sprintf("%s/token-line@%d-keeps-%d-of-%d-tokens", s.name, li, keep, len(fields))})
				}
				if len(fields) > 0 {
					emit(testCase{dec, modePlain, 0, join(nil), fmt.Sprintf("%s/token-line@%d-dropped", s.name, li)})
					emit(testCase{dec, modePlain, 0, join(append(append([]byte{}, ln...), ln...)), fmt.Sprintf("%s/token-line@%d-twice", s.name, li)})
				}
			}
		}
		// binary fields
		if !s.text {
			if strings.HasPrefix(s.name, "stl-binary") && len(s.data) >= 84 {
				for _, v := range []uint32{0, 1, 2, 1000, 1000000, 10000000, 100000000, 0x7fffffff, 0x80000000, 0xffffffff} {
					d := append([]byte{}, s.data...)
					d[80], d[81], d[82], d[83] = byte(v), byte(v>>8), byte(v>>16), byte(v>>24)
					emit(testCase{dec, modePlain, 0, d, fmt.Sprintf("%s/count=%d", s.name, v)})
					emit(testCase{dec, modePlain, 0, d[:84], fmt.Sprintf("%s/count=%d-nobody", s.name, v)})
				}
			}
			// every body byte set to 0x00, 0xff, 0x80 and seeded values
			body := s.bodyStart
			if strings.HasPrefix(s.name, "stl-binary") {
				body = 80
			}
			bstep := 1
			if len(s.data)-body > maxFull {
				bstep = (len(s.data)-body)/maxFull + 1
			}
			for i := body; i < len(s.data); i += bstep {
				vals := []byte{0, 0xff, 0x80, 0x7f, 3, byte(rng.Intn(256)), byte(rng.Intn(256))}
				for _, v := range vals {
					if v == s.data[i] {
						continue
					}
					d := append([]byte{}, s.data...)
					d[i] = v
					emit(testCase{dec, modePlain, 0, d, fmt.Sprintf("%s/byte@%d=%#x", s.name, i, v)})
				}
			}
		} else {
			// text: single-byte corruptions at every position (8 seeded values in thorough, 3 in quick)
			nvals := 8
			if quick {
				nvals = 3
			}
			bstep := 1
			if len(s.data) > maxFull {
				bstep = len(s.data)/maxFull + 1
			}
			for i := 0; i < len(s.data); i += bstep {
				for q := 0; q < nvals; q++ {
					v := []byte{' ', '\n', '-', '0', '9', 'e', '.', 0, 0xff, byte(rng.Intn(256))}[rng.Intn(10)]
					if v == s.data[i] {
						continue
					}
					d := append([]byte{}, s.data...)
					d[i] = v
					emit(testCase{dec, modePlain, 0, d, fmt.Sprintf("%s/byte@%d=%#x", s.name, i, v)})
				}
			}
		}
	}
}

func trunc(s string) string {
	if len(s) > 24 {
		return s[:24] + "..."
	}
	return s
}

// structured random inputs: hostile hand-written headers and spliced files.
func handWritten() []testCase {
	var res []testCase
	add := func(decs []int, name, data string) {
		for _, d := range decs {
			res = append(res, testCase{d, modePlain, 0, []byte(data), "hand/" + name})
		}
	}
	ply := []int{2, 3}
	add(ply, "ply-element-no-properties-huge-count", "ply\nformat ascii 1.0\nelement vertex 1000000000000\nend_header\n")
	add(ply, "ply-element-no-properties-huge-count-binary", "ply\nformat binary_little_endian 1.0\nelement vertex 1000000000000\nend_header\n")
	add(ply, "ply-vertex-no-properties", "ply\nformat ascii 1.0\nelement vertex 1\nelement face 1\nproperty list uchar int vertex_index\nend_header\n\n3 0 0 0\n")
	add(ply, "ply-face-no-properties", "ply\nformat ascii 1.0\nelement vertex 1\nproperty float x\nproperty float y\nproperty float z\nproperty uchar red\nproperty uchar green\nproperty uchar blue\nelement face 1\nend_header\n0 0 0 1 2 3\n\n")
	add(ply, "ply-int8-list-length", "ply\nformat ascii 1.0\nelement vertex 1\nproperty float x\nproperty float y\nproperty float z\nproperty uchar red\nproperty uchar green\nproperty uchar blue\nelement face 1\nproperty list char int vertex_index\nend_header\n0 0 0 1 2 3\n3 0 0 0\n")
	add(ply, "ply-negative-list-length", "ply\nformat ascii 1.0\nelement face 1\nproperty list char int vertex_index\nend_header\n-3 0 0 0\n")
	add(ply, "ply-negative-vertex-index", "ply\nformat ascii 1.0\nelement vertex 1\nproperty float x\nproperty float y\nproperty float z\nproperty uchar red\nproperty uchar green\nproperty uchar blue\nelement face 1\nproperty list uchar int vertex_index\nend_header\n0 0 0 1 2 3\n3 0 -1 0\n")
	add(ply, "ply-huge-list-length", "ply\nformat ascii 1.0\nelement face 1\nproperty list uint int vertex_index\nend_header\n4000000000 0 0 0\n")
	add(ply, "ply-huge-list-length-binary", "ply\nformat binary_little_endian 1.0\nelement face 1\nproperty list uint int vertex_index\nend_header\n\xff\xff\xff\x7f\x00\x00")
	add(ply, "ply-zero-count-elements", "ply\nformat ascii 1.0\nelement vertex 0\nproperty float x\nproperty float y\nproperty float z\nproperty uchar red\nproperty uchar green\nproperty uchar blue\nelement face 0\nproperty list uchar int vertex_index\nend_header\n")
	add(ply, "ply-negative-count", "ply\nformat ascii 1.0\nelement vertex -5\nproperty float x\nend_header\n1\n2\n3\n")
	add(ply, "ply-faces-before-vertices", "ply\nformat ascii 1.0\nelement face 1\nproperty list uchar int vertex_index\nelement vertex 1\nproperty float x\nproperty float y\nproperty float z\nproperty uchar red\nproperty uchar green\nproperty uchar blue\nend_header\n3 0 0 0\n0 0 0 1 2 3\n")
	add(ply, "ply-wrong-vertex-types", "ply\nformat ascii 1.0\nelement vertex 1\nproperty double x\nproperty double y\nproperty double z\nproperty int red\nproperty int green\nproperty int blue\nelement face 1\nproperty list uchar int vertex_index\nend_header\n0 0 0 1 2 3\n3 0 0 0\n")
	add(ply, "ply-wrong-face-types", "ply\nformat ascii 1.0\nelement vertex 1\nproperty float x\nproperty float y\nproperty float z\nproperty uchar red\nproperty uchar green\nproperty uchar blue\nelement face 1\nproperty list uchar uint vertex_index\nend_header\n0 0 0 1 2 3\n3 0 0 0\n")
	add(ply, "ply-scalar-face", "ply\nformat ascii 1.0\nelement vertex 1\nproperty float x\nproperty float y\nproperty float z\nproperty uchar red\nproperty uchar green\nproperty uchar blue\nelement face 1\nproperty int vertex_index\nend_header\n0 0 0 1 2 3\n0\n")
	add(ply, "ply-other-element-before", "ply\nformat ascii 1.0\nelement other 1\nproperty float q\nelement vertex 1\nproperty float x\nproperty float y\nproperty float z\nproperty uchar red\nproperty uchar green\nproperty uchar blue\nelement face 1\nproperty list uchar int vertex_index\nend_header\n1\n0 0 0 1 2 3\n3 0 0 0\n")
	add(ply, "ply-only-comments", "ply\nformat ascii 1.0\nelement vertex 2\nproperty float x\nend_header\ncomment a\ncomment b\ncomment c\n")
	add(ply, "ply-missing-format", "ply\nelement vertex 2\nproperty float x\nend_header\n1\n2\n")
	add(ply, "ply-double-end-header", "ply\nformat ascii 1.0\nend_header\nend_header\n")
	add([]int{4}, "plyhdr-unknown-type", "ply\nformat ascii 1.0\nelement vertex 2\nproperty quux x\nend_header\n")
	add([]int{4}, "plyhdr-list-none", "ply\nformat ascii 1.0\nelement vertex 2\nproperty list  \nend_header\n")
	off := []int{1, 5}
	add(off, "off-negative-vertices", "OFF\n-1 1 0\n3 0 0 0\n")
	add(off, "off-negative-faces", "OFF\n1 -1 0\n0 0 0\n")
	add(off, "off-huge-vertices", "OFF\n1000000000000000000 1 0\n0 0 0\n")
	add(off, "off-big-vertices", "OFF\n100000000 1 0\n0 0 0\n")
	add(off, "off-huge-faces", "OFF\n1 1000000000000000000 0\n0 0 0\n3 0 0 0\n")
	add(off, "off-big-faces", "OFF\n1 100000000 0\n0 0 0\n3 0 0 0\n")
	add(off, "off-face-0-verts", "OFF\n3 1 0\n0 0 0\n1 0 0\n0 1 0\n0\n")
	add(off, "off-face-1-vert", "OFF\n3 1 0\n0 0 0\n1 0 0\n0 1 0\n1 0\n")
	add(off, "off-face-2-verts", "OFF\n3 1 0\n0 0 0\n1 0 0\n0 1 0\n2 0 1\n")
	add(off, "off-face-negative-count", "OFF\n3 1 0\n0 0 0\n1 0 0\n0 1 0\n-1\n")
	add(off, "off-degenerate-quad", "OFF\n4 1 0\n0 0 0\n0 0 0\n0 0 0\n0 0 0\n4 0 1 2 3\n")
	add(off, "off-colinear-polygon", "OFF\n5 1 0\n0 0 0\n1 0 0\n2 0 0\n3 0 0\n4 0 0\n5 0 1 2 3 4\n")
	add(off, "off-repeated-index-polygon", "OFF\n3 1 0\n0 0 0\n1 0 0\n0 1 0\n5 0 1 2 1 0\n")
	add(off, "off-nan-polygon", "OFF\n4 1 0\nnan 0 0\n1 nan 0\n0 1 inf\n0 0 0\n4 0 1 2 3\n")
	add(off, "off-selfintersecting", "OFF\n4 1 0\n0 0 0\n1 1 0\n1 0 0\n0 1 0\n4 0 1 2 3\n")
	add(off, "off-zero-everything", "OFF\n0 0 0\n")
	add(off, "off-no-newline", "OFF 0 0 0")
	stl := []int{0, 6}
	add(stl, "stl-ascii-only-solid", "solid\n")
	add(stl, "stl-ascii-bad-vertex", "solid a\nfacet normal 0 0 1\nouter loop\nvertex 0 0\nvertex 1 0 0\nvertex 0 1 0\nendloop\nendfacet\nendsolid a\n")
	add(stl, "stl-ascii-huge-number", "solid a\nfacet normal 0 0 1\nouter loop\nvertex 1e999 0 0\nvertex 1 0 0\nvertex 0 1 0\nendloop\nendfacet\nendsolid a\n")
	add(stl, "stl-ascii-missing-endloop", "solid a\nfacet normal 0 0 1\nouter loop\nvertex 0 0 0\nvertex 1 0 0\nvertex 0 1 0\nendfacet\nendsolid a\n")
	add(stl, "stl-ascii-facets-forever", "solid a\n"+strings.Repeat("facet normal 0 0 1\n", 50))
	csv := []int{7, 8}
	add(csv, "csv-three-fields", "1,2,3\n")
	add(csv, "csv-five-fields", "1,2,3,4,5\n")
	add(csv, "csv-quote", "\"1,2,3,4\n")
	add(csv, "csv-nan", "nan,inf,-inf,1e999\n")
	add(csv, "csv-empty-lines", "\n\n\n")
	// other line-terminator dialects: bare CR (old Mac), CRLF, mixed, with and without a final one
	for _, rows := range []int{1, 2, 3, 7, 40} {
		var lf string
		for i := 0; i < rows; i++ {
			lf += fmt.Sprintf("%d,%d.5,%d,-%d\n", i, i, i+1, i)
		}
		cr := strings.Replace(lf, "\n", "\r", -1)
		crlf := strings.Replace(lf, "\n", "\r\n", -1)
		add(csv, fmt.Sprintf("csv-bare-cr-%d", rows), cr)
		add(csv, fmt.Sprintf("csv-bare-cr-nofinal-%d", rows), strings.TrimSuffix(cr, "\r"))
		add(csv, fmt.Sprintf("csv-bare-cr-final-lf-%d", rows), strings.TrimSuffix(cr, "\r")+"\n")
		add(csv, fmt.Sprintf("csv-crlf-%d", rows), crlf)
		add(csv, fmt.Sprintf("csv-lfcr-%d", rows), strings.Replace(lf, "\n", "\n\r", -1))
		add(csv, fmt.Sprintf("csv-mixed-%d", rows), strings.Replace(lf, "\n", "\r", rows/2)+"\r\r")
	}
	return res
}

func randomStructured(rng *rand.Rand, seeds []seedFile, n int, emit func(testCase)) {
	for i := 0; i < n; i++ {
		s := seeds[rng.Intn(len(seeds))]
		d := append([]byte{}, s.data...)
		ops := 1 + rng.Intn(4)
		for o := 0; o < ops && len(d) > 0; o++ {
			switch rng.Intn(5) {
			case 0: // delete a span
				a := rng.Intn(len(d))
				b := a + rng.Intn(len(d)-a+1)
				if b-a > 40 {
					b = a + 40
				}
				d = append(d[:a:a], d[b:]...)
			case 1: // duplicate a span
				a := rng.Intn(len(d))
				b := a + rng.Intn(len(d)-a+1)
				if b-a > 60 {
					b = a + 60
				}
				d = append(d[:b:b], append(append([]byte{}, d[a:b]...), d[b:]...)...)
			case 2: // splice from another file
				t := seeds[rng.Intn(len(seeds))].data
				if len(t) > 0 {
					a := rng.Intn(len(t))
					b := a + rng.Intn(len(t)-a+1)
					if b-a > 80 {
						b = a + 80
					}
					p := rng.Intn(len(d) + 1)
					d = append(d[:p:p], append(append([]byte{}, t[a:b]...), d[p:]...)...)
				}
			case 3: // replace a token
				spans := tokenSpans(d, len(d))
				if len(spans) > 0 {
					d = replaceSpan(d, spans[rng.Intn(len(spans))], hostileTokens[rng.Intn(len(hostileTokens))])
				}
			default: // flip bytes
				for q := 0; q < 1+rng.Intn(3); q++ {
					d[rng.Intn(len(d))] = byte(rng.Intn(256))
				}
			}
		}
		dec := s.decoders[rng.Intn(len(s.decoders))]
		if rng.Intn(10) == 0 {
			dec = rng.Intn(len(decoderNames))
		}
		if rd, ok := retryOf[dec]; ok && rng.Intn(4) == 0 {
			dec = rd
		}
		emit(testCase{dec, modePlain, 0, d, fmt.Sprintf("random/%s#%d", s.name, i)})
	}
}
