package main

import (
	"bufio"
	"bytes"
	"encoding/binary"
	"encoding/json"
	"errors"
	"fmt"
	"io"
	"os"
	"runtime"
	"runtime/debug"
	"strings"
	"syscall"

	"github.com/unixpickle/model3d/fileformats"
	"github.com/unixpickle/model3d/model2d"
	"github.com/unixpickle/model3d/model3d"
)

// decoders under test
var decoderNames = []string{
	"model3d.ReadSTL",
	"model3d.ReadOFF",
	"model3d.ReadColorPLY",
	"fileformats.PLYReader",
	"fileformats.NewPLYHeaderDecode",
	"fileformats.OFFReader",
	"fileformats.STLReader",
	"model2d.DecodeCSV",
	"fileformats.SegmentCSVReader",
	// the streaming readers called again after they returned an error (a caller
	// that retries, or skips a bad record): still data or an error, never a panic
	"fileformats.PLYReader[calls-after-error]",
	"fileformats.OFFReader[calls-after-error]",
	"fileformats.STLReader[calls-after-error]",
	"fileformats.SegmentCSVReader[calls-after-error]",
}

const decRetryBase = 9

// retryOf maps a streaming decoder to its calls-after-error variant.
var retryOf = map[int]int{3: 9, 5: 10, 6: 11, 8: 12}

// reader fault modes
const (
	modePlain = iota
	modeOneByte
	modeErrAt
	modeTransientAt // one injected error when the stream position reaches k, then the stream continues
	modeStalledAt   // from stream position k on every call fails with an error that calls itself temporary
)

// stallLimit: after this many fruitless calls the stalled source gives up with an ordinary error,
// so that a decoder that waits for the source to recover ends after all.
const stallLimit = 200000

type temporaryError struct{}

func (temporaryError) Error() string   { return "resource temporarily unavailable" }
func (temporaryError) Temporary() bool { return true }
func (temporaryError) Timeout() bool   { return true }

var errInjected = errors.New("injected read error")

type faultReader struct {
	data  []byte
	pos   int
	mode  int
	k     int
	fired bool
	// modeStalledAt: calls that delivered nothing since the stall began
	stalled int
}

func (f *faultReader) Read(p []byte) (int, error) {
	if len(p) == 0 {
		return 0, nil
	}
	if f.mode == modeErrAt && f.pos >= f.k {
		return 0, errInjected
	}
	if f.mode == modeStalledAt && f.pos >= f.k {
		f.stalled++
		if f.stalled > stallLimit {
			return 0, errInjected
		}
		return 0, temporaryError{}
	}
	if f.mode == modeTransientAt && !f.fired && f.pos >= f.k {
		f.fired = true
		return 0, errInjected
	}
	if f.pos >= len(f.data) {
		return 0, io.EOF
	}
	n := len(p)
	if f.mode == modeOneByte {
		n = 1
	}
	if n > len(f.data)-f.pos {
		n = len(f.data) - f.pos
	}
	if (f.mode == modeErrAt || f.mode == modeStalledAt || (f.mode == modeTransientAt && !f.fired)) && f.pos+n > f.k {
		n = f.k - f.pos
	}
	copy(p, f.data[f.pos:f.pos+n])
	f.pos += n
	return n, nil
}

type result struct {
	Panic      string `json:"panic,omitempty"`
	Site       string `json:"site,omitempty"`
	Stack      string `json:"stack,omitempty"`
	Records    int    `json:"records"`
	Err        bool   `json:"err"`
	Alloc      uint64 `json:"alloc"`
	NoProgress bool   `json:"noprogress,omitempty"`
	Retries    int    `json:"retries,omitempty"` // calls made after a call had returned an error
	Stalled    int    `json:"stalled,omitempty"` // fruitless Read calls made on a stalled source
}

func runDecoder(dec, mode, k int, data []byte) (res result) {
	var rd io.Reader
	if mode == modePlain {
		rd = bytes.NewReader(data)
	} else {
		fr := &faultReader{data: data, mode: mode, k: k}
		rd = fr
		defer func() { res.Stalled = fr.stalled }()
	}
	limit := len(data) + 16
	defer func() {
		if e := recover(); e != nil {
			st := string(debug.Stack())
			res.Panic = fmt.Sprint(e)
			res.Site = panicSite(st)
			lines := strings.Split(st, "\n")
			if len(lines) > 30 {
				lines = lines[:30]
			}
			res.Stack = strings.Join(lines, "\n")
		}
	}()
	var ms0, ms1 runtime.MemStats
	runtime.ReadMemStats(&ms0)
	defer func() {
		runtime.ReadMemStats(&ms1)
		res.Alloc = ms1.TotalAlloc - ms0.TotalAlloc
	}()
	retry := dec >= decRetryBase
	if retry {
		dec = map[int]int{9: 3, 10: 5, 11: 6, 12: 8}[dec]
	}
	// drive calls next until io.EOF; without retry it stops at the first error, with
	// retry it keeps calling (at most 64 errors).
	drive := func(next func() error) {
		errs := 0
		for {
			err := next()
			if err == io.EOF {
				return
			}
			if err != nil {
				res.Err = true
				errs++
				if !retry || errs >= 64 {
					return
				}
				res.Retries++
				continue
			}
			res.Records++
			if res.Records > limit {
				res.NoProgress = true
				return
			}
		}
	}
	switch dec {
	case 0:
		t, err := model3d.ReadSTL(rd)
		res.Records, res.Err = len(t), err != nil
	case 1:
		t, err := model3d.ReadOFF(rd)
		res.Records, res.Err = len(t), err != nil
	case 2:
		t, _, err := model3d.ReadColorPLY(rd)
		res.Records, res.Err = len(t), err != nil
	case 3:
		p, err := fileformats.NewPLYReader(rd)
		if err != nil {
			res.Err = true
			return
		}
		drive(func() error {
			_, _, err := p.Read()
			return err
		})
	case 4:
		_, err := fileformats.NewPLYHeaderDecode(string(data))
		res.Err = err != nil
	case 5:
		o, err := fileformats.NewOFFReader(rd)
		if err != nil {
			res.Err = true
			return
		}
		drive(func() error {
			_, err := o.ReadFace()
			return err
		})
	case 6:
		s, err := fileformats.NewSTLReader(rd)
		if err != nil {
			res.Err = true
			return
		}
		drive(func() error {
			_, _, err := s.ReadTriangle()
			return err
		})
	case 7:
		if mode != modePlain {
			b, _ := io.ReadAll(rd)
			data = b
		}
		s, err := model2d.DecodeCSV(data)
		res.Records, res.Err = len(s), err != nil
	case 8:
		c := fileformats.NewSegmentCSVReader(rd)
		drive(func() error {
			_, err := c.Read()
			return err
		})
	}
	return
}

func panicSite(stack string) string {
	for _, line := range strings.Split(stack, "\n") {
		if strings.HasPrefix(line, "github.com/unixpickle/model3d/") {
			line = strings.TrimPrefix(line, "github.com/unixpickle/model3d/")
			if i := strings.LastIndex(line, "("); i > 0 {
				line = line[:i]
			}
			return strings.Replace(line, "[...]", "", -1)
		}
	}
	return "unknown"
}

// childMain serves cases from stdin: header line "dec mode k len\n" followed
// by len raw bytes; replies one JSON line per case.
func childMain() {
	lim := syscall.Rlimit{Cur: 3 << 30, Max: 3 << 30}
	syscall.Setrlimit(syscall.RLIMIT_AS, &lim)
	runtime.GOMAXPROCS(2)
	in := bufio.NewReaderSize(os.Stdin, 1<<16)
	out := bufio.NewWriter(os.Stdout)
	for {
		var hdr [16]byte
		if _, err := io.ReadFull(in, hdr[:]); err != nil {
			return
		}
		dec := int(binary.LittleEndian.Uint32(hdr[0:]))
		mode := int(binary.LittleEndian.Uint32(hdr[4:]))
		k := int(binary.LittleEndian.Uint32(hdr[8:]))
		n := int(binary.LittleEndian.Uint32(hdr[12:]))
		data := make([]byte, n)
		if _, err := io.ReadFull(in, data); err != nil {
			return
		}
		res := runDecoder(dec, mode, k, data)
		b, _ := json.Marshal(res)
		out.Write(b)
		out.WriteByte('\n')
		out.Flush()
	}
}
