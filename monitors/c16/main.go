// C16 — Decoders reject malformed input with an error instead of crashing.
// Fault enumeration: every truncation point, every single-field corruption,
// byte corruptions, reader faults and structured random inputs of a corpus of
// valid files are fed to every decoder inside worker child processes that
// watch for panics, non-progress, disproportionate allocation, fatal errors
// and hangs. DESIGN.md C16.
package main

import (
	"bufio"
	"bytes"
	"encoding/binary"
	"encoding/hex"
	"encoding/json"
	"fmt"
	"hash/fnv"
	"io"
	"math/rand"
	"os"
	"os/exec"
	"strings"
	"sync"
	"time"

	"verif/vlib"
)

type worker struct {
	cmd    *exec.Cmd
	in     io.WriteCloser
	lines  chan []byte
	stderr *tailBuffer
}

type tailBuffer struct {
	mu  sync.Mutex
	buf []byte
}

func (t *tailBuffer) Write(p []byte) (int, error) {
	t.mu.Lock()
	t.buf = append(t.buf, p...)
	if len(t.buf) > 1<<16 {
		t.buf = t.buf[len(t.buf)-1<<15:]
	}
	t.mu.Unlock()
	return len(p), nil
}
func (t *tailBuffer) String() string {
	t.mu.Lock()
	defer t.mu.Unlock()
	return string(t.buf)
}

func startWorker() *worker {
	cmd := exec.Command(os.Args[0], "-c16child")
	cmd.Env = append(os.Environ(), "C16_CHILD=1")
	in, err := cmd.StdinPipe()
	if err != nil {
		panic(err)
	}
	out, err := cmd.StdoutPipe()
	if err != nil {
		panic(err)
	}
	w := &worker{cmd: cmd, in: in, lines: make(chan []byte, 1), stderr: &tailBuffer{}}
	cmd.Stderr = w.stderr
	if err := cmd.Start(); err != nil {
		panic(err)
	}
	go func() {
		r := bufio.NewReaderSize(out, 1<<16)
		for {
			line, err := r.ReadBytes('\n')
			if err != nil {
				close(w.lines)
				return
			}
			w.lines <- line
		}
	}()
	return w
}

func (w *worker) kill() {
	w.in.Close()
	w.cmd.Process.Kill()
	w.cmd.Wait()
}

// finish lets an idle worker end by itself at end of input (so that a coverage-instrumented
// child, tools/coverage.sh, writes its counters), and kills it if it does not within a second.
func (w *worker) finish() {
	w.in.Close()
	done := make(chan struct{})
	go func() { w.cmd.Wait(); close(done) }()
	select {
	case <-done:
	case <-time.After(time.Second):
		w.cmd.Process.Kill()
		<-done
	}
}

const (
	stOK = iota
	stDied
	stTimeout
)

func (w *worker) run(tc testCase, timeout time.Duration) (result, int) {
	var hdr [16]byte
	binary.LittleEndian.PutUint32(hdr[0:], uint32(tc.dec))
	binary.LittleEndian.PutUint32(hdr[4:], uint32(tc.mode))
	binary.LittleEndian.PutUint32(hdr[8:], uint32(tc.k))
	binary.LittleEndian.PutUint32(hdr[12:], uint32(len(tc.data)))
	if _, err := w.in.Write(append(hdr[:], tc.data...)); err != nil {
		return result{}, stDied
	}
	select {
	case line, ok := <-w.lines:
		if !ok {
			return result{}, stDied
		}
		var res result
		if err := json.Unmarshal(line, &res); err != nil {
			return result{}, stDied
		}
		return res, stOK
	case <-time.After(timeout):
		return result{}, stTimeout
	}
}

func faultClass(desc string) string {
	i := strings.Index(desc, "/")
	if i < 0 {
		return desc
	}
	rest := desc[i+1:]
	if strings.HasPrefix(desc, "hand/") {
		return "hand-written"
	}
	if strings.HasPrefix(desc, "random/") {
		return "structured-random"
	}
	if strings.HasPrefix(desc, "plygrammar/") {
		return "ply-grammar-file"
	}
	for _, p := range []string{"truncate", "transient-read-error", "read-error", "stalled-source", "trailing-data", "token", "byte", "count", "valid"} {
		if strings.HasPrefix(rest, p) {
			return p
		}
	}
	return "other"
}

func main() {
	if os.Getenv("C16_CHILD") == "1" {
		childMain()
		return
	}
	r := vlib.Start("C16", "fault_enumeration")
	r.Rule("corpus of valid STL (binary/ASCII), PLY (ascii/le/be, mesh and generic headers), OFF and CSV files x {every truncation point, reader error after byte k, one-byte reads, every whitespace token replaced by each of 36 hostile tokens, binary count fields and body bytes set to boundary values, single-byte corruptions, hand-written hostile headers, seeded structured random edits}; each case runs one decoder in a child process with RLIMIT_AS=3GiB; events: panic, more records than input bytes+16, TotalAlloc > 256*len+2MiB (+2MiB per call made after an error), fatal error, hang. Non-trivial = any case other than the unmodified valid file; distinct by hash(decoder, mode, k, bytes)")
	r.Assume("a decoder returning an error or data is fine; only panics, non-progress, disproportionate allocation, fatal errors and hangs are violations")
	r.Assume("allocation is measured as runtime.MemStats.TotalAlloc delta around the call in the child")

	r.Section("faults", 1, vlib.SectionOpts{Sequential: true, Watchdog: 40 * time.Minute}, func(c *vlib.Case) {
		rng := rand.New(rand.NewSource(c.SubSeed))
		seeds := seedCorpus()
		var cases []testCase
		seen := map[uint64]bool{}
		emit := func(tc testCase) {
			h := fnv.New64a()
			fmt.Fprintf(h, "%d|%d|%d|", tc.dec, tc.mode, tc.k)
			h.Write(tc.data)
			k := h.Sum64()
			if seen[k] {
				return
			}
			seen[k] = true
			cases = append(cases, tc)
		}
		for _, s := range seeds {
			enumerate(s, rng, r.Quick(), emit)
			// the valid file through every other decoder as well
			for d := range decoderNames {
				emit(testCase{d, modePlain, 0, s.data, s.name + "/valid-cross-decoder"})
			}
		}
		for _, tc := range handWritten() {
			emit(tc)
		}
		for _, tc := range largeFileCases() {
			emit(tc)
			c.Count("class.large-file", 1)
		}
		plyGrammarCases(rng, r.N(12000, 240000), func(tc testCase) {
			emit(tc)
			c.Count("class.ply-grammar", 1)
		})
		randomStructured(rng, seeds, r.N(150000, 3000000), emit)
		c.Count("seed_files", int64(len(seeds)))

		nWorkers := 12
		jobs := make(chan int, 256)
		var wg sync.WaitGroup
		timeout := 30 * time.Second
		for wi := 0; wi < nWorkers; wi++ {
			wg.Add(1)
			go func() {
				defer wg.Done()
				w := startWorker()
				defer func() { w.finish() }()
				for idx := range jobs {
					tc := cases[idx]
					res, st := w.run(tc, timeout)
					if st == stTimeout {
						w.kill()
						w = startWorker()
						c.Undecided("watchdog-first-firing")
						res, st = w.run(tc, 3*timeout)
						if st == stTimeout {
							report(c, tc, "hang", fmt.Sprintf("decoder did not return within %v (twice, second time alone with 3x the limit)", 3*timeout), "")
							w.kill()
							w = startWorker()
							continue
						}
					}
					if st == stDied {
						tail := w.stderr.String()
						w.kill()
						w = startWorker()
						kind := "fatal/" + fatalSite(tail)
						if strings.Contains(tail, "out of memory") || strings.Contains(tail, "cannot allocate") {
							kind = "fatal-out-of-memory/" + fatalSite(tail)
						}
						report(c, tc, kind, "the decoding process died: "+firstLines(tail, 3), tail)
						continue
					}
					name := decoderNames[tc.dec]
					c.Count("cases."+name, 1)
					c.Count("class."+faultClass(tc.desc), 1)
					if res.Err {
						c.Count("outcome.error", 1)
					} else {
						c.Count("outcome.data", 1)
					}
					if res.Panic != "" {
						report(c, tc, "panic/"+res.Site, "panic: "+res.Panic, res.Stack)
					}
					if res.NoProgress {
						report(c, tc, "non-progress", fmt.Sprintf("reader returned more than len(input)+16 = %d records without an error", len(tc.data)+16), "")
					}
					if tc.mode == modeStalledAt {
						c.Max("stalled_source.max_fruitless_read_calls", float64(res.Stalled))
						// a decoder may retry a temporary error a few times (each of up to 64
						// calls-after-error may do so again), but not wait for a source that never recovers
						if res.Stalled > 1000*(1+res.Retries) {
							report(c, tc, "gives-up-on-a-stalled-source", fmt.Sprintf("kept calling Read %d times on a source that answered every call with a temporary error and no data", res.Stalled), "")
						}
					}
					limit := uint64(256*len(tc.data) + 2<<20)
					if len(tc.data) > 1<<20 {
						// for megabyte-sized inputs the fixed costs no longer matter: 16x the input
						// (an honest 7 MB binary STL costs about 3.5x)
						limit = uint64(16*len(tc.data) + 2<<20)
					}
					// every further call made after an error may again cost the fixed part
					// (e.g. the bounded capacity hint of the OFF vertex table)
					limit += uint64(res.Retries) * (2 << 20)
					c.Count("calls_after_error", int64(res.Retries))
					c.Max("alloc_over_input_bytes."+decoderNames[tc.dec], float64(res.Alloc)/float64(len(tc.data)+1))
					if res.Alloc > limit {
						report(c, tc, "alloc", fmt.Sprintf("allocated %d bytes for a %d-byte input (limit %d: 256*len+2MiB, 16*len+2MiB above 1 MiB)", res.Alloc, len(tc.data), limit), "")
					}
					c.Max("max_alloc_bytes", float64(res.Alloc))
					if !strings.HasSuffix(tc.desc, "/valid") {
						c.Nontrivial(fmt.Sprintf("%d|%d|%d|%x", tc.dec, tc.mode, tc.k, fnvBytes(tc.data)))
					}
				}
			}()
		}
		for i := range cases {
			jobs <- i
		}
		close(jobs)
		wg.Wait()
		c.Count("cases.total", int64(len(cases)))
		c.Evaluations(int64(len(cases)) - 1) // the enclosing Case counts as one
		for i := 0; i < 3 && i < len(cases); i++ {
			tc := cases[(i*7919+13)%len(cases)]
			c.Sample("fault-case", 3, map[string]interface{}{"decoder": decoderNames[tc.dec], "what": tc.desc, "bytes": len(tc.data), "head": string(printable(tc.data, 80))})
		}
	})
	r.Require("cases.total", 20000)
	r.Require("class.truncate", 1000)
	r.Require("class.token", 1000)
	r.Require("class.read-error", 500)
	r.Require("class.transient-read-error", 500)
	r.Require("class.stalled-source", 200)
	r.Require("class.ply-grammar-file", 1000)
	for _, n := range decoderNames {
		r.Require("cases."+n, 200)
	}
	r.Finish()
}

func fnvBytes(b []byte) uint64 {
	h := fnv.New64a()
	h.Write(b)
	return h.Sum64()
}

func printable(b []byte, n int) []byte {
	if len(b) > n {
		b = b[:n]
	}
	out := make([]byte, len(b))
	for i, ch := range b {
		if ch < 32 && ch != '\n' || ch > 126 {
			ch = '.'
		}
		out[i] = ch
	}
	return out
}

func firstLines(s string, n int) string {
	lines := strings.Split(strings.TrimSpace(s), "\n")
	// find the "fatal error" / "panic" line
	for i, l := range lines {
		if strings.HasPrefix(l, "fatal error") || strings.HasPrefix(l, "panic") || strings.HasPrefix(l, "runtime:") {
			lines = lines[i:]
			break
		}
	}
	if len(lines) > n {
		lines = lines[:n]
	}
	return strings.Join(lines, " | ")
}

func fatalSite(stderr string) string {
	for _, line := range strings.Split(stderr, "\n") {
		line = strings.TrimSpace(line)
		if strings.HasPrefix(line, "github.com/unixpickle/model3d/") {
			line = strings.TrimPrefix(line, "github.com/unixpickle/model3d/")
			if i := strings.LastIndex(line, "("); i > 0 {
				line = line[:i]
			}
			return strings.Replace(line, "[...]", "", -1)
		}
	}
	return "unknown"
}

func report(c *vlib.Case, tc testCase, kind, what, stack string) {
	key := decoderNames[tc.dec] + "/" + kind
	wit := map[string]interface{}{
		"decoder": decoderNames[tc.dec], "fault": tc.desc, "reader_mode": tc.mode, "error_at": tc.k,
		"input_len": len(tc.data), "input_hex": hex.EncodeToString(capBytes(tc.data, 4096)), "input_text": string(printable(tc.data, 600)),
	}
	if stack != "" {
		wit["stack"] = stack
	}
	c.Violation(key, what+" [input: "+tc.desc+"]", wit)
}

func capBytes(b []byte, n int) []byte {
	if len(b) > n {
		return b[:n]
	}
	return b
}

var _ = bytes.NewReader
