package main

// Large genuine files with a corrupted count: decoders that size a buffer from the header only
// after some amount of real data has been read cannot be driven there by small files.

import (
	"encoding/binary"
	"math"
)

// largeBinarySTL writes n distinct triangles in the 50-byte binary record format.
func largeBinarySTL(n int) []byte {
	data := make([]byte, 84+50*n)
	copy(data, "large binary stl")
	binary.LittleEndian.PutUint32(data[80:], uint32(n))
	for i := 0; i < n; i++ {
		off := 84 + 50*i
		x, y := float32(i%400), float32(i/400)
		vals := [12]float32{0, 0, 1, x, y, 0, x + 1, y, 0, x, y + 1, 0}
		for k, v := range vals {
			binary.LittleEndian.PutUint32(data[off+4*k:], math.Float32bits(v))
		}
	}
	return data
}

func largeFileCases() []testCase {
	var res []testCase
	const n = 140000
	stl := largeBinarySTL(n)
	for _, dec := range []int{0, 6} {
		res = append(res, testCase{dec, modePlain, 0, stl, "large/binary-stl-honest"})
		for _, count := range []uint32{n + 2000000, 0x7fffffff, 0xffffffff, n + 1} {
			d := append([]byte{}, stl...)
			binary.LittleEndian.PutUint32(d[80:], count)
			res = append(res, testCase{dec, modePlain, int(count % 1000003), d, "large/binary-stl-count-inflated"})
		}
		// the same inflated counts on a file cut in the middle of the records
		d := append([]byte{}, stl[:84+50*(n*3/4)+17]...)
		binary.LittleEndian.PutUint32(d[80:], 0xffffffff)
		res = append(res, testCase{dec, modePlain, 1, d, "large/binary-stl-truncated-count-inflated"})
	}
	return res
}
