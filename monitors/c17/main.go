// C17 — Numerical and curve kernels satisfy their defining equations.
// Residual monitors: every kernel is run on inputs of known conditioning
// (matrices from chosen singular values / eigenvalues and random orthogonal
// factors, polynomials from chosen roots, diagonally dominant sparse systems,
// logged objectives) and its result is put back into the defining equation,
// which is evaluated by independent code (ref.go). DESIGN.md C17.
package main

import (
	"verif/vlib"
)

func main() {
	r := vlib.Start("C17", "exploration")
	r.ScaleQuick(3) // quick tier: 3x the case counts written at the sections (still well under a minute)
	r.Rule("seeded inputs with known conditioning: dense 2x2/3x3/4x4 matrices U*diag(sigma)*V^T (sigma ratios <= 0.9, kappa <= 100 for SVD, <= 1e4 for inverses) plus exactly representable special matrices; Schur forms Q*T*Q^T with chosen real/complex eigenvalues (gaps >= 0.3); polynomials of degree 1-8 multiplied out from chosen roots (real roots >= 0.1 apart in [-5,5], complex pairs with |Im| >= 0.1, leading zero coefficients, scales 1e-3..1e3), decided only when eps*cond(root) <= 1e-12 (normwise); strictly diagonally dominant sparse SPD systems of 1..400 unknowns over random/banded/grid/multi-component/star/dense graphs with random relabelling and insertion order; diagonally dominant non-symmetric systems for BiCGSTAB; unimodal and rough logged objectives for the optimisers; angles up to +-1e6 and at multiples of pi; Bezier control polygons of 2..18 points, x-monotone polygons for InverseX, polylines of 1..8 segments; non-trivial = every decided case (each is a distinct random instance); distinct by kernel + leading input bits")
	r.Assume("the reference arithmetic (Jacobi eigen-solver, Gaussian elimination, de Casteljau, Faddeev-LeVerrier, Horner) is correct; tolerances are multiples of eps*condition stated next to each check")
	r.Assume("LineSearch / GridSearch with Recursions > 0 are documented to re-sample only around the previous best point, so 'at least as good as every sample' is demanded of the final level (and of all samples when Recursions = 0, and always for GSS and RecursiveLineSearch)")
	r.Assume("Matrix4.SVD ordering of singular values is recorded as an observation, not demanded (the property demands reconstruction)")
	r.Assume("BezierCurve.Length is held to its tolerance only when the documented subdivision budget is not exhausted; the cubic path (heuristic error estimate) is held to 10x the tolerance")

	denseSections(r)
	leastSquaresSection(r)
	sparseSections(r)
	polySection(r)
	optimSections(r)
	anglesSection(r)
	coordsSection(r)
	curveSections(r)

	// clauses of the property statement
	for _, k := range []string{
		"numerical.Matrix2.Inverse", "numerical.Matrix3.Inverse", "model2d.Matrix2.Inverse", "model3d.Matrix3.Inverse",
		"numerical.Matrix2.SVD", "numerical.Matrix3.SVD", "numerical.Matrix4.SVD", "model2d.Matrix2.SVD", "model3d.Matrix3.SVD",
		"numerical.Matrix2.Eigenvalues", "numerical.Matrix3.Eigenvalues", "model2d.Matrix2.Eigenvalues", "model3d.Matrix3.Eigenvalues",
		"numerical.NewMatrix3Rotation", "model3d.NewMatrix3Rotation", "numerical.NewMatrix2Rotation",
		"numerical.Matrix4.CharPoly",
		"numerical.Vec3.OrthoBasis", "numerical.Vec4.OrthoBasis", "model3d.Coord3D.OrthoBasis",
		"numerical.LeastSquares3", "numerical.LeastSquaresReg3", "lsq.rank-two",
		"numerical.SparseCholesky", "numerical.SparseMatrix.RCM", "numerical.SparseMatrix.Permute",
		"numerical.BiCGSTABSolver.SolveLinearSystem",
		"numerical.Polynomial.RealRoots.linear", "numerical.Polynomial.RealRoots.quadratic", "numerical.Polynomial.RealRoots.cubic", "numerical.Polynomial.RealRoots.bracketing",
		"poly.with_complex_pairs", "poly.with_leading_zero_coefficients", "poly.real_roots_0",
		"numerical.GSS", "numerical.LineSearch.Maximize", "numerical.LineSearch.Minimize",
		"numerical.GridSearch2D.Maximize", "numerical.GridSearch3D.Minimize",
		"toolbox3d.CanonicalAngle", "toolbox3d.AngleDist", "angles.canonical.negative_inputs", "angles.dist.mixed_sign_pairs",
		"model2d.BezierCurve.Eval.linear", "model2d.BezierCurve.Eval.quadratic", "model2d.BezierCurve.Eval.cubic", "model2d.BezierCurve.Eval.binomial", "model2d.BezierCurve.Eval.recursive",
		"model2d.BezierCurve.Split", "model2d.BezierCurve.Polynomials", "bezier.inverse_x.in_range",
		"model2d.BezierCurve.Length.adaptive", "model2d.BezierCurve.Length.cubic",
		"model2d.JoinedCurve.Eval", "segment_curve.multi_segment_polylines", "model2d.SegmentCurve.Eval.interior", "model2d.CurveMesh",
	} {
		r.Require(k, 50)
	}
	r.Require("cholesky.systems_with_10_or_more_unknowns", 100)
	r.Require("gss.evaluations_logged", 1000)
	r.Require("linesearch.evaluations_logged", 1000)
	r.Require("recursive_linesearch.evaluations_logged", 1000)
	r.Require("gridsearch.evaluations_logged", 1000)
	r.Finish()
}
