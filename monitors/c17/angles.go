package main

// Angle helpers (toolbox3d.CanonicalAngle / AngleDist) and the coordinate /
// vector helpers of the anchored files (coords.go, vecs.go).

import (
	"fmt"
	"math"
	"math/rand"

	"github.com/unixpickle/model3d/model2d"
	"github.com/unixpickle/model3d/model3d"
	"github.com/unixpickle/model3d/numerical"
	"github.com/unixpickle/model3d/toolbox3d"
	"verif/vlib"
)

func genTheta(rng *rand.Rand) (float64, string) {
	switch rng.Intn(8) {
	case 0:
		return float64(rng.Intn(41)-20) * math.Pi, "multiple-of-pi"
	case 1:
		k := float64(rng.Intn(41) - 20)
		return k*math.Pi + rng.NormFloat64()*1e-9, "near-multiple-of-pi"
	case 2:
		return (rng.Float64()*2 - 1) * 1e6, "large"
	case 3:
		return -rng.Float64() * 2 * math.Pi, "negative-first-turn"
	case 4:
		return -logUniform(rng, 1e-300, 1e-3), "tiny-negative"
	case 5:
		return []float64{0, math.Copysign(0, -1), 2 * math.Pi, -2 * math.Pi, math.Pi / 2, -math.Pi / 2}[rng.Intn(6)], "special"
	default:
		return (rng.Float64()*2 - 1) * 20, "moderate"
	}
}

func anglesSection(r *vlib.Run) {
	twoPi := 2 * math.Pi
	r.Section("angles", r.N(40000, 1000000), vlib.SectionOpts{}, func(c *vlib.Case) {
		rng := c.Rng
		t1, k1 := genTheta(rng)
		t2, k2 := genTheta(rng)
		got := toolbox3d.CanonicalAngle(t1)
		w := map[string]interface{}{"theta": t1, "theta_hex": fmt.Sprintf("%x", t1), "kind": k1, "returned": got}
		if !(got >= 0 && got < twoPi) {
			c.Violationf("toolbox3d.CanonicalAngle/range", w, "CanonicalAngle(%g) = %g is outside [0, 2*pi)", t1, got)
		}
		// congruence modulo 2*pi: fmod is exact, so the only rounding is in the
		// additions that bring a negative angle into range; a correct
		// implementation may add 2*pi once per turn, each time rounding at
		// magnitude |theta| (|theta|/(2*pi) additions of error eps*|theta|/2)
		ctol := angleTol(t1)
		if d := math.Abs(math.Remainder(got-t1, twoPi)); !(d <= ctol) {
			w["offset_mod_2pi"] = d
			c.Violationf("toolbox3d.CanonicalAngle/congruent", w, "CanonicalAngle(%g) = %g is not congruent to the input modulo 2*pi (off by %g)", t1, got, d)
		}
		c.Count("toolbox3d.CanonicalAngle", 1)
		c.Count("angles.canonical."+k1, 1)
		if t1 < 0 {
			c.Count("angles.canonical.negative_inputs", 1)
		}

		ref := math.Abs(math.Remainder(t1-t2, twoPi))
		d := toolbox3d.AngleDist(t1, t2)
		dtol := 1e-12 + angleTol(t1) + angleTol(t2)
		w2 := map[string]interface{}{"theta1": t1, "theta2": t2, "theta1_hex": fmt.Sprintf("%x", t1), "theta2_hex": fmt.Sprintf("%x", t2), "kinds": k1 + "," + k2, "returned": d, "reference": ref}
		if !(math.Abs(d-ref) <= dtol) {
			c.Violationf("toolbox3d.AngleDist/circular-distance", w2, "AngleDist(%g, %g) = %g, circular distance is %g", t1, t2, d, ref)
		}
		if d2 := toolbox3d.AngleDist(t2, t1); !(math.Abs(d2-d) <= dtol) {
			c.Violationf("toolbox3d.AngleDist/symmetric", w2, "AngleDist(a,b)=%g but AngleDist(b,a)=%g", d, d2)
		}
		c.Count("toolbox3d.AngleDist", 1)
		if (t1 < 0) != (t2 < 0) {
			c.Count("angles.dist.mixed_sign_pairs", 1)
		}
		cmax(c, "angles.dist_error", math.Abs(d-ref))
		c.Nontrivial(fmt.Sprintf("ang|%x|%x", t1, t2))
		c.Sample("angles."+k1, 1, w)
	})
}

func coordsSection(r *vlib.Run) {
	r.Section("coords", r.N(6000, 100000), vlib.SectionOpts{}, func(c *vlib.Case) {
		rng := c.Rng
		draw := func() float64 {
			if rng.Intn(4) == 0 {
				return float64(rng.Intn(7) - 3)
			}
			return rng.NormFloat64() * logUniform(rng, 1e-2, 1e2)
		}
		a := [3]float64{draw(), draw(), draw()}
		b := [3]float64{draw(), draw(), draw()}
		if a == [3]float64{} {
			a[0] = 1
		}
		if b == [3]float64{} {
			b[1] = 1
		}
		w := map[string]interface{}{"a": a, "b": b, "a_hex": hexs(a[:]), "b_hex": hexs(b[:])}
		dot := func(x, y [3]float64) float64 { return x[0]*y[0] + x[1]*y[1] + x[2]*y[2] }
		na, nb := math.Sqrt(dot(a, a)), math.Sqrt(dot(b, b))
		near := func(x, y, scale float64) bool { return math.Abs(x-y) <= 1e-12*scale }

		// model3d.Coord3D
		ca, cb := model3d.XYZ(a[0], a[1], a[2]), model3d.XYZ(b[0], b[1], b[2])
		s3 := na*nb + na*na + nb*nb
		fail := func(name, what string) { c.Violation("model3d.Coord3D."+name, what, w) }
		if !near(ca.Dot(cb), dot(a, b), s3) {
			fail("Dot/value", "Dot")
		}
		cr := ca.Cross(cb)
		if !near(cr.X, a[1]*b[2]-a[2]*b[1], s3) || !near(cr.Y, a[2]*b[0]-a[0]*b[2], s3) || !near(cr.Z, a[0]*b[1]-a[1]*b[0], s3) {
			fail("Cross/value", "Cross")
		}
		if !near(ca.Norm(), na, na) || !near(ca.NormSquared(), na*na, na*na) {
			fail("Norm/value", "Norm/NormSquared")
		}
		dd := [3]float64{a[0] - b[0], a[1] - b[1], a[2] - b[2]}
		if !near(ca.Dist(cb), math.Sqrt(dot(dd, dd)), na+nb) || !near(ca.SquaredDist(cb), dot(dd, dd), s3) ||
			!near(ca.L1Dist(cb), math.Abs(dd[0])+math.Abs(dd[1])+math.Abs(dd[2]), na+nb) {
			fail("Dist/value", "Dist/SquaredDist/L1Dist")
		}
		if ca.Mid(cb) != model3d.XYZ((a[0]+b[0])*0.5, (a[1]+b[1])*0.5, (a[2]+b[2])*0.5) {
			fail("Mid/value", "Mid")
		}
		// axis constructors and element-wise quotient
		if model3d.XZ(a[0], a[2]) != (model3d.Coord3D{X: a[0], Z: a[2]}) || model3d.YZ(a[1], a[2]) != (model3d.Coord3D{Y: a[1], Z: a[2]}) ||
			model3d.XY(a[0], a[1]) != (model3d.Coord3D{X: a[0], Y: a[1]}) || model3d.X(a[0]) != (model3d.Coord3D{X: a[0]}) ||
			model3d.Y(a[1]) != (model3d.Coord3D{Y: a[1]}) || model3d.Z(a[2]) != (model3d.Coord3D{Z: a[2]}) {
			fail("axis-constructors/value", "X/Y/Z/XY/XZ/YZ")
		}
		if b[0] != 0 && b[1] != 0 && b[2] != 0 {
			if q := ca.Div(cb); q != model3d.XYZ(a[0]/b[0], a[1]/b[1], a[2]/b[2]) || cb.Recip() != model3d.XYZ(1/b[0], 1/b[1], 1/b[2]) {
				fail("Div/value", "Div/Recip")
			}
		}
		if ca.Min(cb) != model3d.XYZ(math.Min(a[0], b[0]), math.Min(a[1], b[1]), math.Min(a[2], b[2])) ||
			ca.Max(cb) != model3d.XYZ(math.Max(a[0], b[0]), math.Max(a[1], b[1]), math.Max(a[2], b[2])) {
			fail("Min/value", "Min/Max")
		}
		if ca.MaxCoord() != math.Max(a[0], math.Max(a[1], a[2])) || ca.Sum() != a[0]+a[1]+a[2] ||
			ca.Abs() != model3d.XYZ(math.Abs(a[0]), math.Abs(a[1]), math.Abs(a[2])) {
			fail("MaxCoord/value", fmt.Sprintf("MaxCoord=%g Sum=%g Abs=%v", ca.MaxCoord(), ca.Sum(), ca.Abs()))
		}
		if ca.Mul(cb) != model3d.XYZ(a[0]*b[0], a[1]*b[1], a[2]*b[2]) || ca.Sub(cb) != model3d.XYZ(dd[0], dd[1], dd[2]) ||
			ca.AddScalar(b[0]) != model3d.XYZ(a[0]+b[0], a[1]+b[0], a[2]+b[0]) || ca.Array() != a || model3d.NewCoord3DArray(a) != ca {
			fail("Mul/value", "Mul/Sub/AddScalar/Array")
		}
		n := ca.Normalize()
		if !near(n.Norm(), 1, 1) || !near(n.X*na, a[0], na) {
			fail("Normalize/unit", "Normalize")
		}
		// ProjectOut: orthogonal to b, and a - result parallel to b
		po := ca.ProjectOut(cb)
		rem := ca.Sub(po)
		if !(math.Abs(po.Dot(cb)) <= 1e-12*na*nb) || !(rem.Cross(cb).Norm() <= 1e-12*na*nb) {
			fail("ProjectOut/orthogonal", fmt.Sprintf("ProjectOut = %v", po))
		}
		// Reflect c1 around c: 2 (n.c1) n - c1
		un := [3]float64{a[0] / na, a[1] / na, a[2] / na}
		k := 2 * dot(un, b)
		rf := ca.Reflect(cb)
		if !near(rf.X, k*un[0]-b[0], nb) || !near(rf.Y, k*un[1]-b[1], nb) || !near(rf.Z, k*un[2]-b[2], nb) {
			fail("Reflect/value", fmt.Sprintf("Reflect = %v", rf))
		}
		// geographic coordinates
		g := ca.Geo()
		back := g.Coord3D()
		if !(g.Lat >= -math.Pi/2 && g.Lat <= math.Pi/2 && g.Lon >= -math.Pi && g.Lon <= math.Pi) {
			c.Violation("model3d.Coord3D.Geo/range", fmt.Sprintf("Geo = %+v", g), w)
		}
		if !(back.Dist(n) <= 1e-7) {
			c.Violation("model3d.GeoCoord.Coord3D/roundtrip", fmt.Sprintf("Geo().Coord3D() = %v, direction %v", back, n), w)
		}
		g2 := cb.Geo()
		ub := [3]float64{b[0] / nb, b[1] / nb, b[2] / nb}
		cx := [3]float64{un[1]*ub[2] - un[2]*ub[1], un[2]*ub[0] - un[0]*ub[2], un[0]*ub[1] - un[1]*ub[0]}
		refAngle := math.Atan2(math.Sqrt(dot(cx, cx)), dot(un, ub))
		if d := g.Distance(g2); !(math.Abs(d-refAngle) <= 1e-6) {
			c.Violation("model3d.GeoCoord.Distance/great-circle", fmt.Sprintf("Distance=%g, angle between directions=%g", d, refAngle), w)
		}
		gn := model3d.GeoCoord{Lat: g.Lat + 2*math.Pi*float64(rng.Intn(3)-1), Lon: g.Lon + 2*math.Pi*float64(rng.Intn(3)-1)}.Normalize()
		if !(gn.Coord3D().Dist(n) <= 1e-7) {
			c.Violation("model3d.GeoCoord.Normalize/position", fmt.Sprintf("Normalize = %+v", gn), w)
		}
		for name, p := range map[string]model2d.Coord{"XY": ca.XY(), "XZ": ca.XZ(), "YX": ca.YX(), "YZ": ca.YZ(), "ZX": ca.ZX(), "ZY": ca.ZY(), "Coord2D": ca.Coord2D()} {
			idx := map[byte]int{'X': 0, 'Y': 1, 'Z': 2}
			nm := name
			if nm == "Coord2D" {
				nm = "XY"
			}
			if p.X != a[idx[nm[0]]] || p.Y != a[idx[nm[1]]] {
				c.Violation("model3d.Coord3D."+name+"/projection", fmt.Sprintf("%s() = %v", name, p), w)
			}
		}
		c.Count("model3d.Coord3D.helpers", 1)

		// model2d.Coord
		pa, pb := model2d.XY(a[0], a[1]), model2d.XY(b[0], b[1])
		if pa == (model2d.Coord{}) {
			pa.X = 1
		}
		if pb == (model2d.Coord{}) {
			pb.Y = 1
		}
		fail2 := func(name, what string) { c.Violation("model2d.Coord."+name, what, w) }
		n2a, n2b := math.Hypot(pa.X, pa.Y), math.Hypot(pb.X, pb.Y)
		s2 := n2a*n2b + n2a*n2a + n2b*n2b
		if !near(pa.Dot(pb), pa.X*pb.X+pa.Y*pb.Y, s2) || !near(pa.Norm(), n2a, n2a) || !near(pa.NormSquared(), n2a*n2a, n2a*n2a) {
			fail2("Dot/value", "Dot/Norm")
		}
		if !near(pa.Dist(pb), math.Hypot(pa.X-pb.X, pa.Y-pb.Y), n2a+n2b) || !near(pa.SquaredDist(pb), (pa.X-pb.X)*(pa.X-pb.X)+(pa.Y-pb.Y)*(pa.Y-pb.Y), s2) ||
			!near(pa.L1Dist(pb), math.Abs(pa.X-pb.X)+math.Abs(pa.Y-pb.Y), n2a+n2b) {
			fail2("Dist/value", "Dist/SquaredDist/L1Dist")
		}
		if pa.Mid(pb) != model2d.XY((pa.X+pb.X)*0.5, (pa.Y+pb.Y)*0.5) || pa.Min(pb) != model2d.XY(math.Min(pa.X, pb.X), math.Min(pa.Y, pb.Y)) ||
			pa.Max(pb) != model2d.XY(math.Max(pa.X, pb.X), math.Max(pa.Y, pb.Y)) || pa.MaxCoord() != math.Max(pa.X, pa.Y) ||
			pa.Sum() != pa.X+pa.Y || pa.Abs() != model2d.XY(math.Abs(pa.X), math.Abs(pa.Y)) || pa.Mul(pb) != model2d.XY(pa.X*pb.X, pa.Y*pb.Y) ||
			pa.Sub(pb) != model2d.XY(pa.X-pb.X, pa.Y-pb.Y) || pa.Array() != [2]float64{pa.X, pa.Y} {
			fail2("Mid/value", "Mid/Min/Max/MaxCoord/Sum/Abs/Mul/Sub/Array")
		}
		po2 := pa.ProjectOut(pb)
		if !(math.Abs(po2.Dot(pb)) <= 1e-12*n2a*n2b) {
			fail2("ProjectOut/orthogonal", fmt.Sprintf("ProjectOut = %v", po2))
		}
		u2 := [2]float64{pa.X / n2a, pa.Y / n2a}
		k2 := 2 * (u2[0]*pb.X + u2[1]*pb.Y)
		rf2 := pa.Reflect(pb)
		if !near(rf2.X, k2*u2[0]-pb.X, n2b) || !near(rf2.Y, k2*u2[1]-pb.Y, n2b) {
			fail2("Reflect/value", fmt.Sprintf("Reflect = %v", rf2))
		}
		th, rad := rng.Float64()*20-10, rng.Float64()*5
		pp := model2d.NewCoordPolar(th, rad)
		pp3 := model3d.NewCoord2DPolar(th, rad)
		if !near(pp.X, rad*math.Cos(th), rad+1) || !near(pp.Y, rad*math.Sin(th), rad+1) || pp3 != pp {
			fail2("NewCoordPolar/value", fmt.Sprintf("NewCoordPolar(%g,%g) = %v", th, rad, pp))
		}
		c.Count("model2d.Coord.helpers", 1)

		// numerical vectors (the generic Vector / FiniteVector methods)
		checkVec := func(name string, x, y []float64, dist, distSq, norm, dotv, sum float64, mn, mx, proj []float64) {
			var rd, rdot, rs float64
			for i := range x {
				rd += (x[i] - y[i]) * (x[i] - y[i])
				rdot += x[i] * y[i]
				rs += x[i]
			}
			var nx, ny float64
			for i := range x {
				nx += x[i] * x[i]
				ny += y[i] * y[i]
			}
			sc := nx + ny + 1
			if !near(distSq, rd, sc) || !near(dist, math.Sqrt(rd), math.Sqrt(sc)) || !near(norm, math.Sqrt(nx), math.Sqrt(sc)) || !near(dotv, rdot, sc) || !near(sum, rs, math.Sqrt(sc)*4) {
				c.Violation("numerical."+name+".Dist/value", "Dist/DistSquared/Norm/Dot/Sum differ from plain loops", w)
			}
			for i := range x {
				if mn != nil && (mn[i] != math.Min(x[i], y[i]) || mx[i] != math.Max(x[i], y[i])) {
					c.Violation("numerical."+name+".Min/value", "Min/Max differ", w)
				}
			}
			var pd float64
			for i := range proj {
				pd += proj[i] * y[i]
			}
			if !(math.Abs(pd) <= 1e-12*sc) {
				c.Violation("numerical."+name+".ProjectOut/orthogonal", fmt.Sprintf("ProjectOut result has dot %g with the removed direction", pd), w)
			}
		}
		{
			x, y := numerical.Vec2{a[0], a[1]}, numerical.Vec2{b[0], b[1]}
			if y == (numerical.Vec2{}) {
				y[0] = 1
			}
			mn, mx, pr := x.Min(y), x.Max(y), x.ProjectOut(y)
			checkVec("Vec2", x[:], y[:], x.Dist(y), x.DistSquared(y), x.Norm(), x.Dot(y), x.Sum(), mn[:], mx[:], pr[:])
			if x.Len() != 2 || x.At(1) != x[1] || x.WithDim(0, 9) != (numerical.Vec2{9, x[1]}) || x.Add(y).Sub(y).Dist(x) > 1e-12*(na+nb) || x.Zeros() != (numerical.Vec2{}) {
				c.Violation("numerical.Vec2.WithDim/value", "Len/At/WithDim/Add/Sub/Zeros", w)
			}
		}
		{
			x, y := numerical.Vec3(a), numerical.Vec3(b)
			mn, mx, pr := x.Min(y), x.Max(y), x.ProjectOut(y)
			checkVec("Vec3", x[:], y[:], x.Dist(y), x.DistSquared(y), x.Norm(), x.Dot(y), x.Sum(), mn[:], mx[:], pr[:])
			cr := x.Cross(y)
			if !near(cr[0], a[1]*b[2]-a[2]*b[1], s3) || !near(cr[1], a[2]*b[0]-a[0]*b[2], s3) || !near(cr[2], a[0]*b[1]-a[1]*b[0], s3) {
				c.Violation("numerical.Vec3.Cross/value", "Cross", w)
			}
			if x.Len() != 3 || x.At(2) != x[2] || x.WithDim(1, 9) != (numerical.Vec3{x[0], 9, x[2]}) || x.Zeros() != (numerical.Vec3{}) {
				c.Violation("numerical.Vec3.WithDim/value", "Len/At/WithDim/Zeros", w)
			}
		}
		{
			x, y := numerical.Vec4{a[0], a[1], a[2], b[0]}, numerical.Vec4{b[0], b[1], b[2], a[1]}
			mn, mx, pr := x.Min(y), x.Max(y), x.ProjectOut(y)
			checkVec("Vec4", x[:], y[:], x.Dist(y), x.DistSquared(y), x.Norm(), x.Dot(y), x.Sum(), mn[:], mx[:], pr[:])
			if x.Len() != 4 || x.At(3) != x[3] || x.WithDim(3, 9) != (numerical.Vec4{x[0], x[1], x[2], 9}) || x.Zeros() != (numerical.Vec4{}) {
				c.Violation("numerical.Vec4.WithDim/value", "Len/At/WithDim/Zeros", w)
			}
		}
		{
			x, y := numerical.Vec{a[0], a[1], a[2], b[0], b[1]}, numerical.Vec{b[0], b[1], b[2], a[1], a[2]}
			pr := x.ProjectOut(y)
			var sum float64
			for _, v := range x {
				sum += v
			}
			checkVec("Vec", x, y, x.Dist(y), x.DistSquared(y), x.Norm(), x.Dot(y), sum, nil, nil, pr)
			x2 := x.WithDim(2, 9)
			if x.Len() != 5 || x.At(4) != x[4] || x2[2] != 9 || x[2] == 9 && a[2] != 9 || len(x.Zeros()) != 5 || !near(x.NormSquared(), x.Dot(x), x.Dot(x)) {
				c.Violation("numerical.Vec.WithDim/value", "Len/At/WithDim/Zeros/NormSquared", w)
			}
			sd := x.Add(y).Sub(y)
			for i := range sd {
				if !near(sd[i], x[i], na+nb+1) {
					c.Violation("numerical.Vec.Add/value", "Add then Sub does not return the vector", w)
				}
			}
			if sc := x.Scale(2); sc[1] != 2*x[1] {
				c.Violation("numerical.Vec.Scale/value", "Scale", w)
			}
			if nn := x.Normalize().Norm(); !near(nn, 1, 1) {
				c.Violation("numerical.Vec.Normalize/unit", fmt.Sprintf("norm %g", nn), w)
			}
		}
		c.Count("numerical.Vec.helpers", 1)

		// random constructors (global math/rand inside the library): only their
		// documented ranges are checked
		unit := func(name string, norm float64) {
			if !(math.Abs(norm-1) <= 1e-12) {
				c.Violation(name+"/unit-length", fmt.Sprintf("norm %g", norm), nil)
			}
		}
		unit("numerical.NewVec2RandomUnit", numerical.NewVec2RandomUnit().Norm())
		unit("numerical.NewVec3RandomUnit", numerical.NewVec3RandomUnit().Norm())
		unit("numerical.NewVec4RandomUnit", numerical.NewVec4RandomUnit().Norm())
		unit("model2d.NewCoordRandUnit", model2d.NewCoordRandUnit().Norm())
		unit("model3d.NewCoord3DRandUnit", model3d.NewCoord3DRandUnit().Norm())
		unit("model3d.NewCoord2DRandUnit", model3d.NewCoord2DRandUnit().Norm())
		mn3, mx3 := ca.Min(cb), ca.Max(cb)
		if p := model3d.NewCoord3DRandBounds(mn3, mx3); p.Min(mn3) != mn3 || p.Max(mx3) != mx3 {
			c.Violation("model3d.NewCoord3DRandBounds/inside", fmt.Sprintf("%v outside [%v,%v]", p, mn3, mx3), w)
		}
		mn2, mx2 := pa.Min(pb), pa.Max(pb)
		if p := model2d.NewCoordRandBounds(mn2, mx2); p.Min(mn2) != mn2 || p.Max(mx2) != mx2 {
			c.Violation("model2d.NewCoordRandBounds/inside", fmt.Sprintf("%v outside [%v,%v]", p, mn2, mx2), w)
		}
		if p := model3d.NewCoord3DRandUniform(); !(p.Min(model3d.Coord3D{}) == (model3d.Coord3D{}) && p.MaxCoord() < 1) {
			c.Violation("model3d.NewCoord3DRandUniform/unit-cube", fmt.Sprintf("%v", p), nil)
		}
		if p := model2d.NewCoordRandUniform(); !(p.X >= 0 && p.Y >= 0 && p.MaxCoord() < 1) {
			c.Violation("model2d.NewCoordRandUniform/unit-square", fmt.Sprintf("%v", p), nil)
		}
		c.Count("coords.random_constructors", 1)
	})
}

// angleTol bounds the rounding error of reducing theta modulo 2*pi.
func angleTol(theta float64) float64 {
	tol := 16 * eps * (math.Abs(theta) + 8)
	if theta < 0 {
		tol += eps * theta * theta / (2 * math.Pi)
	}
	return tol
}
