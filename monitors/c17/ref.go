package main

// Independent reference arithmetic for the C17 oracles: small dense matrices as
// row-major []float64, random orthogonal factors, Jacobi eigen-solver, Gaussian
// elimination, de Casteljau, polynomial construction. Nothing in this file calls
// the library.

import (
	"fmt"
	"math"
	"math/rand"
	"sort"
	"verif/vlib"
)

const eps = 2.220446049250313e-16

func hexs(xs []float64) []string {
	res := make([]string, len(xs))
	for i, x := range xs {
		res[i] = fmt.Sprintf("%x", x)
	}
	return res
}

func matIdent(n int) []float64 {
	a := make([]float64, n*n)
	for i := 0; i < n; i++ {
		a[i*n+i] = 1
	}
	return a
}

func matMul(n int, a, b []float64) []float64 {
	c := make([]float64, n*n)
	for i := 0; i < n; i++ {
		for j := 0; j < n; j++ {
			var s float64
			for k := 0; k < n; k++ {
				s += a[i*n+k] * b[k*n+j]
			}
			c[i*n+j] = s
		}
	}
	return c
}

func matT(n int, a []float64) []float64 {
	c := make([]float64, n*n)
	for i := 0; i < n; i++ {
		for j := 0; j < n; j++ {
			c[j*n+i] = a[i*n+j]
		}
	}
	return c
}

func matVec(n int, a, x []float64) []float64 {
	y := make([]float64, n)
	for i := 0; i < n; i++ {
		for j := 0; j < n; j++ {
			y[i] += a[i*n+j] * x[j]
		}
	}
	return y
}

func matDiag(d []float64) []float64 {
	n := len(d)
	a := make([]float64, n*n)
	for i, x := range d {
		a[i*n+i] = x
	}
	return a
}

func maxAbs(a []float64) float64 {
	var m float64
	for _, x := range a {
		if ax := math.Abs(x); ax > m || math.IsNaN(ax) {
			m = ax
			if math.IsNaN(ax) {
				return math.Inf(1)
			}
		}
	}
	return m
}

func maxAbsDiff(a, b []float64) float64 {
	d := make([]float64, len(a))
	for i := range a {
		d[i] = a[i] - b[i]
	}
	return maxAbs(d)
}

// refDet is the determinant by Gaussian elimination with partial pivoting.
func refDet(n int, a []float64) float64 {
	m := append([]float64{}, a...)
	det := 1.0
	for c := 0; c < n; c++ {
		p := c
		for r := c + 1; r < n; r++ {
			if math.Abs(m[r*n+c]) > math.Abs(m[p*n+c]) {
				p = r
			}
		}
		if m[p*n+c] == 0 {
			return 0
		}
		if p != c {
			for k := 0; k < n; k++ {
				m[p*n+k], m[c*n+k] = m[c*n+k], m[p*n+k]
			}
			det = -det
		}
		det *= m[c*n+c]
		for r := c + 1; r < n; r++ {
			f := m[r*n+c] / m[c*n+c]
			for k := c; k < n; k++ {
				m[r*n+k] -= f * m[c*n+k]
			}
		}
	}
	return det
}

// refSolve solves a*x = b by Gaussian elimination with partial pivoting.
func refSolve(n int, a, b []float64) []float64 {
	m := append([]float64{}, a...)
	x := append([]float64{}, b...)
	for c := 0; c < n; c++ {
		p := c
		for r := c + 1; r < n; r++ {
			if math.Abs(m[r*n+c]) > math.Abs(m[p*n+c]) {
				p = r
			}
		}
		if p != c {
			for k := 0; k < n; k++ {
				m[p*n+k], m[c*n+k] = m[c*n+k], m[p*n+k]
			}
			x[p], x[c] = x[c], x[p]
		}
		for r := c + 1; r < n; r++ {
			f := m[r*n+c] / m[c*n+c]
			for k := c; k < n; k++ {
				m[r*n+k] -= f * m[c*n+k]
			}
			x[r] -= f * x[c]
		}
	}
	for r := n - 1; r >= 0; r-- {
		s := x[r]
		for k := r + 1; k < n; k++ {
			s -= m[r*n+k] * x[k]
		}
		x[r] = s / m[r*n+r]
	}
	return x
}

// randOrth draws a random orthogonal n x n matrix (modified Gram-Schmidt run
// twice on a Gaussian matrix) with the requested determinant sign (+1/-1).
func randOrth(rng *rand.Rand, n int, detSign int) []float64 {
	for {
		cols := make([][]float64, n)
		ok := true
		for j := 0; j < n && ok; j++ {
			v := make([]float64, n)
			for i := range v {
				v[i] = rng.NormFloat64()
			}
			for pass := 0; pass < 2; pass++ {
				for k := 0; k < j; k++ {
					var d float64
					for i := range v {
						d += v[i] * cols[k][i]
					}
					for i := range v {
						v[i] -= d * cols[k][i]
					}
				}
			}
			var nn float64
			for _, x := range v {
				nn += x * x
			}
			nn = math.Sqrt(nn)
			if nn < 1e-3 {
				ok = false
				break
			}
			for i := range v {
				v[i] /= nn
			}
			cols[j] = v
		}
		if !ok {
			continue
		}
		q := make([]float64, n*n)
		for j := 0; j < n; j++ {
			for i := 0; i < n; i++ {
				q[i*n+j] = cols[j][i]
			}
		}
		d := refDet(n, q)
		if (d > 0) != (detSign > 0) {
			for i := 0; i < n; i++ {
				q[i*n+n-1] = -q[i*n+n-1]
			}
		}
		return q
	}
}

// jacobiEig is the cyclic Jacobi eigenvalue method for a symmetric matrix. It
// returns the eigenvalues in decreasing order and the matching eigenvectors as
// columns.
func jacobiEig(n int, sym []float64) ([]float64, []float64) {
	a := append([]float64{}, sym...)
	v := matIdent(n)
	for sweep := 0; sweep < 60; sweep++ {
		var off float64
		for i := 0; i < n; i++ {
			for j := i + 1; j < n; j++ {
				off += a[i*n+j] * a[i*n+j]
			}
		}
		if off == 0 {
			break
		}
		for p := 0; p < n; p++ {
			for q := p + 1; q < n; q++ {
				if a[p*n+q] == 0 {
					continue
				}
				theta := (a[q*n+q] - a[p*n+p]) / (2 * a[p*n+q])
				t := 1 / (math.Abs(theta) + math.Sqrt(theta*theta+1))
				if theta < 0 {
					t = -t
				}
				c := 1 / math.Sqrt(t*t+1)
				s := t * c
				for k := 0; k < n; k++ {
					akp, akq := a[k*n+p], a[k*n+q]
					a[k*n+p] = c*akp - s*akq
					a[k*n+q] = s*akp + c*akq
				}
				for k := 0; k < n; k++ {
					apk, aqk := a[p*n+k], a[q*n+k]
					a[p*n+k] = c*apk - s*aqk
					a[q*n+k] = s*apk + c*aqk
				}
				for k := 0; k < n; k++ {
					vkp, vkq := v[k*n+p], v[k*n+q]
					v[k*n+p] = c*vkp - s*vkq
					v[k*n+q] = s*vkp + c*vkq
				}
			}
		}
	}
	idx := make([]int, n)
	for i := range idx {
		idx[i] = i
	}
	sort.Slice(idx, func(i, j int) bool { return a[idx[i]*n+idx[i]] > a[idx[j]*n+idx[j]] })
	vals := make([]float64, n)
	vecs := make([]float64, n*n)
	for k, i := range idx {
		vals[k] = a[i*n+i]
		for r := 0; r < n; r++ {
			vecs[r*n+k] = v[r*n+i]
		}
	}
	return vals, vecs
}

// refSingularValues returns the singular values of a (descending) via Jacobi
// on a^T a. Only used for exactly representable special matrices.
func refSingularValues(n int, a []float64) []float64 {
	vals, _ := jacobiEig(n, matMul(n, matT(n, a), a))
	for i, x := range vals {
		vals[i] = math.Sqrt(math.Max(0, x))
	}
	return vals
}

// orthoDefect is max |q^T q - I|.
func orthoDefect(n int, q []float64) float64 {
	return maxAbsDiff(matMul(n, matT(n, q), q), matIdent(n))
}

// faddeevLeVerrier returns the coefficients c0..cn of det(x I - A).
func faddeevLeVerrier(n int, a []float64) []float64 {
	c := make([]float64, n+1)
	c[n] = 1
	m := make([]float64, n*n) // M_0 = 0
	for k := 1; k <= n; k++ {
		// M_k = A*M_{k-1} + c_{n-k+1} I
		am := matMul(n, a, m)
		for i := 0; i < n; i++ {
			am[i*n+i] += c[n-k+1]
		}
		m = am
		amk := matMul(n, a, m)
		var tr float64
		for i := 0; i < n; i++ {
			tr += amk[i*n+i]
		}
		c[n-k] = -tr / float64(k)
	}
	return c
}

// polyFromRoots builds lead * prod (x - r) * prod ((x-re)^2 + im^2) with
// coefficients a0..an.
func polyFromRoots(lead float64, real []float64, cplx [][2]float64) []float64 {
	p := []float64{1}
	mul := func(q []float64) {
		res := make([]float64, len(p)+len(q)-1)
		for i, x := range p {
			for j, y := range q {
				res[i+j] += x * y
			}
		}
		p = res
	}
	for _, r := range real {
		mul([]float64{-r, 1})
	}
	for _, c := range cplx {
		mul([]float64{c[0]*c[0] + c[1]*c[1], -2 * c[0], 1})
	}
	for i := range p {
		p[i] *= lead
	}
	return p
}

func polyEval(p []float64, x float64) float64 {
	var s float64
	for i := len(p) - 1; i >= 0; i-- {
		s = s*x + p[i]
	}
	return s
}

// polyAbsEval is max|a_k| * sum |x|^k: the size of the change of p(x) under
// a perturbation of the coefficients that is small relative to the largest
// coefficient (deflation perturbs coefficients normwise, not componentwise).
func polyAbsEval(p []float64, x float64) float64 {
	var s float64
	ax := math.Abs(x)
	for i := len(p) - 1; i >= 0; i-- {
		s = s*ax + 1
	}
	return s * maxAbs(p)
}

func polyDeriv(p []float64) []float64 {
	if len(p) <= 1 {
		return nil
	}
	d := make([]float64, len(p)-1)
	for i := 1; i < len(p); i++ {
		d[i-1] = p[i] * float64(i)
	}
	return d
}

// deCasteljau evaluates a Bezier curve by repeated linear interpolation.
func deCasteljau(ctrl [][2]float64, t float64) [2]float64 {
	w := append([][2]float64{}, ctrl...)
	for n := len(w) - 1; n > 0; n-- {
		for i := 0; i < n; i++ {
			w[i][0] = w[i][0]*(1-t) + w[i+1][0]*t
			w[i][1] = w[i][1]*(1-t) + w[i+1][1]*t
		}
	}
	return w[0]
}

// deCasteljauSplit returns the control polygons of the two halves at t.
func deCasteljauSplit(ctrl [][2]float64, t float64) (left, right [][2]float64) {
	n := len(ctrl)
	w := append([][2]float64{}, ctrl...)
	left = make([][2]float64, n)
	right = make([][2]float64, n)
	left[0] = w[0]
	right[n-1] = w[n-1]
	for k := 1; k < n; k++ {
		for i := 0; i < n-k; i++ {
			w[i][0] = w[i][0]*(1-t) + w[i+1][0]*t
			w[i][1] = w[i][1]*(1-t) + w[i+1][1]*t
		}
		left[k] = w[0]
		right[n-1-k] = w[n-1-k]
	}
	return
}

func binomial(n, k int) float64 {
	row := make([]float64, n+1)
	row[0] = 1
	for i := 1; i <= n; i++ {
		for j := i; j >= 1; j-- {
			row[j] += row[j-1]
		}
	}
	return row[k]
}

// bezierPowerBasis returns the power-basis coefficients of one coordinate of a
// Bezier curve: a_j = C(n,j) * sum_{i<=j} (-1)^(i+j) C(j,i) b_i.
func bezierPowerBasis(b []float64) []float64 {
	n := len(b) - 1
	res := make([]float64, n+1)
	for j := 0; j <= n; j++ {
		var s float64
		for i := 0; i <= j; i++ {
			term := binomial(j, i) * b[i]
			if (i+j)%2 == 1 {
				term = -term
			}
			s += term
		}
		res[j] = binomial(n, j) * s
	}
	return res
}

func dist2(a, b [2]float64) float64 {
	return math.Hypot(a[0]-b[0], a[1]-b[1])
}

// bezierLengthBounds brackets the arc length: the chord sum over 2^depth
// de Casteljau pieces from below, the control-polygon sum from above.
func bezierLengthBounds(ctrl [][2]float64, depth int) (lo, hi float64) {
	var rec func(c [][2]float64, d int)
	rec = func(c [][2]float64, d int) {
		if d == 0 {
			lo += dist2(c[0], c[len(c)-1])
			for i := 1; i < len(c); i++ {
				hi += dist2(c[i-1], c[i])
			}
			return
		}
		l, r := deCasteljauSplit(c, 0.5)
		rec(l, d-1)
		rec(r, d-1)
	}
	rec(ctrl, depth)
	return
}

func logUniform(rng *rand.Rand, lo, hi float64) float64 {
	return math.Exp(math.Log(lo) + rng.Float64()*(math.Log(hi)-math.Log(lo)))
}

// cmax records a maximum; non-finite values are clamped so that the evidence
// file stays valid JSON.
func cmax(c *vlib.Case, name string, v float64) {
	if math.IsNaN(v) || v > 1e300 {
		v = 1e300
	}
	c.Max(name, v)
}
