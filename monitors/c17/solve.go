package main

// Linear solvers: dense least squares (LeastSquares3 / LeastSquaresReg3),
// sparse matrices (Apply*, Transpose, Permute, RCM), sparse Cholesky and the
// BiCGSTAB solver. Systems are built with a known bound on their condition
// number (diagonal dominance), so residual tolerances are sound.

import (
	"fmt"
	"math"
	"math/rand"

	"github.com/unixpickle/model3d/numerical"
	"verif/vlib"
)

// ---------------------------------------------------------------------------
// least squares

func leastSquaresSection(r *vlib.Run) {
	r.Section("solve.least_squares", r.N(6000, 120000), vlib.SectionOpts{}, func(c *vlib.Case) {
		rng := c.Rng
		kind := []string{"full-rank", "full-rank", "ridge", "rank-two", "equal-weight-axes"}[rng.Intn(5)]
		nRows := 3 + rng.Intn(10)
		scale := logUniform(rng, 1e-2, 1e2)
		rows := make([]numerical.Vec3, nRows)
		b := make([]float64, nRows)
		switch kind {
		case "equal-weight-axes":
			// the three coordinate axes, each measured the same number of times with the same weight:
			// the normal matrix is an exact multiple of the identity (three equal eigenvalues)
			wgt := float64(1+rng.Intn(4)) / 2
			reps := 1 + rng.Intn(3)
			nRows = 3 * reps
			rows, b = make([]numerical.Vec3, nRows), make([]float64, nRows)
			perm := rng.Perm(nRows)
			for i := 0; i < nRows; i++ {
				rows[perm[i]][i%3] = wgt
				b[perm[i]] = float64(rng.Intn(9) - 4)
			}
			scale = wgt
		case "rank-two":
			// all rows are integer combinations of two integer vectors:
			// A^T A has an exactly zero eigenvalue.
			p := [3]float64{float64(rng.Intn(5) - 2), float64(rng.Intn(5) - 2), float64(rng.Intn(5) - 2)}
			q := [3]float64{float64(rng.Intn(5) - 2), float64(rng.Intn(5) - 2), float64(rng.Intn(5) - 2)}
			for i := range rows {
				s, t := float64(rng.Intn(7)-3), float64(rng.Intn(7)-3)
				for k := 0; k < 3; k++ {
					rows[i][k] = s*p[k] + t*q[k]
				}
				b[i] = float64(rng.Intn(9) - 4)
			}
			scale = 1
		default:
			// rows = U diag(s) V^T restricted: draw a well conditioned 3x3
			// factor and random row coefficients.
			kappa := []float64{2, 10, 100}[rng.Intn(3)]
			sv := genSingularValues(rng, 3, kappa, scale)
			orth := randOrth(rng, 3, 1)
			axisRows := rng.Intn(4) == 0
			if axisRows {
				// measurement directions that are right-angle rotations of the axes: the normal matrix
				// is diagonal up to rounding noise (see quarterTurnOrth)
				orth = quarterTurnOrth(rng, 3)
				nRows = 3
				rows, b = rows[:3], b[:3]
			}
			f := matMul(3, matDiag(sv), matT(3, orth))
			for i := range rows {
				coef := []float64{rng.NormFloat64(), rng.NormFloat64(), rng.NormFloat64()}
				if i < 3 {
					coef = []float64{0, 0, 0}
					coef[i] = 1 + rng.Float64()
				}
				for k := 0; k < 3; k++ {
					rows[i][k] = coef[0]*f[k] + coef[1]*f[3+k] + coef[2]*f[6+k]
				}
				b[i] = rng.NormFloat64() * scale
			}
		}
		lambda := 0.0
		if kind == "ridge" {
			lambda = scale * scale * logUniform(rng, 1e-3, 10)
		}
		// normal equations by plain loops
		m := make([]float64, 9)
		rhs := make([]float64, 3)
		for i, row := range rows {
			for p := 0; p < 3; p++ {
				rhs[p] += row[p] * b[i]
				for q := 0; q < 3; q++ {
					m[p*3+q] += row[p] * row[q]
				}
			}
		}
		for p := 0; p < 3; p++ {
			m[p*3+p] += lambda
		}
		vals, vecs := jacobiEig(3, m)
		w := map[string]interface{}{"rows": rows, "b": b, "lambda": lambda, "kind": kind, "normal_matrix_eigenvalues": vals}
		var epsilon float64
		keep := 3
		if kind == "rank-two" {
			if vals[1] < 0.5 {
				c.Undecided("lsq.rank-below-two")
				return
			}
			keep = 2
			// any reading of "lower bound for singular values" keeps the two
			// non-zero directions (>= 0.5) and drops the exact zero.
			epsilon = 1e-6
		} else {
			cond := vals[0] / vals[2]
			if !(cond < 1e6) || vals[2] <= 0 {
				c.Undecided("lsq.ill-conditioned")
				return
			}
			// below the smallest eigenvalue and below its square root, so both
			// readings of epsilon keep every direction
			epsilon = math.Min(vals[2], math.Sqrt(vals[2])) * logUniform(rng, 1e-6, 0.25)
		}
		w["epsilon"] = epsilon
		// reference: x = V diag(1/e_i, kept) V^T rhs
		ref := make([]float64, 3)
		for k := 0; k < keep; k++ {
			var d float64
			for p := 0; p < 3; p++ {
				d += vecs[p*3+k] * rhs[p]
			}
			d /= vals[k]
			for p := 0; p < 3; p++ {
				ref[p] += vecs[p*3+k] * d
			}
		}
		var got numerical.Vec3
		api := "numerical.LeastSquares3"
		if lambda != 0 || rng.Intn(2) == 0 {
			api = "numerical.LeastSquaresReg3"
			got = numerical.LeastSquaresReg3(rows, b, lambda, epsilon)
		} else {
			got = numerical.LeastSquares3(rows, b, epsilon)
		}
		w["result"], w["reference"] = got, ref
		cond := vals[0] / vals[keep-1]
		// The library diagonalises the 3x3 normal matrix through its
		// characteristic polynomial: eigenvalues lose accuracy in proportion to
		// 1/gap when two of them are close. Scale the tolerances accordingly
		// (gap relative to the largest eigenvalue, reference 1%).
		gap := math.Inf(1)
		for k := 1; k < 3; k++ {
			gap = math.Min(gap, (vals[k-1]-vals[k])/vals[0])
		}
		gapFactor := math.Min(1e6, math.Max(1, 0.01/math.Max(gap, 1e-300)))
		// normal-equation residual, relative to |M| |x|
		res := matVec(3, m, got[:])
		var rmax float64
		for p := 0; p < 3; p++ {
			rmax = math.Max(rmax, math.Abs(res[p]-rhs[p]))
		}
		if kind == "rank-two" {
			// the residual of the normal equations also vanishes for the
			// minimum-norm solution (rhs is in the range of M)
		}
		denom := vals[0]*maxAbs(ref) + maxAbs(rhs)
		if denom == 0 {
			denom = 1
		}
		cmax(c, "lsq.normal_residual", rmax/denom/gapFactor)
		if !(rmax <= 1e-9*denom*gapFactor) {
			c.Violationf(api+"/normal-equations", w, "|(A^T A + lambda I) x - A^T b| = %g (scale %g, cond %g)", rmax, denom, cond)
		}
		xerr := maxAbsDiff(got[:], ref)
		xden := maxAbs(ref)
		if xden == 0 {
			xden = maxAbs(rhs) / vals[0]
		}
		if xden > 0 {
			cmax(c, "lsq.solution_error_over_cond", xerr/xden/cond/gapFactor)
			if !(xerr <= 1e-9*cond*gapFactor*xden+1e-300) {
				c.Violationf(api+"/solution", w, "x differs from the reference (pseudo-)solution by %g (|x|=%g, cond %g)", xerr, xden, cond)
			}
		}
		c.Count(api, 1)
		c.Count("lsq."+kind, 1)
		c.Nontrivial(fmt.Sprintf("lsq|%x|%x", rows[0][0], b[0]))
	})
}

// ---------------------------------------------------------------------------
// sparse SPD systems

type sparseSys struct {
	n       int
	entries map[[2]int]float64
	order   [][2]int // insertion order
	adj     [][]int
	cond    float64 // upper bound on the condition number (Gershgorin)
	kind    string
}

func (s *sparseSys) apply(x [][3]float64) [][3]float64 {
	res := make([][3]float64, s.n)
	for _, e := range s.order {
		v := s.entries[e]
		for k := 0; k < 3; k++ {
			res[e[0]][k] += v * x[e[1]][k]
		}
	}
	return res
}

func (s *sparseSys) matrix() *numerical.SparseMatrix {
	m := numerical.NewSparseMatrix(s.n)
	for _, e := range s.order {
		m.Set(e[0], e[1], s.entries[e])
	}
	return m
}

func genSparseSPD(rng *rand.Rand, maxN int) *sparseSys {
	sizes := []int{1, 2, 3, 4, 5, 7, 10, 16, 25, 40, 64, 100, 160, 250, 400}
	var n int
	for {
		n = sizes[rng.Intn(len(sizes))]
		if n <= maxN {
			break
		}
	}
	edges := map[[2]int]bool{}
	addEdge := func(i, j int) {
		if i == j || i < 0 || j < 0 || i >= n || j >= n {
			return
		}
		if i > j {
			i, j = j, i
		}
		edges[[2]int{i, j}] = true
	}
	kind := ""
	switch rng.Intn(6) {
	case 0:
		kind = "random-graph"
		m := int(float64(n) * (0.5 + rng.Float64()*2.5))
		for k := 0; k < m; k++ {
			addEdge(rng.Intn(n), rng.Intn(n))
		}
	case 1:
		kind = "band"
		bw := 1 + rng.Intn(3)
		for i := 0; i < n; i++ {
			for d := 1; d <= bw; d++ {
				addEdge(i, i+d)
			}
		}
	case 2:
		kind = "grid"
		wd := int(math.Ceil(math.Sqrt(float64(n))))
		for i := 0; i < n; i++ {
			if (i+1)%wd != 0 {
				addEdge(i, i+1)
			}
			addEdge(i, i+wd)
		}
	case 3:
		kind = "components"
		parts := 2 + rng.Intn(3)
		for i := 0; i < n; i++ {
			for t := 0; t < 2; t++ {
				j := rng.Intn(n)
				if j%parts == i%parts {
					addEdge(i, j)
				}
			}
		}
	case 4:
		kind = "star-plus-path"
		for i := 1; i < n; i++ {
			if rng.Intn(2) == 0 {
				addEdge(0, i)
			} else {
				addEdge(i-1, i)
			}
		}
	default:
		kind = "dense"
		if n > 25 {
			n = 25
		}
		for i := 0; i < n; i++ {
			for j := i + 1; j < n; j++ {
				addEdge(i, j)
			}
		}
	}
	// random relabelling so the fill-reducing permutation matters
	relabel := rng.Perm(n)
	sys := &sparseSys{n: n, entries: map[[2]int]float64{}, kind: kind, adj: make([][]int, n)}
	rowAbs := make([]float64, n)
	negOnly := rng.Intn(2) == 0
	var list [][2]int
	for e := range edges {
		list = append(list, e)
	}
	// deterministic order (map iteration is random): sort then shuffle by rng
	sortPairs(list)
	rng.Shuffle(len(list), func(i, j int) { list[i], list[j] = list[j], list[i] })
	for _, e := range list {
		i, j := relabel[e[0]], relabel[e[1]]
		wgt := rng.Float64()*2 - 1
		if negOnly {
			wgt = -math.Abs(wgt)
		}
		if wgt == 0 {
			wgt = 0.5
		}
		sys.entries[[2]int{i, j}] = wgt
		sys.entries[[2]int{j, i}] = wgt
		sys.order = append(sys.order, [2]int{i, j}, [2]int{j, i})
		sys.adj[i] = append(sys.adj[i], j)
		sys.adj[j] = append(sys.adj[j], i)
		rowAbs[i] += math.Abs(wgt)
		rowAbs[j] += math.Abs(wgt)
	}
	minSlack, maxDiag := math.Inf(1), 0.0
	for i := 0; i < n; i++ {
		slack := 0.05 + rng.Float64()
		d := rowAbs[i] + slack
		sys.entries[[2]int{i, i}] = d
		sys.order = append(sys.order, [2]int{i, i})
		minSlack = math.Min(minSlack, slack)
		maxDiag = math.Max(maxDiag, d)
	}
	rng.Shuffle(len(sys.order), func(i, j int) { sys.order[i], sys.order[j] = sys.order[j], sys.order[i] })
	sys.cond = 2 * maxDiag / minSlack
	return sys
}

func sortPairs(l [][2]int) {
	// insertion into a sorted order by (a,b); small lists, simple code
	less := func(a, b [2]int) bool { return a[0] < b[0] || (a[0] == b[0] && a[1] < b[1]) }
	quick(l, less)
}

func quick(l [][2]int, less func(a, b [2]int) bool) {
	if len(l) < 2 {
		return
	}
	p := l[len(l)/2]
	i, j := 0, len(l)-1
	for i <= j {
		for less(l[i], p) {
			i++
		}
		for less(p, l[j]) {
			j--
		}
		if i <= j {
			l[i], l[j] = l[j], l[i]
			i++
			j--
		}
	}
	quick(l[:j+1], less)
	quick(l[i:], less)
}

func maxAbs3(x [][3]float64) float64 {
	var m float64
	for _, v := range x {
		for _, y := range v {
			if a := math.Abs(y); a > m || math.IsNaN(a) {
				if math.IsNaN(a) {
					return math.Inf(1)
				}
				m = a
			}
		}
	}
	return m
}

func diff3(a, b [][3]float64) float64 {
	d := make([][3]float64, len(a))
	for i := range a {
		for k := 0; k < 3; k++ {
			d[i][k] = a[i][k] - b[i][k]
		}
	}
	return maxAbs3(d)
}

func sparseSections(r *vlib.Run) {
	maxN := r.N(250, 400)
	r.Section("solve.sparse", r.N(1500, 20000), vlib.SectionOpts{}, func(c *vlib.Case) {
		rng := c.Rng
		sys := genSparseSPD(rng, maxN)
		n := sys.n
		// the same system in other units: every entry times a power of two (conditioning,
		// sparsity and every rounding are unchanged, so all clauses are scale-relative)
		aScale := 1.0
		if rng.Intn(2) == 0 {
			aScale = math.Ldexp(1, rng.Intn(241)-120)
			for e, v := range sys.entries {
				sys.entries[e] = v * aScale
			}
			sys.kind += "*2^k"
			c.Count("cholesky.systems_in_other_units", 1)
		}
		mat := sys.matrix()
		w := map[string]interface{}{"n": n, "kind": sys.kind, "entries_scaled_by": aScale, "cond_bound": sys.cond, "entries_in_insertion_order": fmt.Sprint(sys.order), "subseed": c.SubSeed}
		if n <= 12 {
			vals := make([]string, len(sys.order))
			for i, e := range sys.order {
				vals[i] = fmt.Sprintf("(%d,%d)=%x", e[0], e[1], sys.entries[e])
			}
			w["values"] = vals
		}

		x := make([][3]float64, n)
		xv3 := make([]numerical.Vec3, n)
		xv2 := make([]numerical.Vec2, n)
		xv := make(numerical.Vec, n)
		for i := range x {
			x[i] = [3]float64{rng.NormFloat64(), rng.NormFloat64(), rng.NormFloat64()}
			xv3[i] = numerical.Vec3(x[i])
			xv2[i] = numerical.Vec2{x[i][0], x[i][1]}
			xv[i] = x[i][0]
		}
		ax := sys.apply(x)
		tolMul := 1e-13 * float64(len(sys.adj)+4) * (aScale*(1+maxAbs3(x)) + maxAbs3(ax))

		// SparseMatrix.Apply / ApplyVec2 / ApplyVec3 / Transpose / Iterate
		g3 := mat.ApplyVec3(xv3)
		g2 := mat.ApplyVec2(xv2)
		g1 := mat.Apply(xv)
		gt := mat.Transpose().ApplyVec3(xv3) // symmetric: same product
		for i := 0; i < n; i++ {
			for k := 0; k < 3; k++ {
				if !(math.Abs(g3[i][k]-ax[i][k]) <= tolMul) {
					c.Violationf("numerical.SparseMatrix.ApplyVec3/product", w, "row %d: %g vs %g", i, g3[i][k], ax[i][k])
				}
				if !(math.Abs(gt[i][k]-ax[i][k]) <= tolMul) {
					c.Violationf("numerical.SparseMatrix.Transpose/product", w, "row %d of transpose product: %g vs %g", i, gt[i][k], ax[i][k])
				}
			}
			if !(math.Abs(g2[i][0]-ax[i][0]) <= tolMul && math.Abs(g2[i][1]-ax[i][1]) <= tolMul) {
				c.Violationf("numerical.SparseMatrix.ApplyVec2/product", w, "row %d: %v vs %v", i, g2[i], ax[i])
			}
			if !(math.Abs(g1[i]-ax[i][0]) <= tolMul) {
				c.Violationf("numerical.SparseMatrix.Apply/product", w, "row %d: %g vs %g", i, g1[i], ax[i][0])
			}
		}
		seen := 0
		for i := 0; i < n; i++ {
			mat.Iterate(i, func(col int, v float64) {
				seen++
				if want, ok := sys.entries[[2]int{i, col}]; !ok || want != v {
					c.Violationf("numerical.SparseMatrix.Iterate/entries", w, "entry (%d,%d)=%g not as set", i, col, v)
				}
			})
		}
		if seen != len(sys.entries) {
			c.Violationf("numerical.SparseMatrix.Iterate/entries", w, "iterated %d entries, set %d", seen, len(sys.entries))
		}
		c.Count("numerical.SparseMatrix.Apply", 1)

		// RCM is a permutation; its reverse is a breadth-first (Cuthill-McKee) order
		perm := mat.RCM()
		w["rcm"] = perm
		if !isPermutation(perm, n) {
			c.Violationf("numerical.SparseMatrix.RCM/permutation", w, "RCM() is not a permutation of 0..%d", n-1)
		} else {
			if why := checkReverseBFS(perm, sys.adj); why != "" {
				c.Violationf("numerical.SparseMatrix.RCM/reverse-cuthill-mckee-order", w, "the reverse of RCM() is not a Cuthill-McKee (breadth-first, component by component) order: %s", why)
			}
			c.Count("numerical.SparseMatrix.RCM", 1)
			if n >= 10 {
				c.Count("rcm.graphs_with_10_or_more_nodes", 1)
			}
		}

		// Permute with a random permutation
		p := rng.Perm(n)
		pm := mat.Permute(p)
		cnt := 0
		for i := 0; i < n; i++ {
			pm.Iterate(i, func(col int, v float64) {
				cnt++
				if want, ok := sys.entries[[2]int{p[i], p[col]}]; !ok || want != v {
					w["perm"] = p
					c.Violationf("numerical.SparseMatrix.Permute/entries", w, "permuted entry (%d,%d)=%g, original (%d,%d)=%g", i, col, v, p[i], p[col], want)
				}
			})
		}
		if cnt != len(sys.entries) {
			c.Violationf("numerical.SparseMatrix.Permute/entries", w, "permuted matrix has %d entries, original %d", cnt, len(sys.entries))
		}
		c.Count("numerical.SparseMatrix.Permute", 1)

		// Cholesky
		chol := numerical.NewSparseCholesky(mat)
		tol := 1e-13 * float64(n+10) * sys.cond
		c3 := chol.ApplyVec3(xv3)
		c2 := chol.ApplyVec2(xv2)
		var e3, e2 float64
		for i := 0; i < n; i++ {
			for k := 0; k < 3; k++ {
				e3 = math.Max(e3, nanInf(math.Abs(c3[i][k]-ax[i][k])))
			}
			for k := 0; k < 2; k++ {
				e2 = math.Max(e2, nanInf(math.Abs(c2[i][k]-ax[i][k])))
			}
		}
		scaleAx := aScale + maxAbs3(ax)
		cmax(c, "cholesky.apply_error_over_bound", math.Max(e3, e2)/(tol*scaleAx))
		if !(e3 <= tol*scaleAx) {
			c.Violationf("numerical.SparseCholesky.ApplyVec3/product", w, "L L^T x differs from A x by %g (tolerance %g)", e3, tol*scaleAx)
		}
		if !(e2 <= tol*scaleAx) {
			c.Violationf("numerical.SparseCholesky.ApplyVec2/product", w, "L L^T x differs from A x by %g (tolerance %g)", e2, tol*scaleAx)
		}
		// A * ApplyInverse(b) == b
		s3 := chol.ApplyInverseVec3(xv3)
		s2 := chol.ApplyInverseVec2(xv2)
		sol := make([][3]float64, n)
		sol2 := make([][3]float64, n)
		for i := range sol {
			sol[i] = [3]float64(s3[i])
			sol2[i] = [3]float64{s2[i][0], s2[i][1], 0}
		}
		back := sys.apply(sol)
		back2 := sys.apply(sol2)
		x2 := make([][3]float64, n)
		for i := range x2 {
			x2[i] = [3]float64{x[i][0], x[i][1], 0}
		}
		r3, r2 := diff3(back, x), diff3(back2, x2)
		scaleX := maxAbs3(x)
		cmax(c, "cholesky.solve_residual_over_bound", math.Max(r3, r2)/(tol*scaleX))
		if !(r3 <= tol*scaleX) {
			c.Violationf("numerical.SparseCholesky.ApplyInverseVec3/residual", w, "|A x - b| = %g for x = ApplyInverse(b) (tolerance %g)", r3, tol*scaleX)
		}
		if !(r2 <= tol*scaleX) {
			c.Violationf("numerical.SparseCholesky.ApplyInverseVec2/residual", w, "|A x - b| = %g for x = ApplyInverse(b) (tolerance %g)", r2, tol*scaleX)
		}
		// Apply(ApplyInverse(b)) == b
		rt := chol.ApplyVec3(s3)
		var ert float64
		for i := 0; i < n; i++ {
			for k := 0; k < 3; k++ {
				ert = math.Max(ert, nanInf(math.Abs(rt[i][k]-x[i][k])))
			}
		}
		if !(ert <= tol*scaleX*4) {
			c.Violationf("numerical.SparseCholesky.Apply/inverse-roundtrip", w, "Apply(ApplyInverse(b)) differs from b by %g", ert)
		}
		// the permuted copy and the original are independent matrices: both get further entries
		// (a caller adding couplings to each) and each must hold exactly what was set on it
		{
			dump := func(m *numerical.SparseMatrix) map[[2]int]float64 {
				res := map[[2]int]float64{}
				for i := 0; i < n; i++ {
					m.Iterate(i, func(col int, v float64) { res[[2]int{i, col}] += v })
				}
				return res
			}
			wantP, wantM := dump(pm), dump(mat)
			freeCol := func(want map[[2]int]float64, row int) int {
				for k := 0; k < n; k++ {
					col := (row + 1 + k) % n
					if _, ok := want[[2]int{row, col}]; !ok {
						return col
					}
				}
				return -1
			}
			for rep := 0; rep < 3; rep++ {
				i := rng.Intn(n)
				if col := freeCol(wantP, i); col >= 0 {
					v := 1 + rng.Float64()
					pm.Set(i, col, v)
					wantP[[2]int{i, col}] = v
				}
				if col := freeCol(wantM, p[i]); col >= 0 {
					v := -1 - rng.Float64()
					mat.Set(p[i], col, v)
					wantM[[2]int{p[i], col}] = v
				}
			}
			eq := func(a, b map[[2]int]float64) string {
				for k, v := range a {
					if w, ok := b[k]; !ok || w != v {
						return fmt.Sprintf("entry (%d,%d) is %g, expected %g", k[0], k[1], w, v)
					}
				}
				if len(a) != len(b) {
					return fmt.Sprintf("%d entries, expected %d", len(b), len(a))
				}
				return ""
			}
			c.Count("sparse.permuted_copy_and_original_both_extended", 1)
			if why := eq(wantP, dump(pm)); why != "" {
				w["perm"] = p
				c.Violationf("numerical.SparseMatrix.Permute/copy-independent-of-original", w, "after further Set calls on the permuted copy and on the original, the permuted copy: %s", why)
			}
			if why := eq(wantM, dump(mat)); why != "" {
				w["perm"] = p
				c.Violationf("numerical.SparseMatrix.Permute/copy-independent-of-original", w, "after further Set calls on the permuted copy and on the original, the original: %s", why)
			}
		}
		c.Count("numerical.SparseCholesky", 1)
		c.Count("cholesky."+sys.kind, 1)
		if n >= 10 {
			c.Count("cholesky.systems_with_10_or_more_unknowns", 1)
		}
		c.Nontrivial(fmt.Sprintf("chol|%d|%s|%x", n, sys.kind, x[0][0]))
		if n <= 5 {
			c.Sample("cholesky.small", 1, w)
		}
	})

	r.Section("solve.bicgstab", r.N(1500, 20000), vlib.SectionOpts{}, func(c *vlib.Case) {
		rng := c.Rng
		n := 1 + rng.Intn(40)
		// strictly diagonally dominant, non-symmetric, dominance factor >= 2:
		// condition number (infinity norm) <= 3
		type ent struct {
			i, j int
			v    float64
		}
		var ents []ent
		rowAbs := make([]float64, n)
		colAbs := make([]float64, n)
		for i := 0; i < n; i++ {
			deg := rng.Intn(4)
			for k := 0; k < deg; k++ {
				j := rng.Intn(n)
				if j == i {
					continue
				}
				v := rng.Float64()*2 - 1
				ents = append(ents, ent{i, j, v})
				rowAbs[i] += math.Abs(v)
				colAbs[j] += math.Abs(v)
			}
		}
		// row and column dominance by a factor two: the symmetric part is
		// positive (or negative) definite and the condition number is small
		sign := float64(1 - 2*rng.Intn(2))
		for i := 0; i < n; i++ {
			d := 2*math.Max(rowAbs[i], colAbs[i]) + 0.5 + rng.Float64()
			ents = append(ents, ent{i, i, sign * d})
		}
		// the operator in other units (b keeps its magnitude, so the tolerances, which are in
		// units of b, mean the same)
		opScale := 1.0
		if rng.Intn(3) == 0 {
			opScale = math.Ldexp(1, rng.Intn(121)-60)
			for i := range ents {
				ents[i].v *= opScale
			}
		}
		nOps := 0
		op := func(v numerical.Vec) numerical.Vec {
			nOps++
			res := make(numerical.Vec, n)
			for _, e := range ents {
				res[e.i] += e.v * v[e.j]
			}
			return res
		}
		b := make(numerical.Vec, n)
		for i := range b {
			b[i] = rng.NormFloat64()
		}
		var guess numerical.Vec
		if rng.Intn(2) == 0 {
			guess = make(numerical.Vec, n)
			for i := range guess {
				guess[i] = rng.NormFloat64() / opScale // a guess of the solution's magnitude
			}
		}
		solver := &numerical.BiCGSTABSolver{}
		mode := rng.Intn(3)
		tolv := logUniform(rng, 1e-16, 1e-4)
		switch mode {
		case 0:
			solver.MSETolerance = tolv
		case 1:
			solver.MAETolerance = math.Sqrt(tolv)
		default:
			solver.MSETolerance = tolv
			solver.MAETolerance = math.Sqrt(tolv) / 10
		}
		bounded := rng.Intn(2) == 0
		if bounded {
			solver.MaxIters = 400
		}
		w := map[string]interface{}{"n": n, "entries": fmt.Sprint(ents), "operator_scaled_by": opScale, "b": b, "guess": guess, "solver": *solver}
		// a private copy: the residual below must not depend on the solver
		// having modified its inputs
		bCopy := append(numerical.Vec{}, b...)
		x := solver.SolveLinearSystem(op, b, guess)
		for i := range b {
			if b[i] != bCopy[i] {
				c.Violationf("numerical.BiCGSTABSolver.SolveLinearSystem/inputs-untouched", w, "b[%d] was modified", i)
				break
			}
		}
		if len(x) != n {
			c.Violationf("numerical.BiCGSTABSolver.SolveLinearSystem/residual", w, "solution has length %d", len(x))
			return
		}
		var sq, ab float64
		for _, e := range residual(n, func(i int, f func(j int, v float64)) {
			for _, en := range ents {
				if en.i == i {
					f(en.j, en.v)
				}
			}
		}, x, bCopy) {
			sq += e * e
			ab += math.Abs(e)
		}
		w["solution"], w["sum_sq_residual"], w["sum_abs_residual"] = x, sq, ab
		okMSE := solver.MSETolerance > 0 && sq < solver.MSETolerance*float64(n)*(1+1e-6)
		okMAE := solver.MAETolerance > 0 && ab < solver.MAETolerance*float64(n)*(1+1e-6)
		cmax(c, "bicgstab.operator_calls", float64(nOps))
		if !(okMSE || okMAE) {
			c.Violationf("numerical.BiCGSTABSolver.SolveLinearSystem/residual", w, "returned x has sum r^2 = %g (limit %g) and sum |r| = %g (limit %g): no stated tolerance is met on a strictly diagonally dominant system (operator calls: %d)", sq, solver.MSETolerance*float64(n), ab, solver.MAETolerance*float64(n), nOps)
		}
		c.Count("numerical.BiCGSTABSolver.SolveLinearSystem", 1)
		c.Nontrivial(fmt.Sprintf("bicg|%d|%x", n, b[0]))

		// raw iteration interface on small systems (in exact arithmetic the
		// method ends within n iterations): n+3 iterations reach 1e-6.
		if n <= 12 {
			it := numerical.NewBiCGSTAB(op, b, nil)
			// stop at the first iterate that meets the tolerance, as the solver
			// does (iterating on after exact convergence divides zero by zero)
			rr := math.Inf(1)
			var sol numerical.Vec
			used := 0
			for k := 0; k < n+3 && !(rr <= 1e-6*(1+maxAbs(bCopy))); k++ {
				sol = it.Iter()
				used++
				rr = 0
				for _, e := range op(sol).Sub(bCopy) {
					rr = math.Max(rr, nanInf(math.Abs(e)))
				}
			}
			cmax(c, "bicgstab.iter_residual", rr)
			if !(rr <= 1e-6*(1+maxAbs(bCopy))) {
				w["iter_solution"] = sol
				c.Violationf("numerical.BiCGSTAB.Iter/residual", w, "no iterate among the first %d on a %d-unknown diagonally dominant system reaches |A x - b| <= 1e-6 (last %g)", used, n, rr)
			}
			c.Count("numerical.BiCGSTAB.Iter", 1)
		}
	})
}

func nanInf(x float64) float64 {
	if math.IsNaN(x) {
		return math.Inf(1)
	}
	return x
}

func residual(n int, row func(i int, f func(j int, v float64)), x, b []float64) []float64 {
	res := make([]float64, n)
	for i := 0; i < n; i++ {
		var s float64
		row(i, func(j int, v float64) { s += v * x[j] })
		res[i] = s - b[i]
	}
	return res
}

func isPermutation(p []int, n int) bool {
	if len(p) != n {
		return false
	}
	seen := make([]bool, n)
	for _, x := range p {
		if x < 0 || x >= n || seen[x] {
			return false
		}
		seen[x] = true
	}
	return true
}

// checkReverseBFS checks that the reverse of perm is a breadth-first order of
// the graph processed component by component: with pos(v) the position of v
// and parent(v) the earliest positioned neighbour of v, a vertex without an
// earlier neighbour starts a component (allowed only when every earlier vertex
// has all its neighbours placed), and parents are non-decreasing along the
// order. Every Cuthill-McKee order has this shape, whatever the tie-breaking.
func checkReverseBFS(perm []int, adj [][]int) string {
	n := len(perm)
	order := make([]int, n)
	for i, v := range perm {
		order[n-1-i] = v
	}
	pos := make([]int, n)
	for i, v := range order {
		pos[v] = i
	}
	lastParent := -1
	for i, v := range order {
		parent := i
		for _, u := range adj[v] {
			if pos[u] < parent {
				parent = pos[u]
			}
		}
		if parent == i {
			// component start: no earlier vertex may still have an unplaced neighbour
			for k := 0; k < i; k++ {
				for _, u := range adj[order[k]] {
					if pos[u] >= i {
						return fmt.Sprintf("vertex %d at position %d starts a new component although vertex %d (position %d) still has the unplaced neighbour %d", v, i, order[k], k, u)
					}
				}
			}
		}
		if parent < lastParent {
			return fmt.Sprintf("vertex %d at position %d has its first neighbour at position %d, earlier than the parent position %d of its predecessor", v, i, parent, lastParent)
		}
		lastParent = parent
	}
	return ""
}
