package main

// Search optimisers. Every objective is wrapped so that each evaluation is
// logged; the verdicts are statements about the log:
//
//   - GSS, RecursiveLineSearch, and LineSearch/GridSearch without recursion:
//     the returned value is at least as good as every logged sample;
//   - LineSearch/GridSearch2D/3D with recursions re-sample only a window around
//     the best point of the previous level (documented: "iteratively sampling
//     more densely around the current optimal solution"); the returned value is
//     held to be the best of the last level, every level is held to be a
//     regular grid inside a window that contains the previous level's best
//     sample, and - on levels with an odd number of stops, where the centre
//     cell re-samples the previous best point - never worse than the previous
//     level up to the objective's Lipschitz slack.

import (
	"fmt"
	"math"
	"math/rand"

	"github.com/unixpickle/model3d/numerical"
	"verif/vlib"
)

type objective1 struct {
	name string
	f    func(x float64) float64
	lip  float64 // Lipschitz bound on the interval used
	min  float64 // location of the unique minimiser
	// flat is a conservative half-width of the neighbourhood of the minimiser
	// in which floating-point evaluation cannot order two samples reliably.
	flat float64
}

func genUnimodal(rng *rand.Rand, lo, hi float64) objective1 {
	span := hi - lo
	var c float64
	switch rng.Intn(5) {
	case 0:
		c = lo
	case 1:
		c = hi
	case 2:
		c = lo + span*float64(rng.Intn(9))/8
	default:
		c = lo + span*rng.Float64()
	}
	a := logUniform(rng, 1e-2, 1e2)
	off := rng.NormFloat64()
	noise := 8 * eps * (math.Abs(off) + 1) / a
	switch rng.Intn(4) {
	case 0:
		return objective1{"abs", func(x float64) float64 { return a*math.Abs(x-c) + off }, a, c, noise}
	case 1:
		return objective1{"square", func(x float64) float64 { return a*(x-c)*(x-c) + off }, 2 * a * span, c, math.Sqrt(noise)}
	case 2:
		return objective1{"quartic", func(x float64) float64 { d := (x - c) / span; return a*d*d*d*d + off }, 4 * a / span, c, span * math.Pow(noise, 0.25)}
	default:
		// asymmetric V
		b := a * logUniform(rng, 0.1, 10)
		return objective1{"asym-abs", func(x float64) float64 {
			if x < c {
				return a*(c-x) + off
			}
			return b*(x-c) + off
		}, math.Max(a, b), c, noise * 10}
	}
}

// genRough returns a bounded, non-unimodal objective (many local optima,
// ties): used for the claims that do not need unimodality.
func genRough(rng *rand.Rand) func(x float64) float64 {
	a, b, c := rng.Float64()*7+1, rng.Float64()*6, rng.Float64()*3
	q := float64(1 + rng.Intn(4))
	switch rng.Intn(3) {
	case 0:
		return func(x float64) float64 { return math.Sin(a*x+b) + 0.3*math.Cos(3*a*x+c) }
	case 1: // plateaus: exact ties
		return func(x float64) float64 { return math.Floor(q*math.Sin(a*x+b)) / q }
	default:
		return func(x float64) float64 { return math.Abs(math.Sin(a*x+b)) - 0.1*x*x*c }
	}
}

func optimSections(r *vlib.Run) {
	r.Section("optim.gss", r.N(6000, 100000), vlib.SectionOpts{}, func(c *vlib.Case) {
		rng := c.Rng
		lo := rng.NormFloat64() * 10
		hi := lo + logUniform(rng, 1e-3, 1e3)
		obj := genUnimodal(rng, lo, hi)
		iters := []int{0, 1, 2, 5, 10, 30, 64, 200}[rng.Intn(8)]
		var logX, logY []float64
		f := func(x float64) float64 {
			y := obj.f(x)
			logX = append(logX, x)
			logY = append(logY, y)
			return y
		}
		got := numerical.GSS(lo, hi, iters, f)
		nEval := len(logX)
		w := map[string]interface{}{"min": lo, "max": hi, "min_hex": fmt.Sprintf("%x", lo), "max_hex": fmt.Sprintf("%x", hi),
			"iters": iters, "objective": obj.name, "true_minimiser": obj.min, "returned": got, "evaluations": nEval}
		if !(got >= lo && got <= hi) {
			c.Violationf("numerical.GSS/in-bounds", w, "returned %g outside [%g, %g]", got, lo, hi)
		}
		idx := -1
		for i, x := range logX {
			if x == got {
				idx = i
			}
		}
		if idx < 0 {
			c.Violationf("numerical.GSS/returns-an-evaluated-point", w, "returned point %g was never evaluated", got)
		} else {
			for i, y := range logY {
				if y < logY[idx] {
					w["better_sample"] = []float64{logX[i], y}
					w["returned_value"] = logY[idx]
					c.Violationf("numerical.GSS/best-of-evaluated", w, "f(returned)=%g but sample f(%g)=%g is better", logY[idx], logX[i], y)
					break
				}
			}
		}
		effIters := iters
		if effIters == 0 {
			effIters = numerical.DefaultGSSIters
			c.Count("gss.default_iters", 1)
		}
		if nEval > effIters+2 {
			c.Violationf("numerical.GSS/evaluation-count", w, "%d evaluations for %d iterations", nEval, effIters)
		}
		// bracket: for a unimodal function with correct bounds the minimiser
		// stays inside the shrinking bracket (width span/phi^k after k steps);
		// slack for the flat bottom of smooth objectives in floating point
		k := nEval - 2
		width := (hi - lo) * math.Pow(0.6180339887498949, float64(k))
		slack := 8*obj.flat + 1e-9*(math.Abs(lo)+math.Abs(hi)+(hi-lo))
		cmax(c, "gss.distance_over_bracket", math.Abs(got-obj.min)/(width+slack))
		if !(math.Abs(got-obj.min) <= width+slack) {
			c.Violationf("numerical.GSS/bracket", w, "|returned - minimiser| = %g exceeds the bracket width %g after %d steps", math.Abs(got-obj.min), width, k)
		}
		c.Count("numerical.GSS", 1)
		c.Count("gss.evaluations_logged", int64(nEval))
		c.Nontrivial(fmt.Sprintf("gss|%x|%x|%d", lo, hi, iters))
	})

	r.Section("optim.linesearch", r.N(6000, 100000), vlib.SectionOpts{}, func(c *vlib.Case) {
		rng := c.Rng
		lo := rng.NormFloat64() * 3
		hi := lo + logUniform(rng, 1e-2, 1e2)
		ls := &numerical.LineSearch{Stops: 1 + rng.Intn(12), Recursions: rng.Intn(5)}
		if rng.Intn(3) == 0 {
			ls.Recursions = 0
		}
		raw := genRough(rng)
		lip := 0.0
		name := "rough"
		if rng.Intn(2) == 0 {
			o := genUnimodal(rng, lo, hi)
			raw, lip, name = o.f, o.lip, o.name
		}
		minimize := rng.Intn(2) == 0
		var logX, logY []float64
		f := func(x float64) float64 {
			y := raw(x)
			logX = append(logX, x)
			logY = append(logY, y)
			return y
		}
		var x, v float64
		api := "numerical.LineSearch.Maximize"
		if minimize {
			api = "numerical.LineSearch.Minimize"
			x, v = ls.Minimize(lo, hi, f)
		} else {
			x, v = ls.Maximize(lo, hi, f)
		}
		better := func(a, b float64) bool { // a strictly better than b
			if minimize {
				return a < b
			}
			return a > b
		}
		w := map[string]interface{}{"min": lo, "max": hi, "stops": ls.Stops, "recursions": ls.Recursions, "objective": name,
			"returned_x": x, "returned_value": v, "log_x": logX, "log_y": logY}
		levels := ls.Recursions + 1
		if len(logX) != ls.Stops*levels {
			c.Violationf(api+"/evaluation-count", w, "%d evaluations, expected stops*(recursions+1) = %d", len(logX), ls.Stops*levels)
			return
		}
		if !(x >= lo && x <= hi) {
			c.Violationf(api+"/in-bounds", w, "returned x=%g outside [%g,%g]", x, lo, hi)
		}
		if raw(x) != v {
			c.Violationf(api+"/value-is-f-at-x", w, "returned value %g but f(%g) = %g", v, x, raw(x))
		}
		// per level: regular grid, window contains previous best, returned = best of last level
		wLo, wHi := lo, hi
		prevBestX, prevBestY := math.NaN(), math.NaN()
		for lv := 0; lv < levels; lv++ {
			xs := logX[lv*ls.Stops : (lv+1)*ls.Stops]
			ys := logY[lv*ls.Stops : (lv+1)*ls.Stops]
			step := (wHi - wLo) / float64(ls.Stops)
			gtol := 1e-12 * (math.Abs(wLo) + math.Abs(wHi) + (hi - lo))
			for i, xi := range xs {
				want := wLo + (float64(i)+0.5)*step
				if !(math.Abs(xi-want) <= gtol) {
					w["level"] = lv
					c.Violationf(api+"/sample-grid", w, "level %d sample %d at %g, expected cell centre %g of window [%g,%g]", lv, i, xi, want, wLo, wHi)
					return
				}
			}
			bi := 0
			for i := range ys {
				if better(ys[i], ys[bi]) {
					bi = i
				}
			}
			if lv > 0 && ls.Stops%2 == 1 && lip > 0 && math.Abs((wLo+wHi)/2-prevBestX) <= gtol {
				// the centre cell re-samples the previous best point
				slack := lip*gtol*4 + 1e-12*(math.Abs(prevBestY)+1)
				if better(prevBestY, ys[bi]) && math.Abs(prevBestY-ys[bi]) > slack {
					w["level"] = lv
					c.Violationf(api+"/refinement-not-worse", w, "level %d best %g is worse than level %d best %g although the centre cell re-samples that point", lv, ys[bi], lv-1, prevBestY)
				}
				c.Count("linesearch.levels_resampling_previous_best", 1)
			}
			prevBestX, prevBestY = xs[bi], ys[bi]
			if lv == levels-1 {
				if ys[bi] != v {
					c.Violationf(api+"/best-of-evaluated", w, "returned value %g, best sample of the final level is f(%g)=%g", v, xs[bi], ys[bi])
				}
				if levels == 1 {
					c.Count("linesearch.single_level_global_best_checked", 1)
				}
			}
			nLo := math.Max(wLo, xs[bi]-step)
			nHi := math.Min(wHi, xs[bi]+step)
			wLo, wHi = nLo, nHi
		}
		c.Count(api, 1)
		c.Count("linesearch.evaluations_logged", int64(len(logX)))
		c.Nontrivial(fmt.Sprintf("ls|%x|%d|%d|%v", lo, ls.Stops, ls.Recursions, minimize))
	})

	r.Section("optim.recursive_linesearch", r.N(1500, 25000), vlib.SectionOpts{}, func(c *vlib.Case) {
		rng := c.Rng
		stops := 1 + rng.Intn(5)
		rec := rng.Intn(3)
		minimize := rng.Intn(2) == 0
		dim := 2 + rng.Intn(3)
		cen := []float64{rng.NormFloat64(), rng.NormFloat64(), rng.NormFloat64(), rng.NormFloat64()}
		a := rng.Float64()*5 + 1
		rough := rng.Intn(2) == 0
		raw := func(p []float64) float64 {
			var s float64
			for i, x := range p {
				d := x - cen[i]
				if rough {
					s += math.Sin(a*d+float64(i)) + 0.1*d*d
				} else {
					s += d * d * float64(i+1)
				}
			}
			return s
		}
		var logY []float64
		var logP [][]float64
		record := func(p []float64) float64 {
			y := raw(p)
			logY = append(logY, y)
			logP = append(logP, append([]float64{}, p...))
			return y
		}
		lo := make([]float64, dim)
		hi := make([]float64, dim)
		for i := range lo {
			lo[i] = cen[i] - rng.Float64()*3 - 0.1
			hi[i] = cen[i] + rng.Float64()*3 + 0.1
		}
		var sol []float64
		var val float64
		ls := numerical.LineSearch{Stops: stops, Recursions: rec}
		api := fmt.Sprintf("numerical.RecursiveLineSearch[Vec%d]", dim)
		run := func() {
			switch dim {
			case 2:
				s := &numerical.RecursiveLineSearch[numerical.Vec2]{LineSearch: ls}
				f := func(v numerical.Vec2) float64 { return record(v[:]) }
				var x numerical.Vec2
				if minimize {
					x, val = s.Minimize(numerical.Vec2{lo[0], lo[1]}, numerical.Vec2{hi[0], hi[1]}, f)
				} else {
					x, val = s.Maximize(numerical.Vec2{lo[0], lo[1]}, numerical.Vec2{hi[0], hi[1]}, f)
				}
				sol = x[:]
			case 3:
				s := &numerical.RecursiveLineSearch[numerical.Vec3]{LineSearch: ls}
				f := func(v numerical.Vec3) float64 { return record(v[:]) }
				var x numerical.Vec3
				if minimize {
					x, val = s.Minimize(numerical.Vec3{lo[0], lo[1], lo[2]}, numerical.Vec3{hi[0], hi[1], hi[2]}, f)
				} else {
					x, val = s.Maximize(numerical.Vec3{lo[0], lo[1], lo[2]}, numerical.Vec3{hi[0], hi[1], hi[2]}, f)
				}
				sol = x[:]
			default:
				s := &numerical.RecursiveLineSearch[numerical.Vec4]{LineSearch: ls}
				f := func(v numerical.Vec4) float64 { return record(v[:]) }
				var x numerical.Vec4
				if minimize {
					x, val = s.Minimize(numerical.Vec4{lo[0], lo[1], lo[2], lo[3]}, numerical.Vec4{hi[0], hi[1], hi[2], hi[3]}, f)
				} else {
					x, val = s.Maximize(numerical.Vec4{lo[0], lo[1], lo[2], lo[3]}, numerical.Vec4{hi[0], hi[1], hi[2], hi[3]}, f)
				}
				sol = x[:]
			}
		}
		run()
		if minimize {
			api += ".Minimize"
		} else {
			api += ".Maximize"
		}
		w := map[string]interface{}{"min": lo, "max": hi, "stops": stops, "recursions": rec, "returned": sol, "value": val, "evaluations": len(logY)}
		want := int(math.Pow(float64(stops*(rec+1)), float64(dim)))
		if len(logY) != want {
			c.Violationf(api+"/evaluation-count", w, "%d evaluations, expected (stops*(recursions+1))^dim = %d", len(logY), want)
		}
		if raw(sol) != val {
			c.Violationf(api+"/value-is-f-at-x", w, "returned value %g but f(x) = %g", val, raw(sol))
		}
		for i := range sol {
			if !(sol[i] >= lo[i] && sol[i] <= hi[i]) {
				c.Violationf(api+"/in-bounds", w, "coordinate %d = %g outside [%g,%g]", i, sol[i], lo[i], hi[i])
			}
		}
		for i, y := range logY {
			if (minimize && y < val) || (!minimize && y > val) {
				w["better_sample"] = map[string]interface{}{"point": logP[i], "value": y}
				c.Violationf(api+"/best-of-evaluated", w, "returned value %g but sample %d has %g", val, i, y)
				break
			}
		}
		c.Count(api, 1)
		c.Count("recursive_linesearch.evaluations_logged", int64(len(logY)))
		c.Nontrivial(fmt.Sprintf("rls|%d|%d|%d|%x", dim, stops, rec, lo[0]))
	})

	r.Section("optim.gridsearch", r.N(3000, 50000), vlib.SectionOpts{}, func(c *vlib.Case) {
		rng := c.Rng
		dim := 2 + rng.Intn(2)
		stops := []int{1 + rng.Intn(6), 1 + rng.Intn(6), 1 + rng.Intn(4)}[:dim]
		rec := rng.Intn(4)
		if rng.Intn(3) == 0 {
			rec = 0
		}
		minimize := rng.Intn(2) == 0
		cen := []float64{rng.NormFloat64(), rng.NormFloat64(), rng.NormFloat64()}
		a := rng.Float64()*5 + 1
		rough := rng.Intn(2) == 0
		raw := func(p []float64) float64 {
			var s float64
			for i, x := range p {
				d := x - cen[i]
				if rough {
					s += math.Sin(a*d+float64(i)) + 0.1*d*d
				} else {
					s += d * d * float64(i+1)
				}
			}
			return s
		}
		var logY []float64
		var logP [][]float64
		record := func(p []float64) float64 {
			y := raw(p)
			logY = append(logY, y)
			logP = append(logP, append([]float64{}, p...))
			return y
		}
		lo := make([]float64, dim)
		hi := make([]float64, dim)
		for i := range lo {
			lo[i] = cen[i] - rng.Float64()*3 - 0.1
			hi[i] = cen[i] + rng.Float64()*3 + 0.1
		}
		var sol []float64
		var val float64
		api := ""
		if dim == 2 {
			g := &numerical.GridSearch2D{XStops: stops[0], YStops: stops[1], Recursions: rec}
			f := func(v numerical.Vec2) float64 { return record(v[:]) }
			var x numerical.Vec2
			if minimize {
				api = "numerical.GridSearch2D.Minimize"
				x, val = g.Minimize(numerical.Vec2{lo[0], lo[1]}, numerical.Vec2{hi[0], hi[1]}, f)
			} else {
				api = "numerical.GridSearch2D.Maximize"
				x, val = g.Maximize(numerical.Vec2{lo[0], lo[1]}, numerical.Vec2{hi[0], hi[1]}, f)
			}
			sol = x[:]
		} else {
			g := &numerical.GridSearch3D{XStops: stops[0], YStops: stops[1], ZStops: stops[2], Recursions: rec}
			f := func(v numerical.Vec3) float64 { return record(v[:]) }
			var x numerical.Vec3
			if minimize {
				api = "numerical.GridSearch3D.Minimize"
				x, val = g.Minimize(numerical.Vec3{lo[0], lo[1], lo[2]}, numerical.Vec3{hi[0], hi[1], hi[2]}, f)
			} else {
				api = "numerical.GridSearch3D.Maximize"
				x, val = g.Maximize(numerical.Vec3{lo[0], lo[1], lo[2]}, numerical.Vec3{hi[0], hi[1], hi[2]}, f)
			}
			sol = x[:]
		}
		perLevel := 1
		for _, s := range stops {
			perLevel *= s
		}
		w := map[string]interface{}{"min": lo, "max": hi, "stops": stops, "recursions": rec, "returned": sol, "value": val, "evaluations": len(logY)}
		if len(logY) != perLevel*(rec+1) {
			c.Violationf(api+"/evaluation-count", w, "%d evaluations, expected %d", len(logY), perLevel*(rec+1))
			return
		}
		if raw(sol) != val {
			c.Violationf(api+"/value-is-f-at-x", w, "returned value %g but f(x) = %g", val, raw(sol))
		}
		for i := range sol {
			if !(sol[i] >= lo[i] && sol[i] <= hi[i]) {
				c.Violationf(api+"/in-bounds", w, "coordinate %d = %g outside [%g,%g]", i, sol[i], lo[i], hi[i])
			}
		}
		better := func(a, b float64) bool {
			if minimize {
				return a < b
			}
			return a > b
		}
		wLo := append([]float64{}, lo...)
		wHi := append([]float64{}, hi...)
		for lv := 0; lv <= rec; lv++ {
			ps := logP[lv*perLevel : (lv+1)*perLevel]
			ys := logY[lv*perLevel : (lv+1)*perLevel]
			step := make([]float64, dim)
			for d := 0; d < dim; d++ {
				step[d] = (wHi[d] - wLo[d]) / float64(stops[d])
			}
			// every sample is a cell centre of the window, each cell sampled once
			seen := map[[3]int]bool{}
			for _, p := range ps {
				var cell [3]int
				for d := 0; d < dim; d++ {
					q := (p[d]-wLo[d])/step[d] - 0.5
					k := math.Round(q)
					if !(math.Abs(q-k) <= 1e-6) || k < 0 || int(k) >= stops[d] {
						w["level"] = lv
						c.Violationf(api+"/sample-grid", w, "level %d sample %v is not a cell centre of window [%v,%v]", lv, p, wLo, wHi)
						return
					}
					cell[d] = int(k)
				}
				if seen[cell] {
					c.Violationf(api+"/sample-grid", w, "level %d samples cell %v twice", lv, cell)
					return
				}
				seen[cell] = true
			}
			bi := 0
			for i := range ys {
				if better(ys[i], ys[bi]) {
					bi = i
				}
			}
			if lv == rec && ys[bi] != val {
				c.Violationf(api+"/best-of-evaluated", w, "returned value %g, best sample of the final level is %g at %v", val, ys[bi], ps[bi])
			}
			for d := 0; d < dim; d++ {
				nLo := math.Max(wLo[d], ps[bi][d]-step[d])
				nHi := math.Min(wHi[d], ps[bi][d]+step[d])
				wLo[d], wHi[d] = nLo, nHi
			}
		}
		if rec == 0 {
			c.Count("gridsearch.single_level_global_best_checked", 1)
		}
		c.Count(api, 1)
		c.Count("gridsearch.evaluations_logged", int64(len(logY)))
		c.Nontrivial(fmt.Sprintf("gs|%d|%v|%d|%x", dim, stops, rec, lo[0]))
	})
}
