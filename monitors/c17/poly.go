package main

// Polynomial root finding: polynomials are multiplied out from chosen roots
// (separated real roots, complex pairs away from the real axis), the condition
// number of every root is computed from the coefficients, and a case is decided
// only when rounding cannot move a root by more than a small fraction of the
// tolerance.

import (
	"fmt"
	"math"
	"math/cmplx"
	"math/rand"
	"sort"

	"github.com/unixpickle/model3d/numerical"
	"verif/vlib"
)

type polyCase struct {
	coeffs []float64 // a0..an, possibly followed by explicit zero leading terms
	real   []float64 // sorted
	cplx   [][2]float64
	degree int
	kind   string
	// rootCond is max over all roots z of max|a_k| * sum|z|^k / |p'(z)|: the
	// absolute displacement of the root per unit normwise relative perturbation
	// of the coefficients.
	rootCond float64
}

func cplxHorner(p []float64, z complex128) complex128 {
	var s complex128
	for i := len(p) - 1; i >= 0; i-- {
		s = s*z + complex(p[i], 0)
	}
	return s
}

func genPoly(rng *rand.Rand) *polyCase {
	d := 1 + rng.Intn(8)
	if rng.Intn(4) == 0 {
		d = 2 + rng.Intn(3) // favour the closed-form paths and the first bracketing degree
	}
	nc := 0
	if d >= 2 {
		nc = rng.Intn(d/2 + 1)
	}
	nr := d - 2*nc
	pc := &polyCase{degree: d}
	integers := rng.Intn(4) == 0
	minSep := 0.1
	if rng.Intn(2) == 0 {
		minSep = 0.5
	}
	for tries := 0; ; tries++ {
		pc.real = pc.real[:0]
		ok := true
		for i := 0; i < nr; i++ {
			var x float64
			if integers {
				x = float64(rng.Intn(11) - 5)
			} else {
				x = rng.Float64()*10 - 5
				if rng.Intn(12) == 0 {
					x = 0
				}
			}
			for _, y := range pc.real {
				if math.Abs(x-y) < minSep {
					ok = false
				}
			}
			pc.real = append(pc.real, x)
		}
		if ok {
			break
		}
		if tries > 200 {
			minSep = 0.1
			integers = false
		}
	}
	sort.Float64s(pc.real)
	for i := 0; i < nc; i++ {
		re := rng.Float64()*10 - 5
		im := 0.1 + rng.Float64()*2.9
		if integers {
			re = float64(rng.Intn(11) - 5)
			im = float64(1 + rng.Intn(3))
		}
		pc.cplx = append(pc.cplx, [2]float64{re, im})
	}
	lead := logUniform(rng, 1e-3, 1e3)
	if integers {
		lead = float64(1 + rng.Intn(3))
	}
	if rng.Intn(2) == 0 {
		lead = -lead
	}
	pc.coeffs = polyFromRoots(lead, pc.real, pc.cplx)
	pc.kind = "float-roots"
	if integers {
		pc.kind = "integer-roots"
	}
	// conditioning of every root (on the polynomial without the zero padding)
	dp := polyDeriv(pc.coeffs)
	for _, x := range pc.real {
		k := polyAbsEval(pc.coeffs, x) / math.Abs(polyEval(dp, x))
		pc.rootCond = math.Max(pc.rootCond, k)
	}
	for _, z := range pc.cplx {
		zz := complex(z[0], z[1])
		k := polyAbsEval(pc.coeffs, cmplx.Abs(zz)) / cmplx.Abs(cplxHorner(dp, zz))
		// a complex root must not be able to reach the real axis: scale by
		// the distance it would have to travel
		pc.rootCond = math.Max(pc.rootCond, k*0.1/z[1])
	}
	// explicit zero leading coefficients
	for k := rng.Intn(3); k > 0 && rng.Intn(2) == 0; k-- {
		pc.coeffs = append(pc.coeffs, 0)
		pc.kind += "+leading-zero"
	}
	return pc
}

func polyPath(d int) string {
	switch d {
	case 1:
		return "linear"
	case 2:
		return "quadratic"
	case 3:
		return "cubic"
	}
	return "bracketing"
}

func polySection(r *vlib.Run) {
	// A returned root is "the" chosen root if it is within tol of it (chosen real
	// roots are at least 0.1 apart); 1e-5 is also what the library's own tests use.
	const tol = 1e-5
	// Decided only if eps*cond <= condLimit, where cond is the normwise condition
	// number of the worst root (max|a| * sum|x|^k / |p'(x)|). Rounding of the
	// coefficients alone moves a root by ~eps*cond; deflation in arbitrary order
	// loses a further factor whose distribution was measured on 1.5e6 decided
	// cases: P(factor > 10^k) falls by ~10x per decade, worst seen 1.4e4. A false
	// alarm needs a factor of 1e7.
	const condLimit = 1e-12

	r.Section("poly.roots", r.N(40000, 800000), vlib.SectionOpts{}, func(c *vlib.Case) {
		rng := c.Rng
		pc := genPoly(rng)
		path := polyPath(pc.degree)
		w := map[string]interface{}{
			"coefficients_a0_first": pc.coeffs, "coefficients_hex": hexs(pc.coeffs),
			"chosen_real_roots": pc.real, "chosen_complex_pairs": pc.cplx, "degree": pc.degree, "root_condition": pc.rootCond,
		}
		if !(eps*pc.rootCond <= condLimit) {
			c.Undecided("poly.ill-conditioned-roots")
			c.Count("poly.undecided."+path, 1)
			return
		}
		p := numerical.Polynomial(append([]float64{}, pc.coeffs...))
		roots := p.RealRoots()
		for i, x := range p {
			if x != pc.coeffs[i] && !(math.IsNaN(x) && math.IsNaN(pc.coeffs[i])) {
				c.Violationf("numerical.Polynomial.RealRoots/receiver-untouched", w, "coefficient %d was modified", i)
				break
			}
		}
		w["returned"] = roots
		got := append([]float64{}, roots...)
		sort.Float64s(got)
		key := "numerical.Polynomial.RealRoots/" + path
		bad := false
		for _, x := range got {
			if math.IsNaN(x) || math.IsInf(x, 0) {
				c.Violationf(key+"-finite", w, "non-finite root returned: %v", roots)
				bad = true
			}
		}
		if !bad {
			switch {
			case len(got) < len(pc.real):
				c.Violationf(key+"-missing-root", w, "returned %d real roots %v, the polynomial has %d: %v", len(got), got, len(pc.real), pc.real)
			case len(got) > len(pc.real):
				c.Violationf(key+"-extra-root", w, "returned %d real roots %v, the polynomial has only %d: %v", len(got), got, len(pc.real), pc.real)
			default:
				var worst float64
				for i := range got {
					worst = math.Max(worst, math.Abs(got[i]-pc.real[i]))
				}
				if pc.rootCond > 0 && len(got) > 0 {
					cmax(c, "poly.error_over_eps_cond."+path, worst/(eps*math.Max(pc.rootCond, 1)))
				}
				cmax(c, "poly.root_error."+path, worst)
				if !(worst <= tol) {
					c.Violationf(key+"-root-value", w, "returned roots %v differ from the chosen roots %v by %g", got, pc.real, worst)
				}
			}
		}
		c.Count("numerical.Polynomial.RealRoots."+path, 1)
		c.Count(fmt.Sprintf("poly.real_roots_%d", len(pc.real)), 1)
		if len(pc.cplx) > 0 {
			c.Count("poly.with_complex_pairs", 1)
		}
		if len(pc.coeffs) > pc.degree+1 {
			c.Count("poly.with_leading_zero_coefficients", 1)
		}
		c.Nontrivial(fmt.Sprintf("poly|%d|%d|%x", pc.degree, len(pc.real), pc.coeffs[0]))
		c.Sample("poly."+path, 1, map[string]interface{}{"coefficients": pc.coeffs, "roots": pc.real, "returned": roots})

		// IterRealRoots: same sequence, and it stops when told to
		if len(roots) > 0 {
			stopAt := rng.Intn(len(roots))
			var seq []float64
			calls := 0
			p.IterRealRoots(func(x float64) bool {
				calls++
				seq = append(seq, x)
				return len(seq) <= stopAt
			})
			if calls != stopAt+1 {
				w["stop_after"] = stopAt + 1
				c.Violationf("numerical.Polynomial.IterRealRoots/early-stop", w, "callback returned false at call %d but was called %d times", stopAt+1, calls)
			} else {
				for i, x := range seq {
					if x != roots[i] {
						c.Violationf("numerical.Polynomial.IterRealRoots/same-sequence", w, "IterRealRoots yields %v, RealRoots %v", seq, roots)
						break
					}
				}
			}
			c.Count("numerical.Polynomial.IterRealRoots.early_stop", 1)
		}
	})

	r.Section("poly.algebra", r.N(3000, 50000), vlib.SectionOpts{}, func(c *vlib.Case) {
		rng := c.Rng
		mk := func() []float64 {
			n := rng.Intn(7)
			p := make([]float64, n)
			for i := range p {
				p[i] = float64(rng.Intn(13) - 6)
			}
			return p
		}
		a, b := mk(), mk()
		x := float64(rng.Intn(9)-4) / 2
		w := map[string]interface{}{"a": a, "b": b, "x": x}
		pa, pb := numerical.Polynomial(a), numerical.Polynomial(b)
		// integers and a dyadic x: everything below is exact
		ev := func(p []float64, x float64) float64 {
			s, xp := 0.0, 1.0
			for _, cf := range p {
				s += cf * xp
				xp *= x
			}
			return s
		}
		if got := pa.Eval(x); got != ev(a, x) {
			c.Violationf("numerical.Polynomial.Eval/value", w, "Eval=%g want %g", got, ev(a, x))
		}
		if got := pa.Mul(pb).Eval(x); got != ev(a, x)*ev(b, x) {
			c.Violationf("numerical.Polynomial.Mul/value", w, "(a*b)(x)=%g want %g", got, ev(a, x)*ev(b, x))
		}
		sum := pa.Add(pb)
		if got := sum.Eval(x); got != ev(a, x)+ev(b, x) {
			c.Violationf("numerical.Polynomial.Add/value", w, "(a+b)(x)=%g want %g", got, ev(a, x)+ev(b, x))
		}
		if len(sum) > 0 && sum[len(sum)-1] == 0 {
			c.Violationf("numerical.Polynomial.Add/trimmed", w, "Add left a zero leading coefficient: %v", sum)
		}
		if got := pa.Scale(3).Eval(x); got != 3*ev(a, x) {
			c.Violationf("numerical.Polynomial.Scale/value", w, "(3a)(x)=%g want %g", got, 3*ev(a, x))
		}
		d := pa.Derivative()
		want := polyDeriv(a)
		if len(d) != len(want) {
			c.Violationf("numerical.Polynomial.Derivative/coefficients", w, "Derivative=%v want %v", d, want)
		} else {
			for i := range d {
				if d[i] != want[i] {
					c.Violationf("numerical.Polynomial.Derivative/coefficients", w, "Derivative=%v want %v", d, want)
					break
				}
			}
		}
		c.Count("numerical.Polynomial.algebra", 1)

		// degenerate root sets
		switch rng.Intn(3) {
		case 0:
			z := make(numerical.Polynomial, rng.Intn(4))
			roots := z.RealRoots()
			if len(roots) != 1 || !math.IsNaN(roots[0]) {
				c.Violationf("numerical.Polynomial.RealRoots/zero-polynomial", map[string]interface{}{"len": len(z)}, "zero polynomial of length %d: roots %v, documented one NaN", len(z), roots)
			}
			c.Count("poly.zero_polynomial", 1)
		case 1:
			k := numerical.Polynomial{float64(1 + rng.Intn(5)), 0, 0}[:1+rng.Intn(3)]
			roots := k.RealRoots()
			if len(roots) != 0 {
				c.Violationf("numerical.Polynomial.RealRoots/constant", map[string]interface{}{"p": k}, "non-zero constant %v: roots %v", k, roots)
			}
			c.Count("poly.constant_polynomial", 1)
		}
	})
}
