package main

// Dense kernels: inverse, determinant, SVD, eigenvalues, rotations,
// characteristic polynomial, basic products, OrthoBasis. Inputs are built from
// chosen singular values / eigenvalues and random orthogonal factors, so the
// conditioning of every case is known.

import (
	"fmt"
	"math"
	"math/cmplx"
	"math/rand"
	"sort"

	"github.com/unixpickle/model3d/model2d"
	"github.com/unixpickle/model3d/model3d"
	"github.com/unixpickle/model3d/numerical"
	"verif/vlib"
)

// sqAPI adapts one of the five square matrix types to row-major slices.
type sqAPI struct {
	name       string
	n          int
	det        func(a []float64) float64
	inverse    func(a []float64) []float64
	inPlace    func(a []float64) []float64
	inPlaceDet func(a []float64, det float64) []float64
	mulColInv  func(a, c []float64, det float64) []float64
	mul        func(a, b []float64) []float64
	add        func(a, b []float64) []float64
	transpose  func(a []float64) []float64
	mulColumn  func(a, c []float64) []float64
	columns    func(cols [][]float64) []float64
	svd        func(a []float64) (u, s, v []float64)
	eig        func(a []float64) []complex128
}

func nm2(a []float64) *numerical.Matrix2 { var m numerical.Matrix2; copy(m[:], a); return &m }
func nm3(a []float64) *numerical.Matrix3 { var m numerical.Matrix3; copy(m[:], a); return &m }
func nm4(a []float64) *numerical.Matrix4 { var m numerical.Matrix4; copy(m[:], a); return &m }
func mm2(a []float64) *model2d.Matrix2   { var m model2d.Matrix2; copy(m[:], a); return &m }
func mm3(a []float64) *model3d.Matrix3   { var m model3d.Matrix3; copy(m[:], a); return &m }

func sl(a []float64) []float64 { return append([]float64{}, a...) }

func apiNumerical2() *sqAPI {
	return &sqAPI{
		name: "numerical.Matrix2", n: 2,
		det:     func(a []float64) float64 { return nm2(a).Det() },
		inverse: func(a []float64) []float64 { return sl(nm2(a).Inverse()[:]) },
		inPlace: func(a []float64) []float64 { m := nm2(a); m.InvertInPlace(); return sl(m[:]) },
		inPlaceDet: func(a []float64, d float64) []float64 {
			m := nm2(a)
			m.InvertInPlaceDet(d)
			return sl(m[:])
		},
		mulColInv: func(a, c []float64, d float64) []float64 {
			r := nm2(a).MulColumnInv(numerical.Vec2{c[0], c[1]}, d)
			return sl(r[:])
		},
		mul:       func(a, b []float64) []float64 { return sl(nm2(a).Mul(nm2(b))[:]) },
		add:       func(a, b []float64) []float64 { return sl(nm2(a).Add(nm2(b))[:]) },
		transpose: func(a []float64) []float64 { return sl(nm2(a).Transpose()[:]) },
		mulColumn: func(a, c []float64) []float64 {
			r := nm2(a).MulColumn(numerical.Vec2{c[0], c[1]})
			return sl(r[:])
		},
		columns: func(c [][]float64) []float64 {
			return sl(numerical.NewMatrix2Columns(numerical.Vec2{c[0][0], c[0][1]}, numerical.Vec2{c[1][0], c[1][1]})[:])
		},
		svd: func(a []float64) ([]float64, []float64, []float64) {
			var u, s, v numerical.Matrix2
			nm2(a).SVD(&u, &s, &v)
			return sl(u[:]), sl(s[:]), sl(v[:])
		},
		eig: func(a []float64) []complex128 { e := nm2(a).Eigenvalues(); return e[:] },
	}
}

func apiModel2d2() *sqAPI {
	return &sqAPI{
		name: "model2d.Matrix2", n: 2,
		det:     func(a []float64) float64 { return mm2(a).Det() },
		inverse: func(a []float64) []float64 { return sl(mm2(a).Inverse()[:]) },
		inPlace: func(a []float64) []float64 { m := mm2(a); m.InvertInPlace(); return sl(m[:]) },
		inPlaceDet: func(a []float64, d float64) []float64 {
			m := mm2(a)
			m.InvertInPlaceDet(d)
			return sl(m[:])
		},
		mulColInv: func(a, c []float64, d float64) []float64 {
			r := mm2(a).MulColumnInv(model2d.XY(c[0], c[1]), d)
			return []float64{r.X, r.Y}
		},
		mul:       func(a, b []float64) []float64 { return sl(mm2(a).Mul(mm2(b))[:]) },
		add:       func(a, b []float64) []float64 { return sl(mm2(a).Add(mm2(b))[:]) },
		transpose: func(a []float64) []float64 { return sl(mm2(a).Transpose()[:]) },
		mulColumn: func(a, c []float64) []float64 {
			r := mm2(a).MulColumn(model2d.XY(c[0], c[1]))
			return []float64{r.X, r.Y}
		},
		columns: func(c [][]float64) []float64 {
			return sl(model2d.NewMatrix2Columns(model2d.XY(c[0][0], c[0][1]), model2d.XY(c[1][0], c[1][1]))[:])
		},
		svd: func(a []float64) ([]float64, []float64, []float64) {
			var u, s, v model2d.Matrix2
			mm2(a).SVD(&u, &s, &v)
			return sl(u[:]), sl(s[:]), sl(v[:])
		},
		eig: func(a []float64) []complex128 { e := mm2(a).Eigenvalues(); return e[:] },
	}
}

func apiNumerical3() *sqAPI {
	v3 := func(c []float64) numerical.Vec3 { return numerical.Vec3{c[0], c[1], c[2]} }
	return &sqAPI{
		name: "numerical.Matrix3", n: 3,
		det:     func(a []float64) float64 { return nm3(a).Det() },
		inverse: func(a []float64) []float64 { return sl(nm3(a).Inverse()[:]) },
		inPlace: func(a []float64) []float64 { m := nm3(a); m.InvertInPlace(); return sl(m[:]) },
		inPlaceDet: func(a []float64, d float64) []float64 {
			m := nm3(a)
			m.InvertInPlaceDet(d)
			return sl(m[:])
		},
		mulColInv: func(a, c []float64, d float64) []float64 {
			r := nm3(a).MulColumnInv(v3(c), d)
			return sl(r[:])
		},
		mul:       func(a, b []float64) []float64 { return sl(nm3(a).Mul(nm3(b))[:]) },
		add:       func(a, b []float64) []float64 { return sl(nm3(a).Add(nm3(b))[:]) },
		transpose: func(a []float64) []float64 { return sl(nm3(a).Transpose()[:]) },
		mulColumn: func(a, c []float64) []float64 { r := nm3(a).MulColumn(v3(c)); return sl(r[:]) },
		columns: func(c [][]float64) []float64 {
			return sl(numerical.NewMatrix3Columns(v3(c[0]), v3(c[1]), v3(c[2]))[:])
		},
		svd: func(a []float64) ([]float64, []float64, []float64) {
			var u, s, v numerical.Matrix3
			nm3(a).SVD(&u, &s, &v)
			return sl(u[:]), sl(s[:]), sl(v[:])
		},
		eig: func(a []float64) []complex128 { e := nm3(a).Eigenvalues(); return e[:] },
	}
}

func apiModel3d3() *sqAPI {
	v3 := func(c []float64) model3d.Coord3D { return model3d.XYZ(c[0], c[1], c[2]) }
	arr := func(c model3d.Coord3D) []float64 { return []float64{c.X, c.Y, c.Z} }
	return &sqAPI{
		name: "model3d.Matrix3", n: 3,
		det:     func(a []float64) float64 { return mm3(a).Det() },
		inverse: func(a []float64) []float64 { return sl(mm3(a).Inverse()[:]) },
		inPlace: func(a []float64) []float64 { m := mm3(a); m.InvertInPlace(); return sl(m[:]) },
		inPlaceDet: func(a []float64, d float64) []float64 {
			m := mm3(a)
			m.InvertInPlaceDet(d)
			return sl(m[:])
		},
		mulColInv: func(a, c []float64, d float64) []float64 { return arr(mm3(a).MulColumnInv(v3(c), d)) },
		mul:       func(a, b []float64) []float64 { return sl(mm3(a).Mul(mm3(b))[:]) },
		add:       func(a, b []float64) []float64 { return sl(mm3(a).Add(mm3(b))[:]) },
		transpose: func(a []float64) []float64 { return sl(mm3(a).Transpose()[:]) },
		mulColumn: func(a, c []float64) []float64 { return arr(mm3(a).MulColumn(v3(c))) },
		columns: func(c [][]float64) []float64 {
			return sl(model3d.NewMatrix3Columns(v3(c[0]), v3(c[1]), v3(c[2]))[:])
		},
		svd: func(a []float64) ([]float64, []float64, []float64) {
			var u, s, v model3d.Matrix3
			mm3(a).SVD(&u, &s, &v)
			return sl(u[:]), sl(s[:]), sl(v[:])
		},
		eig: func(a []float64) []complex128 { e := mm3(a).Eigenvalues(); return e[:] },
	}
}

func apiNumerical4() *sqAPI {
	v4 := func(c []float64) numerical.Vec4 { return numerical.Vec4{c[0], c[1], c[2], c[3]} }
	return &sqAPI{
		name: "numerical.Matrix4", n: 4,
		det:       func(a []float64) float64 { return nm4(a).Det() },
		mul:       func(a, b []float64) []float64 { return sl(nm4(a).Mul(nm4(b))[:]) },
		add:       func(a, b []float64) []float64 { return sl(nm4(a).Add(nm4(b))[:]) },
		transpose: func(a []float64) []float64 { return sl(nm4(a).Transpose()[:]) },
		mulColumn: func(a, c []float64) []float64 { r := nm4(a).MulColumn(v4(c)); return sl(r[:]) },
		columns: func(c [][]float64) []float64 {
			return sl(numerical.NewMatrix4Columns(v4(c[0]), v4(c[1]), v4(c[2]), v4(c[3]))[:])
		},
		svd: func(a []float64) ([]float64, []float64, []float64) {
			var u, s, v numerical.Matrix4
			nm4(a).SVD(&u, &s, &v)
			return sl(u[:]), sl(s[:]), sl(v[:])
		},
	}
}

func allAPIs() []*sqAPI {
	return []*sqAPI{apiNumerical2(), apiModel2d2(), apiNumerical3(), apiModel3d3(), apiNumerical4()}
}

// ---------------------------------------------------------------------------
// generators

// genSingularValues draws n singular values, descending from scale, with
// consecutive ratios in [kappa^(-1/(n-1)), 0.9]: sigma_max/sigma_min <= kappa and
// the squares of neighbours differ by at least 19% of the larger one.
func genSingularValues(rng *rand.Rand, n int, kappa, scale float64) []float64 {
	s := make([]float64, n)
	s[0] = scale
	if n == 1 {
		return s
	}
	lo := math.Pow(kappa, -1/float64(n-1))
	if lo > 0.85 {
		lo = 0.85
	}
	for i := 1; i < n; i++ {
		s[i] = s[i-1] * logUniform(rng, lo, 0.9)
	}
	return s
}

type svdCase struct {
	a      []float64
	sigma  []float64 // descending
	kappa  float64
	detU   int
	detV   int
	kind   string
	approx bool // sigma known only through the Jacobi reference
}

func genFromSVD(rng *rand.Rand, n int, kappa float64) *svdCase {
	scale := logUniform(rng, 1e-3, 1e3)
	sigma := genSingularValues(rng, n, kappa, scale)
	du, dv := 1-2*rng.Intn(2), 1-2*rng.Intn(2)
	u := randOrth(rng, n, du)
	v := randOrth(rng, n, dv)
	kind := "usv"
	if rng.Intn(4) == 0 {
		// orthogonal factors that are products of quarter turns computed with cos/sin: the matrix is
		// axis-aligned up to entries of rounding-noise size (cos(pi/2) = 6e-17), a common input
		// (rotations by right angles) that is neither generic nor exactly diagonal
		kind = "usv-quarter-turns"
		u, v = quarterTurnOrth(rng, n), quarterTurnOrth(rng, n)
		du, dv = 1, 1
	}
	a := matMul(n, matMul(n, u, matDiag(sigma)), matT(n, v))
	return &svdCase{a: a, sigma: sigma, kappa: sigma[0] / sigma[n-1], detU: du, detV: dv, kind: kind}
}

// quarterTurnOrth multiplies 0-4 plane rotations by multiples of pi/2, entries from math.Cos/Sin.
func quarterTurnOrth(rng *rand.Rand, n int) []float64 {
	m := make([]float64, n*n)
	for i := 0; i < n; i++ {
		m[i*n+i] = 1
	}
	for k := rng.Intn(5); k > 0; k-- {
		i := rng.Intn(n)
		j := rng.Intn(n - 1)
		if j >= i {
			j++
		}
		th := float64(1+rng.Intn(3)) * math.Pi / 2
		cs, sn := math.Cos(th), math.Sin(th)
		g := make([]float64, n*n)
		for d := 0; d < n; d++ {
			g[d*n+d] = 1
		}
		g[i*n+i], g[j*n+j], g[i*n+j], g[j*n+i] = cs, cs, -sn, sn
		m = matMul(n, g, m)
	}
	return m
}

// genSpecial returns exactly representable matrices (integers, permutations,
// diagonal, rank-deficient) whose singular values come from the Jacobi
// reference.
func genSpecial(rng *rand.Rand, n int) *svdCase {
	a := make([]float64, n*n)
	kind := ""
	if n < 4 && rng.Intn(12) == 0 {
		// the zero matrix: S = 0 and any orthogonal U, V reconstruct it (the 4x4
		// routine is not given singular inputs, see below)
		return &svdCase{a: a, sigma: make([]float64, n), kind: "zero", approx: true}
	}
	switch rng.Intn(5) {
	case 0:
		kind = "diag-distinct-ints"
		perm := rng.Perm(6)
		for i := 0; i < n; i++ {
			a[i*n+i] = float64(perm[i]+1) * float64(1-2*rng.Intn(2))
		}
	case 1:
		kind = "signed-permutation-distinct-scales"
		perm := rng.Perm(n)
		sc := rng.Perm(6)
		for i := 0; i < n; i++ {
			a[i*n+perm[i]] = float64(sc[i]+1) * float64(1-2*rng.Intn(2))
		}
	case 2:
		kind = "small-integers"
		for i := range a {
			a[i] = float64(rng.Intn(9) - 4)
		}
	case 3:
		kind = "rank-one-integers"
		x := make([]float64, n)
		y := make([]float64, n)
		for i := 0; i < n; i++ {
			x[i] = float64(rng.Intn(5) + 1)
			y[i] = float64(rng.Intn(7) - 3)
		}
		y[rng.Intn(n)] = 2
		for i := 0; i < n; i++ {
			for j := 0; j < n; j++ {
				a[i*n+j] = x[i] * y[j]
			}
		}
	default:
		kind = "diag-with-zero"
		perm := rng.Perm(6)
		for i := 0; i < n-1; i++ {
			a[i*n+i] = float64(perm[i] + 1)
		}
		// move the zero to a random position
		p := rng.Perm(n)
		b := make([]float64, n*n)
		for i := 0; i < n; i++ {
			b[p[i]*n+p[i]] = a[i*n+i]
		}
		a = b
	}
	sigma := refSingularValues(n, a)
	return &svdCase{a: a, sigma: sigma, kind: kind, approx: true}
}

// specialDecidable says whether a special matrix is an input the library's
// characteristic-polynomial method can be held to a tight tolerance on: the
// non-zero singular values have squares separated by 2% of the largest square
// and span a ratio of at most 100; singular values below 1e-6 of the largest
// are exact zeros of the integer matrix (the reference sees sqrt(eps) noise
// there) and are set to zero.
func specialDecidable(sigma []float64) bool {
	top := sigma[0] * sigma[0]
	if top == 0 {
		return false
	}
	for i := range sigma {
		if sigma[i] <= 1e-6*sigma[0] {
			sigma[i] = 0
		} else if sigma[i] < 0.01*sigma[0] {
			return false
		}
	}
	for i := 1; i < len(sigma); i++ {
		if sigma[i-1] == 0 && sigma[i] == 0 {
			continue
		}
		if sigma[i-1]*sigma[i-1]-sigma[i]*sigma[i] < 0.02*top {
			return false
		}
	}
	return true
}

func witnessMat(api *sqAPI, a []float64, extra map[string]interface{}) map[string]interface{} {
	w := map[string]interface{}{"type": api.name, "matrix_row_major_hex": hexs(a), "matrix": a}
	for k, v := range extra {
		w[k] = v
	}
	return w
}

// ---------------------------------------------------------------------------
// sections

func denseSections(r *vlib.Run) {
	apis := allAPIs()

	r.Section("linalg.inverse", r.N(6000, 120000), vlib.SectionOpts{}, func(c *vlib.Case) {
		rng := c.Rng
		api := apis[rng.Intn(4)] // no Inverse on Matrix4
		n := api.n
		kappa := []float64{1.5, 10, 100, 1e3, 1e4}[rng.Intn(5)]
		cs := genFromSVD(rng, n, kappa)
		a := cs.a
		k2 := cs.kappa * cs.kappa
		tol := 1e-13 * k2
		scale := cs.sigma[0]
		key := api.name + ".Inverse"
		w := witnessMat(api, a, map[string]interface{}{"sigma": cs.sigma, "kappa": cs.kappa})

		inv := api.inverse(a)
		res := maxAbsDiff(matMul(n, a, inv), matIdent(n))
		res2 := maxAbsDiff(matMul(n, inv, a), matIdent(n))
		cmax(c, "inverse.residual_over_kappa2", math.Max(res, res2)/k2)
		if !(res <= tol && res2 <= tol) {
			c.Violationf(key+"/reconstruct-identity", w, "|A*inv(A)-I|=%g, |inv(A)*A-I|=%g exceed %g (kappa=%.3g)", res, res2, tol, cs.kappa)
		}
		c.Count(api.name+".Inverse", 1)

		// determinant: product of the chosen singular values with the chosen sign
		wantDet := float64(cs.detU * cs.detV)
		for _, s := range cs.sigma {
			wantDet *= s
		}
		gotDet := api.det(a)
		detTol := 1e-12 * math.Pow(scale, float64(n))
		if !(math.Abs(gotDet-wantDet) <= detTol) {
			c.Violationf(api.name+".Det/value", w, "Det=%g, product of singular values with sign = %g", gotDet, wantDet)
		}
		c.Count(api.name+".Det", 1)

		// in-place variants agree with Inverse; MulColumnInv applies it.
		ip := api.inPlace(a)
		ipd := api.inPlaceDet(a, gotDet)
		if maxAbsDiff(ip, inv) > 1e-12*maxAbs(inv) || maxAbsDiff(ipd, inv) > 1e-12*maxAbs(inv) {
			c.Violationf(api.name+".InvertInPlace/equals-Inverse", w, "InvertInPlace / InvertInPlaceDet differ from Inverse: %v %v vs %v", ip, ipd, inv)
		}
		col := make([]float64, n)
		for i := range col {
			col[i] = rng.NormFloat64() * scale
		}
		got := api.mulColInv(a, col, gotDet)
		back := matVec(n, a, got)
		if !(maxAbsDiff(back, col) <= tol*maxAbs(col)*4) {
			w["column"] = col
			c.Violationf(api.name+".MulColumnInv/solves", w, "A*(MulColumnInv(c)) = %v, want c = %v", back, col)
		}
		c.Count(api.name+".MulColumnInv", 1)
		if cs.kappa > 50 {
			c.Nontrivial(fmt.Sprintf("inv|%s|%x", api.name, a[0]))
		}
	})

	r.Section("linalg.products", r.N(3000, 60000), vlib.SectionOpts{}, func(c *vlib.Case) {
		rng := c.Rng
		api := apis[rng.Intn(5)]
		n := api.n
		a := make([]float64, n*n)
		b := make([]float64, n*n)
		integers := rng.Intn(2) == 0
		for i := range a {
			if integers {
				a[i] = float64(rng.Intn(17) - 8)
				b[i] = float64(rng.Intn(17) - 8)
			} else {
				a[i] = rng.NormFloat64()
				b[i] = rng.NormFloat64()
			}
		}
		tol := 0.0
		if !integers {
			tol = 1e-13
		}
		w := witnessMat(api, a, map[string]interface{}{"b": b, "b_hex": hexs(b)})
		if d := maxAbsDiff(api.mul(a, b), matMul(n, a, b)); d > tol*maxAbs(a)*maxAbs(b)*float64(n) {
			c.Violationf(api.name+".Mul/entries", w, "Mul differs from the triple loop by %g", d)
		}
		if d := maxAbsDiff(api.transpose(a), matT(n, a)); d != 0 {
			c.Violationf(api.name+".Transpose/entries", w, "Transpose differs by %g", d)
		}
		sum := make([]float64, n*n)
		for i := range sum {
			sum[i] = a[i] + b[i]
		}
		if d := maxAbsDiff(api.add(a, b), sum); d != 0 {
			c.Violationf(api.name+".Add/entries", w, "Add differs by %g", d)
		}
		col := b[:n]
		if d := maxAbsDiff(api.mulColumn(a, col), matVec(n, a, col)); d > tol*maxAbs(a)*maxAbs(col)*float64(n) {
			c.Violationf(api.name+".MulColumn/entries", w, "MulColumn differs by %g", d)
		}
		cols := make([][]float64, n)
		for j := 0; j < n; j++ {
			cols[j] = make([]float64, n)
			for i := 0; i < n; i++ {
				cols[j][i] = a[i*n+j]
			}
		}
		if d := maxAbsDiff(api.columns(cols), a); d != 0 {
			c.Violationf(api.name+".NewColumns/entries", w, "NewMatrixColumns of the columns of A differs from A by %g", d)
		}
		// determinant against elimination (exact comparison on integers: both
		// are exact there for n <= 3; elimination divides, so use a tolerance)
		dTol := 1e-12 * math.Pow(maxAbs(a)+1, float64(n)) * 24
		if d := math.Abs(api.det(a) - refDet(n, a)); !(d <= dTol) {
			c.Violationf(api.name+".Det/value", w, "Det=%g, elimination gives %g", api.det(a), refDet(n, a))
		}
		c.Count(api.name+".products", 1)

		if n == 4 {
			m := nm4(a)
			// Rows, Cols, Sub, Scale, Identity
			rows, colsv := m.Rows(), m.Cols()
			for i := 0; i < 4; i++ {
				for j := 0; j < 4; j++ {
					if rows[i][j] != a[i*4+j] || colsv[j][i] != a[i*4+j] {
						c.Violationf("numerical.Matrix4.Rows/entries", w, "Rows/Cols entry (%d,%d) wrong", i, j)
					}
				}
			}
			sub := m.Sub(nm4(b))
			sc := m.Scale(0.5)
			for i := range a {
				if sub[i] != a[i]-b[i] || sc[i] != a[i]*0.5 {
					c.Violationf("numerical.Matrix4.Sub/entries", w, "Sub/Scale entry %d wrong", i)
				}
			}
			if d := maxAbsDiff(sl(numerical.NewMatrix4Identity()[:]), matIdent(4)); d != 0 {
				c.Violationf("numerical.Matrix4.Identity/entries", w, "identity wrong")
			}
			// characteristic polynomial against Faddeev-LeVerrier
			cp := m.CharPoly()
			ref := faddeevLeVerrier(4, a)
			if len(cp) != 5 {
				c.Violationf("numerical.Matrix4.CharPoly/coefficients", w, "CharPoly has %d coefficients", len(cp))
			} else {
				for k := 0; k < 5; k++ {
					ctol := 0.0
					if !integers {
						ctol = 1e-12 * math.Pow(maxAbs(a)+1, float64(4-k)) * 24
					}
					if !(math.Abs(cp[k]-ref[k]) <= ctol) {
						w["charpoly"] = []float64(cp)
						w["reference"] = ref
						c.Violationf("numerical.Matrix4.CharPoly/coefficients", w, "coefficient of x^%d is %g, Faddeev-LeVerrier gives %g", k, cp[k], ref[k])
						break
					}
				}
			}
			c.Count("numerical.Matrix4.CharPoly", 1)
		}
		if n == 3 && api.name == "numerical.Matrix3" {
			m := nm3(a)
			rows, colsv := m.Rows(), m.Cols()
			for i := 0; i < 3; i++ {
				for j := 0; j < 3; j++ {
					if rows[i][j] != a[i*3+j] || colsv[j][i] != a[i*3+j] {
						c.Violationf("numerical.Matrix3.Rows/entries", w, "Rows/Cols entry (%d,%d) wrong", i, j)
					}
				}
			}
		}
	})

	r.Section("linalg.svd", r.N(12000, 250000), vlib.SectionOpts{Sequential: false}, func(c *vlib.Case) {
		rng := c.Rng
		api := apis[rng.Intn(5)]
		n := api.n
		var cs *svdCase
		if rng.Intn(5) == 0 {
			cs = genSpecial(rng, n)
			if cs.kind != "zero" && !specialDecidable(cs.sigma) {
				c.Undecided("svd.special-with-close-singular-values")
				return
			}
			if n == 4 && cs.sigma[3] == 0 {
				// infinite condition number: not a well-conditioned input (the
				// 4x4 routine normalises A*v for the singular direction v)
				c.Undecided("svd.matrix4-singular-input")
				return
			}
		} else {
			kappa := []float64{1.5, 4, 10, 30, 100}[rng.Intn(5)]
			cs = genFromSVD(rng, n, kappa)
		}
		a := cs.a
		scale := cs.sigma[0]
		if cs.kind == "zero" {
			scale = 1
		}
		w := witnessMat(api, a, map[string]interface{}{"sigma": cs.sigma, "kind": cs.kind})
		u, s, v := api.svd(a)
		w["u"], w["s"], w["v"] = u, s, v
		key := api.name + ".SVD"
		// class of input: generic U*S*V^T, exactly representable full-rank
		// special, or rank-deficient special (a zero singular value comes out
		// as sqrt of a rounding error, i.e. sqrt(eps)*scale at best)
		class := "generic"
		tolOrth, tolRec, tolSig := 1e-8, 1e-8, 1e-8
		suffix := ""
		if cs.approx {
			class = "special"
			if cs.sigma[n-1] == 0 {
				class = "rank-deficient"
				tolRec, tolSig = 1e-6, 1e-6
			}
			if cs.kind != "small-integers" && cs.kind != "rank-one-integers" {
				// diagonal / signed permutation inputs get their own keys
				suffix = "-axis-aligned-input"
			}
		}
		if n == 4 && class == "generic" && cs.sigma[n-1] > 0 {
			// Matrix4.SVD goes through the characteristic polynomial of A^T A (condition number
			// squared) and random start vectors: its accuracy varies from run to run and falls
			// with the condition number (observed over 2e5 matrices: up to 2e-9 typically, 1.02e-8
			// once at kappa = 57; the library's own test allows 1e-8 at kappa 3 and 1e-4 for a
			// fourfold singular value). Tolerance 1e-8 up to kappa 10, growing with kappa^2 above.
			if k := cs.sigma[0] / cs.sigma[n-1]; k > 10 {
				f := k * k / 100
				tolOrth, tolRec, tolSig = tolOrth*f, tolRec*f, tolSig*f
			}
		}
		ou, ov := orthoDefect(n, u), orthoDefect(n, v)
		cmax(c, "svd.ortho_defect."+api.name+"."+class, math.Max(ou, ov))
		if !(ou <= tolOrth) {
			c.Violationf(key+"/u-orthogonal"+suffix, w, "|U^T U - I| = %g", ou)
		}
		if !(ov <= tolOrth) {
			c.Violationf(key+"/v-orthogonal"+suffix, w, "|V^T V - I| = %g", ov)
		}
		rec := maxAbsDiff(matMul(n, matMul(n, u, s), matT(n, v)), a) / scale
		cmax(c, "svd.reconstruction."+api.name+"."+class, rec)
		if !(rec <= tolRec) {
			c.Violationf(key+"/reconstruct"+suffix, w, "|U S V^T - A| / sigma_max = %g", rec)
		}
		diag := make([]float64, n)
		for i := 0; i < n; i++ {
			for j := 0; j < n; j++ {
				x := s[i*n+j]
				if i == j {
					diag[i] = x
					if !(x >= 0) {
						c.Violationf(key+"/s-nonnegative", w, "S[%d][%d] = %g", i, i, x)
					}
				} else if x != 0 {
					c.Violationf(key+"/s-diagonal", w, "S[%d][%d] = %g", i, j, x)
				}
			}
		}
		sortedDesc := sort.IsSorted(sort.Reverse(sort.Float64Slice(diag)))
		if n < 4 {
			if !sortedDesc {
				c.Violationf(key+"/s-sorted", w, "singular values not in decreasing order: %v", diag)
			}
		} else if !sortedDesc {
			// documented as sorted, but the property statement only demands
			// reconstruction; recorded as an observation (see FINDINGS.md notes).
			c.Count("numerical.Matrix4.SVD.unsorted_singular_values_observed", 1)
		}
		got := append([]float64{}, diag...)
		sort.Sort(sort.Reverse(sort.Float64Slice(got)))
		sd := maxAbsDiff(got, cs.sigma) / scale
		cmax(c, "svd.sigma_error."+api.name+"."+class, sd)
		if !(sd <= tolSig) {
			c.Violationf(key+"/singular-values"+suffix, w, "singular values %v, chosen %v", got, cs.sigma)
		}
		c.Count(api.name+".SVD", 1)
		c.Count(api.name+".SVD."+cs.kind, 1)
		c.Nontrivial(fmt.Sprintf("svd|%s|%x|%x", api.name, a[0], a[1]))
		c.Sample("svd."+api.name, 1, map[string]interface{}{"a": a, "sigma": cs.sigma, "residual": rec})
	})

	r.Section("linalg.eigenvalues", r.N(8000, 160000), vlib.SectionOpts{}, func(c *vlib.Case) {
		rng := c.Rng
		api := apis[rng.Intn(4)]
		n := api.n
		scale := logUniform(rng, 1e-2, 1e2)
		// Schur form T with known eigenvalues, A = Q T Q^T.
		t := make([]float64, n*n)
		var want []complex128
		kind := ""
		drawReal := func(k int) []float64 {
			for {
				xs := make([]float64, k)
				for i := range xs {
					xs[i] = (rng.Float64()*4 - 2)
				}
				ok := true
				for i := 0; i < k; i++ {
					for j := 0; j < i; j++ {
						if math.Abs(xs[i]-xs[j]) < 0.3 {
							ok = false
						}
					}
				}
				if ok {
					return xs
				}
			}
		}
		symmetric := rng.Intn(3) == 0
		complexPair := !symmetric && rng.Intn(2) == 0
		if complexPair {
			kind = "complex-pair"
			re := rng.Float64()*4 - 2
			im := 0.3 + rng.Float64()*1.7
			ratio := logUniform(rng, 0.5, 2)
			// block [[re, b],[-c, re]] with b*c = im^2
			b, cc := im*ratio, im/ratio
			t[0], t[1], t[n], t[n+1] = re, b, -cc, re
			want = append(want, complex(re, im), complex(re, -im))
			if n == 3 {
				lam := rng.Float64()*4 - 2
				t[8] = lam
				t[2], t[5] = rng.Float64()*2-1, rng.Float64()*2-1
				want = append(want, complex(lam, 0))
			}
		} else {
			kind = "real-distinct"
			if symmetric {
				kind = "symmetric"
			}
			xs := drawReal(n)
			for i, x := range xs {
				t[i*n+i] = x
				want = append(want, complex(x, 0))
			}
			if !symmetric {
				for i := 0; i < n; i++ {
					for j := i + 1; j < n; j++ {
						t[i*n+j] = rng.Float64()*2 - 1
					}
				}
			}
		}
		for i := range t {
			t[i] *= scale
		}
		for i := range want {
			want[i] *= complex(scale, 0)
		}
		q := randOrth(rng, n, 1-2*rng.Intn(2))
		a := matMul(n, matMul(n, q, t), matT(n, q))
		tolEig := 1e-8
		if rng.Intn(12) == 0 {
			// exactly representable matrices with a repeated eigenvalue: c*I, and diag(c,...,c,d) under a
			// coordinate permutation. A multiple root is only determined to about eps^(1/3) by a
			// characteristic polynomial, hence the looser tolerance; the sign and the multiset are not in doubt.
			cval := float64(rng.Intn(9)-4) / 2
			if cval == 0 {
				cval = 1.5
			}
			dval := cval
			kind = "scalar-matrix"
			if rng.Intn(2) == 0 {
				dval = cval + float64(1+rng.Intn(4))
				kind = "repeated-eigenvalue-diagonal"
			}
			a = make([]float64, n*n)
			want = want[:0]
			pos := rng.Intn(n)
			for i := 0; i < n; i++ {
				v := cval
				if i == pos {
					v = dval
				}
				a[i*n+i] = v * scale
				want = append(want, complex(v*scale, 0))
			}
			tolEig = 1e-3
		}
		got := api.eig(a)
		w := witnessMat(api, a, map[string]interface{}{"chosen_eigenvalues": fmt.Sprint(want), "returned": fmt.Sprint(got), "kind": kind})
		best := math.Inf(1)
		perms := [][]int{{0, 1}, {1, 0}}
		if n == 3 {
			perms = [][]int{{0, 1, 2}, {0, 2, 1}, {1, 0, 2}, {1, 2, 0}, {2, 0, 1}, {2, 1, 0}}
		}
		for _, p := range perms {
			worst := 0.0
			for i, j := range p {
				d := cmplx.Abs(got[i] - want[j])
				if math.IsNaN(d) {
					d = math.Inf(1)
				}
				worst = math.Max(worst, d)
			}
			best = math.Min(best, worst)
		}
		cmax(c, "eigenvalues.error."+api.name, best/scale)
		if !(best <= tolEig*scale) {
			c.Violationf(api.name+".Eigenvalues/multiset", w, "eigenvalue multiset differs from the chosen one by %g (scale %g)", best, scale)
		}
		c.Count(api.name+".Eigenvalues", 1)
		c.Count(api.name+".Eigenvalues."+kind, 1)
		c.Nontrivial(fmt.Sprintf("eig|%s|%x", api.name, a[0]))
	})

	r.Section("linalg.rotation", r.N(6000, 100000), vlib.SectionOpts{}, func(c *vlib.Case) {
		rng := c.Rng
		axis := genAxis(rng)
		angle := genAngle(rng)
		k := axis
		co, si := math.Cos(angle), math.Sin(angle)
		// Rodrigues: R = cos I + sin [k]x + (1-cos) k k^T (right-handed)
		ref := []float64{
			co + (1-co)*k[0]*k[0], (1-co)*k[0]*k[1] - si*k[2], (1-co)*k[0]*k[2] + si*k[1],
			(1-co)*k[1]*k[0] + si*k[2], co + (1-co)*k[1]*k[1], (1-co)*k[1]*k[2] - si*k[0],
			(1-co)*k[2]*k[0] - si*k[1], (1-co)*k[2]*k[1] + si*k[0], co + (1-co)*k[2]*k[2],
		}
		check := func(name string, m []float64) {
			w := map[string]interface{}{"axis": axis, "axis_hex": hexs(axis), "angle": angle, "angle_hex": fmt.Sprintf("%x", angle), "matrix": m, "rodrigues": ref}
			if d := maxAbsDiff(m, ref); !(d <= 1e-12) {
				c.Violationf(name+"/rodrigues", w, "rotation matrix differs from Rodrigues' formula by %g", d)
			}
			if d := orthoDefect(3, m); !(d <= 1e-12) {
				c.Violationf(name+"/orthogonal", w, "|R^T R - I| = %g", d)
			}
			if d := refDet(3, m); !(math.Abs(d-1) <= 1e-12) {
				c.Violationf(name+"/det-one", w, "det = %g", d)
			}
			if d := maxAbsDiff(matVec(3, m, axis), axis); !(d <= 1e-12) {
				c.Violationf(name+"/fixes-axis", w, "R*axis differs from axis by %g", d)
			}
			c.Count(name, 1)
		}
		check("numerical.NewMatrix3Rotation", sl(numerical.NewMatrix3Rotation(numerical.Vec3{k[0], k[1], k[2]}, angle)[:]))
		check("model3d.NewMatrix3Rotation", sl(model3d.NewMatrix3Rotation(model3d.XYZ(k[0], k[1], k[2]), angle)[:]))

		ref2 := []float64{co, -si, si, co}
		for name, m := range map[string][]float64{
			"numerical.NewMatrix2Rotation": sl(numerical.NewMatrix2Rotation(angle)[:]),
			"model2d.NewMatrix2Rotation":   sl(model2d.NewMatrix2Rotation(angle)[:]),
		} {
			if d := maxAbsDiff(m, ref2); !(d <= 1e-15) {
				c.Violationf(name+"/entries", map[string]interface{}{"angle": angle, "matrix": m}, "2D rotation differs from [[cos,-sin],[sin,cos]] by %g", d)
			}
			c.Count(name, 1)
		}
		c.Nontrivial(fmt.Sprintf("rot|%x|%x", axis[0], angle))
	})

	r.Section("linalg.orthobasis", r.N(6000, 100000), vlib.SectionOpts{}, func(c *vlib.Case) {
		rng := c.Rng
		// Vec3 / Coord3D
		v := genAxis(rng)
		mag := logUniform(rng, 1e-3, 1e3)
		if rng.Intn(3) == 0 {
			mag = 1
		}
		for i := range v {
			v[i] *= mag
		}
		axisAligned := (v[0] == 0 && v[1] == 0) || (v[0] == 0 && v[2] == 0) || (v[1] == 0 && v[2] == 0)
		check3 := func(name string, b1, b2 []float64) {
			w := map[string]interface{}{"v": v, "v_hex": hexs(v), "b1": b1, "b2": b2}
			dot := func(a, b []float64) float64 { return a[0]*b[0] + a[1]*b[1] + a[2]*b[2] }
			nv := math.Sqrt(dot(v, v))
			bad := math.Max(math.Abs(dot(b1, b1)-1), math.Abs(dot(b2, b2)-1))
			bad = math.Max(bad, math.Abs(dot(b1, b2)))
			bad = math.Max(bad, math.Abs(dot(b1, v))/nv)
			bad = math.Max(bad, math.Abs(dot(b2, v))/nv)
			cmax(c, "orthobasis.defect", bad)
			if !(bad <= 1e-12) {
				c.Violationf(name+"/orthonormal", w, "basis not orthonormal / not orthogonal to v (defect %g)", bad)
			}
			if axisAligned {
				for _, b := range [][]float64{b1, b2} {
					nz := 0
					for _, x := range b {
						if x != 0 {
							nz++
						}
					}
					if nz != 1 {
						c.Violationf(name+"/axis-aligned", w, "v is axis-aligned but %v is not", b)
					}
				}
				c.Count("orthobasis.axis_aligned_inputs", 1)
			}
			c.Count(name, 1)
		}
		a1, a2 := numerical.Vec3{v[0], v[1], v[2]}.OrthoBasis()
		check3("numerical.Vec3.OrthoBasis", a1[:], a2[:])
		c1, c2 := model3d.XYZ(v[0], v[1], v[2]).OrthoBasis()
		check3("model3d.Coord3D.OrthoBasis", []float64{c1.X, c1.Y, c1.Z}, []float64{c2.X, c2.Y, c2.Z})

		// Vec4
		v4 := genAxis4(rng)
		for i := range v4 {
			v4[i] *= mag
		}
		b1, b2, b3 := numerical.Vec4{v4[0], v4[1], v4[2], v4[3]}.OrthoBasis()
		nv := 0.0
		for _, x := range v4 {
			nv += x * x
		}
		nv = math.Sqrt(nv)
		unit := make([]float64, 4)
		for i := range unit {
			unit[i] = v4[i] / nv
		}
		m := make([]float64, 16)
		for i := 0; i < 4; i++ {
			m[i*4], m[i*4+1], m[i*4+2], m[i*4+3] = unit[i], b1[i], b2[i], b3[i]
		}
		w := map[string]interface{}{"v": v4, "v_hex": hexs(v4), "b1": b1, "b2": b2, "b3": b3}
		if d := orthoDefect(4, m); !(d <= 1e-12) {
			c.Violationf("numerical.Vec4.OrthoBasis/orthonormal", w, "[v/|v|, b1, b2, b3] is not orthogonal (defect %g)", d)
		}
		if d := refDet(4, m); !(d > 0.5) {
			c.Violationf("numerical.Vec4.OrthoBasis/positive-determinant", w, "det [v, b1, b2, b3] = %g, documented positive", d)
		}
		nzv := 0
		for _, x := range v4 {
			if x != 0 {
				nzv++
			}
		}
		if nzv == 1 {
			for _, b := range []numerical.Vec4{b1, b2, b3} {
				nz := 0
				for _, x := range b {
					if x != 0 {
						nz++
					}
				}
				if nz != 1 {
					c.Violationf("numerical.Vec4.OrthoBasis/axis-aligned", w, "v is axis-aligned but %v is not", b)
				}
			}
		}
		c.Count("numerical.Vec4.OrthoBasis", 1)
	})
}

// genAxis draws a unit 3-vector: random, axis-aligned, with ties among the
// absolute values, or nearly axis-aligned.
func genAxis(rng *rand.Rand) []float64 {
	var v []float64
	switch rng.Intn(6) {
	case 0:
		v = []float64{0, 0, 0}
		v[rng.Intn(3)] = float64(1 - 2*rng.Intn(2))
		return v
	case 1: // ties
		v = []float64{float64(rng.Intn(3) - 1), float64(rng.Intn(3) - 1), float64(rng.Intn(3) - 1)}
	case 2: // nearly axis-aligned
		v = []float64{rng.NormFloat64() * 1e-9, rng.NormFloat64() * 1e-9, rng.NormFloat64() * 1e-9}
		v[rng.Intn(3)] = float64(1 - 2*rng.Intn(2))
	case 3: // one zero component
		v = []float64{rng.NormFloat64(), rng.NormFloat64(), rng.NormFloat64()}
		v[rng.Intn(3)] = 0
	default:
		v = []float64{rng.NormFloat64(), rng.NormFloat64(), rng.NormFloat64()}
	}
	n := math.Sqrt(v[0]*v[0] + v[1]*v[1] + v[2]*v[2])
	if n < 1e-3 {
		return []float64{0, 1, 0}
	}
	for i := range v {
		v[i] /= n
	}
	return v
}

func genAxis4(rng *rand.Rand) []float64 {
	v := make([]float64, 4)
	switch rng.Intn(5) {
	case 0:
		v[rng.Intn(4)] = float64(1 - 2*rng.Intn(2))
		return v
	case 1:
		for i := range v {
			v[i] = float64(rng.Intn(3) - 1)
		}
	case 2:
		for i := range v {
			v[i] = rng.NormFloat64() * 1e-9
		}
		v[rng.Intn(4)] = float64(1 - 2*rng.Intn(2))
	default:
		for i := range v {
			v[i] = rng.NormFloat64()
		}
	}
	var n float64
	for _, x := range v {
		n += x * x
	}
	n = math.Sqrt(n)
	if n < 1e-3 {
		return []float64{0, 0, 1, 0}
	}
	for i := range v {
		v[i] /= n
	}
	return v
}

func genAngle(rng *rand.Rand) float64 {
	switch rng.Intn(4) {
	case 0:
		return float64(rng.Intn(17)-8) * math.Pi / 4
	case 1:
		return rng.NormFloat64() * 1e-6
	default:
		return (rng.Float64()*2 - 1) * 4 * math.Pi
	}
}
