package main

// Curve kernels of model2d/curves.go: Bezier evaluation against de Casteljau
// for every degree, Split, Polynomials, InverseX/EvalX, Length, Transpose,
// JoinedCurve piece selection, SegmentCurve arc-length parameterisation,
// CurveMesh, SmoothBezier.

import (
	"fmt"
	"math"
	"math/rand"

	"github.com/unixpickle/model3d/model2d"
	"verif/vlib"
)

func genCtrl(rng *rand.Rand, n int) ([][2]float64, float64) {
	ctrl := make([][2]float64, n)
	scale := logUniform(rng, 1e-2, 1e2)
	integers := rng.Intn(4) == 0
	for i := range ctrl {
		if integers {
			ctrl[i] = [2]float64{float64(rng.Intn(17) - 8), float64(rng.Intn(17) - 8)}
		} else {
			ctrl[i] = [2]float64{rng.NormFloat64() * scale, rng.NormFloat64() * scale}
		}
	}
	if integers {
		scale = 8
	}
	var m float64
	for _, p := range ctrl {
		m = math.Max(m, math.Max(math.Abs(p[0]), math.Abs(p[1])))
	}
	return ctrl, math.Max(m, scale*1e-3)
}

func toBezier(ctrl [][2]float64) model2d.BezierCurve {
	b := make(model2d.BezierCurve, len(ctrl))
	for i, p := range ctrl {
		b[i] = model2d.XY(p[0], p[1])
	}
	return b
}

func genT(rng *rand.Rand) float64 {
	switch rng.Intn(6) {
	case 0:
		return 0
	case 1:
		return 1
	case 2:
		return float64(rng.Intn(9)) / 8
	case 3:
		return logUniform(rng, 1e-12, 1e-2)
	default:
		return rng.Float64()
	}
}

func evalPath(n int) string {
	switch {
	case n == 2:
		return "linear"
	case n == 3:
		return "quadratic"
	case n == 4:
		return "cubic"
	case n <= 15:
		return "binomial"
	}
	return "recursive"
}

func curveSections(r *vlib.Run) {
	r.Section("bezier.eval", r.N(20000, 400000), vlib.SectionOpts{}, func(c *vlib.Case) {
		rng := c.Rng
		n := 2 + rng.Intn(17) // 2..18 control points: degrees 1..17
		ctrl, scale := genCtrl(rng, n)
		b := toBezier(ctrl)
		path := evalPath(n)
		tol := 1e-13 * scale * float64(n)
		w := map[string]interface{}{"control_points": ctrl, "points": n}
		for k := 0; k < 4; k++ {
			t := genT(rng)
			got := b.Eval(t)
			ref := deCasteljau(ctrl, t)
			d := math.Max(math.Abs(got.X-ref[0]), math.Abs(got.Y-ref[1]))
			cmax(c, "bezier.eval_error_over_scale."+path, d/scale)
			if !(d <= tol) {
				w["t"], w["t_hex"], w["returned"], w["de_casteljau"] = t, fmt.Sprintf("%x", t), got, ref
				c.Violationf("model2d.BezierCurve.Eval/de-casteljau-"+path, w, "Eval(%g) = %v, repeated linear interpolation gives %v (degree %d)", t, got, ref, n-1)
				break
			}
		}
		c.Count("model2d.BezierCurve.Eval."+path, 1)
		c.Count(fmt.Sprintf("bezier.eval.degree_%02d", n-1), 1)

		// Transpose / CurveTranspose
		tt := rng.Float64()
		bt := b.Transpose().Eval(tt)
		ct := model2d.CurveTranspose(b).Eval(tt)
		o := b.Eval(tt)
		if bt.X != o.Y || bt.Y != o.X || ct.X != o.Y || ct.Y != o.X {
			c.Violationf("model2d.BezierCurve.Transpose/swapped", w, "Transpose().Eval = %v, CurveTranspose.Eval = %v, Eval = %v", bt, ct, o)
		}
		c.Count("model2d.BezierCurve.Transpose", 1)
		c.Nontrivial(fmt.Sprintf("bez|%d|%x", n, ctrl[0][0]))
		c.Sample("bezier."+path, 1, map[string]interface{}{"control_points": ctrl})
	})

	r.Section("bezier.split", r.N(8000, 150000), vlib.SectionOpts{}, func(c *vlib.Case) {
		rng := c.Rng
		n := 2 + rng.Intn(15)
		ctrl, scale := genCtrl(rng, n)
		b := toBezier(ctrl)
		t := genT(rng)
		tol := 1e-12 * scale * float64(n)
		l, rr := b.Split(t)
		w := map[string]interface{}{"control_points": ctrl, "t": t, "t_hex": fmt.Sprintf("%x", t), "left": l, "right": rr}
		if len(l) != n || len(rr) != n {
			c.Violationf("model2d.BezierCurve.Split/degree", w, "halves have %d and %d control points, curve has %d", len(l), len(rr), n)
			return
		}
		refL, refR := deCasteljauSplit(ctrl, t)
		for i := 0; i < n; i++ {
			if d := math.Max(math.Max(math.Abs(l[i].X-refL[i][0]), math.Abs(l[i].Y-refL[i][1])), math.Max(math.Abs(rr[i].X-refR[i][0]), math.Abs(rr[i].Y-refR[i][1]))); !(d <= tol) {
				w["reference_left"], w["reference_right"] = refL, refR
				c.Violationf("model2d.BezierCurve.Split/control-points", w, "control point %d of a half differs from de Casteljau's triangle by %g", i, d)
				break
			}
		}
		// the halves trace the same curve (evaluated with the independent reference)
		lc := make([][2]float64, n)
		rc := make([][2]float64, n)
		for i := 0; i < n; i++ {
			lc[i] = [2]float64{l[i].X, l[i].Y}
			rc[i] = [2]float64{rr[i].X, rr[i].Y}
		}
		for k := 0; k < 3; k++ {
			s := genT(rng)
			p1 := deCasteljau(lc, s)
			q1 := deCasteljau(ctrl, s*t)
			p2 := deCasteljau(rc, s)
			q2 := deCasteljau(ctrl, t+s*(1-t))
			if d := math.Max(dist2(p1, q1), dist2(p2, q2)); !(d <= tol*4) {
				w["s"] = s
				c.Violationf("model2d.BezierCurve.Split/same-curve", w, "half evaluated at %g is %g away from the original curve", s, d)
				break
			}
		}
		// the two halves and the curve are independent values: a caller who extends or overwrites
		// one of them (joining control nets, elevating the degree) leaves the others as they were
		snapL, snapR, snapB := append(model2d.BezierCurve{}, l...), append(model2d.BezierCurve{}, rr...), append(model2d.BezierCurve{}, b...)
		junk := model2d.XY(1e9+rng.Float64(), -1e9)
		switch rng.Intn(4) {
		case 0:
			_ = append(l, junk, junk, junk)
		case 1:
			_ = append(rr, junk, junk, junk)
		case 2:
			_ = append(l[:rng.Intn(n)], junk)
			l = snapL
		default:
			for i := range l {
				l[i] = junk
			}
			snapL = append(model2d.BezierCurve{}, l...)
		}
		same := func(a, b model2d.BezierCurve) bool {
			for i := range a {
				if a[i] != b[i] {
					return false
				}
			}
			return len(a) == len(b)
		}
		c.Count("bezier.split.halves_extended_or_overwritten_by_the_caller", 1)
		if !same(rr, snapR) || !same(b, snapB) || (!same(l, snapL) && len(l) == len(snapL)) {
			c.Violationf("model2d.BezierCurve.Split/halves-independent", w, "after the caller appended to / wrote into one half, the other half or the curve changed: right %v (was %v), curve %v (was %v)", rr, snapR, b, snapB)
		}
		c.Count("model2d.BezierCurve.Split", 1)
		c.Nontrivial(fmt.Sprintf("split|%d|%x|%x", n, ctrl[0][0], t))
	})

	r.Section("bezier.polynomials", r.N(8000, 150000), vlib.SectionOpts{}, func(c *vlib.Case) {
		rng := c.Rng
		n := 1 + rng.Intn(17)
		ctrl, _ := genCtrl(rng, n)
		b := toBezier(ctrl)
		ps := b.Polynomials()
		w := map[string]interface{}{"control_points": ctrl, "polynomials": ps}
		for axis := 0; axis < 2; axis++ {
			co := make([]float64, n)
			for i := range co {
				co[i] = ctrl[i][axis]
			}
			ref := bezierPowerBasis(co)
			var mag float64
			for _, x := range ref {
				mag += math.Abs(x)
			}
			// magnitude of the intermediate sums: C(n,j) * 2^j * max|b|
			var inter float64
			for j := 0; j < n; j++ {
				inter = math.Max(inter, binomial(n-1, j)*math.Pow(2, float64(j))*maxAbs(co))
			}
			ctol := 1e-13 * (inter + mag + 1e-300)
			p := ps[axis]
			if len(p) > n {
				c.Violationf("model2d.BezierCurve.Polynomials/degree", w, "polynomial of length %d for %d control points", len(p), n)
				return
			}
			for j := 0; j < n; j++ {
				var got float64
				if j < len(p) {
					got = p[j]
				}
				if !(math.Abs(got-ref[j]) <= ctol) {
					w["reference"] = ref
					c.Violationf("model2d.BezierCurve.Polynomials/coefficients", w, "axis %d coefficient of t^%d is %g, expected %g", axis, j, got, ref[j])
					return
				}
			}
			// evaluates to the curve
			if n >= 2 {
				t := genT(rng)
				refP := deCasteljau(ctrl, t)
				if d := math.Abs(p.Eval(t) - refP[axis]); !(d <= ctol*float64(n)) {
					c.Violationf("model2d.BezierCurve.Polynomials/evaluates-to-curve", w, "axis %d polynomial at t=%g is %g, curve is %g", axis, t, p.Eval(t), refP[axis])
					return
				}
			}
		}
		c.Count("model2d.BezierCurve.Polynomials", 1)
		c.Count(fmt.Sprintf("bezier.polynomials.points_%02d", n), 1)
	})

	r.Section("bezier.inverse_x", r.N(6000, 100000), vlib.SectionOpts{}, func(c *vlib.Case) {
		rng := c.Rng
		n := 2 + rng.Intn(9)
		scale := logUniform(rng, 1e-1, 1e1)
		ctrl := make([][2]float64, n)
		x := rng.NormFloat64() * scale
		minGap := math.Inf(1)
		for i := range ctrl {
			ctrl[i] = [2]float64{x, rng.NormFloat64() * scale}
			gap := scale * (0.2 + rng.Float64())
			if i < n-1 {
				minGap = math.Min(minGap, gap)
			}
			x += gap
		}
		if n >= 3 && rng.Intn(5) == 0 {
			// a curve of lower degree written with one more control point (degree elevation) and
			// then kept to 8-13 significant digits, as a file format would: its leading
			// coefficient is neither zero nor of the size of the others
			low := ctrl[:n-1]
			m := n - 2 // degree of low
			el := make([][2]float64, n)
			for i := 0; i < n; i++ {
				a := float64(i) / float64(m+1)
				for k := 0; k < 2; k++ {
					var prev, cur float64
					if i > 0 {
						prev = low[i-1][k]
					}
					if i <= m {
						cur = low[i][k]
					}
					el[i][k] = a*prev + (1-a)*cur
				}
			}
			digits := 8 + rng.Intn(6)
			for i := range el {
				for k := 0; k < 2; k++ {
					if v := el[i][k]; v != 0 {
						q := math.Pow(10, float64(digits)-math.Ceil(math.Log10(math.Abs(v))))
						el[i][k] = math.Round(v*q) / q
					}
				}
			}
			ctrl = el
			minGap = math.Inf(1)
			for i := 0; i+1 < n; i++ {
				minGap = math.Min(minGap, ctrl[i+1][0]-ctrl[i][0])
			}
			c.Count("bezier.inverse_x.nearly_elevated_curves", 1)
		}
		if rng.Intn(2) == 0 { // decreasing in x
			for i, j := 0, n-1; i < j; i, j = i+1, j-1 {
				ctrl[i], ctrl[j] = ctrl[j], ctrl[i]
			}
		}
		b := toBezier(ctrl)
		x0, x1 := ctrl[0][0], ctrl[n-1][0]
		lo, hi := math.Min(x0, x1), math.Max(x0, x1)
		span := hi - lo
		w := map[string]interface{}{"control_points": ctrl}
		// X'(t) = (n-1) * sum (x_{i+1}-x_i) B_i >= (n-1)*minGap in magnitude
		slope := float64(n-1) * minGap
		var maxDy float64
		for i := 1; i < n; i++ {
			maxDy = math.Max(maxDy, math.Abs(ctrl[i][1]-ctrl[i-1][1]))
		}
		ySlope := float64(n-1) * maxDy
		for k := 0; k < 3; k++ {
			var q float64
			kind := "interior"
			switch rng.Intn(6) {
			case 0:
				q, kind = x0, "start"
			case 1:
				q, kind = x1, "end"
			case 2:
				q, kind = lo-span*(0.01+rng.Float64()), "below-range"
			case 3:
				q, kind = hi+span*(0.01+rng.Float64()), "above-range"
			default:
				q = lo + span*(0.001+0.998*rng.Float64())
			}
			t := b.InverseX(q)
			y := b.EvalX(q)
			w["x"], w["x_hex"], w["kind"], w["t"], w["y"] = q, fmt.Sprintf("%x", q), kind, t, y
			switch kind {
			case "below-range", "above-range":
				if !math.IsNaN(t) || !math.IsNaN(y) {
					c.Violationf("model2d.BezierCurve.InverseX/out-of-range-is-NaN", w, "x=%g is outside the curve's x range [%g,%g] but InverseX=%g EvalX=%g", q, lo, hi, t, y)
				}
				c.Count("bezier.inverse_x.out_of_range", 1)
			default:
				if !(t >= 0 && t <= 1) {
					c.Violationf("model2d.BezierCurve.InverseX/in-unit-interval", w, "InverseX(%g) = %g", q, t)
					continue
				}
				ref := deCasteljau(ctrl, t)
				xtol := 1e-12 * (math.Abs(lo) + math.Abs(hi) + span) * float64(n)
				if !(math.Abs(ref[0]-q) <= xtol) {
					c.Violationf("model2d.BezierCurve.InverseX/x-of-t", w, "X(InverseX(%g)) = %g", q, ref[0])
				}
				// own bisection for the reference y
				a, bb := 0.0, 1.0
				inc := x1 > x0
				for it := 0; it < 80; it++ {
					m := (a + bb) / 2
					if (deCasteljau(ctrl, m)[0] <= q) == inc {
						a = m
					} else {
						bb = m
					}
				}
				yref := deCasteljau(ctrl, (a+bb)/2)[1]
				ytol := ySlope*(2*xtol/slope) + 1e-12*scale*float64(n)
				if !(math.Abs(y-yref) <= ytol) {
					w["y_reference"] = yref
					c.Violationf("model2d.BezierCurve.EvalX/y-of-x", w, "EvalX(%g) = %g, reference %g", q, y, yref)
				}
				if kind == "start" && t != 0 || kind == "end" && t != 1 {
					c.Violationf("model2d.BezierCurve.InverseX/endpoints", w, "InverseX at the %s x value returned %g", kind, t)
				}
				c.Count("bezier.inverse_x.in_range", 1)
			}
		}
		// cached variant agrees
		q := lo + span*rng.Float64()
		cached := b.CachedEvalX(0)
		if v1, v2, v3 := cached(q), cached(q), b.EvalX(q); v1 != v3 || v2 != v3 {
			c.Violationf("model2d.BezierCurve.CachedEvalX/same-value", w, "cached %g, %g vs EvalX %g", v1, v2, v3)
		}
		c.Count("model2d.BezierCurve.InverseX", 1)
		c.Nontrivial(fmt.Sprintf("invx|%d|%x", n, ctrl[0][0]))
	})

	r.Section("bezier.length", r.N(3000, 40000), vlib.SectionOpts{}, func(c *vlib.Case) {
		rng := c.Rng
		n := 2 + rng.Intn(7)
		if rng.Intn(3) == 0 {
			n = 4
		}
		ctrl, _ := genCtrl(rng, n)
		collapsed := false
		if n == 4 && rng.Intn(4) == 0 {
			// a cubic with one collapsed handle (first or last two control points equal): still a
			// genuine arc, zero speed only at that end
			collapsed = true
			if rng.Intn(2) == 0 {
				ctrl[1] = ctrl[0]
			} else {
				ctrl[2] = ctrl[3]
			}
		}
		if !collapsed && n >= 3 && rng.Intn(6) == 0 {
			// nearly straight / nearly lower-degree: the inner control points sit on the chord's
			// equal subdivision up to a relative 1e-13..1e-8 (an arc that is almost a segment)
			off := math.Pow(10, -13+5*rng.Float64())
			chord := math.Hypot(ctrl[n-1][0]-ctrl[0][0], ctrl[n-1][1]-ctrl[0][1])
			for i := 1; i < n-1; i++ {
				a := float64(i) / float64(n-1)
				for k := 0; k < 2; k++ {
					ctrl[i][k] = ctrl[0][k]*(1-a) + ctrl[n-1][k]*a + off*chord*rng.NormFloat64()
				}
			}
			c.Count("bezier.length.nearly_straight_curves", 1)
		}
		b := toBezier(ctrl)
		relTol := logUniform(rng, 1e-6, 1e-2)
		if rng.Intn(8) == 0 {
			relTol = logUniform(rng, 1e-10, 1e-6)
		}
		var lo, hi float64
		for _, depth := range []int{8, 11, 14, 16} {
			lo, hi = bezierLengthBounds(ctrl, depth)
			if hi-lo <= 0.05*relTol*hi {
				break
			}
		}
		if !(hi-lo <= 0.05*relTol*hi) || hi == 0 {
			c.Undecided("length.reference-bracket-too-wide")
			return
		}
		tol := relTol * hi
		maxSplits := 0
		effSplits := model2d.DefaultBezierMaxSplits
		if rng.Intn(2) == 0 {
			maxSplits = 24
			effSplits = 24
		}
		// "within the given margin" can only hold if the subdivision budget is
		// not exhausted: replay the documented stopping rule (control polygon
		// minus chord below the tolerance, tolerance halved per split) on the
		// independent de Casteljau pieces and decline curves that come within
		// two levels of the budget (cusps, retrograde control polygons).
		if d := subdivisionDepth(ctrl, tol, effSplits); d > effSplits-2 {
			c.Undecided("length.subdivision-budget-reached")
			return
		}
		if n == 4 && !collapsed && cubicSpeedRatio(ctrl) < 0.05 {
			c.Undecided("length.cubic-near-cusp")
			return
		}
		got := b.Length(tol, maxSplits)
		w := map[string]interface{}{"control_points": ctrl, "tol": tol, "max_splits": maxSplits, "returned": got, "length_lower_bound": lo, "length_upper_bound": hi}
		// distance from the bracket [lo, hi] of the true length
		var off float64
		if got < lo {
			off = lo - got
		} else if got > hi {
			off = got - hi
		}
		path := "adaptive"
		allow := tol * 1.001
		if n == 4 {
			// the cubic path stops on an error *estimate* (ported heuristic), so
			// it is held to ten times the requested tolerance only
			path = "cubic"
			allow = tol * 10
			if collapsed {
				// zero end speed weakens the error estimate: held to 100x the tolerance, which
				// still separates an arc from its chord by orders of magnitude
				path = "cubic-collapsed-handle"
				allow = tol * 100
			}
		}
		allow += 1e-9 * hi
		cmax(c, "bezier.length_error_over_tol."+path, nanInf(off)/tol)
		if !(off <= allow) {
			c.Violationf("model2d.BezierCurve.Length/"+path, w, "Length = %g, true length in [%g, %g], requested tolerance %g", got, lo, hi, tol)
		}
		c.Count("model2d.BezierCurve.Length."+path, 1)
		c.Nontrivial(fmt.Sprintf("len|%d|%x", n, ctrl[0][0]))
	})

	r.Section("curve.joined", r.N(6000, 100000), vlib.SectionOpts{}, func(c *vlib.Case) {
		rng := c.Rng
		k := 1 + rng.Intn(6)
		// piece i reports (i, s): decodes which piece was used with which parameter
		j := make(model2d.JoinedCurve, k)
		for i := range j {
			idx := float64(i)
			j[i] = model2d.FuncCurve(func(s float64) model2d.Coord { return model2d.XY(idx, s) })
		}
		for q := 0; q < 6; q++ {
			var t float64
			kind := ""
			switch rng.Intn(6) {
			case 0:
				t, kind = 0, "zero"
			case 1:
				t, kind = 1, "one"
			case 2:
				t, kind = 1+logUniform(rng, 1e-3, 3), "above-one"
			case 3:
				t, kind = -logUniform(rng, 1e-3, 3), "below-zero"
			default:
				t, kind = rng.Float64(), "inside"
			}
			scaled := t * float64(k)
			if kind == "inside" || kind == "above-one" || kind == "below-zero" {
				if math.Abs(scaled-math.Round(scaled)) < 1e-9 {
					c.Undecided("joined.parameter-on-a-joint")
					continue
				}
			}
			want := int(math.Floor(scaled))
			if want < 0 {
				want = 0
			}
			if want > k-1 {
				want = k - 1
			}
			var got model2d.Coord
			if msg := safely(func() { got = j.Eval(t) }); msg != "" {
				c.Violationf("model2d.JoinedCurve.Eval/panics-"+kind, map[string]interface{}{"pieces": k, "t": t, "t_hex": fmt.Sprintf("%x", t), "panic": msg},
					"Eval(%g) on a joined curve of %d pieces panics (%s); documented: for t outside [0,1] the first or last curve is used", t, k, msg)
				continue
			}
			w := map[string]interface{}{"pieces": k, "t": t, "t_hex": fmt.Sprintf("%x", t), "kind": kind, "piece_used": got.X, "sub_parameter": got.Y}
			wantS := scaled - float64(want)
			if got.X != float64(want) {
				c.Violationf("model2d.JoinedCurve.Eval/piece", w, "t=%g with %d pieces used piece %g, documented piece %d", t, k, got.X, want)
			} else if !(math.Abs(got.Y-wantS) <= 1e-12*(1+math.Abs(scaled))) {
				c.Violationf("model2d.JoinedCurve.Eval/sub-parameter", w, "t=%g with %d pieces evaluated piece %d at %g, expected %g", t, k, want, got.Y, wantS)
			}
			c.Count("model2d.JoinedCurve.Eval."+kind, 1)
		}
		c.Count("model2d.JoinedCurve.Eval", 1)

		// SmoothBezier: control points reflected around the joints
		pts := make([]model2d.Coord, 4+2*rng.Intn(4))
		for i := range pts {
			pts[i] = model2d.XY(float64(rng.Intn(21)-10), float64(rng.Intn(21)-10))
		}
		sb := model2d.SmoothBezier(pts[0], pts[1], pts[2], pts[3], pts[4:]...)
		w := map[string]interface{}{"points": pts, "result": sb}
		if len(sb) != 1+(len(pts)-4)/2 {
			c.Violationf("model2d.SmoothBezier/pieces", w, "%d pieces for %d points", len(sb), len(pts))
		} else {
			prevCtrl, prevEnd := pts[2], pts[3]
			for i, piece := range sb {
				bz, ok := piece.(model2d.BezierCurve)
				if !ok || len(bz) != 4 {
					c.Violationf("model2d.SmoothBezier/pieces", w, "piece %d is not a cubic Bezier", i)
					break
				}
				var want model2d.BezierCurve
				if i == 0 {
					want = model2d.BezierCurve{pts[0], pts[1], pts[2], pts[3]}
				} else {
					nc, ne := pts[4+2*(i-1)], pts[5+2*(i-1)]
					refl := model2d.XY(2*prevEnd.X-prevCtrl.X, 2*prevEnd.Y-prevCtrl.Y)
					want = model2d.BezierCurve{prevEnd, refl, nc, ne}
					prevCtrl, prevEnd = nc, ne
				}
				for q := range want {
					if bz[q] != want[q] {
						c.Violationf("model2d.SmoothBezier/control-points", w, "piece %d control point %d is %v, expected %v", i, q, bz[q], want[q])
					}
				}
			}
		}
		c.Count("model2d.SmoothBezier", 1)
	})

	r.Section("curve.segment", r.N(8000, 150000), vlib.SectionOpts{}, func(c *vlib.Case) {
		rng := c.Rng
		m := 1 + rng.Intn(8) // segments
		pts := make([][2]float64, m+1)
		scale := logUniform(rng, 1e-2, 1e2)
		integers := rng.Intn(3) == 0
		for i := range pts {
			for {
				if integers {
					pts[i] = [2]float64{float64(rng.Intn(13) - 6), float64(rng.Intn(13) - 6)}
				} else {
					pts[i] = [2]float64{rng.NormFloat64() * scale, rng.NormFloat64() * scale}
				}
				// no zero-length segments, no vertex visited twice
				ok := true
				for k := 0; k < i; k++ {
					if dist2(pts[i], pts[k]) < 1e-3*scale && !integers || pts[i] == pts[k] {
						ok = false
					}
				}
				if ok {
					break
				}
			}
		}
		if rng.Intn(6) == 0 {
			// an evenly sampled path whose steps are equal only up to a relative 1e-10..1e-5 (coordinates
			// that went through a float32 file, a resampled stroke): straight, L-shaped or zigzag, the
			// deviations systematic (short steps first, long steps last) or random
			m = 20 + rng.Intn(1500)
			dev := logUniform(rng, 1e-10, 1e-5)
			shape := rng.Intn(3)
			systematic := rng.Intn(2) == 0
			pts = make([][2]float64, m+1)
			x, y := rng.NormFloat64()*scale, rng.NormFloat64()*scale
			pts[0] = [2]float64{x, y}
			h := scale * (0.5 + rng.Float64())
			for i := 1; i <= m; i++ {
				d := dev * (2*rng.Float64() - 1)
				if systematic {
					d = -dev
					if i > m/2 {
						d = dev
					}
				}
				step := h * (1 + d)
				switch {
				case shape == 1 && i > m/2:
					y += step
				case shape == 2 && i%2 == 0:
					x, y = x+step*0.6, y-step*0.8
				case shape == 2:
					x, y = x+step*0.6, y+step*0.8
				default:
					x += step
				}
				pts[i] = [2]float64{x, y}
			}
			integers = false
			c.Count("segment_curve.polylines_with_nearly_equal_steps", 1)
		}
		// repeated vertices (zero-length segments): paths joined end to start, a closing vertex
		// written twice, a corner exported twice
		repeated := 0
		if rng.Intn(4) == 0 {
			var q [][2]float64
			for i, p := range pts {
				q = append(q, p)
				if rng.Intn(3) == 0 || (repeated == 0 && i == len(pts)-1) {
					q = append(q, p)
					repeated++
					if rng.Intn(4) == 0 {
						q = append(q, p)
						repeated++
					}
				}
			}
			pts = q
			m = len(pts) - 1
			c.Count("segment_curve.polylines_with_repeated_vertices", 1)
		}
		segs := make([]*model2d.Segment, m)
		cum := make([]float64, m+1)
		for i := 0; i < m; i++ {
			segs[i] = &model2d.Segment{model2d.XY(pts[i][0], pts[i][1]), model2d.XY(pts[i+1][0], pts[i+1][1])}
			cum[i+1] = cum[i] + dist2(pts[i], pts[i+1])
		}
		total := cum[m]
		refAt := func(t float64) [2]float64 {
			l := t * total
			// the first segment of positive length that reaches l
			i := -1
			for k := 0; k < m; k++ {
				if cum[k+1] > cum[k] {
					i = k
					if l <= cum[k+1] {
						break
					}
				}
			}
			f := (l - cum[i]) / (cum[i+1] - cum[i])
			return [2]float64{pts[i][0] + (pts[i+1][0]-pts[i][0])*f, pts[i][1] + (pts[i+1][1]-pts[i][1])*f}
		}
		curves := map[string]*model2d.SegmentCurve{"model2d.NewSegmentCurve": model2d.NewSegmentCurve(segs)}
		if m >= 1 && repeated == 0 {
			mesh := model2d.NewMesh()
			for _, i := range rng.Perm(m) {
				mesh.Add(segs[i])
			}
			curves["model2d.NewSegmentCurveMesh"] = model2d.NewSegmentCurveMesh(mesh)
		}
		tol := 1e-11 * (total + maxAbs([]float64{pts[0][0], pts[0][1]}) + scale)
		for name, sc := range curves {
			for q := 0; q < 5; q++ {
				t := genT(rng)
				kind := "interior"
				if rng.Intn(5) == 0 && m > 1 {
					// exactly at (or next to) a vertex
					t = cum[1+rng.Intn(m-1)] / total
					kind = "at-vertex"
				}
				got := sc.Eval(t)
				ref := refAt(t)
				d := math.Max(math.Abs(got.X-ref[0]), math.Abs(got.Y-ref[1]))
				if !(d <= tol) {
					w := map[string]interface{}{"polyline": pts, "t": t, "t_hex": fmt.Sprintf("%x", t), "returned": got, "reference": ref,
						"cumulative_lengths": cum, "constructor": name, "kind": kind}
					c.Violationf("model2d.SegmentCurve.Eval/arc-length-fraction", w, "Eval(%g) = %v, the point %g of the way along the %d-segment polyline is %v", t, got, t, m, ref)
					break
				}
				c.Count("model2d.SegmentCurve.Eval."+kind, 1)
			}
			c.Count(name, 1)
		}
		if m > 1 {
			c.Count("segment_curve.multi_segment_polylines", 1)
		}
		c.Nontrivial(fmt.Sprintf("seg|%d|%x", m, pts[0][0]))

		// CurveMesh over the polyline curve's reference parameterisation
		nSeg := 1 + rng.Intn(20)
		fc := model2d.FuncCurve(func(t float64) model2d.Coord {
			p := refAt(t)
			// make the curve injective so that no segment degenerates
			return model2d.XY(p[0]+t*scale*100, p[1])
		})
		cm := model2d.CurveMesh(fc, nSeg)
		want := map[model2d.Segment]int{}
		for i := 0; i < nSeg; i++ {
			want[model2d.Segment{fc(float64(i) / float64(nSeg)), fc(float64(i+1) / float64(nSeg))}]++
		}
		gotN := 0
		cm.Iterate(func(s *model2d.Segment) {
			gotN++
			want[*s]--
		})
		okMesh := gotN == nSeg
		for _, v := range want {
			if v != 0 {
				okMesh = false
			}
		}
		if !okMesh {
			c.Violationf("model2d.CurveMesh/segments", map[string]interface{}{"n": nSeg, "polyline": pts}, "CurveMesh(n=%d) has %d segments that are not exactly (Eval(i/n), Eval((i+1)/n))", nSeg, gotN)
		}
		c.Count("model2d.CurveMesh", 1)
	})
}

// safely runs f and returns the panic message, if any.
func safely(f func()) (msg string) {
	defer func() {
		if e := recover(); e != nil {
			msg = fmt.Sprint(e)
		}
	}()
	f()
	return ""
}

// subdivisionDepth replays the adaptive stopping rule of Length on de
// Casteljau pieces and returns the deepest level reached (capped at limit).
func subdivisionDepth(ctrl [][2]float64, tol float64, limit int) int {
	deepest := 0
	var rec func(c [][2]float64, tol float64, d int)
	rec = func(c [][2]float64, tol float64, d int) {
		if d > deepest {
			deepest = d
		}
		if d >= limit {
			return
		}
		chord := dist2(c[0], c[len(c)-1])
		var poly float64
		for i := 1; i < len(c); i++ {
			poly += dist2(c[i-1], c[i])
		}
		if poly-chord < tol {
			return
		}
		l, r := deCasteljauSplit(c, 0.5)
		rec(l, tol/2, d+1)
		rec(r, tol/2, d+1)
	}
	rec(ctrl, tol, 0)
	return deepest
}

// cubicSpeedRatio is min |B'(t)| / max |B'(t)| over a dense sample: small
// values mean the curve (nearly) stops, i.e. has a cusp.
func cubicSpeedRatio(ctrl [][2]float64) float64 {
	d := make([][2]float64, len(ctrl)-1)
	for i := range d {
		d[i] = [2]float64{ctrl[i+1][0] - ctrl[i][0], ctrl[i+1][1] - ctrl[i][1]}
	}
	mn, mx := math.Inf(1), 0.0
	for i := 0; i <= 400; i++ {
		p := deCasteljau(d, float64(i)/400)
		v := math.Hypot(p[0], p[1])
		mn = math.Min(mn, v)
		mx = math.Max(mx, v)
	}
	if mx == 0 {
		return 0
	}
	return mn / mx
}
