package main

import (
	"fmt"
	"math"

	"github.com/unixpickle/model3d/model2d"
	"verif/vlib"
)

// 2D packing: patterns of px*py points, stride p+2, grid G x G.
type packed2 struct {
	solid    *vlib.BitSolid2
	p        [2]int
	stride   [2]int
	g        int
	patterns [][]bool
}

func pack2(patterns [][]bool, p [2]int) *packed2 {
	g := int(math.Ceil(math.Sqrt(float64(len(patterns)))))
	if g < 1 {
		g = 1
	}
	stride := [2]int{p[0] + 2, p[1] + 2}
	s := vlib.NewBitSolid2(model2d.Coord{}, delta, g*stride[0], g*stride[1])
	for idx, pat := range patterns {
		bx, by := idx%g, idx/g
		for j := 0; j < p[1]; j++ {
			for i := 0; i < p[0]; i++ {
				if pat[j*p[0]+i] {
					s.Set(bx*stride[0]+1+i, by*stride[1]+1+j, true)
				}
			}
		}
	}
	return &packed2{solid: s, p: p, stride: stride, g: g, patterns: patterns}
}

func pat2String(pat []bool, p [2]int) string {
	s := ""
	for j := 0; j < p[1]; j++ {
		if j > 0 {
			s += ","
		}
		for i := 0; i < p[0]; i++ {
			if pat[j*p[0]+i] {
				s += "1"
			} else {
				s += "0"
			}
		}
	}
	return s
}

type method2 struct {
	name  string
	scale float64
	run   func(p *packed2) *model2d.Mesh
}

func methods2() []method2 {
	always := func(*model2d.Rect) bool { return true }
	return []method2{
		{"MarchingSquares", 2 / delta, func(p *packed2) *model2d.Mesh { return model2d.MarchingSquares(p.solid, delta) }},
		{"MarchingSquaresSearch(1)", 4 / delta, func(p *packed2) *model2d.Mesh { return model2d.MarchingSquaresSearch(p.solid, delta, 1) }},
		{"MarchingSquaresSearch(4)", 32 / delta, func(p *packed2) *model2d.Mesh { return model2d.MarchingSquaresSearch(p.solid, delta, 4) }},
		{"MarchingSquaresFilter(true)", 2 / delta, func(p *packed2) *model2d.Mesh { return model2d.MarchingSquaresFilter(p.solid, always, delta) }},
		{"MarchingSquaresSearchFilter(true,2)", 8 / delta, func(p *packed2) *model2d.Mesh {
			return model2d.MarchingSquaresSearchFilter(p.solid, always, delta, 2)
		}},
	}
}

func runPacked2(c *vlib.Case, class string, patterns [][]bool, dims [2]int, ms []method2) {
	p := pack2(patterns, dims)
	// census of table rows (library bit order: corner = x + 2y)
	for idx := range patterns {
		bx, by := idx%p.g, idx/p.g
		for j := 0; j < p.stride[1]-1; j++ {
			for i := 0; i < p.stride[0]-1; i++ {
				cfg := 0
				for k := 0; k < 4; k++ {
					if p.solid.Get(bx*p.stride[0]+i+(k&1), by*p.stride[1]+j+(k>>1)) {
						cfg |= 1 << uint(k)
					}
				}
				rowsMu.Lock()
				rows2[cfg] = true
				rowsMu.Unlock()
			}
		}
	}
	for _, m := range ms {
		mesh := m.run(p)
		blocks := make([][]vlib.Seg, len(patterns))
		straddle := 0
		blockOf := func(v model2d.Coord) int {
			bx := int(math.Floor(v.X / delta / float64(p.stride[0])))
			by := int(math.Floor(v.Y / delta / float64(p.stride[1])))
			if bx < 0 || by < 0 || bx >= p.g || by >= p.g {
				return -1
			}
			return by*p.g + bx
		}
		for _, s := range vlib.Segs(mesh) {
			b0, b1 := blockOf(s[0]), blockOf(s[1])
			if b0 != b1 || b0 < 0 || b0 >= len(blocks) {
				straddle++
				continue
			}
			blocks[b0] = append(blocks[b0], s)
		}
		api := "model2d." + apiName(m.name)
		if straddle > 0 {
			c.Violation(api+"/segment-spans-separated-patterns", fmt.Sprintf("%d segments connect separated patterns", straddle), nil)
		}
		for idx, segs := range blocks {
			why := checkBlock2(p, idx, segs, m.scale)
			if why != "" {
				c.Violation(api+"/"+clause2(why), why, map[string]interface{}{"class": class, "method": m.name, "pattern_dims": dims,
					"pattern": pat2String(patterns[idx], dims), "segments": fmt.Sprint(segs)})
			}
			if len(segs) > 0 {
				c.Nontrivial(m.name + pat2String(patterns[idx], dims))
			}
		}
		c.Count("ms.blocks_checked", int64(len(blocks)))
		c.Count("ms.blocks."+class+"."+apiName(m.name), int64(len(blocks)))
	}
}

func clause2(why string) string {
	switch {
	case len(why) > 5 && why[:5] == "not a":
		return "closed-oriented-manifold"
	case len(why) > 7 && why[:7] == "lattice":
		return "winding-vs-contains"
	default:
		return "other"
	}
}

func checkBlock2(p *packed2, idx int, segs []vlib.Seg, scale float64) string {
	any := false
	for _, b := range p.patterns[idx] {
		any = any || b
	}
	if !any {
		if len(segs) > 0 {
			return "empty pattern produced segments"
		}
		return ""
	}
	if len(segs) == 0 {
		return "non-empty pattern produced no segments"
	}
	topo := vlib.AnalyzeSegs(segs)
	if !topo.ClosedOrientedManifold() {
		return fmt.Sprintf("not a closed oriented manifold: %v", topo.Problems)
	}
	is, ok := vlib.SegsToI2(segs, scale)
	if !ok {
		return "vertex coordinates are not on the expected dyadic grid"
	}
	bx, by := idx%p.g, idx/p.g
	for j := 0; j < p.stride[1]; j++ {
		for i := 0; i < p.stride[0]; i++ {
			gi, gj := bx*p.stride[0]+i, by*p.stride[1]+j
			pt, _ := vlib.ToI2(model2d.XY(float64(gi)*delta, float64(gj)*delta), scale)
			w, ok := vlib.Winding2(is, pt)
			if !ok {
				return fmt.Sprintf("lattice point (%d,%d) lies on the outline or winding undecidable", i, j)
			}
			want := 0
			if p.solid.Get(gi, gj) {
				want = 1
			}
			if w != want {
				return fmt.Sprintf("lattice point (%d,%d) of the block: solid says contained=%v but the outline's winding number there is %d (want %d; -1 means inverted normals)", i, j, want == 1, w, want)
			}
		}
	}
	return ""
}

func lattice2(r *vlib.Run) {
	ms := methods2()
	r.Section("ms.exhaustive", 4, vlib.SectionOpts{}, func(c *vlib.Case) {
		var pats [][]bool
		var dims [2]int
		switch c.Index {
		case 0:
			dims = [2]int{2, 2}
			for v := 0; v < 16; v++ {
				pats = append(pats, bitsPattern(uint32(v), 4))
			}
		case 1:
			dims = [2]int{3, 2}
			for v := 0; v < 64; v++ {
				pats = append(pats, bitsPattern(uint32(v), 6))
			}
		case 2:
			dims = [2]int{2, 3}
			for v := 0; v < 64; v++ {
				pats = append(pats, bitsPattern(uint32(v), 6))
			}
		default:
			dims = [2]int{3, 3}
			for v := 0; v < 512; v++ {
				pats = append(pats, bitsPattern(uint32(v), 9))
			}
		}
		runPacked2(c, fmt.Sprintf("all-%dx%d", dims[0], dims[1]), pats, dims, ms)
	})
	r.Section("ms.blocks4x4", r.N(4, 16), vlib.SectionOpts{}, func(c *vlib.Case) {
		// all 2^16 4x4 point blocks in the thorough tier (16 chunks of 4096), a seeded quarter in quick
		var pats [][]bool
		base := uint32(c.Index) * 4096
		if r.Quick() {
			base = uint32(c.Rng.Intn(16)) * 4096
		}
		for v := uint32(0); v < 4096; v++ {
			pats = append(pats, bitsPattern(base+v, 16))
		}
		runPacked2(c, "4x4", pats, [2]int{4, 4}, []method2{ms[0], ms[1+c.Index%(len(ms)-1)]})
	})
	r.Section("ms.random", r.N(60, 1500), vlib.SectionOpts{}, func(c *vlib.Case) {
		dims := [2]int{3 + c.Rng.Intn(20), 3 + c.Rng.Intn(20)}
		pat := make([]bool, dims[0]*dims[1])
		switch c.Rng.Intn(4) {
		case 0:
			for j := 0; j < dims[1]; j++ {
				for i := 0; i < dims[0]; i++ {
					pat[j*dims[0]+i] = (i+j)%2 == 0
				}
			}
		default:
			d := 0.05 + 0.9*c.Rng.Float64()
			for i := range pat {
				pat[i] = c.Rng.Float64() < d
			}
		}
		runPacked2(c, "random", [][]bool{pat}, dims, []method2{ms[c.Rng.Intn(len(ms))]})
		if c.Index < 1 {
			c.Sample("random-2d-lattice", 1, map[string]interface{}{"dims": dims, "pattern": pat2String(pat, dims)})
		}
	})
	r.Section("ms.c2f", r.N(20, 200), vlib.SectionOpts{}, func(c *vlib.Case) {
		rng := c.Rng
		ctr := model2d.XY(rng.NormFloat64(), rng.NormFloat64())
		var s model2d.Solid
		holes := 0
		if rng.Intn(2) == 0 {
			s = &model2d.Circle{Center: ctr, Radius: 0.7 + rng.Float64()}
		} else {
			outer := &model2d.Circle{Center: ctr, Radius: 1.5 + rng.Float64()}
			inner := &model2d.Circle{Center: ctr, Radius: 0.5 + 0.3*rng.Float64()}
			s = &model2d.SubtractedSolid{Positive: outer, Negative: inner}
			holes = 1
		}
		small := 0.03 + 0.04*rng.Float64()
		big := small * float64(2+rng.Intn(3))
		iters := rng.Intn(4)
		if c.Index%3 == 2 {
			// large coarse/fine ratios on a shape with sharp corners
			ratio := []int{8, 16, 32, 64}[rng.Intn(4)]
			big = 0.3 + 0.1*rng.Float64()
			small = big / float64(ratio)
			s = model2d.NewRect(ctr, ctr.Add(model2d.XY(1+rng.Float64(), 1+rng.Float64())))
			holes = 0
			if rng.Intn(2) == 0 {
				iters = 0
			}
			c.Count("ms.c2f.meshes_with_ratio_8_to_64", 1)
		}
		mesh := model2d.MarchingSquaresC2F(s, big, small, 0, iters)
		segs := vlib.Segs(mesh)
		topo := vlib.AnalyzeSegs(segs)
		c.Count("ms.c2f.meshes", 1)
		if !topo.ClosedOrientedManifold() {
			c.Violation("model2d.MarchingSquaresC2F/closed-oriented-manifold", fmt.Sprint(topo.Problems), map[string]interface{}{"big": big, "small": small, "holes": holes})
			return
		}
		if topo.Components != 1+holes {
			c.Violation("model2d.MarchingSquaresC2F/components", fmt.Sprintf("%d outline loops, want %d", topo.Components, 1+holes), map[string]interface{}{"big": big, "small": small})
		}
		// library convention: outward normals <=> clockwise loops <=> negative shoelace area
		if a := vlib.SignedArea2(segs); a >= 0 {
			c.Violation("model2d.MarchingSquaresC2F/orientation", fmt.Sprintf("signed area %g (outward normals give a negative shoelace sum)", a), map[string]interface{}{"big": big, "small": small})
		}
		c.Nontrivial(fmt.Sprint("c2f2", holes, big, small, ctr))
	})
}

func bitmaps(r *vlib.Run) {
	checkBitmap := func(c *vlib.Case, api string, bm *model2d.Bitmap, desc interface{}) {
		mesh := bm.Mesh()
		segs := vlib.Segs(mesh)
		c.Count("bitmap.meshes", 1)
		any := false
		for _, b := range bm.Data {
			any = any || b
		}
		if !any {
			if len(segs) != 0 {
				c.Violation(api+"/empty", "empty bitmap produced segments", desc)
			}
			return
		}
		topo := vlib.AnalyzeSegs(segs)
		if !topo.ClosedOrientedManifold() {
			c.Violation(api+"/closed-oriented-manifold", fmt.Sprint(topo.Problems), desc)
			return
		}
		is, ok := vlib.SegsToI2(segs, 4)
		if !ok {
			c.Violation(api+"/grid", "vertices are not on the quarter-pixel grid", desc)
			return
		}
		for y := -1; y <= bm.Height; y++ {
			for x := -1; x <= bm.Width; x++ {
				pt := vlib.I2{int64(4*x + 2), int64(4*y + 2)}
				w, ok := vlib.Winding2(is, pt)
				want := 0
				if x >= 0 && y >= 0 && x < bm.Width && y < bm.Height && bm.Get(x, y) {
					want = 1
				}
				if !ok || w != want {
					c.Violation(api+"/winding-vs-pixel", fmt.Sprintf("pixel (%d,%d) is %v but the outline's winding number at its centre is %d (decidable=%v)", x, y, want == 1, w, ok), desc)
					return
				}
			}
		}
		c.Nontrivial(fmt.Sprint(api, bm.Width, bm.Data))
	}
	// all 2^16 4x4 bitmaps: 16 cases x 4096 (quick: 6 seeded chunks)
	r.Section("bitmap.4x4", r.N(6, 16), vlib.SectionOpts{}, func(c *vlib.Case) {
		chunk := c.Index
		if r.Quick() {
			chunk = (c.Index*5 + int(c.SubSeed%16)) % 16
		}
		for v := 0; v < 4096; v++ {
			bits := uint32(chunk*4096 + v)
			bm := model2d.NewBitmap(4, 4)
			for i := 0; i < 16; i++ {
				bm.Data[i] = bits&(1<<uint(i)) != 0
			}
			checkBitmap(c, "model2d.Bitmap.Mesh", bm, map[string]interface{}{"w": 4, "h": 4, "bits": bits})
			if v%64 == 0 {
				checkBitmap(c, "model2d.Bitmap.Invert.Mesh", bm.Invert(), map[string]interface{}{"w": 4, "h": 4, "inverted_bits": bits})
			}
		}
	})
	r.Section("bitmap.random", r.N(200, 4000), vlib.SectionOpts{}, func(c *vlib.Case) {
		w, h := 1+c.Rng.Intn(32), 1+c.Rng.Intn(32)
		bm := model2d.NewBitmap(w, h)
		d := c.Rng.Float64()
		for i := range bm.Data {
			bm.Data[i] = c.Rng.Float64() < d
		}
		if c.Rng.Intn(5) == 0 {
			for i := range bm.Data {
				bm.Data[i] = (i%w+i/w)%2 == 0
			}
		}
		checkBitmap(c, "model2d.Bitmap.Mesh", bm, map[string]interface{}{"w": w, "h": h, "data": fmt.Sprint(bm.Data)})
		// bitmaps produced by the library's own editing operations (non-square ones tell the axes
		// apart): each is first compared pixel by pixel with what the operation is documented to do,
		// then outlined
		desc := map[string]interface{}{"w": w, "h": h, "data": fmt.Sprint(bm.Data)}
		fx, fy, inv := bm.FlipX(), bm.FlipY(), bm.Invert()
		for y := 0; y < h; y++ {
			for x := 0; x < w; x++ {
				if fx.Width != w || fx.Height != h || fx.Get(x, y) != bm.Get(w-1-x, y) {
					c.Violation("model2d.Bitmap.FlipX/pixels", fmt.Sprintf("pixel (%d,%d) of FlipX", x, y), desc)
					return
				}
				if fy.Width != w || fy.Height != h || fy.Get(x, y) != bm.Get(x, h-1-y) {
					c.Violation("model2d.Bitmap.FlipY/pixels", fmt.Sprintf("pixel (%d,%d) of FlipY", x, y), desc)
					return
				}
				if inv.Get(x, y) == bm.Get(x, y) {
					c.Violation("model2d.Bitmap.Invert/pixels", fmt.Sprintf("pixel (%d,%d) of Invert", x, y), desc)
					return
				}
			}
		}
		set := model2d.NewBitmap(w, h)
		for _, i := range c.Rng.Perm(w * h) {
			set.Set(i%w, i/w, bm.Get(i%w, i/w))
		}
		for i := range bm.Data {
			if set.Data[i] != bm.Data[i] {
				c.Violation("model2d.Bitmap.Set/pixels", fmt.Sprintf("pixel (%d,%d) after Set", i%w, i/w), desc)
				return
			}
		}
		c.Count("bitmap.edit_operations_checked", 4)
		checkBitmap(c, "model2d.Bitmap.FlipX.Mesh", fx, desc)
		checkBitmap(c, "model2d.Bitmap.FlipY.Mesh", fy, desc)
		checkBitmap(c, "model2d.Bitmap.Set.Mesh", set, desc)
	})
}
