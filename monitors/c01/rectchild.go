package main

// Child process for RectSet.Mesh() on inputs where the unchanged library may not return:
// the parent passes the box history as text; the child limits its address space, runs Mesh()
// and prints the triangles.

import (
	"bufio"
	"bytes"
	"fmt"
	"os"
	"os/exec"
	"strconv"
	"strings"
	"syscall"
	"time"

	"github.com/unixpickle/model3d/model3d"
	"github.com/unixpickle/model3d/toolbox3d"
	"verif/vlib"
)

func boxesToText(n int, get func(i int) (lo, hi [3]float64, add bool)) string {
	var b strings.Builder
	for i := 0; i < n; i++ {
		lo, hi, add := get(i)
		fmt.Fprintf(&b, "%v %x %x %x %x %x %x\n", add, lo[0], lo[1], lo[2], hi[0], hi[1], hi[2])
	}
	return b.String()
}

func rectSetMeshInChild(text string) ([]vlib.Tri, string) {
	cmd := exec.Command(os.Args[0], "-c01rectchild")
	cmd.Stdin = strings.NewReader(text)
	var out, errb bytes.Buffer
	cmd.Stdout, cmd.Stderr = &out, &errb
	if err := cmd.Start(); err != nil {
		return nil, "child could not be started: " + err.Error()
	}
	done := make(chan error, 1)
	go func() { done <- cmd.Wait() }()
	select {
	case err := <-done:
		if err != nil {
			tail := errb.String()
			if len(tail) > 300 {
				tail = tail[:300]
			}
			if strings.Contains(tail, "out of memory") || strings.Contains(tail, "cannot allocate") {
				return nil, "did not return: the process ran out of its 1 GiB address space (" + strings.Split(tail, "\n")[0] + ")"
			}
			return nil, "child died: " + err.Error() + " " + tail
		}
	case <-time.After(20 * time.Second):
		cmd.Process.Kill()
		<-done
		return nil, "did not return within 20 s"
	}
	var tris []vlib.Tri
	sc := bufio.NewScanner(&out)
	for sc.Scan() {
		if v, ok := parseFloats(strings.Fields(sc.Text()), 9); ok {
			tris = append(tris, vlib.Tri{model3d.XYZ(v[0], v[1], v[2]), model3d.XYZ(v[3], v[4], v[5]), model3d.XYZ(v[6], v[7], v[8])})
		}
	}
	return tris, "ok"
}

func rectChildMain() {
	lim := syscall.Rlimit{Cur: 1 << 30, Max: 1 << 30}
	syscall.Setrlimit(syscall.RLIMIT_AS, &lim)
	rs := toolbox3d.NewRectSet()
	sc := bufio.NewScanner(os.Stdin)
	for sc.Scan() {
		f := strings.Fields(sc.Text())
		v, ok := parseFloats(f[1:], 6)
		if !ok {
			fmt.Fprintln(os.Stderr, "bad line:", sc.Text())
			os.Exit(3)
		}
		add := f[0] == "true"
		lo, hi := [3]float64{v[0], v[1], v[2]}, [3]float64{v[3], v[4], v[5]}
		rect := model3d.NewRect(model3d.NewCoord3DArray(lo), model3d.NewCoord3DArray(hi))
		if add {
			rs.Add(rect)
		} else {
			rs.Remove(rect)
		}
	}
	w := bufio.NewWriter(os.Stdout)
	for _, t := range vlib.Tris(rs.Mesh()) {
		fmt.Fprintf(w, "%x %x %x %x %x %x %x %x %x\n", t[0].X, t[0].Y, t[0].Z, t[1].X, t[1].Y, t[1].Z, t[2].X, t[2].Y, t[2].Z)
	}
	w.Flush()
}

func parseFloats(fields []string, n int) ([]float64, bool) {
	if len(fields) != n {
		return nil, false
	}
	res := make([]float64, n)
	for i, f := range fields {
		v, err := strconv.ParseFloat(f, 64)
		if err != nil {
			return nil, false
		}
		res[i] = v
	}
	return res, true
}
