package main

import (
	"fmt"
	"math"
	"math/rand"
	"sort"

	"github.com/unixpickle/model3d/model2d"
	"github.com/unixpickle/model3d/model3d"
	"github.com/unixpickle/model3d/toolbox3d"
	"verif/vlib"
)

func randUnit(rng *rand.Rand) C3 {
	for {
		v := model3d.XYZ(rng.NormFloat64(), rng.NormFloat64(), rng.NormFloat64())
		if n := v.Norm(); n > 1e-3 {
			return v.Scale(1 / n)
		}
	}
}

// checkShell checks a generator output that must be one closed, outward
// oriented shell of the given Euler characteristic.
func checkShell(c *vlib.Case, api string, mesh *model3d.Mesh, euler int, params interface{}) bool {
	c.Count("gen."+api, 1)
	tris := vlib.Tris(mesh)
	topo := vlib.AnalyzeTris(tris)
	if !topo.ClosedOrientedManifold() {
		c.Violation("model3d."+api+"/closed-oriented-manifold", fmt.Sprint(topo.Problems), params)
		return false
	}
	if topo.Components != 1 {
		c.Violation("model3d."+api+"/components", fmt.Sprintf("%d components, want 1", topo.Components), params)
		return false
	}
	if topo.Euler != euler {
		c.Violation("model3d."+api+"/euler", fmt.Sprintf("Euler characteristic %d, want %d", topo.Euler, euler), params)
		return false
	}
	if v := vlib.SignedVolume(tris); !(v > 0) {
		c.Violation("model3d."+api+"/orientation", fmt.Sprintf("signed volume %g: normals do not point outward", v), params)
		return false
	}
	c.Nontrivial(fmt.Sprint(api, params))
	// The mesh belongs to the caller: edit its triangles in place (the idiom of flipping faces through
	// Iterate pointers). If a generator handed out triangles it also keeps for later calls, every mesh
	// generated afterwards in this process shows it.
	mesh.Iterate(func(t *model3d.Triangle) { t[0], t[1] = t[1], t[0] })
	return true
}

func generators(r *vlib.Run) {
	r.Section("gen.primitives", r.N(400, 6000), vlib.SectionOpts{}, func(c *vlib.Case) {
		rng := c.Rng
		scale := math.Pow(10, rng.Float64()*4-2)
		ctr := randUnit(rng).Scale(scale * rng.Float64() * 3)
		switch c.Index % 7 {
		case 0:
			size := model3d.XYZ(rng.Float64()+1e-3, rng.Float64()+1e-3, rng.Float64()+1e-3).Scale(scale)
			if rng.Intn(3) == 0 {
				size.Z = scale * 1e-6 // thin slab
			}
			checkShell(c, "NewMeshRect", model3d.NewMeshRect(ctr, ctr.Add(size)), 2, map[string]interface{}{"min": ctr, "size": size})
		case 1:
			stops := 3 + rng.Intn(62)
			k := rng.Intn(3)
			a, b := 0.2+rng.Float64(), 1+rng.Intn(4)
			var f func(g model3d.GeoCoord) float64
			switch k {
			case 0:
				f = nil
			case 1:
				f = func(g model3d.GeoCoord) float64 { return scale }
			default:
				f = func(g model3d.GeoCoord) float64 {
					return scale * (1.5 + a*math.Sin(float64(b)*g.Lon)*math.Cos(g.Lat))
				}
			}
			checkShell(c, "NewMeshPolar", model3d.NewMeshPolar(f, stops), 2, map[string]interface{}{"stops": stops, "radius_kind": k, "a": a, "b": b, "scale": scale})
			// the 2D polar outline is closed whatever the radius function does (documented: "even
			// if the polar function does not reach its original value at 2*pi radians, the mesh
			// will be closed"): pure functions, a spiral, and callbacks that do not return the same
			// value twice for one angle (radii read one per call from a table, seeded roughness)
			{
				k2 := rng.Intn(4)
				calls := 0
				table := make([]float64, 4*stops+8)
				for i := range table {
					table[i] = scale * (0.5 + rng.Float64())
				}
				var f2 func(theta float64) float64
				switch k2 {
				case 0:
					f2 = func(theta float64) float64 { return scale * (1.5 + a*math.Sin(float64(b)*theta)) }
				case 1:
					f2 = func(theta float64) float64 { return scale * (1 + theta) }
				default:
					f2 = func(theta float64) float64 {
						calls++
						return table[calls%len(table)]
					}
				}
				segs := vlib.Segs(model2d.NewMeshPolar(f2, stops))
				t2 := vlib.AnalyzeSegs(segs)
				c.Count("gen.NewMeshPolar2D.outlines", 1)
				if k2 >= 2 {
					c.Count("gen.NewMeshPolar2D.radius_callbacks_with_state", 1)
				}
				if !t2.ClosedOrientedManifold() || t2.Components != 1 || len(segs) != stops {
					c.Violation("model2d.NewMeshPolar/closed-outline", fmt.Sprintf("%d segments for %d stops, %d components, problems %v", len(segs), stops, t2.Components, t2.Problems),
						map[string]interface{}{"stops": stops, "radius_kind": []string{"smooth", "spiral", "one value per call from a table", "one value per call from a table"}[k2], "scale": scale})
				}
			}
		case 2:
			n := 1 + rng.Intn(r.N(6, 12))
			m := model3d.NewMeshIcosphere(ctr, scale, n)
			if checkShell(c, "NewMeshIcosphere", m, 2, map[string]interface{}{"center": ctr, "radius": scale, "n": n}) {
				if m.NumTriangles() != 20*n*n {
					c.Violation("model3d.NewMeshIcosphere/face-count", fmt.Sprintf("%d faces, documented 20*n^2 = %d", m.NumTriangles(), 20*n*n), n)
				}
			}
		case 3:
			stops := 3 + rng.Intn(62)
			p2 := ctr.Add(randUnit(rng).Scale(scale * (0.01 + 3*rng.Float64())))
			rad := scale * (0.01 + 2*rng.Float64())
			checkShell(c, "NewMeshCylinder", model3d.NewMeshCylinder(ctr, p2, rad, stops), 2, map[string]interface{}{"p1": ctr, "p2": p2, "radius": rad, "stops": stops})
		case 4:
			stops := 3 + rng.Intn(62)
			base := ctr.Add(randUnit(rng).Scale(scale * (0.01 + 3*rng.Float64())))
			rad := scale * (0.01 + 2*rng.Float64())
			checkShell(c, "NewMeshCone", model3d.NewMeshCone(ctr, base, rad, stops), 2, map[string]interface{}{"tip": ctr, "base": base, "radius": rad, "stops": stops})
		case 5:
			outer := scale * (0.5 + rng.Float64())
			inner := outer * (0.02 + 0.9*rng.Float64())
			is, os := 3+rng.Intn(30), 3+rng.Intn(40)
			axis := randUnit(rng)
			checkShell(c, "NewMeshTorus", model3d.NewMeshTorus(ctr, axis, inner, outer, is, os), 0, map[string]interface{}{"center": ctr, "axis": axis, "inner": inner, "outer": outer, "innerStops": is, "outerStops": os})
		default:
			checkShell(c, "NewMeshIcosahedron", model3d.NewMeshIcosahedron(), 2, nil)
		}
	})

	r.Section("gen.polytope", r.N(300, 4000), vlib.SectionOpts{}, func(c *vlib.Case) {
		rng := c.Rng
		// bounded polytope: a box plus random cutting planes that keep the origin strictly inside
		var p model3d.ConvexPolytope
		kind := rng.Intn(4)
		degenerate := false
		switch kind {
		case 0, 1:
			p = model3d.NewConvexPolytopeRect(model3d.XYZ(-1, -1.5, -0.7), model3d.XYZ(1.2, 1, 0.9))
		case 2:
			// random simplex-like hull of half-spaces in general position
			for _, n := range []C3{{X: 1, Y: 1, Z: 1}, {X: -1, Y: 0.3, Z: 0.2}, {X: 0.1, Y: -1, Z: 0.3}, {X: 0.2, Y: 0.1, Z: -1}} {
				p = append(p, &model3d.LinearConstraint{Normal: n.Add(randUnit(rng).Scale(0.2)), Max: 1 + rng.Float64()})
			}
		default:
			// octahedron in general position: four planes meet at every vertex
			degenerate = true
			rot := model3d.NewMatrix3Rotation(randUnit(rng), rng.Float64()*3)
			d := 0.3 + rng.Float64()
			for _, sx := range []float64{-1, 1} {
				for _, sy := range []float64{-1, 1} {
					for _, sz := range []float64{-1, 1} {
						p = append(p, &model3d.LinearConstraint{Normal: rot.MulColumn(model3d.XYZ(sx, sy, sz).Normalize()), Max: d})
					}
				}
			}
		}
		if !degenerate {
			extra := rng.Intn(8)
			for i := 0; i < extra; i++ {
				n := randUnit(rng).Scale(0.2 + 3*rng.Float64()) // unnormalised normals are allowed
				p = append(p, &model3d.LinearConstraint{Normal: n, Max: n.Norm() * (0.3 + rng.Float64())})
			}
		}
		// A half-space does not change when (Normal, Max) is multiplied by a positive
		// factor; rescale constraints individually or all together by powers of ten.
		switch rng.Intn(3) {
		case 0:
			for _, l := range p {
				f := math.Pow(10, float64(rng.Intn(25)-12))
				l.Normal, l.Max = l.Normal.Scale(f), l.Max*f
			}
			c.Count("gen.polytope.constraints_rescaled_individually", 1)
		case 1:
			f := math.Pow(10, float64(rng.Intn(25)-12))
			for _, l := range p {
				l.Normal, l.Max = l.Normal.Scale(f), l.Max*f
			}
			c.Count("gen.polytope.constraints_rescaled_together", 1)
		}
		if degenerate {
			c.Count("gen.polytope.four_planes_per_vertex", 1)
		}
		mesh := p.Mesh()
		if checkShell(c, "ConvexPolytope.Mesh", mesh, 2, map[string]interface{}{"constraints": fmtPolytope(p)}) {
			// every vertex satisfies every constraint (with slack), so the mesh is the polytope's boundary
			for _, v := range mesh.VertexSlice() {
				for _, l := range p {
					if v.Dot(l.Normal) > l.Max+1e-6*l.Normal.Norm() {
						c.Violation("model3d.ConvexPolytope.Mesh/vertex-inside-constraints", fmt.Sprintf("vertex %v violates a half-space by %g", v, v.Dot(l.Normal)-l.Max), fmtPolytope(p))
						return
					}
				}
			}
			if degenerate && len(vlib.Tris(mesh)) != 8 {
				c.Violation("model3d.ConvexPolytope.Mesh/octahedron-faces", fmt.Sprintf("%d triangles for an octahedron, want 8", len(vlib.Tris(mesh))), fmtPolytope(p))
			}
		}
	})

	// 2D polytopes: a rectangle cut by random lines, constraints rescaled
	r.Section("gen.polytope2d", r.N(300, 4000), vlib.SectionOpts{}, func(c *vlib.Case) {
		rng := c.Rng
		p := model2d.NewConvexPolytopeRect(model2d.XY(-1, -1.5), model2d.XY(1.2, 1))
		extra := rng.Intn(6)
		for i := 0; i < extra; i++ {
			th := rng.Float64() * 2 * math.Pi
			n := model2d.XY(math.Cos(th), math.Sin(th)).Scale(0.2 + 3*rng.Float64())
			p = append(p, &model2d.LinearConstraint{Normal: n, Max: n.Norm() * (0.3 + rng.Float64())})
		}
		if rng.Intn(3) != 0 {
			same := rng.Intn(2) == 0
			f := math.Pow(10, float64(rng.Intn(25)-12))
			for _, l := range p {
				if !same {
					f = math.Pow(10, float64(rng.Intn(25)-12))
				}
				l.Normal, l.Max = l.Normal.Scale(f), l.Max*f
			}
			c.Count("gen.polytope2d.constraints_rescaled", 1)
		}
		var desc []string
		for _, l := range p {
			desc = append(desc, fmt.Sprintf("n=(%x,%x) max=%x", l.Normal.X, l.Normal.Y, l.Max))
		}
		mesh := p.Mesh()
		c.Count("gen.ConvexPolytope2D.Mesh", 1)
		segs := vlib.Segs(mesh)
		topo := vlib.AnalyzeSegs(segs)
		if !topo.ClosedOrientedManifold() {
			c.Violation("model2d.ConvexPolytope.Mesh/closed-oriented-manifold", fmt.Sprint(topo.Problems), desc)
			return
		}
		if topo.Components != 1 {
			c.Violation("model2d.ConvexPolytope.Mesh/components", fmt.Sprintf("%d loops, want 1", topo.Components), desc)
			return
		}
		// orientation: outward normals give a negative shoelace sum in model2d (same convention as
		// the marching-squares checks of this monitor)
		if a := vlib.SignedArea2(segs); a >= 0 {
			c.Violation("model2d.ConvexPolytope.Mesh/orientation", fmt.Sprintf("signed area %g (outward normals give a negative shoelace sum)", a), desc)
			return
		}
		// every vertex satisfies every constraint
		for _, sg := range segs {
			for _, l := range p {
				if sg[0].Dot(l.Normal) > l.Max+1e-6*l.Normal.Norm() {
					c.Violation("model2d.ConvexPolytope.Mesh/vertex-inside-constraints", fmt.Sprintf("vertex %v violates a half-plane", sg[0]), desc)
					return
				}
			}
		}
		c.Nontrivial(fmt.Sprint("polytope2d", desc))
	})

	// extruded profiles of lattice-defined 2D solids (holes and islands)
	r.Section("gen.profile", r.N(80, 1500), vlib.SectionOpts{}, func(c *vlib.Case) {
		rng := c.Rng
		nx, ny := 3+rng.Intn(8), 3+rng.Intn(8)
		s := vlib.NewBitSolid2(model2d.Coord{}, delta, nx, ny)
		d := 0.2 + 0.7*rng.Float64()
		any := false
		for i := range s.Bits {
			s.Bits[i] = rng.Float64() < d
			any = any || s.Bits[i]
		}
		if !any {
			s.Bits[0] = true
		}
		m2 := model2d.MarchingSquares(s, delta)
		if !vlib.AnalyzeSegs(vlib.Segs(m2)).ClosedOrientedManifold() {
			c.Undecided("profile-input-not-manifold")
			return
		}
		minZ := float64(rng.Intn(5)) - 2
		maxZ := minZ + float64(1+rng.Intn(3))*0.5
		mesh := model3d.ProfileMesh(m2, minZ, maxZ)
		c.Count("gen.ProfileMesh", 1)
		tris := vlib.Tris(mesh)
		topo := vlib.AnalyzeTris(tris)
		desc := map[string]interface{}{"nx": nx, "ny": ny, "bits": pat2String(s.Bits, [2]int{nx, ny}), "minZ": minZ, "maxZ": maxZ}
		if !topo.ClosedOrientedManifold() {
			c.Violation("model3d.ProfileMesh/closed-oriented-manifold", fmt.Sprint(topo.Problems), desc)
			return
		}
		its, ok := vlib.TrisToI3(tris, 4/delta)
		if !ok {
			c.Undecided("profile-not-dyadic")
			return
		}
		zs := []float64{minZ - 0.25, (minZ + maxZ) / 2, maxZ + 0.25}
		if math.Mod((minZ+maxZ)/2*4/delta, 1) != 0 {
			zs[1] = minZ + 0.125
		}
		for j := -1; j <= ny; j++ {
			for i := -1; i <= nx; i++ {
				for zi, z := range zs {
					pt, ok := vlib.ToI3(model3d.XYZ(float64(i)*delta, float64(j)*delta, z), 4/delta)
					if !ok {
						continue
					}
					w, ok := vlib.Winding3(its, pt)
					want := 0
					if zi == 1 && s.Get(i, j) {
						want = 1
					}
					if !ok || w != want {
						c.Violation("model3d.ProfileMesh/winding-vs-profile", fmt.Sprintf("point (%d,%d,z=%g): winding %d want %d (decidable %v)", i, j, z, w, want, ok), desc)
						return
					}
				}
			}
		}
		vol := vlib.SignedVolume(tris)
		area := -vlib.SignedArea2(vlib.Segs(m2)) // clockwise outlines
		if math.Abs(vol-area*(maxZ-minZ)) > 1e-9*(1+math.Abs(vol)) {
			c.Violation("model3d.ProfileMesh/volume", fmt.Sprintf("volume %g, outline area x height = %g", vol, area*(maxZ-minZ)), desc)
		}
		c.Nontrivial(fmt.Sprint("profile", desc))
	})

	// box sets on integer coordinates (touching at faces, edges and corners)
	r.Section("gen.rectset", r.N(150, 3000), vlib.SectionOpts{}, func(c *vlib.Case) {
		rng := c.Rng
		const n = 4
		var cells [n][n][n]bool
		rs := toolbox3d.NewRectSet()
		var hist []string
		ops := 1 + rng.Intn(7)
		randRect := func() (lo, hi [3]int, rect *model3d.Rect) {
			lo = [3]int{rng.Intn(n), rng.Intn(n), rng.Intn(n)}
			hi = [3]int{lo[0] + 1 + rng.Intn(n-lo[0]), lo[1] + 1 + rng.Intn(n-lo[1]), lo[2] + 1 + rng.Intn(n-lo[2])}
			rect = model3d.NewRect(model3d.XYZ(float64(lo[0]), float64(lo[1]), float64(lo[2])), model3d.XYZ(float64(hi[0]), float64(hi[1]), float64(hi[2])))
			return
		}
		fill := func(dst *[n][n][n]bool, lo, hi [3]int, v bool) {
			for x := lo[0]; x < hi[0]; x++ {
				for y := lo[1]; y < hi[1]; y++ {
					for z := lo[2]; z < hi[2]; z++ {
						dst[x][y][z] = v
					}
				}
			}
		}
		for o := 0; o < ops; o++ {
			add := o == 0 || rng.Intn(4) != 0
			if rng.Intn(3) == 0 {
				// merge or subtract a whole set that was built separately (its own split planes)
				other := toolbox3d.NewRectSet()
				var oc [n][n][n]bool
				k := 1 + rng.Intn(3)
				for i := 0; i < k; i++ {
					lo, hi, rect := randRect()
					oadd := i == 0 || rng.Intn(4) != 0
					if oadd {
						other.Add(rect)
					} else {
						other.Remove(rect)
					}
					fill(&oc, lo, hi, oadd)
					hist = append(hist, fmt.Sprintf("  other: add=%v %v-%v", oadd, lo, hi))
				}
				if add {
					rs.AddRectSet(other)
					c.Count("gen.RectSet.AddRectSet", 1)
				} else {
					rs.RemoveRectSet(other)
					c.Count("gen.RectSet.RemoveRectSet", 1)
				}
				hist = append(hist, fmt.Sprintf("merge other: add=%v", add))
				for x := 0; x < n; x++ {
					for y := 0; y < n; y++ {
						for z := 0; z < n; z++ {
							if oc[x][y][z] {
								cells[x][y][z] = add
							}
						}
					}
				}
				continue
			}
			lo, hi, rect := randRect()
			if add {
				rs.Add(rect)
			} else {
				rs.Remove(rect)
			}
			hist = append(hist, fmt.Sprintf("add=%v %v-%v", add, lo, hi))
			fill(&cells, lo, hi, add)
		}
		any := false
		for x := 0; x < n; x++ {
			for y := 0; y < n; y++ {
				for z := 0; z < n; z++ {
					any = any || cells[x][y][z]
				}
			}
		}
		mesh := rs.Mesh()
		c.Count("gen.RectSet.Mesh", 1)
		tris := vlib.Tris(mesh)
		if !any {
			if len(tris) != 0 {
				c.Violation("toolbox3d.RectSet.Mesh/empty", "empty set produced faces", hist)
			}
			return
		}
		topo := vlib.AnalyzeTris(tris)
		if !topo.ClosedOrientedManifold() {
			c.Violation("toolbox3d.RectSet.Mesh/closed-oriented-manifold", fmt.Sprint(topo.Problems), hist)
			return
		}
		for x := -1; x <= n; x++ {
			for y := -1; y <= n; y++ {
				for z := -1; z <= n; z++ {
					p := model3d.XYZ(float64(x)+0.5, float64(y)+0.5, float64(z)+0.5)
					w, frac := vlib.WindingSolidAngle(tris, p)
					want := 0
					if x >= 0 && y >= 0 && z >= 0 && x < n && y < n && z < n && cells[x][y][z] {
						want = 1
					}
					if frac > 0.01 {
						c.Undecided("rectset-winding-fractional")
						continue
					}
					if w != want {
						c.Violation("toolbox3d.RectSet.Mesh/winding-vs-set", fmt.Sprintf("cell centre %v: winding %d want %d", p, w, want), hist)
						return
					}
				}
			}
		}
		c.Nontrivial(fmt.Sprint("rectset", hist))
	})

	// box sets on a decimal grid whose coordinates are computed in different ways (k*0.1, k/10,
	// repeated addition): planes that are "the same" differ by an ulp, so boxes overlap in, or are
	// separated by, slivers one ulp thick. The set is exactly what the float boxes say it is.
	r.Section("gen.rectset.decimal", r.N(60, 1500), vlib.SectionOpts{}, func(c *vlib.Case) {
		rng := c.Rng
		coord := func(k int) float64 {
			switch rng.Intn(3) {
			case 0:
				return float64(k) * 0.1
			case 1:
				return float64(k) / 10
			default:
				x := 0.0
				for i := 0; i < k; i++ {
					x += 0.1
				}
				return x
			}
		}
		type fbox struct {
			lo, hi [3]float64
			add    bool
		}
		var boxes []fbox
		rs := toolbox3d.NewRectSet()
		var hist []string
		n := 2 + rng.Intn(5)
		for i := 0; i < n; i++ {
			var b fbox
			for a := 0; a < 3; a++ {
				l := rng.Intn(5)
				h := l + 1 + rng.Intn(5-l)
				b.lo[a], b.hi[a] = coord(l), coord(h)
			}
			b.add = i == 0 || rng.Intn(5) != 0
			boxes = append(boxes, b)
			rect := model3d.NewRect(model3d.NewCoord3DArray(b.lo), model3d.NewCoord3DArray(b.hi))
			if b.add {
				rs.Add(rect)
			} else {
				rs.Remove(rect)
			}
			hist = append(hist, fmt.Sprintf("add=%v %x-%x", b.add, b.lo, b.hi))
		}
		contains := func(p [3]float64) bool {
			in := false
			for _, b := range boxes {
				cover := true
				for a := 0; a < 3; a++ {
					cover = cover && p[a] > b.lo[a] && p[a] < b.hi[a]
				}
				if cover {
					in = b.add
				}
			}
			return in
		}
		// ExactMesh (face cancellation only) is always run in-process. Mesh() adds the singularity
		// repair, whose separation distance is derived from the smallest gap between planes: when two
		// planes differ by rounding noise the unchanged library can split edges forever (it was
		// observed to allocate 64 GB), so in that case Mesh() runs in a child process with an address
		// space limit and a deadline.
		exact := vlib.Tris(rs.ExactMesh())
		noisy := false
		for a := 0; a < 3; a++ {
			var vs []float64
			for _, b := range boxes {
				vs = append(vs, b.lo[a], b.hi[a])
			}
			sort.Float64s(vs)
			for i := 1; i < len(vs); i++ {
				if d := vs[i] - vs[i-1]; d > 0 && d < 1e-9 {
					noisy = true
				}
			}
		}
		var tris []vlib.Tri
		if noisy {
			c.Count("gen.rectset.decimal.mesh_in_child_process", 1)
			var status string
			tris, status = rectSetMeshInChild(boxesToText(len(boxes), func(i int) ([3]float64, [3]float64, bool) { return boxes[i].lo, boxes[i].hi, boxes[i].add }))
			if status != "ok" {
				c.Violation("toolbox3d.RectSet.Mesh/returns-when-planes-differ-by-rounding-noise", "Mesh() of a box set whose planes differ by an ulp: "+status, hist)
				tris = nil
			}
		} else {
			func() {
				defer func() {
					if e := recover(); e != nil {
						c.Violation("toolbox3d.RectSet.Mesh/panic", fmt.Sprint("panic: ", e), hist)
					}
				}()
				tris = vlib.Tris(rs.Mesh())
			}()
		}
		c.Count("gen.RectSet.Mesh.decimal", 1)
		// cell centres of the grid of all distinct coordinates (slivers thinner than 1e-9 are skipped)
		var axes [3][]float64
		for a := 0; a < 3; a++ {
			seen := map[float64]bool{}
			for _, b := range boxes {
				seen[b.lo[a]], seen[b.hi[a]] = true, true
			}
			for v := range seen {
				axes[a] = append(axes[a], v)
			}
			sort.Float64s(axes[a])
			if len(axes[a]) > 1 && axes[a][1]-axes[a][0] < 1e-9 {
				c.Count("gen.rectset.decimal.cases_with_ulp_apart_planes", 1)
			}
		}
		any := false
		var probes [][3]float64
		for i := 0; i+1 < len(axes[0]); i++ {
			for j := 0; j+1 < len(axes[1]); j++ {
				for k := 0; k+1 < len(axes[2]); k++ {
					if axes[0][i+1]-axes[0][i] < 1e-9 || axes[1][j+1]-axes[1][j] < 1e-9 || axes[2][k+1]-axes[2][k] < 1e-9 {
						continue
					}
					p := [3]float64{(axes[0][i] + axes[0][i+1]) / 2, (axes[1][j] + axes[1][j+1]) / 2, (axes[2][k] + axes[2][k+1]) / 2}
					probes = append(probes, p)
					any = any || contains(p)
				}
			}
		}
		if !any {
			return
		}
		// ExactMesh: every directed edge is matched by as many opposite ones (a closed oriented surface,
		// possibly touching itself along edges), and it winds once around exactly the cells of the set
		dir := map[[2]C3]int{}
		for _, t := range exact {
			for k := 0; k < 3; k++ {
				dir[[2]C3{t[k], t[(k+1)%3]}]++
			}
		}
		for e, n := range dir {
			if dir[[2]C3{e[1], e[0]}] != n {
				c.Violation("toolbox3d.RectSet.ExactMesh/closed-oriented", fmt.Sprintf("directed edge %v->%v used %d times, the opposite direction %d times", e[0], e[1], n, dir[[2]C3{e[1], e[0]}]), hist)
				return
			}
		}
		for _, p := range probes {
			w, frac := vlib.WindingSolidAngle(exact, model3d.NewCoord3DArray(p))
			want := 0
			if contains(p) {
				want = 1
			}
			if frac <= 0.01 && w != want {
				c.Violation("toolbox3d.RectSet.ExactMesh/winding-vs-set", fmt.Sprintf("cell centre %v: winding %d want %d", p, w, want), hist)
				return
			}
		}
		c.Count("gen.RectSet.ExactMesh.decimal", 1)
		if tris == nil {
			return
		}
		topo := vlib.AnalyzeTris(tris)
		if !topo.ClosedOrientedManifold() {
			key := "toolbox3d.RectSet.Mesh/closed-oriented-manifold"
			if noisy {
				key = "toolbox3d.RectSet.Mesh/closed-oriented-manifold-when-planes-differ-by-rounding-noise"
			}
			c.Violation(key, fmt.Sprint(topo.Problems), hist)
			return
		}
		for _, p := range probes {
			w, frac := vlib.WindingSolidAngle(tris, model3d.NewCoord3DArray(p))
			if frac > 0.01 {
				c.Undecided("rectset-winding-fractional")
				continue
			}
			want := 0
			if contains(p) {
				want = 1
			}
			if w != want {
				c.Violation("toolbox3d.RectSet.Mesh/winding-vs-set", fmt.Sprintf("cell centre %v: winding %d want %d", p, w, want), hist)
				return
			}
		}
		c.Nontrivial(fmt.Sprint("rectset.decimal", hist))
	})

	// height maps: zeros, plateaus, single cells
	r.Section("gen.heightmap", r.N(120, 2000), vlib.SectionOpts{}, func(c *vlib.Case) {
		rng := c.Rng
		size := 3 + rng.Intn(10)
		hm := toolbox3d.NewHeightMap(model2d.XY(0, 0), model2d.XY(float64(1+rng.Intn(3)), float64(1+rng.Intn(3))), size)
		kind := rng.Intn(4)
		for i := range hm.Data {
			switch kind {
			case 0:
				hm.Data[i] = rng.Float64() * rng.Float64()
			case 1: // plateaus with zeros
				if rng.Intn(3) != 0 {
					hm.Data[i] = 0.25
				}
			case 2: // sparse single cells
				if rng.Intn(6) == 0 {
					hm.Data[i] = 0.1 + rng.Float64()
				}
			default:
				hm.Data[i] = 0.01 + rng.Float64()
			}
		}
		anyPos := false
		for _, d := range hm.Data {
			anyPos = anyPos || d > 0
		}
		desc := map[string]interface{}{"rows": hm.Rows, "cols": hm.Cols, "kind": kind, "data": fmt.Sprint(hm.Data)}
		for _, bidir := range []bool{false, true} {
			api := "HeightMap.Mesh"
			var mesh *model3d.Mesh
			if bidir {
				api = "HeightMap.MeshBidir"
				mesh = hm.MeshBidir()
			} else {
				mesh = hm.Mesh()
			}
			c.Count("gen."+api, 1)
			tris := vlib.Tris(mesh)
			if !anyPos {
				continue
			}
			topo := vlib.AnalyzeTris(tris)
			if !topo.ClosedOrientedManifold() {
				c.Violation("toolbox3d."+api+"/closed-oriented-manifold", fmt.Sprint(topo.Problems), desc)
				continue
			}
			if v := vlib.SignedVolume(tris); !(v > 0) {
				c.Violation("toolbox3d."+api+"/orientation", fmt.Sprintf("signed volume %g", v), desc)
			}
		}
		c.Nontrivial(fmt.Sprint("hm", desc))
	})
}

func fmtPolytope(p model3d.ConvexPolytope) []string {
	var res []string
	for _, l := range p {
		res = append(res, fmt.Sprintf("n=(%x,%x,%x) max=%x", l.Normal.X, l.Normal.Y, l.Normal.Z, l.Max))
	}
	return res
}
