package main

import (
	"fmt"
	"math"
	"math/rand"

	"github.com/unixpickle/model3d/model2d"
	"github.com/unixpickle/model3d/model3d"
	"github.com/unixpickle/model3d/toolbox3d"
	"verif/vlib"
)

func randUnit(rng *rand.Rand) C3 {
	for {
		v := model3d.XYZ(rng.NormFloat64(), rng.NormFloat64(), rng.NormFloat64())
		if n := v.Norm(); n > 1e-3 {
			return v.Scale(1 / n)
		}
	}
}

// checkShell checks a generator output that must be one closed, outward
// oriented shell of the given Euler characteristic.
func checkShell(c *vlib.Case, api string, mesh *model3d.Mesh, euler int, params interface{}) bool {
	c.Count("gen."+api, 1)
	tris := vlib.Tris(mesh)
	topo := vlib.AnalyzeTris(tris)
	if !topo.ClosedOrientedManifold() {
		c.Violation("model3d."+api+"/closed-oriented-manifold", fmt.Sprint(topo.Problems), params)
		return false
	}
	if topo.Components != 1 {
		c.Violation("model3d."+api+"/components", fmt.Sprintf("%d components, want 1", topo.Components), params)
		return false
	}
	if topo.Euler != euler {
		c.Violation("model3d."+api+"/euler", fmt.Sprintf("Euler characteristic %d, want %d", topo.Euler, euler), params)
		return false
	}
	if v := vlib.SignedVolume(tris); !(v > 0) {
		c.Violation("model3d."+api+"/orientation", fmt.Sprintf("signed volume %g: normals do not point outward", v), params)
		return false
	}
	c.Nontrivial(fmt.Sprint(api, params))
	return true
}

func generators(r *vlib.Run) {
	r.Section("gen.primitives", r.N(400, 6000), vlib.SectionOpts{}, func(c *vlib.Case) {
		rng := c.Rng
		scale := math.Pow(10, rng.Float64()*4-2)
		ctr := randUnit(rng).Scale(scale * rng.Float64() * 3)
		switch c.Index % 7 {
		case 0:
			size := model3d.XYZ(rng.Float64()+1e-3, rng.Float64()+1e-3, rng.Float64()+1e-3).Scale(scale)
			if rng.Intn(3) == 0 {
				size.Z = scale * 1e-6 // thin slab
			}
			checkShell(c, "NewMeshRect", model3d.NewMeshRect(ctr, ctr.Add(size)), 2, map[string]interface{}{"min": ctr, "size": size})
		case 1:
			stops := 3 + rng.Intn(62)
			k := rng.Intn(3)
			a, b := 0.2+rng.Float64(), 1+rng.Intn(4)
			var f func(g model3d.GeoCoord) float64
			switch k {
			case 0:
				f = nil
			case 1:
				f = func(g model3d.GeoCoord) float64 { return scale }
			default:
				f = func(g model3d.GeoCoord) float64 {
					return scale * (1.5 + a*math.Sin(float64(b)*g.Lon)*math.Cos(g.Lat))
				}
			}
			checkShell(c, "NewMeshPolar", model3d.NewMeshPolar(f, stops), 2, map[string]interface{}{"stops": stops, "radius_kind": k, "a": a, "b": b, "scale": scale})
		case 2:
			n := 1 + rng.Intn(r.N(6, 12))
			m := model3d.NewMeshIcosphere(ctr, scale, n)
			if checkShell(c, "NewMeshIcosphere", m, 2, map[string]interface{}{"center": ctr, "radius": scale, "n": n}) {
				if m.NumTriangles() != 20*n*n {
					c.Violation("model3d.NewMeshIcosphere/face-count", fmt.Sprintf("%d faces, documented 20*n^2 = %d", m.NumTriangles(), 20*n*n), n)
				}
			}
		case 3:
			stops := 3 + rng.Intn(62)
			p2 := ctr.Add(randUnit(rng).Scale(scale * (0.01 + 3*rng.Float64())))
			rad := scale * (0.01 + 2*rng.Float64())
			checkShell(c, "NewMeshCylinder", model3d.NewMeshCylinder(ctr, p2, rad, stops), 2, map[string]interface{}{"p1": ctr, "p2": p2, "radius": rad, "stops": stops})
		case 4:
			stops := 3 + rng.Intn(62)
			base := ctr.Add(randUnit(rng).Scale(scale * (0.01 + 3*rng.Float64())))
			rad := scale * (0.01 + 2*rng.Float64())
			checkShell(c, "NewMeshCone", model3d.NewMeshCone(ctr, base, rad, stops), 2, map[string]interface{}{"tip": ctr, "base": base, "radius": rad, "stops": stops})
		case 5:
			outer := scale * (0.5 + rng.Float64())
			inner := outer * (0.02 + 0.9*rng.Float64())
			is, os := 3+rng.Intn(30), 3+rng.Intn(40)
			axis := randUnit(rng)
			checkShell(c, "NewMeshTorus", model3d.NewMeshTorus(ctr, axis, inner, outer, is, os), 0, map[string]interface{}{"center": ctr, "axis": axis, "inner": inner, "outer": outer, "innerStops": is, "outerStops": os})
		default:
			checkShell(c, "NewMeshIcosahedron", model3d.NewMeshIcosahedron(), 2, nil)
		}
	})

	r.Section("gen.polytope", r.N(300, 4000), vlib.SectionOpts{}, func(c *vlib.Case) {
		rng := c.Rng
		// bounded polytope: a box plus random cutting planes that keep the origin strictly inside
		var p model3d.ConvexPolytope
		kind := rng.Intn(4)
		degenerate := false
		switch kind {
		case 0, 1:
			p = model3d.NewConvexPolytopeRect(model3d.XYZ(-1, -1.5, -0.7), model3d.XYZ(1.2, 1, 0.9))
		case 2:
			// random simplex-like hull of half-spaces in general position
			for _, n := range []C3{{X: 1, Y: 1, Z: 1}, {X: -1, Y: 0.3, Z: 0.2}, {X: 0.1, Y: -1, Z: 0.3}, {X: 0.2, Y: 0.1, Z: -1}} {
				p = append(p, &model3d.LinearConstraint{Normal: n.Add(randUnit(rng).Scale(0.2)), Max: 1 + rng.Float64()})
			}
		default:
			// octahedron in general position: four planes meet at every vertex
			degenerate = true
			rot := model3d.NewMatrix3Rotation(randUnit(rng), rng.Float64()*3)
			d := 0.3 + rng.Float64()
			for _, sx := range []float64{-1, 1} {
				for _, sy := range []float64{-1, 1} {
					for _, sz := range []float64{-1, 1} {
						p = append(p, &model3d.LinearConstraint{Normal: rot.MulColumn(model3d.XYZ(sx, sy, sz).Normalize()), Max: d})
					}
				}
			}
		}
		if !degenerate {
			extra := rng.Intn(8)
			for i := 0; i < extra; i++ {
				n := randUnit(rng).Scale(0.2 + 3*rng.Float64()) // unnormalised normals are allowed
				p = append(p, &model3d.LinearConstraint{Normal: n, Max: n.Norm() * (0.3 + rng.Float64())})
			}
		}
		// A half-space does not change when (Normal, Max) is multiplied by a positive
		// factor; rescale constraints individually or all together by powers of ten.
		switch rng.Intn(3) {
		case 0:
			for _, l := range p {
				f := math.Pow(10, float64(rng.Intn(25)-12))
				l.Normal, l.Max = l.Normal.Scale(f), l.Max*f
			}
			c.Count("gen.polytope.constraints_rescaled_individually", 1)
		case 1:
			f := math.Pow(10, float64(rng.Intn(25)-12))
			for _, l := range p {
				l.Normal, l.Max = l.Normal.Scale(f), l.Max*f
			}
			c.Count("gen.polytope.constraints_rescaled_together", 1)
		}
		if degenerate {
			c.Count("gen.polytope.four_planes_per_vertex", 1)
		}
		mesh := p.Mesh()
		if checkShell(c, "ConvexPolytope.Mesh", mesh, 2, map[string]interface{}{"constraints": fmtPolytope(p)}) {
			// every vertex satisfies every constraint (with slack), so the mesh is the polytope's boundary
			for _, v := range mesh.VertexSlice() {
				for _, l := range p {
					if v.Dot(l.Normal) > l.Max+1e-6*l.Normal.Norm() {
						c.Violation("model3d.ConvexPolytope.Mesh/vertex-inside-constraints", fmt.Sprintf("vertex %v violates a half-space by %g", v, v.Dot(l.Normal)-l.Max), fmtPolytope(p))
						return
					}
				}
			}
			if degenerate && len(vlib.Tris(mesh)) != 8 {
				c.Violation("model3d.ConvexPolytope.Mesh/octahedron-faces", fmt.Sprintf("%d triangles for an octahedron, want 8", len(vlib.Tris(mesh))), fmtPolytope(p))
			}
		}
	})

	// 2D polytopes: a rectangle cut by random lines, constraints rescaled
	r.Section("gen.polytope2d", r.N(300, 4000), vlib.SectionOpts{}, func(c *vlib.Case) {
		rng := c.Rng
		p := model2d.NewConvexPolytopeRect(model2d.XY(-1, -1.5), model2d.XY(1.2, 1))
		extra := rng.Intn(6)
		for i := 0; i < extra; i++ {
			th := rng.Float64() * 2 * math.Pi
			n := model2d.XY(math.Cos(th), math.Sin(th)).Scale(0.2 + 3*rng.Float64())
			p = append(p, &model2d.LinearConstraint{Normal: n, Max: n.Norm() * (0.3 + rng.Float64())})
		}
		if rng.Intn(3) != 0 {
			same := rng.Intn(2) == 0
			f := math.Pow(10, float64(rng.Intn(25)-12))
			for _, l := range p {
				if !same {
					f = math.Pow(10, float64(rng.Intn(25)-12))
				}
				l.Normal, l.Max = l.Normal.Scale(f), l.Max*f
			}
			c.Count("gen.polytope2d.constraints_rescaled", 1)
		}
		var desc []string
		for _, l := range p {
			desc = append(desc, fmt.Sprintf("n=(%x,%x) max=%x", l.Normal.X, l.Normal.Y, l.Max))
		}
		mesh := p.Mesh()
		c.Count("gen.ConvexPolytope2D.Mesh", 1)
		segs := vlib.Segs(mesh)
		topo := vlib.AnalyzeSegs(segs)
		if !topo.ClosedOrientedManifold() {
			c.Violation("model2d.ConvexPolytope.Mesh/closed-oriented-manifold", fmt.Sprint(topo.Problems), desc)
			return
		}
		if topo.Components != 1 {
			c.Violation("model2d.ConvexPolytope.Mesh/components", fmt.Sprintf("%d loops, want 1", topo.Components), desc)
			return
		}
		// orientation: outward normals give a negative shoelace sum in model2d (same convention as
		// the marching-squares checks of this monitor)
		if a := vlib.SignedArea2(segs); a >= 0 {
			c.Violation("model2d.ConvexPolytope.Mesh/orientation", fmt.Sprintf("signed area %g (outward normals give a negative shoelace sum)", a), desc)
			return
		}
		// every vertex satisfies every constraint
		for _, sg := range segs {
			for _, l := range p {
				if sg[0].Dot(l.Normal) > l.Max+1e-6*l.Normal.Norm() {
					c.Violation("model2d.ConvexPolytope.Mesh/vertex-inside-constraints", fmt.Sprintf("vertex %v violates a half-plane", sg[0]), desc)
					return
				}
			}
		}
		c.Nontrivial(fmt.Sprint("polytope2d", desc))
	})

	// extruded profiles of lattice-defined 2D solids (holes and islands)
	r.Section("gen.profile", r.N(80, 1500), vlib.SectionOpts{}, func(c *vlib.Case) {
		rng := c.Rng
		nx, ny := 3+rng.Intn(8), 3+rng.Intn(8)
		s := vlib.NewBitSolid2(model2d.Coord{}, delta, nx, ny)
		d := 0.2 + 0.7*rng.Float64()
		any := false
		for i := range s.Bits {
			s.Bits[i] = rng.Float64() < d
			any = any || s.Bits[i]
		}
		if !any {
			s.Bits[0] = true
		}
		m2 := model2d.MarchingSquares(s, delta)
		if !vlib.AnalyzeSegs(vlib.Segs(m2)).ClosedOrientedManifold() {
			c.Undecided("profile-input-not-manifold")
			return
		}
		minZ := float64(rng.Intn(5)) - 2
		maxZ := minZ + float64(1+rng.Intn(3))*0.5
		mesh := model3d.ProfileMesh(m2, minZ, maxZ)
		c.Count("gen.ProfileMesh", 1)
		tris := vlib.Tris(mesh)
		topo := vlib.AnalyzeTris(tris)
		desc := map[string]interface{}{"nx": nx, "ny": ny, "bits": pat2String(s.Bits, [2]int{nx, ny}), "minZ": minZ, "maxZ": maxZ}
		if !topo.ClosedOrientedManifold() {
			c.Violation("model3d.ProfileMesh/closed-oriented-manifold", fmt.Sprint(topo.Problems), desc)
			return
		}
		its, ok := vlib.TrisToI3(tris, 4/delta)
		if !ok {
			c.Undecided("profile-not-dyadic")
			return
		}
		zs := []float64{minZ - 0.25, (minZ + maxZ) / 2, maxZ + 0.25}
		if math.Mod((minZ+maxZ)/2*4/delta, 1) != 0 {
			zs[1] = minZ + 0.125
		}
		for j := -1; j <= ny; j++ {
			for i := -1; i <= nx; i++ {
				for zi, z := range zs {
					pt, ok := vlib.ToI3(model3d.XYZ(float64(i)*delta, float64(j)*delta, z), 4/delta)
					if !ok {
						continue
					}
					w, ok := vlib.Winding3(its, pt)
					want := 0
					if zi == 1 && s.Get(i, j) {
						want = 1
					}
					if !ok || w != want {
						c.Violation("model3d.ProfileMesh/winding-vs-profile", fmt.Sprintf("point (%d,%d,z=%g): winding %d want %d (decidable %v)", i, j, z, w, want, ok), desc)
						return
					}
				}
			}
		}
		vol := vlib.SignedVolume(tris)
		area := -vlib.SignedArea2(vlib.Segs(m2)) // clockwise outlines
		if math.Abs(vol-area*(maxZ-minZ)) > 1e-9*(1+math.Abs(vol)) {
			c.Violation("model3d.ProfileMesh/volume", fmt.Sprintf("volume %g, outline area x height = %g", vol, area*(maxZ-minZ)), desc)
		}
		c.Nontrivial(fmt.Sprint("profile", desc))
	})

	// box sets on integer coordinates (touching at faces, edges and corners)
	r.Section("gen.rectset", r.N(150, 3000), vlib.SectionOpts{}, func(c *vlib.Case) {
		rng := c.Rng
		const n = 4
		var cells [n][n][n]bool
		rs := toolbox3d.NewRectSet()
		var hist []string
		ops := 1 + rng.Intn(7)
		randRect := func() (lo, hi [3]int, rect *model3d.Rect) {
			lo = [3]int{rng.Intn(n), rng.Intn(n), rng.Intn(n)}
			hi = [3]int{lo[0] + 1 + rng.Intn(n-lo[0]), lo[1] + 1 + rng.Intn(n-lo[1]), lo[2] + 1 + rng.Intn(n-lo[2])}
			rect = model3d.NewRect(model3d.XYZ(float64(lo[0]), float64(lo[1]), float64(lo[2])), model3d.XYZ(float64(hi[0]), float64(hi[1]), float64(hi[2])))
			return
		}
		fill := func(dst *[n][n][n]bool, lo, hi [3]int, v bool) {
			for x := lo[0]; x < hi[0]; x++ {
				for y := lo[1]; y < hi[1]; y++ {
					for z := lo[2]; z < hi[2]; z++ {
						dst[x][y][z] = v
					}
				}
			}
		}
		for o := 0; o < ops; o++ {
			add := o == 0 || rng.Intn(4) != 0
			if rng.Intn(3) == 0 {
				// merge or subtract a whole set that was built separately (its own split planes)
				other := toolbox3d.NewRectSet()
				var oc [n][n][n]bool
				k := 1 + rng.Intn(3)
				for i := 0; i < k; i++ {
					lo, hi, rect := randRect()
					oadd := i == 0 || rng.Intn(4) != 0
					if oadd {
						other.Add(rect)
					} else {
						other.Remove(rect)
					}
					fill(&oc, lo, hi, oadd)
					hist = append(hist, fmt.Sprintf("  other: add=%v %v-%v", oadd, lo, hi))
				}
				if add {
					rs.AddRectSet(other)
					c.Count("gen.RectSet.AddRectSet", 1)
				} else {
					rs.RemoveRectSet(other)
					c.Count("gen.RectSet.RemoveRectSet", 1)
				}
				hist = append(hist, fmt.Sprintf("merge other: add=%v", add))
				for x := 0; x < n; x++ {
					for y := 0; y < n; y++ {
						for z := 0; z < n; z++ {
							if oc[x][y][z] {
								cells[x][y][z] = add
							}
						}
					}
				}
				continue
			}
			lo, hi, rect := randRect()
			if add {
				rs.Add(rect)
			} else {
				rs.Remove(rect)
			}
			hist = append(hist, fmt.Sprintf("add=%v %v-%v", add, lo, hi))
			fill(&cells, lo, hi, add)
		}
		any := false
		for x := 0; x < n; x++ {
			for y := 0; y < n; y++ {
				for z := 0; z < n; z++ {
					any = any || cells[x][y][z]
				}
			}
		}
		mesh := rs.Mesh()
		c.Count("gen.RectSet.Mesh", 1)
		tris := vlib.Tris(mesh)
		if !any {
			if len(tris) != 0 {
				c.Violation("toolbox3d.RectSet.Mesh/empty", "empty set produced faces", hist)
			}
			return
		}
		topo := vlib.AnalyzeTris(tris)
		if !topo.ClosedOrientedManifold() {
			c.Violation("toolbox3d.RectSet.Mesh/closed-oriented-manifold", fmt.Sprint(topo.Problems), hist)
			return
		}
		for x := -1; x <= n; x++ {
			for y := -1; y <= n; y++ {
				for z := -1; z <= n; z++ {
					p := model3d.XYZ(float64(x)+0.5, float64(y)+0.5, float64(z)+0.5)
					w, frac := vlib.WindingSolidAngle(tris, p)
					want := 0
					if x >= 0 && y >= 0 && z >= 0 && x < n && y < n && z < n && cells[x][y][z] {
						want = 1
					}
					if frac > 0.01 {
						c.Undecided("rectset-winding-fractional")
						continue
					}
					if w != want {
						c.Violation("toolbox3d.RectSet.Mesh/winding-vs-set", fmt.Sprintf("cell centre %v: winding %d want %d", p, w, want), hist)
						return
					}
				}
			}
		}
		c.Nontrivial(fmt.Sprint("rectset", hist))
	})

	// height maps: zeros, plateaus, single cells
	r.Section("gen.heightmap", r.N(120, 2000), vlib.SectionOpts{}, func(c *vlib.Case) {
		rng := c.Rng
		size := 3 + rng.Intn(10)
		hm := toolbox3d.NewHeightMap(model2d.XY(0, 0), model2d.XY(float64(1+rng.Intn(3)), float64(1+rng.Intn(3))), size)
		kind := rng.Intn(4)
		for i := range hm.Data {
			switch kind {
			case 0:
				hm.Data[i] = rng.Float64() * rng.Float64()
			case 1: // plateaus with zeros
				if rng.Intn(3) != 0 {
					hm.Data[i] = 0.25
				}
			case 2: // sparse single cells
				if rng.Intn(6) == 0 {
					hm.Data[i] = 0.1 + rng.Float64()
				}
			default:
				hm.Data[i] = 0.01 + rng.Float64()
			}
		}
		anyPos := false
		for _, d := range hm.Data {
			anyPos = anyPos || d > 0
		}
		desc := map[string]interface{}{"rows": hm.Rows, "cols": hm.Cols, "kind": kind, "data": fmt.Sprint(hm.Data)}
		for _, bidir := range []bool{false, true} {
			api := "HeightMap.Mesh"
			var mesh *model3d.Mesh
			if bidir {
				api = "HeightMap.MeshBidir"
				mesh = hm.MeshBidir()
			} else {
				mesh = hm.Mesh()
			}
			c.Count("gen."+api, 1)
			tris := vlib.Tris(mesh)
			if !anyPos {
				continue
			}
			topo := vlib.AnalyzeTris(tris)
			if !topo.ClosedOrientedManifold() {
				c.Violation("toolbox3d."+api+"/closed-oriented-manifold", fmt.Sprint(topo.Problems), desc)
				continue
			}
			if v := vlib.SignedVolume(tris); !(v > 0) {
				c.Violation("toolbox3d."+api+"/orientation", fmt.Sprintf("signed volume %g", v), desc)
			}
		}
		c.Nontrivial(fmt.Sprint("hm", desc))
	})
}

func fmtPolytope(p model3d.ConvexPolytope) []string {
	var res []string
	for _, l := range p {
		res = append(res, fmt.Sprintf("n=(%x,%x,%x) max=%x", l.Normal.X, l.Normal.Y, l.Normal.Z, l.Max))
	}
	return res
}
