// C01 — Meshing always outputs a closed, consistently oriented manifold.
// Invariant walker (own topology oracle + exact winding numbers) over meshes
// of lattice-defined solids packed many to a call. DESIGN.md C01.
package main

import (
	"fmt"
	"math/rand"
	"os"
	"runtime"
	"sync"
	"sync/atomic"
	"time"

	"github.com/unixpickle/model3d/model3d"
	"verif/vlib"
)

type C3 = model3d.Coord3D

const delta = 0.5

var (
	rowsMu   sync.Mutex
	rowsSeen [256]bool
	rows2    [16]bool
)

func main() {
	if len(os.Args) > 1 && os.Args[1] == "-c01rectchild" {
		rectChildMain()
		return
	}
	r := vlib.Start("C01", "exploration")
	r.Rule("lattice-defined solids (bitmaps over the sampling lattice with an empty outer layer) packed thousands to a meshing call; every pattern block must be a closed oriented manifold by the raw-face topology oracle and have exact winding number 1 at contained lattice points and 0 at excluded ones; quick: all 256 cells, all 2-cell face pairs x3 axes, seeded 18-point edge neighbourhoods and 27-point blocks; thorough: all 2^18 x 3 edge neighbourhoods. 2D: all 16 cells, all pairs, all 3x3 blocks, all 2^16 4x4 bitmaps. Other generators: seeded valid parameters. A case is non-trivial if its pattern is non-empty (distinct by method+pattern hash)")
	r.Assume("dyadic spacing and origin 0 so that lattice and vertex coordinates are exact")
	r.Assume("winding numbers are computed in exact integer arithmetic with generic ray directions")

	lattice3(r)
	lattice2(r)
	bitmaps(r)
	generators(r)

	if !r.Replaying() {
		n := 0
		for _, b := range rowsSeen {
			if b {
				n++
			}
		}
		r.Count("mc.table_rows_exercised", int64(n))
		n2 := 0
		for _, b := range rows2 {
			if b {
				n2++
			}
		}
		r.Count("ms.table_rows_exercised", int64(n2))
	}
	r.Require("mc.table_rows_exercised", 256)
	r.Require("ms.table_rows_exercised", 16)
	r.Require("mc.blocks_checked", 1000)
	r.Require("mc.ambiguous_face_pairs", 100)
	r.Require("bitmap.meshes", 1000)
	r.Finish()
}

// procsChange, when set (section mc.procs-changed only, which runs alone), makes the mesh of one
// method while GOMAXPROCS changes during the call.
var procsChange func(c *vlib.Case, p *vlib.Packed3, m method) *model3d.Mesh

type method struct {
	name  string
	scale float64
	run   func(p *vlib.Packed3) *model3d.Mesh
}

func methods() []method {
	always := func(*model3d.Rect) bool { return true }
	return []method{
		{"MarchingCubes", 2 / delta, func(p *vlib.Packed3) *model3d.Mesh { return model3d.MarchingCubes(p.Solid, delta) }},
		{"MarchingCubesSearch(1)", 4 / delta, func(p *vlib.Packed3) *model3d.Mesh { return model3d.MarchingCubesSearch(p.Solid, delta, 1) }},
		{"MarchingCubesSearch(3)", 16 / delta, func(p *vlib.Packed3) *model3d.Mesh { return model3d.MarchingCubesSearch(p.Solid, delta, 3) }},
		{"MarchingCubesFilter(true)", 2 / delta, func(p *vlib.Packed3) *model3d.Mesh { return model3d.MarchingCubesFilter(p.Solid, always, delta) }},
		{"MarchingCubesFilter(boxes)", 2 / delta, func(p *vlib.Packed3) *model3d.Mesh {
			return model3d.MarchingCubesFilter(p.Solid, conservativeFilter(p), delta)
		}},
		{"MarchingCubesSearchFilter(boxes,2)", 8 / delta, func(p *vlib.Packed3) *model3d.Mesh {
			return model3d.MarchingCubesSearchFilter(p.Solid, conservativeFilter(p), delta, 2)
		}},
	}
}

// conservativeFilter reports true for every rect that comes within one lattice
// step of a block holding a non-empty pattern.
func conservativeFilter(p *vlib.Packed3) func(*model3d.Rect) bool {
	type box struct{ min, max C3 }
	var boxes []box
	for i, pat := range p.Patterns {
		any := false
		for _, b := range pat {
			if b {
				any = true
			}
		}
		if !any {
			continue
		}
		bx, by, bz := i%p.G[0], (i/p.G[0])%p.G[1], i/(p.G[0]*p.G[1])
		o := model3d.XYZ(float64(bx*p.Stride[0]), float64(by*p.Stride[1]), float64(bz*p.Stride[2])).Scale(delta)
		boxes = append(boxes, box{o.AddScalar(-delta * 0.01), o.Add(model3d.XYZ(float64(p.Stride[0]-1), float64(p.Stride[1]-1), float64(p.Stride[2]-1)).Scale(delta)).AddScalar(delta * 0.01)})
	}
	return func(r *model3d.Rect) bool {
		for _, b := range boxes {
			if r.MinVal.X <= b.max.X && r.MaxVal.X >= b.min.X && r.MinVal.Y <= b.max.Y && r.MaxVal.Y >= b.min.Y &&
				r.MinVal.Z <= b.max.Z && r.MaxVal.Z >= b.min.Z {
				return true
			}
		}
		return false
	}
}

// hasAmbiguousFace reports whether a shared face between two cells of the
// block has diagonal corners of one kind and anti-diagonal of the other.
func countAmbiguousFaces(pat []bool, p [3]int) int {
	get := func(i, j, k int) bool { return pat[(k*p[1]+j)*p[0]+i] }
	n := 0
	for k := 0; k < p[2]; k++ {
		for j := 0; j+1 < p[1]; j++ {
			for i := 0; i+1 < p[0]; i++ {
				a, b, c, d := get(i, j, k), get(i+1, j, k), get(i, j+1, k), get(i+1, j+1, k)
				if a == d && b == c && a != b {
					n++
				}
			}
		}
	}
	for j := 0; j < p[1]; j++ {
		for k := 0; k+1 < p[2]; k++ {
			for i := 0; i+1 < p[0]; i++ {
				a, b, c, d := get(i, j, k), get(i+1, j, k), get(i, j, k+1), get(i+1, j, k+1)
				if a == d && b == c && a != b {
					n++
				}
			}
		}
	}
	for i := 0; i < p[0]; i++ {
		for k := 0; k+1 < p[2]; k++ {
			for j := 0; j+1 < p[1]; j++ {
				a, b, c, d := get(i, j, k), get(i, j+1, k), get(i, j, k+1), get(i, j+1, k+1)
				if a == d && b == c && a != b {
					n++
				}
			}
		}
	}
	return n
}

func runPacked(c *vlib.Case, class string, patterns [][]bool, dims [3]int, ms []method) {
	p := vlib.PackPatterns3(patterns, dims, delta)
	amb := 0
	for _, pat := range patterns {
		if countAmbiguousFaces(pat, dims) > 0 {
			amb++
		}
	}
	c.Count("mc.ambiguous_face_pairs", int64(amb))
	for _, m := range ms {
		var mesh *model3d.Mesh
		if procsChange != nil {
			mesh = procsChange(c, p, m)
		} else {
			mesh = m.run(p)
		}
		blocks, straddle := p.Split(vlib.Tris(mesh))
		if straddle > 0 {
			c.Violation("model3d."+apiName(m.name)+"/triangle-spans-separated-patterns", fmt.Sprintf("%d triangles connect lattice regions separated by two empty layers", straddle), map[string]interface{}{"class": class, "method": m.name})
		}
		for i := range blocks {
			b := &blocks[i]
			if why := p.CheckBlock(b, m.scale); why != "" {
				c.Violation("model3d."+apiName(m.name)+"/"+clauseOf(why), why, map[string]interface{}{
					"class": class, "method": m.name, "pattern_dims": dims, "pattern": vlib.PatternString(patterns[i], dims),
					"delta": delta, "triangles": fmtTris(b.Tris, 24),
				})
			}
			if len(b.Tris) > 0 {
				c.Nontrivial(m.name + vlib.PatternString(patterns[i], dims))
			}
		}
		c.Count("mc.blocks_checked", int64(len(blocks)))
		c.Count("mc.blocks."+class+"."+apiName(m.name), int64(len(blocks)))
		c.Count("mc.triangles", int64(mesh.NumTriangles()))
	}
	// census of table rows
	var local [256]bool
	blocks, _ := p.Split(nil)
	for i := range blocks {
		p.CellConfigs(&blocks[i], func(cfg uint8) { local[cfg] = true })
	}
	rowsMu.Lock()
	for i, b := range local {
		if b {
			rowsSeen[i] = true
		}
	}
	rowsMu.Unlock()
}

func apiName(m string) string {
	for i, ch := range m {
		if ch == '(' {
			return m[:i]
		}
	}
	return m
}

func clauseOf(why string) string {
	switch {
	case len(why) > 12 && why[:12] == "not a closed":
		return "closed-oriented-manifold"
	case len(why) > 13 && why[:13] == "lattice point":
		return "winding-vs-contains"
	case why == "non-empty pattern produced no triangles":
		return "missing-surface"
	default:
		return "other"
	}
}

func fmtTris(ts []vlib.Tri, max int) []string {
	var res []string
	for i, t := range ts {
		if i >= max {
			res = append(res, "...")
			break
		}
		res = append(res, fmt.Sprintf("%v %v %v", t[0], t[1], t[2]))
	}
	return res
}

func bitsPattern(v uint32, n int) []bool {
	res := make([]bool, n)
	for i := 0; i < n; i++ {
		res[i] = v&(1<<uint(i)) != 0
	}
	return res
}

// permuteAxes re-lays a pattern given with dims d (x fastest) so that axis a
// becomes the distinguished one.
func orient(pat []bool, d [3]int, axis int) ([]bool, [3]int) {
	// source dims d = (a,b,c); target: rotate axes by 'axis'
	perm := [3][3]int{{0, 1, 2}, {1, 2, 0}, {2, 0, 1}}[axis]
	var nd [3]int
	for i := 0; i < 3; i++ {
		nd[perm[i]] = d[i]
	}
	res := make([]bool, len(pat))
	for k := 0; k < d[2]; k++ {
		for j := 0; j < d[1]; j++ {
			for i := 0; i < d[0]; i++ {
				src := [3]int{i, j, k}
				var dst [3]int
				for a := 0; a < 3; a++ {
					dst[perm[a]] = src[a]
				}
				res[(dst[2]*nd[1]+dst[1])*nd[0]+dst[0]] = pat[(k*d[1]+j)*d[0]+i]
			}
		}
	}
	return res, nd
}

func lattice3(r *vlib.Run) {
	ms := methods()
	// all 256 single cells, every method
	r.Section("mc.cells", 1, vlib.SectionOpts{}, func(c *vlib.Case) {
		var pats [][]bool
		for v := 0; v < 256; v++ {
			pats = append(pats, bitsPattern(uint32(v), 8))
		}
		runPacked(c, "cell", pats, [3]int{2, 2, 2}, ms)
		c.Sample("cell-pattern", 1, vlib.PatternString(pats[0x69], [3]int{2, 2, 2}))
	})
	// all face-adjacent pairs x 3 axes, every method
	r.Section("mc.pairs", 3, vlib.SectionOpts{}, func(c *vlib.Case) {
		var pats [][]bool
		var dims [3]int
		for v := 0; v < 4096; v++ {
			p, d := orient(bitsPattern(uint32(v), 12), [3]int{3, 2, 2}, c.Index)
			pats = append(pats, p)
			dims = d
		}
		runPacked(c, "pair", pats, dims, ms)
	})
	// 18-point neighbourhoods of a lattice edge (4 cells) x 3 axes
	const chunk = 4096
	if r.Quick() {
		r.Section("mc.quads", 18, vlib.SectionOpts{}, func(c *vlib.Case) {
			var pats [][]bool
			var dims [3]int
			for i := 0; i < chunk; i++ {
				v := c.Rng.Uint32() & (1<<18 - 1)
				if i%4 == 0 { // bias towards sparse / dense patterns
					v &= c.Rng.Uint32()
				} else if i%4 == 1 {
					v |= c.Rng.Uint32() & (1<<18 - 1)
				}
				p, d := orient(bitsPattern(v, 18), [3]int{3, 3, 2}, c.Index%3)
				pats = append(pats, p)
				dims = d
			}
			runPacked(c, "quad", pats, dims, []method{ms[0], ms[1+c.Index%(len(ms)-1)]})
		})
	} else {
		total := (1 << 18) / chunk * 3
		r.Section("mc.quads", total, vlib.SectionOpts{}, func(c *vlib.Case) {
			axis := c.Index / ((1 << 18) / chunk)
			base := uint32(c.Index%((1<<18)/chunk)) * chunk
			var pats [][]bool
			var dims [3]int
			for i := uint32(0); i < chunk; i++ {
				p, d := orient(bitsPattern(base+i, 18), [3]int{3, 3, 2}, axis)
				pats = append(pats, p)
				dims = d
			}
			runPacked(c, "quad-exhaustive", pats, dims, []method{ms[0], ms[1+c.Index%(len(ms)-1)]})
		})
		r.Note("exhaustive_edge_neighbourhoods", true)
	}
	// 2x2x2-cell blocks (27 points)
	r.Section("mc.blocks27", r.N(6, 500), vlib.SectionOpts{}, func(c *vlib.Case) {
		var pats [][]bool
		for i := 0; i < 2000; i++ {
			v := c.Rng.Uint32() & (1<<27 - 1)
			switch i % 4 {
			case 0:
				v &= c.Rng.Uint32()
			case 1:
				v |= c.Rng.Uint32() & (1<<27 - 1)
			}
			pats = append(pats, bitsPattern(v, 27))
		}
		runPacked(c, "block27", pats, [3]int{3, 3, 3}, []method{ms[0], ms[1+c.Index%(len(ms)-1)]})
	})
	// larger random lattices incl. checkerboards and complements
	r.Section("mc.random", r.N(40, 800), vlib.SectionOpts{}, func(c *vlib.Case) {
		n := 5 + c.Rng.Intn(r.N(5, 12))
		dims := [3]int{n, 3 + c.Rng.Intn(n), 3 + c.Rng.Intn(n)}
		pat := randomLattice(c.Rng, dims)
		m := ms[c.Rng.Intn(len(ms))]
		runPacked(c, "random", [][]bool{pat}, dims, []method{m})
		if c.Index < 1 {
			c.Sample("random-lattice", 1, map[string]interface{}{"dims": dims, "method": m.name, "pattern": vlib.PatternString(pat, dims)})
		}
	})
	// lattices several hundred samples long on one axis, mostly empty with a few clusters whose
	// position along the long axis is arbitrary (any internal span or block width of a scanner is
	// crossed somewhere)
	r.Section("mc.wide", r.N(16, 300), vlib.SectionOpts{}, func(c *vlib.Case) {
		rng := c.Rng
		long := 260 + rng.Intn(330)
		dims := [3]int{long, 3, 3 + rng.Intn(2)}
		ax := 0
		if c.Index%8 == 2 {
			dims, ax = [3]int{dims[1], long, dims[2]}, 1
		} else if c.Index%8 == 3 {
			dims, ax = [3]int{dims[1], dims[2], long}, 2
		}
		pat := make([]bool, dims[0]*dims[1]*dims[2])
		fill := func(start, length int, dens float64, solidFront bool) {
			for z := 0; z < dims[2]; z++ {
				for y := 0; y < dims[1]; y++ {
					for x := 0; x < dims[0]; x++ {
						l := [3]int{x, y, z}[ax]
						if l >= start && l < start+length && l < long && (rng.Float64() < dens || (solidFront && l == start)) {
							pat[(z*dims[1]+y)*dims[0]+x] = true
						}
					}
				}
			}
		}
		// content whose first layer sits on sample 128, 256 or 512 of the long axis (pattern index
		// + 1 is the sample index) after a long empty run, and content at arbitrary places
		s0 := []int{256, 256, 128, 512, 64}[rng.Intn(5)]
		if s0+2 >= long {
			s0 = 256
		}
		first := s0 - 1 // pattern index of sample s0
		if rng.Intn(5) == 0 {
			first -= 1 + rng.Intn(2)
		}
		fill(first, 2+rng.Intn(12), 0.4+0.6*rng.Float64(), true)
		for k := rng.Intn(3); k > 0; k-- {
			if room := long - first - 20; room > 0 {
				fill(first+20+rng.Intn(room), 1+rng.Intn(20), 0.3+0.7*rng.Float64(), false)
			}
		}
		m := ms[rng.Intn(len(ms))]
		runPacked(c, "wide", [][]bool{pat}, dims, []method{ms[0], m})
		c.Max("mc.wide.longest_axis", float64(long))
	})
	// the process restricted to one P (GOMAXPROCS=1, a one-CPU container): the scanners' worker
	// hand-offs degenerate; same oracle
	r.Section("mc.singleproc", r.N(12, 120), vlib.SectionOpts{Sequential: true}, func(c *vlib.Case) {
		old := runtime.GOMAXPROCS(1)
		defer runtime.GOMAXPROCS(old)
		n := 4 + c.Rng.Intn(6)
		dims := [3]int{n, 3 + c.Rng.Intn(n), 3 + c.Rng.Intn(n)}
		pat := randomLattice(c.Rng, dims)
		runPacked(c, "singleproc", [][]bool{pat}, dims, []method{ms[0], ms[1+c.Rng.Intn(len(ms)-1)]})
	})
	// the number of processors changes while one meshing call is under way (a tuning library, a new
	// CPU quota): the solid lowers or raises GOMAXPROCS at its k-th query
	r.Section("mc.procs-changed", r.N(16, 160), vlib.SectionOpts{Sequential: true, Watchdog: 2 * time.Minute}, func(c *vlib.Case) {
		old := runtime.GOMAXPROCS(0)
		defer runtime.GOMAXPROCS(old)
		procsChange = func(c *vlib.Case, p *vlib.Packed3, m method) *model3d.Mesh {
			from, to := []int{4, 8, 16}[c.Rng.Intn(3)], 1+c.Rng.Intn(3)
			if c.Rng.Intn(5) == 0 {
				from, to = to, from
			}
			var total atomic.Int64
			oldHook := p.Solid.Hook
			p.Solid.Hook = func(C3) { total.Add(1) }
			m.run(p)
			at := int64(1)
			if c.Rng.Intn(3) != 0 {
				at = 1 + c.Rng.Int63n(total.Load()+1)
			}
			var calls atomic.Int64
			p.Solid.Hook = func(C3) {
				if calls.Add(1) == at {
					runtime.GOMAXPROCS(to)
				}
			}
			runtime.GOMAXPROCS(from)
			mesh := m.run(p)
			p.Solid.Hook = oldHook
			c.Count("mc.meshes_made_while_gomaxprocs_changed", 1)
			return mesh
		}
		defer func() { procsChange = nil }()
		n := 4 + c.Rng.Intn(6)
		dims := [3]int{n, 3 + c.Rng.Intn(n), 3 + c.Rng.Intn(n)}
		pat := randomLattice(c.Rng, dims)
		runPacked(c, "procs-changed", [][]bool{pat}, dims, []method{ms[c.Rng.Intn(3)], ms[3+c.Rng.Intn(len(ms)-3)]})
	})
	// coarse-to-fine on smooth solids (lattice solids violate its documented precondition)
	r.Section("mc.c2f", r.N(12, 100), vlib.SectionOpts{}, func(c *vlib.Case) {
		rng := c.Rng
		var s model3d.Solid
		kind := rng.Intn(3)
		ctr := model3d.XYZ(rng.NormFloat64(), rng.NormFloat64(), rng.NormFloat64())
		switch kind {
		case 0:
			s = &model3d.Sphere{Center: ctr, Radius: 0.8 + rng.Float64()}
		case 1:
			s = &model3d.Torus{Center: ctr, Axis: model3d.XYZ(rng.NormFloat64(), rng.NormFloat64(), rng.NormFloat64()).Normalize(), InnerRadius: 0.4 + 0.2*rng.Float64(), OuterRadius: 1.2 + rng.Float64()}
		default:
			s = model3d.NewRect(ctr, ctr.Add(model3d.XYZ(1+rng.Float64(), 1+rng.Float64(), 1+rng.Float64())))
		}
		small := 0.05 + 0.05*rng.Float64()
		big := small * float64(2+rng.Intn(3))
		iters := rng.Intn(4)
		if c.Index%3 == 2 {
			// large coarse/fine ratios: the coarse mesh chamfers sharp edges by up to a coarse
			// cell, which the dilated filter has to cover (every feature here is >= 2.5 coarse cells)
			ratio := []int{8, 12, 16, 24, 32}[rng.Intn(5)]
			big = 0.3 + 0.1*rng.Float64()
			small = big / float64(ratio)
			if kind == 1 {
				kind = 2
				s = model3d.NewRect(ctr, ctr.Add(model3d.XYZ(1+rng.Float64(), 1+rng.Float64(), 1+rng.Float64())))
			}
			if rng.Intn(2) == 0 {
				iters = 0
			}
			c.Count("mc.c2f.meshes_with_ratio_8_to_32", 1)
		}
		mesh := model3d.MarchingCubesC2F(s, big, small, 0, iters)
		tris := vlib.Tris(mesh)
		topo := vlib.AnalyzeTris(tris)
		c.Count("mc.c2f.meshes", 1)
		if !topo.ClosedOrientedManifold() {
			c.Violation("model3d.MarchingCubesC2F/closed-oriented-manifold", fmt.Sprint(topo.Problems), map[string]interface{}{"kind": kind, "big": big, "small": small})
		} else if topo.Components != 1 || vlib.SignedVolume(tris) <= 0 {
			c.Violation("model3d.MarchingCubesC2F/orientation", fmt.Sprintf("components=%d signed volume=%g", topo.Components, vlib.SignedVolume(tris)), map[string]interface{}{"kind": kind, "big": big, "small": small})
		}
		wantEuler := 2
		if kind == 1 {
			wantEuler = 0
		}
		if topo.ClosedOrientedManifold() && topo.Euler != wantEuler {
			c.Violation("model3d.MarchingCubesC2F/euler", fmt.Sprintf("Euler characteristic %d, want %d", topo.Euler, wantEuler), map[string]interface{}{"kind": kind, "big": big, "small": small})
		}
		c.Nontrivial(fmt.Sprint("c2f", kind, big, small, ctr, iters))
	})
}

func randomLattice(rng *rand.Rand, dims [3]int) []bool {
	n := dims[0] * dims[1] * dims[2]
	pat := make([]bool, n)
	switch rng.Intn(5) {
	case 0: // checkerboard (every face ambiguous)
		for k := 0; k < dims[2]; k++ {
			for j := 0; j < dims[1]; j++ {
				for i := 0; i < dims[0]; i++ {
					pat[(k*dims[1]+j)*dims[0]+i] = (i+j+k)%2 == 0
				}
			}
		}
	case 1: // checkerboard complement with noise
		for k := 0; k < dims[2]; k++ {
			for j := 0; j < dims[1]; j++ {
				for i := 0; i < dims[0]; i++ {
					pat[(k*dims[1]+j)*dims[0]+i] = ((i+j+k)%2 == 1) != (rng.Intn(10) == 0)
				}
			}
		}
	default:
		density := 0.05 + 0.9*rng.Float64()
		for i := range pat {
			pat[i] = rng.Float64() < density
		}
	}
	return pat
}
