// C02 — Generated meshes bound exactly the sampled solid.
// Reference-model monitor: the mesh is compared with the classification of the
// library's own sampling lattice (taken through the verif hook, never
// re-derived). DESIGN.md C02.
package main

import (
	"fmt"
	"math"
	"sort"

	"github.com/unixpickle/model3d/model3d"
	"verif/vlib"
)

func main() {
	r := vlib.Start("C02", "exploration")
	r.ScaleQuick(4) // quick tier: 4x the case counts written at the sections (still well under a minute)
	r.Rule("seeded deterministic solids (own CSG trees of own primitives, thin slabs/needles near one spacing, surfaces within 1e-9 of lattice points, lattice bitmaps) x spacings x iteration counts x dual-contouring options; each case meshes one solid and checks sample side (winding number at lattice points), vertex placement per lattice edge, refinement bracket, interior points, and for clipped dual contouring the per-edge crossing count and sign; non-trivial = mesh has >= 8 faces; distinct by solid description + options")
	r.Assume("lattice coordinates come from the library through VerifMarchingLattice / VerifDcLattice")
	r.Assume("exact integer winding on dyadic cases; solid-angle winding (decided only when within 0.01 of an integer) otherwise")

	marching3(r)
	marching2(r)
	dualContour(r)
	dcShortcuts(r)
	estimator(r)
	estimator2d(r)

	r.Require("mc.meshes", 20)
	r.Require("mc.lattice_points_classified", 10000)
	r.Require("mc.edges_with_vertex", 1000)
	r.Require("mc.search_brackets_checked", 1000)
	r.Require("mc.interior_points", 500)
	r.Require("dc.clip_meshes", 10)
	r.Require("dc.active_edges_checked", 1000)
	r.Require("dc.interior_points", 200)
	r.Require("ms.meshes", 20)
	r.Finish()
}

func searchSorted(xs []float64, v float64) (idx int, exact bool) {
	i := sort.SearchFloat64s(xs, v)
	if i < len(xs) && xs[i] == v {
		return i, true
	}
	return i - 1, false // xs[i-1] < v < xs[i]
}

type edgeKey struct {
	axis    int
	i, j, k int // lower end lattice index
}

// locateVertex maps a mesh vertex to its lattice edge: two coordinates
// bit-equal to lattice values, the third strictly between two consecutive ones.
func locateVertex(v C3, xs, ys, zs []float64) (edgeKey, string) {
	arr := v.Array()
	lat := [3][]float64{xs, ys, zs}
	var idx [3]int
	between := -1
	for a := 0; a < 3; a++ {
		i, exact := searchSorted(lat[a], arr[a])
		if exact {
			idx[a] = i
			continue
		}
		if i < 0 || i >= len(lat[a])-1 {
			return edgeKey{}, fmt.Sprintf("vertex %v is outside the sampling lattice", v)
		}
		if between >= 0 {
			return edgeKey{}, fmt.Sprintf("vertex %v is off-lattice in two coordinates (not on a lattice edge)", v)
		}
		between = a
		idx[a] = i
	}
	if between < 0 {
		return edgeKey{}, fmt.Sprintf("vertex %v coincides with a lattice point", v)
	}
	return edgeKey{between, idx[0], idx[1], idx[2]}, ""
}

func witness(s *fsolid, extra map[string]interface{}) map[string]interface{} {
	w := map[string]interface{}{"solid": s.desc, "min": fmt.Sprintf("%x %x %x", s.min.X, s.min.Y, s.min.Z), "max": fmt.Sprintf("%x %x %x", s.max.X, s.max.Y, s.max.Z)}
	for k, v := range extra {
		w[k] = v
	}
	return w
}

// checkMarching applies clauses 1-4 to one marching-cubes result.
func checkMarching(c *vlib.Case, api string, s *fsolid, delta float64, iters int, mesh *model3d.Mesh, interior *model3d.CoordMap[C3], dyadicScale float64) {
	xs, ys, zs := model3d.VerifMarchingLattice(s, delta)
	wit := witness(s, map[string]interface{}{"delta": fmt.Sprintf("%x", delta), "iters": iters, "api": api})
	c.Count("mc.meshes", 1)
	tris := vlib.Tris(mesh)
	nx, ny, nz := len(xs), len(ys), len(zs)
	vals := make([]bool, nx*ny*nz)
	at := func(i, j, k int) bool { return vals[(k*ny+j)*nx+i] }
	anyTrue := false
	for k := 0; k < nz; k++ {
		for j := 0; j < ny; j++ {
			for i := 0; i < nx; i++ {
				v := s.Contains(model3d.XYZ(xs[i], ys[j], zs[k]))
				vals[(k*ny+j)*nx+i] = v
				anyTrue = anyTrue || v
			}
		}
	}
	// clause 2: vertex placement
	perEdge := map[edgeKey][]C3{}
	for _, v := range mesh.VertexSlice() {
		e, why := locateVertex(v, xs, ys, zs)
		if why != "" {
			c.Violation(api+"/vertex-on-lattice-edge", why, wit)
			return
		}
		perEdge[e] = append(perEdge[e], v)
	}
	lat := [3][]float64{xs, ys, zs}
	dims := [3]int{nx, ny, nz}
	signChanging := 0
	for axis := 0; axis < 3; axis++ {
		for k := 0; k < nz; k++ {
			for j := 0; j < ny; j++ {
				for i := 0; i < nx; i++ {
					idx := [3]int{i, j, k}
					if idx[axis]+1 >= dims[axis] {
						continue
					}
					idx2 := idx
					idx2[axis]++
					a, b := at(idx[0], idx[1], idx[2]), at(idx2[0], idx2[1], idx2[2])
					vs := perEdge[edgeKey{axis, i, j, k}]
					if a != b {
						signChanging++
						if len(vs) != 1 {
							c.Violation(api+"/one-vertex-per-sign-changing-edge", fmt.Sprintf("lattice edge axis=%d at (%d,%d,%d) has differently classified ends but carries %d mesh vertices", axis, i, j, k, len(vs)), wit)
							return
						}
						// clause 3: within spacing/2^iters of a real transition on that edge
						v := vs[0]
						lo, hi := lat[axis][idx[axis]], lat[axis][idx2[axis]]
						h := (hi - lo) / math.Pow(2, float64(iters+1))
						arr := v.Array()
						// many iterations: no window narrower than the floating-point spacing at the
						// vertex itself (which is much finer near coordinate 0 than at the edge's ends)
						if u := math.Nextafter(math.Abs(arr[axis]), math.Inf(1)) - math.Abs(arr[axis]); h < 2*u {
							h = 2 * u
						}
						probe := func(off float64) bool {
							q := arr
							q[axis] += off
							if q[axis] < lo {
								q[axis] = lo
							} else if q[axis] > hi {
								q[axis] = hi
							}
							return s.Contains(model3d.NewCoord3DArray(q))
						}
						c.Count("mc.search_brackets_checked", 1)
						if probe(-h) == probe(h) {
							// the library's own bracket (v +- spacing/2^(iters+1)) shows no flip; the
							// property allows any transition within spacing/2^iters: scan that window
							found := false
							prev := probe(-2 * h)
							for q := 1; q <= 512 && !found; q++ {
								cur := probe(-2*h + 4*h*float64(q)/512)
								found = cur != prev
								prev = cur
							}
							c.Count("mc.search_brackets_via_scan", 1)
							if !found {
								c.Violation(api+"/refined-vertex-near-transition", fmt.Sprintf("vertex %v after %d iterations: Contains does not change anywhere within spacing/2^%d of it along its lattice edge (axis %d, edge [%x,%x])", v, iters, iters, axis, lo, hi), wit)
								return
							}
						}
						if interior != nil {
							ip, ok := interior.Load(v)
							if !ok {
								c.Violation(api+"/interior-point-per-vertex", fmt.Sprintf("no interior point recorded for vertex %v", v), wit)
								return
							}
							c.Count("mc.interior_points", 1)
							if !s.Contains(ip) {
								c.Violation(api+"/interior-point-contained", fmt.Sprintf("interior point %v of vertex %v is not contained in the solid", ip, v), wit)
								return
							}
							ia := ip.Array()
							for q := 0; q < 3; q++ {
								if q != axis && ia[q] != arr[q] {
									c.Violation(api+"/interior-point-on-edge", fmt.Sprintf("interior point %v is not on the lattice edge of vertex %v", ip, v), wit)
									return
								}
							}
							if ia[axis] < lo || ia[axis] > hi {
								c.Violation(api+"/interior-point-on-edge", fmt.Sprintf("interior point %v lies outside the lattice edge [%g,%g] of vertex %v", ip, lo, hi, v), wit)
								return
							}
						}
					} else if len(vs) != 0 {
						c.Violation(api+"/no-vertex-on-uniform-edge", fmt.Sprintf("lattice edge axis=%d at (%d,%d,%d) has equally classified ends (%v) but carries %d mesh vertices", axis, i, j, k, a, len(vs)), wit)
						return
					}
				}
			}
		}
	}
	c.Count("mc.edges_with_vertex", int64(signChanging))
	if interior != nil && interior.Len() != len(perEdge) {
		c.Violation(api+"/interior-point-per-vertex", fmt.Sprintf("%d interior points for %d vertices", interior.Len(), len(perEdge)), wit)
	}
	if !anyTrue {
		if len(tris) != 0 {
			c.Violation(api+"/empty-solid", "no lattice point is contained but the mesh has faces", wit)
		}
		return
	}
	// clause 1: sample side by winding number
	topo := vlib.AnalyzeTris(tris)
	if !topo.ClosedOrientedManifold() {
		// C01's subject; the winding oracle needs a closed surface
		c.Undecided("mesh-not-closed(see C01)")
		return
	}
	var its [][3]vlib.I3
	exact := false
	if dyadicScale > 0 {
		its, exact = vlib.TrisToI3(tris, dyadicScale*math.Pow(2, float64(iters+1)))
	}
	step := 1
	if n := nx * ny * nz; n*len(tris) > 40_000_000 {
		step = n*len(tris)/40_000_000 + 1
	}
	cnt := 0
	for k := 0; k < nz; k++ {
		for j := 0; j < ny; j++ {
			for i := 0; i < nx; i++ {
				cnt++
				if cnt%step != 0 {
					continue
				}
				p := model3d.XYZ(xs[i], ys[j], zs[k])
				want := 0
				if at(i, j, k) {
					want = 1
				}
				var w int
				if exact {
					pi, ok := vlib.ToI3(p, dyadicScale*math.Pow(2, float64(iters+1)))
					if !ok {
						c.Undecided("lattice-point-not-dyadic")
						continue
					}
					var ok2 bool
					w, ok2 = vlib.Winding3(its, pi)
					if !ok2 {
						c.Violation(api+"/lattice-point-on-surface", fmt.Sprintf("lattice point %v lies on the mesh surface", p), wit)
						return
					}
				} else {
					var frac float64
					w, frac = vlib.WindingSolidAngle(tris, p)
					if frac > 0.01 {
						c.Undecided("winding-fractional")
						continue
					}
				}
				c.Count("mc.lattice_points_classified", 1)
				if w != want {
					c.Violation(api+"/sample-side", fmt.Sprintf("lattice point (%d,%d,%d)=%v: solid says contained=%v, winding number of the mesh there is %d", i, j, k, p, want == 1, w), wit)
					return
				}
			}
		}
	}
	if len(tris) >= 8 {
		c.Nontrivial(fmt.Sprint(api, s.desc, delta, iters))
	}
}

func marching3(r *vlib.Run) {
	r.Section("mc.csg", r.N(300, 10000), vlib.SectionOpts{}, func(c *vlib.Case) {
		rng := c.Rng
		var s *fsolid
		dyadic := 0.0
		var delta float64
		switch c.Index % 4 {
		case 0: // dyadic lattice (box on multiples of 1/8, spacing a multiple of 1/16): exact arithmetic
			s = snapBox(csg(rng, 3, 1), 8)
			delta = []float64{0.125, 0.0625, 0.1875, 0.25}[rng.Intn(4)]
			dyadic = 16
		case 1: // arbitrary floats, spacing does not divide the box
			s = csg(rng, 3, 1+rng.Float64())
			delta = 0.04 + 0.1*rng.Float64()
		case 2:
			delta = 0.05 + 0.1*rng.Float64()
			s = thinFeature(rng, delta)
		default:
			s = csg(rng, 4, 1)
			delta = 0.05 + 0.08*rng.Float64()
		}
		if dyadic == 0 && rng.Intn(2) == 0 {
			// the same shape in other units: every clause is relative to the spacing
			k := math.Pow(10, -9+15*rng.Float64())
			inner := s
			s = &fsolid{inner.min.Scale(k), inner.max.Scale(k), func(p C3) bool { return inner.Contains(p.Scale(1 / k)) }, fmt.Sprintf("scaled(%g,%s)", k, inner.desc)}
			delta *= k
			c.Count("mc.cases_in_other_units", 1)
		}
		iters := []int{0, 1, 2, 5, 8}[rng.Intn(5)]
		if dyadic > 0 && iters > 5 {
			iters = 5
		}
		c.Sample("csg-solid", 2, map[string]interface{}{"solid": s.desc, "delta": delta, "iters": iters})
		switch rng.Intn(4) {
		case 0:
			var mesh *model3d.Mesh
			if iters == 0 {
				mesh = model3d.MarchingCubes(s, delta)
			} else {
				mesh = model3d.MarchingCubesSearch(s, delta, iters)
			}
			checkMarching(c, "model3d.MarchingCubesSearch", s, delta, iters, mesh, nil, dyadic)
		case 1:
			mesh, in := model3d.MarchingCubesInterior(s, delta, iters)
			checkMarching(c, "model3d.MarchingCubesInterior", s, delta, iters, mesh, in, dyadic)
		case 2:
			// the filter owns the rectangle it is handed: it may use it as scratch space
			mesh := model3d.MarchingCubesSearchFilter(s, func(rc *model3d.Rect) bool {
				rc.MinVal, rc.MaxVal = rc.MaxVal.AddScalar(1e3), rc.MinVal.AddScalar(-1e3)
				return true
			}, delta, iters)
			checkMarching(c, "model3d.MarchingCubesSearchFilter", s, delta, iters, mesh, nil, dyadic)
		default:
			mesh, in := model3d.MarchingCubesInterior(s, delta, iters)
			checkMarching(c, "model3d.MarchingCubesInterior", s, delta, iters, mesh, in, dyadic)
		}
	})
	// bisection carried on for 40-110 iterations on a box cut by a plane extremely close to a
	// coordinate plane: on lattice edges that touch 0 the transition can be resolved far below the
	// floating-point spacing at the edge's other end
	r.Section("mc.deepsearch", r.N(40, 800), vlib.SectionOpts{}, func(c *vlib.Case) {
		rng := c.Rng
		ax := rng.Intn(3)
		t := math.Pow(10, -8-30*rng.Float64())
		if rng.Intn(3) == 0 {
			t = math.Ldexp(0.5+rng.Float64()/2, -20-rng.Intn(90))
		}
		if rng.Intn(2) == 0 {
			t = -t
		}
		below := rng.Intn(2) == 0
		// (the box's own faces are kept off the lattice planes)
		in := 0.8 + 0.13*rng.Float64()
		s := &fsolid{model3d.XYZ(-1, -1, -1), model3d.XYZ(1, 1, 1), func(p C3) bool {
			if math.Abs(p.X) > in || math.Abs(p.Y) > in || math.Abs(p.Z) > in {
				return false
			}
			if below {
				return p.Array()[ax] <= t
			}
			return p.Array()[ax] >= t
		}, fmt.Sprintf("cube[-%x,%x]^3 cut at axis %d %v %x", in, in, ax, below, t)}
		delta := []float64{0.5, 0.25, 0.4}[rng.Intn(3)]
		iters := 40 + rng.Intn(71)
		c.Count("mc.deepsearch.cases", 1)
		if rng.Intn(2) == 0 {
			checkMarching(c, "model3d.MarchingCubesSearch", s, delta, iters, model3d.MarchingCubesSearch(s, delta, iters), nil, 0)
		} else {
			mesh, in := model3d.MarchingCubesInterior(s, delta, iters)
			checkMarching(c, "model3d.MarchingCubesInterior", s, delta, iters, mesh, in, 0)
		}
	})
	// lattice bitmaps through the search/interior variants (exact)
	r.Section("mc.bitmaps", r.N(150, 6000), vlib.SectionOpts{}, func(c *vlib.Case) {
		rng := c.Rng
		n := [3]int{3 + rng.Intn(7), 3 + rng.Intn(7), 3 + rng.Intn(7)}
		b := vlib.NewBitSolid3(C3{}, 0.5, n[0], n[1], n[2])
		d := 0.1 + 0.8*rng.Float64()
		for i := range b.Bits {
			b.Bits[i] = rng.Float64() < d
		}
		s := &fsolid{b.Min(), b.Max(), b.Contains, "bitmap" + vlib.PatternString(b.Bits, n)}
		iters := rng.Intn(5)
		mesh, in := model3d.MarchingCubesInterior(s, 0.5, iters)
		checkMarching(c, "model3d.MarchingCubesInterior", s, 0.5, iters, mesh, in, 2)
	})
}
