package main

import (
	"fmt"
	"math"
	"math/rand"

	"github.com/unixpickle/model3d/model2d"
	"verif/vlib"
)

type C2 = model2d.Coord

type fsolid2 struct {
	min, max C2
	f        func(C2) bool
	desc     string
}

func (s *fsolid2) Min() C2 { return s.min }
func (s *fsolid2) Max() C2 { return s.max }
func (s *fsolid2) Contains(p C2) bool {
	if p.X < s.min.X || p.Y < s.min.Y || p.X > s.max.X || p.Y > s.max.Y {
		return false
	}
	return s.f(p)
}

func csg2(rng *rand.Rand, depth int) *fsolid2 {
	if depth == 0 || rng.Intn(3) == 0 {
		c := model2d.XY(rng.Float64()-0.5, rng.Float64()-0.5)
		switch rng.Intn(3) {
		case 0:
			r := 0.15 + 0.4*rng.Float64()
			return &fsolid2{c.Sub(model2d.XY(r, r)), c.Add(model2d.XY(r, r)), func(p C2) bool { return p.Dist(c) < r }, fmt.Sprintf("circle(%v,%g)", c, r)}
		case 1:
			mx := c.Add(model2d.XY(0.1+0.8*rng.Float64(), 0.1+0.8*rng.Float64()))
			return &fsolid2{c, mx, func(C2) bool { return true }, fmt.Sprintf("rect(%v,%v)", c, mx)}
		default:
			r := 0.3 + 0.3*rng.Float64()
			k := float64(2 + rng.Intn(5))
			a := 0.2 + 0.5*rng.Float64()
			return &fsolid2{c.Sub(model2d.XY(2*r, 2*r)), c.Add(model2d.XY(2*r, 2*r)), func(p C2) bool {
				d := p.Sub(c)
				return d.Norm() < r*(1+a*math.Sin(k*math.Atan2(d.Y, d.X)))
			}, fmt.Sprintf("star(%v,%g,%g,%g)", c, r, k, a)}
		}
	}
	a, b := csg2(rng, depth-1), csg2(rng, depth-1)
	switch rng.Intn(3) {
	case 0:
		return &fsolid2{a.min.Min(b.min), a.max.Max(b.max), func(p C2) bool { return a.Contains(p) || b.Contains(p) }, "(" + a.desc + "|" + b.desc + ")"}
	case 1:
		return &fsolid2{a.min, a.max, func(p C2) bool { return a.Contains(p) && !b.Contains(p) }, "(" + a.desc + "-" + b.desc + ")"}
	default:
		return &fsolid2{a.min, a.max, func(p C2) bool { return a.Contains(p) && b.Contains(p) }, "(" + a.desc + "&" + b.desc + ")"}
	}
}

// windingAngle2 is the float winding number in the library's convention
// (+1 inside a loop whose normals (-dy,dx) point outward).
func windingAngle2(segs []vlib.Seg, p C2) (int, float64) {
	var total float64
	for _, s := range segs {
		a, b := s[0].Sub(p), s[1].Sub(p)
		total += math.Atan2(a.X*b.Y-a.Y*b.X, a.X*b.X+a.Y*b.Y)
	}
	w := -total / (2 * math.Pi)
	r := math.Round(w)
	return int(r), math.Abs(w - r)
}

type edgeKey2 struct{ axis, i, j int }

func checkMarching2(c *vlib.Case, api string, s *fsolid2, delta float64, iters int, mesh *model2d.Mesh, dyadicScale float64) {
	xs, ys := model2d.VerifMarchingLattice(s, delta)
	wit := map[string]interface{}{"solid": s.desc, "min": fmt.Sprintf("%x %x", s.min.X, s.min.Y), "max": fmt.Sprintf("%x %x", s.max.X, s.max.Y), "delta": fmt.Sprintf("%x", delta), "iters": iters}
	c.Count("ms.meshes", 1)
	nx, ny := len(xs), len(ys)
	vals := make([]bool, nx*ny)
	anyTrue := false
	for j := 0; j < ny; j++ {
		for i := 0; i < nx; i++ {
			vals[j*nx+i] = s.Contains(model2d.XY(xs[i], ys[j]))
			anyTrue = anyTrue || vals[j*nx+i]
		}
	}
	perEdge := map[edgeKey2][]C2{}
	for _, v := range mesh.VertexSlice() {
		ix, ex := searchSorted(xs, v.X)
		iy, ey := searchSorted(ys, v.Y)
		switch {
		case ex && !ey && iy >= 0 && iy < ny-1:
			perEdge[edgeKey2{1, ix, iy}] = append(perEdge[edgeKey2{1, ix, iy}], v)
		case ey && !ex && ix >= 0 && ix < nx-1:
			perEdge[edgeKey2{0, ix, iy}] = append(perEdge[edgeKey2{0, ix, iy}], v)
		default:
			c.Violation(api+"/vertex-on-lattice-edge", fmt.Sprintf("vertex %v is not on exactly one lattice edge", v), wit)
			return
		}
	}
	lat := [2][]float64{xs, ys}
	for axis := 0; axis < 2; axis++ {
		for j := 0; j < ny; j++ {
			for i := 0; i < nx; i++ {
				i2, j2 := i, j
				if axis == 0 {
					i2++
				} else {
					j2++
				}
				if i2 >= nx || j2 >= ny {
					continue
				}
				a, b := vals[j*nx+i], vals[j2*nx+i2]
				vs := perEdge[edgeKey2{axis, i, j}]
				if a != b {
					c.Count("ms.edges_with_vertex", 1)
					if len(vs) != 1 {
						c.Violation(api+"/one-vertex-per-sign-changing-edge", fmt.Sprintf("lattice edge axis=%d at (%d,%d) has differently classified ends but carries %d vertices", axis, i, j, len(vs)), wit)
						return
					}
					v := vs[0]
					idx := [2]int{i, j}
					lo, hi := lat[axis][idx[axis]], lat[axis][idx[axis]+1]
					h := (hi - lo) / math.Pow(2, float64(iters+1))
					arr := v.Array()
					probe := func(off float64) bool {
						q := arr
						q[axis] = math.Max(lo, math.Min(hi, q[axis]+off))
						return s.Contains(model2d.NewCoordArray(q))
					}
					if probe(-h) == probe(h) {
						found := false
						prev := probe(-2 * h)
						for q := 1; q <= 512 && !found; q++ {
							cur := probe(-2*h + 4*h*float64(q)/512)
							found = cur != prev
							prev = cur
						}
						if !found {
							c.Violation(api+"/refined-vertex-near-transition", fmt.Sprintf("vertex %v after %d iterations: Contains does not change within spacing/2^%d of it along its lattice edge", v, iters, iters), wit)
							return
						}
					}
				} else if len(vs) != 0 {
					c.Violation(api+"/no-vertex-on-uniform-edge", fmt.Sprintf("lattice edge axis=%d at (%d,%d) has equally classified ends but carries %d vertices", axis, i, j, len(vs)), wit)
					return
				}
			}
		}
	}
	segs := vlib.Segs(mesh)
	if !anyTrue {
		if len(segs) != 0 {
			c.Violation(api+"/empty-solid", "no lattice point is contained but the mesh has segments", wit)
		}
		return
	}
	if !vlib.AnalyzeSegs(segs).ClosedOrientedManifold() {
		c.Undecided("mesh-not-closed(see C01)")
		return
	}
	var is [][2]vlib.I2
	exact := false
	if dyadicScale > 0 {
		is, exact = vlib.SegsToI2(segs, dyadicScale*math.Pow(2, float64(iters+1)))
	}
	for j := 0; j < ny; j++ {
		for i := 0; i < nx; i++ {
			p := model2d.XY(xs[i], ys[j])
			want := 0
			if vals[j*nx+i] {
				want = 1
			}
			var w int
			if exact {
				pi, ok := vlib.ToI2(p, dyadicScale*math.Pow(2, float64(iters+1)))
				if !ok {
					continue
				}
				var ok2 bool
				w, ok2 = vlib.Winding2(is, pi)
				if !ok2 {
					c.Violation(api+"/lattice-point-on-surface", fmt.Sprintf("lattice point %v lies on the outline", p), wit)
					return
				}
			} else {
				var frac float64
				w, frac = windingAngle2(segs, p)
				if frac > 0.01 {
					c.Undecided("winding-fractional")
					continue
				}
			}
			c.Count("ms.lattice_points_classified", 1)
			if w != want {
				c.Violation(api+"/sample-side", fmt.Sprintf("lattice point (%d,%d)=%v: solid says contained=%v, winding number of the outline there is %d", i, j, p, want == 1, w), wit)
				return
			}
		}
	}
	if len(segs) >= 6 {
		c.Nontrivial(fmt.Sprint(api, s.desc, delta, iters))
	}
}

func marching2(r *vlib.Run) {
	r.Section("ms.csg", r.N(800, 30000), vlib.SectionOpts{}, func(c *vlib.Case) {
		rng := c.Rng
		s := csg2(rng, 3)
		var delta, dyadic float64
		if c.Index%2 == 0 {
			q := 8.0
			s = &fsolid2{model2d.XY(math.Floor(s.min.X*q)/q, math.Floor(s.min.Y*q)/q), model2d.XY(math.Ceil(s.max.X*q)/q, math.Ceil(s.max.Y*q)/q), s.Contains, "snap(" + s.desc + ")"}
			delta = []float64{0.125, 0.0625, 0.03125, 0.1875}[rng.Intn(4)]
			dyadic = 32
		} else {
			delta = 0.02 + 0.1*rng.Float64()
			if rng.Intn(2) == 0 {
				// the same shape in other units (nanometres to kilometres): every clause is relative
				// to the spacing, nothing in the contract is absolute
				k := math.Pow(10, -9+15*rng.Float64())
				inner := s
				s = &fsolid2{inner.min.Scale(k), inner.max.Scale(k), func(p C2) bool { return inner.Contains(p.Scale(1 / k)) }, fmt.Sprintf("scaled(%g,%s)", k, inner.desc)}
				delta *= k
				c.Count("ms.cases_in_other_units", 1)
			}
		}
		iters := []int{0, 1, 2, 5, 8}[rng.Intn(5)]
		if dyadic > 0 && iters > 5 {
			iters = 5
		}
		var mesh *model2d.Mesh
		api := "model2d.MarchingSquaresSearch"
		switch rng.Intn(3) {
		case 0:
			mesh = model2d.MarchingSquaresSearch(s, delta, iters)
		case 1:
			api = "model2d.MarchingSquaresSearchFilter"
			// a conservative filter that works in its own frame: it shifts the rectangle it was
			// handed in place before looking at it (the rectangle is the callback's to use)
			lo, hi := s.Min(), s.Max()
			mesh = model2d.MarchingSquaresSearchFilter(s, func(rc *model2d.Rect) bool {
				rc.MinVal, rc.MaxVal = rc.MinVal.Sub(lo), rc.MaxVal.Sub(lo)
				ext := hi.Sub(lo)
				return rc.MaxVal.X >= -delta && rc.MaxVal.Y >= -delta && rc.MinVal.X <= ext.X+delta && rc.MinVal.Y <= ext.Y+delta
			}, delta, iters)
		default:
			if iters == 0 {
				mesh = model2d.MarchingSquares(s, delta)
			} else {
				mesh = model2d.MarchingSquaresSearch(s, delta, iters)
			}
		}
		checkMarching2(c, api, s, delta, iters, mesh, dyadic)
		c.Sample("ms-case", 1, map[string]interface{}{"solid": s.desc, "delta": delta, "iters": iters})
	})
}
