package main

import (
	"fmt"
	"math"
	"math/rand"

	"github.com/unixpickle/model3d/model3d"
)

type C3 = model3d.Coord3D

// fsolid is the harness's own deterministic solid: an explicit box and a
// membership function; Contains is false outside the box by construction, so
// the Solid contract holds whatever the function does.
type fsolid struct {
	min, max C3
	f        func(C3) bool
	desc     string
}

func (s *fsolid) Min() C3 { return s.min }
func (s *fsolid) Max() C3 { return s.max }
func (s *fsolid) Contains(p C3) bool {
	if p.X < s.min.X || p.Y < s.min.Y || p.Z < s.min.Z || p.X > s.max.X || p.Y > s.max.Y || p.Z > s.max.Z {
		return false
	}
	return s.f(p)
}

func randUnit(rng *rand.Rand) C3 {
	for {
		v := model3d.XYZ(rng.NormFloat64(), rng.NormFloat64(), rng.NormFloat64())
		if n := v.Norm(); n > 1e-3 {
			return v.Scale(1 / n)
		}
	}
}

func sphere(c C3, r float64) *fsolid {
	return &fsolid{c.AddScalar(-r), c.AddScalar(r), func(p C3) bool { return p.Dist(c) < r }, fmt.Sprintf("sphere(%v,%g)", c, r)}
}

func box(min, max C3) *fsolid {
	return &fsolid{min, max, func(p C3) bool { return true }, fmt.Sprintf("box(%v,%v)", min, max)}
}

func cylinder(p1, p2 C3, r float64) *fsolid {
	axis := p2.Sub(p1)
	l := axis.Norm()
	axis = axis.Scale(1 / l)
	mn := p1.Min(p2).AddScalar(-r)
	mx := p1.Max(p2).AddScalar(r)
	return &fsolid{mn, mx, func(p C3) bool {
		v := p.Sub(p1)
		t := v.Dot(axis)
		if t < 0 || t > l {
			return false
		}
		return v.Sub(axis.Scale(t)).Norm() < r
	}, fmt.Sprintf("cylinder(%v,%v,%g)", p1, p2, r)}
}

func capsule(p1, p2 C3, r float64) *fsolid {
	axis := p2.Sub(p1)
	l2 := axis.Dot(axis)
	return &fsolid{p1.Min(p2).AddScalar(-r), p1.Max(p2).AddScalar(r), func(p C3) bool {
		t := p.Sub(p1).Dot(axis) / l2
		t = math.Max(0, math.Min(1, t))
		return p.Dist(p1.Add(axis.Scale(t))) < r
	}, fmt.Sprintf("capsule(%v,%v,%g)", p1, p2, r)}
}

func torus(c, axis C3, inner, outer float64) *fsolid {
	return &fsolid{c.AddScalar(-(inner + outer)), c.AddScalar(inner + outer), func(p C3) bool {
		v := p.Sub(c)
		h := v.Dot(axis)
		rad := v.Sub(axis.Scale(h)).Norm()
		return math.Hypot(rad-outer, h) < inner
	}, fmt.Sprintf("torus(%v,%v,%g,%g)", c, axis, inner, outer)}
}

func union(a, b *fsolid) *fsolid {
	return &fsolid{a.min.Min(b.min), a.max.Max(b.max), func(p C3) bool { return a.Contains(p) || b.Contains(p) }, "(" + a.desc + " | " + b.desc + ")"}
}
func intersect(a, b *fsolid) *fsolid {
	return &fsolid{a.min, a.max, func(p C3) bool { return a.Contains(p) && b.Contains(p) }, "(" + a.desc + " & " + b.desc + ")"}
}
func subtract(a, b *fsolid) *fsolid {
	return &fsolid{a.min, a.max, func(p C3) bool { return a.Contains(p) && !b.Contains(p) }, "(" + a.desc + " - " + b.desc + ")"}
}

// rotated returns s rotated about a point (membership by the inverse map).
func rotated(s *fsolid, axis C3, angle float64, about C3) *fsolid {
	fw := model3d.Rotation(axis, angle)
	bw := model3d.Rotation(axis, -angle)
	var mn, mx C3
	for i := 0; i < 8; i++ {
		c := s.min
		if i&1 != 0 {
			c.X = s.max.X
		}
		if i&2 != 0 {
			c.Y = s.max.Y
		}
		if i&4 != 0 {
			c.Z = s.max.Z
		}
		q := fw.Apply(c.Sub(about)).Add(about)
		if i == 0 {
			mn, mx = q, q
		} else {
			mn, mx = mn.Min(q), mx.Max(q)
		}
	}
	pad := mx.Sub(mn).Norm() * 1e-9
	return &fsolid{mn.AddScalar(-pad), mx.AddScalar(pad), func(p C3) bool {
		return s.Contains(bw.Apply(p.Sub(about)).Add(about))
	}, fmt.Sprintf("rot(%s,%v,%g)", s.desc, axis, angle)}
}

func primitive(rng *rand.Rand, size float64) *fsolid {
	c := model3d.XYZ(rng.Float64()-0.5, rng.Float64()-0.5, rng.Float64()-0.5).Scale(size)
	switch rng.Intn(5) {
	case 0:
		return sphere(c, size*(0.15+0.35*rng.Float64()))
	case 1:
		return box(c, c.Add(model3d.XYZ(0.1+rng.Float64(), 0.1+rng.Float64(), 0.1+rng.Float64()).Scale(size*0.6)))
	case 2:
		return cylinder(c, c.Add(randUnit(rng).Scale(size*(0.2+0.6*rng.Float64()))), size*(0.08+0.25*rng.Float64()))
	case 3:
		return capsule(c, c.Add(randUnit(rng).Scale(size*(0.2+0.6*rng.Float64()))), size*(0.08+0.2*rng.Float64()))
	default:
		o := size * (0.2 + 0.3*rng.Float64())
		return torus(c, randUnit(rng), o*(0.15+0.5*rng.Float64()), o)
	}
}

func csg(rng *rand.Rand, depth int, size float64) *fsolid {
	if depth == 0 || rng.Intn(4) == 0 {
		return primitive(rng, size)
	}
	a := csg(rng, depth-1, size)
	switch rng.Intn(6) {
	case 0, 1:
		return union(a, csg(rng, depth-1, size))
	case 2:
		return intersect(a, csg(rng, depth-1, size))
	case 3, 4:
		return subtract(a, csg(rng, depth-1, size))
	default:
		return rotated(a, randUnit(rng), rng.Float64()*6, a.min.Mid(a.max))
	}
}

// snapBox replaces the bounds by an enclosing box on the dyadic grid 1/q so
// that, with a dyadic spacing, the library's lattice is exact.
func snapBox(s *fsolid, q float64) *fsolid {
	mn := model3d.XYZ(math.Floor(s.min.X*q)/q, math.Floor(s.min.Y*q)/q, math.Floor(s.min.Z*q)/q)
	mx := model3d.XYZ(math.Ceil(s.max.X*q)/q, math.Ceil(s.max.Y*q)/q, math.Ceil(s.max.Z*q)/q)
	inner := s
	return &fsolid{mn, mx, inner.Contains, "snap(" + s.desc + ")"}
}

// thinFeature builds slabs and needles whose thickness is just above or just
// below one spacing, and surfaces passing within 1e-9 of lattice points.
func thinFeature(rng *rand.Rand, delta float64) *fsolid {
	switch rng.Intn(4) {
	case 0: // slab
		t := delta * (0.9 + 0.2*rng.Float64())
		o := rng.Float64() * delta
		return box(model3d.XYZ(0, 0, o), model3d.XYZ(1, 1, o+t))
	case 1: // needle
		t := delta * (0.9 + 0.3*rng.Float64())
		o := rng.Float64() * delta
		return box(model3d.XYZ(o, o, 0), model3d.XYZ(o+t, o+t, 1))
	case 2: // sphere whose surface passes within 1e-9 of lattice points
		k := float64(2 + rng.Intn(4))
		eps := (rng.Float64()*2 - 1) * 1e-9
		b := sphere(model3d.XYZ(0, 0, 0), k*delta+eps)
		b.min = model3d.XYZ(-k*delta-delta, -k*delta-delta, -k*delta-delta) // lattice through the centre
		b.max = b.min.Scale(-1)
		return b
	default: // thin diagonal plate
		n := randUnit(rng)
		t := delta * (0.6 + 0.8*rng.Float64())
		b := box(model3d.XYZ(-1, -1, -1), model3d.XYZ(1, 1, 1))
		b.f = func(p C3) bool { return math.Abs(p.Dot(n)) < t && p.Norm() < 0.9 }
		b.desc = fmt.Sprintf("plate(%v,%g)", n, t)
		return b
	}
}
