package main

// The package-level dual-contouring shortcuts: DualContour and
// DualContourInterior must give exactly what the configurable DualContouring
// value gives for the same four options, and DualContourSDF must be a field
// whose sign is the solid's own membership and whose magnitude is the distance
// to the dual-contoured surface, with bounds enclosing both.

import (
	"fmt"
	"math"
	"math/rand"
	"sort"

	"github.com/unixpickle/model3d/model3d"
	"verif/vlib"
)

// sameSurface: the surface estimator probes normals in random directions drawn from the global
// source by concurrently running workers, so two runs agree only up to that noise: the same
// number of faces and vertices, and every vertex has a partner within a quarter of the spacing
// (an ill-conditioned vertex placement amplifies the 1e-7 noise of the normals: 6% of the
// spacing was seen in the thorough tier).
func sameSurface(a, b *model3d.Mesh, delta float64) string {
	if a.NumTriangles() != b.NumTriangles() {
		return fmt.Sprintf("%d faces vs %d", a.NumTriangles(), b.NumTriangles())
	}
	va, vb := a.VertexSlice(), b.VertexSlice()
	if len(va) != len(vb) {
		return fmt.Sprintf("%d vertices vs %d", len(va), len(vb))
	}
	if len(va) == 0 {
		return ""
	}
	ta, tb := model3d.NewCoordTree(va), model3d.NewCoordTree(vb)
	for _, p := range va {
		if d := tb.NearestNeighbor(p).Dist(p); d > 0.25*delta {
			return fmt.Sprintf("vertex %v has no partner within a quarter of the spacing (nearest is %g away)", p, d)
		}
	}
	for _, p := range vb {
		if d := ta.NearestNeighbor(p).Dist(p); d > 0.25*delta {
			return fmt.Sprintf("vertex %v has no partner within a quarter of the spacing (nearest is %g away)", p, d)
		}
	}
	return ""
}

func dcShortcuts(r *vlib.Run) {
	r.Section("dc.shortcuts", r.N(60, 1500), vlib.SectionOpts{Sequential: true}, func(c *vlib.Case) {
		rng := c.Rng
		delta := 0.08 + 0.1*rng.Float64()
		var s *fsolid
		if rng.Intn(2) == 0 {
			s = csg(rng, 2, 1)
		} else {
			s = thinFeature(rng, delta)
		}
		repair, clip := rng.Intn(2) == 0, rng.Intn(2) == 0
		wit := witness(s, map[string]interface{}{"delta": fmt.Sprintf("%x", delta), "repair": repair, "clip": clip})
		ref := &model3d.DualContouring{S: model3d.SolidSurfaceEstimator{Solid: s}, Delta: delta, Repair: repair, Clip: clip}
		// the surface estimator draws its normal probes from the global math/rand source: the two
		// sides of each comparison start from the same state of it (cases run one at a time)
		gseed := rng.Int63()
		rand.Seed(gseed)
		want, wantInt := ref.MeshInterior()
		rand.Seed(gseed)
		got := model3d.DualContour(s, delta, repair, clip)
		c.Count("dc.shortcuts.comparisons", 1)
		if why := sameSurface(want, got, delta); why != "" {
			c.Violation("model3d.DualContour/equals-configured-value", "DualContour(s, delta, repair, clip) differs from DualContouring{...}.Mesh() with the same options: "+why, wit)
			return
		}
		rand.Seed(gseed)
		got2, gotInt := model3d.DualContourInterior(s, delta, repair, clip)
		if why := sameSurface(want, got2, delta); why != "" {
			c.Violation("model3d.DualContourInterior/equals-configured-value", "mesh differs from DualContouring{...}.MeshInterior(): "+why, wit)
			return
		}
		key := func(p model3d.Coord3D) string { return fmt.Sprintf("%x %x %x", p.X, p.Y, p.Z) }
		a, b := make([]string, len(wantInt)), make([]string, len(gotInt))
		for i, p := range wantInt {
			a[i] = key(p)
		}
		for i, p := range gotInt {
			b[i] = key(p)
		}
		sort.Strings(a)
		sort.Strings(b)
		if fmt.Sprint(a) != fmt.Sprint(b) {
			c.Violation("model3d.DualContourInterior/equals-configured-value", fmt.Sprintf("interior points differ: %d vs %d", len(gotInt), len(wantInt)), wit)
			return
		}
		for _, p := range gotInt {
			if !s.Contains(p) {
				c.Violation("model3d.DualContourInterior/interior-point-contained", fmt.Sprintf("interior point %v is not contained in the solid", p), wit)
				return
			}
		}
		// the field built on the unrepaired, unclipped surface
		rand.Seed(gseed)
		plain := model3d.DualContour(s, delta, false, false)
		if plain.NumTriangles() == 0 {
			c.Undecided("dc.shortcuts.empty-surface")
			return
		}
		rand.Seed(gseed)
		sdf := model3d.DualContourSDF(s, delta)
		tris := vlib.Tris(plain)
		mn, mx := sdf.Min(), sdf.Max()
		lo, hi := s.Min().Min(plain.Min()), s.Max().Max(plain.Max())
		if mn.X > lo.X || mn.Y > lo.Y || mn.Z > lo.Z || mx.X < hi.X || mx.Y < hi.Y || mx.Z < hi.Z {
			c.Violation("model3d.DualContourSDF/bounds", fmt.Sprintf("bounds %v..%v do not enclose the solid and its surface %v..%v", mn, mx, lo, hi), wit)
			return
		}
		size := hi.Dist(lo)
		for k := 0; k < 60; k++ {
			p := lo.Add(model3d.XYZ(rng.Float64()*(hi.X-lo.X), rng.Float64()*(hi.Y-lo.Y), rng.Float64()*(hi.Z-lo.Z)))
			if k%6 == 0 {
				p = lo.Mid(hi).Add(model3d.XYZ(rng.NormFloat64(), rng.NormFloat64(), rng.NormFloat64()).Scale(size))
			}
			d := vlib.MinDistToTris(p, tris)
			v := sdf.SDF(p)
			c.Count("dc.shortcuts.sdf_points", 1)
			if math.Abs(math.Abs(v)-d) > 1e-8*(size+d) {
				wit["point"] = fmt.Sprintf("%x %x %x", p.X, p.Y, p.Z)
				c.Violation("model3d.DualContourSDF/distance-to-surface", fmt.Sprintf("|SDF(%v)| = %g, the distance to the dual-contoured surface is %g", p, math.Abs(v), d), wit)
				return
			}
			if d > 1e-9*size && (v > 0) != s.Contains(p) {
				wit["point"] = fmt.Sprintf("%x %x %x", p.X, p.Y, p.Z)
				c.Violation("model3d.DualContourSDF/sign-is-membership", fmt.Sprintf("SDF(%v) = %g but Contains = %v", p, v, s.Contains(p)), wit)
				return
			}
		}
		c.Nontrivial(fmt.Sprintf("dcs|%x|%v|%v|%d", delta, repair, clip, want.NumTriangles()))
	})
}
