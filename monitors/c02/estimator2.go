package main

// The 2D surface estimator (bisection along a segment) and the normal
// estimators of both dimensions (bisection of a tangent wedge; random probes)
// on shapes whose surface point and outward normal are known in closed form,
// in unit and in other scales (the probe radius is a parameter of the
// estimator and is set in proportion to the shape).

import (
	"fmt"
	"math"

	"github.com/unixpickle/model3d/model2d"
	"github.com/unixpickle/model3d/model3d"
	"verif/vlib"
)

func estimator2d(r *vlib.Run) {
	r.Section("estimator2d", r.N(3000, 100000), vlib.SectionOpts{}, func(c *vlib.Case) {
		rng := c.Rng
		s := csg2(rng, 2)
		est := &model2d.SolidSurfaceEstimator{Solid: s}
		if rng.Intn(2) == 0 {
			est.BisectCount = 1 + rng.Intn(40)
		}
		n := est.BisectCount
		if n == 0 {
			n = model2d.DefaultSurfaceEstimatorBisectCount
		}
		for try := 0; try < 30; try++ {
			p1 := s.min.Add(model2d.XY(rng.Float64(), rng.Float64()).Mul(s.max.Sub(s.min)))
			p2 := s.min.Add(model2d.XY(rng.Float64(), rng.Float64()).Mul(s.max.Sub(s.min)))
			if s.Contains(p1) == s.Contains(p2) {
				continue
			}
			wit := map[string]interface{}{"solid": s.desc, "p1": fmt.Sprintf("%x %x", p1.X, p1.Y), "p2": fmt.Sprintf("%x %x", p2.X, p2.Y), "bisect_count": est.BisectCount}
			in := est.BisectInterior(p1, p2)
			c.Count("estimator2d.BisectInterior", 1)
			if !s.Contains(in) {
				c.Violation("model2d.SolidSurfaceEstimator.BisectInterior/contained", fmt.Sprintf("BisectInterior returned %v, which the solid does not contain", in), wit)
				return
			}
			// the documented orientation for the range functions: p1 outside, p2 inside
			o, i := p1, p2
			if s.Contains(o) {
				o, i = i, o
			}
			lo, hi := est.BisectInterpRange(o, i, 0, 1)
			d := i.Sub(o)
			c.Count("estimator2d.BisectInterpRange", 1)
			if !(lo >= 0 && hi <= 1 && lo < hi) || math.Abs((hi-lo)-math.Pow(0.5, float64(n))) > 1e-12*math.Pow(0.5, float64(n))+1e-300 ||
				!s.Contains(o.Add(d.Scale(hi))) || (lo > 0 && s.Contains(o.Add(d.Scale(lo)))) {
				c.Violation("model2d.SolidSurfaceEstimator.BisectInterpRange/bracket", fmt.Sprintf("range [%g,%g] after %d halvings: must have width 2^-%d, a contained upper end and an excluded lower end", lo, hi, n, n), wit)
				return
			}
			if a := est.BisectInterp(o, i, 0, 1); a != (lo+hi)/2 {
				c.Violation("model2d.SolidSurfaceEstimator.BisectInterp/midpoint-of-range", fmt.Sprintf("BisectInterp=%g, range [%g,%g]", a, lo, hi), wit)
				return
			}
			b := est.Bisect(p1, p2)
			c.Count("estimator2d.Bisect", 1)
			want := o.Add(d.Scale((lo + hi) / 2))
			if b.Dist(want) > 1e-12*(1+d.Norm()) {
				c.Violation("model2d.SolidSurfaceEstimator.Bisect/midpoint-of-bracket", fmt.Sprintf("Bisect returned %v, the midpoint of the bracket is %v", b, want), wit)
				return
			}
			c.Nontrivial(fmt.Sprint("est2", s.desc, p1, p2))
			return
		}
	})

	r.Section("estimator.normals", r.N(1500, 40000), vlib.SectionOpts{}, func(c *vlib.Case) {
		rng := c.Rng
		scale := 1.0
		if rng.Intn(2) == 0 {
			scale = math.Pow(10, float64(rng.Intn(9)-4))
		}
		rad := scale * (0.3 + 1.7*rng.Float64())
		es := rng.Intn(3) == 0
		tol := 5e-3
		if es {
			tol = 0.2
		}
		if c.Index%2 == 0 {
			ctr := model3d.XYZ(rng.NormFloat64(), rng.NormFloat64(), rng.NormFloat64()).Scale(scale)
			box := rng.Intn(3) == 0
			var sol model3d.Solid = &model3d.Sphere{Center: ctr, Radius: rad}
			if box {
				sol = model3d.NewRect(ctr.Sub(model3d.XYZ(rad, rad, rad)), ctr.Add(model3d.XYZ(rad, rad, rad)))
			}
			est := &model3d.SolidSurfaceEstimator{Solid: sol, RandomSearchNormals: es}
			if scale != 1 || rng.Intn(2) == 0 {
				est.NormalBisectEpsilon = 1e-4 * rad
				est.NormalNoiseEpsilon = 1e-4 * rad
			}
			if es {
				est.NormalSamples = 2000
			}
			dir := vlib.RandUnit3(rng)
			want := dir
			var inside, outside model3d.Coord3D
			if box {
				// a point in the middle part of a face
				ax := rng.Intn(3)
				sg := float64(2*rng.Intn(2) - 1)
				var w, off [3]float64
				w[ax] = sg
				for k := range off {
					if k != ax {
						off[k] = (rng.Float64()*2 - 1) * 0.7 * rad
					}
				}
				want = model3d.NewCoord3DArray(w)
				base := ctr.Add(model3d.NewCoord3DArray(off))
				inside, outside = base.Add(want.Scale(0.5*rad)), base.Add(want.Scale(1.5*rad))
			} else {
				inside, outside = ctr.Add(dir.Scale(0.5*rad)), ctr.Add(dir.Scale(1.5*rad))
			}
			p := est.Bisect(inside, outside)
			got := est.Normal(p)
			c.Count("estimator.normals.3d", 1)
			ang := math.Acos(math.Max(-1, math.Min(1, got.Dot(want))))
			if math.Abs(got.Norm()-1) > 1e-9 || !(ang <= tol) {
				c.Violation(fmt.Sprintf("model3d.SolidSurfaceEstimator.Normal/outward-normal(random-search=%v)", es), fmt.Sprintf("estimated normal %v (length %g) is %g rad from the outward normal %v (tolerance %g)", got, got.Norm(), ang, want, tol),
					map[string]interface{}{"box": box, "center": ctr, "radius": rad, "point": p, "scale": scale, "probe_radius": est.NormalBisectEpsilon})
				return
			}
		} else {
			ctr := model2d.XY(rng.NormFloat64(), rng.NormFloat64()).Scale(scale)
			box := rng.Intn(3) == 0
			var sol model2d.Solid = &model2d.Circle{Center: ctr, Radius: rad}
			if box {
				sol = model2d.NewRect(ctr.Sub(model2d.XY(rad, rad)), ctr.Add(model2d.XY(rad, rad)))
			}
			est := &model2d.SolidSurfaceEstimator{Solid: sol, RandomSearchNormals: es}
			if scale != 1 || rng.Intn(2) == 0 {
				est.NormalBisectEpsilon = 1e-4 * rad
				est.NormalNoiseEpsilon = 1e-4 * rad
			}
			if es {
				est.NormalSamples = 2000
			}
			th := rng.Float64() * 2 * math.Pi
			dir := model2d.XY(math.Cos(th), math.Sin(th))
			want := dir
			var inside, outside model2d.Coord
			if box {
				sg := float64(2*rng.Intn(2) - 1)
				off := (rng.Float64()*2 - 1) * 0.7 * rad
				if rng.Intn(2) == 0 {
					want = model2d.XY(sg, 0)
					inside, outside = ctr.Add(model2d.XY(sg*0.5*rad, off)), ctr.Add(model2d.XY(sg*1.5*rad, off))
				} else {
					want = model2d.XY(0, sg)
					inside, outside = ctr.Add(model2d.XY(off, sg*0.5*rad)), ctr.Add(model2d.XY(off, sg*1.5*rad))
				}
			} else {
				inside, outside = ctr.Add(dir.Scale(0.5*rad)), ctr.Add(dir.Scale(1.5*rad))
			}
			p := est.Bisect(inside, outside)
			got := est.Normal(p)
			c.Count("estimator.normals.2d", 1)
			ang := math.Acos(math.Max(-1, math.Min(1, got.Dot(want))))
			if math.Abs(got.Norm()-1) > 1e-9 || !(ang <= tol) {
				c.Violation(fmt.Sprintf("model2d.SolidSurfaceEstimator.Normal/outward-normal(random-search=%v)", es), fmt.Sprintf("estimated normal %v (length %g) is %g rad from the outward normal %v (tolerance %g)", got, got.Norm(), ang, want, tol),
					map[string]interface{}{"box": box, "center": ctr, "radius": rad, "point": p, "scale": scale, "probe_radius": est.NormalBisectEpsilon})
				return
			}
		}
		c.Nontrivial(fmt.Sprintf("estn|%d|%g|%g|%v", c.Index%2, scale, rad, es))
	})
}
