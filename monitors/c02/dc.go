package main

import (
	"fmt"
	"math"
	"sort"

	"github.com/unixpickle/model3d/model3d"
	"verif/vlib"
)

type crossing struct {
	count   int
	signed  int
	unclear bool
}

// edgeCrossings computes, for every lattice edge, how often the triangle soup
// crosses it and with which orientation, by projecting along the edge axis.
// Crossings whose decision is within rounding of a triangle edge or of a
// lattice point are flagged unclear.
func edgeCrossings(tris []vlib.Tri, lat [3][]float64, scale float64) map[edgeKey]*crossing {
	res := map[edgeKey]*crossing{}
	tol := 1e-11 * scale * scale
	for _, t := range tris {
		for axis := 0; axis < 3; axis++ {
			u, v := (axis+1)%3, (axis+2)%3
			a, b, c := t[0].Array(), t[1].Array(), t[2].Array()
			minU, maxU := math.Min(a[u], math.Min(b[u], c[u])), math.Max(a[u], math.Max(b[u], c[u]))
			minV, maxV := math.Min(a[v], math.Min(b[v], c[v])), math.Max(a[v], math.Max(b[v], c[v]))
			iu0 := sort.SearchFloat64s(lat[u], minU)
			iv0 := sort.SearchFloat64s(lat[v], minV)
			for iu := iu0; iu < len(lat[u]) && lat[u][iu] <= maxU; iu++ {
				for iv := iv0; iv < len(lat[v]) && lat[v][iv] <= maxV; iv++ {
					pu, pv := lat[u][iu], lat[v][iv]
					orient := func(p, q [3]float64) float64 {
						return (q[u]-p[u])*(pv-p[v]) - (q[v]-p[v])*(pu-p[u])
					}
					o1, o2, o3 := orient(a, b), orient(b, c), orient(c, a)
					area := o1 + o2 + o3 // twice the signed projected area = n[axis]
					if math.Abs(area) < tol {
						continue // triangle parallel to the axis: no transversal crossing
					}
					inside := (o1 > tol && o2 > tol && o3 > tol) || (o1 < -tol && o2 < -tol && o3 < -tol)
					outside := (o1 < -tol || o2 < -tol || o3 < -tol) && (o1 > tol || o2 > tol || o3 > tol)
					if !inside && outside {
						continue
					}
					// coordinate along the axis by barycentric interpolation
					w := (o2*a[axis] + o3*b[axis] + o1*c[axis]) / area
					i := sort.SearchFloat64s(lat[axis], w)
					if i <= 0 || i >= len(lat[axis]) {
						continue
					}
					idx := [3]int{}
					idx[axis], idx[u], idx[v] = i-1, iu, iv
					k := edgeKey{axis, idx[0], idx[1], idx[2]}
					cr := res[k]
					if cr == nil {
						cr = &crossing{}
						res[k] = cr
					}
					if !inside || math.Abs(w-lat[axis][i]) < 1e-9*scale || math.Abs(w-lat[axis][i-1]) < 1e-9*scale {
						cr.unclear = true
						continue
					}
					cr.count++
					if area > 0 {
						cr.signed++
					} else {
						cr.signed--
					}
				}
			}
		}
	}
	return res
}

func dualContour(r *vlib.Run) {
	r.Section("dc", r.N(240, 8000), vlib.SectionOpts{SeedGlobalRand: false}, func(c *vlib.Case) {
		rng := c.Rng
		var s *fsolid
		delta := 0.06 + 0.1*rng.Float64()
		switch c.Index % 3 {
		case 0:
			s = csg(rng, 3, 1)
		case 1:
			s = thinFeature(rng, delta)
		default:
			s = csg(rng, 2, 1+rng.Float64())
		}
		dc := &model3d.DualContouring{
			S:        model3d.SolidSurfaceEstimator{Solid: s},
			Delta:    delta,
			Clip:     true,
			Repair:   rng.Intn(4) == 0,
			NoJitter: rng.Intn(3) == 0,
			MaxGos:   []int{0, 1, 3}[rng.Intn(3)],
		}
		if rng.Intn(2) == 0 {
			dc.BufferSize = 1 + rng.Intn(20000) // small: forces several Shift()s
		}
		dc.TriangleMode = model3d.DualContouringTriangleMode(rng.Intn(3))
		if rng.Intn(3) == 0 {
			dc.CubeMargin = []float64{1e-4, 0.05, 0.2}[rng.Intn(3)]
		}
		if rng.Intn(4) == 0 {
			dc.SingularValueEpsilon = []float64{1e-3, 0.03, 0.3, 0.9}[rng.Intn(4)]
		}
		if dc.Repair && rng.Intn(2) == 0 {
			dc.RepairEpsilon = []float64{1e-4, 1e-3, 0.05}[rng.Intn(3)]
		}
		opts := map[string]interface{}{"delta": fmt.Sprintf("%x", delta), "repair": dc.Repair, "nojitter": dc.NoJitter, "maxgos": dc.MaxGos,
			"bufsize": dc.BufferSize, "trimode": int(dc.TriangleMode), "margin": dc.CubeMargin, "svd_eps": dc.SingularValueEpsilon, "repair_eps": dc.RepairEpsilon}
		wit := witness(s, opts)
		xs, ys, zs, bufRows := model3d.VerifDcLattice(s.min, s.max, delta, dc.NoJitter, dc.BufferSize)
		if len(zs) < 3 {
			return
		}
		if rng.Intn(3) == 0 {
			// the same DualContouring value has been used before with other options (an options struct is
			// naturally reused: toggle a flag, mesh again); the checked call must see only its own options
			final := *dc
			switch rng.Intn(4) {
			case 0:
				dc.NoJitter = !final.NoJitter
			case 1:
				dc.Delta = final.Delta * 1.37
			case 2:
				dc.BufferSize = 1 + rng.Intn(5000)
			default:
				dc.Clip, dc.TriangleMode = !final.Clip, (final.TriangleMode+1)%3
			}
			dc.Mesh()
			dc.NoJitter, dc.Delta, dc.BufferSize, dc.Clip, dc.TriangleMode = final.NoJitter, final.Delta, final.BufferSize, final.Clip, final.TriangleMode
			c.Count("dc.meshes_on_a_reused_options_value", 1)
		}
		mesh, interior := dc.MeshInterior()
		c.Count("dc.clip_meshes", 1)
		if bufRows < len(zs) {
			c.Count("dc.meshes_with_buffer_shifts", 1)
		}
		lat := [3][]float64{xs, ys, zs}
		nx, ny, nz := len(xs), len(ys), len(zs)
		vals := make([]bool, nx*ny*nz)
		at := func(i, j, k int) bool { return vals[(k*ny+j)*nx+i] }
		for k := 0; k < nz; k++ {
			for j := 0; j < ny; j++ {
				for i := 0; i < nx; i++ {
					vals[(k*ny+j)*nx+i] = s.Contains(model3d.XYZ(xs[i], ys[j], zs[k]))
				}
			}
		}
		// interior points: contained, and on an active lattice edge
		active := 0
		for axis := 0; axis < 3; axis++ {
			for k := 0; k < nz; k++ {
				for j := 0; j < ny; j++ {
					for i := 0; i < nx; i++ {
						idx := [3]int{i, j, k}
						idx[axis]++
						if idx[axis] < [3]int{nx, ny, nz}[axis] && at(i, j, k) != at(idx[0], idx[1], idx[2]) {
							active++
						}
					}
				}
			}
		}
		for _, ip := range interior {
			c.Count("dc.interior_points", 1)
			if !s.Contains(ip) {
				c.Violation("model3d.DualContouring.MeshInterior/interior-point-contained", fmt.Sprintf("interior point %v is not contained in the solid", ip), wit)
				return
			}
		}
		if len(interior) != active {
			c.Violation("model3d.DualContouring.MeshInterior/one-interior-point-per-active-edge", fmt.Sprintf("%d interior points for %d sign-changing lattice edges", len(interior), active), wit)
			return
		}
		tris := vlib.Tris(mesh)
		if !dc.Repair {
			// vertices stay inside their cells (with the margin)
			margin := dc.CubeMargin
			if margin == 0 {
				margin = model3d.DefaultDualContouringCubeMargin
			}
			m := margin * delta * (1 - 1e-9)
			for _, v := range mesh.VertexSlice() {
				arr := v.Array()
				for a := 0; a < 3; a++ {
					i, exact := searchSorted(lat[a], arr[a])
					if exact || i < 0 || i >= len(lat[a])-1 || arr[a] < lat[a][i]+m || arr[a] > lat[a][i+1]-m {
						c.Violation("model3d.DualContouring.Mesh/vertex-inside-cell", fmt.Sprintf("vertex %v is not inside a lattice cell shrunk by the margin %g (axis %d)", v, margin*delta, a), wit)
						return
					}
				}
				c.Count("dc.vertices_in_cell", 1)
			}
			// every lattice edge crossed exactly once iff its ends differ, normal from contained to excluded
			cross := edgeCrossings(tris, lat, s.max.Sub(s.min).Norm()+delta)
			dims := [3]int{nx, ny, nz}
			for axis := 0; axis < 3; axis++ {
				for k := 0; k < nz; k++ {
					for j := 0; j < ny; j++ {
						for i := 0; i < nx; i++ {
							idx := [3]int{i, j, k}
							idx[axis]++
							if idx[axis] >= dims[axis] {
								continue
							}
							a, b := at(i, j, k), at(idx[0], idx[1], idx[2])
							cr := cross[edgeKey{axis, i, j, k}]
							if cr == nil {
								cr = &crossing{}
							}
							if cr.unclear {
								c.Undecided("dc-crossing-near-degenerate")
								continue
							}
							if a != b {
								c.Count("dc.active_edges_checked", 1)
								want := 1
								if !a {
									want = -1
								}
								if cr.count != 1 || cr.signed != want {
									c.Violation("model3d.DualContouring.Mesh/active-edge-crossed-once", fmt.Sprintf("lattice edge axis=%d at (%d,%d,%d) (lower end contained=%v, upper %v) is crossed %d times, signed %d (want once, sign %d)", axis, i, j, k, a, b, cr.count, cr.signed, want), wit)
									return
								}
							} else {
								c.Count("dc.inactive_edges_checked", 1)
								if cr.count != 0 {
									c.Violation("model3d.DualContouring.Mesh/inactive-edge-not-crossed", fmt.Sprintf("lattice edge axis=%d at (%d,%d,%d) has equally classified ends (%v) but the surface crosses it %d times", axis, i, j, k, a, cr.count), wit)
									return
								}
							}
						}
					}
				}
			}
		} else {
			c.Count("dc.repair_meshes(interior-points-only)", 1)
		}
		if len(tris) >= 8 {
			c.Nontrivial(fmt.Sprint("dc", s.desc, opts))
		}
		c.Sample("dc-case", 2, wit)
	})
}

// estimator checks SolidSurfaceEstimator.Bisect/BisectInterior directly.
func estimator(r *vlib.Run) {
	r.Section("estimator", r.N(6000, 200000), vlib.SectionOpts{}, func(c *vlib.Case) {
		rng := c.Rng
		s := csg(rng, 2, 1)
		est := &model3d.SolidSurfaceEstimator{Solid: s}
		if rng.Intn(2) == 0 {
			est.BisectCount = 1 + rng.Intn(40)
		}
		// find a segment whose ends are classified differently
		for try := 0; try < 30; try++ {
			p1 := s.min.Add(model3d.XYZ(rng.Float64(), rng.Float64(), rng.Float64()).Mul(s.max.Sub(s.min)))
			p2 := s.min.Add(model3d.XYZ(rng.Float64(), rng.Float64(), rng.Float64()).Mul(s.max.Sub(s.min)))
			if s.Contains(p1) == s.Contains(p2) {
				continue
			}
			n := est.BisectCount
			if n == 0 {
				n = model3d.DefaultSurfaceEstimatorBisectCount
			}
			wit := witness(s, map[string]interface{}{"p1": p1, "p2": p2, "bisect_count": est.BisectCount})
			in := est.BisectInterior(p1, p2)
			c.Count("estimator.BisectInterior", 1)
			if !s.Contains(in) {
				c.Violation("model3d.SolidSurfaceEstimator.BisectInterior/contained", fmt.Sprintf("BisectInterior returned %v, which the solid does not contain", in), wit)
				return
			}
			b := est.Bisect(p1, p2)
			c.Count("estimator.Bisect", 1)
			// b is on the segment and within |p1p2|/2^n of a transition: Contains flips within that window
			d := p2.Sub(p1)
			t := b.Sub(p1).Dot(d) / d.Dot(d)
			if t < -1e-9 || t > 1+1e-9 || b.Dist(p1.Add(d.Scale(t))) > 1e-9*d.Norm() {
				c.Violation("model3d.SolidSurfaceEstimator.Bisect/on-segment", fmt.Sprintf("Bisect returned %v, not on the segment", b), wit)
				return
			}
			w := math.Pow(0.5, float64(n)) * 1.0001
			if w < 1e-12 {
				w = 1e-12
			}
			lo, hi := math.Max(0, t-w), math.Min(1, t+w)
			if s.Contains(p1.Add(d.Scale(lo))) == s.Contains(p1.Add(d.Scale(hi))) {
				found := false
				prev := s.Contains(p1.Add(d.Scale(lo)))
				for q := 1; q <= 256 && !found; q++ {
					cur := s.Contains(p1.Add(d.Scale(lo + (hi-lo)*float64(q)/256)))
					found = cur != prev
					prev = cur
				}
				if !found {
					c.Violation("model3d.SolidSurfaceEstimator.Bisect/near-transition", fmt.Sprintf("Bisect returned t=%g but Contains does not change within 2^-%d of it", t, n), wit)
					return
				}
			}
			c.Nontrivial(fmt.Sprint("est", s.desc, p1, p2))
			return
		}
	})
}
