package main

import (
	"fmt"
	"math"
	"math/rand"
	"os"
	"sort"

	"github.com/unixpickle/model3d/model3d"
	ref "verif/vlib/c07ref"
)

type V3 = ref.V3
type V2 = ref.V2

// normal oracle kinds
const (
	normExact  = iota // normal must equal the reference outward normal
	normInterp        // Phong-interpolated vertex normals (angle weighted)
	normApprox        // SolidCollider: randomised estimate, only roughly outward
)

// Margins (DESIGN C07 "General position / margin"), all relative to the size
// of the shape.
const (
	tolOnSurface = 1e-6 // |reference SDF| of a reported hit point
	tolOrigin    = 1e-6 // origin must be this far from the surface for count clauses
	tolTang      = 1e-3 // |d.n| of every reference hit for count clauses
	tolFeature   = 1e-6 // distance of every reference hit from edges/rims/apex
	tolSeparate  = 1e-6 // distance between consecutive reference hits
	shiftDelta   = 1e-6 // parallel shifts of the ray that must not change the reference count
	tolNormal    = 1e-4 // |n - n_ref|
	featNormal   = 1e-4 // hit must be this far from a crease to compare normals
	radNormal    = 1e-2 // and the surface's radius of curvature there at least this (a position error of tolOnSurface turns the normal by tolOnSurface/radNormal = tolNormal)
	tolTouch     = 1e-9 // ball tests: | |sdf| - r | relative
)

// subject3 is one collider under test together with its reference surface.
type subject3 struct {
	api    string // "model3d.Sphere", "model3d.TransformCollider[Scale]", ...
	coll   model3d.Collider
	ref    ref.Shape3
	normal int
	far    float64 // largest origin distance in multiples of the size
	vn     map[V3]V3
	mesh   *ref.Mesh // set for triangle colliders (interp normals, multi queries)
	// special directions of the shape (its axis, a generator line of a cone):
	// rays exactly along them reach the degenerate branches of the closed forms.
	axes []V3
	// approxEps > 0 marks an epsilon-marching SolidCollider.
	approxEps float64
	// innerExtra: RayCollision.Extra describes the wrapped collider's own
	// coordinate system (TransformCollider), so it is not interpreted.
	innerExtra bool
	// nilPanics is set once RayCollisions(r, nil) was seen to panic; calls
	// that pass a nil callback internally (ColliderContains) are then skipped
	// so that one defect does not hide the rest of the case.
	nilPanics bool
}

func hex3(v V3) string { return fmt.Sprintf("(%x,%x,%x)", v.X, v.Y, v.Z) }
func dec3(v V3) string { return fmt.Sprintf("(%.9g,%.9g,%.9g)", v.X, v.Y, v.Z) }

func (s *subject3) witness(o, d V3, extra map[string]interface{}) map[string]interface{} {
	w := map[string]interface{}{
		"collider": s.ref.Describe(), "api": s.api,
		"origin": hex3(o), "direction": hex3(d), "origin_dec": dec3(o), "direction_dec": dec3(d),
	}
	for k, v := range extra {
		w[k] = v
	}
	return w
}

func finite(x float64) bool { return !math.IsNaN(x) && !math.IsInf(x, 0) }

// shiftFrame3 is a fixed orthonormal frame in generic position (no symmetry
// with coordinate axes or diagonals): some +-shift along it moves the ray by at
// least delta/sqrt(3) towards any given surface normal.
var shiftFrame3 = func() [3]V3 {
	a := V3{0.3127, -0.7393, 0.5964}.Unit()
	u, v := ref.OrthoFrame(a)
	c, sn := math.Cos(0.7345), math.Sin(0.7345)
	return [3]V3{a, u.Scale(c).Add(v.Scale(sn)), v.Scale(c).Sub(u.Scale(sn))}
}()

var debugRef = os.Getenv("C07_DEBUG_REF") != ""

// judgement of one ray by the reference
type judged3 struct {
	hits    []ref.Hit
	sdfO    float64
	general bool   // count / parity / hit-set clauses may be decided
	reason  string // why not
}

func judge3(s ref.Shape3, o, d V3) judged3 {
	size := s.Size()
	j := judged3{hits: s.RayHits(o, d), sdfO: s.SDF(o)}
	ref.SortHits(j.hits)
	dn := d.Norm()
	fail := func(r string) judged3 { j.reason = r; return j }
	for _, h := range j.hits {
		if !(math.Abs(s.SDF(h.P)) <= 1e-8*size) || !h.P.Finite() {
			if debugRef {
				fmt.Printf("DEBUG inconsistent %s sdf=%g tang=%g feat=%g T=%g bary=%v size=%g |o-c|=%g\n", s.Name(), s.SDF(h.P), h.Tang, h.Feat, h.T, h.Bary, size, o.Dist(s.Center()))
			}
			return fail("reference-inconsistent:" + s.Name())
		}
	}
	if math.Abs(j.sdfO) < tolOrigin*size {
		return fail("origin-near-surface")
	}
	for i, h := range j.hits {
		if h.Tang < tolTang {
			return fail("tangent")
		}
		if h.Feat < tolFeature*size {
			return fail("near-edge-or-rim")
		}
		// A feature of size rho seen from a distance L is located by the closed-form intersections
		// to about eps*L^2/rho (cancellation in the discriminant): not decided when that is not
		// small against the feature itself.
		if L := o.Dist(h.P); 2.3e-16*L*L > 0.01*h.Feat*h.Feat {
			return fail("feature-too-small-for-its-distance")
		}
		if i > 0 && (h.T-j.hits[i-1].T)*dn < tolSeparate*size {
			return fail("coincident-hits")
		}
	}
	if s.Closed() && (len(j.hits)%2 == 1) != (j.sdfO > 0) {
		return fail("reference-parity-mismatch")
	}
	dl := shiftDelta * size
	for _, u := range shiftFrame3 {
		for _, sg := range [2]float64{dl, -dl} {
			if len(s.RayHits(o.Add(u.Scale(sg)), d)) != len(j.hits) {
				return fail("unstable-under-shift")
			}
		}
	}
	j.general = true
	return j
}

// countNil calls RayCollisions with a nil callback; a panic is reported, not
// propagated.
func countNil3(coll model3d.Collider, r *model3d.Ray) (n int, panicked interface{}) {
	defer func() {
		if e := recover(); e != nil {
			panicked = e
		}
	}()
	return coll.RayCollisions(r, nil), nil
}

func describeHits(got []model3d.RayCollision) []string {
	var res []string
	for _, g := range got {
		res = append(res, fmt.Sprintf("scale=%x(%.9g) normal=(%.9g,%.9g,%.9g)", g.Scale, g.Scale, g.Normal.X, g.Normal.Y, g.Normal.Z))
	}
	return res
}

func describeRef(hits []ref.Hit) []string {
	var res []string
	for _, h := range hits {
		res = append(res, fmt.Sprintf("t=%x(%.9g) n=%s tang=%.3g feat=%.3g", h.T, h.T, dec3(h.N), h.Tang, h.Feat))
	}
	return res
}

// checkRay3 checks every ray clause of the property for one ray.
func checkRay3(c *kase, s *subject3, o, d V3) {
	size := s.ref.Size()
	ray := &model3d.Ray{Origin: o.C3(), Direction: d.C3()}
	var got []model3d.RayCollision
	n1 := s.coll.RayCollisions(ray, func(rc model3d.RayCollision) { got = append(got, rc) })
	c.Count(s.api+".rays", 1)
	c.Count("clause.count_consistency", 1)
	key := func(method, clause string) string { return s.api + "." + method + "/" + clause }
	base := func() map[string]interface{} {
		return s.witness(o, d, map[string]interface{}{"returned": n1, "callbacks": describeHits(got)})
	}
	if n1 != len(got) {
		c.Violate(key("RayCollisions", "count-vs-callbacks"), base, "returned %d but made %d callbacks", n1, len(got))
	}
	n2, pan := countNil3(s.coll, ray)
	if pan != nil {
		s.nilPanics = true
		c.Violate(key("RayCollisions", "nil-callback-panic"), base, "RayCollisions(r, nil) panicked: %v (with a callback it returned %d)", pan, n1)
	} else if n2 != n1 && s.approxEps == 0 {
		c.Violate(key("RayCollisions", "count-nil-callback"), base, "count with nil callback %d != count with callback %d", n2, n1)
	} else if n2 != n1 {
		// SolidCollider is deterministic in its count too (normals are random, counts are not)
		c.Violate(key("RayCollisions", "count-nil-callback"), base, "count with nil callback %d != count with callback %d", n2, n1)
	}

	// The answer for a ray is a function of the collider and the ray only: a callback that casts
	// secondary rays at the same collider (the shadow-ray pattern) must not change what the outer
	// query reports.
	if len(got) > 0 && c.Rng.Intn(3) == 0 && pan == nil {
		var again []model3d.RayCollision
		n3 := s.coll.RayCollisions(ray, func(rc model3d.RayCollision) {
			again = append(again, rc)
			p := ray.Origin.Add(ray.Direction.Scale(rc.Scale))
			sec := &model3d.Ray{Origin: p.Add(rc.Normal.Scale(1e-3 * size)), Direction: model3d.XYZ(c.Rng.NormFloat64(), c.Rng.NormFloat64(), c.Rng.NormFloat64())}
			s.coll.FirstRayCollision(sec)
			s.coll.RayCollisions(sec, nil)
			s.coll.SphereCollision(p, 0.1*size)
		})
		c.Count("clause.reentrant_callback", 1)
		same := n3 == n1 && len(again) == len(got)
		for i := 0; same && i < len(got); i++ {
			same = again[i].Scale == got[i].Scale && (s.normal == normApprox || again[i].Normal == got[i].Normal)
		}
		if !same {
			w := base()
			w["with_secondary_queries"] = describeHits(again)
			c.Violationf(key("RayCollisions", "same-result-when-the-callback-queries-the-collider"), w, "the same ray reported %d hits, then %d different hits when the callback cast secondary rays at the same collider", n1, n3)
		}
	}

	dn := d.Norm()
	onTol := tolOnSurface * size
	if s.approxEps > 0 {
		onTol = s.approxEps * 1.001
	}
	minScale := math.Inf(1)
	for _, g := range got {
		c.Count("clause.scale_nonneg", 1)
		if !(g.Scale >= 0) || !finite(g.Scale) {
			c.Violate(key("RayCollisions", "scale-nonneg"), base, "collision with Scale=%g", g.Scale)
			continue
		}
		minScale = math.Min(minScale, g.Scale)
		p := o.Add(d.Scale(g.Scale))
		res := math.Abs(s.ref.SDF(p))
		c.Count("clause.on_surface", 1)
		c.Max("worst_on_surface_residual_rel."+s.api, res/size)
		if !(res <= onTol+1e-12*p.Dist(s.ref.Center())+farFeatureAllowance3(s.ref, o, d, g.Scale, size)) && !c.fired(key("RayCollisions", "on-surface")) {
			w := base()
			w["point"] = dec3(p)
			w["reference_sdf"] = s.ref.SDF(p)
			c.Violationf(key("RayCollisions", "on-surface"), w, "hit point o+%g*d is %g away from the surface (tolerance %g)", g.Scale, res, onTol)
		}
		nn := ref.From3(g.Normal).Norm()
		c.Count("clause.normal_unit", 1)
		if !(math.Abs(nn-1) <= 1e-6) {
			c.Violate(key("RayCollisions", "normal-unit"), base, "normal has length %g", nn)
		}
	}

	// FirstRayCollision
	first, ok := s.coll.FirstRayCollision(ray)
	c.Count("clause.first", 1)
	if ok != (n1 > 0) {
		w := base()
		w["first"] = fmt.Sprintf("scale=%g ok=%v", first.Scale, ok)
		c.Violationf(key("FirstRayCollision", "exists-iff-count"), w, "FirstRayCollision ok=%v but RayCollisions counted %d", ok, n1)
	} else if ok && len(got) == n1 && !math.IsInf(minScale, 1) {
		tol := 1e-9 * (math.Abs(minScale) + size/dn*1e-3)
		if s.approxEps > 0 {
			tol = s.approxEps / dn * 1e-6
		}
		if !(math.Abs(first.Scale-minScale) <= tol) {
			w := base()
			w["first_scale"] = first.Scale
			c.Violationf(key("FirstRayCollision", "min-scale"), w, "FirstRayCollision.Scale=%g but the smallest reported Scale is %g", first.Scale, minScale)
		} else if s.normal != normApprox {
			// the normal of the first hit must be the normal reported for that hit,
			// when that hit is isolated
			sorted := append([]model3d.RayCollision{}, got...)
			sort.Slice(sorted, func(i, k int) bool { return sorted[i].Scale < sorted[k].Scale })
			isolated := len(sorted) == 1 || (sorted[1].Scale-sorted[0].Scale)*dn > 1e-6*size
			if isolated && ref.From3(first.Normal).Dist(ref.From3(sorted[0].Normal)) > 1e-9 {
				w := base()
				w["first_normal"] = dec3(ref.From3(first.Normal))
				c.Violationf(key("FirstRayCollision", "same-normal"), w, "FirstRayCollision normal differs from the normal RayCollisions reports for the same hit")
			}
		}
	}

	// reference-based clauses
	if mp, L := minPart3(s.ref), o.Dist(s.ref.Center())+size; 2.3e-16*L*L > 0.01*mp*mp {
		c.Undecided("ray3:a-part-is-too-small-for-its-distance-from-the-origin")
		return
	}
	j := judge3(s.ref, o, d)
	if !j.general {
		c.Undecided("ray3:" + j.reason)
		return
	}
	if s.approxEps > 0 {
		checkApproxHits3(c, s, o, d, j, got, n1)
		return
	}
	c.Count(s.api+".rays_general", 1)
	c.Count("clause.hit_set", 1)
	if len(j.hits) >= 2 {
		c.Nontrivial(s.api + hex3(o) + hex3(d))
	}
	c.Count(s.api+".ref_hits", int64(len(j.hits)))
	wref := func() map[string]interface{} {
		w := base()
		w["reference_hits"] = describeRef(j.hits)
		w["reference_sdf_origin"] = j.sdfO
		return w
	}
	if n1 != len(j.hits) {
		c.Violate(key("RayCollisions", "hit-count"), wref, "reported %d collisions, the reference surface has %d (ray in general position)", n1, len(j.hits))
	}
	if s.ref.Closed() {
		c.Count("clause.parity", 1)
		c.Count(s.api+".parity_decided", 1)
		if (n1%2 == 1) != (j.sdfO > 0) {
			c.Violate(key("RayCollisions", "parity"), wref, "count %d but the origin is inside=%v (reference sdf %g)", n1, j.sdfO > 0, j.sdfO)
		}
	}
	if n1 != len(j.hits) || len(got) != n1 {
		return
	}
	sorted := append([]model3d.RayCollision{}, got...)
	sort.Slice(sorted, func(i, k int) bool { return sorted[i].Scale < sorted[k].Scale })
	for i, h := range j.hits {
		g := sorted[i]
		tolT := tolOnSurface * size / h.Tang * 2
		if !(math.Abs(g.Scale-h.T)*dn <= tolT) {
			c.Violate(key("RayCollisions", "hit-set"), wref, "hit %d: Scale %g, reference %g (distance along ray %g)", i, g.Scale, h.T, math.Abs(g.Scale-h.T)*dn)
			return
		}
		if h.Feat < featNormal*size || h.Rad < radNormal*size {
			continue
		}
		if i > 0 && (h.T-j.hits[i-1].T)*dn < 10*tolT || i+1 < len(j.hits) && (j.hits[i+1].T-h.T)*dn < 10*tolT {
			continue
		}
		want := h.N
		switch s.normal {
		case normInterp:
			t := s.mesh.Tris[h.Face]
			var acc V3
			for k := 0; k < 3; k++ {
				acc = acc.Add(s.vn[t[k]].Scale(h.Bary[k]))
			}
			want = acc.Unit()
			if h.Feat < 1e-3*size {
				continue
			}
		}
		c.Count("clause.normal_outward", 1)
		c.Count(s.api+".normals_compared", 1)
		gn := ref.From3(g.Normal)
		c.Max("worst_normal_error."+s.api, gn.Dist(want))
		if !(gn.Dist(want) <= tolNormal) && !c.fired(key("RayCollisions", "normal-outward")) {
			w := wref()
			w["expected_normal"] = dec3(want)
			w["got_normal"] = dec3(gn)
			w["hit_point"] = dec3(h.P)
			c.Violationf(key("RayCollisions", "normal-outward"), w, "hit %d at Scale %g: normal %s, reference outward normal %s (|diff|=%g, dot=%g)", i, g.Scale, dec3(gn), dec3(want), gn.Dist(want), gn.Dot(want))
		}
		if tc, ok := g.Extra.(*model3d.TriangleCollision); ok && tc != nil && tc.Triangle != nil && !s.innerExtra {
			c.Count("clause.barycentric", 1)
			bp := ref.From3(tc.Triangle.AtBarycentric(tc.Barycentric))
			if bp.Dist(h.P) > 1e-6*size {
				c.Violate(key("RayCollisions", "barycentric"), wref, "TriangleCollision barycentric point %s is %g from the hit point", dec3(bp), bp.Dist(h.P))
			}
		}
	}
}

// ---------------------------------------------------------------------------
// ball queries

func checkBall3(c *kase, s *subject3, ctr V3, r float64) {
	size := s.ref.Size()
	sd := s.ref.SDF(ctr)
	c.Count(s.api+".balls", 1)
	got := s.coll.SphereCollision(ctr.C3(), r)
	want := math.Abs(sd) <= r
	margin := math.Abs(math.Abs(sd) - r)
	// also relative to the magnitude of the coordinates themselves: a micrometre-sized shape a few
	// units away from the coordinate origin is only known to 1e-16 of those units
	if margin <= tolTouch*(size+r+ctr.Dist(s.ref.Center()))+1e-13*(ctr.Norm()+s.ref.Center().Norm()) {
		c.Undecided("ball3:near-touching")
		return
	}
	c.Count("clause.ball", 1)
	c.Count(s.api+".balls_decided", 1)
	if want {
		c.Count(s.api+".balls_touching", 1)
	}
	if got != want {
		c.Violationf(s.api+".SphereCollision/touching", map[string]interface{}{
			"collider": s.ref.Describe(), "center": hex3(ctr), "center_dec": dec3(ctr), "radius": fmt.Sprintf("%x (%.9g)", r, r),
			"reference_sdf": sd, "margin": margin,
		}, "SphereCollision=%v but the distance from the centre to the surface is %g and r=%g", got, math.Abs(sd), r)
	}
}

// ---------------------------------------------------------------------------
// ColliderContains / ColliderSolid

var containsDir = V3{0.5224892708603626, 0.10494477243214506, 0.43558938446126527}

func checkContains3(c *kase, s *subject3, p V3, m float64) {
	if !s.ref.Closed() {
		return
	}
	if s.nilPanics {
		c.Undecided("contains3:collider-panics-on-nil-callback")
		return
	}
	if _, pan := countNil3(s.coll, &model3d.Ray{Origin: p.C3(), Direction: containsDir.C3()}); pan != nil {
		s.nilPanics = true
		c.Violationf(s.api+".RayCollisions/nil-callback-panic", s.witness(p, containsDir, nil), "RayCollisions(r, nil) panicked: %v", pan)
		return
	}
	size := s.ref.Size()
	j := judge3(s.ref, p, containsDir)
	if !j.general {
		c.Undecided("contains3:" + j.reason)
		return
	}
	sd := j.sdfO
	if math.Abs(sd-m) <= 1e-7*size || math.Abs(math.Abs(sd)-math.Abs(m)) <= 1e-7*size {
		c.Undecided("contains3:near-margin")
		return
	}
	c.Count("clause.contains", 1)
	c.Count(s.api+".contains_decided", 1)
	w := func(mm float64) map[string]interface{} {
		return map[string]interface{}{"collider": s.ref.Describe(), "point": hex3(p), "point_dec": dec3(p), "margin": mm, "reference_sdf": sd}
	}
	// margin 0, +m, -m
	for _, mm := range []float64{0, m, -m} {
		want := sd > mm
		got := model3d.ColliderContains(s.coll, p.C3(), mm)
		clause := "margin-zero"
		if mm > 0 {
			clause = "margin-positive"
		} else if mm < 0 {
			clause = "margin-negative"
		}
		c.Count("contains."+clause, 1)
		if got != want {
			c.Violationf("model3d.ColliderContains["+s.api+"]/"+clause, w(mm), "ColliderContains(p, %g)=%v, reference sdf(p)=%g", mm, got, sd)
		}
	}
	// solids built on the collider
	cp := p.C3()
	if got := model3d.NewColliderSolid(s.coll).Contains(cp); got != (sd > 0) {
		c.Violationf("model3d.ColliderSolid["+s.api+"]/plain", w(0), "NewColliderSolid.Contains=%v, reference sdf=%g", got, sd)
	}
	am := math.Abs(m)
	if am > 0 {
		if got := model3d.NewColliderSolidInset(s.coll, am).Contains(cp); got != (sd > am) {
			c.Violationf("model3d.ColliderSolid["+s.api+"]/inset", w(am), "NewColliderSolidInset(%g).Contains=%v, reference sdf=%g", am, got, sd)
		}
		if got := model3d.NewColliderSolidInset(s.coll, -am).Contains(cp); got != (sd > -am) {
			c.Violationf("model3d.ColliderSolid["+s.api+"]/outset", w(-am), "NewColliderSolidInset(%g).Contains=%v, reference sdf=%g", -am, got, sd)
		}
		if got := model3d.NewColliderSolidHollow(s.coll, am).Contains(cp); got != (math.Abs(sd) < am) {
			c.Violationf("model3d.ColliderSolid["+s.api+"]/hollow", w(am), "NewColliderSolidHollow(%g).Contains=%v, reference |sdf|=%g", am, got, math.Abs(sd))
		}
		c.Count("clause.collider_solid", 1)
	}
}

// ---------------------------------------------------------------------------
// workload generators shared by all 3D subjects

func randUnit3(rng *rand.Rand) V3 {
	for {
		v := V3{rng.NormFloat64(), rng.NormFloat64(), rng.NormFloat64()}
		if n := v.Norm(); n > 1e-3 {
			return v.Scale(1 / n)
		}
	}
}

func logUniform(rng *rand.Rand, lo, hi float64) float64 {
	return math.Pow(10, lo+rng.Float64()*(hi-lo))
}

// surfacePoint finds a point and normal on the reference surface by shooting a
// reference ray through the shape.
func surfacePoint3(rng *rand.Rand, s ref.Shape3) (ref.Hit, bool) {
	for try := 0; try < 8; try++ {
		o := s.Center().Add(randUnit3(rng).Scale(3 * s.Size()))
		tgt := s.Center().Add(randUnit3(rng).Scale(rng.Float64() * 0.7 * s.Size()))
		hits := s.RayHits(o, tgt.Sub(o))
		if len(hits) > 0 {
			return hits[rng.Intn(len(hits))], true
		}
	}
	return ref.Hit{}, false
}

func genRay3(rng *rand.Rand, s *subject3) (o, d V3) {
	sh := s.ref
	size, ctr := sh.Size(), sh.Center()
	switch rng.Intn(7) {
	case 0, 1: // inside the bounding ball (often inside the shape)
		o = ctr.Add(randUnit3(rng).Scale(size * math.Cbrt(rng.Float64())))
	case 2: // close to the surface, either side
		if h, ok := surfacePoint3(rng, sh); ok {
			off := size * logUniform(rng, -5, -1)
			if rng.Intn(2) == 0 {
				off = -off
			}
			o = h.P.Add(h.N.Scale(off))
		} else {
			o = ctr
		}
	case 3: // on the bounding box of the bounding ball
		a := randUnit3(rng).Arr()
		m := math.Max(math.Abs(a[0]), math.Max(math.Abs(a[1]), math.Abs(a[2])))
		o = ctr.Add(ref.Arr3(a).Scale(size / m))
	case 4: // outside, near
		o = ctr.Add(randUnit3(rng).Scale(size * (1.2 + 3*rng.Float64())))
	case 5: // far away
		o = ctr.Add(randUnit3(rng).Scale(size * logUniform(rng, 1, math.Log10(s.far))))
	default: // dyadic grid
		q := size / 4
		q = math.Pow(2, math.Round(math.Log2(q)))
		g := func(x float64) float64 { return math.Round(x/q)*q + float64(rng.Intn(9)-4)*q }
		o = V3{g(ctr.X), g(ctr.Y), g(ctr.Z)}
	}
	switch rng.Intn(9) {
	case 8: // shallow incidence: hit a surface point at an angle with sine 1e-3..0.3
		if h, ok := surfacePoint3(rng, sh); ok {
			u, v := ref.OrthoFrame(h.N)
			th := rng.Float64() * 2 * math.Pi
			tang := u.Scale(math.Cos(th)).Add(v.Scale(math.Sin(th)))
			sin := logUniform(rng, -3, -0.5)
			d = tang.Scale(math.Sqrt(1 - sin*sin)).Sub(h.N.Scale(sin))
			if rng.Intn(3) > 0 {
				o = h.P.Sub(d.Scale(size * logUniform(rng, -2, 0.7)))
			} else {
				d = h.P.Sub(o).Unit()
			}
		} else {
			d = randUnit3(rng)
		}
	case 0, 1, 2: // aimed at the shape
		tgt := ctr.Add(randUnit3(rng).Scale(size * 0.9 * rng.Float64()))
		d = tgt.Sub(o)
		if d.Norm() < 1e-9*size {
			d = randUnit3(rng)
		}
		d = d.Unit()
	case 3: // isotropic
		d = randUnit3(rng)
	case 4: // exactly axis aligned
		var a [3]float64
		a[rng.Intn(3)] = float64(2*rng.Intn(2) - 1)
		d = ref.Arr3(a)
	case 5: // one exactly zero component
		a := randUnit3(rng).Arr()
		a[rng.Intn(3)] = 0
		d = ref.Arr3(a)
		if d.Norm() == 0 {
			d = V3{1, 0, 0}
		}
		d = d.Unit()
	case 6: // grazing: pass a surface point tangentially with a small clearance
		if h, ok := surfacePoint3(rng, sh); ok {
			u, v := ref.OrthoFrame(h.N)
			th := rng.Float64() * 2 * math.Pi
			tang := u.Scale(math.Cos(th)).Add(v.Scale(math.Sin(th)))
			clr := size * logUniform(rng, -8, -1.5)
			if rng.Intn(2) == 0 {
				clr = -clr
			}
			through := h.P.Add(h.N.Scale(clr))
			if rng.Intn(2) == 0 {
				o = through.Sub(tang.Scale(size * (0.5 + 3*rng.Float64())))
			}
			d = through.Sub(o)
			if d.Norm() < 1e-9*size {
				d = tang
			}
			d = d.Unit()
		} else {
			d = randUnit3(rng)
		}
	default: // aimed exactly at the centre
		d = ctr.Sub(o)
		if d.Norm() < 1e-9*size {
			d = randUnit3(rng)
		}
		d = d.Unit()
	}
	if len(s.axes) > 0 && rng.Intn(10) == 0 {
		d = s.axes[rng.Intn(len(s.axes))]
		if rng.Intn(2) == 0 {
			d = d.Scale(-1)
		}
		if rng.Intn(2) == 0 { // almost, but not exactly, along the special direction
			d = d.Add(randUnit3(rng).Scale(d.Norm() * logUniform(rng, -12, -3)))
		}
		if rng.Intn(2) == 0 { // through the shape
			o = ctr.Add(randUnit3(rng).Scale(size * 0.5 * rng.Float64())).Sub(d.Unit().Scale(size * 3 * rng.Float64()))
		}
	}
	if rng.Intn(2) == 0 {
		d = d.Scale(logUniform(rng, -3, 3))
	} else if rng.Intn(6) == 0 {
		// very short or very long direction vectors: the ray parameter scales inversely
		d = d.Scale(logUniform(rng, -6, 6))
	}
	// zero components of either sign (a negated axis vector has -0 components; 1/-0 = -Inf)
	if rng.Intn(2) == 0 {
		nz := math.Copysign(0, -1)
		if d.X == 0 && rng.Intn(2) == 0 {
			d.X = nz
		}
		if d.Y == 0 && rng.Intn(2) == 0 {
			d.Y = nz
		}
		if d.Z == 0 && rng.Intn(2) == 0 {
			d.Z = nz
		}
	}
	return o, d
}

func genBall3(rng *rand.Rand, s *subject3) (V3, float64) {
	sh := s.ref
	size, ctr := sh.Size(), sh.Center()
	if s.mesh != nil && rng.Intn(3) == 0 {
		// centre near an edge or a vertex, radius close to the distance
		t := s.mesh.Tris[rng.Intn(len(s.mesh.Tris))]
		k := rng.Intn(3)
		u := rng.Float64()
		if rng.Intn(4) == 0 {
			u = 0
		}
		e := t[k].Add(t[(k+1)%3].Sub(t[k]).Scale(u))
		p := e.Add(randUnit3(rng).Scale(size * logUniform(rng, -3, 0)))
		dist := math.Abs(sh.SDF(p))
		r := dist * (1 + (rng.Float64()*2-1)*logUniform(rng, -6, -0.3))
		if r > 0 {
			return p, r
		}
	}
	switch rng.Intn(5) {
	case 0: // grid over an enlarged bounding box
		q := size / 2
		g := func(x float64) float64 { return x + float64(rng.Intn(9)-4)*q }
		return V3{g(ctr.X), g(ctr.Y), g(ctr.Z)}, size * logUniform(rng, -3, 1)
	case 1, 2: // near the surface, radius close to the distance
		if h, ok := surfacePoint3(rng, sh); ok {
			off := size * logUniform(rng, -4, 0)
			p := h.P.Add(h.N.Scale(off))
			if rng.Intn(2) == 0 {
				p = h.P.Sub(h.N.Scale(off))
			}
			dist := math.Abs(sh.SDF(p))
			r := dist * (1 + (rng.Float64()*2-1)*logUniform(rng, -6, -0.3))
			if r <= 0 {
				r = dist / 2
			}
			return p, r
		}
		fallthrough
	case 3:
		return ctr.Add(randUnit3(rng).Scale(size * 2 * rng.Float64())), size * logUniform(rng, -3, 1)
	default: // far centre, large radius
		p := ctr.Add(randUnit3(rng).Scale(size * (2 + 8*rng.Float64())))
		return p, p.Dist(ctr) + size*(rng.Float64()*3-1.5)
	}
}

func genPoint3(rng *rand.Rand, s *subject3) V3 {
	sh := s.ref
	size, ctr := sh.Size(), sh.Center()
	switch rng.Intn(4) {
	case 0:
		if h, ok := surfacePoint3(rng, sh); ok {
			off := size * logUniform(rng, -4, -0.5)
			if rng.Intn(2) == 0 {
				off = -off
			}
			return h.P.Add(h.N.Scale(off))
		}
		fallthrough
	case 1, 2:
		return ctr.Add(randUnit3(rng).Scale(size * math.Cbrt(rng.Float64())))
	default:
		return ctr.Add(randUnit3(rng).Scale(size * (1 + 2*rng.Float64())))
	}
}

// exercise3 runs the standard workload on one subject.
func exercise3(c *kase, s *subject3, rays, balls, points int) {
	rng := c.Rng
	for i := 0; i < rays; i++ {
		o, d := genRay3(rng, s)
		if rng.Intn(4) == 0 {
			abandonEnumeration3(c, s, rng)
		}
		checkRay3(c, s, o, d)
	}
	for i := 0; i < balls; i++ {
		p, r := genBall3(rng, s)
		if r > 0 && finite(r) {
			checkBall3(c, s, p, r)
		}
	}
	for i := 0; i < points; i++ {
		p := genPoint3(rng, s)
		m := s.ref.Size() * logUniform(rng, -3, -0.5)
		checkContains3(c, s, p, m)
	}
	c.Count(s.api+".instances", 1)
}

// farFeatureAllowance3: see farFeatureAllowance2.
func farFeatureAllowance3(sh ref.Shape3, o, d V3, scale, size float64) float64 {
	// the smallest part of the shape (a rounding error can even invent a hit on a part the exact
	// ray misses), or the feature of the nearest reference hit if that is smaller
	feat := minPart3(sh)
	for _, h := range sh.RayHits(o, d) {
		if h.Feat > 0 && h.Feat < feat && math.Abs(h.T-scale)*d.Norm() < size {
			feat = h.Feat
		}
	}
	if !(feat > 0) {
		return math.Inf(1)
	}
	L := d.Norm() * scale
	return 64 * 2.3e-16 * L * L / feat
}

// minPart3 is the size of the smallest constituent of a reference shape.
func minPart3(sh ref.Shape3) float64 {
	switch t := sh.(type) {
	case *ref.Union3:
		m := math.Inf(1)
		for _, p := range t.Parts {
			m = math.Min(m, minPart3(p))
		}
		return m
	case *ref.Similarity3:
		return t.S * minPart3(t.Inner)
	case *ref.Prism:
		return math.Min(minPart2(t.Base), (t.Z1-t.Z0)/2)
	case *ref.Capsule:
		return math.Min(t.Size(), t.R)
	case *ref.Cylinder:
		return math.Min(t.Size(), t.R)
	}
	return sh.Size()
}

type abandonSentinel struct{}

// abandonEnumeration3 starts an enumeration of collisions and leaves it from inside the callback
// (a panic that the caller recovers: the only way to stop RayCollisions early). What later
// queries answer is a function of the collider and the ray only, so the checks that follow
// must hold as if this call had never been made.
func abandonEnumeration3(c *kase, s *subject3, rng *rand.Rand) {
	o, d := genRay3(rng, s)
	after := rng.Intn(3)
	seen := 0
	func() {
		defer func() {
			if e := recover(); e != nil {
				if _, ok := e.(abandonSentinel); !ok {
					panic(e)
				}
				c.Count("history.enumerations_abandoned_from_the_callback", 1)
			}
		}()
		s.coll.RayCollisions(&model3d.Ray{Origin: o.C3(), Direction: d.C3()}, func(model3d.RayCollision) {
			if seen == after {
				panic(abandonSentinel{})
			}
			seen++
		})
	}()
}
