package main

import (
	"fmt"
	"math"
	"math/rand"
	"sort"

	"github.com/unixpickle/model3d/model2d"
	ref "verif/vlib/c07ref"
)

// subject2 is one 2D collider under test with its reference outline.
type subject2 struct {
	api   string
	short string
	coll  model2d.Collider
	ref   ref.Shape2
	far   float64
	segs  *ref.Segs2 // set for segment/mesh colliders (multi queries)
	// see subject3
	nilPanics bool
}

func hex2(v V2) string { return fmt.Sprintf("(%x,%x)", v.X, v.Y) }
func dec2(v V2) string { return fmt.Sprintf("(%.9g,%.9g)", v.X, v.Y) }

type judged2 struct {
	hits    []ref.Hit2
	sdfO    float64
	general bool
	reason  string
}

func judge2(s ref.Shape2, o, d V2) judged2 {
	size := s.Size()
	j := judged2{hits: s.RayHits(o, d), sdfO: s.SDF(o)}
	ref.SortHits2(j.hits)
	dn := d.Norm()
	fail := func(r string) judged2 { j.reason = r; return j }
	for _, h := range j.hits {
		if !(math.Abs(s.SDF(h.P)) <= 1e-8*size) || !h.P.Finite() {
			return fail("reference-inconsistent")
		}
	}
	if math.Abs(j.sdfO) < tolOrigin*size {
		return fail("origin-near-surface")
	}
	for i, h := range j.hits {
		if h.Tang < tolTang {
			return fail("tangent")
		}
		if h.Feat < tolFeature*size {
			return fail("near-vertex")
		}
		// see judge3: eps*L^2/rho must be small against the feature
		if L := o.Dist(h.P); 2.3e-16*L*L > 0.01*h.Feat*h.Feat {
			return fail("feature-too-small-for-its-distance")
		}
		if i > 0 && (h.T-j.hits[i-1].T)*dn < tolSeparate*size {
			return fail("coincident-hits")
		}
	}
	if s.Closed() && (len(j.hits)%2 == 1) != (j.sdfO > 0) {
		return fail("reference-parity-mismatch")
	}
	dl := shiftDelta * size
	for _, sh := range [4]V2{{0.8011 * dl, 0.5985 * dl}, {-0.8011 * dl, -0.5985 * dl}, {-0.5985 * dl, 0.8011 * dl}, {0.5985 * dl, -0.8011 * dl}} {
		if len(s.RayHits(o.Add(sh), d)) != len(j.hits) {
			return fail("unstable-under-shift")
		}
	}
	j.general = true
	return j
}

func countNil2(coll model2d.Collider, r *model2d.Ray) (n int, panicked interface{}) {
	defer func() {
		if e := recover(); e != nil {
			panicked = e
		}
	}()
	return coll.RayCollisions(r, nil), nil
}

func describeHits2(got []model2d.RayCollision) []string {
	var res []string
	for _, g := range got {
		res = append(res, fmt.Sprintf("scale=%x(%.9g) normal=(%.9g,%.9g)", g.Scale, g.Scale, g.Normal.X, g.Normal.Y))
	}
	return res
}

func describeRef2(hits []ref.Hit2) []string {
	var res []string
	for _, h := range hits {
		res = append(res, fmt.Sprintf("t=%x(%.9g) n=%s tang=%.3g feat=%.3g", h.T, h.T, dec2(h.N), h.Tang, h.Feat))
	}
	return res
}

func checkRay2(c *kase, s *subject2, o, d V2) {
	size := s.ref.Size()
	ray := &model2d.Ray{Origin: o.C2(), Direction: d.C2()}
	var got []model2d.RayCollision
	n1 := s.coll.RayCollisions(ray, func(rc model2d.RayCollision) { got = append(got, rc) })
	c.Count(s.api+".rays", 1)
	c.Count("clause.count_consistency", 1)
	key := func(method, clause string) string { return s.api + "." + method + "/" + clause }
	base := func() map[string]interface{} {
		return map[string]interface{}{"collider": s.ref.Describe(), "api": s.api, "origin": hex2(o), "direction": hex2(d),
			"origin_dec": dec2(o), "direction_dec": dec2(d), "returned": n1, "callbacks": describeHits2(got)}
	}
	if n1 != len(got) {
		c.Violate(key("RayCollisions", "count-vs-callbacks"), base, "returned %d but made %d callbacks", n1, len(got))
	}
	n2, pan := countNil2(s.coll, ray)
	if pan != nil {
		s.nilPanics = true
		c.Violate(key("RayCollisions", "nil-callback-panic"), base, "RayCollisions(r, nil) panicked: %v (with a callback it returned %d)", pan, n1)
	} else if n2 != n1 {
		c.Violate(key("RayCollisions", "count-nil-callback"), base, "count with nil callback %d != count with callback %d", n2, n1)
	}
	// as in 3D: secondary queries made from inside the callback must not change the outer answer
	if len(got) > 0 && c.Rng.Intn(3) == 0 && pan == nil {
		size := s.ref.Size()
		var again []model2d.RayCollision
		n3 := s.coll.RayCollisions(ray, func(rc model2d.RayCollision) {
			again = append(again, rc)
			p := ray.Origin.Add(ray.Direction.Scale(rc.Scale))
			sec := &model2d.Ray{Origin: p.Add(rc.Normal.Scale(1e-3 * size)), Direction: model2d.XY(c.Rng.NormFloat64(), c.Rng.NormFloat64())}
			s.coll.FirstRayCollision(sec)
			s.coll.RayCollisions(sec, nil)
			s.coll.CircleCollision(p, 0.1*size)
		})
		c.Count("clause.reentrant_callback", 1)
		same := n3 == n1 && len(again) == len(got)
		for i := 0; same && i < len(got); i++ {
			same = again[i].Scale == got[i].Scale && again[i].Normal == got[i].Normal
		}
		if !same {
			w := base()
			w["with_secondary_queries"] = describeHits2(again)
			c.Violationf(key("RayCollisions", "same-result-when-the-callback-queries-the-collider"), w, "the same ray reported %d hits, then %d different hits when the callback cast secondary rays at the same collider", n1, n3)
		}
	}
	dn := d.Norm()
	minScale := math.Inf(1)
	for _, g := range got {
		c.Count("clause.scale_nonneg", 1)
		if !(g.Scale >= 0) || !finite(g.Scale) {
			c.Violate(key("RayCollisions", "scale-nonneg"), base, "collision with Scale=%g", g.Scale)
			continue
		}
		minScale = math.Min(minScale, g.Scale)
		p := o.Add(d.Scale(g.Scale))
		res := math.Abs(s.ref.SDF(p))
		c.Count("clause.on_surface", 1)
		c.Max("worst_on_surface_residual_rel."+s.api, res/size)
		if !(res <= tolOnSurface*size+1e-12*p.Dist(s.ref.Center())+farFeatureAllowance2(s.ref, o, d, g.Scale, size)) && !c.fired(key("RayCollisions", "on-surface")) {
			w := base()
			w["point"] = dec2(p)
			c.Violationf(key("RayCollisions", "on-surface"), w, "hit point o+%g*d is %g away from the outline (tolerance %g)", g.Scale, res, tolOnSurface*size)
		}
		nn := ref.From2(g.Normal).Norm()
		c.Count("clause.normal_unit", 1)
		if !(math.Abs(nn-1) <= 1e-6) {
			c.Violate(key("RayCollisions", "normal-unit"), base, "normal has length %g", nn)
		}
	}
	first, ok := s.coll.FirstRayCollision(ray)
	c.Count("clause.first", 1)
	if ok != (n1 > 0) {
		w := base()
		w["first"] = fmt.Sprintf("scale=%g ok=%v", first.Scale, ok)
		c.Violationf(key("FirstRayCollision", "exists-iff-count"), w, "FirstRayCollision ok=%v but RayCollisions counted %d", ok, n1)
	} else if ok && len(got) == n1 && !math.IsInf(minScale, 1) {
		if !(math.Abs(first.Scale-minScale) <= 1e-9*(math.Abs(minScale)+size/dn*1e-3)) {
			w := base()
			w["first_scale"] = first.Scale
			c.Violationf(key("FirstRayCollision", "min-scale"), w, "FirstRayCollision.Scale=%g but the smallest reported Scale is %g", first.Scale, minScale)
		} else {
			sorted := append([]model2d.RayCollision{}, got...)
			sort.Slice(sorted, func(i, k int) bool { return sorted[i].Scale < sorted[k].Scale })
			isolated := len(sorted) == 1 || (sorted[1].Scale-sorted[0].Scale)*dn > 1e-6*size
			if isolated && ref.From2(first.Normal).Dist(ref.From2(sorted[0].Normal)) > 1e-9 {
				w := base()
				w["first_normal"] = dec2(ref.From2(first.Normal))
				c.Violationf(key("FirstRayCollision", "same-normal"), w, "FirstRayCollision normal differs from the normal RayCollisions reports for the same hit")
			}
		}
	}

	if mp, L := minPart2(s.ref), o.Dist(s.ref.Center())+s.ref.Size(); 2.3e-16*L*L > 0.01*mp*mp {
		c.Undecided("ray2:a-part-is-too-small-for-its-distance-from-the-origin")
		return
	}
	j := judge2(s.ref, o, d)
	if !j.general {
		c.Undecided("ray2:" + j.reason)
		return
	}
	c.Count(s.api+".rays_general", 1)
	c.Count("clause.hit_set", 1)
	if len(j.hits) >= 2 {
		c.Nontrivial(s.api + hex2(o) + hex2(d))
	}
	wref := func() map[string]interface{} {
		w := base()
		w["reference_hits"] = describeRef2(j.hits)
		w["reference_sdf_origin"] = j.sdfO
		return w
	}
	if n1 != len(j.hits) {
		c.Violate(key("RayCollisions", "hit-count"), wref, "reported %d collisions, the reference outline has %d (ray in general position)", n1, len(j.hits))
	}
	if s.ref.Closed() {
		c.Count("clause.parity", 1)
		c.Count(s.api+".parity_decided", 1)
		if (n1%2 == 1) != (j.sdfO > 0) {
			c.Violate(key("RayCollisions", "parity"), wref, "count %d but the origin is inside=%v (reference sdf %g)", n1, j.sdfO > 0, j.sdfO)
		}
	}
	if n1 != len(j.hits) || len(got) != n1 {
		return
	}
	sorted := append([]model2d.RayCollision{}, got...)
	sort.Slice(sorted, func(i, k int) bool { return sorted[i].Scale < sorted[k].Scale })
	for i, h := range j.hits {
		g := sorted[i]
		tolT := tolOnSurface * size / h.Tang * 2
		if !(math.Abs(g.Scale-h.T)*dn <= tolT) {
			c.Violate(key("RayCollisions", "hit-set"), wref, "hit %d: Scale %g, reference %g", i, g.Scale, h.T)
			return
		}
		if h.Feat < featNormal*size || h.Rad < radNormal*size {
			continue
		}
		if i > 0 && (h.T-j.hits[i-1].T)*dn < 10*tolT || i+1 < len(j.hits) && (j.hits[i+1].T-h.T)*dn < 10*tolT {
			continue
		}
		c.Count("clause.normal_outward", 1)
		c.Count(s.api+".normals_compared", 1)
		gn := ref.From2(g.Normal)
		if !(gn.Dist(h.N) <= tolNormal) && !c.fired(key("RayCollisions", "normal-outward")) {
			w := wref()
			w["expected_normal"] = dec2(h.N)
			w["got_normal"] = dec2(gn)
			c.Violationf(key("RayCollisions", "normal-outward"), w, "hit %d at Scale %g: normal %s, reference outward normal %s (dot=%g)", i, g.Scale, dec2(gn), dec2(h.N), gn.Dot(h.N))
		}
	}
}

func checkBall2(c *kase, s *subject2, ctr V2, r float64) {
	size := s.ref.Size()
	sd := s.ref.SDF(ctr)
	c.Count(s.api+".balls", 1)
	got := s.coll.CircleCollision(ctr.C2(), r)
	want := math.Abs(sd) <= r
	margin := math.Abs(math.Abs(sd) - r)
	if margin <= tolTouch*(size+r+ctr.Dist(s.ref.Center()))+1e-13*(ctr.Norm()+s.ref.Center().Norm()) {
		c.Undecided("ball2:near-touching")
		return
	}
	c.Count("clause.ball", 1)
	c.Count(s.api+".balls_decided", 1)
	if got != want {
		c.Violationf(s.api+".CircleCollision/touching", map[string]interface{}{
			"collider": s.ref.Describe(), "center": hex2(ctr), "center_dec": dec2(ctr), "radius": fmt.Sprintf("%x (%.9g)", r, r),
			"reference_sdf": sd, "margin": margin,
		}, "CircleCollision=%v but the distance from the centre to the outline is %g and r=%g", got, math.Abs(sd), r)
	}
}

var containsDir2 = V2{0.5224892708603626, 0.10494477243214506}

func checkContains2(c *kase, s *subject2, p V2, m float64) {
	if !s.ref.Closed() {
		return
	}
	if s.nilPanics {
		c.Undecided("contains2:collider-panics-on-nil-callback")
		return
	}
	if _, pan := countNil2(s.coll, &model2d.Ray{Origin: p.C2(), Direction: containsDir2.C2()}); pan != nil {
		s.nilPanics = true
		c.Violationf(s.api+".RayCollisions/nil-callback-panic", map[string]interface{}{"collider": s.ref.Describe(), "origin": hex2(p), "direction": hex2(containsDir2)}, "RayCollisions(r, nil) panicked: %v", pan)
		return
	}
	size := s.ref.Size()
	j := judge2(s.ref, p, containsDir2)
	if !j.general {
		c.Undecided("contains2:" + j.reason)
		return
	}
	sd := j.sdfO
	if math.Abs(sd-m) <= 1e-7*size || math.Abs(math.Abs(sd)-math.Abs(m)) <= 1e-7*size {
		c.Undecided("contains2:near-margin")
		return
	}
	c.Count("clause.contains", 1)
	c.Count(s.api+".contains_decided", 1)
	w := func(mm float64) map[string]interface{} {
		return map[string]interface{}{"collider": s.ref.Describe(), "point": hex2(p), "point_dec": dec2(p), "margin": mm, "reference_sdf": sd}
	}
	for _, mm := range []float64{0, m, -m} {
		want := sd > mm
		got := model2d.ColliderContains(s.coll, p.C2(), mm)
		clause := "margin-zero"
		if mm > 0 {
			clause = "margin-positive"
		} else if mm < 0 {
			clause = "margin-negative"
		}
		c.Count("contains."+clause, 1)
		if got != want {
			c.Violationf("model2d.ColliderContains["+s.api+"]/"+clause, w(mm), "ColliderContains(p, %g)=%v, reference sdf(p)=%g", mm, got, sd)
		}
	}
	cp := p.C2()
	if got := model2d.NewColliderSolid(s.coll).Contains(cp); got != (sd > 0) {
		c.Violationf("model2d.ColliderSolid["+s.api+"]/plain", w(0), "NewColliderSolid.Contains=%v, reference sdf=%g", got, sd)
	}
	am := math.Abs(m)
	if am > 0 {
		if got := model2d.NewColliderSolidInset(s.coll, am).Contains(cp); got != (sd > am) {
			c.Violationf("model2d.ColliderSolid["+s.api+"]/inset", w(am), "NewColliderSolidInset(%g).Contains=%v, reference sdf=%g", am, got, sd)
		}
		if got := model2d.NewColliderSolidInset(s.coll, -am).Contains(cp); got != (sd > -am) {
			c.Violationf("model2d.ColliderSolid["+s.api+"]/outset", w(-am), "NewColliderSolidInset(%g).Contains=%v, reference sdf=%g", -am, got, sd)
		}
		if got := model2d.NewColliderSolidHollow(s.coll, am).Contains(cp); got != (math.Abs(sd) < am) {
			c.Violationf("model2d.ColliderSolid["+s.api+"]/hollow", w(am), "NewColliderSolidHollow(%g).Contains=%v, reference |sdf|=%g", am, got, math.Abs(sd))
		}
		c.Count("clause.collider_solid", 1)
	}
}

func randUnit2(rng *rand.Rand) V2 {
	th := rng.Float64() * 2 * math.Pi
	return V2{math.Cos(th), math.Sin(th)}
}

func surfacePoint2(rng *rand.Rand, s ref.Shape2) (ref.Hit2, bool) {
	for try := 0; try < 8; try++ {
		o := s.Center().Add(randUnit2(rng).Scale(3 * s.Size()))
		tgt := s.Center().Add(randUnit2(rng).Scale(rng.Float64() * 0.7 * s.Size()))
		hits := s.RayHits(o, tgt.Sub(o))
		if len(hits) > 0 {
			return hits[rng.Intn(len(hits))], true
		}
	}
	return ref.Hit2{}, false
}

func genRay2(rng *rand.Rand, s *subject2) (o, d V2) {
	sh := s.ref
	size, ctr := sh.Size(), sh.Center()
	switch rng.Intn(6) {
	case 0, 1:
		o = ctr.Add(randUnit2(rng).Scale(size * math.Sqrt(rng.Float64())))
	case 2:
		if h, ok := surfacePoint2(rng, sh); ok {
			off := size * logUniform(rng, -5, -1)
			if rng.Intn(2) == 0 {
				off = -off
			}
			o = h.P.Add(h.N.Scale(off))
		} else {
			o = ctr
		}
	case 3:
		o = ctr.Add(randUnit2(rng).Scale(size * (1.2 + 3*rng.Float64())))
	case 4:
		o = ctr.Add(randUnit2(rng).Scale(size * logUniform(rng, 1, math.Log10(s.far))))
	default:
		q := math.Pow(2, math.Round(math.Log2(size/4)))
		g := func(x float64) float64 { return math.Round(x/q)*q + float64(rng.Intn(9)-4)*q }
		o = V2{g(ctr.X), g(ctr.Y)}
	}
	switch rng.Intn(7) {
	case 6: // shallow incidence
		if h, ok := surfacePoint2(rng, sh); ok {
			tang := V2{-h.N.Y, h.N.X}
			if rng.Intn(2) == 0 {
				tang = tang.Scale(-1)
			}
			sin := logUniform(rng, -3, -0.5)
			d = tang.Scale(math.Sqrt(1 - sin*sin)).Sub(h.N.Scale(sin))
			if rng.Intn(3) > 0 {
				o = h.P.Sub(d.Scale(size * logUniform(rng, -2, 0.7)))
			} else {
				d = h.P.Sub(o).Unit()
			}
		} else {
			d = randUnit2(rng)
		}
	case 0, 1:
		d = ctr.Add(randUnit2(rng).Scale(size * 0.9 * rng.Float64())).Sub(o)
		if d.Norm() < 1e-9*size {
			d = randUnit2(rng)
		}
		d = d.Unit()
	case 2:
		d = randUnit2(rng)
	case 3:
		if rng.Intn(2) == 0 {
			d = V2{float64(2*rng.Intn(2) - 1), 0}
		} else {
			d = V2{0, float64(2*rng.Intn(2) - 1)}
		}
	case 4:
		if h, ok := surfacePoint2(rng, sh); ok {
			tang := V2{-h.N.Y, h.N.X}
			clr := size * logUniform(rng, -8, -1.5)
			if rng.Intn(2) == 0 {
				clr = -clr
			}
			through := h.P.Add(h.N.Scale(clr))
			if rng.Intn(2) == 0 {
				o = through.Sub(tang.Scale(size * (0.5 + 3*rng.Float64())))
			}
			d = through.Sub(o)
			if d.Norm() < 1e-9*size {
				d = tang
			}
			d = d.Unit()
		} else {
			d = randUnit2(rng)
		}
	default:
		d = ctr.Sub(o)
		if d.Norm() < 1e-9*size {
			d = randUnit2(rng)
		}
		d = d.Unit()
	}
	if rng.Intn(2) == 0 {
		d = d.Scale(logUniform(rng, -3, 3))
	}
	if rng.Intn(2) == 0 { // zero components of either sign
		if d.X == 0 {
			d.X = math.Copysign(0, -1)
		}
		if d.Y == 0 {
			d.Y = math.Copysign(0, -1)
		}
	}
	return o, d
}

func genBall2(rng *rand.Rand, s *subject2) (V2, float64) {
	sh := s.ref
	size, ctr := sh.Size(), sh.Center()
	if s.segs != nil && rng.Intn(3) == 0 {
		// centre near an end point or beyond it, radius close to the distance
		g := s.segs.Segs[rng.Intn(len(s.segs.Segs))]
		e := g[rng.Intn(2)]
		p := e.Add(randUnit2(rng).Scale(size * logUniform(rng, -3, 0)))
		dist := math.Abs(sh.SDF(p))
		r := dist * (1 + (rng.Float64()*2-1)*logUniform(rng, -6, -0.3))
		if r > 0 {
			return p, r
		}
	}
	switch rng.Intn(4) {
	case 0:
		q := size / 2
		return V2{ctr.X + float64(rng.Intn(9)-4)*q, ctr.Y + float64(rng.Intn(9)-4)*q}, size * logUniform(rng, -3, 1)
	case 1, 2:
		if h, ok := surfacePoint2(rng, sh); ok {
			off := size * logUniform(rng, -4, 0)
			p := h.P.Add(h.N.Scale(off))
			if rng.Intn(2) == 0 {
				p = h.P.Sub(h.N.Scale(off))
			}
			dist := math.Abs(sh.SDF(p))
			r := dist * (1 + (rng.Float64()*2-1)*logUniform(rng, -6, -0.3))
			if r <= 0 {
				r = dist / 2
			}
			return p, r
		}
		fallthrough
	default:
		return ctr.Add(randUnit2(rng).Scale(size * 3 * rng.Float64())), size * logUniform(rng, -3, 1)
	}
}

func genPoint2(rng *rand.Rand, s *subject2) V2 {
	sh := s.ref
	size, ctr := sh.Size(), sh.Center()
	switch rng.Intn(4) {
	case 0:
		if h, ok := surfacePoint2(rng, sh); ok {
			off := size * logUniform(rng, -4, -0.5)
			if rng.Intn(2) == 0 {
				off = -off
			}
			return h.P.Add(h.N.Scale(off))
		}
		fallthrough
	case 1, 2:
		return ctr.Add(randUnit2(rng).Scale(size * math.Sqrt(rng.Float64())))
	default:
		return ctr.Add(randUnit2(rng).Scale(size * (1 + 2*rng.Float64())))
	}
}

func exercise2(c *kase, s *subject2, rays, balls, points int) {
	rng := c.Rng
	for i := 0; i < rays; i++ {
		o, d := genRay2(rng, s)
		if rng.Intn(4) == 0 {
			abandonEnumeration2(c, s, rng)
		}
		checkRay2(c, s, o, d)
	}
	for i := 0; i < balls; i++ {
		p, r := genBall2(rng, s)
		if r > 0 && finite(r) {
			checkBall2(c, s, p, r)
		}
	}
	for i := 0; i < points; i++ {
		checkContains2(c, s, genPoint2(rng, s), s.ref.Size()*logUniform(rng, -3, -0.5))
	}
	c.Count(s.api+".instances", 1)
}

// farFeatureAllowance2 is the accuracy to which a closed-form intersection can locate a feature of
// size rho from a distance L (about eps*L^2/rho, cancellation in the discriminant), for the
// reference hit nearest to the reported ray parameter.
func farFeatureAllowance2(sh ref.Shape2, o, d V2, scale, size float64) float64 {
	feat := minPart2(sh)
	for _, h := range sh.RayHits(o, d) {
		if h.Feat > 0 && h.Feat < feat && math.Abs(h.T-scale)*d.Norm() < size {
			feat = h.Feat
		}
	}
	if !(feat > 0) {
		return math.Inf(1)
	}
	L := d.Norm() * scale
	return 64 * 2.3e-16 * L * L / feat
}

// minPart2 is the size of the smallest constituent of a reference outline.
func minPart2(sh ref.Shape2) float64 {
	switch t := sh.(type) {
	case *ref.Union2:
		m := math.Inf(1)
		for _, p := range t.Parts {
			m = math.Min(m, minPart2(p))
		}
		return m
	case *ref.Similarity2:
		return t.S * minPart2(t.Inner)
	case *ref.Capsule2:
		return math.Min(t.Size(), t.R)
	}
	return sh.Size()
}

// abandonEnumeration2: see abandonEnumeration3.
func abandonEnumeration2(c *kase, s *subject2, rng *rand.Rand) {
	o, d := genRay2(rng, s)
	after := rng.Intn(3)
	seen := 0
	func() {
		defer func() {
			if e := recover(); e != nil {
				if _, ok := e.(abandonSentinel); !ok {
					panic(e)
				}
				c.Count("history.enumerations_abandoned_from_the_callback", 1)
			}
		}()
		s.coll.RayCollisions(&model2d.Ray{Origin: o.C2(), Direction: d.C2()}, func(model2d.RayCollision) {
			if seen == after {
				panic(abandonSentinel{})
			}
			seen++
		})
	}()
}
