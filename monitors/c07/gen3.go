package main

import (
	"fmt"
	"math"
	"math/rand"

	"github.com/unixpickle/model3d/model2d"
	"github.com/unixpickle/model3d/model3d"
	ref "verif/vlib/c07ref"
)

// randCenter3 picks a centre: at the origin, on a dyadic grid, or arbitrary.
func randCenter3(rng *rand.Rand) V3 {
	switch rng.Intn(3) {
	case 0:
		return V3{}
	case 1:
		return V3{float64(rng.Intn(9)-4) / 2, float64(rng.Intn(9)-4) / 2, float64(rng.Intn(9)-4) / 2}
	default:
		return V3{rng.NormFloat64() * 3, rng.NormFloat64() * 3, rng.NormFloat64() * 3}
	}
}

func randScale(rng *rand.Rand) float64 {
	if rng.Intn(5) == 0 {
		// other units: micrometre-sized to kilometre-sized scenes (nothing in the contract is absolute)
		return logUniform(rng, -5, 3)
	}
	switch rng.Intn(3) {
	case 0:
		return 1
	case 1:
		return math.Pow(2, float64(rng.Intn(7)-3))
	default:
		return logUniform(rng, -1.5, 1.5)
	}
}

func randAxis3(rng *rand.Rand) V3 {
	switch rng.Intn(3) {
	case 0:
		var a [3]float64
		a[rng.Intn(3)] = float64(2*rng.Intn(2) - 1)
		return ref.Arr3(a)
	default:
		return randUnit3(rng)
	}
}

// primitive3 builds one of the six closed-form primitives with its reference.
func primitive3(rng *rand.Rand, kind int) *subject3 {
	ctr := randCenter3(rng)
	sc := randScale(rng)
	switch kind {
	case 0:
		r := sc * (0.3 + rng.Float64())
		return &subject3{api: "model3d.Sphere", far: 1000,
			coll: &model3d.Sphere{Center: ctr.C3(), Radius: r},
			ref:  &ref.Sphere{C: ctr, R: r}}
	case 1:
		h := V3{sc * (0.1 + rng.Float64()), sc * (0.1 + rng.Float64()), sc * (0.1 + rng.Float64())}
		if rng.Intn(4) == 0 { // flat box
			h.Z = sc * logUniform(rng, -3, -1)
		}
		mn, mx := ctr.Sub(h), ctr.Add(h)
		return &subject3{api: "model3d.Rect", far: 1000,
			coll: &model3d.Rect{MinVal: mn.C3(), MaxVal: mx.C3()},
			ref:  &ref.Box{Min: mn, Max: mx}}
	case 2, 3:
		a := randAxis3(rng)
		l := sc * (0.2 + 2*rng.Float64())
		r := sc * (0.2 + rng.Float64())
		switch rng.Intn(10) {
		case 0: // needle
			r = l * logUniform(rng, -1.7, -1)
		case 1: // disc / nearly a sphere
			l = r * logUniform(rng, -1.7, -1)
		}
		p1, p2 := ctr.Sub(a.Scale(l/2)), ctr.Add(a.Scale(l/2))
		axes := []V3{p2.Sub(p1), a}
		if kind == 2 {
			return &subject3{api: "model3d.Capsule", far: 300, axes: axes,
				coll: &model3d.Capsule{P1: p1.C3(), P2: p2.C3(), Radius: r},
				ref:  &ref.Capsule{P1: p1, P2: p2, R: r}}
		}
		return &subject3{api: "model3d.Cylinder", far: 300, axes: axes,
			coll: &model3d.Cylinder{P1: p1.C3(), P2: p2.C3(), Radius: r},
			ref:  &ref.Cylinder{P1: p1, P2: p2, R: r}}
	case 4:
		a := randAxis3(rng)
		h := sc * (0.3 + 2*rng.Float64())
		r := sc * (0.2 + rng.Float64())
		switch rng.Intn(10) {
		case 0: // sharp
			r = h * logUniform(rng, -1.5, -0.8)
		case 1: // flat
			h = r * logUniform(rng, -1.5, -0.8)
		case 2: // radius equals height
			r = h
		}
		base, tip := ctr.Sub(a.Scale(h/2)), ctr.Add(a.Scale(h/2))
		u, _ := ref.OrthoFrame(a)
		// the axis and one generator line (rim point to tip)
		axes := []V3{tip.Sub(base), tip.Sub(base.Add(u.Scale(r)))}
		return &subject3{api: "model3d.Cone", far: 50, axes: axes,
			coll: &model3d.Cone{Tip: tip.C3(), Base: base.C3(), Radius: r},
			ref:  &ref.Cone{Tip: tip, Base: base, R: r}}
	default:
		a := randAxis3(rng)
		R := sc * (0.5 + rng.Float64())
		r := R * (0.08 + 0.8*rng.Float64())
		la := a
		if rng.Intn(3) == 0 { // the library normalises the axis itself
			la = a.Scale(0.25 + 3*rng.Float64())
		}
		u, _ := ref.OrthoFrame(a)
		return &subject3{api: "model3d.Torus", far: 30, axes: []V3{a, u},
			coll: &model3d.Torus{Center: ctr.C3(), Axis: la.C3(), OuterRadius: R, InnerRadius: r},
			ref:  &ref.Torus{C: ctr, A: a, R: R, R2: r}}
	}
}

// ---------------------------------------------------------------------------
// meshes: raw triangles with outward orientation plus an analytic membership

type rawMesh struct {
	label  string
	tris   [][3]V3
	inside func(V3) bool
}

func orientOutward(tris [][3]V3, interior V3) {
	for i, t := range tris {
		n := t[1].Sub(t[0]).Cross(t[2].Sub(t[0]))
		if n.Dot(t[0].Sub(interior)) < 0 {
			tris[i] = [3]V3{t[0], t[2], t[1]}
		}
	}
}

func boxTris(mn, mx V3) [][3]V3 {
	v := func(i int) V3 {
		p := mn
		if i&1 != 0 {
			p.X = mx.X
		}
		if i&2 != 0 {
			p.Y = mx.Y
		}
		if i&4 != 0 {
			p.Z = mx.Z
		}
		return p
	}
	quads := [6][4]int{{0, 1, 3, 2}, {4, 6, 7, 5}, {0, 4, 5, 1}, {2, 3, 7, 6}, {0, 2, 6, 4}, {1, 5, 7, 3}}
	var tris [][3]V3
	for _, q := range quads {
		tris = append(tris, [3]V3{v(q[0]), v(q[1]), v(q[2])}, [3]V3{v(q[0]), v(q[2]), v(q[3])})
	}
	orientOutward(tris, mn.Add(mx).Scale(0.5))
	return tris
}

func convexInside(tris [][3]V3) func(V3) bool {
	type pl struct {
		n V3
		b float64
	}
	var pls []pl
	for _, t := range tris {
		n := t[1].Sub(t[0]).Cross(t[2].Sub(t[0])).Unit()
		pls = append(pls, pl{n, n.Dot(t[0])})
	}
	return func(p V3) bool {
		for _, q := range pls {
			if q.n.Dot(p) > q.b {
				return false
			}
		}
		return true
	}
}

func icosphere(sub int) [][3]V3 {
	ph := (1 + math.Sqrt(5)) / 2
	vs := []V3{{-1, ph, 0}, {1, ph, 0}, {-1, -ph, 0}, {1, -ph, 0}, {0, -1, ph}, {0, 1, ph}, {0, -1, -ph}, {0, 1, -ph}, {ph, 0, -1}, {ph, 0, 1}, {-ph, 0, -1}, {-ph, 0, 1}}
	for i := range vs {
		vs[i] = vs[i].Unit()
	}
	fs := [][3]int{{0, 11, 5}, {0, 5, 1}, {0, 1, 7}, {0, 7, 10}, {0, 10, 11}, {1, 5, 9}, {5, 11, 4}, {11, 10, 2}, {10, 7, 6}, {7, 1, 8}, {3, 9, 4}, {3, 4, 2}, {3, 2, 6}, {3, 6, 8}, {3, 8, 9}, {4, 9, 5}, {2, 4, 11}, {6, 2, 10}, {8, 6, 7}, {9, 8, 1}}
	var tris [][3]V3
	for _, f := range fs {
		tris = append(tris, [3]V3{vs[f[0]], vs[f[1]], vs[f[2]]})
	}
	for s := 0; s < sub; s++ {
		var next [][3]V3
		mid := func(a, b V3) V3 { return a.Add(b).Unit() } // symmetric in a,b: shared edges get identical midpoints
		for _, t := range tris {
			ab, bc, ca := mid(t[0], t[1]), mid(t[1], t[2]), mid(t[2], t[0])
			next = append(next, [3]V3{t[0], ab, ca}, [3]V3{t[1], bc, ab}, [3]V3{t[2], ca, bc}, [3]V3{ab, bc, ca})
		}
		tris = next
	}
	orientOutward(tris, V3{})
	return tris
}

func randomRawMesh(rng *rand.Rand) *rawMesh {
	switch rng.Intn(8) {
	case 0: // box
		h := V3{0.3 + rng.Float64(), 0.3 + rng.Float64(), 0.3 + rng.Float64()}
		tris := boxTris(h.Scale(-1), h)
		return &rawMesh{"mesh-box", tris, convexInside(tris)}
	case 1: // tetrahedron
		for {
			v := [4]V3{randUnit3(rng), randUnit3(rng), randUnit3(rng), randUnit3(rng)}
			vol := v[1].Sub(v[0]).Cross(v[2].Sub(v[0])).Dot(v[3].Sub(v[0]))
			if math.Abs(vol) < 0.2 {
				continue
			}
			tris := [][3]V3{{v[0], v[1], v[2]}, {v[0], v[1], v[3]}, {v[0], v[2], v[3]}, {v[1], v[2], v[3]}}
			orientOutward(tris, v[0].Add(v[1]).Add(v[2]).Add(v[3]).Scale(0.25))
			return &rawMesh{"mesh-tetrahedron", tris, convexInside(tris)}
		}
	case 2: // octahedron with unequal radii
		r := V3{0.4 + rng.Float64(), 0.4 + rng.Float64(), 0.4 + rng.Float64()}
		px, nx, py, ny, pz, nz := V3{r.X, 0, 0}, V3{-r.X, 0, 0}, V3{0, r.Y, 0}, V3{0, -r.Y, 0}, V3{0, 0, r.Z}, V3{0, 0, -r.Z}
		tris := [][3]V3{{px, py, pz}, {py, nx, pz}, {nx, ny, pz}, {ny, px, pz}, {py, px, nz}, {nx, py, nz}, {ny, nx, nz}, {px, ny, nz}}
		orientOutward(tris, V3{})
		return &rawMesh{"mesh-octahedron", tris, convexInside(tris)}
	case 3, 4: // icosphere, stretched
		sub := rng.Intn(3)
		tris := icosphere(sub)
		st := V3{0.5 + rng.Float64(), 0.5 + rng.Float64(), 0.5 + rng.Float64()}
		for i := range tris {
			for k := 0; k < 3; k++ {
				p := tris[i][k]
				tris[i][k] = V3{p.X * st.X, p.Y * st.Y, p.Z * st.Z}
			}
		}
		return &rawMesh{fmt.Sprintf("mesh-icosphere%d", sub), tris, convexInside(tris)}
	case 5: // star prism (non-convex)
		poly := starPolygon(rng, 5+rng.Intn(5))
		z0, z1 := -0.3-rng.Float64(), 0.3+rng.Float64()
		var tris [][3]V3
		n := len(poly)
		for i := 0; i < n; i++ {
			a, b := poly[i], poly[(i+1)%n]
			// polygon is clockwise seen from +z
			tris = append(tris,
				[3]V3{{a.X, a.Y, z0}, {b.X, b.Y, z1}, {b.X, b.Y, z0}},
				[3]V3{{a.X, a.Y, z0}, {a.X, a.Y, z1}, {b.X, b.Y, z1}},
				[3]V3{{0, 0, z1}, {b.X, b.Y, z1}, {a.X, a.Y, z1}},
				[3]V3{{0, 0, z0}, {a.X, a.Y, z0}, {b.X, b.Y, z0}})
		}
		segs := polySegs(poly)
		outline := ref.NewSegs2("star", segs, true)
		return &rawMesh{"mesh-star-prism", tris, func(p V3) bool {
			return p.Z > z0 && p.Z < z1 && outline.SDF(p.XY()) > 0
		}}
	case 6: // two disjoint boxes
		a := boxTris(V3{-1.5, -0.5, -0.5}, V3{-0.25, 0.5, 0.4})
		b := boxTris(V3{0.25, -0.3, -0.6}, V3{1.5, 0.7, 0.5})
		ia, ib := convexInside(a), convexInside(b)
		return &rawMesh{"mesh-two-boxes", append(a, b...), func(p V3) bool { return ia(p) || ib(p) }}
	default: // hollow box: outer shell and an inverted inner shell
		a := boxTris(V3{-1, -1, -1}, V3{1, 1, 1})
		b := boxTris(V3{-0.5, -0.4, -0.6}, V3{0.3, 0.5, 0.2})
		ia, ib := convexInside(a), convexInside(b)
		for i, t := range b {
			b[i] = [3]V3{t[0], t[2], t[1]}
		}
		return &rawMesh{"mesh-hollow-box", append(a, b...), func(p V3) bool { return ia(p) && !ib(p) }}
	}
}

// starPolygon returns a clockwise (y up) star-shaped polygon around the origin.
func starPolygon(rng *rand.Rand, n int) []V2 {
	pts := make([]V2, n)
	for i := range pts {
		th := -2 * math.Pi * (float64(i) + 0.6*rng.Float64()) / float64(n)
		r := 0.35 + 0.65*rng.Float64()
		pts[i] = V2{r * math.Cos(th), r * math.Sin(th)}
	}
	return pts
}

func polySegs(poly []V2) [][2]V2 {
	var segs [][2]V2
	for i := range poly {
		segs = append(segs, [2]V2{poly[i], poly[(i+1)%len(poly)]})
	}
	return segs
}

// placed applies a random similarity to the raw mesh (coordinates are mapped
// once; the library sees only the final triangles).
func (m *rawMesh) placed(rng *rand.Rand) *rawMesh {
	if rng.Intn(3) == 0 {
		return m
	}
	a := randUnit3(rng)
	u, v := ref.OrthoFrame(a)
	sc := randScale(rng)
	t := randCenter3(rng)
	if rng.Intn(3) == 0 { // keep axis aligned: flat bounding boxes of faces stay flat
		a, u, v = V3{0, 0, 1}, V3{1, 0, 0}, V3{0, 1, 0}
	}
	fw := func(p V3) V3 { return u.Scale(p.X).Add(v.Scale(p.Y)).Add(a.Scale(p.Z)).Scale(sc).Add(t) }
	bw := func(p V3) V3 { q := p.Sub(t).Scale(1 / sc); return V3{q.Dot(u), q.Dot(v), q.Dot(a)} }
	res := &rawMesh{label: m.label}
	for _, tr := range m.tris {
		res.tris = append(res.tris, [3]V3{fw(tr[0]), fw(tr[1]), fw(tr[2])})
	}
	in := m.inside
	res.inside = func(p V3) bool { return in(bw(p)) }
	return res
}

// certify checks the generator's own output: every face's outward side is
// outside and inward side inside according to the analytic membership.
func (m *rawMesh) certify() bool {
	rm := ref.NewMesh(m.label, m.tris, m.inside)
	eps := 1e-5 * rm.Size()
	for _, t := range m.tris {
		n := t[1].Sub(t[0]).Cross(t[2].Sub(t[0]))
		if n.Norm() == 0 {
			return false
		}
		n = n.Unit()
		g := t[0].Add(t[1]).Add(t[2]).Scale(1.0 / 3)
		if m.inside(g.Add(n.Scale(eps))) || !m.inside(g.Sub(n.Scale(eps))) {
			return false
		}
	}
	return true
}

func (m *rawMesh) libMesh() (*model3d.Mesh, []*model3d.Triangle) {
	mesh := model3d.NewMesh()
	var ts []*model3d.Triangle
	for _, t := range m.tris {
		lt := &model3d.Triangle{t[0].C3(), t[1].C3(), t[2].C3()}
		mesh.Add(lt)
		ts = append(ts, lt)
	}
	return mesh, ts
}

// meshSubject3 wraps a raw mesh in one of the library's mesh collider
// constructions.
func meshSubject3(rng *rand.Rand, m *rawMesh, how int) *subject3 {
	rm := ref.NewMesh(m.label, m.tris, m.inside)
	mesh, ts := m.libMesh()
	s := &subject3{ref: rm, mesh: rm, far: 1000}
	switch how {
	case 0:
		s.api = "model3d.MeshToCollider"
		s.coll = model3d.MeshToCollider(mesh)
	case 1:
		s.api = "model3d.GroupedTrianglesToCollider"
		rng.Shuffle(len(ts), func(i, j int) { ts[i], ts[j] = ts[j], ts[i] })
		s.coll = model3d.GroupedTrianglesToCollider(ts)
	case 2:
		s.api = "model3d.BVHToCollider"
		s.coll = model3d.BVHToCollider(model3d.NewBVHAreaDensity(ts))
	default:
		s.api = "model3d.MeshToInterpNormalCollider"
		s.coll = model3d.MeshToInterpNormalCollider(mesh)
		s.normal = normInterp
		s.vn = ref.AngleWeightedVertexNormals(m.tris)
	}
	return s
}

// ---------------------------------------------------------------------------
// joined colliders of primitives

func joinedSubject3(rng *rand.Rand) *subject3 {
	n := 2 + rng.Intn(3)
	var colls []model3d.Collider
	u := &ref.Union3{}
	nested := rng.Intn(3) == 0
	for i := 0; i < n; i++ {
		p := primitive3(rng, rng.Intn(4)) // sphere, rect, capsule, cylinder
		colls = append(colls, p.coll)
		u.Parts = append(u.Parts, p.ref)
	}
	if rng.Intn(4) == 0 { // a triangle collider (joinedMultiCollider) as one member
		m := randomRawMesh(rng).placed(rng)
		if m.certify() {
			ms := meshSubject3(rng, m, rng.Intn(3))
			colls = append(colls, ms.coll)
			u.Parts = append(u.Parts, ms.ref)
			n++
		}
	}
	var coll model3d.Collider
	switch {
	case nested && n >= 3:
		coll = model3d.NewJoinedCollider([]model3d.Collider{model3d.NewJoinedCollider(colls[:2]), model3d.NewJoinedCollider(colls[2:])})
	case rng.Intn(4) == 0: // same bounds as the parent: NewJoinedCollider flattens it
		coll = model3d.NewJoinedCollider([]model3d.Collider{model3d.NewJoinedCollider(colls)})
	case rng.Intn(6) == 0: // a single member
		coll = model3d.NewJoinedCollider(colls[:1])
		u.Parts = u.Parts[:1]
	default:
		coll = model3d.NewJoinedCollider(colls)
	}
	return &subject3{api: "model3d.JoinedCollider", coll: coll, ref: u, far: 300}
}

// ---------------------------------------------------------------------------
// transformed colliders

// similarityOf extracts the affine map of a DistTransform by probing it and
// certifies that it is a similarity (orthonormal linear part times a positive
// scale), which is what DistTransform promises.
func similarityOf(t model3d.DistTransform, inner ref.Shape3) (*ref.Similarity3, bool) {
	t0 := ref.From3(t.Apply(model3d.Coord3D{}))
	var cols [3]V3
	s := t.ApplyDistance(1)
	if !(s > 0) {
		return nil, false
	}
	for i, e := range [3]model3d.Coord3D{{X: 1}, {Y: 1}, {Z: 1}} {
		cols[i] = ref.From3(t.Apply(e)).Sub(t0).Scale(1 / s)
	}
	for i := 0; i < 3; i++ {
		for k := 0; k < 3; k++ {
			want := 0.0
			if i == k {
				want = 1
			}
			if math.Abs(cols[i].Dot(cols[k])-want) > 1e-9 {
				return nil, false
			}
		}
	}
	if cols[0].Cross(cols[1]).Dot(cols[2]) < 0 {
		return nil, false
	}
	return &ref.Similarity3{Inner: inner, M: cols, S: s, T: t0}, true
}

func randTransform3(rng *rand.Rand) (model3d.DistTransform, string) {
	tr := func() model3d.DistTransform {
		return &model3d.Translate{Offset: V3{rng.NormFloat64() * 2, rng.NormFloat64() * 2, rng.NormFloat64() * 2}.C3()}
	}
	sc := func() model3d.DistTransform { return &model3d.Scale{Scale: logUniform(rng, -1, 1)} }
	ro := func() model3d.DistTransform { return model3d.Rotation(randUnit3(rng).C3(), rng.Float64()*2*math.Pi) }
	switch rng.Intn(5) {
	case 0:
		return tr(), "Translate"
	case 1:
		return sc(), "Scale"
	case 2:
		return ro(), "Rotation"
	case 3:
		return model3d.JoinedTransform{ro(), tr()}, "Joined"
	default:
		return model3d.JoinedTransform{sc(), ro(), tr()}, "Joined"
	}
}

func transformedSubject3(rng *rand.Rand) *subject3 { return transformedSubject3Depth(rng, 0) }

func transformedSubject3Depth(rng *rand.Rand, depth int) *subject3 {
	var inner *subject3
	if depth < 2 && rng.Intn(3) == 0 {
		// a transformed collider wrapped again: transforms stack, innermost applied first
		inner = transformedSubject3Depth(rng, depth+1)
		if inner == nil {
			return nil
		}
		t, name := randTransform3(rng)
		sim, ok := similarityOf(t, inner.ref)
		if !ok {
			return nil
		}
		return &subject3{api: "model3d.TransformCollider[nested " + name + "]", coll: model3d.TransformCollider(t, inner.coll), ref: sim, far: 300, innerExtra: true}
	}
	if rng.Intn(4) == 0 {
		m := randomRawMesh(rng)
		inner = meshSubject3(rng, m, 0)
	} else {
		inner = primitive3(rng, rng.Intn(4))
	}
	t, name := randTransform3(rng)
	sim, ok := similarityOf(t, inner.ref)
	if !ok {
		return nil
	}
	return &subject3{api: "model3d.TransformCollider[" + name + "]", coll: model3d.TransformCollider(t, inner.coll), ref: sim, far: 300, innerExtra: true}
}

// ---------------------------------------------------------------------------
// profile colliders

func profileSubject3(rng *rand.Rand) *subject3 {
	s2 := closedSubject2(rng)
	if s2 == nil {
		return nil
	}
	zc := float64(rng.Intn(5)-2) / 2
	h := s2.ref.Size() * (0.2 + 2*rng.Float64())
	if rng.Intn(3) == 0 {
		h = 0.5
	}
	z0, z1 := zc-h, zc+h
	return &subject3{api: "model3d.ProfileCollider[" + s2.short + "]", far: 300,
		coll: model3d.ProfileCollider(s2.coll, z0, z1),
		ref:  &ref.Prism{Base: s2.ref, Z0: z0, Z1: z1}}
}

// profileRays adds the special directions DESIGN names: exactly along +-z,
// exactly horizontal, grazing the caps.
func profileRay(rng *rand.Rand, s *subject3) (V3, V3) {
	pr := s.ref.(*ref.Prism)
	b := pr.Base
	p2 := b.Center().Add(V2{rng.NormFloat64(), rng.NormFloat64()}.Scale(0.6 * b.Size()))
	switch rng.Intn(4) {
	case 0: // along +-z from below/above/inside
		z := pr.Z0 + (pr.Z1-pr.Z0)*(rng.Float64()*3-1)
		dz := float64(2*rng.Intn(2) - 1)
		return V3{p2.X, p2.Y, z}, V3{0, 0, dz * logUniform(rng, -2, 2)}
	case 1: // exactly horizontal inside the slab
		z := pr.Z0 + (pr.Z1-pr.Z0)*rng.Float64()
		th := rng.Float64() * 2 * math.Pi
		o2 := b.Center().Add(V2{math.Cos(th), math.Sin(th)}.Scale(b.Size() * 2 * rng.Float64()))
		d2 := p2.Sub(o2)
		if d2.Norm() == 0 {
			d2 = V2{1, 0}
		}
		return V3{o2.X, o2.Y, z}, V3{d2.X, d2.Y, 0}
	case 2: // exactly horizontal outside the slab or exactly in a cap plane
		z := pr.Z1 + (pr.Z1-pr.Z0)*rng.Float64()
		if rng.Intn(2) == 0 {
			z = pr.Z1
		}
		o2 := b.Center().Add(V2{rng.NormFloat64(), rng.NormFloat64()}.Scale(b.Size() * 2))
		d2 := p2.Sub(o2)
		if d2.Norm() == 0 {
			d2 = V2{1, 0}
		}
		return V3{o2.X, o2.Y, z}, V3{d2.X, d2.Y, 0}
	default: // grazing a cap with a tiny slope
		z := pr.Z1 + (pr.Z1-pr.Z0)*logUniform(rng, -6, -2)
		o2 := b.Center().Add(V2{rng.NormFloat64(), rng.NormFloat64()}.Unit().Scale(b.Size() * 2))
		d2 := p2.Sub(o2)
		return V3{o2.X, o2.Y, z}, V3{d2.X, d2.Y, -(pr.Z1 - pr.Z0) * logUniform(rng, -5, -1)}
	}
}

var _ = model2d.Coord{}
