// C07 — Colliders report consistent ray and ball collisions.
// Shape: seeded hostile inputs + independent closed-form reference surfaces
// (verif/vlib/c07ref) + soundness margins (DESIGN.md C07).
package main

import (
	"math"
	"math/rand"

	"github.com/unixpickle/model3d/model2d"
	"github.com/unixpickle/model3d/model3d"
	"verif/vlib"
	ref "verif/vlib/c07ref"
)

func main() {
	r := vlib.Start("C07", "exploration")
	r.Rule("each case builds one collider (primitive, triangle, mesh collider in 4 constructions, joined, profile, transformed, solid-sampling; 2D and 3D) with seeded parameters and drives seeded rays (origins inside / near the surface / on the bounding box / far away / on a dyadic grid; directions aimed, isotropic, exactly axis-aligned, with zero components, grazing, scaled 1e-3..1e3), balls (grid and near-surface centres, radii 1e-3..10 sizes, many within 1e-6 of touching), containment points and segment/box/triangle queries; the reference is an independent closed-form surface model. A ray is non-trivial when it is in general position and the reference has >= 2 hits (counter rays_nontrivial); distinct_nontrivial registers at most 4 such rays per case, distinct by hash of (API, origin, direction). A violation key is reported once per case: the count printed with a key is the number of cases (collider instances) in which it fired")
	r.Assume("reference surfaces (verif/vlib/c07ref) are exact up to rounding; they are self-checked per ray (every reference hit has |SDF|<=1e-8*size, hit parity equals reference membership) and by go test ./vlib/c07ref")
	r.Assume("count/parity/hit-set clauses are decided only for rays in general position: origin >=1e-6*size from the surface, every reference hit with |d.n|>=1e-3, >=1e-6*size from edges/rims/apex, consecutive hits >=1e-6*size apart, and the reference hit count unchanged under six parallel shifts of 1e-6*size")
	r.Assume("touching tests are undecided within 1e-9*(size+r+distance) of equality; segment/box/triangle queries within 1e-7*size of a change of answer")
	r.Assume("Transform objects handed to TransformCollider are trusted inputs: the reference image is built from the map the transform itself applies (probed at 0,e1,e2,e3 and certified to be a similarity)")
	r.Assume("SolidCollider is approximate by contract: decided only when every inside/outside stretch of the ray is > 3*epsilon, crossings have |d.n|>=0.2 and the origin is >= 2*epsilon from the surface; hits must then be within epsilon")
	r.Assume("mesh colliders get closed, outward-oriented triangle meshes built and certified by the harness (membership known analytically); 2D polygons are clockwise (the documented convention for outward normals)")

	empty(r)
	prim3d(r)
	tri3d(r)
	sharedCorner3d(r)
	mesh3d(r)
	wrappers3d(r)
	solid3d(r)
	prim2d(r)
	mesh2d(r)
	wrappers2d(r)

	for _, k := range []string{"clause.count_consistency", "clause.scale_nonneg", "clause.on_surface", "clause.normal_unit", "clause.normal_outward",
		"clause.first", "clause.hit_set", "clause.parity", "clause.ball", "clause.contains", "clause.segment", "clause.rect", "clause.triangle"} {
		r.Require(k, 200)
	}
	for _, k := range []string{"clause.segment_true", "clause.rect_true", "clause.triangle_intersecting", "clause.collider_solid", "clause.triangle_shared_corner", "clause.triangle_anchored_intersecting"} {
		r.Require(k, 50)
	}
	for _, api := range []string{"model3d.Sphere", "model3d.Rect", "model3d.Capsule", "model3d.Cylinder", "model3d.Cone", "model3d.Torus",
		"model3d.Triangle", "model3d.InterpNormalTriangle", "model3d.MeshToCollider", "model3d.GroupedTrianglesToCollider", "model3d.BVHToCollider",
		"model3d.MeshToInterpNormalCollider", "model3d.JoinedCollider", "model3d.SolidCollider",
		"model2d.Circle", "model2d.Rect", "model2d.Capsule", "model2d.Segment", "model2d.MeshToCollider", "model2d.JoinedCollider"} {
		r.Require(api+".rays_general", 100)
	}
	for _, t := range []string{"Translate", "Scale", "Rotation", "Joined"} {
		r.Require("model3d.TransformCollider["+t+"].rays", 100)
		r.Require("model2d.TransformCollider["+t+"].rays", 100)
	}
	for _, b := range []string{"Circle", "Rect", "Capsule", "TriangleCW", "Mesh"} {
		r.Require("model3d.ProfileCollider["+b+"].rays_general", 100)
	}
	r.Require("profile.special_rays", 1000)
	r.Require("empty.colliders_checked", 100)
	r.Require("rays_nontrivial", 10000)
	r.Finish()
}

// empty colliders (no faces) must answer "nothing" to everything.
func empty(r *vlib.Run) {
	section(r, "empty", r.N(60, 600), func(c *kase) {
		rng := c.Rng
		o, d := V3{rng.NormFloat64(), rng.NormFloat64(), rng.NormFloat64()}, randUnit3(rng).Scale(logUniform(rng, -3, 3))
		if rng.Intn(3) == 0 {
			o = V3{}
		}
		for name, coll := range map[string]model3d.Collider{
			"model3d.GroupedTrianglesToCollider[empty]": model3d.GroupedTrianglesToCollider(nil),
			"model3d.MeshToCollider[empty]":             model3d.MeshToCollider(model3d.NewMesh()),
			"model3d.MeshToInterpNormalCollider[empty]": model3d.MeshToInterpNormalCollider(model3d.NewMesh()),
			"model3d.GroupedCollidersToCollider[empty]": model3d.GroupedCollidersToCollider(nil),
		} {
			ray := &model3d.Ray{Origin: o.C3(), Direction: d.C3()}
			cb := 0
			n := coll.RayCollisions(ray, func(model3d.RayCollision) { cb++ })
			n2, pan := countNil3(coll, ray)
			_, ok := coll.FirstRayCollision(ray)
			ball := coll.SphereCollision(o.C3(), logUniform(rng, -3, 3))
			bad := n != 0 || cb != 0 || n2 != 0 || pan != nil || ok || ball
			if mc, is := coll.(model3d.MultiCollider); is {
				q := randomTriangle3(rng)
				bad = bad || mc.SegmentCollision(model3d.NewSegment(q[0].C3(), q[1].C3())) ||
					mc.RectCollision(&model3d.Rect{MinVal: model3d.XYZ(-1, -1, -1), MaxVal: model3d.XYZ(1, 1, 1)}) ||
					len(mc.TriangleCollisions(&model3d.Triangle{q[0].C3(), q[1].C3(), q[2].C3()})) != 0
			}
			c.Count("empty.colliders_checked", 1)
			if bad {
				c.Violationf(name+"/answers-nothing", map[string]interface{}{"origin": hex3(o), "direction": hex3(d)},
					"an empty collider reported something: count=%d callbacks=%d nilcount=%d panic=%v first=%v ball=%v", n, cb, n2, pan, ok, ball)
			}
		}
		o2, d2 := o.XY(), randUnit2(rng).Scale(logUniform(rng, -3, 3))
		for name, coll := range map[string]model2d.MultiCollider{
			"model2d.GroupedSegmentsToCollider[empty]": model2d.GroupedSegmentsToCollider(nil),
			"model2d.MeshToCollider[empty]":            model2d.MeshToCollider(model2d.NewMesh()),
		} {
			ray := &model2d.Ray{Origin: o2.C2(), Direction: d2.C2()}
			cb := 0
			n := coll.RayCollisions(ray, func(model2d.RayCollision) { cb++ })
			n2, pan := countNil2(coll, ray)
			_, ok := coll.FirstRayCollision(ray)
			ball := coll.CircleCollision(o2.C2(), logUniform(rng, -3, 3))
			seg := coll.SegmentCollision(&model2d.Segment{o2.C2(), o2.Add(d2).C2()})
			rect := coll.RectCollision(&model2d.Rect{MinVal: model2d.XY(-1, -1), MaxVal: model2d.XY(1, 1)})
			c.Count("empty.colliders_checked", 1)
			if n != 0 || cb != 0 || n2 != 0 || pan != nil || ok || ball || seg || rect {
				c.Violationf(name+"/answers-nothing", map[string]interface{}{"origin": hex2(o2), "direction": hex2(d2)},
					"an empty collider reported something: count=%d callbacks=%d nilcount=%d panic=%v first=%v ball=%v segment=%v rect=%v", n, cb, n2, pan, ok, ball, seg, rect)
			}
		}
	})
}

func prim3d(r *vlib.Run) {
	section(r, "prim3d", r.N(13500, 270000), func(c *kase) {
		s := primitive3(c.Rng, c.Index%6)
		exercise3(c, s, 50, 25, 8)
		if c.Index < 6 {
			c.Sample("primitive3d", 6, s.ref.Describe())
		}
	})
}

// randomTriangle3 returns a triangle whose smallest angle is not tiny.
func randomTriangle3(rng *rand.Rand) [3]V3 {
	ctr := randCenter3(rng)
	sc := randScale(rng)
	for {
		t := [3]V3{ctr.Add(randUnit3(rng).Scale(sc * (0.3 + rng.Float64()))), ctr.Add(randUnit3(rng).Scale(sc * (0.3 + rng.Float64()))), ctr.Add(randUnit3(rng).Scale(sc * (0.3 + rng.Float64())))}
		switch rng.Intn(4) {
		case 0: // axis-aligned plane
			z := t[0].Z
			t[1].Z, t[2].Z = z, z
		case 1:
			x := t[0].X
			t[1].X, t[2].X = x, x
		}
		e0, e1, e2 := t[1].Dist(t[0]), t[2].Dist(t[1]), t[0].Dist(t[2])
		area := t[1].Sub(t[0]).Cross(t[2].Sub(t[0])).Norm() / 2
		if area > 0.05*math.Max(e0, math.Max(e1, e2))*math.Max(e0, math.Max(e1, e2)) {
			return t
		}
	}
}

func tri3d(r *vlib.Run) {
	section(r, "tri3d", r.N(6750, 135000), func(c *kase) {
		rng := c.Rng
		t := randomTriangle3(rng)
		rm := ref.NewMesh("triangle", [][3]V3{t}, nil)
		lt := &model3d.Triangle{t[0].C3(), t[1].C3(), t[2].C3()}
		s := &subject3{api: "model3d.Triangle", coll: lt, ref: rm, mesh: rm, far: 1000}
		if c.Index%3 == 2 {
			n := t[1].Sub(t[0]).Cross(t[2].Sub(t[0])).Unit()
			vn := map[V3]V3{}
			it := &model3d.InterpNormalTriangle{Triangle: *lt}
			for k := 0; k < 3; k++ {
				v := n.Add(randUnit3(rng).Scale(0.5 * rng.Float64())).Unit()
				vn[t[k]] = v
				it.VertexNormals[k] = v.C3()
			}
			s = &subject3{api: "model3d.InterpNormalTriangle", coll: it, ref: rm, mesh: rm, far: 1000, normal: normInterp, vn: vn}
		}
		exercise3(c, s, 40, 25, 0)
		checkMulti3(c, s, 12)
		// balls a million to thirty million times larger than the triangle whose surface cuts
		// through it: a point of the triangle lies 0.15..0.4 triangle sizes inside the ball, so
		// the two touch, whichever of the triangle's corners happen to be outside
		size := s.ref.Size()
		for i := 0; i < 4; i++ {
			a, b := rng.Float64(), rng.Float64()
			if a+b > 1 {
				a, b = 1-a, 1-b
			}
			q := t[0].Add(t[1].Sub(t[0]).Scale(a)).Add(t[2].Sub(t[0]).Scale(b))
			r := size * math.Pow(10, 6+1.5*rng.Float64())
			delta := size * (0.15 + 0.25*rng.Float64())
			ctr := q.Add(randUnit3(rng).Scale(r - delta))
			c.Count("tri3d.huge_balls_cutting_through_the_triangle", 1)
			checkBall3(c, s, ctr, r)
		}
	})
}

func mesh3d(r *vlib.Run) {
	section(r, "mesh3d", r.N(4500, 90000), func(c *kase) {
		rng := c.Rng
		m := randomRawMesh(rng).placed(rng)
		if !m.certify() {
			c.Count("generator.mesh_not_certified", 1)
			return
		}
		s := meshSubject3(rng, m, c.Index%4)
		c.Count("mesh3d."+m.label, 1)
		exercise3(c, s, 30, 15, 5)
		checkMulti3(c, s, 5)
		anchoredTriangleQueries(c, s, 4)
	})
}

func wrappers3d(r *vlib.Run) {
	section(r, "joined3d", r.N(3750, 75000), func(c *kase) {
		exercise3(c, joinedSubject3(c.Rng), 40, 20, 6)
	})
	section(r, "transform3d", r.N(4500, 90000), func(c *kase) {
		s := transformedSubject3(c.Rng)
		if s == nil {
			c.Count("generator.transform_not_similarity", 1)
			return
		}
		exercise3(c, s, 30, 15, 5)
	})
	section(r, "profile3d", r.N(6750, 135000), func(c *kase) {
		s := profileSubject3(c.Rng)
		if s == nil {
			c.Count("generator.profile_skipped", 1)
			return
		}
		exercise3(c, s, 30, 15, 5)
		for i := 0; i < 20; i++ {
			o, d := profileRay(c.Rng, s)
			c.Count("profile.special_rays", 1)
			checkRay3(c, s, o, d)
		}
	})
}

func solid3d(r *vlib.Run) {
	// SolidCollider draws its normal estimates from the global math/rand, so the
	// estimated normals (only) differ between runs; counts and hit positions,
	// which are what is compared with the reference, do not depend on it. The
	// one clause on those normals is a bound with failure probability < 1e-30.
	section(r, "solidcollider", r.N(2250, 45000), func(c *kase) {
		s := solidSubject3(c.Rng)
		for i := 0; i < 25; i++ {
			o, d := genRay3(c.Rng, s)
			checkRay3(c, s, o, d)
		}
		for i := 0; i < 6; i++ {
			checkSolidBall(c, s)
		}
		c.Count(s.api+".instances", 1)
	})
}

func prim2d(r *vlib.Run) {
	section(r, "prim2d", r.N(9000, 180000), func(c *kase) {
		exercise2(c, primitive2(c.Rng, c.Index%4), 50, 25, 8)
	})
}

func mesh2d(r *vlib.Run) {
	section(r, "segment2d", r.N(3000, 60000), func(c *kase) {
		s := segmentSubject2(c.Rng)
		exercise2(c, s, 40, 25, 0)
		checkMulti2(c, s, 15)
	})
	section(r, "mesh2d", r.N(4500, 90000), func(c *kase) {
		s := meshSubject2(c.Rng, c.Index%3)
		if s == nil {
			c.Count("generator.polygon_not_certified", 1)
			return
		}
		exercise2(c, s, 40, 20, 8)
		checkMulti2(c, s, 15)
	})
}

func wrappers2d(r *vlib.Run) {
	section(r, "joined2d", r.N(2250, 45000), func(c *kase) {
		exercise2(c, joinedSubject2(c.Rng), 40, 20, 6)
	})
	section(r, "transform2d", r.N(3750, 75000), func(c *kase) {
		s := transformedSubject2(c.Rng)
		if s == nil {
			c.Count("generator.transform_not_similarity", 1)
			return
		}
		exercise2(c, s, 30, 15, 5)
	})
}
