package main

import (
	"math"
	"math/rand"

	"github.com/unixpickle/model3d/model2d"
	ref "verif/vlib/c07ref"
)

func randCenter2(rng *rand.Rand) V2 {
	switch rng.Intn(3) {
	case 0:
		return V2{}
	case 1:
		return V2{float64(rng.Intn(9)-4) / 2, float64(rng.Intn(9)-4) / 2}
	default:
		return V2{rng.NormFloat64() * 3, rng.NormFloat64() * 3}
	}
}

func libSegs(segs [][2]V2) []*model2d.Segment {
	var res []*model2d.Segment
	for _, g := range segs {
		res = append(res, &model2d.Segment{g[0].C2(), g[1].C2()})
	}
	return res
}

// primitive2: 0 circle, 1 rect, 2 capsule, 3 triangle
func primitive2(rng *rand.Rand, kind int) *subject2 {
	ctr := randCenter2(rng)
	sc := randScale(rng)
	switch kind {
	case 0:
		r := sc * (0.3 + rng.Float64())
		return &subject2{api: "model2d.Circle", short: "Circle", far: 1000,
			coll: &model2d.Circle{Center: ctr.C2(), Radius: r}, ref: &ref.Circle{C: ctr, R: r}}
	case 1:
		h := V2{sc * (0.1 + rng.Float64()), sc * (0.1 + rng.Float64())}
		mn, mx := ctr.Sub(h), ctr.Add(h)
		return &subject2{api: "model2d.Rect", short: "Rect", far: 1000,
			coll: &model2d.Rect{MinVal: mn.C2(), MaxVal: mx.C2()}, ref: &ref.Rect2{Min: mn, Max: mx}}
	case 2:
		a := randUnit2(rng)
		if rng.Intn(3) == 0 {
			a = V2{1, 0}
		}
		l := sc * (0.2 + 2*rng.Float64())
		r := sc * (0.2 + rng.Float64())
		p1, p2 := ctr.Sub(a.Scale(l/2)), ctr.Add(a.Scale(l/2))
		return &subject2{api: "model2d.Capsule", short: "Capsule", far: 300,
			coll: &model2d.Capsule{P1: p1.C2(), P2: p2.C2(), Radius: r}, ref: &ref.Capsule2{P1: p1, P2: p2, R: r}}
	default:
		for {
			p := [3]V2{ctr.Add(randUnit2(rng).Scale(sc * (0.3 + rng.Float64()))), ctr.Add(randUnit2(rng).Scale(sc * (0.3 + rng.Float64()))), ctr.Add(randUnit2(rng).Scale(sc * (0.3 + rng.Float64())))}
			area := p[1].Sub(p[0]).Cross(p[2].Sub(p[0])) / 2
			if math.Abs(area) < 0.05*sc*sc {
				continue
			}
			api, short := "model2d.Triangle[clockwise]", "TriangleCW"
			if area > 0 {
				api, short = "model2d.Triangle[counterclockwise]", "TriangleCCW"
			}
			rs := ref.NewSegs2("triangle", [][2]V2{{p[0], p[1]}, {p[1], p[2]}, {p[2], p[0]}}, true)
			if rs.Bad {
				continue
			}
			return &subject2{api: api, short: short, far: 300,
				coll: model2d.NewTriangle(p[0].C2(), p[1].C2(), p[2].C2()), ref: rs}
		}
	}
}

// polygon outlines: clockwise outer loops (outward normals by the documented
// convention), counter-clockwise holes.
func polygonSegs(rng *rand.Rand) ([][2]V2, string) {
	ctr := randCenter2(rng)
	sc := randScale(rng)
	place := func(poly []V2) []V2 {
		res := make([]V2, len(poly))
		for i, p := range poly {
			res[i] = p.Scale(sc).Add(ctr)
		}
		return res
	}
	switch rng.Intn(4) {
	case 0: // axis-aligned rectangle, clockwise
		w, h := 0.3+rng.Float64(), 0.3+rng.Float64()
		return polySegs(place([]V2{{-w, -h}, {-w, h}, {w, h}, {w, -h}})), "rectangle"
	case 1, 2:
		return polySegs(place(starPolygon(rng, 3+rng.Intn(10)))), "star"
	default: // star with a hole
		outer := place(starPolygon(rng, 5+rng.Intn(6)))
		hole := starPolygon(rng, 3+rng.Intn(5))
		for i := range hole {
			hole[i] = hole[i].Scale(0.3)
		}
		hole = place(hole)
		for i, k := 0, len(hole)-1; i < k; i, k = i+1, k-1 {
			hole[i], hole[k] = hole[k], hole[i]
		}
		return append(polySegs(outer), polySegs(hole)...), "star-with-hole"
	}
}

func signedArea(segs [][2]V2) float64 {
	a := 0.0
	for _, g := range segs {
		a += g[0].Cross(g[1]) / 2
	}
	return a
}

func meshSubject2(rng *rand.Rand, how int) *subject2 {
	segs, label := polygonSegs(rng)
	rs := ref.NewSegs2("polygon-"+label, segs, true)
	if rs.Bad || !(signedArea(segs) < 0) {
		return nil
	}
	// certify the documented precondition: every left normal is outward
	for i, g := range segs {
		d := g[1].Sub(g[0]).Unit()
		if rs.Norm[i].Dist(V2{-d.Y, d.X}) > 1e-9 {
			return nil
		}
	}
	ls := libSegs(segs)
	s := &subject2{ref: rs, segs: rs, far: 1000}
	switch how {
	case 0:
		s.api, s.short = "model2d.MeshToCollider", "Mesh"
		s.coll = model2d.MeshToCollider(model2d.NewMeshSegments(ls))
	case 1:
		s.api, s.short = "model2d.GroupedSegmentsToCollider", "Grouped"
		rng.Shuffle(len(ls), func(i, j int) { ls[i], ls[j] = ls[j], ls[i] })
		s.coll = model2d.GroupedSegmentsToCollider(ls)
	default:
		s.api, s.short = "model2d.BVHToCollider", "BVH"
		s.coll = model2d.BVHToCollider(model2d.NewBVHAreaDensity(ls))
	}
	return s
}

func segmentSubject2(rng *rand.Rand) *subject2 {
	ctr := randCenter2(rng)
	sc := randScale(rng)
	a := ctr.Add(randUnit2(rng).Scale(sc * (0.2 + rng.Float64())))
	b := ctr.Add(randUnit2(rng).Scale(sc * (0.2 + rng.Float64())))
	switch rng.Intn(4) {
	case 0:
		b = V2{a.X + sc, a.Y}
	case 1:
		b = V2{a.X, a.Y - sc}
	}
	if a.Dist(b) < 0.05*sc {
		b = a.Add(V2{sc, sc})
	}
	rs := ref.NewSegs2("segment", [][2]V2{{a, b}}, false)
	return &subject2{api: "model2d.Segment", short: "Segment", far: 1000, ref: rs, segs: rs,
		coll: &model2d.Segment{a.C2(), b.C2()}}
}

func joinedSubject2(rng *rand.Rand) *subject2 {
	n := 2 + rng.Intn(3)
	var colls []model2d.Collider
	u := &ref.Union2{}
	for i := 0; i < n; i++ {
		p := primitive2(rng, rng.Intn(3))
		colls = append(colls, p.coll)
		u.Parts = append(u.Parts, p.ref)
	}
	return &subject2{api: "model2d.JoinedCollider", short: "Joined", coll: model2d.NewJoinedCollider(colls), ref: u, far: 300}
}

func similarityOf2(t model2d.DistTransform, inner ref.Shape2) (*ref.Similarity2, bool) {
	t0 := ref.From2(t.Apply(model2d.Coord{}))
	s := t.ApplyDistance(1)
	if !(s > 0) {
		return nil, false
	}
	var cols [2]V2
	for i, e := range [2]model2d.Coord{{X: 1}, {Y: 1}} {
		cols[i] = ref.From2(t.Apply(e)).Sub(t0).Scale(1 / s)
	}
	if math.Abs(cols[0].Dot(cols[0])-1) > 1e-9 || math.Abs(cols[1].Dot(cols[1])-1) > 1e-9 || math.Abs(cols[0].Dot(cols[1])) > 1e-9 {
		return nil, false
	}
	if cols[0].Cross(cols[1]) < 0 {
		return nil, false
	}
	return &ref.Similarity2{Inner: inner, M: cols, S: s, T: t0}, true
}

func transformedSubject2(rng *rand.Rand) *subject2 { return transformedSubject2Depth(rng, 0) }

func transformedSubject2Depth(rng *rand.Rand, depth int) *subject2 {
	var inner *subject2
	nested := false
	if depth < 2 && rng.Intn(3) == 0 {
		inner = transformedSubject2Depth(rng, depth+1)
		if inner == nil {
			return nil
		}
		nested = true
	} else if rng.Intn(4) == 0 {
		inner = meshSubject2(rng, 0)
		if inner == nil {
			return nil
		}
	} else {
		inner = primitive2(rng, rng.Intn(3))
	}
	tr := func() model2d.DistTransform {
		return &model2d.Translate{Offset: V2{rng.NormFloat64() * 2, rng.NormFloat64() * 2}.C2()}
	}
	sc := func() model2d.DistTransform { return &model2d.Scale{Scale: logUniform(rng, -1, 1)} }
	ro := func() model2d.DistTransform { return model2d.Rotation(rng.Float64() * 2 * math.Pi) }
	var t model2d.DistTransform
	var name string
	switch rng.Intn(5) {
	case 0:
		t, name = tr(), "Translate"
	case 1:
		t, name = sc(), "Scale"
	case 2:
		t, name = ro(), "Rotation"
	case 3:
		t, name = model2d.JoinedTransform{ro(), tr()}, "Joined"
	default:
		t, name = model2d.JoinedTransform{sc(), ro(), tr()}, "Joined"
	}
	sim, ok := similarityOf2(t, inner.ref)
	if !ok {
		return nil
	}
	if nested {
		name = "nested " + name
	}
	return &subject2{api: "model2d.TransformCollider[" + name + "]", short: "Transformed", far: 300,
		coll: model2d.TransformCollider(t, inner.coll), ref: sim}
}

// closedSubject2 picks a closed 2D collider for extrusion.
func closedSubject2(rng *rand.Rand) *subject2 {
	switch k := rng.Intn(6); k {
	case 0, 1, 2:
		return primitive2(rng, k)
	case 3:
		// only the orientation for which the 2D triangle's normals are
		// documented to be outward is used as a profile; the other one is
		// covered (and reported) by the 2D triangle section itself.
		for {
			s := primitive2(rng, 3)
			if s.short == "TriangleCW" {
				return s
			}
		}
	default:
		return meshSubject2(rng, rng.Intn(3))
	}
}
