package main

// Triangle queries whose triangle shares exactly one bit-identical corner with a
// triangle of the surface and cuts through it along a segment of positive
// length that starts at that corner ("triangle queries answer 'touching'
// exactly when the surface and the query shape actually intersect"). Random
// query triangles never share a corner with the surface; fans, folded sheets
// and queries started at a mesh vertex do.
//
// Oracle, isolated pair (independent, by construction): T1=(A,B,C); P strictly
// inside T1; T2=(A, M+h*w, M-h*w) with M=A+s*(P-A) and w a direction out of
// T1's plane. T2's plane meets T1's plane in the line through A and P, T2
// covers that line from A to M, T1 covers it from A to the point E on BC, so
// the intersection is the segment from A to the nearer of M and E.
//
// Oracle, mesh collider (metamorphic): moving the query triangle's corner off
// the mesh vertex by 1e-9 sizes changes the total length of the intersection
// polyline by at most a few 1e-9 sizes when no triangle at the vertex is
// near-coplanar with the query.

import (
	"math"

	"github.com/unixpickle/model3d/model3d"
	"verif/vlib"
	ref "verif/vlib/c07ref"
)

func sharedCorner3d(r *vlib.Run) {
	section(r, "tri.sharedcorner", r.N(1500, 30000), func(c *kase) {
		rng := c.Rng
		t1 := randomTriangle3(rng)
		size := math.Max(t1[0].Dist(t1[1]), math.Max(t1[1].Dist(t1[2]), t1[0].Dist(t1[2])))
		k := rng.Intn(3)
		a, b, cc := t1[k], t1[(k+1)%3], t1[(k+2)%3]
		n := b.Sub(a).Cross(cc.Sub(a))
		if n.Norm() < 1e-3*size*size {
			c.Undecided("sharedcorner:thin")
			return
		}
		n = n.Unit()
		// P = A + u*(B-A) + v*(C-A) strictly inside
		u := 0.15 + 0.5*rng.Float64()
		v := 0.15 + (0.8-u-0.15)*rng.Float64()
		d := b.Sub(a).Scale(u).Add(cc.Sub(a).Scale(v))
		tE := 1 / (u + v) // A + tE*d lies on BC
		s := []float64{0.3, 0.6, 0.9, 1.5, 3}[rng.Intn(5)] * tE
		if math.Abs(s-tE) < 0.05*tE {
			s = 0.5 * tE
		}
		// w: out of T1's plane, tilted by a random in-plane component
		w := n.Add(d.Unit().Scale(rng.NormFloat64() * 0.5)).Add(n.Cross(d.Unit()).Scale(rng.NormFloat64() * 0.3)).Unit()
		if math.Abs(w.Dot(n)) < 0.3 {
			w = n
		}
		h := size * (0.2 + rng.Float64())
		m := a.Add(d.Scale(s))
		q1, q2 := m.Add(w.Scale(h)), m.Sub(w.Scale(h*(0.5+rng.Float64())))
		// the segment M lies on the edge q1-q2 by construction only when both offsets are along w: yes.
		end := a.Add(d.Scale(math.Min(s, tE)))
		wantLen := a.Dist(end)
		t2 := [3]V3{a, q1, q2}
		if rng.Intn(2) == 0 {
			t2 = [3]V3{q2, a, q1}
		}
		lt1 := &model3d.Triangle{t1[0].C3(), t1[1].C3(), t1[2].C3()}
		lt2 := &model3d.Triangle{t2[0].C3(), t2[1].C3(), t2[2].C3()}
		wit := func(got []model3d.Segment) map[string]interface{} {
			var gs []string
			for _, g := range got {
				gs = append(gs, dec3(ref.From3(g[0]))+"-"+dec3(ref.From3(g[1])))
			}
			return map[string]interface{}{"t1": describeTri(t1), "t2": describeTri(t2), "shared_corner": hex3(a),
				"expected_segment": dec3(a) + "-" + dec3(end), "got": gs}
		}
		tol := 1e-6 * (size + h)
		check := func(api string, got []model3d.Segment) {
			c.Count("clause.triangle_shared_corner", 1)
			if len(got) == 0 {
				c.Violationf(api+"/shared-corner-crossing", wit(got),
					"two triangles that share exactly one corner and cut through each other along a segment of length %g from that corner: no intersection reported", wantLen)
				return
			}
			total := 0.0
			for _, g := range got {
				total += ref.From3(g[0]).Dist(ref.From3(g[1]))
			}
			if len(got) != 1 || math.Abs(total-wantLen) > tol {
				c.Violationf(api+"/shared-corner-segment", wit(got),
					"intersection reported as %d segments of total length %g, the constructed intersection is one segment of length %g", len(got), total, wantLen)
				return
			}
			g0, g1 := ref.From3(got[0][0]), ref.From3(got[0][1])
			e := math.Min(math.Max(g0.Dist(a), g1.Dist(end)), math.Max(g0.Dist(end), g1.Dist(a)))
			if e > tol {
				c.Violationf(api+"/shared-corner-segment", wit(got), "reported segment is %g away from the constructed one", e)
			}
		}
		check("model3d.Triangle.TriangleCollisions", lt1.TriangleCollisions(lt2))
		check("model3d.Triangle.TriangleCollisions", lt2.TriangleCollisions(lt1))
		// the same pair inside a mesh collider together with unrelated far triangles
		// (a translated copy of T1, far from both triangles)
		off := V3{X: 10 * (size + h), Y: 3 * (size + h)}
		tris := []*model3d.Triangle{lt1, {t1[0].Add(off).C3(), t1[1].Add(off).C3(), t1[2].Add(off).C3()}}
		mc := model3d.GroupedTrianglesToCollider(tris)
		check("model3d.GroupedTrianglesToCollider.TriangleCollisions", mc.TriangleCollisions(lt2))
		// a folded two-triangle sheet: the library's self-intersection count must see it
		mesh := model3d.NewMesh()
		mesh.Add(lt1)
		mesh.Add(lt2)
		c.Count("clause.self_intersections_shared_corner", 1)
		if si := mesh.SelfIntersections(); si == 0 {
			c.Violationf("model3d.Mesh.SelfIntersections/shared-corner-crossing", wit(nil),
				"SelfIntersections()=0 for two triangles that share one corner and cross along a segment of length %g", wantLen)
		}
	})
}

// anchoredTriangleQueries: query triangles with one corner exactly on a vertex
// of the collider's mesh. Called from the mesh-collider sections.
func anchoredTriangleQueries(c *kase, s *subject3, n int) {
	mc, ok := s.coll.(model3d.MultiCollider)
	if !ok {
		return
	}
	rng := c.Rng
	m := s.mesh
	size := m.Size()
	for i := 0; i < n; i++ {
		t := m.Tris[rng.Intn(len(m.Tris))]
		a := t[rng.Intn(3)]
		q := [3]V3{a, a.Add(randUnit3(rng).Scale(size * (0.2 + 1.5*rng.Float64()))), a.Add(randUnit3(rng).Scale(size * (0.2 + 1.5*rng.Float64())))}
		qn := q[1].Sub(q[0]).Cross(q[2].Sub(q[0]))
		if qn.Norm() < 1e-2*size*size {
			continue
		}
		qn = qn.Unit()
		// conditioning: no triangle close to the anchor may be near-coplanar with the query,
		// and the query's far edges must not graze any vertex (checked through the margin of the
		// reference on the nudged query below)
		// and the line in which a triangle at the anchor meets the query's plane must not run
		// along one of the query's two edges at the anchor (there the start of the intersection
		// moves by nudge/angle).
		bad := false
		e1, e2 := q[1].Sub(q[0]).Unit(), q[2].Sub(q[0]).Unit()
		for _, mt := range m.Tris {
			tn := mt[1].Sub(mt[0]).Cross(mt[2].Sub(mt[0]))
			if tn.Norm() == 0 {
				bad = true
				break
			}
			tn = tn.Unit()
			if math.Abs(tn.Dot(qn)) > 1-1e-6 {
				bad = true
				break
			}
			if mt[0] != a && mt[1] != a && mt[2] != a {
				continue
			}
			if math.Abs(tn.Dot(qn)) > 0.98 {
				bad = true
				break
			}
			l := qn.Cross(tn).Unit()
			if l.Cross(e1).Norm() < 1e-2 || l.Cross(e2).Norm() < 1e-2 {
				bad = true
				break
			}
		}
		if bad {
			c.Undecided("anchored:coplanar")
			continue
		}
		inward := q[1].Sub(q[0]).Unit().Add(q[2].Sub(q[0]).Unit()).Unit()
		nudge := 1e-9 * size
		qq := [3]V3{a.Add(inward.Scale(nudge)), q[1], q[2]}
		// stability of the reference answer: every triangle not at the anchor must be decided with margin
		decided := true
		for _, mt := range m.Tris {
			if mt[0] == a || mt[1] == a || mt[2] == a {
				continue
			}
			st, seg, mg := ref.TriTri(qq, mt)
			if st == 0 || mg <= tolQuery*size || (st == 1 && seg[0].Dist(seg[1]) < 1e-4*size) {
				decided = false
				break
			}
		}
		if !decided {
			c.Undecided("anchored:margin")
			continue
		}
		length := func(segs []model3d.Segment) float64 {
			l := 0.0
			for _, g := range segs {
				l += ref.From3(g[0]).Dist(ref.From3(g[1]))
			}
			return l
		}
		got := mc.TriangleCollisions(&model3d.Triangle{q[0].C3(), q[1].C3(), q[2].C3()})
		got2 := mc.TriangleCollisions(&model3d.Triangle{qq[0].C3(), qq[1].C3(), qq[2].C3()})
		c.Count("clause.triangle_anchored_at_vertex", 1)
		l1, l2 := length(got), length(got2)
		if l2 > 1e-3*size {
			c.Count("clause.triangle_anchored_intersecting", 1)
		}
		if math.Abs(l1-l2) > 1e-5*size {
			c.Violationf(s.api+".TriangleCollisions/anchored-at-vertex", map[string]interface{}{"collider": s.ref.Describe(), "query": describeTri(q), "nudged": describeTri(qq)},
				"query triangle with a corner exactly on a mesh vertex: total intersection length %g (%d segments); with the corner moved by 1e-9 sizes into the query triangle: %g (%d segments)", l1, len(got), l2, len(got2))
		}
	}
}
