package main

import (
	"math"
	"math/rand"
	"sort"

	"github.com/unixpickle/model3d/model3d"
	ref "verif/vlib/c07ref"
)

// refSolid is the harness's own Solid: membership is the sign of the exact
// reference signed distance, so the SolidCollider's only input is trusted.
type refSolid struct {
	sh     ref.Shape3
	mn, mx model3d.Coord3D
}

func (r *refSolid) Min() model3d.Coord3D { return r.mn }
func (r *refSolid) Max() model3d.Coord3D { return r.mx }
func (r *refSolid) Contains(c model3d.Coord3D) bool {
	if c.X < r.mn.X || c.Y < r.mn.Y || c.Z < r.mn.Z || c.X > r.mx.X || c.Y > r.mx.Y || c.Z > r.mx.Z {
		return false
	}
	return r.sh.SDF(ref.From3(c)) >= 0
}

// minFeature is the smallest thickness of the solid or of a hole in it.
func minFeature(sh ref.Shape3) float64 {
	switch s := sh.(type) {
	case *ref.Sphere:
		return 2 * s.R
	case *ref.Box:
		d := s.Max.Sub(s.Min)
		return math.Min(d.X, math.Min(d.Y, d.Z))
	case *ref.Cylinder:
		return math.Min(2*s.R, s.P1.Dist(s.P2))
	case *ref.Capsule:
		return 2 * s.R
	case *ref.Cone:
		// the cone tapers to nothing at the apex; use the base as scale and let
		// the per-ray separation margin exclude thin chords
		return math.Min(s.R, s.Tip.Dist(s.Base))
	case *ref.Torus:
		return math.Min(2*s.R2, 2*(s.R-s.R2))
	}
	return sh.Size()
}

func solidSubject3(rng *rand.Rand) *subject3 {
	var p *subject3
	for {
		p = primitive3(rng, rng.Intn(6))
		if minFeature(p.ref) >= 0.15*p.ref.Size() {
			break
		}
	}
	eps := minFeature(p.ref) / 10 * (0.3 + 0.7*rng.Float64())
	pad := 0.0
	if rng.Intn(2) == 0 {
		pad = eps * 3 * rng.Float64()
	}
	var mn, mx V3
	if b, ok := p.ref.(*ref.Box); ok {
		mn, mx = b.Min, b.Max // bounds coincide with the surface
	} else {
		r := p.ref.Size()
		mn, mx = p.ref.Center().Sub(V3{r, r, r}), p.ref.Center().Add(V3{r, r, r})
	}
	mn, mx = mn.Sub(V3{pad, pad, pad}), mx.Add(V3{pad, pad, pad})
	sc := &model3d.SolidCollider{Solid: &refSolid{sh: p.ref, mn: mn.C3(), mx: mx.C3()}, Epsilon: eps}
	if rng.Intn(3) == 0 {
		sc.NormalBisectEpsilon = eps / 10
	}
	return &subject3{api: "model3d.SolidCollider", coll: sc, ref: p.ref, normal: normApprox, far: 20, approxEps: eps}
}

// checkApproxHits3 is the reference comparison for an epsilon-marching
// collider: decided only when every inside/outside stretch of the ray is longer
// than 3 epsilon and crossings are not shallow.
func checkApproxHits3(c *kase, s *subject3, o, d V3, j judged3, got []model3d.RayCollision, n1 int) {
	eps := s.approxEps
	dn := d.Norm()
	if math.Abs(j.sdfO) < 2*eps {
		c.Undecided("solidcollider:origin-within-2eps")
		return
	}
	prev := 0.0
	for _, h := range j.hits {
		if h.Tang < 0.2 {
			c.Undecided("solidcollider:shallow")
			return
		}
		if (h.T-prev)*dn < 3*eps {
			c.Undecided("solidcollider:stretch-shorter-than-3eps")
			return
		}
		prev = h.T
	}
	c.Count(s.api+".rays_general", 1)
	c.Count("clause.hit_set", 1)
	w := func() map[string]interface{} {
		return s.witness(o, d, map[string]interface{}{"epsilon": eps, "returned": n1, "callbacks": describeHits(got), "reference_hits": describeRef(j.hits), "reference_sdf_origin": j.sdfO})
	}
	if n1 != len(j.hits) {
		c.Violationf(s.api+".RayCollisions/hit-count", w(), "reported %d collisions, reference %d (all stretches > 3 eps)", n1, len(j.hits))
		return
	}
	c.Count("clause.parity", 1)
	c.Count(s.api+".parity_decided", 1)
	if (n1%2 == 1) != (j.sdfO > 0) {
		c.Violationf(s.api+".RayCollisions/parity", w(), "count %d but origin inside=%v", n1, j.sdfO > 0)
	}
	if len(got) != n1 {
		return
	}
	sorted := append([]model3d.RayCollision{}, got...)
	sort.Slice(sorted, func(i, k int) bool { return sorted[i].Scale < sorted[k].Scale })
	for i, h := range j.hits {
		if !(math.Abs(sorted[i].Scale-h.T)*dn <= eps) {
			c.Violationf(s.api+".RayCollisions/hit-set", w(), "hit %d: Scale %g, reference %g: more than epsilon=%g apart", i, sorted[i].Scale, h.T, eps)
			return
		}
		c.Max("solidcollider.worst_hit_error_in_eps", math.Abs(sorted[i].Scale-h.T)*dn/eps)
		sc := s.coll.(*model3d.SolidCollider)
		if sc.NormalBisectEpsilon == 0 && h.Feat > 3*eps {
			// averaging estimator: 40 half-space samples; |angle| > 70 degrees
			// has probability far below 1e-30
			c.Count("clause.normal_outward", 1)
			if dot := ref.From3(sorted[i].Normal).Dot(h.N); !(dot > 0.3) {
				c.Violationf(s.api+".RayCollisions/normal-outward", w(), "approximate normal has dot %g with the outward normal", dot)
			}
		}
	}
}

// checkSolidBall checks SolidCollider.SphereCollision, which is documented as
// "the solid touches the sphere" (volume, not surface).
func checkSolidBall(c *kase, s *subject3) {
	rng := c.Rng
	eps := s.approxEps
	size := s.ref.Size()
	ctr := s.ref.Center().Add(randUnit3(rng).Scale(size * 1.6 * rng.Float64()))
	r := eps * (0.5 + 6*rng.Float64())
	sd := s.ref.SDF(ctr)
	var want, decided bool
	switch {
	case sd < -(r + 1e-9*size):
		want, decided = false, true
	case sd >= 2*eps && r >= 2*eps:
		// the ball of radius sqrt(3)*eps around the centre is inside both the
		// solid and the query ball and must contain a lattice sample
		want, decided = true, true
	}
	c.Count(s.api+".balls", 1)
	if !decided {
		c.Undecided("solidcollider-ball:margin")
		return
	}
	c.Count("clause.ball", 1)
	c.Count(s.api+".balls_decided", 1)
	if got := s.coll.SphereCollision(ctr.C3(), r); got != want {
		c.Violationf(s.api+".SphereCollision/solid-touch", map[string]interface{}{"collider": s.ref.Describe(), "epsilon": eps, "center": hex3(ctr), "radius": r, "reference_sdf": sd},
			"SphereCollision=%v but the centre's signed distance is %g, r=%g, eps=%g", got, sd, r, eps)
	}
}
