package main

import "verif/vlib"

// kase buffers the evidence counters of one case locally and hands them to the
// (mutex-protected) run once, at the end of the case: the checks bump a dozen
// counters per ray, which otherwise serialises the worker goroutines.
type kase struct {
	*vlib.Case
	counts    map[string]int64
	maxima    map[string]float64
	undecided map[string]int64
	nontriv   int
	reported  map[string]bool
}

func newKase(c *vlib.Case) *kase {
	return &kase{Case: c, counts: map[string]int64{}, maxima: map[string]float64{}, undecided: map[string]int64{}, reported: map[string]bool{}}
}

func (k *kase) Count(name string, n int64) { k.counts[name] += n }
func (k *kase) Max(name string, v float64) {
	if old, ok := k.maxima[name]; !ok || v > old {
		k.maxima[name] = v
	}
}
func (k *kase) Undecided(reason string) { k.undecided[reason]++ }

// Violations are reported once per case and key (so the count printed for a
// key is the number of CASES in which it fired, not the number of rays), and
// witnesses are built lazily: on a tree with a systematic defect every ray of a
// case would otherwise format a witness that is thrown away.
func (k *kase) fired(key string) bool { return k.reported[key] }

func (k *kase) Violate(key string, witness func() map[string]interface{}, format string, args ...interface{}) {
	if k.reported[key] {
		return
	}
	k.reported[key] = true
	k.Case.Violationf(key, witness(), format, args...)
}

func (k *kase) Violationf(key string, witness interface{}, format string, args ...interface{}) {
	if k.reported[key] {
		return
	}
	k.reported[key] = true
	k.Case.Violationf(key, witness, format, args...)
}

// Nontrivial registers at most four signatures per case in the run-wide set
// (memory: the thorough tier sees ~3e7 non-trivial rays); all of them are
// counted in rays_nontrivial.
func (k *kase) Nontrivial(sig string) {
	k.counts["rays_nontrivial"]++
	if k.nontriv < 4 {
		k.nontriv++
		k.Case.Nontrivial(sig)
	}
}

func (k *kase) flush() {
	for n, v := range k.counts {
		k.Case.Count(n, v)
	}
	for n, v := range k.maxima {
		k.Case.Max(n, v)
	}
	for n, v := range k.undecided {
		for i := int64(0); i < v; i++ {
			k.Case.Undecided(n)
		}
	}
}

// section runs fn with a buffering case; the buffer is flushed even when the
// case panics (the framework records the panic as a violation).
func section(r *vlib.Run, name string, n int, fn func(c *kase)) {
	r.Section(name, n, vlib.SectionOpts{}, func(c *vlib.Case) {
		k := newKase(c)
		defer k.flush()
		fn(k)
	})
}
