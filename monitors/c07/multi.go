package main

import (
	"fmt"
	"math"
	"math/rand"

	"github.com/unixpickle/model3d/model2d"
	"github.com/unixpickle/model3d/model3d"
	ref "verif/vlib/c07ref"
)

const tolQuery = 1e-7 // stability margin (relative to size) required of a reference answer

func nearPoint3(rng *rand.Rand, m *ref.Mesh) V3 {
	switch rng.Intn(3) {
	case 0: // near a random vertex / face point
		t := m.Tris[rng.Intn(len(m.Tris))]
		a, b := rng.Float64(), rng.Float64()
		if a+b > 1 {
			a, b = 1-a, 1-b
		}
		p := t[0].Add(t[1].Sub(t[0]).Scale(a)).Add(t[2].Sub(t[0]).Scale(b))
		return p.Add(randUnit3(rng).Scale(m.Size() * logUniform(rng, -3, -0.3)))
	case 1:
		return m.Center().Add(randUnit3(rng).Scale(m.Size() * math.Cbrt(rng.Float64())))
	default:
		return m.Center().Add(randUnit3(rng).Scale(m.Size() * (1 + rng.Float64())))
	}
}

func describeTri(t [3]V3) string {
	return fmt.Sprintf("[%s %s %s]", hex3(t[0]), hex3(t[1]), hex3(t[2]))
}

// checkMulti3 checks SegmentCollision, RectCollision and TriangleCollisions of
// a triangle-based MultiCollider against brute force over the raw triangles.
func checkMulti3(c *kase, s *subject3, n int) {
	mc, ok := s.coll.(model3d.MultiCollider)
	if !ok {
		c.Violation(s.api+"/is-multicollider", "collider built from triangles does not implement MultiCollider", nil)
		return
	}
	rng := c.Rng
	m := s.mesh
	size := m.Size()
	tol := tolQuery * size
	for i := 0; i < n; i++ {
		// --- segment
		p0, p1 := nearPoint3(rng, m), nearPoint3(rng, m)
		if p0.Dist(p1) > 1e-6*size {
			want, decided := false, true
			for _, t := range m.Tris {
				hit, _, mg := ref.SegTri(p0, p1, t)
				if hit && mg > tol {
					want = true
					decided = true
					break
				}
				if mg <= tol {
					decided = false
				}
			}
			c.Count(s.api+".segment_queries", 1)
			if !decided {
				c.Undecided("segment3:margin")
			} else {
				got := mc.SegmentCollision(model3d.NewSegment(p0.C3(), p1.C3()))
				c.Count("clause.segment", 1)
				if want {
					c.Count("clause.segment_true", 1)
				}
				if got != want {
					c.Violationf(s.api+".SegmentCollision/intersects", map[string]interface{}{"collider": s.ref.Describe(), "p0": hex3(p0), "p1": hex3(p1), "p0_dec": dec3(p0), "p1_dec": dec3(p1)},
						"SegmentCollision=%v, brute-force segment/triangle test says %v", got, want)
				}
			}
			// the 3D Segment's own box test
			bc := nearPoint3(rng, m)
			bh := V3{size * logUniform(rng, -2, 0), size * logUniform(rng, -2, 0), size * logUniform(rng, -2, 0)}
			mn, mx := bc.Sub(bh), bc.Add(bh)
			q0, q1 := nearPoint3(rng, m), nearPoint3(rng, m)
			if depth := ref.SegBoxDepth3(q0, q1, mn, mx); math.Abs(depth) > tol && mx.X > mn.X && mx.Y > mn.Y && mx.Z > mn.Z && q0.Dist(q1) > 1e-6*size {
				c.Count("clause.segment_rect", 1)
				got := model3d.NewSegment(q0.C3(), q1.C3()).RectCollision(&model3d.Rect{MinVal: mn.C3(), MaxVal: mx.C3()})
				if got != (depth > 0) {
					c.Violationf("model3d.Segment.RectCollision/intersects", map[string]interface{}{"q0": hex3(q0), "q1": hex3(q1), "rect_min": hex3(mn), "rect_max": hex3(mx), "depth": depth},
						"Segment.RectCollision=%v, the segment's deepest point has box sdf %g", got, depth)
				}
			}
		}
		// --- rect
		{
			ctr := nearPoint3(rng, m)
			h := V3{size * logUniform(rng, -2.5, 0), size * logUniform(rng, -2.5, 0), size * logUniform(rng, -2.5, 0)}
			mn, mx := ctr.Sub(h), ctr.Add(h)
			want, decided := false, true
			for _, t := range m.Tris {
				g := ref.BoxTri(mn, mx, t)
				if g < -tol {
					want = true
					decided = true
					break
				}
				if g <= tol {
					decided = false
				}
			}
			c.Count(s.api+".rect_queries", 1)
			if !decided {
				c.Undecided("rect3:margin")
			} else {
				got := mc.RectCollision(&model3d.Rect{MinVal: mn.C3(), MaxVal: mx.C3()})
				c.Count("clause.rect", 1)
				if want {
					c.Count("clause.rect_true", 1)
				}
				if got != want {
					c.Violationf(s.api+".RectCollision/intersects", map[string]interface{}{"collider": s.ref.Describe(), "rect_min": hex3(mn), "rect_max": hex3(mx), "rect_min_dec": dec3(mn), "rect_max_dec": dec3(mx)},
						"RectCollision=%v, separating-axis test over all triangles says %v", got, want)
				}
			}
		}
		// --- triangle
		{
			a := nearPoint3(rng, m)
			q := [3]V3{a, a.Add(randUnit3(rng).Scale(size * (0.2 + 1.5*rng.Float64()))), a.Add(randUnit3(rng).Scale(size * (0.2 + 1.5*rng.Float64())))}
			qn := q[1].Sub(q[0]).Cross(q[2].Sub(q[0]))
			if qn.Norm() < 1e-3*size*size {
				continue
			}
			qn = qn.Unit()
			var want [][2]V3
			decided := true
			for _, t := range m.Tris {
				st, seg, mg := ref.TriTri(q, t)
				if st == 0 || mg <= tol {
					decided = false
					break
				}
				if st == 1 {
					tn := t[1].Sub(t[0]).Cross(t[2].Sub(t[0])).Unit()
					if math.Abs(tn.Dot(qn)) > 1-1e-6 || seg[0].Dist(seg[1]) < 1e-4*size {
						decided = false
						break
					}
					want = append(want, seg)
				}
			}
			c.Count(s.api+".triangle_queries", 1)
			if !decided {
				c.Undecided("triangle3:margin")
				continue
			}
			lt := &model3d.Triangle{q[0].C3(), q[1].C3(), q[2].C3()}
			got := mc.TriangleCollisions(lt)
			c.Count("clause.triangle", 1)
			if len(want) > 0 {
				c.Count("clause.triangle_intersecting", 1)
			}
			w := func() map[string]interface{} {
				var gs, ws []string
				for _, g := range got {
					gs = append(gs, dec3(ref.From3(g[0]))+"-"+dec3(ref.From3(g[1])))
				}
				for _, g := range want {
					ws = append(ws, dec3(g[0])+"-"+dec3(g[1]))
				}
				return map[string]interface{}{"collider": s.ref.Describe(), "query": describeTri(q), "got": gs, "want": ws}
			}
			if len(got) != len(want) {
				c.Violationf(s.api+".TriangleCollisions/segment-count", w(), "TriangleCollisions returned %d segments, brute force finds %d crossing triangles", len(got), len(want))
				continue
			}
			used := make([]bool, len(want))
			for _, g := range got {
				g0, g1 := ref.From3(g[0]), ref.From3(g[1])
				found := false
				for k, ws := range want {
					if used[k] {
						continue
					}
					e := math.Min(math.Max(g0.Dist(ws[0]), g1.Dist(ws[1])), math.Max(g0.Dist(ws[1]), g1.Dist(ws[0])))
					if e <= 1e-6*size {
						used[k] = true
						found = true
						break
					}
				}
				if !found {
					c.Violationf(s.api+".TriangleCollisions/segment-endpoints", w(), "a returned segment matches no reference intersection segment")
					break
				}
			}
		}
	}
}

// ---------------------------------------------------------------------------
// 2D

func nearPoint2(rng *rand.Rand, m *ref.Segs2) V2 {
	switch rng.Intn(3) {
	case 0:
		g := m.Segs[rng.Intn(len(m.Segs))]
		p := g[0].Add(g[1].Sub(g[0]).Scale(rng.Float64()))
		return p.Add(randUnit2(rng).Scale(m.Size() * logUniform(rng, -3, -0.3)))
	case 1:
		return m.Center().Add(randUnit2(rng).Scale(m.Size() * math.Sqrt(rng.Float64())))
	default:
		return m.Center().Add(randUnit2(rng).Scale(m.Size() * (1 + rng.Float64())))
	}
}

func checkMulti2(c *kase, s *subject2, n int) {
	mc, ok := s.coll.(model2d.MultiCollider)
	if !ok {
		c.Violation(s.api+"/is-multicollider", "collider built from segments does not implement MultiCollider", nil)
		return
	}
	rng := c.Rng
	m := s.segs
	size := m.Size()
	tol := tolQuery * size
	for i := 0; i < n; i++ {
		p0, p1 := nearPoint2(rng, m), nearPoint2(rng, m)
		if p0.Dist(p1) > 1e-6*size {
			want, decided := false, true
			for _, g := range m.Segs {
				hit, mg := ref.SegSeg2(p0, p1, g[0], g[1])
				if hit && mg > tol {
					want, decided = true, true
					break
				}
				if mg <= tol {
					decided = false
				}
			}
			c.Count(s.api+".segment_queries", 1)
			if !decided {
				c.Undecided("segment2:margin")
			} else {
				got := mc.SegmentCollision(&model2d.Segment{p0.C2(), p1.C2()})
				c.Count("clause.segment", 1)
				if want {
					c.Count("clause.segment_true", 1)
				}
				if got != want {
					c.Violationf(s.api+".SegmentCollision/intersects", map[string]interface{}{"collider": s.ref.Describe(), "p0": hex2(p0), "p1": hex2(p1), "p0_dec": dec2(p0), "p1_dec": dec2(p1)},
						"SegmentCollision=%v, brute-force segment/segment test says %v", got, want)
				}
			}
		}
		ctr := nearPoint2(rng, m)
		h := V2{size * logUniform(rng, -2.5, 0), size * logUniform(rng, -2.5, 0)}
		mn, mx := ctr.Sub(h), ctr.Add(h)
		want, decided := false, true
		for _, g := range m.Segs {
			d := ref.SegRectDepth2(g[0], g[1], mn, mx)
			if d > tol {
				want, decided = true, true
				break
			}
			if d >= -tol {
				decided = false
			}
		}
		c.Count(s.api+".rect_queries", 1)
		if !decided {
			c.Undecided("rect2:margin")
			continue
		}
		got := mc.RectCollision(&model2d.Rect{MinVal: mn.C2(), MaxVal: mx.C2()})
		c.Count("clause.rect", 1)
		if want {
			c.Count("clause.rect_true", 1)
		}
		if got != want {
			c.Violationf(s.api+".RectCollision/intersects", map[string]interface{}{"collider": s.ref.Describe(), "rect_min": hex2(mn), "rect_max": hex2(mx), "rect_min_dec": dec2(mn), "rect_max_dec": dec2(mx)},
				"RectCollision=%v, brute force over all segments says %v", got, want)
		}
	}
}
