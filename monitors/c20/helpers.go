package main

// Convenience objects of the renderer: Objectify (a mesh, collider or object
// wrapped with a colouring function) must be hit exactly where the wrapped
// collider is hit and hand the colouring function the hit point and the hit;
// a ParticipatingMedium must report collisions only inside its collider, at
// path lengths that are exponentially distributed with rate Lambda.

import (
	"fmt"
	"math"

	"github.com/unixpickle/model3d/model3d"
	"github.com/unixpickle/model3d/render3d"
	"verif/vlib"
)

func helperObjects(r *vlib.Run) {
	r.Section("objects.objectify", r.N(600, 12000), vlib.SectionOpts{}, func(c *vlib.Case) {
		rng := c.Rng
		mesh := randMesh(rng)
		coll := model3d.MeshToCollider(mesh)
		type call struct {
			p  C3
			rc model3d.RayCollision
		}
		var calls []call
		colour := func(p C3) render3d.Color {
			return render3d.NewColorRGB(0.2+0.5*math.Abs(math.Sin(p.X*3)), 0.2+0.5*math.Abs(math.Sin(p.Y*5)), 0.3)
		}
		cf := func(p C3, rc model3d.RayCollision) render3d.Color {
			calls = append(calls, call{p, rc})
			return colour(p)
		}
		kind := rng.Intn(4)
		var obj render3d.Object
		switch kind {
		case 0:
			obj = render3d.Objectify(mesh, cf)
		case 1:
			obj = render3d.Objectify(coll, cf)
		case 2:
			obj = render3d.Objectify(&render3d.ColliderObject{Collider: coll, Material: &render3d.LambertMaterial{DiffuseColor: render3d.NewColor(0.4)}}, cf)
		default:
			obj = render3d.Objectify(mesh, render3d.TriangleColorFunc(func(t *model3d.Triangle) [3]float64 {
				calls = append(calls, call{t[0].Add(t[1]).Add(t[2]).Scale(1.0 / 3), model3d.RayCollision{Extra: &model3d.TriangleCollision{Triangle: t}}})
				return [3]float64{0.5, 0.25, 0.125}
			}))
		}
		wit := map[string]interface{}{"kind": kind, "faces": mesh.NumTriangles()}
		if obj.Min() != coll.Min() || obj.Max() != coll.Max() {
			c.Violation("render3d.Objectify/bounds", fmt.Sprintf("bounds %v..%v, the wrapped surface has %v..%v", obj.Min(), obj.Max(), coll.Min(), coll.Max()), wit)
			return
		}
		ctr, size := coll.Min().Mid(coll.Max()), coll.Max().Dist(coll.Min())
		ratio := math.NaN()
		for k := 0; k < 20; k++ {
			o := ctr.Add(vlib.RandUnit3(rng).Scale(size * (0.7 + rng.Float64())))
			ray := &model3d.Ray{Origin: o, Direction: ctr.Add(vlib.RandUnit3(rng).Scale(0.4 * size * rng.Float64())).Sub(o).Scale(0.2 + 2*rng.Float64())}
			want, wok := coll.FirstRayCollision(copyRay(ray))
			calls = calls[:0]
			got, mat, gok := obj.Cast(copyRay(ray))
			c.Count("objects.objectify.casts", 1)
			if gok != wok || (wok && (got.Scale != want.Scale || got.Normal != want.Normal)) {
				c.Violation("render3d.Objectify/hit-where-the-wrapped-surface-is", fmt.Sprintf("ray %v: hit=%v at %g normal %v; the wrapped collider: hit=%v at %g normal %v", *ray, gok, got.Scale, got.Normal, wok, want.Scale, want.Normal), wit)
				return
			}
			if !wok {
				if len(calls) != 0 {
					c.Violation("render3d.Objectify/colour-function-called-on-hits-only", "the colouring function was called for a ray that misses", wit)
					return
				}
				continue
			}
			hit := ray.Origin.Add(ray.Direction.Scale(want.Scale))
			if len(calls) != 1 {
				c.Violation("render3d.Objectify/colour-function-called-once-per-hit", fmt.Sprintf("%d calls for one hit", len(calls)), wit)
				return
			}
			if kind == 3 {
				t := calls[0].rc.Extra.(*model3d.TriangleCollision).Triangle
				if d := vlib.MinDistToTris(hit, []vlib.Tri{{t[0], t[1], t[2]}}); d > 1e-9*(1+size) {
					c.Violation("render3d.TriangleColorFunc/triangle-that-was-hit", fmt.Sprintf("the triangle handed to the colouring function is %g away from the hit point", d), wit)
					return
				}
			} else if calls[0].p.Dist(hit) > 1e-12*(1+hit.Norm()+size) || calls[0].rc.Scale != want.Scale {
				c.Violation("render3d.Objectify/colour-function-gets-the-hit", fmt.Sprintf("called with point %v and parameter %g; the hit is at %v, parameter %g", calls[0].p, calls[0].rc.Scale, hit, want.Scale), wit)
				return
			}
			pm, ok := mat.(*render3d.PhongMaterial)
			if !ok {
				c.Violation("render3d.Objectify/material", fmt.Sprintf("material of a coloured hit is %T", mat), wit)
				return
			}
			col := render3d.NewColorRGB(0.5, 0.25, 0.125)
			if kind != 3 {
				col = colour(hit)
			}
			// diffuse and ambient colours are the function's colour times constants of the helper
			rd, ra := pm.DiffuseColor.X/col.X, pm.AmbientColor.X/col.X
			if pm.DiffuseColor.Dist(col.Scale(rd)) > 1e-12 || pm.AmbientColor.Dist(col.Scale(ra)) > 1e-12 || !(rd > 0) || !(ra >= 0) {
				c.Violation("render3d.Objectify/material-has-the-function's-colour", fmt.Sprintf("diffuse %v ambient %v for colour %v", pm.DiffuseColor, pm.AmbientColor, col), wit)
				return
			}
			if !math.IsNaN(ratio) && math.Abs(rd-ratio) > 1e-12 {
				c.Violation("render3d.Objectify/material-has-the-function's-colour", fmt.Sprintf("diffuse/colour ratio %g at this hit, %g at an earlier one", rd, ratio), wit)
				return
			}
			ratio = rd
			c.Count("objects.objectify.coloured_hits", 1)
		}
		c.Nontrivial(fmt.Sprint("objectify", kind, mesh.NumTriangles()))
	})

	r.Section("objects.medium", r.N(60, 1200), vlib.SectionOpts{}, func(c *vlib.Case) {
		rng := c.Rng
		ctr := model3d.XYZ(rng.NormFloat64(), rng.NormFloat64(), rng.NormFloat64())
		rad := 0.5 + 2*rng.Float64()
		lambda := math.Exp(rng.NormFloat64()) / rad
		mat := &render3d.HGMaterial{G: 0.3, ScatterColor: render3d.NewColor(0.9)}
		med := &render3d.ParticipatingMedium{Collider: &model3d.Sphere{Center: ctr, Radius: rad}, Material: mat, Lambda: lambda}
		if med.Min() != ctr.Sub(model3d.XYZ(rad, rad, rad)) || med.Max() != ctr.Add(model3d.XYZ(rad, rad, rad)) {
			c.Violation("render3d.ParticipatingMedium/bounds", "bounds are not the collider's", nil)
			return
		}
		dir := vlib.RandUnit3(rng)
		speed := math.Exp(rng.NormFloat64()) // the direction need not be a unit vector
		inside := rng.Intn(3) == 0
		// a line through a point at distance b*rad from the centre
		b := 0.9 * rng.Float64()
		u, _ := dir.OrthoBasis()
		through := ctr.Add(u.Scale(b * rad))
		half := rad * math.Sqrt(1-b*b)
		origin := through.Sub(dir.Scale(half + rad*(0.5+rng.Float64())))
		enter := through.Sub(dir.Scale(half)).Sub(origin).Norm()
		if inside {
			origin = through.Add(dir.Scale(half * (2*rng.Float64() - 1) * 0.9))
			enter = 0
		}
		exit := through.Add(dir.Scale(half)).Sub(origin).Norm()
		L := exit - enter
		wit := map[string]interface{}{"center": ctr, "radius": rad, "lambda": lambda, "origin": origin, "direction": dir.Scale(speed), "chord": L, "origin_inside": inside}
		n := 4000
		hits, firstHalf := 0, 0
		for i := 0; i < n; i++ {
			rc, m, ok := med.Cast(&model3d.Ray{Origin: origin, Direction: dir.Scale(speed)})
			if !ok {
				continue
			}
			hits++
			dist := rc.Scale * speed
			if m != render3d.Material(mat) || dist < enter-1e-9*(1+exit) || dist > exit+1e-9*(1+exit) {
				wit["hit_distance"] = dist
				c.Violation("render3d.ParticipatingMedium.Cast/collision-inside-the-medium", fmt.Sprintf("collision at distance %g along the ray; the ray is inside the medium from %g to %g", dist, enter, exit), wit)
				return
			}
			if math.Abs(rc.Normal.Norm()-1) > 1e-9 {
				c.Violation("render3d.ParticipatingMedium.Cast/unit-normal", fmt.Sprintf("normal %v", rc.Normal), wit)
				return
			}
			if dist-enter < L/2 {
				firstHalf++
			}
		}
		c.Count("objects.medium.casts", int64(n))
		c.Count("objects.medium.hits", int64(hits))
		p := 1 - math.Exp(-lambda*L)
		sd := math.Sqrt(float64(n) * p * (1 - p))
		if math.Abs(float64(hits)-float64(n)*p) > 6*sd+1 {
			c.Violation("render3d.ParticipatingMedium.Cast/collision-probability", fmt.Sprintf("%d of %d rays collided; with rate %g over a path of %g inside the medium the probability is %.4f (expected %.0f +- %.0f)", hits, n, lambda, L, p, float64(n)*p, sd), wit)
			return
		}
		if hits > 200 {
			q := (1 - math.Exp(-lambda*L/2)) / p
			sq := math.Sqrt(float64(hits) * q * (1 - q))
			if math.Abs(float64(firstHalf)-float64(hits)*q) > 6*sq+1 {
				c.Violation("render3d.ParticipatingMedium.Cast/exponential-path-length", fmt.Sprintf("%d of %d collisions in the first half of the path; an exponential law gives %.0f +- %.0f", firstHalf, hits, float64(hits)*q, sq), wit)
				return
			}
		}
		c.Nontrivial(fmt.Sprintf("medium|%g|%g|%v", lambda, L, inside))
	})
}
