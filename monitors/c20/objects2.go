package main

// Composite scenes of real geometry and stacked transforms (property C20: "composite objects
// report the nearest hit among their parts, and a translated, rotated or scaled object is hit
// exactly where the transformed original is").

import (
	"fmt"
	"math"
	"math/rand"

	"github.com/unixpickle/model3d/model3d"
	"github.com/unixpickle/model3d/render3d"
	"verif/vlib"
)

type xformStep struct {
	kind int // 0 translate, 1 rotate, 2 scale, 3 general matrix
	desc string
	f    func(C3) C3
	wrap func(render3d.Object) render3d.Object
	// mirror: the map reverses orientation (negative scale factor, reflecting matrix)
	mirror bool
}

func randStep(rng *rand.Rand, allowGeneral bool) xformStep {
	n := 3
	if allowGeneral {
		n = 4
	}
	switch k := rng.Intn(n); k {
	case 0:
		off := model3d.XYZ(rng.NormFloat64(), rng.NormFloat64(), rng.NormFloat64()).Scale(1.5)
		return xformStep{kind: 0, desc: fmt.Sprintf("translate%v", off), f: off.Add, wrap: func(o render3d.Object) render3d.Object { return render3d.Translate(o, off) }}
	case 1:
		axis, ang := vlib.RandUnit3(rng), rng.Float64()*6
		if rng.Intn(3) == 0 {
			axis = []C3{model3d.X(1), model3d.Y(1), model3d.Z(1)}[rng.Intn(3)]
		}
		rot := model3d.Rotation(axis, ang)
		return xformStep{kind: 1, desc: fmt.Sprintf("rotate(%v,%g)", axis, ang), f: rot.Apply, wrap: func(o render3d.Object) render3d.Object { return render3d.Rotate(o, axis, ang) }}
	case 2:
		s := 0.4 + rng.Float64()*2
		if rng.Intn(3) == 0 {
			s = -s // a point reflection: a scale factor like any other
		}
		return xformStep{kind: 2, desc: fmt.Sprintf("scale(%g)", s), f: func(p C3) C3 { return p.Scale(s) }, wrap: func(o render3d.Object) render3d.Object { return render3d.Scale(o, s) }, mirror: s < 0}
	default:
		m := &model3d.Matrix3{1 + rng.Float64(), 0.3 * rng.NormFloat64(), 0.3 * rng.NormFloat64(), 0.3 * rng.NormFloat64(), 1 + rng.Float64(), 0.3 * rng.NormFloat64(), 0.3 * rng.NormFloat64(), 0.3 * rng.NormFloat64(), 1 + rng.Float64()}
		if rng.Intn(3) == 0 {
			// mirror one axis
			k := rng.Intn(3)
			m[3*k], m[3*k+1], m[3*k+2] = -m[3*k], -m[3*k+1], -m[3*k+2]
		}
		return xformStep{kind: 3, desc: fmt.Sprintf("matrix%v", *m), f: m.MulColumn, wrap: func(o render3d.Object) render3d.Object { return render3d.MatrixMultiply(o, m) }, mirror: m.Det() < 0}
	}
}

func randMesh(rng *rand.Rand) *model3d.Mesh {
	switch rng.Intn(3) {
	case 0:
		return model3d.NewMeshIcosphere(model3d.XYZ(rng.NormFloat64(), rng.NormFloat64(), rng.NormFloat64()), 0.4+rng.Float64(), 1+rng.Intn(3))
	case 1:
		lo := model3d.XYZ(rng.NormFloat64(), rng.NormFloat64(), rng.NormFloat64())
		return model3d.NewMeshRect(lo, lo.Add(model3d.XYZ(0.3+rng.Float64()*2, 0.3+rng.Float64()*2, 0.3+rng.Float64()*2)))
	default:
		return model3d.NewMeshTorus(model3d.XYZ(rng.NormFloat64(), rng.NormFloat64(), rng.NormFloat64()), vlib.RandUnit3(rng), 0.2+0.2*rng.Float64(), 0.7+rng.Float64(), 8, 16)
	}
}

// perturbed returns rays that differ from r by a relative 1e-7 in origin and direction
// (direction components that are exactly zero stay so).
func perturbed(rng *rand.Rand, r *model3d.Ray, n int) []*model3d.Ray {
	var res []*model3d.Ray
	for i := 0; i < n; i++ {
		d := r.Direction.Add(vlib.RandUnit3(rng).Scale(1e-7 * r.Direction.Norm()))
		// exactly zero components (of either sign) are a property of the query, not noise: keep them
		if r.Direction.X == 0 {
			d.X = r.Direction.X
		}
		if r.Direction.Y == 0 {
			d.Y = r.Direction.Y
		}
		if r.Direction.Z == 0 {
			d.Z = r.Direction.Z
		}
		res = append(res, &model3d.Ray{
			Origin:    r.Origin.Add(vlib.RandUnit3(rng).Scale(1e-7 * (1 + r.Origin.Norm()))),
			Direction: d,
		})
	}
	return res
}

func copyRay(r *model3d.Ray) *model3d.Ray {
	return &model3d.Ray{Origin: r.Origin, Direction: r.Direction}
}

func objects2(r *vlib.Run) {
	r.Section("objects.chain", r.N(2000, 40000), vlib.SectionOpts{}, func(c *vlib.Case) {
		rng := c.Rng
		mesh := randMesh(rng)
		base := &render3d.ColliderObject{Collider: model3d.MeshToCollider(mesh), Material: &render3d.LambertMaterial{}}
		n := 1 + rng.Intn(4)
		var obj render3d.Object = base
		tm := mesh
		general, mirrored := false, false
		desc := ""
		for i := 0; i < n; i++ {
			st := randStep(rng, true)
			obj = st.wrap(obj)
			tm = tm.MapCoords(st.f)
			general = general || st.kind == 3
			desc += st.desc + ";"
			if st.mirror {
				mirrored = !mirrored
			}
		}
		c.Count(fmt.Sprintf("objects.chain.depth%d", n), 1)
		if mirrored {
			// an orientation-reversing map turns the faces' winding inside out; the image body's
			// outward normals are those of the re-oriented faces
			tm = tm.InvertNormals()
			c.Count("objects.chain.orientation_reversing", 1)
		}
		ref := model3d.MeshToCollider(tm)
		wit := map[string]interface{}{"chain (innermost first)": desc, "faces": mesh.NumTriangles()}
		if mn, mx := obj.Min(), obj.Max(); mn.X > tm.Min().X+1e-7 || mn.Y > tm.Min().Y+1e-7 || mn.Z > tm.Min().Z+1e-7 || mx.X < tm.Max().X-1e-7 || mx.Y < tm.Max().Y-1e-7 || mx.Z < tm.Max().Z-1e-7 {
			c.Violation("render3d.transformed-object/bounds", fmt.Sprintf("bounds %v..%v do not enclose the transformed mesh %v..%v", mn, mx, tm.Min(), tm.Max()), wit)
			return
		}
		size := tm.Max().Dist(tm.Min())
		ctr := tm.Min().Mid(tm.Max())
		for k := 0; k < 24; k++ {
			ray := &model3d.Ray{Origin: ctr.Add(vlib.RandUnit3(rng).Scale(size * (0.1 + 2*rng.Float64()))), Direction: vlib.RandUnit3(rng).Scale(0.2 + rng.Float64()*3)}
			if k%4 != 0 {
				target := ctr.Add(vlib.RandUnit3(rng).Scale(0.3 * size * rng.Float64()))
				ray.Direction = target.Sub(ray.Origin).Scale(0.2 + rng.Float64())
			}
			want, wok := ref.FirstRayCollision(copyRay(ray))
			got, _, gok := obj.Cast(copyRay(ray))
			c.Count("objects.chain.casts", 1)
			bad := ""
			if wok != gok {
				bad = fmt.Sprintf("hit=%v but the transformed mesh gives hit=%v", gok, wok)
			} else if wok && math.Abs(want.Scale-got.Scale) > 1e-6*(1+want.Scale) {
				bad = fmt.Sprintf("hit parameter %g, casting against the transformed mesh gives %g", got.Scale, want.Scale)
			}
			if bad != "" {
				// decide only if the reference answer is stable under tiny perturbations of the ray
				stable := true
				for _, pr := range perturbed(rng, ray, 6) {
					w2, ok2 := ref.FirstRayCollision(pr)
					if ok2 != wok || (wok && math.Abs(w2.Scale-want.Scale) > 1e-4*(1+want.Scale)) {
						stable = false
					}
				}
				if !stable {
					c.Undecided("chain-cast-near-silhouette")
					continue
				}
				c.Violation("render3d.transformed-object/hit-where-transformed-original-is", fmt.Sprintf("ray %v: %s", *ray, bad), wit)
				return
			}
			if !wok {
				continue
			}
			c.Count("objects.chain.hits_compared", 1)
			if math.Abs(got.Normal.Norm()-1) > 1e-9 {
				c.Violation("render3d.transformed-object/unit-normal", fmt.Sprintf("normal %v has length %g", got.Normal, got.Normal.Norm()), wit)
				return
			}
			if !general && got.Normal.Dist(want.Normal) > 1e-5 {
				// only where the hit is not on an edge shared by differently oriented triangles
				stable := true
				for _, pr := range perturbed(rng, ray, 4) {
					if w2, ok2 := ref.FirstRayCollision(pr); !ok2 || w2.Normal.Dist(want.Normal) > 1e-6 {
						stable = false
					}
				}
				if !stable {
					c.Undecided("chain-normal-near-edge")
					continue
				}
				c.Violation("render3d.transformed-object/normal", fmt.Sprintf("normal %v, transformed mesh normal %v", got.Normal, want.Normal), wit)
				return
			}
		}
		c.Nontrivial("chain" + desc)
	})

	r.Section("objects.scene", r.N(1500, 30000), vlib.SectionOpts{}, func(c *vlib.Case) {
		rng := c.Rng
		n := 2 + rng.Intn(6)
		var parts []render3d.Object
		desc := ""
		// now and then every part is a flat axis-aligned tile in one plane (a floor): the bounding
		// boxes of the parts, and of whole BVH branches, have zero thickness along one axis
		flatAxis := -1
		flatAt := float64(rng.Intn(5) - 2)
		if rng.Intn(4) == 0 {
			flatAxis = rng.Intn(3)
			c.Count("objects.scene.flat_tile_scenes", 1)
		}
		for i := 0; i < n; i++ {
			mesh := randMesh(rng)
			if flatAxis >= 0 {
				u, v := (flatAxis+1)%3, (flatAxis+2)%3
				lo := [3]float64{}
				lo[flatAxis] = flatAt
				lo[u], lo[v] = float64(i%3)*1.5+rng.Float64()*0.3, float64(i/3)*1.5+rng.Float64()*0.3
				corner := func(du, dv float64) C3 {
					a := lo
					a[u] += du
					a[v] += dv
					return model3d.NewCoord3DArray(a)
				}
				mesh = model3d.NewMesh()
				mesh.Add(&model3d.Triangle{corner(0, 0), corner(1, 0), corner(1, 1)})
				mesh.Add(&model3d.Triangle{corner(0, 0), corner(1, 1), corner(0, 1)})
			}
			var o render3d.Object = &render3d.ColliderObject{Collider: model3d.MeshToCollider(mesh), Material: &render3d.LambertMaterial{DiffuseColor: render3d.NewColor(float64(i))}}
			steps := rng.Intn(3)
			if flatAxis >= 0 {
				steps = 0
			}
			for s := 0; s < steps; s++ {
				st := randStep(rng, true)
				o = st.wrap(o)
				desc += st.desc
			}
			desc += "|"
			parts = append(parts, o)
		}
		// arrangement of the composite
		var scene render3d.Object
		arr := rng.Intn(7)
		switch arr {
		case 5:
			// a hierarchy assembled by the caller with wide branches (the BVH type documents "two or
			// more children"): one flat node over all parts
			node := &model3d.BVH[render3d.Object]{}
			for _, p := range parts {
				node.Branch = append(node.Branch, &model3d.BVH[render3d.Object]{Leaf: p})
			}
			scene = render3d.BVHToObject(node)
		case 6:
			// a binary root whose second child is a wide node
			k := 1 + rng.Intn(n-1)
			wide := &model3d.BVH[render3d.Object]{}
			for _, p := range parts[k:] {
				wide.Branch = append(wide.Branch, &model3d.BVH[render3d.Object]{Leaf: p})
			}
			if len(wide.Branch) == 1 {
				wide = wide.Branch[0]
			}
			scene = render3d.BVHToObject(&model3d.BVH[render3d.Object]{Branch: []*model3d.BVH[render3d.Object]{model3d.NewBVHAreaDensity(parts[:k]), wide}})
		case 0:
			scene = render3d.JoinedObject(parts)
		case 1:
			k := 1 + rng.Intn(n-1)
			scene = render3d.JoinedObject{render3d.JoinedObject(parts[:k]), render3d.JoinedObject(parts[k:])}
		case 2:
			scene = render3d.BVHToObject(model3d.NewBVHAreaDensity(parts))
		case 3:
			k := 1 + rng.Intn(n-1)
			a, b := render3d.JoinedObject(parts[:k]), render3d.JoinedObject(parts[k:])
			scene = render3d.JoinedObject{
				&render3d.FilteredObject{Object: a, Bounds: model3d.BoundsRect(a)},
				&render3d.FilteredObject{Object: b, Bounds: model3d.BoundsRect(b)},
			}
		default:
			// a BVH of some parts joined with loose parts, in seeded order
			k := 1 + rng.Intn(n-1)
			j := render3d.JoinedObject{render3d.BVHToObject(model3d.NewBVHAreaDensity(parts[:k]))}
			j = append(j, parts[k:]...)
			rng.Shuffle(len(j), func(a, b int) { j[a], j[b] = j[b], j[a] })
			scene = j
		}
		c.Count(fmt.Sprintf("objects.scene.arrangement%d", arr), 1)
		wit := map[string]interface{}{"parts": desc, "arrangement": arr}
		mn, mx := scene.Min(), scene.Max()
		for _, p := range parts {
			pm, px := p.Min(), p.Max()
			if pm.X < mn.X || pm.Y < mn.Y || pm.Z < mn.Z || px.X > mx.X || px.Y > mx.Y || px.Z > mx.Z {
				c.Violation("render3d.composite-object/bounds", "composite bounds do not enclose a part's bounds", wit)
				return
			}
		}
		size := mx.Dist(mn)
		for k := 0; k < 40; k++ {
			var origin C3
			if k%2 == 0 {
				// inside the scene's bounds (secondary rays, cameras inside the scene)
				origin = model3d.XYZ(mn.X+(mx.X-mn.X)*rng.Float64(), mn.Y+(mx.Y-mn.Y)*rng.Float64(), mn.Z+(mx.Z-mn.Z)*rng.Float64())
			} else {
				origin = mn.Mid(mx).Add(vlib.RandUnit3(rng).Scale(size * (0.6 + rng.Float64())))
			}
			target := model3d.XYZ(mn.X+(mx.X-mn.X)*rng.Float64(), mn.Y+(mx.Y-mn.Y)*rng.Float64(), mn.Z+(mx.Z-mn.Z)*rng.Float64())
			ray := &model3d.Ray{Origin: origin, Direction: target.Sub(origin).Scale(0.2 + 2*rng.Float64())}
			if k%5 == 4 {
				// axis-parallel ray through the target; the other components are zeros of either sign
				// (what negating an axis vector produces)
				var d [3]float64
				for i := range d {
					if rng.Intn(2) == 0 {
						d[i] = math.Copysign(0, -1)
					}
				}
				a := rng.Intn(3)
				d[a] = (0.2 + 2*rng.Float64()) * float64(2*rng.Intn(2)-1)
				dir := model3d.NewCoord3DArray(d)
				ray = &model3d.Ray{Origin: target.Sub(dir.Normalize().Scale(size * (0.1 + rng.Float64()))), Direction: dir}
				c.Count("objects.scene.casts_axis_parallel_signed_zero", 1)
			}
			nearest := func(ry *model3d.Ray) (float64, int) {
				best, idx := math.Inf(1), -1
				for i, p := range parts {
					if rc, _, ok := p.Cast(copyRay(ry)); ok && rc.Scale < best {
						best, idx = rc.Scale, i
					}
				}
				return best, idx
			}
			best, idx := nearest(ray)
			rc, mat, ok := scene.Cast(copyRay(ray))
			c.Count("objects.scene.casts", 1)
			if k%2 == 0 {
				c.Count("objects.scene.casts_from_inside_bounds", 1)
			}
			if idx >= 0 {
				c.Count("objects.scene.rays_hitting_a_part", 1)
			}
			bad := ""
			if ok != (idx >= 0) {
				bad = fmt.Sprintf("composite hit=%v, but nearest part hit: part %d at %g", ok, idx, best)
			} else if ok && rc.Scale != best {
				bad = fmt.Sprintf("composite hit at %g, nearest hit among the parts is part %d at %g", rc.Scale, idx, best)
			}
			if bad != "" {
				// bounding-box filters may lose a hit that grazes the very boundary of a box by rounding:
				// decide only if the same disagreement shows for tiny perturbations of the ray
				robust := true
				for _, pr := range perturbed(rng, ray, 6) {
					b2, i2 := nearest(pr)
					r2, _, ok2 := scene.Cast(copyRay(pr))
					if ok2 == (i2 >= 0) && (!ok2 || r2.Scale == b2) {
						robust = false
					}
				}
				if !robust {
					c.Undecided("scene-cast-grazing-a-filter-box")
					continue
				}
				c.Violation("render3d.composite-object/nearest-hit-among-parts", fmt.Sprintf("ray %v: %s", *ray, bad), wit)
				return
			}
			if ok {
				// the material must be that of a part that attains the minimum
				found := false
				for _, p := range parts {
					if prc, pm, pok := p.Cast(copyRay(ray)); pok && prc.Scale == best && pm == mat {
						found = true
					}
				}
				if !found {
					c.Violation("render3d.composite-object/material-of-nearest-part", fmt.Sprintf("ray %v: material does not belong to a nearest part", *ray), wit)
					return
				}
			}
		}
		c.Nontrivial(fmt.Sprint("scene", arr, desc))
	})
}
