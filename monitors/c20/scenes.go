package main

import (
	"fmt"
	"math"
	"math/rand"

	"github.com/unixpickle/model3d/model3d"
	"github.com/unixpickle/model3d/render3d"
	"verif/vlib"
)

func closedForms(r *vlib.Run) {
	// uniform emitter enclosing the camera: every pixel equals the emission, whatever the settings
	r.Section("closed.uniform", r.N(40, 2000), vlib.SectionOpts{Sequential: true}, func(c *vlib.Case) {
		rng := c.Rng
		cam := randCamera(rng)
		e := render3d.Color{X: 0.1 + rng.Float64(), Y: 0.1 + rng.Float64(), Z: 0.1 + rng.Float64()}
		obj := &render3d.ColliderObject{Collider: &model3d.Sphere{Center: cam.Origin.Add(vlib.RandUnit3(rng).Scale(3)), Radius: 20 + rng.Float64()*30},
			Material: &render3d.LambertMaterial{EmissionColor: e}}
		w, h := 2+rng.Intn(20), 2+rng.Intn(20)
		rt := &render3d.RecursiveRayTracer{Camera: cam, MaxDepth: rng.Intn(3), NumSamples: 1 + rng.Intn(40), MinSamples: rng.Intn(20),
			MaxStddev: []float64{0, 0.01, 1}[rng.Intn(3)], OversaturatedStddevs: []float64{0, 2}[rng.Intn(2)], Antialias: []float64{0, 0.5, 1}[rng.Intn(3)]}
		if rng.Intn(3) == 0 && rt.MinSamples > 0 {
			k := rng.Intn(2) == 0
			rt.Convergence = func(m, s render3d.Color) bool { return k }
		}
		settings := map[string]interface{}{"w": w, "h": h, "MaxDepth": rt.MaxDepth, "NumSamples": rt.NumSamples, "MinSamples": rt.MinSamples, "MaxStddev": rt.MaxStddev,
			"Oversat": rt.OversaturatedStddevs, "Antialias": rt.Antialias, "custom_convergence": rt.Convergence != nil, "emission": fmt.Sprint(e)}
		img := render3d.NewImage(w, h)
		rt.Render(img, obj)
		for idx, px := range img.Data {
			c.Count("closed.uniform_emitter_pixels", 1)
			if !relClose(px, e, 1e-9) {
				c.Violation("render3d.RecursiveRayTracer.Render/uniform-emitter-renders-to-emission", fmt.Sprintf("pixel %d = %v inside a uniform emitter of emission %v (ratio %.6g)", idx, px, e, px.X/e.X), settings)
				return
			}
		}
		// the same scene through the ray caster
		img2 := render3d.NewImage(w, h)
		(&render3d.RayCaster{Camera: cam}).Render(img2, obj)
		for idx, px := range img2.Data {
			if !relClose(px, e, 1e-12) {
				c.Violation("render3d.RayCaster.Render/uniform-emitter-renders-to-emission", fmt.Sprintf("pixel %d = %v, emission %v", idx, px, e), settings)
				return
			}
		}
		c.Nontrivial(fmt.Sprint("uniform", settings))
	})

	// one matte plane lit by one point light, through the ray caster and the ray tracer (depth 0)
	r.Section("closed.lambert", r.N(40, 2000), vlib.SectionOpts{Sequential: true}, func(c *vlib.Case) {
		rng := c.Rng
		// plane z=0 as a large thin box top; camera above looking down-ish
		src := model3d.XYZ(rng.NormFloat64(), rng.NormFloat64(), 3+rng.Float64()*3)
		dst := model3d.XYZ(rng.NormFloat64()*0.5, rng.NormFloat64()*0.5, 0)
		cam := render3d.NewCameraAt(src, dst, 0.3+rng.Float64()*0.6)
		diffuse := render3d.Color{X: 0.1 + 0.8*rng.Float64(), Y: 0.1 + 0.8*rng.Float64(), Z: 0.1 + 0.8*rng.Float64()}
		ambient := render3d.Color{X: 0.05 * rng.Float64()}
		plane := &render3d.ColliderObject{Collider: model3d.NewRect(model3d.XYZ(-100, -100, -1), model3d.XYZ(100, 100, 0)),
			Material: &render3d.LambertMaterial{DiffuseColor: diffuse, AmbientColor: ambient}}
		light := &render3d.PointLight{Origin: model3d.XYZ(rng.NormFloat64()*3, rng.NormFloat64()*3, 1+rng.Float64()*5),
			Color: render3d.Color{X: 0.5 + rng.Float64(), Y: 0.5 + rng.Float64(), Z: 0.5 + rng.Float64()}, QuadDropoff: rng.Intn(2) == 0}
		w, h := 2+rng.Intn(16), 2+rng.Intn(16)
		wit := map[string]interface{}{"camera": fmt.Sprint(src, dst, cam.FieldOfView), "light": fmt.Sprint(*light), "diffuse": fmt.Sprint(diffuse), "w": w, "h": h}
		ph := newPinhole(cam, w, h)
		want := make([]render3d.Color, w*h)
		for y := 0; y < h; y++ {
			for x := 0; x < w; x++ {
				d := ph.x.Scale((float64(x) - ph.cx) / ph.cx).Add(ph.y.Scale((float64(y) - ph.cy) / ph.cy)).Add(ph.z)
				if d.Z >= -1e-6 {
					want[y*w+x] = render3d.Color{X: math.NaN()}
					continue
				}
				t := -src.Z / d.Z
				p := src.Add(d.Scale(t))
				if math.Abs(p.X) > 99 || math.Abs(p.Y) > 99 {
					want[y*w+x] = render3d.Color{X: math.NaN()}
					continue
				}
				toLight := light.Origin.Sub(p)
				dist := toLight.Norm()
				cos := math.Max(0, toLight.Z/dist)
				lc := light.Color
				if light.QuadDropoff {
					lc = lc.Scale(1 / (dist * dist))
				}
				// documented: the brightest part of a lambertian surface has the brightness of the light
				want[y*w+x] = ambient.Add(lc.Mul(diffuse).Scale(cos))
			}
		}
		img := render3d.NewImage(w, h)
		(&render3d.RayCaster{Camera: cam, Lights: []*render3d.PointLight{light}}).Render(img, plane)
		img2 := render3d.NewImage(w, h)
		(&render3d.RecursiveRayTracer{Camera: cam, Lights: []*render3d.PointLight{light}, MaxDepth: 0, NumSamples: 1 + rng.Intn(5)}).Render(img2, plane)
		for idx := range want {
			if math.IsNaN(want[idx].X) {
				continue
			}
			c.Count("closed.lambert_plane_pixels", 1)
			if !relClose(img.Data[idx], want[idx], 1e-9) {
				c.Violation("render3d.RayCaster.Render/lit-matte-plane", fmt.Sprintf("pixel %d = %v, closed form %v", idx, img.Data[idx], want[idx]), wit)
				return
			}
			if !relClose(img2.Data[idx], want[idx], 1e-9) {
				c.Violation("render3d.RecursiveRayTracer.Render/lit-matte-plane", fmt.Sprintf("pixel %d = %v, closed form %v", idx, img2.Data[idx], want[idx]), wit)
				return
			}
		}
		c.Nontrivial(fmt.Sprint("lambert", wit))
	})

	// the matte plane under several point lights with a small ball hovering above it: every visible
	// point of the plane receives exactly the lights whose segment to it misses the ball, whatever
	// the order of the lights in the list (pixels that look at the ball, or whose shadow test
	// passes within 3% of the ball's radius of its surface, are not decided)
	r.Section("closed.shadowed", r.N(60, 2400), vlib.SectionOpts{Sequential: true}, func(c *vlib.Case) {
		rng := c.Rng
		src := model3d.XYZ(rng.NormFloat64(), rng.NormFloat64(), 4+rng.Float64()*3)
		dst := model3d.XYZ(rng.NormFloat64()*0.3, rng.NormFloat64()*0.3, 0)
		cam := render3d.NewCameraAt(src, dst, 0.4+rng.Float64()*0.4)
		diffuse := render3d.Color{X: 0.1 + 0.8*rng.Float64(), Y: 0.1 + 0.8*rng.Float64(), Z: 0.1 + 0.8*rng.Float64()}
		plane := &render3d.ColliderObject{Collider: model3d.NewRect(model3d.XYZ(-100, -100, -1), model3d.XYZ(100, 100, 0)),
			Material: &render3d.LambertMaterial{DiffuseColor: diffuse}}
		ball := &model3d.Sphere{Center: model3d.XYZ(rng.NormFloat64()*0.4, rng.NormFloat64()*0.4, 0.6+rng.Float64()), Radius: 0.2 + 0.3*rng.Float64()}
		ballObj := &render3d.ColliderObject{Collider: ball, Material: &render3d.LambertMaterial{DiffuseColor: render3d.NewColor(0.5)}}
		nl := 2 + rng.Intn(3)
		var lights []*render3d.PointLight
		for i := 0; i < nl; i++ {
			lights = append(lights, &render3d.PointLight{Origin: model3d.XYZ(rng.NormFloat64()*3, rng.NormFloat64()*3, 2.5+rng.Float64()*4),
				Color: render3d.Color{X: 0.5 + rng.Float64(), Y: 0.5 + rng.Float64(), Z: 0.5 + rng.Float64()}, QuadDropoff: rng.Intn(2) == 0})
		}
		w, h := 6+rng.Intn(14), 6+rng.Intn(14)
		ph := newPinhole(cam, w, h)
		distToSeg := func(a, b model3d.Coord3D) float64 {
			ab := b.Sub(a)
			t := math.Max(0, math.Min(1, ball.Center.Sub(a).Dot(ab)/ab.Dot(ab)))
			return a.Add(ab.Scale(t)).Dist(ball.Center)
		}
		want := make([]render3d.Color, w*h)
		shadowedSome := make([]bool, w*h)
		for y := 0; y < h; y++ {
			for x := 0; x < w; x++ {
				idx := y*w + x
				d := ph.x.Scale((float64(x) - ph.cx) / ph.cx).Add(ph.y.Scale((float64(y) - ph.cy) / ph.cy)).Add(ph.z)
				want[idx] = render3d.Color{X: math.NaN()}
				if d.Z >= -1e-6 {
					continue
				}
				t := -src.Z / d.Z
				p := src.Add(d.Scale(t))
				if math.Abs(p.X) > 99 || math.Abs(p.Y) > 99 || distToSeg(src, p) < ball.Radius*1.03 {
					continue
				}
				var sum render3d.Color
				decided := true
				for _, l := range lights {
					dl := distToSeg(p, l.Origin)
					if math.Abs(dl-ball.Radius) < 0.03*ball.Radius {
						decided = false
						break
					}
					if dl < ball.Radius {
						shadowedSome[idx] = true
						continue
					}
					toLight := l.Origin.Sub(p)
					dist := toLight.Norm()
					lc := l.Color
					if l.QuadDropoff {
						lc = lc.Scale(1 / (dist * dist))
					}
					sum = sum.Add(lc.Mul(diffuse).Scale(math.Max(0, toLight.Z/dist)))
				}
				if decided {
					want[idx] = sum
				}
			}
		}
		scene := render3d.JoinedObject{plane, ballObj}
		wit := map[string]interface{}{"camera": fmt.Sprint(src, dst, cam.FieldOfView), "ball": fmt.Sprint(*ball), "diffuse": fmt.Sprint(diffuse), "w": w, "h": h}
		for rep := 0; rep < 2; rep++ {
			order := rng.Perm(nl)
			ls := make([]*render3d.PointLight, nl)
			var desc []string
			for i, k := range order {
				ls[i] = lights[k]
				desc = append(desc, fmt.Sprint(*lights[k]))
			}
			wit["lights_in_order"] = desc
			img := render3d.NewImage(w, h)
			(&render3d.RecursiveRayTracer{Camera: cam, Lights: ls, MaxDepth: 0, NumSamples: 1 + rng.Intn(3)}).Render(img, scene)
			for idx := range want {
				if math.IsNaN(want[idx].X) {
					continue
				}
				c.Count("closed.shadowed_plane_pixels", 1)
				if shadowedSome[idx] {
					c.Count("closed.shadowed_plane_pixels_in_some_shadow", 1)
				}
				if !relClose(img.Data[idx], want[idx], 1e-9) && img.Data[idx].Dist(want[idx]) > 1e-12 {
					c.Violation("render3d.RecursiveRayTracer.Render/lit-matte-plane-with-occluder", fmt.Sprintf("pixel %d = %v, closed form %v (lights whose segment to the point misses the ball)", idx, img.Data[idx], want[idx]), wit)
					return
				}
			}
		}
		c.Nontrivial(fmt.Sprint("shadowed", wit))
	})

	// a glossy wall seen in a mirror floor under a point light (MaxDepth 1): the light reflected by
	// the wall towards the floor point depends on the direction wall -> floor, not on where the
	// camera is. Closed form per pixel: floor term + reflectance * cos * (light shading * the
	// wall's BSDF for light direction -> direction back to the floor point); the floor is a
	// caller-defined material with a constant BSDF that always continues along the mirror direction.
	r.Section("closed.mirrored-glossy-wall", r.N(60, 2400), vlib.SectionOpts{Sequential: true}, func(c *vlib.Case) {
		rng := c.Rng
		xw := 2 + rng.Float64()*2
		src := model3d.XYZ(-1-2*rng.Float64(), rng.NormFloat64(), 2+rng.Float64()*3)
		dst := model3d.XYZ(xw*(0.2+0.5*rng.Float64()), rng.NormFloat64()*0.5, 0)
		cam := render3d.NewCameraAt(src, dst, 0.3+rng.Float64()*0.4)
		refl := 0.3 + 0.6*rng.Float64()
		floorMat := &mirrorFloor{k: refl}
		wallMat := &render3d.PhongMaterial{Alpha: []float64{2, 5, 20, 60}[rng.Intn(4)],
			SpecularColor: render3d.NewColor(0.2 + 0.6*rng.Float64()), DiffuseColor: render3d.NewColorRGB(0.3*rng.Float64(), 0.3*rng.Float64(), 0.3*rng.Float64())}
		floor := &render3d.ColliderObject{Collider: model3d.NewRect(model3d.XYZ(-100, -100, -1), model3d.XYZ(100, 100, 0)), Material: floorMat}
		wall := &render3d.ColliderObject{Collider: model3d.NewRect(model3d.XYZ(xw, -100, 0), model3d.XYZ(xw+1, 100, 100)), Material: wallMat}
		light := &render3d.PointLight{Origin: model3d.XYZ(xw*rng.Float64()*0.8-0.5, rng.NormFloat64()*2, 1+rng.Float64()*5),
			Color: render3d.Color{X: 0.5 + rng.Float64(), Y: 0.5 + rng.Float64(), Z: 0.5 + rng.Float64()}, QuadDropoff: rng.Intn(2) == 0}
		w, h := 4+rng.Intn(10), 4+rng.Intn(10)
		ph := newPinhole(cam, w, h)
		nP, nQ := model3d.XYZ(0, 0, 1), model3d.XYZ(-1, 0, 0)
		want := make([]render3d.Color, w*h)
		for y := 0; y < h; y++ {
			for x := 0; x < w; x++ {
				idx := y*w + x
				want[idx] = render3d.Color{X: math.NaN()}
				d := ph.x.Scale((float64(x) - ph.cx) / ph.cx).Add(ph.y.Scale((float64(y) - ph.cy) / ph.cy)).Add(ph.z)
				if d.Z >= -1e-6 {
					continue
				}
				P := src.Add(d.Scale(-src.Z / d.Z))
				if P.X > xw-0.05 || P.X < -99 || math.Abs(P.Y) > 99 {
					continue
				}
				dest := d.Normalize().Scale(-1)
				out := nP.Scale(2 * nP.Dot(dest)).Sub(dest) // mirror direction, leaving P
				if out.X <= 1e-6 {
					continue
				}
				Q := P.Add(out.Scale((xw - P.X) / out.X))
				if Q.Z < 0.05 || Q.Z > 99 || math.Abs(Q.Y) > 99 {
					continue
				}
				direct := light.ShadeCollision(nP, light.Origin.Sub(P)).Scale(refl)
				back := P.Sub(Q).Normalize()
				atQ := light.ShadeCollision(nQ, light.Origin.Sub(Q)).Mul(wallMat.BSDF(nQ, Q.Sub(light.Origin).Normalize(), back))
				want[idx] = direct.Add(atQ.Scale(refl * math.Abs(out.Dot(nP))))
			}
		}
		scene := render3d.JoinedObject{floor, wall}
		img := render3d.NewImage(w, h)
		(&render3d.RecursiveRayTracer{Camera: cam, Lights: []*render3d.PointLight{light}, MaxDepth: 1, NumSamples: 1 + rng.Intn(3)}).Render(img, scene)
		wit := map[string]interface{}{"camera": fmt.Sprint(src, dst, cam.FieldOfView), "light": fmt.Sprint(*light), "wall_x": xw, "wall": fmt.Sprint(*wallMat), "floor_reflectance": refl, "w": w, "h": h}
		decided := 0
		for idx := range want {
			if math.IsNaN(want[idx].X) {
				continue
			}
			decided++
			c.Count("closed.mirrored_wall_pixels", 1)
			if !relClose(img.Data[idx], want[idx], 1e-7) {
				c.Violation("render3d.RecursiveRayTracer.Render/glossy-surface-lit-by-a-point-light-seen-after-a-bounce", fmt.Sprintf("pixel %d = %v, closed form %v", idx, img.Data[idx], want[idx]), wit)
				return
			}
		}
		if decided > 0 {
			c.Nontrivial(fmt.Sprint("mirrored", wit))
		}
	})

	// a closed matte room with a spherical lamp: much of what the camera sees has bounced between
	// the walls. Three estimators that integrate exactly the light paths of at most d+1 vertices
	// (lamp included) - the recursive tracer with MaxDepth d, the bidirectional tracer with eye
	// paths <= d and light paths of 1 vertex, and with eye paths of 1 and light paths <= d - must
	// agree up to noise (mean brightness over the image within 5%; the noise is about 0.3%).
	r.Section("closed.room", r.N(4, 40), vlib.SectionOpts{Sequential: true, NoScale: true}, func(c *vlib.Case) {
		rng := c.Rng
		hw := 4 + 2*rng.Float64()
		lamp := &model3d.Sphere{Center: model3d.XYZ(rng.NormFloat64()*0.5, rng.NormFloat64()*0.5, hw*0.8), Radius: 0.7 + 0.5*rng.Float64()}
		light := render3d.NewSphereAreaLight(lamp, render3d.NewColor(20))
		albedo := 0.5 + 0.3*rng.Float64()
		room := &render3d.ColliderObject{
			Collider: model3d.MeshToCollider(model3d.NewMeshRect(model3d.XYZ(-hw, -hw, -hw-1), model3d.XYZ(hw, hw, 0)).Scale(-1)),
			Material: &render3d.LambertMaterial{DiffuseColor: render3d.NewColor(albedo)},
		}
		scene := render3d.JoinedObject{room, light}
		cam := render3d.NewCameraAt(model3d.XYZ(0, -3, 3), model3d.XYZ(0, 0.5, 0), math.Pi/6)
		d := 2 + rng.Intn(2)
		const size = 3
		samples := r.N(20000, 60000)
		mean := func(img *render3d.Image) float64 {
			var sum float64
			for _, px := range img.Data {
				sum += px.Sum() / 3
			}
			return sum / float64(len(img.Data))
		}
		refImg := render3d.NewImage(size, size)
		(&render3d.RecursiveRayTracer{Camera: cam, MaxDepth: d, NumSamples: samples,
			FocusPoints:     []render3d.FocusPoint{&render3d.SphereFocusPoint{Center: lamp.Center, Radius: lamp.Radius}},
			FocusPointProbs: []float64{0.5}}).Render(refImg, scene)
		want := mean(refImg)
		wit := map[string]interface{}{"room_half_width": hw, "lamp": fmt.Sprint(*lamp), "albedo": albedo, "depth": d, "samples": samples}
		for _, cfg := range [][2]int{{d, 1}, {1, d}} {
			img := render3d.NewImage(size, size)
			bp := &render3d.BidirPathTracer{Camera: cam, Light: light, MaxDepth: cfg[0], MaxLightDepth: cfg[1], NumSamples: samples}
			// the variance-reduction options leave the estimate unbiased: power heuristic for the
			// path weights, roulette on dim connections, roulette on dim paths after MinDepth edges
			opts := ""
			switch rng.Intn(4) {
			case 1:
				bp.PowerHeuristic = []float64{1, 2, 3}[rng.Intn(3)]
				opts = fmt.Sprintf(" PowerHeuristic=%g", bp.PowerHeuristic)
			case 2:
				bp.RouletteDelta = []float64{0.05, 0.5, 5}[rng.Intn(3)]
				opts = fmt.Sprintf(" RouletteDelta=%g", bp.RouletteDelta)
			case 3:
				bp.MinDepth = 1 + rng.Intn(2)
				bp.PowerHeuristic = 2
				opts = fmt.Sprintf(" MinDepth=%d PowerHeuristic=2", bp.MinDepth)
			}
			if opts != "" {
				c.Count("closed.room.comparisons_with_variance_reduction_options", 1)
			}
			bp.Render(img, scene)
			got := mean(img)
			c.Count("closed.room.comparisons", 1)
			if !(math.Abs(got-want) <= 0.05*want) {
				wit["bidir"] = fmt.Sprintf("MaxDepth=%d MaxLightDepth=%d%s", cfg[0], cfg[1], opts)
				c.Violation("render3d.BidirPathTracer.Render/same-path-set-as-recursive-tracer",
					fmt.Sprintf("mean brightness %.4f with eye paths <= %d and light paths <= %d; the recursive tracer with MaxDepth %d gives %.4f", got, cfg[0], cfg[1], d, want), wit)
				return
			}
		}
		// importance sampling towards focus points leaves the recursive tracer's estimate unchanged:
		// other probabilities, a second focus point elsewhere in the room, or none at all
		{
			rt := &render3d.RecursiveRayTracer{Camera: cam, MaxDepth: d, NumSamples: samples}
			desc := "no focus points"
			switch rng.Intn(4) {
			case 1:
				p := []float64{0.1, 0.3, 0.8}[rng.Intn(3)]
				rt.FocusPoints = []render3d.FocusPoint{&render3d.SphereFocusPoint{Center: lamp.Center, Radius: lamp.Radius}}
				rt.FocusPointProbs = []float64{p}
				desc = fmt.Sprintf("lamp focus point with probability %g", p)
			case 2:
				other := model3d.XYZ(rng.NormFloat64(), rng.NormFloat64(), 1+rng.Float64())
				rt.FocusPoints = []render3d.FocusPoint{
					&render3d.SphereFocusPoint{Center: other, Radius: 0.5 + rng.Float64()},
					&render3d.SphereFocusPoint{Center: lamp.Center, Radius: lamp.Radius},
				}
				rt.FocusPointProbs = []float64{0.2, 0.4}
				desc = fmt.Sprintf("focus points at %v (nothing there, p=0.2) and at the lamp (p=0.4)", other)
			case 3:
				rt.FocusPoints = []render3d.FocusPoint{
					&render3d.SphereFocusPoint{Center: lamp.Center, Radius: lamp.Radius * 2},
					&render3d.SphereFocusPoint{Center: lamp.Center, Radius: lamp.Radius},
				}
				rt.FocusPointProbs = []float64{0.3, 0.3}
				desc = "two overlapping focus points at the lamp (radius x2 and x1, p=0.3 each)"
			}
			img := render3d.NewImage(size, size)
			rt.Render(img, scene)
			got := mean(img)
			c.Count("closed.room.comparisons", 1)
			c.Count("closed.room.comparisons_of_focus_point_settings", 1)
			if !(math.Abs(got-want) <= 0.05*want) {
				wit["focus"] = desc
				c.Violation("render3d.RecursiveRayTracer.Render/focus-points-leave-the-estimate-unchanged",
					fmt.Sprintf("mean brightness %.4f with %s; %.4f with the lamp as focus point at probability 0.5", got, desc, want), wit)
				return
			}
		}
		c.Nontrivial(fmt.Sprint("room", wit))
	})

	// emissive sphere seen directly
	r.Section("closed.sphere", r.N(30, 1500), vlib.SectionOpts{Sequential: true}, func(c *vlib.Case) {
		rng := c.Rng
		cam := randCamera(rng)
		ph := newPinhole(cam, 24, 16)
		ctr := cam.Origin.Add(ph.z.Normalize().Scale(4 + rng.Float64()*4)).Add(vlib.RandUnit3(rng).Scale(rng.Float64()))
		rad := 0.3 + rng.Float64()
		e := render3d.Color{X: 2 * rng.Float64(), Y: 1, Z: 0.25}
		obj := &render3d.ColliderObject{Collider: &model3d.Sphere{Center: ctr, Radius: rad}, Material: &render3d.LambertMaterial{EmissionColor: e}}
		img := render3d.NewImage(24, 16)
		(&render3d.RecursiveRayTracer{Camera: cam, MaxDepth: 2, NumSamples: 3}).Render(img, obj)
		for y := 0; y < 16; y++ {
			for x := 0; x < 24; x++ {
				d := ph.x.Scale((float64(x) - ph.cx) / ph.cx).Add(ph.y.Scale((float64(y) - ph.cy) / ph.cy)).Add(ph.z).Normalize()
				oc := ctr.Sub(cam.Origin)
				perp := oc.Sub(d.Scale(oc.Dot(d))).Norm()
				idx := y*24 + x
				switch {
				case oc.Dot(d) > 0 && perp < rad*0.99:
					c.Count("closed.sphere_pixels_hit", 1)
					if !relClose(img.Data[idx], e, 1e-9) {
						c.Violation("render3d.RecursiveRayTracer.Render/emissive-sphere", fmt.Sprintf("pixel (%d,%d) looks at the sphere but is %v, emission %v", x, y, img.Data[idx], e), map[string]interface{}{"center": ctr, "radius": rad})
						return
					}
				case perp > rad*1.01:
					if img.Data[idx] != (render3d.Color{}) {
						c.Violation("render3d.RecursiveRayTracer.Render/emissive-sphere", fmt.Sprintf("pixel (%d,%d) misses the sphere but is %v", x, y, img.Data[idx]), map[string]interface{}{"center": ctr, "radius": rad})
						return
					}
				}
			}
		}
		c.Nontrivial(fmt.Sprint("sphere", ctr, rad))
	})
}

func cameras(r *vlib.Run) {
	r.Section("camera", r.N(2000, 200000), vlib.SectionOpts{}, func(c *vlib.Case) {
		rng := c.Rng
		cam := randCamera(rng)
		switch rng.Intn(4) {
		case 0: // explicit non-default screen axes
			x := vlib.RandUnit3(rng)
			y := x.Cross(vlib.RandUnit3(rng)).Normalize()
			cam = &render3d.Camera{Origin: cam.Origin, ScreenX: x, ScreenY: y, FieldOfView: cam.FieldOfView}
		case 1: // an oblique frame: unit screen axes 40-140 degrees apart (the fields only ask for unit directions)
			x := vlib.RandUnit3(rng)
			yp := x.Cross(vlib.RandUnit3(rng)).Normalize()
			a := (40 + 100*rng.Float64()) * math.Pi / 180
			y := x.Scale(math.Cos(a)).Add(yp.Scale(math.Sin(a)))
			cam = &render3d.Camera{Origin: cam.Origin, ScreenX: x, ScreenY: y, FieldOfView: cam.FieldOfView}
			c.Count("camera.oblique_frames", 1)
		}
		iw, ih := float64(1+rng.Intn(400)), float64(1+rng.Intn(400))
		cast, uncast := cam.Caster(iw, ih), cam.Uncaster(iw, ih)
		wit := map[string]interface{}{"origin": cam.Origin, "x": cam.ScreenX, "y": cam.ScreenY, "fov": cam.FieldOfView, "w": iw, "h": ih}
		for k := 0; k < 6; k++ {
			px, py := rng.Float64()*iw, rng.Float64()*ih
			if k == 0 {
				px, py = 0, 0
			} else if k == 1 {
				px, py = iw, ih
			}
			d := cast(px, py)
			s := 0.1 + rng.Float64()*20
			gx, gy := uncast(cam.Origin.Add(d.Scale(s)))
			c.Count("camera.roundtrips", 1)
			if math.Abs(gx-px) > 1e-7*(1+iw) || math.Abs(gy-py) > 1e-7*(1+ih) {
				c.Violation("render3d.Camera.Uncaster/inverse-of-caster", fmt.Sprintf("pixel (%g,%g) casts to %v; a point %g along that ray un-projects to (%g,%g)", px, py, d, s, gx, gy), wit)
				return
			}
		}
		// NewCameraAt looks at its target
		src := model3d.XYZ(rng.NormFloat64(), rng.NormFloat64(), rng.NormFloat64()).Scale(5)
		dst := model3d.XYZ(rng.NormFloat64(), rng.NormFloat64(), rng.NormFloat64())
		if rng.Intn(4) == 0 {
			// exactly along a coordinate axis, either way (plan views, views from below): the
			// vertical ones exercise the axis fallback
			var a [3]float64
			a[[]int{2, 2, 0, 1}[rng.Intn(4)]] = (1 + rng.Float64()) * float64(2*rng.Intn(2)-1)
			dst = src.Add(model3d.NewCoord3DArray(a))
			c.Count("camera.looking_exactly_along_an_axis", 1)
		}
		cam2 := render3d.NewCameraAt(src, dst, 0.2+2*rng.Float64())
		// the ray through the image centre goes from the camera towards the target
		if ctr := cam2.Caster(iw, ih)(iw/2, ih/2); !(ctr.Normalize().Dot(dst.Sub(src).Normalize()) > 1-1e-9) {
			c.Violation("render3d.NewCameraAt/central-ray-towards-target", fmt.Sprintf("the ray through the image centre has direction %v, the target is in direction %v", ctr.Normalize(), dst.Sub(src).Normalize()), map[string]interface{}{"src": src, "dst": dst})
		}
		gx, gy := cam2.Uncaster(iw, ih)(dst)
		if math.Abs(gx-iw/2) > 1e-7*(1+iw) || math.Abs(gy-ih/2) > 1e-7*(1+ih) {
			c.Violation("render3d.NewCameraAt/target-at-image-centre", fmt.Sprintf("target un-projects to (%g,%g), centre is (%g,%g)", gx, gy, iw/2, ih/2), map[string]interface{}{"src": src, "dst": dst})
		}
		if math.Abs(cam2.ScreenX.Dot(cam2.ScreenY)) > 1e-9 || math.Abs(cam2.ScreenX.Norm()-1) > 1e-9 || math.Abs(cam2.ScreenY.Norm()-1) > 1e-9 {
			c.Violation("render3d.NewCameraAt/orthonormal-screen-axes", fmt.Sprintf("ScreenX=%v ScreenY=%v", cam2.ScreenX, cam2.ScreenY), map[string]interface{}{"src": src, "dst": dst})
		}
		c.Nontrivial(fmt.Sprint("cam", wit))
	})
	r.Section("camera.directional", r.N(300, 20000), vlib.SectionOpts{}, func(c *vlib.Case) {
		rng := c.Rng
		mn := model3d.XYZ(rng.NormFloat64(), rng.NormFloat64(), rng.NormFloat64()).Scale(3)
		size := model3d.XYZ(0.05+rng.Float64()*4, 0.05+rng.Float64()*4, 0.05+rng.Float64()*4)
		obj := &render3d.ColliderObject{Collider: model3d.NewRect(mn, mn.Add(size)), Material: &render3d.LambertMaterial{}}
		dir := vlib.RandUnit3(rng)
		if rng.Intn(4) == 0 {
			// exactly along an axis (top, bottom, front, side views)
			var a [3]float64
			a[[]int{2, 2, 0, 1}[rng.Intn(4)]] = float64(2*rng.Intn(2) - 1)
			dir = model3d.NewCoord3DArray(a)
			c.Count("camera.directional.exactly_along_an_axis", 1)
		}
		fov := []float64{0, 0.3, 0.6, math.Pi / 3.6, 1.2, 2.0}[rng.Intn(6)]
		cam := render3d.DirectionalCamera(obj, dir, fov)
		unc := cam.Uncaster(1, 1)
		c.Count("camera.directional", 1)
		for i := 0; i < 8; i++ {
			p := mn
			if i&1 != 0 {
				p.X += size.X
			}
			if i&2 != 0 {
				p.Y += size.Y
			}
			if i&4 != 0 {
				p.Z += size.Z
			}
			sx, sy := unc(p)
			// in front of the camera and inside the unit image
			front := p.Sub(cam.Origin).Dot(cam.ScreenX.Cross(cam.ScreenY)) > 0
			if !front || sx < -1e-9 || sy < -1e-9 || sx > 1+1e-9 || sy > 1+1e-9 {
				c.Violation("render3d.DirectionalCamera/object-inside-frame", fmt.Sprintf("corner %v of the object's box un-projects to (%g,%g) (in front: %v) with the returned camera, fov argument %g", p, sx, sy, front, fov), map[string]interface{}{"min": mn, "size": size, "direction": dir, "fov": fov})
				return
			}
		}
		c.Nontrivial(fmt.Sprint("dircam", mn, size, dir, fov))
	})
}

// ---------------------------------------------------------------------------
// composite and transformed objects

type fixedObj struct {
	scale  float64
	hit    bool
	normal C3
	mat    render3d.Material
}

func (f *fixedObj) Min() C3 { return C3{} }
func (f *fixedObj) Max() C3 { return model3d.XYZ(1, 1, 1) }
func (f *fixedObj) Cast(*model3d.Ray) (model3d.RayCollision, render3d.Material, bool) {
	return model3d.RayCollision{Scale: f.scale, Normal: f.normal}, f.mat, f.hit
}

func randRay(rng *rand.Rand) *model3d.Ray {
	return &model3d.Ray{Origin: model3d.XYZ(rng.NormFloat64(), rng.NormFloat64(), rng.NormFloat64()).Scale(3), Direction: vlib.RandUnit3(rng).Scale(0.2 + rng.Float64()*3)}
}

func objects(r *vlib.Run) {
	r.Section("objects.joined", r.N(2000, 200000), vlib.SectionOpts{}, func(c *vlib.Case) {
		rng := c.Rng
		n := 1 + rng.Intn(6)
		var parts render3d.JoinedObject
		best := math.Inf(1)
		var bestMat render3d.Material
		any := false
		for i := 0; i < n; i++ {
			f := &fixedObj{scale: float64(rng.Intn(4)) + rng.Float64(), hit: rng.Intn(3) != 0, normal: model3d.Z(1), mat: &render3d.LambertMaterial{DiffuseColor: render3d.NewColor(float64(i))}}
			if rng.Intn(4) == 0 {
				f.scale = float64(rng.Intn(3)) // ties
			}
			parts = append(parts, f)
			if f.hit && f.scale < best {
				best, bestMat, any = f.scale, f.mat, true
			}
		}
		rc, mat, ok := parts.Cast(randRay(rng))
		c.Count("objects.casts", 1)
		if ok != any || (ok && (rc.Scale != best)) {
			c.Violation("render3d.JoinedObject.Cast/nearest-hit-among-parts", fmt.Sprintf("Cast = (%g,%v), nearest part hit = (%g,%v)", rc.Scale, ok, best, any), nil)
		} else if ok && mat != bestMat {
			// ties may pick any of the nearest parts
			tie := false
			for _, p := range parts {
				f := p.(*fixedObj)
				if f.hit && f.scale == best && f.mat == mat {
					tie = true
				}
			}
			if !tie {
				c.Violation("render3d.JoinedObject.Cast/material-of-nearest-part", "material does not belong to a nearest part", nil)
			}
		}
		c.Nontrivial(fmt.Sprint("joined", n, best, any))
	})
	r.Section("objects.transformed", r.N(300, 20000), vlib.SectionOpts{}, func(c *vlib.Case) {
		rng := c.Rng
		mesh := model3d.NewMeshIcosphere(model3d.XYZ(rng.NormFloat64(), rng.NormFloat64(), rng.NormFloat64()), 0.5+rng.Float64(), 1+rng.Intn(3))
		if rng.Intn(2) == 0 {
			mesh = model3d.NewMeshRect(model3d.XYZ(-1, -0.5, -0.25), model3d.XYZ(0.5, 1, 2))
		}
		base := &render3d.ColliderObject{Collider: model3d.MeshToCollider(mesh), Material: &render3d.LambertMaterial{}}
		var obj render3d.Object
		var f func(C3) C3
		kind := rng.Intn(4)
		switch kind {
		case 0:
			off := model3d.XYZ(rng.NormFloat64(), rng.NormFloat64(), rng.NormFloat64()).Scale(2)
			obj, f = render3d.Translate(base, off), off.Add
		case 1:
			axis, ang := vlib.RandUnit3(rng), rng.Float64()*6
			obj = render3d.Rotate(base, axis, ang)
			f = model3d.Rotation(axis, ang).Apply
		case 2:
			s := 0.3 + rng.Float64()*3
			obj, f = render3d.Scale(base, s), func(p C3) C3 { return p.Scale(s) }
		default:
			m := &model3d.Matrix3{1 + rng.Float64(), 0.3 * rng.NormFloat64(), 0.3 * rng.NormFloat64(), 0.3 * rng.NormFloat64(), 1 + rng.Float64(), 0.3 * rng.NormFloat64(), 0.3 * rng.NormFloat64(), 0.3 * rng.NormFloat64(), 1 + rng.Float64()}
			obj, f = render3d.MatrixMultiply(base, m), m.MulColumn
		}
		ref := model3d.MeshToCollider(mesh.MapCoords(f))
		wit := map[string]interface{}{"kind": kind, "faces": mesh.NumTriangles()}
		// bounds enclose the transformed mesh
		tm := mesh.MapCoords(f)
		if mn, mx := obj.Min(), obj.Max(); mn.X > tm.Min().X+1e-9 || mn.Y > tm.Min().Y+1e-9 || mn.Z > tm.Min().Z+1e-9 || mx.X < tm.Max().X-1e-9 || mx.Y < tm.Max().Y-1e-9 || mx.Z < tm.Max().Z-1e-9 {
			c.Violation("render3d.transformed-object/bounds", fmt.Sprintf("bounds %v..%v do not enclose the transformed mesh %v..%v", mn, mx, tm.Min(), tm.Max()), wit)
		}
		for k := 0; k < 30; k++ {
			ray := randRay(rng)
			// aim most rays at the object
			if k%3 != 0 {
				target := tm.Min().Mid(tm.Max()).Add(vlib.RandUnit3(rng).Scale(0.3))
				ray.Direction = target.Sub(ray.Origin).Scale(0.2 + rng.Float64())
			}
			want, wok := ref.FirstRayCollision(ray)
			got, _, gok := obj.Cast(ray)
			c.Count("objects.casts", 1)
			if wok != gok {
				// grazing rays may legitimately differ by rounding
				c.Undecided("transformed-cast-hit-mismatch-near-silhouette")
				continue
			}
			if !wok {
				continue
			}
			if math.Abs(want.Scale-got.Scale) > 1e-7*(1+want.Scale) {
				c.Violation("render3d.transformed-object/hit-parameter", fmt.Sprintf("ray %v: hit parameter %g, casting against the transformed mesh gives %g", *ray, got.Scale, want.Scale), wit)
				return
			}
			if math.Abs(got.Normal.Norm()-1) > 1e-9 {
				c.Violation("render3d.transformed-object/unit-normal", fmt.Sprintf("normal %v has length %g", got.Normal, got.Normal.Norm()), wit)
				return
			}
			if kind != 3 && got.Normal.Dist(want.Normal) > 1e-6 {
				c.Violation("render3d.transformed-object/normal", fmt.Sprintf("normal %v, transformed mesh normal %v", got.Normal, want.Normal), wit)
				return
			}
		}
		c.Nontrivial(fmt.Sprint("xform", kind, mesh.NumTriangles()))
	})
}

// mirrorFloor is a caller-defined material: a constant BSDF, and the next ray always leaves along
// the mirror direction (density 1 for that direction).
type mirrorFloor struct{ k float64 }

func (m *mirrorFloor) BSDF(normal, source, dest model3d.Coord3D) render3d.Color {
	return render3d.NewColor(m.k)
}
func (m *mirrorFloor) SampleSource(gen *rand.Rand, normal, dest model3d.Coord3D) model3d.Coord3D {
	return normal.Scale(2 * normal.Dot(dest)).Sub(dest).Scale(-1)
}
func (m *mirrorFloor) SourceDensity(normal, source, dest model3d.Coord3D) float64 { return 1 }
func (m *mirrorFloor) Emission() render3d.Color                                   { return render3d.Color{} }
func (m *mirrorFloor) Ambient() render3d.Color                                    { return render3d.Color{} }
