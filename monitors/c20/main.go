// C20 — A rendered pixel is the mean of its samples of the right scene.
// Sample-log conservation monitor + exactly-once dispatch (verif hook) +
// closed-form scenes + camera and composite/transformed object laws.
// DESIGN.md C20.
package main

import (
	"fmt"
	"math"
	"math/rand"
	"os"
	"os/exec"
	"strings"
	"sync"
	"time"

	"github.com/unixpickle/model3d/model3d"
	"github.com/unixpickle/model3d/render3d"
	"verif/vlib"
)

type C3 = model3d.Coord3D

// ---------------------------------------------------------------------------
// sample log object: every Cast returns a fresh material whose emission is a
// unique logged value, so the samples of each pixel are known at the boundary.

type emitMat struct{ e render3d.Color }

func (m *emitMat) BSDF(normal, source, dest C3) render3d.Color { return render3d.Color{} }
func (m *emitMat) SampleSource(gen *rand.Rand, normal, dest C3) C3 {
	return model3d.NewCoord3DRandUnit()
}
func (m *emitMat) SourceDensity(normal, source, dest C3) float64 { return 1 }
func (m *emitMat) Emission() render3d.Color                      { return m.e }
func (m *emitMat) Ambient() render3d.Color                       { return render3d.Color{} }

type pinhole struct {
	origin  C3
	x, y, z C3 // the documented camera model, recomputed by the harness
	cx, cy  float64
}

func newPinhole(cam *render3d.Camera, w, h int) *pinhole {
	iw, ih := float64(w)-1, float64(h)-1
	x, y := cam.ScreenX, cam.ScreenY
	z := x.Cross(y).Normalize().Scale(1 / math.Tan(cam.FieldOfView/2))
	if iw > ih {
		y = y.Scale(ih / iw)
	} else {
		x = x.Scale(iw / ih)
	}
	return &pinhole{cam.Origin, x, y, z, iw / 2, ih / 2}
}

// pixelOf inverts the projection for a ray direction.
func (p *pinhole) pixelOf(d C3) (float64, float64) {
	zc := d.Dot(p.z) / p.z.Dot(p.z)
	xc := d.Dot(p.x) / p.x.Dot(p.x) / zc
	yc := d.Dot(p.y) / p.y.Dot(p.y) / zc
	return xc*p.cx + p.cx, yc*p.cy + p.cy
}

type logObj struct {
	ph      *pinhole
	w, h    int
	seed    uint64
	mu      sync.Mutex
	samples [][]render3d.Color
	misattr int
}

func (l *logObj) Min() C3 { return model3d.XYZ(-1e3, -1e3, -1e3) }
func (l *logObj) Max() C3 { return model3d.XYZ(1e3, 1e3, 1e3) }

func hashUnit(a, b, c uint64) float64 {
	h := a*0x9e3779b97f4a7c15 ^ b*0xc2b2ae3d27d4eb4f ^ c*0x165667b19e3779f9
	h ^= h >> 31
	h *= 0xbf58476d1ce4e5b9
	h ^= h >> 29
	return float64(h>>11) / float64(1<<53)
}

func (l *logObj) Cast(r *model3d.Ray) (model3d.RayCollision, render3d.Material, bool) {
	fx, fy := l.ph.pixelOf(r.Direction)
	px, py := int(math.Round(fx)), int(math.Round(fy))
	l.mu.Lock()
	defer l.mu.Unlock()
	if px < 0 || py < 0 || px >= l.w || py >= l.h || math.Abs(fx-float64(px)) > 0.499 || math.Abs(fy-float64(py)) > 0.499 {
		l.misattr++
		return model3d.RayCollision{}, nil, false
	}
	idx := py*l.w + px
	k := len(l.samples[idx])
	// deliberately high variance, different per pixel, so early stopping triggers at different counts
	spread := hashUnit(uint64(idx), 7, l.seed)
	v := 0.2 + spread*3*hashUnit(uint64(idx), uint64(k)+100, l.seed)
	e := render3d.Color{X: v, Y: v * v, Z: 1 + 0.5*hashUnit(uint64(idx), uint64(k)+9000, l.seed)}
	l.samples[idx] = append(l.samples[idx], e)
	return model3d.RayCollision{Scale: 1, Normal: r.Direction.Normalize().Scale(-1)}, &emitMat{e}, true
}

func relClose(a, b render3d.Color, tol float64) bool {
	return a.Dist(b) <= tol*(1+b.Norm())
}

func mean(s []render3d.Color) render3d.Color {
	var sum render3d.Color
	for _, c := range s {
		sum = sum.Add(c)
	}
	return sum.Scale(1 / float64(len(s)))
}

func randCamera(rng *rand.Rand) *render3d.Camera {
	src := model3d.XYZ(rng.NormFloat64(), rng.NormFloat64(), rng.NormFloat64()).Scale(3)
	dst := src.Add(vlib.RandUnit3(rng).Scale(1 + rng.Float64()*3))
	return render3d.NewCameraAt(src, dst, 0.1+rng.Float64()*2.6)
}

func main() {
	if len(os.Args) > 1 && os.Args[1] == "-c20dispatch" {
		dispatchChild()
		return
	}
	r := vlib.Start("C20", "exploration")
	r.Rule("seeded sampler settings (NumSamples 1..64, MinSamples 0..32, MaxStddev 0/small/large, OversaturatedStddevs, custom convergence functions, antialias 0..0.9) x image sizes 1x1..97x61 x cameras; a harness object returns a fresh material with a unique logged emission per Cast so the sample list of every pixel is known at the API boundary; pixel dispatch events come from the verif hook; closed-form scenes and camera/object laws use seeded geometry. Non-trivial = render with >= 4 pixels and >= 2 samples per pixel on average; distinct by settings hash")
	r.Assume("RecursiveRayTracer with MaxDepth 0 and no lights returns Emission()+Ambient() of the material of the primary hit (read in recurse)")
	r.Assume("BidirPathTracer's per-sample value is not observable at the boundary: it shares the estimator and dispatch code and is checked for exactly-once dispatch only")

	estimator(r)
	dispatch(r)
	closedForms(r)
	cameras(r)
	objects(r)
	objects2(r)
	helperObjects(r)

	r.Require("estimator.renders", 30)
	r.Require("estimator.pixels_checked", 2000)
	r.Require("estimator.pixels_stopped_early", 100)
	r.Require("estimator.convergence_calls_checked", 500)
	r.Require("dispatch.pixel_events", 5000)
	r.Require("dispatch.worker_counts_seen", 2)
	r.Require("closed.uniform_emitter_pixels", 500)
	r.Require("closed.lambert_plane_pixels", 500)
	r.Require("camera.roundtrips", 1000)
	r.Require("camera.directional", 50)
	r.Require("objects.casts", 2000)
	r.Require("objects.chain.hits_compared", 2000)
	r.Require("objects.scene.rays_hitting_a_part", 2000)
	r.Require("objects.scene.casts_from_inside_bounds", 2000)
	r.Finish()
}

func estimator(r *vlib.Run) {
	r.Section("estimator", r.N(400, 12000), vlib.SectionOpts{Sequential: true}, func(c *vlib.Case) {
		rng := c.Rng
		// a one-pixel-wide image has no defined projection (centre and half-width coincide), so sizes start at 2
		w, h := 2+rng.Intn(24), 2+rng.Intn(18)
		if rng.Intn(6) == 0 {
			w, h = 2+rng.Intn(96), 2+rng.Intn(60)
		}
		cam := randCamera(rng)
		obj := &logObj{ph: newPinhole(cam, w, h), w: w, h: h, seed: uint64(c.SubSeed), samples: make([][]render3d.Color, w*h)}
		rt := &render3d.RecursiveRayTracer{Camera: cam, MaxDepth: 0, NumSamples: 1 + rng.Intn(64)}
		switch rng.Intn(4) {
		case 0: // no early stopping
		case 1:
			rt.MinSamples = rng.Intn(33)
			rt.MaxStddev = []float64{0, 1e-3, 0.05, 0.5, 5}[rng.Intn(5)]
		case 2:
			rt.MinSamples = 1 + rng.Intn(32)
			rt.MaxStddev = []float64{0.01, 0.1, 1}[rng.Intn(3)]
			rt.OversaturatedStddevs = []float64{0, 1, 3}[rng.Intn(3)]
		default:
			rt.MinSamples = 1 + rng.Intn(16)
		}
		rt.Antialias = []float64{0, 0, 0.3, 0.9}[rng.Intn(4)]
		var convMu sync.Mutex
		var convMeans []render3d.Color
		convKind := -1
		if rt.MinSamples > 0 && rng.Intn(2) == 0 {
			convKind = rng.Intn(4)
			thr := 0.05 + rng.Float64()
			rt.Convergence = func(m, sd render3d.Color) bool {
				convMu.Lock()
				convMeans = append(convMeans, m)
				convMu.Unlock()
				switch convKind {
				case 0:
					return true
				case 1:
					return false
				case 2:
					return sd.X < thr
				default:
					return m.X > 1.0
				}
			}
		}
		settings := map[string]interface{}{"w": w, "h": h, "NumSamples": rt.NumSamples, "MinSamples": rt.MinSamples, "MaxStddev": rt.MaxStddev,
			"OversaturatedStddevs": rt.OversaturatedStddevs, "Antialias": rt.Antialias, "convergence": convKind, "fov": cam.FieldOfView}
		img := render3d.NewImage(w, h)
		sentinel := render3d.Color{X: -7, Y: -7, Z: -7}
		img.SetAll(sentinel)
		rt.Render(img, obj)
		c.Count("estimator.renders", 1)
		if obj.misattr > 0 {
			c.Violation("render3d.Camera.Caster/ray-maps-back-to-its-pixel", fmt.Sprintf("%d primary rays do not project back to within half a pixel of an image pixel under the documented camera model (antialias %g)", obj.misattr, rt.Antialias), settings)
			return
		}
		earlyPossible := rt.MinSamples != 0 && (rt.MaxStddev != 0 || rt.Convergence != nil)
		total := 0
		for idx, s := range obj.samples {
			px := img.Data[idx]
			n := len(s)
			total += n
			wit := map[string]interface{}{"settings": settings, "pixel": idx, "samples_taken": n, "pixel_value": fmt.Sprint(px)}
			if n == 0 {
				c.Violation("render3d.RecursiveRayTracer.Render/every-pixel-sampled", fmt.Sprintf("pixel %d received no sample", idx), wit)
				return
			}
			if px == sentinel {
				c.Violation("render3d.RecursiveRayTracer.Render/every-pixel-written", fmt.Sprintf("pixel %d was never written", idx), wit)
				return
			}
			c.Count("estimator.pixels_checked", 1)
			if m := mean(s); !relClose(px, m, 1e-12) {
				// is it the sum of n samples divided by some other count?
				ratio := px.X / m.X
				wit["mean_of_samples"] = fmt.Sprint(m)
				c.Violation("render3d.RecursiveRayTracer.Render/pixel-is-mean-of-its-samples", fmt.Sprintf("pixel %d = %v but the mean of its %d logged samples is %v (ratio %.6g; %d/%d = %.6g)", idx, px, n, m, ratio, n, n-1, float64(n)/float64(n-1)), wit)
				return
			}
			lo := rt.MinSamples
			if lo > rt.NumSamples || !earlyPossible {
				lo = rt.NumSamples
			}
			if n > rt.NumSamples || n < lo {
				c.Violation("render3d.RecursiveRayTracer.Render/sample-count-in-range", fmt.Sprintf("pixel %d took %d samples, allowed [%d,%d]", idx, n, lo, rt.NumSamples), wit)
				return
			}
			if n < rt.NumSamples {
				c.Count("estimator.pixels_stopped_early", 1)
			}
			if convKind == 1 && n != rt.NumSamples {
				c.Violation("render3d.RecursiveRayTracer.Render/never-converged-takes-all-samples", fmt.Sprintf("convergence function always returned false but pixel %d took %d of %d samples", idx, n, rt.NumSamples), wit)
				return
			}
		}
		// every mean handed to the convergence function is the mean of a prefix of some pixel's samples
		if len(convMeans) > 0 {
			type key [3]int64
			q := func(c render3d.Color) key {
				return key{int64(math.Round(c.X * 1e9)), int64(math.Round(c.Y * 1e9)), int64(math.Round(c.Z * 1e9))}
			}
			prefix := map[key]bool{}
			for _, s := range obj.samples {
				var sum render3d.Color
				for k, v := range s {
					sum = sum.Add(v)
					m := sum.Scale(1 / float64(k+1))
					kk := q(m)
					// neighbours, against rounding at the quantisation boundary
					for dx := int64(-1); dx <= 1; dx++ {
						for dy := int64(-1); dy <= 1; dy++ {
							for dz := int64(-1); dz <= 1; dz++ {
								prefix[key{kk[0] + dx, kk[1] + dy, kk[2] + dz}] = true
							}
						}
					}
				}
			}
			for _, m := range convMeans {
				c.Count("estimator.convergence_calls_checked", 1)
				if !prefix[q(m)] {
					c.Violation("render3d.RecursiveRayTracer.Convergence/mean-is-current-mean", fmt.Sprintf("the convergence function was called with mean %v, which is not the mean of the first k samples of any pixel", m), settings)
					break
				}
			}
		}
		// the per-pixel variance image: a fixed number of samples per pixel, each pixel the unbiased
		// sample variance (per channel) of exactly the samples taken for it
		if c.Index%3 == 0 {
			k := 2 + rng.Intn(12)
			obj2 := &logObj{ph: newPinhole(cam, w, h), w: w, h: h, seed: uint64(c.SubSeed) + 1, samples: make([][]render3d.Color, w*h)}
			vimg := render3d.NewImage(w, h)
			vimg.SetAll(sentinel)
			rt.RenderVariance(vimg, obj2, k)
			c.Count("estimator.variance_renders", 1)
			for idx, sm := range obj2.samples {
				wit := map[string]interface{}{"settings": settings, "pixel": idx, "variance_samples": k, "samples_taken": len(sm)}
				if len(sm) != k {
					c.Violation("render3d.RecursiveRayTracer.RenderVariance/fixed-sample-count", fmt.Sprintf("pixel %d took %d samples, asked for %d", idx, len(sm), k), wit)
					return
				}
				m := mean(sm)
				var ss render3d.Color
				for _, v := range sm {
					d := v.Sub(m)
					ss = ss.Add(d.Mul(d))
				}
				want := ss.Scale(1 / float64(k-1))
				if got := vimg.Data[idx]; got.Dist(want) > 1e-9*(1+want.Norm()+m.Mul(m).Norm()) {
					wit["variance_of_samples"] = fmt.Sprint(want)
					c.Violation("render3d.RecursiveRayTracer.RenderVariance/pixel-is-sample-variance", fmt.Sprintf("pixel %d = %v, the unbiased variance of its %d logged samples is %v", idx, got, k, want), wit)
					return
				}
				c.Count("estimator.variance_pixels_checked", 1)
			}
			if obj2.misattr > 0 {
				c.Violation("render3d.Camera.Caster/ray-maps-back-to-its-pixel", fmt.Sprintf("%d primary rays of RenderVariance do not project back to an image pixel (antialias %g)", obj2.misattr, rt.Antialias), settings)
				return
			}
		}
		// the same renderer value used again with other settings, camera and image size (an
		// animation loop, a preview followed by the final render): nothing of the first render
		// may carry over
		if c.Index%4 == 1 {
			w2, h2 := 2+rng.Intn(24), 2+rng.Intn(18)
			cam2 := randCamera(rng)
			rt.Camera = cam2
			rt.NumSamples = 1 + rng.Intn(40)
			rt.MinSamples, rt.MaxStddev, rt.OversaturatedStddevs, rt.Convergence = 0, 0, 0, nil
			rt.Antialias = []float64{0, 0.5}[rng.Intn(2)]
			obj3 := &logObj{ph: newPinhole(cam2, w2, h2), w: w2, h: h2, seed: uint64(c.SubSeed) + 2, samples: make([][]render3d.Color, w2*h2)}
			img3 := render3d.NewImage(w2, h2)
			img3.SetAll(sentinel)
			rt.Render(img3, obj3)
			c.Count("estimator.renders_with_a_reused_renderer", 1)
			set2 := map[string]interface{}{"first": settings, "second": map[string]interface{}{"w": w2, "h": h2, "NumSamples": rt.NumSamples, "Antialias": rt.Antialias}}
			if obj3.misattr > 0 {
				c.Violation("render3d.Camera.Caster/ray-maps-back-to-its-pixel", fmt.Sprintf("reused renderer: %d primary rays do not project back to an image pixel of the second render", obj3.misattr), set2)
				return
			}
			for idx, sm := range obj3.samples {
				if len(sm) != rt.NumSamples {
					c.Violation("render3d.RecursiveRayTracer.Render/sample-count-in-range", fmt.Sprintf("reused renderer: pixel %d took %d samples, settings ask for exactly %d", idx, len(sm), rt.NumSamples), set2)
					return
				}
				if px := img3.Data[idx]; !relClose(px, mean(sm), 1e-12) {
					c.Violation("render3d.RecursiveRayTracer.Render/pixel-is-mean-of-its-samples", fmt.Sprintf("reused renderer: pixel %d = %v, mean of its samples %v", idx, px, mean(sm)), set2)
					return
				}
			}
		}
		if w*h >= 4 && total >= 2*w*h {
			c.Nontrivial(fmt.Sprint(settings))
		}
		c.Sample("estimator-settings", 3, settings)
	})
}

// ---------------------------------------------------------------------------
// exactly-once dispatch, observed at the verif hook; worker counts varied with taskset

func dispatchOnce(rng *rand.Rand) (events int, problems []string, workers int) {
	w, h := 1+rng.Intn(97), 1+rng.Intn(61)
	if rng.Intn(4) == 0 {
		// more than 2^16 pixels
		w, h = 260+rng.Intn(80), 255+rng.Intn(60)
	}
	counts := make([]int32, w*h)
	var mu sync.Mutex
	bad := 0
	render3d.SetVerifSink(func(name string, args ...float64) {
		if name != "pixel" {
			return
		}
		mu.Lock()
		x, y, idx, ww, hh := int(args[0]), int(args[1]), int(args[2]), int(args[3]), int(args[4])
		if ww != w || hh != h || idx != y*w+x || idx < 0 || idx >= len(counts) {
			bad++
		} else {
			counts[idx]++
		}
		mu.Unlock()
	})
	defer render3d.SetVerifSink(nil)
	cam := randCamera(rng)
	sphere := &render3d.ColliderObject{Collider: &model3d.Sphere{Center: cam.Origin, Radius: 50}, Material: &render3d.LambertMaterial{EmissionColor: render3d.NewColor(0.5)}}
	img := render3d.NewImage(w, h)
	switch rng.Intn(3) {
	case 0:
		(&render3d.RayCaster{Camera: cam}).Render(img, sphere)
	case 1:
		(&render3d.RecursiveRayTracer{Camera: cam, MaxDepth: 1, NumSamples: 2}).Render(img, sphere)
	default:
		light := render3d.NewSphereAreaLight(&model3d.Sphere{Center: cam.Origin.Add(model3d.XYZ(0, 0, 10)), Radius: 1}, render3d.NewColor(5))
		// only the dispatch accounting is checked here: one-pixel-wide images have no
		// defined projection (NaN rays), and the property says nothing about finiteness
		(&render3d.BidirPathTracer{Camera: cam, Light: light, MaxDepth: 2, NumSamples: 2}).Render(img, sphere)
	}
	if bad > 0 {
		problems = append(problems, fmt.Sprintf("%d dispatch events carried inconsistent (x,y,idx,width,height)", bad))
	}
	for idx, n := range counts {
		if n != 1 {
			problems = append(problems, fmt.Sprintf("pixel %d of a %dx%d image was dispatched %d times", idx, w, h, n))
			break
		}
	}
	return w * h, problems, 0
}

func dispatchChild() {
	// run under taskset by the parent: prints PROBLEM lines and a COUNT line
	var seed int64
	fmt.Sscan(os.Args[2], &seed)
	rng := rand.New(rand.NewSource(seed))
	total := 0
	for i := 0; i < 6; i++ {
		n, probs, _ := dispatchOnce(rng)
		total += n
		for _, p := range probs {
			fmt.Println("PROBLEM " + p)
		}
	}
	fmt.Printf("COUNT %d\n", total)
}

func dispatch(r *vlib.Run) {
	r.Section("dispatch", r.N(8, 120), vlib.SectionOpts{Sequential: true, Watchdog: 5 * time.Minute}, func(c *vlib.Case) {
		cpus := []int{1, 2, 3, 5, 8, 16}[c.Index%6]
		var out []byte
		var err error
		if _, lookErr := exec.LookPath("taskset"); lookErr == nil {
			out, err = exec.Command("taskset", "-c", fmt.Sprintf("0-%d", cpus-1), os.Args[0], "-c20dispatch", fmt.Sprint(c.SubSeed)).CombinedOutput()
			if err == nil {
				c.Count("dispatch.worker_counts_seen", 1)
				c.Count(fmt.Sprintf("dispatch.runs_with_%d_cpus", cpus), 1)
			}
		}
		if out == nil || err != nil {
			// taskset unavailable: run in-process with the machine's CPU count
			n, probs, _ := dispatchOnce(c.Rng)
			c.Count("dispatch.pixel_events", int64(n))
			for _, p := range probs {
				c.Violation("render3d.mapCoordinates/every-pixel-dispatched-exactly-once", p, map[string]interface{}{"cpus": "all"})
			}
			return
		}
		for _, line := range strings.Split(string(out), "\n") {
			if strings.HasPrefix(line, "PROBLEM ") {
				key := "render3d.mapCoordinates/every-pixel-dispatched-exactly-once"
				c.Violation(key, line[8:], map[string]interface{}{"cpus": cpus, "seed": c.SubSeed})
			} else if strings.HasPrefix(line, "COUNT ") {
				var n int64
				fmt.Sscan(line[6:], &n)
				c.Count("dispatch.pixel_events", n)
				c.Nontrivial(fmt.Sprint("dispatch", cpus, c.SubSeed))
			}
		}
	})
}
