// 3D primitives: Sphere, Rect, Capsule, Cylinder, Cone, Torus with hostile
// parameters. Clauses (a) and (b) only; they are also the leaves of the
// combinator trees.
package main

import (
	"fmt"
	"math/rand"

	"github.com/unixpickle/model3d/model3d"
	"verif/vlib"
)

// node3 is a constructed 3D solid plus what the harness knows about it.
type node3 struct {
	api    string
	s      model3d.Solid
	def    func(C3) bool // one-level underlying definition (wrappers only)
	hints  []C3          // points expected inside / near the shape
	desc   string
	kids   []*node3
	costly bool
	inside []C3 // forward images the definition puts inside
	extra  func(c *vlib.Case, q *querier)
}

func (n *node3) subject() *subject {
	s := subject3(n.api, n.s, n.describe())
	if n.def != nil {
		s.withUnder3(n.def)
	}
	s.withHints3(n.hints)
	for _, p := range n.inside {
		s.inside = append(s.inside, p3(p))
	}
	s.costly = n.costly
	s.extra = n.extra
	return s
}

func (n *node3) describe() string {
	if len(n.kids) == 0 {
		return n.desc
	}
	d := n.desc + "["
	for i, k := range n.kids {
		if i > 0 {
			d += "; "
		}
		d += k.describe()
	}
	return d + "]"
}

func (n *node3) walk(f func(*node3)) {
	f(n)
	for _, k := range n.kids {
		k.walk(f)
	}
}

func primSphere3(rng *rand.Rand) *node3 {
	r := magnitude(rng)
	c := offset3(rng, r)
	s := &model3d.Sphere{Center: c, Radius: r}
	return &node3{api: "model3d.Sphere", s: s, hints: []C3{c, c.Add(randUnit3(rng).Scale(r * 0.99))},
		desc: fmt.Sprintf("Sphere{C:%s R:%x}", f3(c), r)}
}

func primRect3(rng *rand.Rand) *node3 {
	m := magnitude(rng)
	ext := model3d.XYZ(m*aspect(rng), m*aspect(rng), m*aspect(rng))
	if rng.Intn(10) == 0 { // flat box
		arr := ext.Array()
		arr[rng.Intn(3)] = 0
		ext = model3d.NewCoord3DArray(arr)
	}
	mn := offset3(rng, m)
	s := &model3d.Rect{MinVal: mn, MaxVal: mn.Add(ext)}
	return &node3{api: "model3d.Rect", s: s, hints: []C3{mn.Add(ext.Scale(0.5)), mn, mn.Add(ext)},
		desc: fmt.Sprintf("Rect{%s %s}", f3(s.MinVal), f3(s.MaxVal))}
}

func segmentParams3(rng *rand.Rand) (p1, p2 C3, radius float64, kind string) {
	dir, kind := orient3(rng)
	length := magnitude(rng)
	dir = dir.Scale(length / dir.Norm())
	radius = length * aspect(rng)
	p1 = offset3(rng, length+radius)
	p2 = p1.Add(dir)
	return
}

func primCapsule3(rng *rand.Rand) *node3 {
	p1, p2, r, kind := segmentParams3(rng)
	s := &model3d.Capsule{P1: p1, P2: p2, Radius: r}
	return &node3{api: "model3d.Capsule", s: s, hints: []C3{p1, p2, lerp3(p1, p2, 0.5), p2.Add(p2.Sub(p1).Normalize().Scale(r * 0.99))},
		desc: fmt.Sprintf("Capsule{%s %s R:%x %s}", f3(p1), f3(p2), r, kind)}
}

func primCylinder3(rng *rand.Rand) *node3 {
	p1, p2, r, kind := segmentParams3(rng)
	s := &model3d.Cylinder{P1: p1, P2: p2, Radius: r}
	// rim points are where the shape is tangent to the box
	hints := []C3{lerp3(p1, p2, 0.5), lerp3(p1, p2, 0.001), lerp3(p1, p2, 0.999)}
	for i := 0; i < 4; i++ {
		w := perp3(p2.Sub(p1), rng)
		hints = append(hints, lerp3(p1, p2, 0.999).Add(w.Scale(r*0.999)), lerp3(p1, p2, 0.001).Add(w.Scale(r*0.999)))
	}
	return &node3{api: "model3d.Cylinder", s: s, hints: hints,
		desc: fmt.Sprintf("Cylinder{%s %s R:%x %s}", f3(p1), f3(p2), r, kind)}
}

func primCone3(rng *rand.Rand) *node3 {
	base, tip, r, kind := segmentParams3(rng)
	s := &model3d.Cone{Tip: tip, Base: base, Radius: r}
	hints := []C3{lerp3(base, tip, 0.5), lerp3(base, tip, 0.999), lerp3(base, tip, 0.001)}
	for i := 0; i < 4; i++ {
		w := perp3(tip.Sub(base), rng)
		hints = append(hints, lerp3(base, tip, 0.001).Add(w.Scale(r*0.99)))
	}
	return &node3{api: "model3d.Cone", s: s, hints: hints,
		desc: fmt.Sprintf("Cone{Tip:%s Base:%s R:%x %s}", f3(tip), f3(base), r, kind)}
}

func primTorus3(rng *rand.Rand) *node3 {
	ax, kind := orient3(rng)
	// Torus does not document a unit axis: scale it.
	if rng.Intn(2) == 0 {
		ax = ax.Scale(logUniform(rng, -2, 2))
	}
	outer := magnitude(rng)
	inner := outer * []float64{0.001, 0.01, 0.1, 0.5, 0.9, 0.999}[rng.Intn(6)] // documented: inner < outer
	c := offset3(rng, outer)
	s := &model3d.Torus{Center: c, Axis: ax, OuterRadius: outer, InnerRadius: inner}
	var hints []C3
	for i := 0; i < 6; i++ {
		w := perp3(ax, rng)
		hints = append(hints, c.Add(w.Scale(outer)), c.Add(w.Scale(outer+inner*0.99)))
	}
	return &node3{api: "model3d.Torus", s: s, hints: hints,
		desc: fmt.Sprintf("Torus{C:%s Axis:%s Outer:%x Inner:%x %s}", f3(c), f3(ax), outer, inner, kind)}
}

var prims3 = []func(*rand.Rand) *node3{primSphere3, primRect3, primCapsule3, primCylinder3, primCone3, primTorus3}

func randPrim3(rng *rand.Rand) *node3 { return prims3[rng.Intn(len(prims3))](rng) }

// tamePrim3 returns a primitive of moderate size near the origin; used as an
// operand where several shapes must overlap to make the case interesting.
func tamePrim3(rng *rand.Rand) *node3 {
	c := model3d.XYZ(rng.NormFloat64(), rng.NormFloat64(), rng.NormFloat64()).Scale(0.7)
	r := 0.3 + rng.Float64()
	dir, kind := orient3(rng)
	dir = dir.Scale((0.5 + rng.Float64()*1.5) / dir.Norm())
	switch rng.Intn(6) {
	case 0:
		return &node3{api: "model3d.Sphere", s: &model3d.Sphere{Center: c, Radius: r}, hints: []C3{c}, desc: fmt.Sprintf("Sphere{C:%s R:%x}", f3(c), r)}
	case 1:
		ext := model3d.XYZ(0.2+rng.Float64()*2, 0.2+rng.Float64()*2, 0.2+rng.Float64()*2)
		return &node3{api: "model3d.Rect", s: &model3d.Rect{MinVal: c, MaxVal: c.Add(ext)}, hints: []C3{c.Add(ext.Scale(0.5))}, desc: fmt.Sprintf("Rect{%s %s}", f3(c), f3(c.Add(ext)))}
	case 2:
		return &node3{api: "model3d.Capsule", s: &model3d.Capsule{P1: c, P2: c.Add(dir), Radius: r * 0.5}, hints: []C3{c, c.Add(dir)}, desc: fmt.Sprintf("Capsule{%s %s R:%x %s}", f3(c), f3(c.Add(dir)), r*0.5, kind)}
	case 3:
		return &node3{api: "model3d.Cylinder", s: &model3d.Cylinder{P1: c, P2: c.Add(dir), Radius: r}, hints: []C3{c.Add(dir.Scale(0.5))}, desc: fmt.Sprintf("Cylinder{%s %s R:%x %s}", f3(c), f3(c.Add(dir)), r, kind)}
	case 4:
		return &node3{api: "model3d.Cone", s: &model3d.Cone{Base: c, Tip: c.Add(dir), Radius: r}, hints: []C3{c.Add(dir.Scale(0.2))}, desc: fmt.Sprintf("Cone{Tip:%s Base:%s R:%x %s}", f3(c.Add(dir)), f3(c), r, kind)}
	default:
		w := perp3(dir, rng)
		return &node3{api: "model3d.Torus", s: &model3d.Torus{Center: c, Axis: dir, OuterRadius: r, InnerRadius: r * 0.4}, hints: []C3{c.Add(w.Scale(r))}, desc: fmt.Sprintf("Torus{C:%s Axis:%s Outer:%x Inner:%x %s}", f3(c), f3(dir), r, r*0.4, kind)}
	}
}
