// 3D bound-imposing wrappers whose underlying definition the harness holds:
// collider solids, checked func solids, smooth joins, SDF solids, profile /
// revolve, metaballs, convex polytopes.
package main

import (
	"fmt"
	"math"
	"math/rand"

	"github.com/unixpickle/model3d/model2d"
	"github.com/unixpickle/model3d/model3d"
)

// ---------------------------------------------------------------------------
// collider solids

// refShape is a shape with a harness-owned signed distance (positive inside)
// and a library collider for the same shape.
type refShape struct {
	col   model3d.Collider
	sdf   func(C3) float64
	size  float64
	hints []C3
	desc  string
}

// frame3 builds an orthonormal frame whose third vector is along d.
func frame3(d C3, rng *rand.Rand) (C3, C3, C3) {
	w := mul3(d, 1/norm3(d))
	u := perp3(w, rng)
	v := C3{X: w.Y*u.Z - w.Z*u.Y, Y: w.Z*u.X - w.X*u.Z, Z: w.X*u.Y - w.Y*u.X}
	return u, v, w
}

func orientedBoxMesh(o, u, v, w C3, half [3]float64) *model3d.Mesh {
	corner := func(i, j, k float64) C3 {
		return add3(add3(add3(o, mul3(u, i*half[0])), mul3(v, j*half[1])), mul3(w, k*half[2]))
	}
	m := model3d.NewMesh()
	quad := func(a, b, c, d C3) {
		m.Add(&model3d.Triangle{a, b, c})
		m.Add(&model3d.Triangle{a, c, d})
	}
	quad(corner(-1, -1, -1), corner(-1, 1, -1), corner(1, 1, -1), corner(1, -1, -1))
	quad(corner(-1, -1, 1), corner(1, -1, 1), corner(1, 1, 1), corner(-1, 1, 1))
	quad(corner(-1, -1, -1), corner(1, -1, -1), corner(1, -1, 1), corner(-1, -1, 1))
	quad(corner(-1, 1, -1), corner(-1, 1, 1), corner(1, 1, 1), corner(1, 1, -1))
	quad(corner(-1, -1, -1), corner(-1, -1, 1), corner(-1, 1, 1), corner(-1, 1, -1))
	quad(corner(1, -1, -1), corner(1, 1, -1), corner(1, 1, 1), corner(1, -1, 1))
	return m
}

func randRefShape(rng *rand.Rand) refShape {
	size := magnitude(rng)
	c := offset3(rng, size)
	switch rng.Intn(7) {
	case 0:
		return refShape{col: &model3d.Sphere{Center: c, Radius: size}, sdf: func(p C3) float64 { return refSphereSDF(c, size, p) },
			size: size, hints: []C3{c}, desc: fmt.Sprintf("Sphere{C:%s R:%x}", f3(c), size)}
	case 1:
		ext := model3d.XYZ(size*logUniform(rng, -1, 0.5), size*logUniform(rng, -1, 0.5), size*logUniform(rng, -1, 0.5))
		mx := c.Add(ext)
		return refShape{col: &model3d.Rect{MinVal: c, MaxVal: mx}, sdf: func(p C3) float64 { return refBoxSDF3(c, mx, p) },
			size: math.Min(ext.X, math.Min(ext.Y, ext.Z)), hints: []C3{c.Mid(mx)}, desc: fmt.Sprintf("Rect{%s %s}", f3(c), f3(mx))}
	case 2:
		d, kind := orient3(rng)
		d = d.Scale(size * logUniform(rng, -0.5, 1) / d.Norm())
		b := c.Add(d)
		return refShape{col: &model3d.Capsule{P1: c, P2: b, Radius: size}, sdf: func(p C3) float64 { return refCapsuleSDF3(c, b, size, p) },
			size: size, hints: []C3{c, b}, desc: fmt.Sprintf("Capsule{%s %s R:%x %s}", f3(c), f3(b), size, kind)}
	case 3:
		d, kind := orient3(rng)
		l := size * logUniform(rng, -0.5, 1)
		d = d.Scale(l / d.Norm())
		b := c.Add(d)
		return refShape{col: &model3d.Cylinder{P1: c, P2: b, Radius: size}, sdf: func(p C3) float64 { return refCylinderSDF(c, b, size, p) },
			size: math.Min(size, l/2), hints: []C3{c.Mid(b)}, desc: fmt.Sprintf("Cylinder{%s %s R:%x %s}", f3(c), f3(b), size, kind)}
	case 4:
		ax, kind := orient3(rng)
		inner := size * (0.1 + 0.8*rng.Float64())
		w := perp3(ax, rng)
		return refShape{col: &model3d.Torus{Center: c, Axis: ax, OuterRadius: size, InnerRadius: inner}, sdf: func(p C3) float64 { return refTorusSDF(c, ax, size, inner, p) },
			size: inner, hints: []C3{c.Add(w.Scale(size))}, desc: fmt.Sprintf("Torus{C:%s Axis:%s Outer:%x Inner:%x %s}", f3(c), f3(ax), size, inner, kind)}
	default:
		// triangle mesh of an oriented box, through MeshToCollider
		d, kind := orient3(rng)
		u, v, w := frame3(d, rng)
		half := [3]float64{size * logUniform(rng, -1, 0.3), size * logUniform(rng, -1, 0.3), size * logUniform(rng, -1, 0.3)}
		mesh := orientedBoxMesh(c, u, v, w, half)
		sdf := func(p C3) float64 {
			q := sub3(p, c)
			loc := []float64{dot3(q, u), dot3(q, v), dot3(q, w)}
			return refBoxSDFn([]float64{-half[0], -half[1], -half[2]}, half[:], loc)
		}
		return refShape{col: model3d.MeshToCollider(mesh), sdf: sdf, size: math.Min(half[0], math.Min(half[1], half[2])),
			hints: []C3{c}, desc: fmt.Sprintf("MeshToCollider(box mesh C:%s dir:%s half:%x %s)", f3(c), f3(d), half, kind)}
	}
}

func colliderSolidSubject(rng *rand.Rand) *subject {
	sh := randRefShape(rng)
	var s model3d.Solid
	var def func(C3) bool
	var api, desc string
	switch rng.Intn(4) {
	case 0:
		s = model3d.NewColliderSolid(sh.col)
		def = func(p C3) bool { return sh.sdf(p) > 0 }
		api, desc = "model3d.NewColliderSolid", "NewColliderSolid"
	case 1:
		inset := sh.size * (0.05 + 0.6*rng.Float64())
		if rng.Intn(6) == 0 {
			inset = sh.size * (1 + rng.Float64()*2) // over-inset: empty, box must stay valid
		}
		s = model3d.NewColliderSolidInset(sh.col, inset)
		def = func(p C3) bool { return sh.sdf(p) > inset }
		api, desc = "model3d.NewColliderSolidInset", fmt.Sprintf("NewColliderSolidInset{inset:%x}", inset)
	case 2:
		outset := sh.size * logUniform(rng, -2, 0.7)
		s = model3d.NewColliderSolidInset(sh.col, -outset)
		def = func(p C3) bool { return sh.sdf(p) > -outset }
		api, desc = "model3d.NewColliderSolidInset(outset)", fmt.Sprintf("NewColliderSolidInset{inset:-%x}", outset)
	default:
		r := sh.size * logUniform(rng, -2, 0.7)
		s = model3d.NewColliderSolidHollow(sh.col, r)
		def = func(p C3) bool { return math.Abs(sh.sdf(p)) < r }
		api, desc = "model3d.NewColliderSolidHollow", fmt.Sprintf("NewColliderSolidHollow{r:%x}", r)
	}
	sub := subject3(api, s, desc+" of "+sh.desc).withUnder3(def).withHints3(sh.hints)
	// surface points are inside hollow / outset solids: seed them
	for i := 0; i < 6; i++ {
		p := sh.hints[0].Add(randUnit3(rng).Scale(sh.size))
		sub.hints = append(sub.hints, p3(p))
	}
	return sub
}

// ---------------------------------------------------------------------------
// CheckedFuncSolid with a harness predicate that ignores the box

func checkedFuncSubject(rng *rand.Rand) *subject {
	r := magnitude(rng)
	c := offset3(rng, r)
	f := func(p C3) bool { return refSphereSDF(c, r, p) >= 0 }
	mn, mx, kind := randBoxAround(rng, c.AddScalar(-r), c.AddScalar(r))
	s := model3d.CheckedFuncSolid(mn, mx, f)
	return subject3("model3d.CheckedFuncSolid", s, fmt.Sprintf("CheckedFuncSolid{%s %s %s ball C:%s R:%x}", f3(mn), f3(mx), kind, f3(c), r)).
		withUnder3(func(p C3) bool { return inBox3(p, mn, mx) && f(p) }).withHints3([]C3{c, mn.Mid(mx)})
}

// ---------------------------------------------------------------------------
// SDF operands, SmoothJoin, SmoothJoinV2, SDFToSolid

type sdfOperand struct {
	sdf   model3d.NormalSDF
	hints []C3
	size  float64
	desc  string
}

func randSDFOperand(rng *rand.Rand, near bool) sdfOperand {
	size := magnitude(rng)
	c := offset3(rng, size)
	if near {
		size = 0.3 + rng.Float64()
		c = model3d.XYZ(rng.NormFloat64(), rng.NormFloat64(), rng.NormFloat64()).Scale(0.6)
	}
	d, kind := orient3(rng)
	d = d.Scale(size * (0.5 + rng.Float64()*2) / d.Norm())
	switch rng.Intn(9) {
	case 0:
		return sdfOperand{&hBall{c, size}, []C3{c}, size, fmt.Sprintf("hBall{C:%s R:%x}", f3(c), size)}
	case 1:
		ext := model3d.XYZ(size*(0.2+rng.Float64()), size*(0.2+rng.Float64()), size*(0.2+rng.Float64()))
		return sdfOperand{&hBox{c, c.Add(ext)}, []C3{c.Add(ext.Scale(0.5))}, math.Min(ext.X, math.Min(ext.Y, ext.Z)), fmt.Sprintf("hBox{%s %s}", f3(c), f3(c.Add(ext)))}
	case 2:
		return sdfOperand{&model3d.Sphere{Center: c, Radius: size}, []C3{c}, size, fmt.Sprintf("Sphere{C:%s R:%x}", f3(c), size)}
	case 3:
		ext := model3d.XYZ(size*(0.2+rng.Float64()), size*(0.2+rng.Float64()), size*(0.2+rng.Float64()))
		return sdfOperand{&model3d.Rect{MinVal: c, MaxVal: c.Add(ext)}, []C3{c.Add(ext.Scale(0.5))}, math.Min(ext.X, math.Min(ext.Y, ext.Z)), fmt.Sprintf("Rect{%s %s}", f3(c), f3(c.Add(ext)))}
	case 4:
		return sdfOperand{&model3d.Capsule{P1: c, P2: c.Add(d), Radius: size * 0.5}, []C3{c, c.Add(d)}, size * 0.5, fmt.Sprintf("Capsule{%s %s R:%x %s}", f3(c), f3(c.Add(d)), size*0.5, kind)}
	case 5:
		return sdfOperand{&model3d.Cylinder{P1: c, P2: c.Add(d), Radius: size}, []C3{c.Add(d.Scale(0.5))}, math.Min(size, d.Norm()/2), fmt.Sprintf("Cylinder{%s %s R:%x %s}", f3(c), f3(c.Add(d)), size, kind)}
	case 6:
		return sdfOperand{&model3d.Cone{Base: c, Tip: c.Add(d), Radius: size}, []C3{c.Add(d.Scale(0.2))}, math.Min(size, d.Norm()) * 0.3, fmt.Sprintf("Cone{Tip:%s Base:%s R:%x %s}", f3(c.Add(d)), f3(c), size, kind)}
	case 7:
		w := perp3(d, rng)
		return sdfOperand{&model3d.Torus{Center: c, Axis: d, OuterRadius: size, InnerRadius: size * 0.4}, []C3{c.Add(w.Scale(size))}, size * 0.4, fmt.Sprintf("Torus{C:%s Axis:%s Outer:%x Inner:%x %s}", f3(c), f3(d), size, size*0.4, kind)}
	default:
		u, v, w := frame3(d, rng)
		half := [3]float64{size * (0.3 + rng.Float64()), size * (0.3 + rng.Float64()), size * (0.3 + rng.Float64())}
		mesh := orientedBoxMesh(c, u, v, w, half)
		return sdfOperand{model3d.MeshToSDF(mesh), []C3{c}, math.Min(half[0], math.Min(half[1], half[2])), fmt.Sprintf("MeshToSDF(box mesh C:%s dir:%s half:%x %s)", f3(c), f3(d), half, kind)}
	}
}

func smoothJoinSubject(rng *rand.Rand) *subject {
	n := 1 + rng.Intn(4)
	ops := make([]sdfOperand, n)
	desc := ""
	var hints []C3
	minSize := math.Inf(1)
	aligned := n >= 2 && rng.Intn(3) == 0
	var top float64
	axis := rng.Intn(3)
	for i := range ops {
		ops[i] = randSDFOperand(rng, true)
		if aligned {
			// operands that reach the same face of the joint box at the same place: boxes with a
			// common top along one axis that overlap in the other two, or nearly coincident balls.
			// There the smoothed union bulges out of the plain union's box by the full fillet.
			if i == 0 {
				top = rng.NormFloat64()
			}
			if rng.Intn(4) != 0 {
				lo := model3d.XYZ(-0.5-rng.Float64(), -0.5-rng.Float64(), -0.5-rng.Float64())
				hi := model3d.XYZ(0.5+rng.Float64(), 0.5+rng.Float64(), 0.5+rng.Float64())
				la, ha := lo.Array(), hi.Array()
				ha[axis] = top
				la[axis] = top - 0.4 - rng.Float64()
				lo, hi = model3d.NewCoord3DArray(la), model3d.NewCoord3DArray(ha)
				ops[i] = sdfOperand{&model3d.Rect{MinVal: lo, MaxVal: hi}, []C3{lo.Mid(hi)}, 0.4, fmt.Sprintf("Rect{%s %s}", f3(lo), f3(hi))}
			} else {
				ca := [3]float64{0.1 * rng.NormFloat64(), 0.1 * rng.NormFloat64(), 0.1 * rng.NormFloat64()}
				rad := 0.5 + rng.Float64()
				ca[axis] = top - rad
				c := model3d.NewCoord3DArray(ca)
				ops[i] = sdfOperand{&model3d.Sphere{Center: c, Radius: rad}, []C3{c}, rad, fmt.Sprintf("Sphere{C:%s R:%x}", f3(c), rad)}
			}
		}
		desc += ops[i].desc + "; "
		hints = append(hints, ops[i].hints...)
		minSize = math.Min(minSize, ops[i].size)
	}
	radius := minSize * logUniform(rng, -1.5, 0.5)
	if rng.Intn(8) == 0 {
		radius = 0
	}
	if aligned {
		desc = "aligned-tops; " + desc
		// probes in the fillet just above the common top
		for k := 0; k < 6; k++ {
			pa := [3]float64{0.4 * rng.NormFloat64(), 0.4 * rng.NormFloat64(), 0.4 * rng.NormFloat64()}
			// the fillet above two coplanar tops reaches (1-1/sqrt 2)*radius; half the probes in its top 3%
			f := rng.Float64()
			if k%2 == 0 {
				f = 1 - 0.03*rng.Float64()
			}
			pa[axis] = top + radius*(1-math.Sqrt(0.5))*f
			hints = append(hints, model3d.NewCoord3DArray(pa))
		}
	}
	if rng.Intn(2) == 0 {
		sdfs := make([]model3d.SDF, n)
		for i := range ops {
			sdfs[i] = ops[i].sdf
		}
		s := model3d.SmoothJoin(radius, sdfs...)
		def := func(p C3) bool {
			ds := make([]float64, n)
			for i := range ops {
				ds[i] = ops[i].sdf.SDF(p)
			}
			return smoothJoinRef(radius, ds)
		}
		return subject3("model3d.SmoothJoin"+arity(n), s, fmt.Sprintf("SmoothJoin{r:%x n:%d %s}", radius, n, desc)).withUnder3(def).withHints3(hints)
	}
	sdfs := make([]model3d.NormalSDF, n)
	for i := range ops {
		sdfs[i] = ops[i].sdf
	}
	s := model3d.SmoothJoinV2(radius, sdfs...)
	def := func(p C3) bool {
		ds := make([]float64, n)
		ns := make([]C3, n)
		for i := range ops {
			ns[i], ds[i] = ops[i].sdf.NormalSDF(p)
		}
		return smoothJoinV2Ref(radius, ds, func(i, j int) float64 { return dot3(ns[i], ns[j]) })
	}
	return subject3("model3d.SmoothJoinV2"+arity(n), s, fmt.Sprintf("SmoothJoinV2{r:%x n:%d %s}", radius, n, desc)).withUnder3(def).withHints3(hints)
}

func sdfToSolidSubject(rng *rand.Rand) *subject {
	op := randSDFOperand(rng, false)
	var outset float64
	switch rng.Intn(4) {
	case 0:
		outset = 0
	case 1:
		outset = -op.size * (0.05 + 0.4*rng.Float64()) // inset smaller than the half-thickness
	default:
		outset = op.size * logUniform(rng, -2, 1)
	}
	s := model3d.SDFToSolid(op.sdf, outset)
	def := func(p C3) bool { return op.sdf.SDF(p) > -outset }
	sub := subject3("model3d.SDFToSolid", s, fmt.Sprintf("SDFToSolid{outset:%x %s}", outset, op.desc)).withUnder3(def).withHints3(op.hints)
	return sub
}

// ---------------------------------------------------------------------------
// ProfileSolid, CrossSectionSolid, RevolveSolid

func profileSubject(rng *rand.Rand) *subject {
	k := randTree2(rng, rng.Intn(2))
	size := k.s.Max().Sub(k.s.Min()).Norm()
	if size == 0 {
		size = 1
	}
	minZ := rng.NormFloat64() * size
	maxZ := minZ + size*aspect(rng)
	if rng.Intn(10) == 0 {
		maxZ = minZ
	}
	s := model3d.ProfileSolid(k.s, minZ, maxZ)
	def := func(p C3) bool { return p.Z >= minZ && p.Z <= maxZ && k.s.Contains(model2d.XY(p.X, p.Y)) }
	sub := subject3("model3d.ProfileSolid", s, fmt.Sprintf("ProfileSolid{z:%x..%x %s}", minZ, maxZ, k.describe())).withUnder3(def)
	for _, h := range k.hints {
		sub.hints = append(sub.hints, P{h.X, h.Y, minZ + (maxZ-minZ)*rng.Float64()})
	}
	sub.costly = k.costly
	return sub
}

func crossSectionSubject(rng *rand.Rand) *subject {
	k := randTree3(rng, rng.Intn(2))
	axis := rng.Intn(3)
	mn, mx := k.s.Min().Array(), k.s.Max().Array()
	v := mn[axis] + (mx[axis]-mn[axis])*(rng.Float64()*1.2-0.1)
	if len(k.hints) > 0 && rng.Intn(2) == 0 {
		v = k.hints[rng.Intn(len(k.hints))].Array()[axis]
	}
	s := model3d.CrossSectionSolid(k.s, axis, v)
	others := [][2]int{{1, 2}, {0, 2}, {0, 1}}[axis]
	to3 := func(p C2) C3 {
		var a [3]float64
		a[axis] = v
		a[others[0]] = p.X
		a[others[1]] = p.Y
		return model3d.NewCoord3DArray(a)
	}
	sub := subject2("model3d.CrossSectionSolid", s, fmt.Sprintf("CrossSectionSolid{axis:%d v:%x %s}", axis, v, k.describe())).
		withUnder2(func(p C2) bool { return k.s.Contains(to3(p)) })
	for _, h := range k.hints {
		a := h.Array()
		sub.hints = append(sub.hints, P{a[others[0]], a[others[1]], 0})
	}
	sub.costly = k.costly
	return sub
}

func revolveSubject(rng *rand.Rand) *subject {
	// documented precondition: symmetric around the axis, or empty on one side
	k := tamePrim2(rng)
	if rng.Intn(3) == 0 {
		k = randTree2(rng, 1)
	}
	mn, mx := k.s.Min(), k.s.Max()
	var prof *node2
	var kind string
	switch rng.Intn(3) {
	case 0: // move to x >= 0
		sh := model2d.X(-mn.X + (mx.X-mn.X)*rng.Float64()*0.5)
		if rng.Intn(3) == 0 {
			sh = model2d.X(-mn.X)
		}
		prof = transformNode2(rng, k, xform2{&model2d.Translate{Offset: sh}, "Translate"})
		kind = "positive-side"
	case 1: // move to x <= 0
		sh := model2d.X(-mx.X - (mx.X-mn.X)*rng.Float64()*0.5)
		prof = transformNode2(rng, k, xform2{&model2d.Translate{Offset: sh}, "Translate"})
		kind = "negative-side"
	default: // symmetric: union with its mirror image
		mir := transformNode2(rng, k, xform2{&model2d.VecScale{Scale: model2d.XY(-1, 1)}, "Mirror"})
		prof = joinNode2([]*node2{k, mir})
		kind = "symmetric"
	}
	if prof.s.Min().Y == prof.s.Max().Y {
		return nil // a flat profile has no axis extent; the bounding cylinder is undefined
	}
	ax, okind := orient3(rng)
	if rng.Intn(2) == 0 {
		ax = ax.Scale(logUniform(rng, -2, 2)) // RevolveSolid normalises the axis itself
	}
	s := model3d.RevolveSolid(prof.s, ax)
	u := mul3(ax, 1/norm3(ax))
	// the map p -> (radius, axial) folds space at the axis, so stability is
	// demanded in profile coordinates (a perturbation of p cannot cross x = 0)
	pmn, pmx := prof.s.Min(), prof.s.Max()
	h2 := 1e-9 * (pmx.Sub(pmn).Norm() + linf2(pmn) + linf2(pmx))
	st := func(q C2) bool { return stable2(prof.s.Contains, q, h2) }
	def := func(p C3) bool {
		y := dot3(p, u)
		x := norm3(sub3(p, mul3(u, y)))
		return st(model2d.XY(x, y)) || st(model2d.XY(-x, y))
	}
	api := "model3d.RevolveSolid"
	if kind == "negative-side" {
		api += "[negative-side profile]"
	}
	sub := subject3(api, s, fmt.Sprintf("RevolveSolid{axis:%s %s %s %s}", f3(ax), okind, kind, prof.describe())).withUnder3(def)
	for _, h := range prof.hints {
		w := perp3(ax, rng)
		sub.hints = append(sub.hints, p3(add3(mul3(u, h.Y), mul3(w, math.Abs(h.X)))))
	}
	return sub
}

// ---------------------------------------------------------------------------
// metaballs

type mbOperand struct {
	m     model3d.Metaball
	field func(C3) float64 // harness evaluation of the (possibly transformed) field
	hints []C3
	desc  string
}

func randMetaball(rng *rand.Rand) mbOperand {
	size := 0.3 + rng.Float64()
	c := model3d.XYZ(rng.NormFloat64(), rng.NormFloat64(), rng.NormFloat64()).Scale(0.8)
	d, kind := orient3(rng)
	d = d.Scale(size * (0.5 + rng.Float64()*2) / d.Norm())
	var base mbOperand
	switch rng.Intn(9) {
	case 0:
		b := &hBall{c, size}
		base = mbOperand{b, b.MetaballField, []C3{c}, fmt.Sprintf("hBall{C:%s R:%x}", f3(c), size)}
	case 1:
		ext := model3d.XYZ(size*(0.2+rng.Float64()), size*(0.2+rng.Float64()), size*(0.2+rng.Float64()))
		b := &hBox{c, c.Add(ext)}
		base = mbOperand{b, b.MetaballField, []C3{c.Add(ext.Scale(0.5))}, fmt.Sprintf("hBox{%s %s}", f3(c), f3(c.Add(ext)))}
	case 2:
		b := &hBall{c, size}
		m := model3d.SDFToMetaball(b)
		base = mbOperand{m, func(p C3) float64 { return -b.SDF(p) }, []C3{c}, fmt.Sprintf("SDFToMetaball(hBall{C:%s R:%x})", f3(c), size)}
	case 3:
		m := &model3d.Sphere{Center: c, Radius: size}
		base = mbOperand{m, m.MetaballField, []C3{c}, fmt.Sprintf("Sphere{C:%s R:%x}", f3(c), size)}
	case 4:
		ext := model3d.XYZ(size*(0.2+rng.Float64()), size*(0.2+rng.Float64()), size*(0.2+rng.Float64()))
		m := &model3d.Rect{MinVal: c, MaxVal: c.Add(ext)}
		base = mbOperand{m, m.MetaballField, []C3{c.Add(ext.Scale(0.5))}, fmt.Sprintf("Rect{%s %s}", f3(c), f3(c.Add(ext)))}
	case 5:
		m := &model3d.Capsule{P1: c, P2: c.Add(d), Radius: size * 0.5}
		base = mbOperand{m, m.MetaballField, []C3{c}, fmt.Sprintf("Capsule{%s %s R:%x %s}", f3(c), f3(c.Add(d)), size*0.5, kind)}
	case 6:
		m := &model3d.Cylinder{P1: c, P2: c.Add(d), Radius: size}
		base = mbOperand{m, m.MetaballField, []C3{c.Add(d.Scale(0.5))}, fmt.Sprintf("Cylinder{%s %s R:%x %s}", f3(c), f3(c.Add(d)), size, kind)}
	case 7:
		m := &model3d.Cone{Base: c, Tip: c.Add(d), Radius: size}
		base = mbOperand{m, m.MetaballField, []C3{c.Add(d.Scale(0.2))}, fmt.Sprintf("Cone{Tip:%s Base:%s R:%x %s}", f3(c.Add(d)), f3(c), size, kind)}
	default:
		w := perp3(d, rng)
		m := &model3d.Torus{Center: c, Axis: d, OuterRadius: size, InnerRadius: size * 0.4}
		base = mbOperand{m, m.MetaballField, []C3{c.Add(w.Scale(size))}, fmt.Sprintf("Torus{C:%s Axis:%s Outer:%x Inner:%x %s}", f3(c), f3(d), size, size*0.4, kind)}
	}
	// optional wrappers; the field of a transformed metaball is the wrapped
	// field at the pre-image (documented), evaluated here with own inverses.
	for depth := 0; depth < 2; depth++ {
		inner := base
		switch rng.Intn(7) {
		case 0:
			v := model3d.XYZ(logUniform(rng, -1, 1), logUniform(rng, -1, 1), logUniform(rng, -1, 1))
			arr := v.Array()
			for i := range arr {
				if rng.Intn(3) == 0 {
					arr[i] = -arr[i]
				}
			}
			v = model3d.NewCoord3DArray(arr)
			base = mbOperand{model3d.VecScaleMetaball(inner.m, v),
				func(p C3) float64 { return inner.field(C3{X: p.X / v.X, Y: p.Y / v.Y, Z: p.Z / v.Z}) },
				mapPts(inner.hints, func(p C3) C3 { return p.Mul(v) }), fmt.Sprintf("VecScaleMetaball{%s %s}", f3(v), inner.desc)}
		case 1:
			s := logUniform(rng, -1, 1)
			base = mbOperand{model3d.ScaleMetaball(inner.m, s),
				func(p C3) float64 { return inner.field(C3{X: p.X / s, Y: p.Y / s, Z: p.Z / s}) },
				mapPts(inner.hints, func(p C3) C3 { return p.Scale(s) }), fmt.Sprintf("ScaleMetaball{%x %s}", s, inner.desc)}
		case 2:
			off := model3d.XYZ(rng.NormFloat64(), rng.NormFloat64(), rng.NormFloat64())
			base = mbOperand{model3d.TranslateMetaball(inner.m, off),
				func(p C3) float64 { return inner.field(sub3(p, off)) },
				mapPts(inner.hints, func(p C3) C3 { return p.Add(off) }), fmt.Sprintf("TranslateMetaball{%s %s}", f3(off), inner.desc)}
		case 3:
			ax, _ := orient3(rng)
			ax = ax.Normalize()
			th := rng.Float64() * 6
			rot := model3d.Rotation(ax, th)
			// linear map recovered from the transform's own Apply (its definition);
			// the inverse of an orthogonal map is its transpose.
			e0, e1, e2 := rot.Apply(model3d.X(1)), rot.Apply(model3d.Y(1)), rot.Apply(model3d.Z(1))
			base = mbOperand{model3d.RotateMetaball(inner.m, ax, th),
				func(p C3) float64 { return inner.field(C3{X: dot3(e0, p), Y: dot3(e1, p), Z: dot3(e2, p)}) },
				mapPts(inner.hints, rot.Apply), fmt.Sprintf("RotateMetaball{%s %x %s}", f3(ax), th, inner.desc)}
		default:
			return base
		}
	}
	return base
}

func mapPts(ps []C3, f func(C3) C3) []C3 {
	res := make([]C3, len(ps))
	for i, p := range ps {
		res[i] = f(p)
	}
	return res
}

func metaballSubject(rng *rand.Rand) *subject {
	n := 1 + rng.Intn(4)
	if rng.Intn(30) == 0 {
		n = 0
	}
	ops := make([]mbOperand, n)
	ms := make([]model3d.Metaball, n)
	desc := ""
	var hints []C3
	for i := range ops {
		ops[i] = randMetaball(rng)
		if rng.Intn(6) == 0 {
			// a caller's own metaball with a non-linear (but monotone) field
			c := model3d.XYZ(rng.NormFloat64(), rng.NormFloat64(), rng.NormFloat64()).Scale(0.8)
			b := &hWarp{c, 0.3 + rng.Float64(), []float64{0.5, 2, 3, 0.25}[rng.Intn(4)]}
			ops[i] = mbOperand{b, b.MetaballField, []C3{c}, fmt.Sprintf("hWarp{C:%s R:%x P:%g}", f3(c), b.r, b.P)}
		}
		ms[i] = ops[i].m
		desc += ops[i].desc + "; "
		hints = append(hints, ops[i].hints...)
	}
	var f model3d.MetaballFalloffFunc
	fdesc := "quartic(nil)"
	ff := model3d.QuarticMetaballFalloffFunc
	if rng.Intn(3) == 0 {
		f = func(r float64) float64 {
			if r <= 0 {
				return math.Inf(1)
			}
			return 1 / (r * r)
		}
		ff = f
		fdesc = "1/r^2"
	}
	thr := logUniform(rng, -1.3, 0.5)
	s := model3d.MetaballSolid(f, thr, ms...)
	threshold := ff(thr)
	def := func(p C3) bool {
		if n == 0 {
			return false
		}
		var sum float64
		for i := range ops {
			sum += ff(ops[i].field(p))
		}
		return sum > threshold
	}
	return subject3("model3d.MetaballSolid", s, fmt.Sprintf("MetaballSolid{f:%s thr:%x n:%d %s}", fdesc, thr, n, desc)).withUnder3(def).withHints3(hints)
}

// ---------------------------------------------------------------------------
// convex polytopes

func det3(a, b, c C3) float64 {
	return a.X*(b.Y*c.Z-b.Z*c.Y) - a.Y*(b.X*c.Z-b.Z*c.X) + a.Z*(b.X*c.Y-b.Y*c.X)
}

// wedgePolytopeSubject: a knife-edge wedge 0 <= z <= slope*x, x <= L, |y| <= W in a random frame.
// Two of its planes are nearly anti-parallel (dihedral angle = slope rad), so the vertices on
// the sharp edge come from badly conditioned but still clearly non-singular plane triples.
func wedgePolytopeSubject(rng *rand.Rand) *subject {
	slope := logUniform(rng, -6, -2)
	L := logUniform(rng, -1, 4)
	W := L * logUniform(rng, -3, 0)
	var u, v, w C3
	if rng.Intn(2) == 0 {
		k := rng.Intn(3)
		u, v, w = axis3(k, 1), axis3((k+1)%3, 1), axis3((k+2)%3, 1)
	} else {
		u, v, w = frame3(randUnit3(rng), rng)
	}
	c := C3{}
	if rng.Intn(2) == 0 {
		c = offset3(rng, L)
	}
	type plane struct {
		n C3
		d float64 // n.(p-c) <= d
	}
	planes := []plane{
		{mul3(w, -1), 0},
		{add3(w, mul3(u, -slope)), 0},
		{u, L},
		{v, W},
		{mul3(v, -1), W},
	}
	rng.Shuffle(len(planes), func(i, j int) { planes[i], planes[j] = planes[j], planes[i] })
	var poly model3d.ConvexPolytope
	desc := fmt.Sprintf("wedge slope=%x L=%x W=%x ", slope, L, W)
	for _, pl := range planes {
		sc := 1.0
		if rng.Intn(2) == 0 {
			sc = logUniform(rng, -2, 2)
		}
		n := mul3(pl.n, sc)
		mx := sc * (pl.d + dot3(pl.n, c))
		poly = append(poly, &model3d.LinearConstraint{Normal: n, Max: mx})
		desc += fmt.Sprintf("{n:%s max:%x} ", f3(n), mx)
	}
	s := poly.Solid()
	def := func(p C3) bool {
		for _, l := range poly {
			if !(dot3(l.Normal, p) <= l.Max) {
				return false
			}
		}
		return true
	}
	var hints []C3
	for _, fx := range []float64{0.3, 0.6, 0.9} {
		x := fx * L
		hints = append(hints, add3(c, add3(mul3(u, x), add3(mul3(w, 0.5*slope*x), mul3(v, (rng.Float64()-0.5)*W)))))
	}
	sub := subject3("model3d.ConvexPolytope.Solid[thin wedge]", s, "ConvexPolytope{"+desc+"}").withUnder3(def).withHints3(hints)
	sub.hMul = 100
	return sub
}

func polytopeSubject(rng *rand.Rand) *subject {
	if rng.Intn(4) == 0 {
		return wedgePolytopeSubject(rng)
	}
	size := magnitude(rng)
	if size > 1e3 || size < 1e-3 {
		size = 1
	}
	c := offset3(rng, size)
	var units []C3
	var dists []float64
	for attempt := 0; ; attempt++ {
		units, dists = nil, nil
		if rng.Intn(4) == 0 { // axis aligned cube normals
			for k := 0; k < 3; k++ {
				units = append(units, axis3(k, 1), axis3(k, -1))
			}
		} else {
			u, v, w := frame3(randUnit3(rng), rng)
			units = append(units, u, mul3(u, -1), v, mul3(v, -1), w, mul3(w, -1))
		}
		for range units {
			dists = append(dists, size*(0.5+rng.Float64()))
		}
		extra := rng.Intn(5)
		for i := 0; i < extra; i++ {
			units = append(units, randUnit3(rng))
			dists = append(dists, size*(0.3+rng.Float64()*0.6))
		}
		ok := true
		for i := 0; i < len(units) && ok; i++ {
			for j := i + 1; j < len(units) && ok; j++ {
				for k := j + 1; k < len(units) && ok; k++ {
					d := math.Abs(det3(units[i], units[j], units[k]))
					if d > 1e-12 && d < 1e-2 { // singular triples (parallel faces) are fine
						ok = false
					}
				}
			}
		}
		if ok || attempt > 20 {
			if !ok {
				units, dists = units[:6], dists[:6]
			}
			break
		}
	}
	var poly model3d.ConvexPolytope
	desc := ""
	for i, u := range units {
		sc := 1.0
		if rng.Intn(2) == 0 {
			sc = logUniform(rng, -2, 2) // normals need not be unit
		}
		n := mul3(u, sc)
		mx := sc * (dists[i] + dot3(u, c))
		poly = append(poly, &model3d.LinearConstraint{Normal: n, Max: mx})
		desc += fmt.Sprintf("{n:%s max:%x} ", f3(n), mx)
	}
	s := poly.Solid()
	def := func(p C3) bool {
		for _, l := range poly {
			if !(dot3(l.Normal, p) <= l.Max) {
				return false
			}
		}
		return true
	}
	sub := subject3("model3d.ConvexPolytope.Solid", s, "ConvexPolytope{"+desc+"}").withUnder3(def).withHints3([]C3{c})
	sub.hMul = 100 // Mesh() merges vertices closer than 1e-8*magnitude (documented repair step)
	return sub
}
