// 2D bound-imposing wrappers: collider solids, checked func solids, smooth
// joins, SDF solids, metaballs, convex polytopes.
package main

import (
	"fmt"
	"math"
	"math/rand"

	"github.com/unixpickle/model3d/model2d"
)

type refShape2 struct {
	col   model2d.Collider
	sdf   func(C2) float64
	size  float64
	hints []C2
	desc  string
}

func orientedRectMesh(o, u, v C2, half [2]float64) *model2d.Mesh {
	corner := func(i, j float64) C2 {
		return C2{X: o.X + u.X*i*half[0] + v.X*j*half[1], Y: o.Y + u.Y*i*half[0] + v.Y*j*half[1]}
	}
	a, b, c, d := corner(-1, -1), corner(1, -1), corner(1, 1), corner(-1, 1)
	m := model2d.NewMesh()
	// oriented like model2d.NewMeshRect (normals outwards)
	m.Add(&model2d.Segment{a, d})
	m.Add(&model2d.Segment{d, c})
	m.Add(&model2d.Segment{c, b})
	m.Add(&model2d.Segment{b, a})
	return m
}

func randRefShape2(rng *rand.Rand) refShape2 {
	size := magnitude(rng)
	c := offset2(rng, size)
	switch rng.Intn(4) {
	case 0:
		return refShape2{&model2d.Circle{Center: c, Radius: size}, func(p C2) float64 { return refCircleSDF(c, size, p) }, size, []C2{c}, fmt.Sprintf("Circle{C:%s R:%x}", f2(c), size)}
	case 1:
		ext := model2d.XY(size*logUniform(rng, -1, 0.5), size*logUniform(rng, -1, 0.5))
		mx := c.Add(ext)
		return refShape2{&model2d.Rect{MinVal: c, MaxVal: mx}, func(p C2) float64 { return refBoxSDF2(c, mx, p) }, math.Min(ext.X, ext.Y), []C2{c.Mid(mx)}, fmt.Sprintf("Rect{%s %s}", f2(c), f2(mx))}
	case 2:
		d, kind := orient2(rng)
		d = d.Scale(size * logUniform(rng, -0.5, 1) / d.Norm())
		b := c.Add(d)
		return refShape2{&model2d.Capsule{P1: c, P2: b, Radius: size}, func(p C2) float64 { return refCapsuleSDF2(c, b, size, p) }, size, []C2{c, b}, fmt.Sprintf("Capsule{%s %s R:%x %s}", f2(c), f2(b), size, kind)}
	default:
		d, kind := orient2(rng)
		u := d.Scale(1 / d.Norm())
		v := model2d.XY(-u.Y, u.X)
		half := [2]float64{size * logUniform(rng, -1, 0.3), size * logUniform(rng, -1, 0.3)}
		mesh := orientedRectMesh(c, u, v, half)
		sdf := func(p C2) float64 {
			q := sub2(p, c)
			return refBoxSDFn([]float64{-half[0], -half[1]}, half[:], []float64{dot2(q, u), dot2(q, v)})
		}
		return refShape2{model2d.MeshToCollider(mesh), sdf, math.Min(half[0], half[1]), []C2{c}, fmt.Sprintf("MeshToCollider(rect mesh C:%s dir:%s half:%x %s)", f2(c), f2(d), half, kind)}
	}
}

func colliderSolidSubject2(rng *rand.Rand) *subject {
	sh := randRefShape2(rng)
	var s model2d.Solid
	var def func(C2) bool
	var api, desc string
	switch rng.Intn(4) {
	case 0:
		s = model2d.NewColliderSolid(sh.col)
		def = func(p C2) bool { return sh.sdf(p) > 0 }
		api, desc = "model2d.NewColliderSolid", "NewColliderSolid"
	case 1:
		inset := sh.size * (0.05 + 0.6*rng.Float64())
		if rng.Intn(6) == 0 {
			inset = sh.size * (1 + rng.Float64()*2)
		}
		s = model2d.NewColliderSolidInset(sh.col, inset)
		def = func(p C2) bool { return sh.sdf(p) > inset }
		api, desc = "model2d.NewColliderSolidInset", fmt.Sprintf("NewColliderSolidInset{inset:%x}", inset)
	case 2:
		outset := sh.size * logUniform(rng, -2, 0.7)
		s = model2d.NewColliderSolidInset(sh.col, -outset)
		def = func(p C2) bool { return sh.sdf(p) > -outset }
		api, desc = "model2d.NewColliderSolidInset(outset)", fmt.Sprintf("NewColliderSolidInset{inset:-%x}", outset)
	default:
		r := sh.size * logUniform(rng, -2, 0.7)
		s = model2d.NewColliderSolidHollow(sh.col, r)
		def = func(p C2) bool { return math.Abs(sh.sdf(p)) < r }
		api, desc = "model2d.NewColliderSolidHollow", fmt.Sprintf("NewColliderSolidHollow{r:%x}", r)
	}
	sub := subject2(api, s, desc+" of "+sh.desc).withUnder2(def).withHints2(sh.hints)
	for i := 0; i < 6; i++ {
		sub.hints = append(sub.hints, p2(sh.hints[0].Add(randUnit2(rng).Scale(sh.size))))
	}
	return sub
}

func checkedFuncSubject2(rng *rand.Rand) *subject {
	r := magnitude(rng)
	c := offset2(rng, r)
	f := func(p C2) bool { return refCircleSDF(c, r, p) >= 0 }
	mn, mx, kind := randBoxAround2(rng, c.AddScalar(-r), c.AddScalar(r))
	s := model2d.CheckedFuncSolid(mn, mx, f)
	return subject2("model2d.CheckedFuncSolid", s, fmt.Sprintf("CheckedFuncSolid{%s %s %s disc C:%s R:%x}", f2(mn), f2(mx), kind, f2(c), r)).
		withUnder2(func(p C2) bool { return inBox2(p, mn, mx) && f(p) }).withHints2([]C2{c, mn.Mid(mx)})
}

type sdfOperand2 struct {
	sdf   model2d.NormalSDF
	hints []C2
	size  float64
	desc  string
}

func randSDFOperand2(rng *rand.Rand, near bool) sdfOperand2 {
	size := magnitude(rng)
	c := offset2(rng, size)
	if near {
		size = 0.3 + rng.Float64()
		c = model2d.XY(rng.NormFloat64(), rng.NormFloat64()).Scale(0.6)
	}
	d, kind := orient2(rng)
	d = d.Scale(size * (0.5 + rng.Float64()*2) / d.Norm())
	switch rng.Intn(6) {
	case 0:
		return sdfOperand2{&hDisc{c, size}, []C2{c}, size, fmt.Sprintf("hDisc{C:%s R:%x}", f2(c), size)}
	case 1:
		ext := model2d.XY(size*(0.2+rng.Float64()), size*(0.2+rng.Float64()))
		return sdfOperand2{&hBox2{c, c.Add(ext)}, []C2{c.Add(ext.Scale(0.5))}, math.Min(ext.X, ext.Y), fmt.Sprintf("hBox2{%s %s}", f2(c), f2(c.Add(ext)))}
	case 2:
		return sdfOperand2{&model2d.Circle{Center: c, Radius: size}, []C2{c}, size, fmt.Sprintf("Circle{C:%s R:%x}", f2(c), size)}
	case 3:
		ext := model2d.XY(size*(0.2+rng.Float64()), size*(0.2+rng.Float64()))
		return sdfOperand2{&model2d.Rect{MinVal: c, MaxVal: c.Add(ext)}, []C2{c.Add(ext.Scale(0.5))}, math.Min(ext.X, ext.Y), fmt.Sprintf("Rect{%s %s}", f2(c), f2(c.Add(ext)))}
	case 4:
		return sdfOperand2{&model2d.Capsule{P1: c, P2: c.Add(d), Radius: size * 0.5}, []C2{c, c.Add(d)}, size * 0.5, fmt.Sprintf("Capsule{%s %s R:%x %s}", f2(c), f2(c.Add(d)), size*0.5, kind)}
	default:
		u := d.Scale(1 / d.Norm())
		v := model2d.XY(-u.Y, u.X)
		half := [2]float64{size * (0.3 + rng.Float64()), size * (0.3 + rng.Float64())}
		return sdfOperand2{model2d.MeshToSDF(orientedRectMesh(c, u, v, half)), []C2{c}, math.Min(half[0], half[1]), fmt.Sprintf("MeshToSDF(rect mesh C:%s dir:%s half:%x %s)", f2(c), f2(d), half, kind)}
	}
}

func smoothJoinSubject2(rng *rand.Rand) *subject {
	n := 1 + rng.Intn(4)
	ops := make([]sdfOperand2, n)
	desc := ""
	var hints []C2
	minSize := math.Inf(1)
	aligned := n >= 2 && rng.Intn(3) == 0
	var top float64
	axis := rng.Intn(2)
	for i := range ops {
		ops[i] = randSDFOperand2(rng, true)
		if aligned {
			// rects with a common top along one axis that overlap along the other (see the 3D version)
			if i == 0 {
				top = rng.NormFloat64()
			}
			la := [2]float64{-0.5 - rng.Float64(), -0.5 - rng.Float64()}
			ha := [2]float64{0.5 + rng.Float64(), 0.5 + rng.Float64()}
			ha[axis] = top
			la[axis] = top - 0.4 - rng.Float64()
			lo, hi := model2d.XY(la[0], la[1]), model2d.XY(ha[0], ha[1])
			ops[i] = sdfOperand2{&model2d.Rect{MinVal: lo, MaxVal: hi}, []C2{lo.Mid(hi)}, 0.4, fmt.Sprintf("Rect{%v %v}", lo, hi)}
		}
		desc += ops[i].desc + "; "
		hints = append(hints, ops[i].hints...)
		minSize = math.Min(minSize, ops[i].size)
	}
	radius := minSize * logUniform(rng, -1.5, 0.5)
	if rng.Intn(8) == 0 {
		radius = 0
	}
	if aligned {
		desc = "aligned-tops; " + desc
		for k := 0; k < 6; k++ {
			pa := [2]float64{0.4 * rng.NormFloat64(), 0.4 * rng.NormFloat64()}
			f := rng.Float64()
			if k%2 == 0 {
				f = 1 - 0.03*rng.Float64()
			}
			pa[axis] = top + radius*(1-math.Sqrt(0.5))*f
			hints = append(hints, model2d.XY(pa[0], pa[1]))
		}
	}
	if rng.Intn(2) == 0 {
		sdfs := make([]model2d.SDF, n)
		for i := range ops {
			sdfs[i] = ops[i].sdf
		}
		s := model2d.SmoothJoin(radius, sdfs...)
		def := func(p C2) bool {
			ds := make([]float64, n)
			for i := range ops {
				ds[i] = ops[i].sdf.SDF(p)
			}
			return smoothJoinRef(radius, ds)
		}
		return subject2("model2d.SmoothJoin"+arity(n), s, fmt.Sprintf("SmoothJoin{r:%x n:%d %s}", radius, n, desc)).withUnder2(def).withHints2(hints)
	}
	sdfs := make([]model2d.NormalSDF, n)
	for i := range ops {
		sdfs[i] = ops[i].sdf
	}
	s := model2d.SmoothJoinV2(radius, sdfs...)
	def := func(p C2) bool {
		ds := make([]float64, n)
		ns := make([]C2, n)
		for i := range ops {
			ns[i], ds[i] = ops[i].sdf.NormalSDF(p)
		}
		return smoothJoinV2Ref(radius, ds, func(i, j int) float64 { return dot2(ns[i], ns[j]) })
	}
	return subject2("model2d.SmoothJoinV2"+arity(n), s, fmt.Sprintf("SmoothJoinV2{r:%x n:%d %s}", radius, n, desc)).withUnder2(def).withHints2(hints)
}

func sdfToSolidSubject2(rng *rand.Rand) *subject {
	op := randSDFOperand2(rng, false)
	var outset float64
	switch rng.Intn(4) {
	case 0:
		outset = 0
	case 1:
		outset = -op.size * (0.05 + 0.4*rng.Float64())
	default:
		outset = op.size * logUniform(rng, -2, 1)
	}
	s := model2d.SDFToSolid(op.sdf, outset)
	return subject2("model2d.SDFToSolid", s, fmt.Sprintf("SDFToSolid{outset:%x %s}", outset, op.desc)).
		withUnder2(func(p C2) bool { return op.sdf.SDF(p) > -outset }).withHints2(op.hints)
}

type mbOperand2 struct {
	m     model2d.Metaball
	field func(C2) float64
	hints []C2
	desc  string
}

func mapPts2(ps []C2, f func(C2) C2) []C2 {
	res := make([]C2, len(ps))
	for i, p := range ps {
		res[i] = f(p)
	}
	return res
}

func randMetaball2(rng *rand.Rand) mbOperand2 {
	size := 0.3 + rng.Float64()
	c := model2d.XY(rng.NormFloat64(), rng.NormFloat64()).Scale(0.8)
	d, kind := orient2(rng)
	d = d.Scale(size * (0.5 + rng.Float64()*2) / d.Norm())
	var base mbOperand2
	switch rng.Intn(7) {
	case 6:
		// the library's 2D triangle as a metaball (clockwise or not: the field is -SDF either way)
		p2 := c.Add(d)
		p3 := c.Add(model2d.XY(-d.Y, d.X).Scale(0.3 + rng.Float64()))
		if rng.Intn(2) == 0 {
			p2, p3 = p3, p2
		}
		m := model2d.NewTriangle(c, p2, p3)
		base = mbOperand2{m, m.MetaballField, []C2{c.Add(p2).Add(p3).Scale(1.0 / 3)}, fmt.Sprintf("Triangle{%s %s %s}", f2(c), f2(p2), f2(p3))}
	case 0:
		b := &hDisc{c, size}
		base = mbOperand2{b, b.MetaballField, []C2{c}, fmt.Sprintf("hDisc{C:%s R:%x}", f2(c), size)}
	case 1:
		ext := model2d.XY(size*(0.2+rng.Float64()), size*(0.2+rng.Float64()))
		b := &hBox2{c, c.Add(ext)}
		base = mbOperand2{b, b.MetaballField, []C2{c.Add(ext.Scale(0.5))}, fmt.Sprintf("hBox2{%s %s}", f2(c), f2(c.Add(ext)))}
	case 2:
		b := &hDisc{c, size}
		base = mbOperand2{model2d.SDFToMetaball(b), func(p C2) float64 { return -b.SDF(p) }, []C2{c}, fmt.Sprintf("SDFToMetaball(hDisc{C:%s R:%x})", f2(c), size)}
	case 3:
		m := &model2d.Circle{Center: c, Radius: size}
		base = mbOperand2{m, m.MetaballField, []C2{c}, fmt.Sprintf("Circle{C:%s R:%x}", f2(c), size)}
	case 4:
		ext := model2d.XY(size*(0.2+rng.Float64()), size*(0.2+rng.Float64()))
		m := &model2d.Rect{MinVal: c, MaxVal: c.Add(ext)}
		base = mbOperand2{m, m.MetaballField, []C2{c.Add(ext.Scale(0.5))}, fmt.Sprintf("Rect{%s %s}", f2(c), f2(c.Add(ext)))}
	default:
		m := &model2d.Capsule{P1: c, P2: c.Add(d), Radius: size * 0.5}
		base = mbOperand2{m, m.MetaballField, []C2{c}, fmt.Sprintf("Capsule{%s %s R:%x %s}", f2(c), f2(c.Add(d)), size*0.5, kind)}
	}
	for depth := 0; depth < 2; depth++ {
		inner := base
		switch rng.Intn(7) {
		case 0:
			v := model2d.XY(logUniform(rng, -1, 1), logUniform(rng, -1, 1))
			if rng.Intn(3) == 0 {
				v.X = -v.X
			}
			if rng.Intn(3) == 0 {
				v.Y = -v.Y
			}
			base = mbOperand2{model2d.VecScaleMetaball(inner.m, v), func(p C2) float64 { return inner.field(C2{X: p.X / v.X, Y: p.Y / v.Y}) },
				mapPts2(inner.hints, func(p C2) C2 { return p.Mul(v) }), fmt.Sprintf("VecScaleMetaball{%s %s}", f2(v), inner.desc)}
		case 1:
			s := logUniform(rng, -1, 1)
			base = mbOperand2{model2d.ScaleMetaball(inner.m, s), func(p C2) float64 { return inner.field(C2{X: p.X / s, Y: p.Y / s}) },
				mapPts2(inner.hints, func(p C2) C2 { return p.Scale(s) }), fmt.Sprintf("ScaleMetaball{%x %s}", s, inner.desc)}
		case 2:
			off := model2d.XY(rng.NormFloat64(), rng.NormFloat64())
			base = mbOperand2{model2d.TranslateMetaball(inner.m, off), func(p C2) float64 { return inner.field(sub2(p, off)) },
				mapPts2(inner.hints, func(p C2) C2 { return p.Add(off) }), fmt.Sprintf("TranslateMetaball{%s %s}", f2(off), inner.desc)}
		case 3:
			th := rng.Float64() * 6
			rot := model2d.Rotation(th)
			e0, e1 := rot.Apply(model2d.X(1)), rot.Apply(model2d.Y(1))
			base = mbOperand2{model2d.RotateMetaball(inner.m, th), func(p C2) float64 { return inner.field(C2{X: dot2(e0, p), Y: dot2(e1, p)}) },
				mapPts2(inner.hints, rot.Apply), fmt.Sprintf("RotateMetaball{%x %s}", th, inner.desc)}
		default:
			return base
		}
	}
	return base
}

func metaballSubject2(rng *rand.Rand) *subject {
	n := 1 + rng.Intn(4)
	if rng.Intn(30) == 0 {
		n = 0
	}
	ops := make([]mbOperand2, n)
	ms := make([]model2d.Metaball, n)
	desc := ""
	var hints []C2
	for i := range ops {
		ops[i] = randMetaball2(rng)
		ms[i] = ops[i].m
		desc += ops[i].desc + "; "
		hints = append(hints, ops[i].hints...)
	}
	var f model2d.MetaballFalloffFunc
	fdesc := "quartic(nil)"
	ff := model2d.QuarticMetaballFalloffFunc
	if rng.Intn(3) == 0 {
		f = func(r float64) float64 {
			if r <= 0 {
				return math.Inf(1)
			}
			return 1 / (r * r)
		}
		ff = f
		fdesc = "1/r^2"
	}
	thr := logUniform(rng, -1.3, 0.5)
	s := model2d.MetaballSolid(f, thr, ms...)
	threshold := ff(thr)
	def := func(p C2) bool {
		if n == 0 {
			return false
		}
		var sum float64
		for i := range ops {
			sum += ff(ops[i].field(p))
		}
		return sum > threshold
	}
	return subject2("model2d.MetaballSolid", s, fmt.Sprintf("MetaballSolid{f:%s thr:%x n:%d %s}", fdesc, thr, n, desc)).withUnder2(def).withHints2(hints)
}

func polytopeSubject2(rng *rand.Rand) *subject {
	size := magnitude(rng)
	if size > 1e3 || size < 1e-3 {
		size = 1
	}
	c := offset2(rng, size)
	var units []C2
	var dists []float64
	for attempt := 0; ; attempt++ {
		units, dists = nil, nil
		u := randUnit2(rng)
		if rng.Intn(4) == 0 {
			u = model2d.X(1)
		}
		v := model2d.XY(-u.Y, u.X)
		units = append(units, u, u.Scale(-1), v, v.Scale(-1))
		for range units {
			dists = append(dists, size*(0.5+rng.Float64()))
		}
		extra := rng.Intn(5)
		for i := 0; i < extra; i++ {
			units = append(units, randUnit2(rng))
			dists = append(dists, size*(0.3+rng.Float64()*0.6))
		}
		ok := true
		for i := 0; i < len(units) && ok; i++ {
			for j := i + 1; j < len(units) && ok; j++ {
				d := math.Abs(units[i].X*units[j].Y - units[i].Y*units[j].X)
				if d > 1e-12 && d < 1e-2 {
					ok = false
				}
			}
		}
		if ok || attempt > 20 {
			if !ok {
				units, dists = units[:4], dists[:4]
			}
			break
		}
	}
	var poly model2d.ConvexPolytope
	desc := ""
	for i, u := range units {
		sc := 1.0
		if rng.Intn(2) == 0 {
			sc = logUniform(rng, -2, 2)
		}
		n := u.Scale(sc)
		mx := sc * (dists[i] + dot2(u, c))
		poly = append(poly, &model2d.LinearConstraint{Normal: n, Max: mx})
		desc += fmt.Sprintf("{n:%s max:%x} ", f2(n), mx)
	}
	s := poly.Solid()
	def := func(p C2) bool {
		for _, l := range poly {
			if !(dot2(l.Normal, p) <= l.Max) {
				return false
			}
		}
		return true
	}
	sub := subject2("model2d.ConvexPolytope.Solid", s, "ConvexPolytope{"+desc+"}").withUnder2(def).withHints2([]C2{c})
	sub.hMul = 100
	return sub
}
