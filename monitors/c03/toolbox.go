// toolbox3d parts: ScrewSolid, Teardrop2D/3D, Ramp, gears, height maps, line
// joins, RadialCurve, RectSet.Solid, SliceSolid. (ClampAxis* and the squeeze
// transforms are exercised inside the 3D expression trees.)
package main

import (
	"fmt"
	"math"
	"math/rand"

	"github.com/unixpickle/model3d/model2d"
	"github.com/unixpickle/model3d/model3d"
	"github.com/unixpickle/model3d/toolbox3d"
	"verif/vlib"
)

func screwSubject(rng *rand.Rand) *subject {
	p1, p2, r, kind := segmentParams3(rng)
	rod := rng.Intn(6) == 0
	if rod {
		// a threaded rod that is 1e6..1e10 radii long, along or close to a coordinate axis
		ax := C3{}
		switch rng.Intn(3) {
		case 0:
			ax.X = 1
		case 1:
			ax.Y = 1
		default:
			ax.Z = 1
		}
		if rng.Intn(3) == 0 {
			ax = ax.Add(C3{X: 1e-3 * rng.NormFloat64(), Y: 1e-3 * rng.NormFloat64(), Z: 1e-3 * rng.NormFloat64()})
		}
		if rng.Intn(2) == 0 {
			ax = ax.Scale(-1)
		}
		p2 = p1.Add(ax.Scale(r * math.Pow(10, 6+4*rng.Float64())))
		kind = "rod 1e6..1e10 radii long"
	}
	groove := r * []float64{0.01, 0.1, 0.3, 0.5, 1}[rng.Intn(5)] // documented: may not exceed Radius
	s := &toolbox3d.ScrewSolid{P1: p1, P2: p2, Radius: r, GrooveSize: groove, Pointed: rng.Intn(2) == 0}
	sub := subject3("toolbox3d.ScrewSolid", s, fmt.Sprintf("ScrewSolid{%s %s R:%x G:%x pointed:%v %s}", f3(p1), f3(p2), r, groove, s.Pointed, kind))
	hints := []C3{lerp3(p1, p2, 0.5), lerp3(p1, p2, 0.001), lerp3(p1, p2, 0.999)}
	for i := 0; i < 6; i++ {
		w := perp3(p2.Sub(p1), rng)
		hints = append(hints, lerp3(p1, p2, 0.001+0.2*rng.Float64()).Add(w.Scale(r*0.999)))
	}
	if rod {
		// just outside the bounding cylinder, anywhere along the rod. The engine's general margin
		// is a fraction of the box diagonal (here a million radii and more), so these points are
		// judged per axis: outside the box by more than 1e-4 of the box's extent on that axis
		// (plus 1e-12 of the coordinate scale for the cancellation along the rod).
		var probes []P
		for i := 0; i < 24; i++ {
			w := perp3(p2.Sub(p1), rng)
			probes = append(probes, p3(lerp3(p1, p2, rng.Float64()).Add(w.Scale(r*(1.001+2*rng.Float64())))))
		}
		sub.extra = func(c *vlib.Case, q *querier) {
			for _, p := range probes {
				out := false
				for k := 0; k < 3; k++ {
					m := 1e-4*q.f.ext[k] + 1e-12*q.f.scale
					if p[k] > q.f.max[k]+m || p[k] < q.f.min[k]-m {
						out = true
					}
				}
				if !out {
					continue
				}
				c.Count("screw.rod_probes_outside_the_box_on_a_short_axis", 1)
				if sub.contains(p) {
					c.Violation("toolbox3d.ScrewSolid/contained-point-outside-box-on-a-short-axis",
						"Contains is true for a point that lies outside the box by more than 1e-4 of the box's extent on that axis",
						q.witness(p, nil))
					return
				}
			}
		}
	}
	return sub.withHints3(hints)
}

func teardrop2Subject(rng *rand.Rand) *subject {
	r := magnitude(rng)
	c := offset2(rng, r)
	var dir C2
	kind := "zero-direction"
	if rng.Intn(5) != 0 {
		dir, kind = orient2(rng)
		if rng.Intn(2) == 0 {
			dir = dir.Scale(logUniform(rng, -2, 2))
		}
	}
	s := &toolbox3d.Teardrop2D{Center: c, Radius: r, Direction: dir}
	u := model2d.XY(0, 1)
	if dir.Norm() > 0 {
		u = dir.Normalize()
	}
	return subject2("toolbox3d.Teardrop2D", s, fmt.Sprintf("Teardrop2D{C:%s R:%x Dir:%s %s}", f2(c), r, f2(dir), kind)).
		withHints2([]C2{c, c.Add(u.Scale(r * math.Sqrt2 * 0.999)), c.Add(u.Scale(-r * 0.999))})
}

func teardrop3Subject(rng *rand.Rand) *subject {
	for {
		p1, p2, r, kind := segmentParams3(rng)
		length := norm3(sub3(p2, p1))
		z := mul3(sub3(p2, p1), 1/length)
		y := sub3(C3{Z: 1}, mul3(z, z.Z))
		yn := norm3(y)
		if yn > 0 && yn < 1e-3 {
			continue // too close to the library's vertical-axis switch (1e-5): frame ambiguous
		}
		if yn == 0 {
			y = sub3(C3{Y: 1}, mul3(z, z.Y))
			yn = norm3(y)
		}
		y = mul3(y, 1/yn)
		x := C3{X: y.Y*z.Z - y.Z*z.Y, Y: y.Z*z.X - y.X*z.Z, Z: y.X*z.Y - y.Y*z.X}
		prof := &toolbox3d.Teardrop2D{Radius: r}
		s := toolbox3d.Teardrop3D(p1, p2, r)
		def := func(p C3) bool {
			q := sub3(p, p1)
			h := dot3(q, z)
			return h >= 0 && h <= length && prof.Contains(model2d.XY(dot3(q, x), dot3(q, y)))
		}
		mid := lerp3(p1, p2, 0.5)
		return subject3("toolbox3d.Teardrop3D", s, fmt.Sprintf("Teardrop3D{%s %s R:%x %s}", f3(p1), f3(p2), r, kind)).
			withUnder3(def).withHints3([]C3{mid, add3(mid, mul3(y, r*math.Sqrt2*0.99)), add3(mid, mul3(x, r*0.99)), lerp3(p1, p2, 0.001), lerp3(p1, p2, 0.999)})
	}
}

func rampSubject(rng *rand.Rand) *subject {
	k := tamePrim3(rng)
	if rng.Intn(3) == 0 {
		k = randTree3(rng, 1)
	}
	mn, mx := k.s.Min(), k.s.Max()
	// the tip and base of the ramp are taken inside the operand's box: the scaled
	// copies then stay inside the (convex) box, which Ramp reports unchanged
	pt := func() C3 {
		return model3d.XYZ(mn.X+(mx.X-mn.X)*rng.Float64(), mn.Y+(mx.Y-mn.Y)*rng.Float64(), mn.Z+(mx.Z-mn.Z)*rng.Float64())
	}
	p1, p2 := pt(), pt()
	if len(k.hints) > 0 && rng.Intn(2) == 0 && inBox3(k.hints[0], mn, mx) {
		p2 = k.hints[0]
	}
	if p1 == p2 {
		return nil
	}
	s := &toolbox3d.Ramp{Solid: k.s, P1: p1, P2: p2}
	sub := subject3("toolbox3d.Ramp", s, fmt.Sprintf("Ramp{P1:%s P2:%s %s}", f3(p1), f3(p2), k.describe())).withHints3(k.hints)
	sub.hints = append(sub.hints, p3(p2), p3(lerp3(p1, p2, 0.5)))
	sub.costly = k.costly
	return sub
}

func randGearProfile(rng *rand.Rand) (toolbox3d.GearProfile, string) {
	pa := (14.5 + rng.Float64()*10.5) * math.Pi / 180
	module := logUniform(rng, -2, 1)
	teeth := 6 + rng.Intn(40)
	if rng.Intn(2) == 0 {
		cl := module * (0.1 + 0.3*rng.Float64())
		return toolbox3d.InvoluteGearProfile(pa, module, cl, teeth), fmt.Sprintf("InvoluteGearProfile{pa:%x m:%x cl:%x teeth:%d}", pa, module, cl, teeth)
	}
	add, ded := module*(0.7+0.6*rng.Float64()), module*(0.9+0.6*rng.Float64())
	return toolbox3d.InvoluteGearProfileSizes(pa, module, add, ded, teeth), fmt.Sprintf("InvoluteGearProfileSizes{pa:%x m:%x add:%x ded:%x teeth:%d}", pa, module, add, ded, teeth)
}

func gearProfileSubject(rng *rand.Rand) *subject {
	prof, desc := randGearProfile(rng)
	r := prof.Max().X
	hints := []C2{{}}
	for i := 0; i < 8; i++ {
		hints = append(hints, randUnit2(rng).Scale(r*(0.9+0.1*rng.Float64())))
	}
	return subject2("toolbox3d.InvoluteGearProfile", prof, desc).withHints2(hints)
}

func gearSubject(rng *rand.Rand) *subject {
	prof, pdesc := randGearProfile(rng)
	dir, kind := orient3(rng)
	u := mul3(dir, 1/norm3(dir))
	length := prof.Max().X * logUniform(rng, -1.5, 1)
	// the gears place the profile around the axis through the origin (as in
	// every documented use, P1 = origin); keep P1 on that axis
	t0 := 0.0
	if rng.Intn(2) == 0 {
		t0 = rng.NormFloat64() * length
	}
	p1 := mul3(u, t0)
	p2 := mul3(u, t0+length)
	v1, v2 := sub3(p2, p1).OrthoBasis() // angular frame is the library's choice (undocumented): taken as given
	helical := rng.Intn(2) == 0
	angle := (rng.Float64()*2 - 1) * 0.6
	var s model3d.Solid
	api := "toolbox3d.SpurGear"
	if helical {
		s = &toolbox3d.HelicalGear{P1: p1, P2: p2, Profile: prof, Angle: angle}
		api = "toolbox3d.HelicalGear"
	} else {
		s = &toolbox3d.SpurGear{P1: p1, P2: p2, Profile: prof}
	}
	def := func(p C3) bool {
		h := dot3(sub3(p, p1), u)
		if h < 0 || h > length {
			return false
		}
		c2 := model2d.XY(dot3(v1, p), dot3(v2, p))
		if helical {
			th := math.Tan(angle) * h / prof.PitchRadius()
			cs, sn := math.Cos(th), math.Sin(th)
			c2 = model2d.XY(cs*c2.X-sn*c2.Y, sn*c2.X+cs*c2.Y)
		}
		return prof.Contains(c2)
	}
	r := prof.Max().X
	hints := []C3{lerp3(p1, p2, 0.5)}
	for i := 0; i < 8; i++ {
		w := perp3(u, rng)
		hints = append(hints, add3(lerp3(p1, p2, rng.Float64()), mul3(w, r*(0.85+0.15*rng.Float64()))))
	}
	return subject3(api, s, fmt.Sprintf("%s{P1:%s P2:%s angle:%x %s %s}", api, f3(p1), f3(p2), angle, kind, pdesc)).withUnder3(def).withHints3(hints)
}

func heightMapSubject(rng *rand.Rand) *subject {
	size := magnitude(rng)
	if size < 1e-3 || size > 1e3 {
		size = 1
	}
	mn := offset2(rng, size)
	ext := model2d.XY(size*logUniform(rng, -0.7, 0.7), size*logUniform(rng, -0.7, 0.7))
	mx := mn.Add(ext)
	hm := toolbox3d.NewHeightMap(mn, mx, 4+rng.Intn(30))
	n := 1 + rng.Intn(6)
	desc := ""
	var hints []C3
	for i := 0; i < n; i++ {
		c := model2d.XY(mn.X+ext.X*(rng.Float64()*1.2-0.1), mn.Y+ext.Y*(rng.Float64()*1.2-0.1))
		r := math.Max(ext.X, ext.Y) * (0.05 + 0.5*rng.Float64())
		switch rng.Intn(3) {
		case 0:
			hm.AddSphere(c, r)
			desc += fmt.Sprintf("AddSphere(%s,%x) ", f2(c), r)
		case 1:
			hm.AddSphereFill(c, r, r*(0.2+rng.Float64()))
			desc += fmt.Sprintf("AddSphereFill(%s,%x) ", f2(c), r)
		default:
			v := r * r * rng.Float64()
			hm.SetHeightSquaredAt(c, v)
			desc += fmt.Sprintf("SetHeightSquaredAt(%s,%x) ", f2(c), v)
		}
		hints = append(hints, model3d.XYZ(c.X, c.Y, r*0.01))
	}
	bidir := rng.Intn(2) == 0
	var s model3d.Solid
	api := "toolbox3d.HeightMapToSolid"
	if bidir {
		s = toolbox3d.HeightMapToSolidBidir(hm)
		api = "toolbox3d.HeightMapToSolidBidir"
	} else {
		s = toolbox3d.HeightMapToSolid(hm)
	}
	// underlying definition: over the map's own rectangle, the interpolated
	// height exceeds |z| (z >= 0 unless mirrored)
	def := func(p C3) bool {
		if !inBox2(model2d.XY(p.X, p.Y), mn, mx) {
			return false
		}
		if !bidir && p.Z < 0 {
			return false
		}
		return hm.HigherAt(model2d.XY(p.X, p.Y), math.Abs(p.Z))
	}
	return subject3(api, s, fmt.Sprintf("%s{min:%s max:%s rows:%d cols:%d %s}", api, f2(mn), f2(mx), hm.Rows, hm.Cols, desc)).withUnder3(def).withHints3(hints)
}

func randSegments3(rng *rand.Rand) ([]model3d.Segment, []C3, string) {
	n := 1 + rng.Intn(4)
	size := magnitude(rng)
	if size < 1e-3 || size > 1e3 {
		size = 1
	}
	o := offset3(rng, size)
	var segs []model3d.Segment
	var hints []C3
	desc := ""
	prev := o
	for i := 0; i < n; i++ {
		d, _ := orient3(rng)
		d = d.Scale(size * (0.2 + rng.Float64()) / d.Norm())
		a := prev
		if rng.Intn(3) == 0 {
			a = o.Add(randUnit3(rng).Scale(size))
		}
		b := a.Add(d)
		segs = append(segs, model3d.Segment{a, b})
		hints = append(hints, a, b, a.Mid(b))
		desc += fmt.Sprintf("[%s %s] ", f3(a), f3(b))
		prev = b
	}
	return segs, hints, desc
}

func refL1SegDist(a, b, p C3) float64 {
	d := sub3(b, a)
	best := math.Inf(1)
	try := func(t float64) {
		q := add3(a, mul3(d, t))
		v := math.Abs(p.X-q.X) + math.Abs(p.Y-q.Y) + math.Abs(p.Z-q.Z)
		if v < best {
			best = v
		}
	}
	try(0)
	try(1)
	da, pa := d.Array(), sub3(p, a).Array()
	for k := 0; k < 3; k++ {
		if da[k] != 0 {
			if t := pa[k] / da[k]; t > 0 && t < 1 {
				try(t)
			}
		}
	}
	return best
}

func l1Ball(c C3, r float64, p C3) bool {
	return math.Abs(p.X-c.X)+math.Abs(p.Y-c.Y)+math.Abs(p.Z-c.Z) < r
}

func l1Line(a, b C3, r float64, p C3) bool {
	d := sub3(a, b)
	l := norm3(d)
	t := dot3(sub3(p, b), mul3(d, 1/l))
	return t >= 0 && t <= l && refL1SegDist(a, b, p) < r
}

func lineJoinSubject(rng *rand.Rand) *subject {
	segs, hints, desc := randSegments3(rng)
	size := 0.0
	for _, s := range segs {
		size = math.Max(size, norm3(sub3(s[1], s[0])))
	}
	r := size * logUniform(rng, -2, 0.5)
	switch rng.Intn(5) {
	case 0:
		s := toolbox3d.LineJoin(r, segs...)
		def := func(p C3) bool {
			for _, sg := range segs {
				if refSegDist3(sg[0], sg[1], p) < r {
					return true
				}
			}
			return false
		}
		return subject3("toolbox3d.LineJoin", s, fmt.Sprintf("LineJoin{r:%x %s}", r, desc)).withUnder3(def).withHints3(hints)
	case 1:
		s := toolbox3d.L1LineJoin(r, segs...)
		def := func(p C3) bool {
			for _, sg := range segs {
				if l1Line(sg[0], sg[1], r, p) || l1Ball(sg[0], r, p) || l1Ball(sg[1], r, p) {
					return true
				}
			}
			return false
		}
		return subject3("toolbox3d.L1LineJoin", s, fmt.Sprintf("L1LineJoin{r:%x %s}", r, desc)).withUnder3(def).withHints3(hints)
	case 2:
		a, b := segs[0][0], segs[0][1]
		s := toolbox3d.TriangularLine(r, a, b)
		return subject3("toolbox3d.TriangularLine", s, fmt.Sprintf("TriangularLine{r:%x %s %s}", r, f3(a), f3(b))).
			withUnder3(func(p C3) bool { return l1Line(a, b, r, p) }).withHints3([]C3{a, b, a.Mid(b)})
	case 3:
		a := segs[0][0]
		s := toolbox3d.TriangularBall(r, a)
		return subject3("toolbox3d.TriangularBall", s, fmt.Sprintf("TriangularBall{r:%x %s}", r, f3(a))).
			withUnder3(func(p C3) bool { return l1Ball(a, r, p) }).withHints3([]C3{a})
	default:
		var pts []C3
		for _, sg := range segs {
			pts = append(pts, sg[0])
		}
		pts = append(pts, segs[len(segs)-1][1])
		closed := rng.Intn(2) == 0
		s := toolbox3d.TriangularPolygon(r, closed, pts...)
		def := func(p C3) bool {
			for i := 0; i+1 < len(pts); i++ {
				if l1Line(pts[i], pts[i+1], r, p) || (i != 0 && l1Ball(pts[i], r, p)) {
					return true
				}
			}
			if closed {
				last := pts[len(pts)-1]
				return l1Line(last, pts[0], r, p) || l1Ball(last, r, p) || l1Ball(pts[0], r, p)
			}
			return false
		}
		return subject3("toolbox3d.TriangularPolygon", s, fmt.Sprintf("TriangularPolygon{r:%x closed:%v %s}", r, closed, desc)).withUnder3(def).withHints3(pts)
	}
}

func radialCurveSubject(rng *rand.Rand) *subject {
	steps := 2 + rng.Intn(10)
	size := magnitude(rng)
	if size < 1e-3 || size > 1e3 {
		size = 1
	}
	o := offset3(rng, size)
	u, v, w := frame3(randUnit3(rng), rng)
	kind := rng.Intn(3)
	r0 := size * logUniform(rng, -1.5, -0.3)
	pitch := size * rng.Float64()
	f := func(t float64) (C3, float64) {
		switch kind {
		case 0: // circle / helix
			th := 2 * math.Pi * t
			p := add3(add3(add3(o, mul3(u, size*math.Cos(th))), mul3(v, size*math.Sin(th))), mul3(w, pitch*t))
			return p, r0 * (1 + 0.5*math.Sin(3*th))
		case 1: // straight line with varying radius
			return add3(o, mul3(w, size*t)), r0 * (0.2 + t)
		default: // zig-zag, radius may reach zero
			return add3(add3(o, mul3(u, size*t)), mul3(v, size*0.3*math.Abs(math.Mod(t*4, 2)-1))), r0 * t
		}
	}
	closed := kind == 0 && pitch < 1e-9*size || rng.Intn(4) == 0
	s := toolbox3d.RadialCurve(steps, closed, f)
	type piece struct {
		p1, p2 C3
		r1, r2 float64
	}
	var pieces []piece
	pa, ra := f(0)
	var hints []C3
	for i := 0; i < steps; i++ {
		pb, rb := f(float64(i+1) / float64(steps))
		pieces = append(pieces, piece{pa, pb, ra, rb})
		hints = append(hints, lerp3(pa, pb, 0.5))
		pa, ra = pb, rb
	}
	// the conic sections alone are a subset of the solid's definition
	def := func(p C3) bool {
		for _, pc := range pieces {
			d := sub3(pc.p2, pc.p1)
			l := norm3(d)
			if l == 0 {
				continue
			}
			ud := mul3(d, 1/l)
			q := sub3(p, pc.p1)
			t := dot3(q, ud) / l
			if t < 0 || t > 1 {
				continue
			}
			if norm3(sub3(q, mul3(ud, dot3(q, ud)))) < pc.r2*t+pc.r1*(1-t) {
				return true
			}
		}
		return false
	}
	sub := subject3("toolbox3d.RadialCurve", s, fmt.Sprintf("RadialCurve{steps:%d closed:%v kind:%d o:%s size:%x r0:%x pitch:%x}", steps, closed, kind, f3(o), size, r0, pitch)).withUnder3(def).withHints3(hints)
	sub.costly = steps > 6
	return sub
}

type rectOp struct {
	add  bool
	rect model3d.Rect
}

func rectSetSubject(rng *rand.Rand) *subject {
	rs := toolbox3d.NewRectSet()
	scale := math.Ldexp(1, rng.Intn(7)-3)
	off := model3d.XYZ(float64(rng.Intn(9)-4), float64(rng.Intn(9)-4), float64(rng.Intn(9)-4))
	g := func() float64 { return float64(rng.Intn(7)) }
	var ops []rectOp
	n := 1 + rng.Intn(7)
	desc := ""
	var hints []C3
	for i := 0; i < n; i++ {
		a := model3d.XYZ(g(), g(), g())
		b := a.Add(model3d.XYZ(1+float64(rng.Intn(3)), 1+float64(rng.Intn(3)), 1+float64(rng.Intn(3))))
		r := model3d.Rect{MinVal: a.Add(off).Scale(scale), MaxVal: b.Add(off).Scale(scale)}
		add := i == 0 || rng.Intn(3) != 0
		switch {
		case add && rng.Intn(4) == 0:
			other := toolbox3d.NewRectSet()
			other.Add(&r)
			rs.AddRectSet(other)
		case add:
			rs.Add(&r)
		case rng.Intn(4) == 0:
			other := toolbox3d.NewRectSet()
			other.Add(&r)
			rs.RemoveRectSet(other)
		default:
			rs.Remove(&r)
		}
		ops = append(ops, rectOp{add, r})
		desc += fmt.Sprintf("%v[%s %s] ", add, f3(r.MinVal), f3(r.MaxVal))
		hints = append(hints, r.MinVal.Mid(r.MaxVal))
	}
	s := rs.Solid()
	// fold of the recorded operations over open boxes (boundaries are left to
	// the stability margin)
	def := func(p C3) bool {
		in := false
		for _, op := range ops {
			r := op.rect
			if p.X > r.MinVal.X && p.Y > r.MinVal.Y && p.Z > r.MinVal.Z && p.X < r.MaxVal.X && p.Y < r.MaxVal.Y && p.Z < r.MaxVal.Z {
				in = op.add
			}
		}
		return in
	}
	sub := subject3("toolbox3d.RectSet.Solid", s, "RectSet{"+desc+"}").withUnder3(def).withHints3(hints)
	if p3(rs.Min()) != sub.min || p3(rs.Max()) != sub.max {
		sub.desc = fmt.Sprintf("%v (RectSet.Min/Max %s %s differ from Solid bounds)", sub.desc, f3(rs.Min()), f3(rs.Max()))
	}
	return sub
}

func sliceSubject(rng *rand.Rand) *subject {
	k := randTree3(rng, rng.Intn(2))
	axis := rng.Intn(3)
	mn, mx := k.s.Min().Array(), k.s.Max().Array()
	v := mn[axis] + (mx[axis]-mn[axis])*(rng.Float64()*1.2-0.1)
	if len(k.hints) > 0 && rng.Intn(2) == 0 {
		v = k.hints[rng.Intn(len(k.hints))].Array()[axis]
	}
	s := toolbox3d.SliceSolid(k.s, toolbox3d.Axis(axis), v)
	others := [][2]int{{1, 2}, {0, 2}, {0, 1}}[axis]
	to3 := func(p C2) C3 {
		var a [3]float64
		a[axis] = v
		a[others[0]] = p.X
		a[others[1]] = p.Y
		return model3d.NewCoord3DArray(a)
	}
	sub := subject2("toolbox3d.SliceSolid", s, fmt.Sprintf("SliceSolid{axis:%d v:%x %s}", axis, v, k.describe())).
		withUnder2(func(p C2) bool { return k.s.Contains(to3(p)) })
	for _, h := range k.hints {
		a := h.Array()
		sub.hints = append(sub.hints, P{a[others[0]], a[others[1]], 0})
	}
	sub.costly = k.costly
	return sub
}
