// Seeded hostile parameter generators (orientations, magnitudes, aspect
// ratios, offsets) shared by all constructors.
package main

import (
	"fmt"
	"math"
	"math/rand"

	"github.com/unixpickle/model3d/model2d"
	"github.com/unixpickle/model3d/model3d"
)

func logUniform(rng *rand.Rand, lo, hi float64) float64 {
	return math.Pow(10, lo+(hi-lo)*rng.Float64())
}

// magnitude picks the overall size of a shape: mostly O(1), sometimes tiny or huge.
func magnitude(rng *rand.Rand) float64 {
	switch rng.Intn(8) {
	case 0:
		return logUniform(rng, -6, -3)
	case 1:
		return logUniform(rng, 3, 6)
	case 2:
		return float64(1 + rng.Intn(4)) // exactly representable
	case 3:
		return math.Ldexp(1, rng.Intn(9)-4) // dyadic
	default:
		return logUniform(rng, -1, 1)
	}
}

// aspect picks a ratio in 1e-3 .. 1e3, biased to moderate values.
func aspect(rng *rand.Rand) float64 {
	switch rng.Intn(5) {
	case 0:
		return logUniform(rng, -3, -1.5)
	case 1:
		return logUniform(rng, 1.5, 3)
	default:
		return logUniform(rng, -1, 1)
	}
}

func randUnit3(rng *rand.Rand) C3 {
	for {
		v := model3d.XYZ(rng.NormFloat64(), rng.NormFloat64(), rng.NormFloat64())
		if n := v.Norm(); n > 1e-3 {
			return v.Scale(1 / n)
		}
	}
}

func randUnit2(rng *rand.Rand) C2 {
	t := rng.Float64() * 2 * math.Pi
	return model2d.XY(math.Cos(t), math.Sin(t))
}

func axis3(k int, s float64) C3 {
	var a [3]float64
	a[k] = s
	return model3d.NewCoord3DArray(a)
}

// orient3 returns a direction (not necessarily unit) and the kind of
// orientation: random, axis aligned, nearly axis aligned, in a coordinate plane.
func orient3(rng *rand.Rand) (C3, string) {
	switch rng.Intn(6) {
	case 0:
		s := 1.0
		if rng.Intn(2) == 0 {
			s = -1
		}
		return axis3(rng.Intn(3), s), "axis-aligned"
	case 1:
		s := 1.0
		if rng.Intn(2) == 0 {
			s = -1
		}
		v := axis3(rng.Intn(3), s)
		eps := logUniform(rng, -12, -4)
		v = v.Add(randUnit3(rng).Scale(eps))
		return v, "near-axis-aligned"
	case 2:
		v := randUnit3(rng)
		arr := v.Array()
		arr[rng.Intn(3)] = 0
		v = model3d.NewCoord3DArray(arr)
		if v.Norm() < 1e-3 {
			return model3d.XYZ(1, 1, 0), "coordinate-plane"
		}
		return v, "coordinate-plane"
	case 3:
		// small integer direction (diagonals)
		for {
			v := model3d.XYZ(float64(rng.Intn(5)-2), float64(rng.Intn(5)-2), float64(rng.Intn(5)-2))
			if v.Norm() > 0 {
				return v, "integer"
			}
		}
	default:
		return randUnit3(rng), "random"
	}
}

func orient2(rng *rand.Rand) (C2, string) {
	switch rng.Intn(5) {
	case 0:
		s := 1.0
		if rng.Intn(2) == 0 {
			s = -1
		}
		if rng.Intn(2) == 0 {
			return model2d.XY(s, 0), "axis-aligned"
		}
		return model2d.XY(0, s), "axis-aligned"
	case 1:
		eps := logUniform(rng, -12, -4)
		if rng.Intn(2) == 0 {
			return model2d.XY(1, eps), "near-axis-aligned"
		}
		return model2d.XY(-eps, -1), "near-axis-aligned"
	case 2:
		for {
			v := model2d.XY(float64(rng.Intn(5)-2), float64(rng.Intn(5)-2))
			if v.Norm() > 0 {
				return v, "integer"
			}
		}
	default:
		return randUnit2(rng), "random"
	}
}

// offset3 picks where a shape of the given size sits: at the origin, nearby, or
// far away (large coordinates relative to its size).
func offset3(rng *rand.Rand, size float64) C3 {
	switch rng.Intn(6) {
	case 0:
		return C3{}
	case 1:
		return randUnit3(rng).Scale(size * logUniform(rng, 1, 3))
	case 2:
		return model3d.XYZ(float64(rng.Intn(7)-3), float64(rng.Intn(7)-3), float64(rng.Intn(7)-3)).Scale(size)
	default:
		return model3d.XYZ(rng.NormFloat64(), rng.NormFloat64(), rng.NormFloat64()).Scale(size * 2)
	}
}

func offset2(rng *rand.Rand, size float64) C2 {
	switch rng.Intn(6) {
	case 0:
		return C2{}
	case 1:
		return randUnit2(rng).Scale(size * logUniform(rng, 1, 3))
	case 2:
		return model2d.XY(float64(rng.Intn(7)-3), float64(rng.Intn(7)-3)).Scale(size)
	default:
		return model2d.XY(rng.NormFloat64(), rng.NormFloat64()).Scale(size * 2)
	}
}

func f3(c C3) string { return fmt.Sprintf("(%x,%x,%x)", c.X, c.Y, c.Z) }
func f2(c C2) string { return fmt.Sprintf("(%x,%x)", c.X, c.Y) }

func pick(rng *rand.Rand, n int) int { return rng.Intn(n) }

func lerp3(a, b C3, t float64) C3 { return a.Add(b.Sub(a).Scale(t)) }
func lerp2(a, b C2, t float64) C2 { return a.Add(b.Sub(a).Scale(t)) }

// perp3 returns a unit vector orthogonal to v (own construction, not the
// library's OrthoBasis).
func perp3(v C3, rng *rand.Rand) C3 {
	n := v.Norm()
	u := v.Scale(1 / n)
	for {
		w := randUnit3(rng)
		w = w.Sub(u.Scale(u.Dot(w)))
		if l := w.Norm(); l > 0.1 {
			return w.Scale(1 / l)
		}
	}
}
