// 2D primitives (Circle, Rect, Capsule, Triangle), 2D combinators and random
// 2D expression trees. Mirrors prims3.go / comb3.go.
package main

import (
	"fmt"
	"math"
	"math/rand"

	"github.com/unixpickle/model3d/model2d"
	"verif/vlib"
)

type node2 struct {
	api    string
	s      model2d.Solid
	def    func(C2) bool
	hints  []C2
	desc   string
	kids   []*node2
	costly bool
	inside []C2
	extra  func(c *vlib.Case, q *querier)
}

func (n *node2) subject() *subject {
	s := subject2(n.api, n.s, n.describe())
	if n.def != nil {
		s.withUnder2(n.def)
	}
	s.withHints2(n.hints)
	for _, p := range n.inside {
		s.inside = append(s.inside, p2(p))
	}
	s.costly = n.costly
	s.extra = n.extra
	return s
}

func (n *node2) describe() string {
	if len(n.kids) == 0 {
		return n.desc
	}
	d := n.desc + "["
	for i, k := range n.kids {
		if i > 0 {
			d += "; "
		}
		d += k.describe()
	}
	return d + "]"
}

func (n *node2) walk(f func(*node2)) {
	f(n)
	for _, k := range n.kids {
		k.walk(f)
	}
}

func primCircle2(rng *rand.Rand) *node2 {
	r := magnitude(rng)
	c := offset2(rng, r)
	return &node2{api: "model2d.Circle", s: &model2d.Circle{Center: c, Radius: r}, hints: []C2{c, c.Add(randUnit2(rng).Scale(r * 0.99))},
		desc: fmt.Sprintf("Circle{C:%s R:%x}", f2(c), r)}
}

func primRect2(rng *rand.Rand) *node2 {
	m := magnitude(rng)
	ext := model2d.XY(m*aspect(rng), m*aspect(rng))
	if rng.Intn(10) == 0 {
		ext.Y = 0
	}
	mn := offset2(rng, m)
	return &node2{api: "model2d.Rect", s: &model2d.Rect{MinVal: mn, MaxVal: mn.Add(ext)}, hints: []C2{mn.Add(ext.Scale(0.5)), mn, mn.Add(ext)},
		desc: fmt.Sprintf("Rect{%s %s}", f2(mn), f2(mn.Add(ext)))}
}

func primCapsule2(rng *rand.Rand) *node2 {
	dir, kind := orient2(rng)
	l := magnitude(rng)
	dir = dir.Scale(l / dir.Norm())
	r := l * aspect(rng)
	p1 := offset2(rng, l+r)
	p2 := p1.Add(dir)
	return &node2{api: "model2d.Capsule", s: &model2d.Capsule{P1: p1, P2: p2, Radius: r}, hints: []C2{p1, p2, lerp2(p1, p2, 0.5), p2.Add(dir.Normalize().Scale(r * 0.99))},
		desc: fmt.Sprintf("Capsule{%s %s R:%x %s}", f2(p1), f2(p2), r, kind)}
}

func primTriangle2(rng *rand.Rand) *node2 {
	m := magnitude(rng)
	o := offset2(rng, m)
	a := o
	d1, kind := orient2(rng)
	b := a.Add(d1.Scale(m / d1.Norm()))
	var c C2
	if rng.Intn(6) == 0 {
		// a degenerate triangle (third corner on the line through the other two, or repeated): still a
		// Solid with a box; nothing off that line may be contained
		c = lerp2(a, b, []float64{0, 0.5, 1, 2, rng.Float64()}[rng.Intn(5)])
		perp := model2d.XY(-d1.Y, d1.X).Scale(m / d1.Norm())
		ctr := a.Add(b).Add(c).Scale(1.0 / 3)
		hints := []C2{ctr, lerp2(a, b, 0.3)}
		for _, f := range []float64{1e-3, 0.1, 1, 50} {
			hints = append(hints, lerp2(a, b, rng.Float64()).Add(perp.Scale(f)), lerp2(a, b, rng.Float64()).Sub(perp.Scale(f)))
		}
		return &node2{api: "model2d.Triangle[degenerate]", s: model2d.NewTriangle(a, b, c), hints: hints,
			desc: fmt.Sprintf("Triangle{%s %s %s %s degenerate}", f2(a), f2(b), f2(c), kind)}
	}
	switch rng.Intn(4) {
	case 0: // thin
		c = lerp2(a, b, rng.Float64()).Add(model2d.XY(-d1.Y, d1.X).Scale(m * logUniform(rng, -6, -2) / d1.Norm()))
		kind += " thin"
	case 1: // right triangle on integers scaled
		c = a.Add(model2d.XY(-d1.Y, d1.X).Scale(m / d1.Norm()))
	default:
		c = a.Add(randUnit2(rng).Scale(m * aspect(rng)))
	}
	t := model2d.NewTriangle(a, b, c)
	ctr := a.Add(b).Add(c).Scale(1.0 / 3)
	return &node2{api: "model2d.Triangle", s: t, hints: []C2{ctr, lerp2(ctr, a, 0.99), lerp2(ctr, b, 0.99), lerp2(ctr, c, 0.99)},
		desc: fmt.Sprintf("Triangle{%s %s %s %s}", f2(a), f2(b), f2(c), kind)}
}

var prims2 = []func(*rand.Rand) *node2{primCircle2, primRect2, primCapsule2, primTriangle2}

func randPrim2(rng *rand.Rand) *node2 { return prims2[rng.Intn(len(prims2))](rng) }

func tamePrim2(rng *rand.Rand) *node2 {
	c := model2d.XY(rng.NormFloat64(), rng.NormFloat64()).Scale(0.7)
	r := 0.3 + rng.Float64()
	dir, kind := orient2(rng)
	dir = dir.Scale((0.5 + rng.Float64()*1.5) / dir.Norm())
	switch rng.Intn(4) {
	case 0:
		return &node2{api: "model2d.Circle", s: &model2d.Circle{Center: c, Radius: r}, hints: []C2{c}, desc: fmt.Sprintf("Circle{C:%s R:%x}", f2(c), r)}
	case 1:
		ext := model2d.XY(0.2+rng.Float64()*2, 0.2+rng.Float64()*2)
		return &node2{api: "model2d.Rect", s: &model2d.Rect{MinVal: c, MaxVal: c.Add(ext)}, hints: []C2{c.Add(ext.Scale(0.5))}, desc: fmt.Sprintf("Rect{%s %s}", f2(c), f2(c.Add(ext)))}
	case 2:
		return &node2{api: "model2d.Capsule", s: &model2d.Capsule{P1: c, P2: c.Add(dir), Radius: r * 0.5}, hints: []C2{c, c.Add(dir)}, desc: fmt.Sprintf("Capsule{%s %s R:%x %s}", f2(c), f2(c.Add(dir)), r*0.5, kind)}
	default:
		b := c.Add(dir)
		d := c.Add(model2d.XY(-dir.Y, dir.X).Scale(0.3 + rng.Float64()))
		return &node2{api: "model2d.Triangle", s: model2d.NewTriangle(c, b, d), hints: []C2{c.Add(b).Add(d).Scale(1.0 / 3)}, desc: fmt.Sprintf("Triangle{%s %s %s}", f2(c), f2(b), f2(d))}
	}
}

// ---------------------------------------------------------------------------

func kidsHints2(kids []*node2) []C2 {
	var h []C2
	for _, k := range kids {
		for i, p := range k.hints {
			if i < 6 {
				h = append(h, p)
			}
		}
	}
	return h
}

func anyCostly2(kids []*node2) bool {
	n := 0
	for _, k := range kids {
		k.walk(func(*node2) { n++ })
	}
	return n > 5
}

func solidsOf2(kids []*node2) []model2d.Solid {
	res := make([]model2d.Solid, len(kids))
	for i, k := range kids {
		res[i] = k.s
	}
	return res
}

func orDef2(kids []*node2) func(C2) bool {
	return func(p C2) bool {
		for _, k := range kids {
			if k.s.Contains(p) {
				return true
			}
		}
		return false
	}
}

func joinNode2(kids []*node2) *node2 {
	return &node2{api: "model2d.JoinedSolid", s: model2d.JoinedSolid(solidsOf2(kids)), def: orDef2(kids), hints: kidsHints2(kids), desc: "Joined", kids: kids, costly: anyCostly2(kids)}
}
func joinOptNode2(kids []*node2) *node2 {
	return &node2{api: "model2d.JoinedSolid.Optimize", s: model2d.JoinedSolid(solidsOf2(kids)).Optimize(), def: orDef2(kids), hints: kidsHints2(kids), desc: "JoinedOptimize", kids: kids, costly: anyCostly2(kids)}
}
func muxNode2(kids []*node2) *node2 {
	mux := model2d.NewSolidMux(solidsOf2(kids))
	n := &node2{api: "model2d.SolidMux", s: mux, def: orDef2(kids), hints: kidsHints2(kids), desc: "SolidMux", kids: kids, costly: anyCostly2(kids)}
	// the per-solid answers must not be cut by the BVH boxes either
	n.extra = func(c *vlib.Case, q *querier) {
		for i, p := range q.in {
			if i >= 64 {
				break
			}
			all := mux.AllContains(p.c2())
			cnt := 0
			for k, kid := range kids {
				if kid.s.Contains(p.c2()) {
					cnt++
					c.Count("mux.per_solid_checks", 1)
					if !all[k] {
						c.Violation("model2d.SolidMux.AllContains/member-cut", "a member solid contains p but AllContains reports false for it", q.witness(p, map[string]interface{}{"member": k}))
					}
				}
			}
			if got := mux.IterContains(p.c2(), nil); got < cnt {
				c.Violation("model2d.SolidMux.IterContains/member-cut", fmt.Sprintf("IterContains counts %d members, %d contain p", got, cnt), q.witness(p, nil))
			}
		}
	}
	return n
}
func intersectNode2(kids []*node2) *node2 {
	return &node2{api: "model2d.IntersectedSolid", s: model2d.IntersectedSolid(solidsOf2(kids)),
		def: func(p C2) bool {
			for _, k := range kids {
				if !k.s.Contains(p) {
					return false
				}
			}
			return true
		}, hints: kidsHints2(kids), desc: "Intersected", kids: kids, costly: anyCostly2(kids)}
}
func subtractNode2(a, b *node2) *node2 {
	kids := []*node2{a, b}
	return &node2{api: "model2d.SubtractedSolid", s: &model2d.SubtractedSolid{Positive: a.s, Negative: b.s},
		def: func(p C2) bool { return a.s.Contains(p) && !b.s.Contains(p) }, hints: kidsHints2(kids), desc: "Subtracted", kids: kids, costly: anyCostly2(kids)}
}
func cacheNode2(k *node2) *node2 {
	return &node2{api: "model2d.CacheSolidBounds", s: model2d.CacheSolidBounds(k.s), def: k.s.Contains, hints: k.hints, desc: "CacheSolidBounds", kids: []*node2{k}, costly: k.costly}
}

func inBox2(p, mn, mx C2) bool { return p.X >= mn.X && p.Y >= mn.Y && p.X <= mx.X && p.Y <= mx.Y }

func randBoxAround2(rng *rand.Rand, mn, mx C2) (C2, C2, string) {
	ext := mx.Sub(mn)
	if ext.Norm() == 0 {
		ext = model2d.Ones(1)
	}
	r := func() C2 { return model2d.XY(rng.Float64(), rng.Float64()) }
	switch rng.Intn(6) {
	case 0:
		a := mn.Add(ext.Mul(r().Scale(0.5)))
		return a, a.Add(ext.Mul(r().Scale(0.5))), "sub-box"
	case 1:
		return mn.Sub(ext.Mul(r())), mx.Add(ext.Mul(r())), "super-box"
	case 2:
		sh := ext.Mul(r().Sub(model2d.Ones(0.5)))
		return mn.Add(sh), mx.Add(sh), "shifted"
	case 3:
		sh := ext.Scale(1.5 + rng.Float64())
		return mn.Add(sh), mx.Add(sh), "disjoint"
	case 4:
		mid := mn.Y + (mx.Y-mn.Y)*rng.Float64()
		return model2d.XY(mn.X, mid), model2d.XY(mx.X, mid), "flat"
	default:
		return mn, mx, "same"
	}
}

func forceNode2(rng *rand.Rand, k *node2) *node2 {
	mn, mx, kind := randBoxAround2(rng, k.s.Min(), k.s.Max())
	return &node2{api: "model2d.ForceSolidBounds", s: model2d.ForceSolidBounds(k.s, mn, mx),
		def:   func(p C2) bool { return inBox2(p, mn, mx) && k.s.Contains(p) },
		hints: k.hints, desc: fmt.Sprintf("ForceSolidBounds{%s %s %s}", f2(mn), f2(mx), kind), kids: []*node2{k}, costly: k.costly}
}

type xform2 struct {
	t    model2d.Transform
	desc string
}

func randSimpleXform2(rng *rand.Rand, mn, mx C2) xform2 {
	size := mx.Sub(mn).Norm()
	if size == 0 {
		size = 1
	}
	switch rng.Intn(6) {
	case 0:
		off := offset2(rng, size)
		return xform2{&model2d.Translate{Offset: off}, fmt.Sprintf("Translate{%s}", f2(off))}
	case 1:
		s := logUniform(rng, -3, 3)
		return xform2{&model2d.Scale{Scale: s}, fmt.Sprintf("Scale{%x}", s)}
	case 2:
		v := model2d.XY(aspect(rng), aspect(rng))
		if rng.Intn(2) == 0 {
			v.X = -v.X
		}
		if rng.Intn(2) == 0 {
			v.Y = -v.Y
		}
		return xform2{&model2d.VecScale{Scale: v}, fmt.Sprintf("VecScale{%s}", f2(v))}
	case 3:
		r1 := model2d.NewMatrix2Rotation(rng.Float64() * 6)
		r2 := model2d.NewMatrix2Rotation(rng.Float64() * 6)
		d := &model2d.Matrix2{logUniform(rng, -1, 1), 0, 0, logUniform(rng, -1, 1)}
		if rng.Intn(2) == 0 {
			d[0] = -d[0]
		}
		m := r1.Mul(d).Mul(r2)
		if rng.Intn(4) == 0 {
			m = &model2d.Matrix2{0, -2, 1, 0}
		}
		return xform2{&model2d.Matrix2Transform{Matrix: m}, fmt.Sprintf("Matrix2Transform{%x}", *m)}
	default:
		var theta float64
		switch rng.Intn(4) {
		case 0:
			theta = float64(rng.Intn(8)) * math.Pi / 2
		case 1:
			theta = logUniform(rng, -9, -3)
		default:
			theta = rng.Float64() * 2 * math.Pi
		}
		return xform2{model2d.Rotation(theta), fmt.Sprintf("Rotation{%x}", theta)}
	}
}

func randXform2(rng *rand.Rand, mn, mx C2) xform2 {
	if rng.Intn(4) != 0 {
		return randSimpleXform2(rng, mn, mx)
	}
	n := 2 + rng.Intn(2)
	var j model2d.JoinedTransform
	desc := "JoinedTransform{"
	for i := 0; i < n; i++ {
		x := randSimpleXform2(rng, mn, mx)
		j = append(j, x.t)
		desc += x.desc + " "
	}
	return xform2{j, desc + "}"}
}

func linf2(a C2) float64 { return math.Max(math.Abs(a.X), math.Abs(a.Y)) }

func transformNode2(rng *rand.Rand, k *node2, x xform2) *node2 {
	s := model2d.TransformSolid(x.t, k.s)
	inv := x.t.Inverse()
	kmn, kmx := k.s.Min(), k.s.Max()
	kscale := kmx.Sub(kmn).Norm() + linf2(kmn) + linf2(kmx)
	n := &node2{api: "model2d.TransformSolid", s: s, desc: "TransformSolid{" + x.desc + "}", kids: []*node2{k}, costly: k.costly}
	n.def = func(p C2) bool {
		q := inv.Apply(p)
		back := x.t.Apply(q)
		if !(linf2(back.Sub(p)) <= 1e-11*linf2(p)+1e-13*linf2(s.Max().Sub(s.Min()))) {
			return false
		}
		return k.s.Contains(q)
	}
	hq := 1e-6 * kscale
	cands := append([]C2{}, k.hints...)
	for i := 0; i < 40; i++ {
		cands = append(cands, model2d.XY(kmn.X+(kmx.X-kmn.X)*rng.Float64(), kmn.Y+(kmx.Y-kmn.Y)*rng.Float64()))
	}
	for _, q := range cands {
		ok := stable2(k.s.Contains, q, hq)
		if ok && len(n.inside) < 24 {
			n.inside = append(n.inside, x.t.Apply(q))
		}
	}
	for i, h := range k.hints {
		if i < 8 {
			n.hints = append(n.hints, x.t.Apply(h))
		}
	}
	return n
}

func randKids2(rng *rand.Rand, depth, n int) []*node2 {
	kids := make([]*node2, n)
	for i := range kids {
		kids[i] = randTree2(rng, depth)
	}
	return kids
}

func randTree2(rng *rand.Rand, depth int) *node2 {
	if depth <= 0 || rng.Intn(5) == 0 {
		if rng.Intn(4) == 0 {
			return randPrim2(rng)
		}
		return tamePrim2(rng)
	}
	switch rng.Intn(10) {
	case 0:
		return joinNode2(randKids2(rng, depth-1, 1+rng.Intn(3)))
	case 1:
		return joinOptNode2(randKids2(rng, depth-1, 1+rng.Intn(4)))
	case 2:
		return muxNode2(randKids2(rng, depth-1, 1+rng.Intn(4)))
	case 3, 4:
		return intersectNode2(randKids2(rng, depth-1, 1+rng.Intn(3)))
	case 5:
		k := randKids2(rng, depth-1, 2)
		return subtractNode2(k[0], k[1])
	case 6:
		return cacheNode2(randTree2(rng, depth-1))
	case 7:
		return forceNode2(rng, randTree2(rng, depth-1))
	default:
		k := randTree2(rng, depth-1)
		return transformNode2(rng, k, randXform2(rng, k.s.Min(), k.s.Max()))
	}
}
