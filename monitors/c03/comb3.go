// 3D combinators and random expression trees. Every node carries a one-level
// underlying definition: the documented formula evaluated by the harness over
// the operands' Contains.
package main

import (
	"fmt"
	"math"
	"math/rand"

	"github.com/unixpickle/model3d/model3d"
	"github.com/unixpickle/model3d/toolbox3d"
	"verif/vlib"
)

func kidsHints(kids []*node3) []C3 {
	var h []C3
	for _, k := range kids {
		for i, p := range k.hints {
			if i < 6 {
				h = append(h, p)
			}
		}
	}
	return h
}

func anyCostly(kids []*node3) bool {
	n := 0
	for _, k := range kids {
		k.walk(func(*node3) { n++ })
	}
	return n > 5
}

func solidsOf(kids []*node3) []model3d.Solid {
	res := make([]model3d.Solid, len(kids))
	for i, k := range kids {
		res[i] = k.s
	}
	return res
}

func orDef(kids []*node3) func(C3) bool {
	return func(p C3) bool {
		for _, k := range kids {
			if k.s.Contains(p) {
				return true
			}
		}
		return false
	}
}

func joinNode(kids []*node3) *node3 {
	return &node3{api: "model3d.JoinedSolid", s: model3d.JoinedSolid(solidsOf(kids)), def: orDef(kids),
		hints: kidsHints(kids), desc: "Joined", kids: kids, costly: anyCostly(kids)}
}

func joinOptNode(kids []*node3) *node3 {
	return &node3{api: "model3d.JoinedSolid.Optimize", s: model3d.JoinedSolid(solidsOf(kids)).Optimize(), def: orDef(kids),
		hints: kidsHints(kids), desc: "JoinedOptimize", kids: kids, costly: anyCostly(kids)}
}

func muxNode(kids []*node3) *node3 {
	mux := model3d.NewSolidMux(solidsOf(kids))
	n := &node3{api: "model3d.SolidMux", s: mux, def: orDef(kids),
		hints: kidsHints(kids), desc: "SolidMux", kids: kids, costly: anyCostly(kids)}
	// the per-solid answers must not be cut by the BVH boxes either
	n.extra = func(c *vlib.Case, q *querier) {
		for i, p := range q.in {
			if i >= 64 {
				break
			}
			all := mux.AllContains(p.c3())
			cnt := 0
			for k, kid := range kids {
				if kid.s.Contains(p.c3()) {
					cnt++
					c.Count("mux.per_solid_checks", 1)
					if !all[k] {
						c.Violation("model3d.SolidMux.AllContains/member-cut", "a member solid contains p but AllContains reports false for it", q.witness(p, map[string]interface{}{"member": k}))
					}
				}
			}
			if got := mux.IterContains(p.c3(), nil); got < cnt {
				c.Violation("model3d.SolidMux.IterContains/member-cut", fmt.Sprintf("IterContains counts %d members, %d contain p", got, cnt), q.witness(p, nil))
			}
		}
	}
	return n
}

func intersectNode(kids []*node3) *node3 {
	return &node3{api: "model3d.IntersectedSolid", s: model3d.IntersectedSolid(solidsOf(kids)),
		def: func(p C3) bool {
			for _, k := range kids {
				if !k.s.Contains(p) {
					return false
				}
			}
			return true
		},
		hints: kidsHints(kids), desc: "Intersected", kids: kids, costly: anyCostly(kids)}
}

func subtractNode(a, b *node3) *node3 {
	kids := []*node3{a, b}
	return &node3{api: "model3d.SubtractedSolid", s: &model3d.SubtractedSolid{Positive: a.s, Negative: b.s},
		def:   func(p C3) bool { return a.s.Contains(p) && !b.s.Contains(p) },
		hints: kidsHints(kids), desc: "Subtracted", kids: kids, costly: anyCostly(kids)}
}

// stackOffsets re-derives the documented placement: each solid after the first
// is moved along Z so that the bottom of its box meets the top of the previous
// solid's (moved) box.
func stackOffsets(kids []*node3) []float64 {
	offs := make([]float64, len(kids))
	top := kids[0].s.Max().Z
	for i := 1; i < len(kids); i++ {
		offs[i] = top - kids[i].s.Min().Z
		top = kids[i].s.Max().Z + offs[i]
	}
	return offs
}

func stackDef(kids []*node3) (func(C3) bool, []C3) {
	offs := stackOffsets(kids)
	var hints []C3
	for i, k := range kids {
		for j, h := range k.hints {
			if j < 4 {
				hints = append(hints, h.Add(model3d.Z(offs[i])))
			}
		}
	}
	return func(p C3) bool {
		for i, k := range kids {
			if k.s.Contains(p.Sub(model3d.Z(offs[i]))) {
				return true
			}
		}
		return false
	}, hints
}

func stackSolidsNode(kids []*node3) *node3 {
	def, hints := stackDef(kids)
	return &node3{api: "model3d.StackSolids", s: model3d.StackSolids(solidsOf(kids)...), def: def,
		hints: hints, desc: "StackSolids", kids: kids, costly: anyCostly(kids)}
}

func stackedSolidNode(kids []*node3) *node3 {
	def, hints := stackDef(kids)
	return &node3{api: "model3d.StackedSolid", s: model3d.StackedSolid(solidsOf(kids)), def: def,
		hints: hints, desc: "StackedSolid", kids: kids, costly: anyCostly(kids)}
}

func cacheNode(k *node3) *node3 {
	return &node3{api: "model3d.CacheSolidBounds", s: model3d.CacheSolidBounds(k.s), def: k.s.Contains,
		hints: k.hints, desc: "CacheSolidBounds", kids: []*node3{k}, costly: k.costly}
}

func inBox3(p, mn, mx C3) bool {
	return p.X >= mn.X && p.Y >= mn.Y && p.Z >= mn.Z && p.X <= mx.X && p.Y <= mx.Y && p.Z <= mx.Z
}

// randBoxAround picks a valid box related to [mn,mx]: inside, around,
// partially overlapping, disjoint or flat.
func randBoxAround(rng *rand.Rand, mn, mx C3) (C3, C3, string) {
	ext := mx.Sub(mn)
	if ext.Norm() == 0 {
		ext = model3d.Ones(1)
	}
	r := func() C3 { return model3d.XYZ(rng.Float64(), rng.Float64(), rng.Float64()) }
	switch rng.Intn(6) {
	case 0: // sub box
		a := mn.Add(ext.Mul(r().Scale(0.5)))
		b := a.Add(ext.Mul(r().Scale(0.5)))
		return a, b, "sub-box"
	case 1: // super box
		return mn.Sub(ext.Mul(r())), mx.Add(ext.Mul(r())), "super-box"
	case 2: // shifted
		sh := ext.Mul(r().Sub(model3d.Ones(0.5)))
		return mn.Add(sh), mx.Add(sh), "shifted"
	case 3: // disjoint
		sh := ext.Scale(1.5 + rng.Float64())
		return mn.Add(sh), mx.Add(sh), "disjoint"
	case 4: // flat through the middle
		a, b := mn, mx
		arr, brr := a.Array(), b.Array()
		k := rng.Intn(3)
		mid := arr[k] + (brr[k]-arr[k])*rng.Float64()
		arr[k], brr[k] = mid, mid
		return model3d.NewCoord3DArray(arr), model3d.NewCoord3DArray(brr), "flat"
	default: // the same box
		return mn, mx, "same"
	}
}

func forceNode(rng *rand.Rand, k *node3) *node3 {
	mn, mx, kind := randBoxAround(rng, k.s.Min(), k.s.Max())
	return &node3{api: "model3d.ForceSolidBounds", s: model3d.ForceSolidBounds(k.s, mn, mx),
		def:   func(p C3) bool { return inBox3(p, mn, mx) && k.s.Contains(p) },
		hints: k.hints, desc: fmt.Sprintf("ForceSolidBounds{%s %s %s}", f3(mn), f3(mx), kind), kids: []*node3{k}, costly: k.costly}
}

func clampNode(rng *rand.Rand, k *node3) *node3 {
	mn, mx := k.s.Min().Array(), k.s.Max().Array()
	axis := rng.Intn(3)
	ext := mx[axis] - mn[axis]
	lo := mn[axis] + ext*(rng.Float64()*1.4-0.2)
	hi := mn[axis] + ext*(rng.Float64()*1.4-0.2)
	var s model3d.Solid
	var desc string
	var def func(C3) bool
	switch rng.Intn(4) {
	case 0:
		if rng.Intn(8) != 0 && lo > hi { // over-constrained only occasionally
			lo, hi = hi, lo
		}
		s = toolbox3d.ClampAxis(k.s, toolbox3d.Axis(axis), lo, hi)
		desc = fmt.Sprintf("ClampAxis{axis:%d %x %x}", axis, lo, hi)
		def = func(p C3) bool { v := p.Array()[axis]; return v >= lo && v <= hi && k.s.Contains(p) }
	case 1:
		s = toolbox3d.ClampAxisMax(k.s, toolbox3d.Axis(axis), hi)
		desc = fmt.Sprintf("ClampAxisMax{axis:%d %x}", axis, hi)
		def = func(p C3) bool { return p.Array()[axis] <= hi && k.s.Contains(p) }
	case 2:
		s = toolbox3d.ClampAxisMin(k.s, toolbox3d.Axis(axis), lo)
		desc = fmt.Sprintf("ClampAxisMin{axis:%d %x}", axis, lo)
		def = func(p C3) bool { return p.Array()[axis] >= lo && k.s.Contains(p) }
	default:
		fs := []func(model3d.Solid, float64) model3d.Solid{toolbox3d.ClampXMax, toolbox3d.ClampYMax, toolbox3d.ClampZMax, toolbox3d.ClampXMin, toolbox3d.ClampYMin, toolbox3d.ClampZMin}
		i := rng.Intn(6)
		axis = i % 3
		ext = mx[axis] - mn[axis]
		v := mn[axis] + ext*rng.Float64()
		s = fs[i](k.s, v)
		desc = fmt.Sprintf("Clamp%cM%s{%x}", "XYZ"[axis], []string{"ax", "in"}[i/3], v)
		if i < 3 {
			def = func(p C3) bool { return p.Array()[axis] <= v && k.s.Contains(p) }
		} else {
			def = func(p C3) bool { return p.Array()[axis] >= v && k.s.Contains(p) }
		}
	}
	return &node3{api: "toolbox3d.ClampAxis", s: s, def: def, hints: k.hints, desc: desc, kids: []*node3{k}, costly: k.costly}
}

// ---------------------------------------------------------------------------
// transforms

type xform3 struct {
	t    model3d.Transform
	desc string
}

func randRotation3(rng *rand.Rand) xform3 {
	ax, kind := orient3(rng)
	ax = ax.Normalize() // documented: unit axis
	var theta float64
	switch rng.Intn(4) {
	case 0:
		theta = float64(rng.Intn(8)) * math.Pi / 2
	case 1:
		theta = logUniform(rng, -9, -3)
	default:
		theta = rng.Float64() * 2 * math.Pi
	}
	return xform3{model3d.Rotation(ax, theta), fmt.Sprintf("Rotation{%s %x %s}", f3(ax), theta, kind)}
}

func randMatrix3(rng *rand.Rand) xform3 {
	// well conditioned: rotation * diag * rotation, singular values within 0.1..10, random signs
	r1 := model3d.NewMatrix3Rotation(randUnit3(rng), rng.Float64()*6)
	r2 := model3d.NewMatrix3Rotation(randUnit3(rng), rng.Float64()*6)
	d := &model3d.Matrix3{}
	for i := 0; i < 3; i++ {
		v := logUniform(rng, -1, 1)
		if rng.Intn(3) == 0 {
			v = -v
		}
		d[i*4] = v
	}
	m := r1.Mul(d).Mul(r2)
	if rng.Intn(4) == 0 { // axis permutation / reflection, exactly representable
		m = &model3d.Matrix3{0, 1, 0, 0, 0, -1, 2, 0, 0}
	}
	return xform3{&model3d.Matrix3Transform{Matrix: m}, fmt.Sprintf("Matrix3Transform{%x}", *m)}
}

func randSimpleXform3(rng *rand.Rand, mn, mx C3) xform3 {
	size := mx.Sub(mn).Norm()
	if size == 0 {
		size = 1
	}
	switch rng.Intn(9) {
	case 0:
		off := offset3(rng, size)
		return xform3{&model3d.Translate{Offset: off}, fmt.Sprintf("Translate{%s}", f3(off))}
	case 1:
		s := logUniform(rng, -3, 3) // documented use is a positive factor
		return xform3{&model3d.Scale{Scale: s}, fmt.Sprintf("Scale{%x}", s)}
	case 2:
		v := model3d.XYZ(aspect(rng), aspect(rng), aspect(rng))
		arr := v.Array()
		for i := range arr {
			if rng.Intn(2) == 0 {
				arr[i] = -arr[i]
			}
		}
		v = model3d.NewCoord3DArray(arr)
		return xform3{&model3d.VecScale{Scale: v}, fmt.Sprintf("VecScale{%s}", f3(v))}
	case 3:
		return randMatrix3(rng)
	case 4, 5:
		return randRotation3(rng)
	case 6:
		axis := rng.Intn(3)
		lo := mn.Array()[axis] + (mx.Array()[axis]-mn.Array()[axis])*(rng.Float64()*1.2-0.3)
		hi := lo + size*(0.05+rng.Float64())
		ratio := logUniform(rng, -1.3, 0.7)
		return xform3{&toolbox3d.AxisSqueeze{Axis: toolbox3d.Axis(axis), Min: lo, Max: hi, Ratio: ratio},
			fmt.Sprintf("AxisSqueeze{axis:%d %x %x ratio:%x}", axis, lo, hi, ratio)}
	case 7:
		axis := rng.Intn(3)
		lo := mn.Array()[axis] + (mx.Array()[axis]-mn.Array()[axis])*(rng.Float64()*1.2-0.3)
		hi := lo + size*(0.05+rng.Float64())
		power := []float64{0.25, 0.5, 2, 4, 1, 1.5}[rng.Intn(6)]
		return xform3{&toolbox3d.AxisPinch{Axis: toolbox3d.Axis(axis), Min: lo, Max: hi, Power: power},
			fmt.Sprintf("AxisPinch{axis:%d %x %x power:%x}", axis, lo, hi, power)}
	default:
		axis := rng.Intn(3)
		a, b := mn.Array()[axis], mx.Array()[axis]
		ss := toolbox3d.NewSmartSqueeze(toolbox3d.Axis(axis), []float64{0, 0.3, 2}[rng.Intn(3)], (b-a)*0.02+1e-3*size, 0)
		for i := 0; i < rng.Intn(3); i++ {
			u := a + (b-a)*rng.Float64()
			ss.AddUnsqueezable(u, u+(b-a)*0.2*rng.Float64())
		}
		for i := 0; i < rng.Intn(3); i++ {
			ss.AddPinch(a + (b-a)*rng.Float64())
		}
		return xform3{ss.Transform(model3d.NewRect(mn, mx)), fmt.Sprintf("SmartSqueeze{axis:%d ratio:%x unsq:%x pinches:%x}", axis, ss.SqueezeRatio, ss.Unsqueezable, ss.Pinches)}
	}
}

func randXform3(rng *rand.Rand, mn, mx C3) xform3 {
	if rng.Intn(4) != 0 {
		return randSimpleXform3(rng, mn, mx)
	}
	n := 2 + rng.Intn(2)
	var j model3d.JoinedTransform
	desc := "JoinedTransform{"
	for i := 0; i < n; i++ {
		x := randSimpleXform3(rng, mn, mx)
		mn, mx = x.t.ApplyBounds(mn, mx) // only to place later squeezes sensibly
		if !(mn.X <= mx.X && mn.Y <= mx.Y && mn.Z <= mx.Z) || math.IsNaN(mn.Sum()+mx.Sum()) {
			mn, mx = mn.Min(mx), mx.Max(mn)
		}
		j = append(j, x.t)
		desc += x.desc + " "
	}
	return xform3{j, desc + "}"}
}

func linf3(a C3) float64 { return math.Max(math.Abs(a.X), math.Max(math.Abs(a.Y), math.Abs(a.Z))) }

func transformNode(rng *rand.Rand, k *node3, x xform3) *node3 {
	s := model3d.TransformSolid(x.t, k.s)
	inv := x.t.Inverse()
	kmn, kmx := k.s.Min(), k.s.Max()
	kscale := kmx.Sub(kmn).Norm() + linf3(kmn) + linf3(kmx)
	n := &node3{api: "model3d.TransformSolid", s: s, desc: "TransformSolid{" + x.desc + "}", kids: []*node3{k}, costly: k.costly}
	// one-level definition: p is in the image iff some q of the operand maps to
	// it; q is taken from the library's inverse but certified by the forward map.
	n.def = func(p C3) bool {
		q := inv.Apply(p)
		back := x.t.Apply(q)
		if !(linf3(back.Sub(p)) <= 1e-11*(linf3(p)+1e-300)+1e-13*linf3(s.Max().Sub(s.Min()))) {
			return false // inverse not certified here: no claim
		}
		return k.s.Contains(q)
	}
	// forward images of stably contained operand points
	hq := 1e-6 * kscale
	cands := append([]C3{}, k.hints...)
	for i := 0; i < 40; i++ {
		cands = append(cands, model3d.XYZ(
			kmn.X+(kmx.X-kmn.X)*rng.Float64(), kmn.Y+(kmx.Y-kmn.Y)*rng.Float64(), kmn.Z+(kmx.Z-kmn.Z)*rng.Float64()))
	}
	for _, q := range cands {
		ok := stable3(k.s.Contains, q, hq)
		if ok && len(n.inside) < 24 {
			n.inside = append(n.inside, x.t.Apply(q))
		}
	}
	for i, h := range k.hints {
		if i < 8 {
			n.hints = append(n.hints, x.t.Apply(h))
		}
	}
	return n
}

// ---------------------------------------------------------------------------
// random expression trees

func randKids3(rng *rand.Rand, depth, n int) []*node3 {
	kids := make([]*node3, n)
	for i := range kids {
		kids[i] = randTree3(rng, depth)
	}
	return kids
}

func randTree3(rng *rand.Rand, depth int) *node3 {
	if depth <= 0 || rng.Intn(5) == 0 {
		if rng.Intn(4) == 0 {
			return randPrim3(rng)
		}
		return tamePrim3(rng)
	}
	switch rng.Intn(13) {
	case 0:
		return joinNode(randKids3(rng, depth-1, 1+rng.Intn(3)))
	case 1:
		return joinOptNode(randKids3(rng, depth-1, 1+rng.Intn(4)))
	case 2:
		return muxNode(randKids3(rng, depth-1, 1+rng.Intn(4)))
	case 3, 4:
		return intersectNode(randKids3(rng, depth-1, 1+rng.Intn(3)))
	case 5:
		k := randKids3(rng, depth-1, 2)
		return subtractNode(k[0], k[1])
	case 6:
		return stackSolidsNode(randKids3(rng, depth-1, 1+rng.Intn(3)))
	case 7:
		return stackedSolidNode(randKids3(rng, depth-1, 1+rng.Intn(3)))
	case 8:
		return cacheNode(randTree3(rng, depth-1))
	case 9:
		return forceNode(rng, randTree3(rng, depth-1))
	case 10:
		return clampNode(rng, randTree3(rng, depth-1))
	default:
		k := randTree3(rng, depth-1)
		return transformNode(rng, k, randXform3(rng, k.s.Min(), k.s.Max()))
	}
}
