// C03 — Solids never contain points outside their reported bounding box.
// Shape: seeded hostile constructor registry + point queries around the
// reported box + harness-held underlying definitions (DESIGN.md C03).
package main

import (
	"math/rand"

	"verif/vlib"
)

func runSubject(c *vlib.Case, s *subject) {
	if s == nil {
		c.Count("generator.skipped_precondition", 1)
		return
	}
	check(c, s)
}

func main() {
	r := vlib.Start("C03", "exploration")
	r.ScaleQuick(3) // quick tier: 3x the case counts written at the sections (still well under a minute)
	r.Rule("a registry of solid constructors (2D/3D primitives, boolean/stack/mux combinators, transforms incl. toolbox squeezes, collider/SDF/metaball/polytope/profile/revolve/cross-section solids, toolbox parts, random expression trees of depth <= 5) is driven with seeded hostile parameters (arbitrary / axis-aligned / nearly axis-aligned orientations, aspect ratios 1e-3..1e3, magnitudes 1e-6..1e6, far offsets, negative anisotropic scales); each solid is queried on a grid+random cloud over its box inflated by 25%, on shells just outside every face (margin, 1e-6, 1e-3, 0.1, 1 x extent), at far points and at the extreme points of the shape found by a pattern search along every axis; a solid is non-trivial if at least one query was contained and >= 20 queries lay outside the box by more than the margin; distinct by hash of the constructor parameters")
	r.Assume("(b) decides only points outside the box by more than 1e-7*extent_k + 1e-10*(diag+max|coord|) along some axis k")
	r.Assume("(c) decides only points where the harness-held underlying definition is true at p and at p +- 1e-9*(diag+max|coord|) along every axis and every diagonal (100x that for ConvexPolytope.Solid, whose Mesh() merges vertices closer than 1e-8*magnitude)")
	r.Assume("uniform Scale factors are positive, Rotation axes are unit, Torus inner < outer radius, GrooveSize <= Radius, SDFToSolid insets are below the half-thickness, RevolveSolid profiles are one-sided or mirror-symmetric and not flat, polytopes are bounded with well-conditioned vertex triples (|det| >= 1e-2), Ramp P1/P2 lie inside the operand's box, gear P1 lies on the axis through the origin (all documented or the only documented use)")
	r.Assume("TransformSolid's definition is the image under the transform's own Apply; TransformCollider is excluded (ray handling belongs to C05/C07)")

	r.Section("prims3", r.N(24000, 720000), vlib.SectionOpts{}, func(c *vlib.Case) {
		runSubject(c, prims3[c.Index%len(prims3)](c.Rng).subject())
	})
	r.Section("prims2", r.N(16000, 480000), vlib.SectionOpts{}, func(c *vlib.Case) {
		runSubject(c, prims2[c.Index%len(prims2)](c.Rng).subject())
	})
	r.Section("trees3", r.N(5000, 150000), vlib.SectionOpts{}, func(c *vlib.Case) {
		t := randTree3(c.Rng, 1+c.Index%5)
		depth := 0
		t.walk(func(n *node3) {
			depth++
			if n.def != nil || len(n.kids) > 0 {
				runSubject(c, n.subject())
			}
		})
		c.Count("trees3.nodes", int64(depth))
	})
	r.Section("trees2", r.N(4000, 120000), vlib.SectionOpts{}, func(c *vlib.Case) {
		t := randTree2(c.Rng, 1+c.Index%5)
		t.walk(func(n *node2) {
			if n.def != nil || len(n.kids) > 0 {
				runSubject(c, n.subject())
			}
		})
	})
	w3 := []func(*rand.Rand) *subject{colliderSolidSubject, checkedFuncSubject, smoothJoinSubject, sdfToSolidSubject,
		profileSubject, crossSectionSubject, revolveSubject, metaballSubject, polytopeSubject, colliderSolidSubject, metaballSubject}
	r.Section("wrappers3", r.N(17600, 528000), vlib.SectionOpts{}, func(c *vlib.Case) {
		runSubject(c, w3[c.Index%len(w3)](c.Rng))
	})
	w2 := []func(*rand.Rand) *subject{colliderSolidSubject2, checkedFuncSubject2, smoothJoinSubject2, sdfToSolidSubject2, metaballSubject2, polytopeSubject2}
	r.Section("wrappers2", r.N(9600, 288000), vlib.SectionOpts{}, func(c *vlib.Case) {
		runSubject(c, w2[c.Index%len(w2)](c.Rng))
	})
	tb := []func(*rand.Rand) *subject{screwSubject, teardrop2Subject, teardrop3Subject, rampSubject, gearProfileSubject, gearSubject,
		heightMapSubject, lineJoinSubject, radialCurveSubject, rectSetSubject, sliceSubject, lineJoinSubject}
	r.Section("toolbox", r.N(14400, 432000), vlib.SectionOpts{}, func(c *vlib.Case) {
		runSubject(c, tb[c.Index%len(tb)](c.Rng))
	})

	// clauses claimed: every API below must have been observed
	for _, api := range []string{"model3d.Sphere", "model3d.Rect", "model3d.Capsule", "model3d.Cylinder", "model3d.Cone", "model3d.Torus",
		"model2d.Circle", "model2d.Rect", "model2d.Capsule", "model2d.Triangle", "toolbox3d.ScrewSolid", "toolbox3d.Teardrop2D", "toolbox3d.Ramp",
		"toolbox3d.InvoluteGearProfile"} {
		r.Require("b.outside_queries."+api, 2000)
		r.Require("contained."+api, 200)
	}
	for _, api := range []string{"model3d.JoinedSolid", "model3d.JoinedSolid.Optimize", "model3d.SolidMux", "model3d.IntersectedSolid", "model3d.SubtractedSolid",
		"model3d.StackSolids", "model3d.StackedSolid", "model3d.CacheSolidBounds", "model3d.ForceSolidBounds", "model3d.TransformSolid", "toolbox3d.ClampAxis",
		"model2d.JoinedSolid", "model2d.JoinedSolid.Optimize", "model2d.SolidMux", "model2d.IntersectedSolid", "model2d.SubtractedSolid",
		"model2d.CacheSolidBounds", "model2d.ForceSolidBounds", "model2d.TransformSolid",
		"model3d.NewColliderSolid", "model3d.NewColliderSolidInset", "model3d.NewColliderSolidInset(outset)", "model3d.NewColliderSolidHollow",
		"model3d.CheckedFuncSolid", "model3d.SmoothJoin", "model3d.SmoothJoinV2", "model3d.SmoothJoin[3+ operands]", "model3d.SmoothJoinV2[3+ operands]", "model3d.SDFToSolid", "model3d.ProfileSolid", "model3d.CrossSectionSolid",
		"model3d.RevolveSolid", "model3d.RevolveSolid[negative-side profile]", "model3d.MetaballSolid", "model3d.ConvexPolytope.Solid",
		"model2d.NewColliderSolid", "model2d.NewColliderSolidInset", "model2d.NewColliderSolidInset(outset)", "model2d.NewColliderSolidHollow",
		"model2d.CheckedFuncSolid", "model2d.SmoothJoin", "model2d.SmoothJoinV2", "model2d.SmoothJoin[3+ operands]", "model2d.SmoothJoinV2[3+ operands]", "model2d.SDFToSolid", "model2d.MetaballSolid", "model2d.ConvexPolytope.Solid",
		"toolbox3d.Teardrop3D", "toolbox3d.SpurGear", "toolbox3d.HelicalGear", "toolbox3d.HeightMapToSolid", "toolbox3d.HeightMapToSolidBidir",
		"toolbox3d.LineJoin", "toolbox3d.L1LineJoin", "toolbox3d.TriangularLine", "toolbox3d.TriangularBall", "toolbox3d.TriangularPolygon",
		"toolbox3d.RadialCurve", "toolbox3d.RectSet.Solid", "toolbox3d.SliceSolid"} {
		r.Require("solids."+api, 10)
		r.Require("b.outside_queries."+api, 500)
		r.Require("c.decided."+api, 100)
	}
	r.Require("solids.total", 5000)
	r.Require("mux.per_solid_checks", 1000)
	r.Finish()
}
