// Harness-owned reference geometry: closed-form signed distances (positive
// inside) written from the definitions, and harness-owned operand types that
// implement the library's SDF / Metaball interfaces.
package main

import (
	"math"

	"github.com/unixpickle/model3d/model2d"
	"github.com/unixpickle/model3d/model3d"
)

func dot3(a, b C3) float64    { return a.X*b.X + a.Y*b.Y + a.Z*b.Z }
func norm3(a C3) float64      { return math.Sqrt(dot3(a, a)) }
func sub3(a, b C3) C3         { return C3{X: a.X - b.X, Y: a.Y - b.Y, Z: a.Z - b.Z} }
func add3(a, b C3) C3         { return C3{X: a.X + b.X, Y: a.Y + b.Y, Z: a.Z + b.Z} }
func mul3(a C3, s float64) C3 { return C3{X: a.X * s, Y: a.Y * s, Z: a.Z * s} }

func dot2(a, b C2) float64 { return a.X*b.X + a.Y*b.Y }
func norm2(a C2) float64   { return math.Sqrt(dot2(a, a)) }
func sub2(a, b C2) C2      { return C2{X: a.X - b.X, Y: a.Y - b.Y} }

func refSphereSDF(c C3, r float64, p C3) float64 { return r - norm3(sub3(p, c)) }
func refCircleSDF(c C2, r float64, p C2) float64 { return r - norm2(sub2(p, c)) }

// refBoxSDF is the signed distance to an axis-aligned box given per-axis
// arrays (works for 2D with n = 2).
func refBoxSDFn(mn, mx, p []float64) float64 {
	inside := math.Inf(1)
	var out2 float64
	for k := range p {
		lo, hi := p[k]-mn[k], mx[k]-p[k]
		d := math.Min(lo, hi)
		if d < 0 {
			out2 += d * d
		}
		if d < inside {
			inside = d
		}
	}
	if out2 > 0 {
		return -math.Sqrt(out2)
	}
	return inside
}

func refBoxSDF3(mn, mx, p C3) float64 {
	a, b, c := mn.Array(), mx.Array(), p.Array()
	return refBoxSDFn(a[:], b[:], c[:])
}

func refBoxSDF2(mn, mx, p C2) float64 {
	a, b, c := mn.Array(), mx.Array(), p.Array()
	return refBoxSDFn(a[:], b[:], c[:])
}

func refSegDist3(a, b, p C3) float64 {
	ab := sub3(b, a)
	l2 := dot3(ab, ab)
	t := 0.0
	if l2 > 0 {
		t = dot3(sub3(p, a), ab) / l2
		t = math.Max(0, math.Min(1, t))
	}
	return norm3(sub3(p, add3(a, mul3(ab, t))))
}

func refSegDist2(a, b, p C2) float64 {
	ab := sub2(b, a)
	l2 := dot2(ab, ab)
	t := 0.0
	if l2 > 0 {
		t = dot2(sub2(p, a), ab) / l2
		t = math.Max(0, math.Min(1, t))
	}
	q := C2{X: a.X + ab.X*t, Y: a.Y + ab.Y*t}
	return norm2(sub2(p, q))
}

func refCapsuleSDF3(a, b C3, r float64, p C3) float64 { return r - refSegDist3(a, b, p) }
func refCapsuleSDF2(a, b C2, r float64, p C2) float64 { return r - refSegDist2(a, b, p) }

// refCylinderSDF: solid cylinder between a and b.
func refCylinderSDF(a, b C3, r float64, p C3) float64 {
	ab := sub3(b, a)
	l := norm3(ab)
	u := mul3(ab, 1/l)
	ap := sub3(p, a)
	t := dot3(ap, u)
	rad := norm3(sub3(ap, mul3(u, t)))
	dr := r - rad          // >0 inside radially
	da := math.Min(t, l-t) // >0 inside axially
	if dr >= 0 && da >= 0 {
		return math.Min(dr, da)
	}
	or, oa := math.Max(-dr, 0), math.Max(-da, 0)
	return -math.Sqrt(or*or + oa*oa)
}

func refTorusSDF(c, axis C3, outer, inner float64, p C3) float64 {
	u := mul3(axis, 1/norm3(axis))
	cp := sub3(p, c)
	h := dot3(cp, u)
	rad := norm3(sub3(cp, mul3(u, h)))
	return inner - math.Sqrt((rad-outer)*(rad-outer)+h*h)
}

func refConeContains(base, tip C3, r float64, p C3, slack float64) bool {
	ax := sub3(tip, base)
	l := norm3(ax)
	u := mul3(ax, 1/l)
	bp := sub3(p, base)
	t := dot3(bp, u)
	if t < slack || t > l-slack {
		return false
	}
	rad := norm3(sub3(bp, mul3(u, t)))
	return rad < r*(1-t/l)-slack
}

// ---------------------------------------------------------------------------
// harness-owned operands (3D)

// hBall is a ball with exact-arithmetic-free definitions; it implements
// model3d.SDF, NormalSDF, PointSDF and Metaball.
type hBall struct {
	c C3
	r float64
}

func (h *hBall) Min() C3          { return C3{X: h.c.X - h.r, Y: h.c.Y - h.r, Z: h.c.Z - h.r} }
func (h *hBall) Max() C3          { return C3{X: h.c.X + h.r, Y: h.c.Y + h.r, Z: h.c.Z + h.r} }
func (h *hBall) SDF(p C3) float64 { return refSphereSDF(h.c, h.r, p) }
func (h *hBall) NormalSDF(p C3) (C3, float64) {
	d := sub3(p, h.c)
	n := norm3(d)
	if n == 0 {
		return C3{X: 1}, h.r
	}
	return mul3(d, 1/n), h.r - n
}
func (h *hBall) MetaballField(p C3) float64          { return -h.SDF(p) }
func (h *hBall) MetaballDistBound(d float64) float64 { return d }

// hBox is an axis-aligned box operand.
type hBox struct{ mn, mx C3 }

func (h *hBox) Min() C3          { return h.mn }
func (h *hBox) Max() C3          { return h.mx }
func (h *hBox) SDF(p C3) float64 { return refBoxSDF3(h.mn, h.mx, p) }
func (h *hBox) NormalSDF(p C3) (C3, float64) {
	// normal of the nearest face (any choice among ties is a valid normal)
	d := h.SDF(p)
	a, b, c := h.mn.Array(), h.mx.Array(), p.Array()
	best, bk, bs := math.Inf(1), 0, 1.0
	q := c
	for k := 0; k < 3; k++ {
		q[k] = math.Max(a[k], math.Min(b[k], c[k]))
	}
	for k := 0; k < 3; k++ {
		if v := math.Abs(q[k] - a[k]); v < best {
			best, bk, bs = v, k, -1
		}
		if v := math.Abs(q[k] - b[k]); v < best {
			best, bk, bs = v, k, 1
		}
	}
	return axis3(bk, bs), d
}
func (h *hBox) MetaballField(p C3) float64          { return -h.SDF(p) }
func (h *hBox) MetaballDistBound(d float64) float64 { return d }

// 2D operands
type hDisc struct {
	c C2
	r float64
}

func (h *hDisc) Min() C2          { return C2{X: h.c.X - h.r, Y: h.c.Y - h.r} }
func (h *hDisc) Max() C2          { return C2{X: h.c.X + h.r, Y: h.c.Y + h.r} }
func (h *hDisc) SDF(p C2) float64 { return refCircleSDF(h.c, h.r, p) }
func (h *hDisc) NormalSDF(p C2) (C2, float64) {
	d := sub2(p, h.c)
	n := norm2(d)
	if n == 0 {
		return C2{X: 1}, h.r
	}
	return C2{X: d.X / n, Y: d.Y / n}, h.r - n
}
func (h *hDisc) MetaballField(p C2) float64          { return -h.SDF(p) }
func (h *hDisc) MetaballDistBound(d float64) float64 { return d }

type hBox2 struct{ mn, mx C2 }

func (h *hBox2) Min() C2          { return h.mn }
func (h *hBox2) Max() C2          { return h.mx }
func (h *hBox2) SDF(p C2) float64 { return refBoxSDF2(h.mn, h.mx, p) }
func (h *hBox2) NormalSDF(p C2) (C2, float64) {
	d := h.SDF(p)
	a, b, c := h.mn.Array(), h.mx.Array(), p.Array()
	best, bk, bs := math.Inf(1), 0, 1.0
	q := c
	for k := 0; k < 2; k++ {
		q[k] = math.Max(a[k], math.Min(b[k], c[k]))
	}
	for k := 0; k < 2; k++ {
		if v := math.Abs(q[k] - a[k]); v < best {
			best, bk, bs = v, k, -1
		}
		if v := math.Abs(q[k] - b[k]); v < best {
			best, bk, bs = v, k, 1
		}
	}
	var n [2]float64
	n[bk] = bs
	return model2d.NewCoordArray(n), d
}
func (h *hBox2) MetaballField(p C2) float64          { return -h.SDF(p) }
func (h *hBox2) MetaballDistBound(d float64) float64 { return d }

var (
	_ model3d.NormalSDF = (*hBall)(nil)
	_ model3d.Metaball  = (*hBall)(nil)
	_ model3d.NormalSDF = (*hBox)(nil)
	_ model3d.Metaball  = (*hBox)(nil)
	_ model2d.NormalSDF = (*hDisc)(nil)
	_ model2d.Metaball  = (*hDisc)(nil)
	_ model2d.NormalSDF = (*hBox2)(nil)
	_ model2d.Metaball  = (*hBox2)(nil)
)

// smoothJoinRef is the smooth-join formula over the two largest distances;
// any positive distance is inside (plain union).
func smoothJoinRef(radius float64, ds []float64) bool {
	for _, d := range ds {
		if d > 0 {
			return true
		}
	}
	if len(ds) < 2 {
		return false
	}
	a, b := math.Inf(-1), math.Inf(-1) // a >= b: two largest
	for _, d := range ds {
		if d > a {
			a, b = d, a
		} else if d > b {
			b = d
		}
	}
	d1 := math.Max(0, a+radius)
	d2 := math.Max(0, b+radius)
	return d1*d1+d2*d2 > radius*radius
}

// smoothJoinV2Ref is the V2 formula: the radius is scaled by the sine of the
// angle between the normals of the two nearest surfaces.
func smoothJoinV2Ref(radius float64, ds []float64, cosBetween func(i, j int) float64) bool {
	for _, d := range ds {
		if d > 0 {
			return true
		}
	}
	if len(ds) < 2 {
		return false
	}
	ai, bi := -1, -1
	for i, d := range ds {
		if ai < 0 || d > ds[ai] {
			ai, bi = i, ai
		} else if bi < 0 || d > ds[bi] {
			bi = i
		}
	}
	ct := math.Abs(cosBetween(ai, bi))
	r := radius * math.Sqrt(1-ct*ct)
	d1 := math.Max(0, ds[ai]+r)
	d2 := math.Max(0, ds[bi]+r)
	return d1*d1+d2*d2 > r*r
}

// arity separates the keys of the smooth joins by operand count class: one or
// two operands take a different path through the library than three or more.
func arity(n int) string {
	if n >= 3 {
		return "[3+ operands]"
	}
	return ""
}

// hWarp is a ball whose field is a non-linear monotone function of the distance to its surface
// (sign(d)*|d|^P): a legitimate Metaball - the interface only asks MetaballDistBound to be
// non-decreasing, and says explicitly that fields need not be Euclidean distances.
type hWarp struct {
	c C3
	r float64
	P float64
}

func (h *hWarp) Min() C3 { return C3{X: h.c.X - h.r, Y: h.c.Y - h.r, Z: h.c.Z - h.r} }
func (h *hWarp) Max() C3 { return C3{X: h.c.X + h.r, Y: h.c.Y + h.r, Z: h.c.Z + h.r} }
func (h *hWarp) MetaballField(p C3) float64 {
	d := -refSphereSDF(h.c, h.r, p)
	if d < 0 {
		return -math.Pow(-d, h.P)
	}
	return math.Pow(d, h.P)
}
func (h *hWarp) MetaballDistBound(d float64) float64 {
	if d < 0 {
		return -math.Pow(-d, h.P)
	}
	return math.Pow(d, h.P)
}

var _ model3d.Metaball = (*hWarp)(nil)
