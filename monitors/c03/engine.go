// Generic part of the C03 monitor: a "subject" is one constructed solid (2D or
// 3D) together with what the harness knows about it (the underlying definition
// for clause (c), interior hint points). check() runs clauses (a), (b), (c) on
// it with the margins of DESIGN.md C03.
package main

import (
	"fmt"
	"math"
	"math/rand"

	"github.com/unixpickle/model3d/model2d"
	"github.com/unixpickle/model3d/model3d"
	"verif/vlib"
)

// P is a query point; 2D subjects ignore P[2].
type P [3]float64

type C3 = model3d.Coord3D
type C2 = model2d.Coord

func p3(c C3) P    { return P{c.X, c.Y, c.Z} }
func p2(c C2) P    { return P{c.X, c.Y, 0} }
func (p P) c3() C3 { return C3{X: p[0], Y: p[1], Z: p[2]} }
func (p P) c2() C2 { return C2{X: p[0], Y: p[1]} }

func hx(v float64) string { return fmt.Sprintf("%x", v) }
func hp(p P, dim int) string {
	if dim == 2 {
		return fmt.Sprintf("(%x, %x) ~ (%g, %g)", p[0], p[1], p[0], p[1])
	}
	return fmt.Sprintf("(%x, %x, %x) ~ (%g, %g, %g)", p[0], p[1], p[2], p[0], p[1], p[2])
}
func h3(c C3) string { return hp(p3(c), 3) }
func h2(c C2) string { return hp(p2(c), 2) }

// subject is one solid under test.
type subject struct {
	api      string // key prefix, e.g. "model3d.Cylinder"
	dim      int
	min, max P
	contains func(P) bool
	// under is the harness-held underlying definition (clause c); nil when the
	// subject is not a bound-imposing wrapper.
	under func(P) bool
	// inside are points the definition puts inside (forward images etc.); they
	// were generated with their own stability margin.
	inside []P
	// hints are points expected to be inside or near the shape; they seed the
	// extreme-point search so that thin shapes are not missed.
	hints []P
	desc  interface{}
	// cheap bounds the per-subject query budget: 1 = normal, >1 = fewer queries.
	costly bool
	// marginMul widens the (b) margin for subjects whose construction is
	// documented to be approximate (never below 1).
	marginMul float64
	// hMul widens the (c) stability perturbation (never below 1) where the
	// construction is documented to be approximate.
	hMul float64
	// extra runs API-specific checks with the same querier.
	extra func(c *vlib.Case, q *querier)
}

func subject3(api string, s model3d.Solid, desc interface{}) *subject {
	return &subject{api: api, dim: 3, min: p3(s.Min()), max: p3(s.Max()),
		contains: func(p P) bool { return s.Contains(p.c3()) }, desc: desc}
}

func subject2(api string, s model2d.Solid, desc interface{}) *subject {
	return &subject{api: api, dim: 2, min: p2(s.Min()), max: p2(s.Max()),
		contains: func(p P) bool { return s.Contains(p.c2()) }, desc: desc}
}

func (s *subject) withUnder3(f func(C3) bool) *subject {
	s.under = func(p P) bool { return f(p.c3()) }
	return s
}
func (s *subject) withUnder2(f func(C2) bool) *subject {
	s.under = func(p P) bool { return f(p.c2()) }
	return s
}
func (s *subject) withHints3(h []C3) *subject {
	for _, c := range h {
		s.hints = append(s.hints, p3(c))
	}
	return s
}
func (s *subject) withHints2(h []C2) *subject {
	for _, c := range h {
		s.hints = append(s.hints, p2(c))
	}
	return s
}

// frame holds the margins derived from the reported box.
type frame struct {
	dim    int
	min    P
	max    P
	ext    P
	diag   float64
	maxabs float64
	scale  float64 // diag + maxabs (1 when both are zero)
	m      P       // (b) margin per axis
	h      float64 // (c) stability perturbation
	spread P       // half-width used to place query points per axis
}

func newFrame(dim int, mn, mx P, mul, hMul float64) frame {
	f := frame{dim: dim, min: mn, max: mx}
	var d2 float64
	for k := 0; k < dim; k++ {
		f.ext[k] = mx[k] - mn[k]
		d2 += f.ext[k] * f.ext[k]
		f.maxabs = math.Max(f.maxabs, math.Max(math.Abs(mn[k]), math.Abs(mx[k])))
	}
	f.diag = math.Sqrt(d2)
	f.scale = f.diag + f.maxabs
	if f.scale == 0 {
		f.scale = 1
	}
	if mul < 1 {
		mul = 1
	}
	for k := 0; k < dim; k++ {
		f.m[k] = mul * (1e-7*f.diag + 1e-10*f.scale)
		f.spread[k] = f.ext[k]
		ref := f.diag
		if ref == 0 {
			ref = f.scale
		}
		if f.spread[k] < 0.05*ref {
			f.spread[k] = 0.05 * ref
		}
	}
	if hMul < 1 {
		hMul = 1
	}
	f.h = 1e-9 * f.scale * hMul
	return f
}

// inBox is the exact test p >= min && p <= max.
func (f *frame) inBox(p P) bool {
	for k := 0; k < f.dim; k++ {
		if !(p[k] >= f.min[k] && p[k] <= f.max[k]) {
			return false
		}
	}
	return true
}

// outsideBy reports whether p is outside the box by more than the margin
// along at least one axis.
func (f *frame) outsideBy(p P) bool {
	for k := 0; k < f.dim; k++ {
		if p[k] > f.max[k]+f.m[k] || p[k] < f.min[k]-f.m[k] {
			return true
		}
	}
	return false
}

type tally struct {
	queries, outsideQueries, contained, withinMargin    int64
	cDecided, cUnstable, cOutsideDecided, insideChecked int64
}

// querier runs the point queries of one subject.
type querier struct {
	c           *vlib.Case
	s           *subject
	f           frame
	rng         *rand.Rand
	t           tally
	in          []P // contained samples
	uin         []P // samples where the underlying definition is true
	dead        bool
	worstLeak   float64
	worstWithin float64
}

func (q *querier) witness(p P, extra map[string]interface{}) map[string]interface{} {
	w := map[string]interface{}{
		"api": q.s.api, "point": hp(p, q.s.dim), "min": hp(q.f.min, q.s.dim), "max": hp(q.f.max, q.s.dim),
		"margin": fmt.Sprintf("%g %g %g", q.f.m[0], q.f.m[1], q.f.m[2]), "solid": q.s.desc,
	}
	var over []string
	for k := 0; k < q.s.dim; k++ {
		if p[k] > q.f.max[k] {
			over = append(over, fmt.Sprintf("axis %d above max by %g", k, p[k]-q.f.max[k]))
		}
		if p[k] < q.f.min[k] {
			over = append(over, fmt.Sprintf("axis %d below min by %g", k, q.f.min[k]-p[k]))
		}
	}
	w["outside_by"] = over
	for k, v := range extra {
		w[k] = v
	}
	return w
}

func (q *querier) stableUnder(p P) (isTrue, stable bool) {
	if !q.s.under(p) {
		return false, false
	}
	step := func(v, sg float64) float64 {
		n := v + sg*q.f.h
		if n == v { // h below the ulp of v: widen
			n = math.Nextafter(v, sg*math.Inf(1))
		}
		return n
	}
	// axis neighbours
	for k := 0; k < q.s.dim; k++ {
		for _, sg := range []float64{-1, 1} {
			n := p
			n[k] = step(p[k], sg)
			if !q.s.under(n) {
				return true, false
			}
		}
	}
	// diagonal neighbours: a point that sits exactly on a re-entrant edge or
	// corner of a union of boxes has all its axis neighbours inside
	for m := 0; m < 1<<uint(q.s.dim); m++ {
		n := p
		for k := 0; k < q.s.dim; k++ {
			sg := 1.0
			if m&(1<<uint(k)) != 0 {
				sg = -1
			}
			n[k] = step(p[k], sg)
		}
		if !q.s.under(n) {
			return true, false
		}
	}
	return true, true
}

// stable3 reports whether f holds at q and at its 6 axis and 8 diagonal
// neighbours at distance h (per coordinate).
func stable3(f func(C3) bool, q C3, h float64) bool {
	if !f(q) {
		return false
	}
	for ax := 0; ax < 3; ax++ {
		for _, sg := range []float64{-1, 1} {
			if !f(q.Add(axis3(ax, sg*h))) {
				return false
			}
		}
	}
	for m := 0; m < 8; m++ {
		d := C3{X: h, Y: h, Z: h}
		if m&1 != 0 {
			d.X = -h
		}
		if m&2 != 0 {
			d.Y = -h
		}
		if m&4 != 0 {
			d.Z = -h
		}
		if !f(q.Add(d)) {
			return false
		}
	}
	return true
}

// stable2 is the 2D analogue of stable3 (4 axis + 4 diagonal neighbours).
func stable2(f func(C2) bool, q C2, h float64) bool {
	if !f(q) {
		return false
	}
	for _, d := range []C2{{X: h}, {X: -h}, {Y: h}, {Y: -h}, {X: h, Y: h}, {X: h, Y: -h}, {X: -h, Y: h}, {X: -h, Y: -h}} {
		if !f(q.Add(d)) {
			return false
		}
	}
	return true
}

// probe evaluates one query point against clauses (b) and (c).
func (q *querier) probe(p P) (in bool) {
	for k := 0; k < q.s.dim; k++ {
		if math.IsNaN(p[k]) || math.IsInf(p[k], 0) {
			return false
		}
	}
	q.t.queries++
	in = q.s.contains(p)
	out := q.f.outsideBy(p)
	inBox := q.f.inBox(p)
	if out {
		q.t.outsideQueries++
	}
	if in {
		q.t.contained++
		if len(q.in) < 4096 {
			q.in = append(q.in, p)
		}
		if out {
			q.c.Violation(q.s.api+"/contains-outside-box",
				"Contains(p) is true for a point outside the reported box by more than the margin",
				q.witness(p, nil))
		} else if !inBox {
			q.t.withinMargin++
			for k := 0; k < q.s.dim; k++ {
				q.worstWithin = math.Max(q.worstWithin, math.Max(p[k]-q.f.max[k], q.f.min[k]-p[k])/q.f.scale)
			}
		}
	}
	if q.s.under != nil {
		isTrue, stable := q.stableUnder(p)
		if isTrue {
			if len(q.uin) < 4096 {
				q.uin = append(q.uin, p)
			}
			if !stable {
				q.t.cUnstable++
			} else {
				q.t.cDecided++
				if !inBox {
					q.t.cOutsideDecided++
					q.c.Violation(q.s.api+"/shape-outside-box",
						"the underlying definition puts p (and its 1e-9*scale neighbourhood) inside, but p is outside the reported box: the box cuts the shape",
						q.witness(p, map[string]interface{}{"contains": in}))
				} else if !in {
					q.c.Violation(q.s.api+"/underlying-true-not-contained",
						"the underlying definition puts p (and its 1e-9*scale neighbourhood) inside and p is inside the box, but Contains(p) is false",
						q.witness(p, nil))
				}
			}
		}
	}
	return in
}

func (q *querier) lateral(k int, mode int) P {
	// a point of the box (other coordinates), k-th coordinate unset
	var p P
	for j := 0; j < q.s.dim; j++ {
		lo, hi := q.f.min[j], q.f.max[j]
		switch mode {
		case 0: // centre
			p[j] = lo + (hi-lo)/2
		case 1: // corner
			if q.rng.Intn(2) == 0 {
				p[j] = lo
			} else {
				p[j] = hi
			}
		case 2: // inside the face
			p[j] = lo + (hi-lo)*q.rng.Float64()
		default: // inflated face
			c := lo + (hi-lo)/2
			p[j] = c + (q.rng.Float64()*2-1)*0.625*q.f.spread[j]
		}
	}
	return p
}

func (q *querier) budget(n int) int {
	if q.s.costly {
		n = n / 4
		if n < 1 {
			n = 1
		}
	}
	return n
}

// shell probes just outside every face of the box.
func (q *querier) shell() {
	for k := 0; k < q.s.dim; k++ {
		e := q.f.spread[k]
		deltas := []float64{1.5 * q.f.m[k], 4 * q.f.m[k], 1e-6 * e, 1e-3 * e, 0.1 * e, e}
		for side := 0; side < 2; side++ {
			for _, d := range deltas {
				modes := []int{0, 1, 1, 2, 2, 3}
				if q.s.costly {
					modes = []int{0, 1, 2}
				}
				for _, mode := range modes {
					p := q.lateral(k, mode)
					if side == 0 {
						p[k] = q.f.min[k] - d
					} else {
						p[k] = q.f.max[k] + d
					}
					q.probe(p)
				}
			}
		}
	}
}

// cloud probes a grid and random points over the box inflated by 25 %.
func (q *querier) cloud() {
	n := 5
	if q.s.dim == 2 {
		n = 9
	}
	if q.s.costly {
		n = 3
	}
	var idx [3]int
	total := n * n
	if q.s.dim == 3 {
		total *= n
	}
	for i := 0; i < total; i++ {
		x := i
		for k := 0; k < q.s.dim; k++ {
			idx[k] = x % n
			x /= n
		}
		var p P
		for k := 0; k < q.s.dim; k++ {
			c := q.f.min[k] + (q.f.max[k]-q.f.min[k])/2
			t := float64(idx[k])/float64(n-1)*2 - 1
			p[k] = c + t*0.625*q.f.spread[k]
		}
		q.probe(p)
	}
	for i := 0; i < q.budget(80); i++ {
		q.probe(q.lateral(0, 3))
	}
	// points of the box itself (faces, corners, edges are where wrappers clip)
	for i := 0; i < q.budget(24); i++ {
		q.probe(q.lateral(0, 1+q.rng.Intn(2)))
	}
}

// far probes distant points.
func (q *querier) far() {
	for _, mul := range []float64{3, 10, 1e3, 1e6, 1e12} {
		for i := 0; i < 3; i++ {
			var p P
			for k := 0; k < q.s.dim; k++ {
				c := q.f.min[k] + (q.f.max[k]-q.f.min[k])/2
				p[k] = c + q.rng.NormFloat64()*mul*q.f.scale
			}
			// also points far along one axis only
			if i == 2 {
				k := q.rng.Intn(q.s.dim)
				p = q.lateral(k, 2)
				p[k] = q.f.max[k] + mul*q.f.scale
				if q.rng.Intn(2) == 0 {
					p[k] = q.f.min[k] - mul*q.f.scale
				}
			}
			q.probe(p)
		}
	}
}

// climb walks from start towards +/- axis k while pred stays true and returns
// the last accepted point. It is a pattern search, deterministic given rng.
func (q *querier) climb(pred func(P) bool, k int, sign float64, start P, iters int) P {
	cur := start
	step := 0.25
	for it := 0; it < iters && step > 1e-13; it++ {
		moved := false
		cand := cur
		cand[k] += sign * step * q.f.spread[k]
		if pred(cand) {
			cur = cand
			moved = true
		} else {
			for tries := 0; tries < 3 && !moved; tries++ {
				cand = cur
				for j := 0; j < q.s.dim; j++ {
					if j != k {
						cand[j] += (q.rng.Float64()*2 - 1) * step * q.f.spread[j]
					}
				}
				cand[k] += sign * step * q.f.spread[k] * q.rng.Float64()
				if cand != cur && pred(cand) {
					cur = cand
					moved = true
				}
			}
		}
		if !moved {
			step /= 2
		}
		// a walk that left the box by a whole box width has made its point
		if sign > 0 && cur[k] > q.f.max[k]+2*q.f.spread[k] || sign < 0 && cur[k] < q.f.min[k]-2*q.f.spread[k] {
			break
		}
	}
	return cur
}

func best(pts []P, k int, sign float64, n int) []P {
	// the n points with the largest sign*p[k]
	res := make([]P, 0, n)
	used := map[int]bool{}
	for len(res) < n && len(res) < len(pts) {
		bi := -1
		for i, p := range pts {
			if used[i] {
				continue
			}
			if bi < 0 || sign*p[k] > sign*pts[bi][k] {
				bi = i
			}
		}
		used[bi] = true
		res = append(res, pts[bi])
	}
	return res
}

// extremes searches for the extreme points of the shape along every axis and
// probes just beyond the box face there (where the shape is tangent to the box).
func (q *querier) extremes() {
	iters := 40
	starts := 2
	if q.s.costly {
		iters = 14
		starts = 1
	}
	for k := 0; k < q.s.dim; k++ {
		for _, sign := range []float64{-1, 1} {
			bound := q.f.max[k]
			if sign < 0 {
				bound = q.f.min[k]
			}
			for _, st := range best(q.in, k, sign, starts) {
				end := q.climb(func(p P) bool { q.t.queries++; return q.s.contains(p) }, k, sign, st, iters)
				q.probe(end)
				leak := sign * (end[k] - bound)
				if leak > q.worstLeak {
					q.worstLeak = leak
				}
				for _, d := range []float64{1.5 * q.f.m[k], 1e-6 * q.f.spread[k], 1e-3 * q.f.spread[k]} {
					p := end
					p[k] = bound + sign*d
					q.probe(p)
				}
			}
			if q.s.under != nil {
				for _, st := range best(q.uin, k, sign, starts) {
					end := q.climb(q.s.under, k, sign, st, iters)
					q.probe(end)
					for _, d := range []float64{3 * q.f.h, 1e-6 * q.f.spread[k]} {
						p := end
						p[k] -= sign * d
						q.probe(p)
					}
				}
			}
		}
	}
}

// check runs all clauses on one subject. It returns false when the bounds were
// invalid (nothing else can be decided then).
func check(c *vlib.Case, s *subject) bool {
	c.Count("solids."+s.api, 1)
	c.Count("solids.total", 1)
	// clause (a)
	valid := true
	for k := 0; k < s.dim; k++ {
		if math.IsNaN(s.min[k]) || math.IsNaN(s.max[k]) || math.IsInf(s.min[k], 0) || math.IsInf(s.max[k], 0) || s.min[k] > s.max[k] {
			valid = false
		}
	}
	c.Count("a.bounds_checked."+s.api, 1)
	if !valid {
		c.Violation(s.api+"/bounds-valid", "Min/Max are not finite or min > max",
			map[string]interface{}{"api": s.api, "min": hp(s.min, s.dim), "max": hp(s.max, s.dim), "solid": s.desc})
		return false
	}
	q := &querier{c: c, s: s, f: newFrame(s.dim, s.min, s.max, s.marginMul, s.hMul), rng: c.Rng}
	for _, h := range s.hints {
		q.probe(h)
	}
	q.cloud()
	q.shell()
	q.extremes()
	q.far()
	for _, p := range s.inside {
		q.t.insideChecked++
		in := s.contains(p)
		if !q.f.inBox(p) {
			c.Violation(s.api+"/shape-outside-box",
				"a point the underlying definition puts inside (image of a stably contained point) is outside the reported box",
				q.witness(p, map[string]interface{}{"contains": in, "how": "forward image"}))
		} else if !in {
			c.Violation(s.api+"/underlying-true-not-contained",
				"a point the underlying definition puts inside (image of a stably contained point) is inside the box but Contains is false",
				q.witness(p, map[string]interface{}{"how": "forward image"}))
		}
	}
	if s.extra != nil {
		s.extra(c, q)
	}
	c.Count("queries."+s.api, q.t.queries)
	c.Count("b.outside_queries."+s.api, q.t.outsideQueries)
	c.Count("b.outside_queries.total", q.t.outsideQueries)
	c.Count("contained."+s.api, q.t.contained)
	if q.t.withinMargin > 0 {
		c.Count("b.contained_outside_within_margin."+s.api, q.t.withinMargin)
		c.Max("b.worst_contained_outside_within_margin_over_scale."+s.api, q.worstWithin)
	}
	if s.under != nil || len(s.inside) > 0 {
		c.Count("c.decided."+s.api, q.t.cDecided+q.t.insideChecked)
		c.Count("c.decided.total", q.t.cDecided+q.t.insideChecked)
		if q.t.cUnstable > 0 {
			c.Count("c.undecided_unstable."+s.api, q.t.cUnstable)
			c.Undecided("c-subjects-with-points-unstable-under-1e-9-perturbation")
		}
	}
	c.Max("worst_extreme_beyond_box_over_scale", q.worstLeak/q.f.scale)
	if q.t.contained > 0 && q.t.outsideQueries >= 20 {
		c.Nontrivial(fmt.Sprintf("%s|%v", s.api, s.desc))
	}
	c.Sample(s.api, 1, map[string]interface{}{"solid": s.desc, "min": hp(s.min, s.dim), "max": hp(s.max, s.dim),
		"queries": q.t.queries, "outside_queries": q.t.outsideQueries, "contained": q.t.contained, "c_decided": q.t.cDecided + q.t.insideChecked})
	return true
}
