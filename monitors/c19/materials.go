package main

import (
	"fmt"
	"math"
	"math/rand"

	"github.com/unixpickle/model3d/model3d"
	"github.com/unixpickle/model3d/render3d"
	ref "verif/vlib/c19ref"
)

type C3 = model3d.Coord3D

const (
	nTBins   = 10
	nPhiBins = 6
)

// matSpec is the harness's own description of a material: enough to build the
// library object and, independently, to know where its lobes and cut-offs are.
type matSpec struct {
	Kind string `json:"kind"` // lambert phong hg refract joined

	Alpha    float64 `json:"alpha,omitempty"`
	Diffuse  C3      `json:"diffuse,omitempty"`
	Specular C3      `json:"specular,omitempty"`
	NoFlux   bool    `json:"no_flux_correction,omitempty"`

	G             float64 `json:"g,omitempty"`
	IgnoreNormals bool    `json:"ignore_normals,omitempty"`
	Scatter       C3      `json:"scatter,omitempty"`

	IOR     float64 `json:"ior,omitempty"`
	Refract C3      `json:"refract_color,omitempty"`

	Subs  []*matSpec `json:"subs,omitempty"`
	Probs []float64  `json:"probs,omitempty"`
}

func (m *matSpec) typeName() string {
	switch m.Kind {
	case "lambert":
		return "LambertMaterial"
	case "phong":
		return "PhongMaterial"
	case "hg":
		return "HGMaterial"
	case "refract":
		return "RefractMaterial"
	case "sheet":
		return "AsymMaterial(caller-defined)"
	default:
		return "JoinedMaterial"
	}
}

func (m *matSpec) lib() render3d.Material {
	switch m.Kind {
	case "lambert":
		return &render3d.LambertMaterial{DiffuseColor: m.Diffuse}
	case "phong":
		return &render3d.PhongMaterial{Alpha: m.Alpha, SpecularColor: m.Specular, DiffuseColor: m.Diffuse, NoFluxCorrection: m.NoFlux}
	case "hg":
		return &render3d.HGMaterial{G: m.G, ScatterColor: m.Scatter, IgnoreNormals: m.IgnoreNormals}
	case "refract":
		return &render3d.RefractMaterial{IndexOfRefraction: m.IOR, RefractColor: m.Refract, SpecularColor: m.Specular}
	case "sheet":
		return &sheetMaterial{LambertMaterial: &render3d.LambertMaterial{DiffuseColor: m.Diffuse}}
	default:
		j := &render3d.JoinedMaterial{Probs: append([]float64{}, m.Probs...)}
		for _, s := range m.Subs {
			j.Materials = append(j.Materials, s.lib())
		}
		return j
	}
}

func (m *matSpec) sig() string {
	switch m.Kind {
	case "lambert":
		return "L"
	case "phong":
		return fmt.Sprintf("P(%g,d=%v,nf=%v)", m.Alpha, m.Diffuse != C3{}, m.NoFlux)
	case "hg":
		return fmt.Sprintf("HG(%g,%v)", m.G, m.IgnoreNormals)
	case "refract":
		return fmt.Sprintf("R(%g,s=%v)", m.IOR, m.Specular != C3{})
	case "sheet":
		return "Sheet"
	default:
		s := "J["
		for i, x := range m.Subs {
			s += fmt.Sprintf("%g*%s ", m.Probs[i], x.sig())
		}
		return s + "]"
	}
}

// hasDelta reports whether the material contains a delta lobe.
func (m *matSpec) hasDelta() bool {
	if m.Kind == "refract" {
		return true
	}
	for _, s := range m.Subs {
		if s.hasDelta() {
			return true
		}
	}
	return false
}

// hgCancelsNormal reports whether an HG material that divides by the source
// cosine is present (its BSDF is normalised for the renderer's source-cosine
// weighting, not for the outgoing-cosine integral).
func (m *matSpec) hgCancelsNormal() bool {
	if m.Kind == "hg" && !m.IgnoreNormals {
		return true
	}
	for _, s := range m.Subs {
		if s.hgCancelsNormal() {
			return true
		}
	}
	return false
}

func hgEffective(g float64) (abs float64, negative bool) {
	// the documented clamp of HGMaterial: |G| < 1e-5 behaves as a tiny positive g
	if math.Abs(g) < 1e-5 {
		return 1e-5, false
	}
	return math.Min(math.Abs(g), 1-1e-5), g < 0
}

type lobeInfo struct {
	lobes     []ref.Lobe
	cuts      []ref.Cut
	undecided string
}

func (li *lobeInfo) add(o lobeInfo) {
	li.lobes = append(li.lobes, o.lobes...)
	li.cuts = append(li.cuts, o.cuts...)
	if li.undecided == "" {
		li.undecided = o.undecided
	}
}

// lobesOf derives the lobe axes and discontinuity loci of the sampling density
// from the harness's own optics. wantSource: the variable is the source
// direction (fixed = dest); otherwise the variable is dest (fixed = source).
func (m *matSpec) lobesOf(n, fixed ref.V, wantSource bool) lobeInfo {
	var li lobeInfo
	switch m.Kind {
	case "lambert":
		ax := n
		if wantSource {
			ax = n.Neg()
		}
		li.lobes = append(li.lobes, ref.Lobe{Axis: ax, TEdges: ref.LambertEdges(nTBins), NPhi: nPhiBins, Name: "lambert"})
		li.cuts = append(li.cuts, ref.Plane(n))
	case "phong":
		r := ref.Mirror(n, fixed)
		li.lobes = append(li.lobes, ref.Lobe{Axis: r, TEdges: ref.PowerCosEdges(m.Alpha, nTBins), NPhi: nPhiBins, Name: "phong"})
		li.cuts = append(li.cuts, ref.Plane(r))
		if (m.Diffuse != C3{}) {
			li.add((&matSpec{Kind: "lambert"}).lobesOf(n, fixed, wantSource))
		}
	case "sheet":
		if wantSource {
			li.add((&matSpec{Kind: "lambert"}).lobesOf(n, fixed, true))
		} else {
			li.lobes = append(li.lobes, ref.Lobe{Axis: n, TEdges: ref.UniformEdges(nTBins), NPhi: nPhiBins, Name: "uniform"})
		}
	case "hg":
		g, neg := hgEffective(m.G)
		ax := fixed
		if neg {
			ax = fixed.Neg()
		}
		li.lobes = append(li.lobes, ref.Lobe{Axis: ax, TEdges: ref.HGEdges(g, nTBins), NPhi: nPhiBins, Name: "hg"})
	case "refract":
		var mir, tr ref.V
		var tir bool
		var margin float64
		mir = ref.Mirror(n, fixed)
		if wantSource {
			// the source whose refraction leaves along dest: reverse the light path
			var t ref.V
			t, tir, margin = ref.Snell(n, fixed.Neg(), m.IOR)
			tr = t.Neg()
		} else {
			tr, tir, margin = ref.Snell(n, fixed, m.IOR)
		}
		if margin < 1e-6 {
			li.undecided = "refract.critical-angle-margin"
		}
		sep := mir.Dist(tr)
		if !tir && sep < 2e-3 {
			li.undecided = "refract.lobes-overlap"
		}
		delta := func(ax ref.V, name string) {
			li.lobes = append(li.lobes, ref.Lobe{Axis: ax, TEdges: []float64{ref.DeltaEps}, NPhi: 1, Name: name, MinEdge: ref.DeltaEps})
			li.cuts = append(li.cuts, ref.Cut{B: ax, C: 1 - ref.DeltaEps})
		}
		if tir {
			delta(mir, "total-internal-reflection")
		} else {
			if (m.Specular != C3{}) {
				delta(mir, "mirror")
			}
			delta(tr, "refracted")
		}
	default:
		for _, s := range m.Subs {
			li.add(s.lobesOf(n, fixed, wantSource))
		}
	}
	return li
}

// ---------------------------------------------------------------------------
// generators

func randUnit(rng *rand.Rand) ref.V {
	for {
		v := ref.XYZ(rng.NormFloat64(), rng.NormFloat64(), rng.NormFloat64())
		if n := v.Norm(); n > 0.05 {
			return v.Unit()
		}
	}
}

func randNormal(rng *rand.Rand) ref.V {
	switch rng.Intn(6) {
	case 0: // axis aligned (special path of OrthoBasis)
		v := [3]float64{}
		v[rng.Intn(3)] = float64(1 - 2*rng.Intn(2))
		return ref.XYZ(v[0], v[1], v[2])
	case 1: // two equal components (tie in OrthoBasis's largest-component choice)
		s := math.Sqrt(0.5)
		v := [3]float64{s, s, 0}
		rng.Shuffle(3, func(i, j int) { v[i], v[j] = v[j], v[i] })
		return ref.XYZ(v[0], v[1], v[2]).Unit()
	}
	return randUnit(rng)
}

// randFixed picks the fixed direction relative to the normal: normal incidence,
// grazing, below the surface and generic.
func randFixed(rng *rand.Rand, n ref.V) (ref.V, string) {
	fr := ref.NewFrame(n)
	phi := rng.Float64() * 2 * math.Pi
	mk := func(cos float64) ref.V {
		return fr.At(1-cos, phi).Unit()
	}
	switch rng.Intn(10) {
	case 0:
		return n, "normal+"
	case 1:
		return n.Neg(), "normal-"
	case 2:
		return mk(1e-3), "grazing1e-3"
	case 3:
		return mk(-1e-3), "grazing-1e-3"
	case 4:
		return mk(1e-5 * float64(1-2*rng.Intn(2))), "grazing1e-5"
	case 5:
		return mk(-rng.Float64()), "below"
	case 6:
		return mk(rng.Float64()), "above"
	}
	v := randUnit(rng)
	return v, "generic"
}

func randColor(rng *rand.Rand, max float64) C3 {
	f := func() float64 {
		switch rng.Intn(6) {
		case 0:
			return max
		case 1:
			return 0
		}
		return rng.Float64() * max
	}
	c := C3{X: f(), Y: f(), Z: f()}
	if (c == C3{}) {
		c.X = max
	}
	return c
}

var alphaChoices = []float64{0, 0, 0.5, 1, 2, 5, 10, 30, 100, 1000, 1e4}
var gChoices = []float64{0, 1e-6, -1e-6, 1e-5, 0.1, -0.3, 0.5, -0.7, 0.9, -0.95, 0.99, 0.999, -0.999, 0.99999, -0.999999, 0.999999}
var iorChoices = []float64{0.5, 0.75, 1 / 1.5, 1.0, 1.33, 1.5, 2.0, 2.5}

// randMat builds a random material of the named kind; scale bounds the sum of
// its reflectances per channel (so mixtures stay energy conserving).
func randMat(rng *rand.Rand, kind string, scale float64, depth int) *matSpec {
	switch kind {
	case "lambert":
		return &matSpec{Kind: kind, Diffuse: randColor(rng, scale)}
	case "phong":
		m := &matSpec{Kind: kind, NoFlux: rng.Intn(3) == 0}
		if rng.Intn(3) == 0 {
			m.Alpha = math.Exp(rng.Float64() * math.Log(1e4))
			if rng.Intn(4) == 0 {
				m.Alpha = rng.Float64()
			}
		} else {
			m.Alpha = alphaChoices[rng.Intn(len(alphaChoices))]
		}
		if rng.Intn(2) == 0 {
			m.Specular = randColor(rng, scale)
		} else {
			f := 0.1 + 0.8*rng.Float64()
			switch rng.Intn(6) {
			case 0:
				// a diffuse term that is faint but not zero (and the mirror case): the mixture is
				// still a mixture as long as the colour is not exactly black
				f = 1 - math.Pow(10, -3-7*rng.Float64())
			case 1:
				f = math.Pow(10, -3-7*rng.Float64())
			}
			m.Specular = randColor(rng, scale*f)
			m.Diffuse = randColor(rng, scale*(1-f))
		}
		return m
	case "hg":
		m := &matSpec{Kind: kind, IgnoreNormals: rng.Intn(2) == 0, Scatter: randColor(rng, scale)}
		if rng.Intn(3) == 0 {
			m.G = (2*rng.Float64() - 1) * 0.999
		} else {
			m.G = gChoices[rng.Intn(len(gChoices))]
		}
		return m
	case "refract":
		m := &matSpec{Kind: kind, Refract: randColor(rng, scale)}
		if rng.Intn(3) == 0 {
			m.IOR = 0.5 + 2*rng.Float64()
		} else {
			m.IOR = iorChoices[rng.Intn(len(iorChoices))]
		}
		switch rng.Intn(5) {
		case 0, 1:
			m.Specular = C3{X: scale, Y: scale, Z: scale}
		case 2:
			m.Specular = randColor(rng, scale)
		}
		return m
	}
	if kind == "sheet" {
		return &matSpec{Kind: kind, Diffuse: randColor(rng, scale)}
	}
	// joined
	k := 2 + rng.Intn(3)
	m := &matSpec{Kind: "joined"}
	// probabilities: positive multiples of 1/64 with exact sum 1
	parts := make([]int, k)
	left := 64
	for i := 0; i < k; i++ {
		parts[i] = 1
		left--
	}
	for left > 0 {
		s := 1 + rng.Intn(left)
		if rng.Intn(3) == 0 {
			s = 1
		}
		parts[rng.Intn(k)] += s
		left -= s
	}
	// reflectance shares
	shares := make([]float64, k)
	var sum float64
	for i := range shares {
		shares[i] = 0.1 + rng.Float64()
		sum += shares[i]
	}
	kinds := []string{"lambert", "phong", "phong", "hg", "refract"}
	for i := 0; i < k; i++ {
		kd := kinds[rng.Intn(len(kinds))]
		if depth == 0 && rng.Intn(8) == 0 {
			kd = "joined"
		} else if rng.Intn(7) == 0 {
			kd = "sheet"
		}
		sub := randMat(rng, kd, scale*shares[i]/sum, depth+1)
		m.Subs = append(m.Subs, sub)
		m.Probs = append(m.Probs, float64(parts[i])/64)
	}
	return m
}

// sheetMaterial is a caller-defined AsymMaterial: a matte surface (everything about sources comes
// from the embedded LambertMaterial) whose destination directions are drawn uniformly from the
// whole sphere, with the density that belongs to that sampler. Its destination sampling is NOT the
// reverse of its source sampling, which is what the AsymMaterial interface exists for.
type sheetMaterial struct {
	*render3d.LambertMaterial
}

func (s *sheetMaterial) SampleDest(gen *rand.Rand, normal, source model3d.Coord3D) model3d.Coord3D {
	z := 2*gen.Float64() - 1
	phi := 2 * math.Pi * gen.Float64()
	r := math.Sqrt(math.Max(0, 1-z*z))
	return model3d.XYZ(r*math.Cos(phi), r*math.Sin(phi), z)
}

func (s *sheetMaterial) DestDensity(normal, source, dest model3d.Coord3D) float64 { return 1 }
