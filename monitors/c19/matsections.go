package main

import (
	"fmt"
	"math"
	"math/rand"

	"github.com/unixpickle/model3d/render3d"
	"verif/vlib"
	ref "verif/vlib/c19ref"
)

var matKinds = []string{"lambert", "phong", "phong", "phong", "hg", "hg", "refract", "refract", "joined", "joined", "joined"}

func caseWitness(m *matSpec, n, fixed ref.V, fixedKind, mode string) map[string]interface{} {
	return map[string]interface{}{
		"material": m, "normal": n.Hex(), "fixed_direction": fixed.Hex(),
		"fixed_kind": fixedKind, "mode": mode,
	}
}

func materialSections(r *vlib.Run) {
	nSamples := r.N(200000, 2000000)
	r.Section("materials", r.N(900, 2400), vlib.SectionOpts{}, func(c *vlib.Case) {
		rng := c.Rng
		kind := matKinds[c.Index%len(matKinds)]
		m := randMat(rng, kind, 1, 0)
		n := randNormal(rng)
		fixed, fk := randFixed(rng, n)
		lib := m.lib()
		// history: a mixture that has already been used with other mixing probabilities and is then
		// re-tuned through its exported Probs field (a caller balancing variance between renders)
		// is the mixture its current fields describe, for the sampler and for the density alike
		if jm, ok := lib.(*render3d.JoinedMaterial); ok && rng.Intn(2) == 0 {
			k := len(jm.Probs)
			old := make([]float64, k)
			left := 64
			for i := range old {
				old[i] = 1
				left--
			}
			old[rng.Intn(k)] += float64(left)
			for i := range old {
				old[i] /= 64
			}
			now := append([]float64{}, jm.Probs...)
			copy(jm.Probs, old)
			warm := rand.New(rand.NewSource(rng.Int63()))
			for i := 0; i < 50; i++ {
				lib.SampleSource(warm, n.C(), fixed.C())
				render3d.SampleDest(lib, warm, n.C(), fixed.C())
				lib.SourceDensity(n.C(), lib.SampleSource(warm, n.C(), fixed.C()), fixed.C())
			}
			if rng.Intn(2) == 0 {
				copy(jm.Probs, now) // in place
			} else {
				jm.Probs = now // new slice
			}
			c.Count("mat.joined.retuned_after_use", 1)
		}
		// emission and ambient terms: what the fields say; a mixture emits the sum of its parts
		{
			ec, ac := render3d.NewColorRGB(rng.Float64(), rng.Float64(), rng.Float64()), render3d.NewColorRGB(rng.Float64(), rng.Float64(), rng.Float64())
			var setEmit func(mm render3d.Material) (render3d.Color, render3d.Color)
			setEmit = func(mm render3d.Material) (render3d.Color, render3d.Color) {
				switch x := mm.(type) {
				case *render3d.LambertMaterial:
					x.EmissionColor, x.AmbientColor = ec, ac
					return ec, ac
				case *render3d.PhongMaterial:
					x.EmissionColor, x.AmbientColor = ec.Scale(0.5), ac.Scale(0.25)
					return ec.Scale(0.5), ac.Scale(0.25)
				case *render3d.JoinedMaterial:
					var se, sa render3d.Color
					for _, sub := range x.Materials {
						e, a := setEmit(sub)
						se, sa = se.Add(e), sa.Add(a)
					}
					return se, sa
				}
				return render3d.Color{}, render3d.Color{}
			}
			we, wa := setEmit(lib)
			c.Count("mat.emission_ambient_checked", 1)
			if ge, ga := lib.Emission(), lib.Ambient(); ge.Dist(we) > 1e-12 || ga.Dist(wa) > 1e-12 {
				c.Violation("render3d."+m.typeName()+".Emission/fields", fmt.Sprintf("Emission()=%v Ambient()=%v, the fields give %v and %v", ge, ga, we, wa), caseWitness(m, n, fixed, fk, "emission"))
				return
			}
		}
		typ := "render3d." + m.typeName()
		tag := "mat." + m.Kind
		mode := c.Index / len(matKinds) % 2
		c.Count(tag+".cases", 1)
		c.Count("fixed."+fk, 1)
		if m.Kind == "phong" {
			switch {
			case m.Alpha == 0:
				c.Count("phong.alpha_zero", 1)
			case m.Alpha >= 1000:
				c.Count("phong.alpha_ge_1000", 1)
			}
		}
		if m.Kind == "hg" {
			g, _ := hgEffective(m.G)
			if g <= 1e-5 {
				c.Count("hg.g_tiny", 1)
			}
			if g >= 0.99 {
				c.Count("hg.g_ge_0.99", 1)
			}
			if m.G < 0 {
				c.Count("hg.g_negative", 1)
			}
		}
		if m.Kind == "refract" {
			if m.IOR < 1 {
				c.Count("refract.ior_below_1", 1)
			} else if m.IOR > 1 {
				c.Count("refract.ior_above_1", 1)
			}
		}
		// the same material object shades other points between our draws (a path that bounces on
		// several surfaces sharing one material): k draws for another (normal, direction) pair, from
		// an independent stream, before each of ours. The distribution of OUR draws is a function
		// of our arguments only.
		interleave := 0
		n2 := randNormal(rng)
		fixed2, _ := randFixed(rng, n2)
		gen2 := rand.New(rand.NewSource(rng.Int63()))
		if rng.Intn(2) == 0 {
			interleave = []int{1, 2, 3}[rng.Intn(3)]
			c.Count("mat.cases_with_draws_for_another_shading_point_interleaved", 1)
		}
		between := func() {
			for i := 0; i < interleave; i++ {
				if i%2 == 0 {
					lib.SampleSource(gen2, n2.C(), fixed2.C())
				} else {
					render3d.SampleDest(lib, gen2, n2.C(), fixed2.C())
				}
			}
		}
		if mode == 0 {
			// source sampling: fixed = dest
			dc := &dirCase{
				typ: typ, sampleAPI: "SampleSource", densityAPI: "SourceDensity", tag: tag + ".source",
				sample: func(gen *rand.Rand) ref.V {
					between()
					return ref.From(lib.SampleSource(gen, n.C(), fixed.C()))
				},
				density:  func(w ref.V) float64 { return lib.SourceDensity(n.C(), w.C(), fixed.C()) },
				info:     m.lobesOf(n, fixed, true),
				hasDelta: m.hasDelta(),
				witness:  caseWitness(m, n, fixed, fk, "source sampling: fixed direction is dest"),
			}
			checkDirectional(c, dc, nSamples)
		} else {
			// destination sampling through the package functions (AsymMaterial
			// methods for Refract/Joined, the reversed source sampler otherwise)
			dc := &dirCase{
				typ: "render3d", sampleAPI: "SampleDest(" + m.typeName() + ")", densityAPI: "DestDensity(" + m.typeName() + ")", tag: tag + ".dest",
				sample: func(gen *rand.Rand) ref.V {
					between()
					return ref.From(render3d.SampleDest(lib, gen, n.C(), fixed.C()))
				},
				density:  func(w ref.V) float64 { return render3d.DestDensity(lib, n.C(), fixed.C(), w.C()) },
				info:     m.lobesOf(n, fixed, false),
				hasDelta: m.hasDelta(),
				witness:  caseWitness(m, n, fixed, fk, "destination sampling: fixed direction is source"),
			}
			checkDirectional(c, dc, nSamples)
		}
		c.Nontrivial(m.sig() + fk + fmt.Sprint(mode))
		if c.Index < 24 {
			c.Sample("material-case", 6, caseWitness(m, n, fixed, fk, fmt.Sprint(mode)))
		}
	})

	// Energy: (1/4pi) * integral over dest of BSDF * |cos(dest, normal)| <= 1
	r.Section("energy", r.N(1540, 6000), vlib.SectionOpts{}, func(c *vlib.Case) {
		rng := c.Rng
		kind := matKinds[c.Index%len(matKinds)]
		m := randMat(rng, kind, 1, 0)
		n := randNormal(rng)
		fixed, fk := randFixed(rng, n)
		if rng.Intn(2) == 0 && n.Dot(fixed) > 0 {
			fixed = fixed.Neg() // light arriving from the front side
		}
		energyCheck(c, m, n, fixed, fk)
	})
}

// energyCheck integrates BSDF * |cos| over the outgoing directions for a
// fixed source. For an HGMaterial that divides by the source cosine the
// integral the material is normalised for is the renderer's: over source
// directions, weighted by |cos(source, normal)|, for a fixed dest.
func energyCheck(c *vlib.Case, m *matSpec, n, fixed ref.V, fk string) {
	lib := m.lib()
	typ := "render3d." + m.typeName()
	overSource := false
	if m.hgCancelsNormal() {
		if m.Kind != "hg" {
			c.Count("energy.skipped_mixture_with_normal_cancelling_hg", 1)
			return
		}
		overSource = true
	}
	info := m.lobesOf(n, fixed, overSource)
	if info.undecided != "" {
		c.Undecided("energy." + info.undecided)
		return
	}
	info.cuts = append(info.cuts, ref.Plane(n))
	// flux-correction kink of Phong: cos(dest) == cos(source)
	cs := math.Abs(n.Dot(fixed))
	if cs > 0 && cs < 1 {
		info.cuts = append(info.cuts, ref.Cut{B: n, C: cs}, ref.Cut{B: n, C: -cs})
	}
	part := ref.NewPartition(info.lobes, info.cuts)
	if m.hasDelta() && part.MinAxisSeparation() < 2e-3 {
		c.Undecided("energy.delta-lobe-near-another-axis")
		return
	}
	bad := false
	tot, evals := part.Total(3, func(w ref.V, out []float64) {
		var col C3
		if overSource {
			col = lib.BSDF(n.C(), w.C(), fixed.C())
		} else {
			col = lib.BSDF(n.C(), fixed.C(), w.C())
		}
		k := math.Abs(w.Dot(n))
		out[0], out[1], out[2] = col.X*k, col.Y*k, col.Z*k
		for _, x := range out {
			if math.IsNaN(x) || math.IsInf(x, 0) || x < -negTol {
				bad = true
			}
		}
	})
	c.Count("energy."+m.Kind, 1)
	c.Count("quadrature.bsdf_evaluations", int64(evals))
	wit := caseWitness(m, n, fixed, fk, map[bool]string{false: "fixed source, integral over dest of BSDF*|cos dest|", true: "fixed dest, integral over source of BSDF*|cos source| (HG cancels the source cosine)"}[overSource])
	if bad {
		c.Violation(typ+".BSDF/finite-nonnegative", "BSDF is NaN, infinite or negative at a quadrature node", wit)
		return
	}
	worst := math.Max(tot[0], math.Max(tot[1], tot[2]))
	c.Max("energy.max_reflected_fraction."+m.Kind, worst)
	if worst > 1e-3 {
		c.Count("energy.nonzero", 1)
	}
	if worst > 1+1e-3 {
		wit["reflected_fraction_rgb"] = tot
		c.Violation(typ+".BSDF/energy-conservation",
			fmt.Sprintf("reflected fraction (1/4pi)*integral BSDF*|cos| = %.6f %.6f %.6f exceeds 1 although all reflectances sum to <= 1", tot[0], tot[1], tot[2]), wit)
	}
	c.Nontrivial("energy" + m.sig() + fk)
}
