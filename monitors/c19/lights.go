package main

import (
	"fmt"
	"math"
	"math/rand"
	"strings"

	"github.com/unixpickle/model3d/model3d"
	"github.com/unixpickle/model3d/render3d"
	"verif/vlib"
	ref "verif/vlib/c19ref"
)

// lightRef is the harness's own model of an area light: closed-form surface,
// outward normal, area and an equal-probability bin structure.
type lightRef interface {
	build() render3d.AreaLight
	typ() string
	totalEmission() float64
	numBins() int
	// classify maps a sampled (point, normal, emission) to a bin, or explains
	// which clause it violates.
	classify(p, nrm ref.V, em C3) (bin int, clause, msg string)
	binProb(i int) float64 // probability of bin i given this light was chosen
	binName(i int) string
	describe() map[string]interface{}
	convex() bool
	size() float64
}

func sumC(c C3) float64 { return c.X + c.Y + c.Z }

func normalClose(a, b ref.V, tol float64) bool { return a.Dist(b) <= tol }

// ---------------------------------------------------------------------------
// sphere

type sphereRef struct {
	center ref.V
	radius float64
	em     C3
	frame  ref.Frame
}

const sphT, sphP = 8, 8

func (s *sphereRef) build() render3d.AreaLight {
	return render3d.NewSphereAreaLight(&model3d.Sphere{Center: s.center.C(), Radius: s.radius}, s.em)
}
func (s *sphereRef) typ() string            { return "render3d.SphereAreaLight" }
func (s *sphereRef) totalEmission() float64 { return sumC(s.em) * 4 * math.Pi * s.radius * s.radius }
func (s *sphereRef) numBins() int           { return sphT * sphP }
func (s *sphereRef) binProb(i int) float64  { return 1.0 / (sphT * sphP) }
func (s *sphereRef) binName(i int) string {
	return fmt.Sprintf("sphere patch: polar band %d of %d (equal area), azimuth sector %d of %d", i/sphP, sphT, i%sphP, sphP)
}
func (s *sphereRef) convex() bool  { return true }
func (s *sphereRef) size() float64 { return s.radius }
func (s *sphereRef) describe() map[string]interface{} {
	return map[string]interface{}{"light": "sphere", "center": s.center.Hex(), "radius": s.radius, "emission": s.em}
}
func (s *sphereRef) classify(p, nrm ref.V, em C3) (int, string, string) {
	if em != s.em {
		return 0, "emission", fmt.Sprintf("returned emission %v, light emits %v", em, s.em)
	}
	d := p.Sub(s.center)
	dist := d.Norm()
	tol := 1e-9*s.radius + 1e-14*(s.center.Norm()+s.radius)
	if !(math.Abs(dist-s.radius) <= tol) {
		return 0, "on-surface", fmt.Sprintf("point is at distance %.12g from the centre, radius is %.12g", dist, s.radius)
	}
	out := d.Scale(1 / dist)
	if !normalClose(nrm, out, 1e-6) {
		return 0, "outward-normal", fmt.Sprintf("normal %v differs from the outward normal %v", nrm, out)
	}
	t, phi := s.frame.Coords(out)
	a := int(t / 2 * sphT)
	if a >= sphT {
		a = sphT - 1
	}
	b := int(phi / (2 * math.Pi) * sphP)
	if b >= sphP {
		b = sphP - 1
	}
	return a*sphP + b, "", ""
}

// ---------------------------------------------------------------------------
// cylinder

type cylRef struct {
	p1, p2 ref.V
	radius float64
	em     C3
	frame  ref.Frame
	h      float64
}

const cylCapR, cylPhi, cylZ = 4, 8, 8

func (s *cylRef) build() render3d.AreaLight {
	return render3d.NewCylinderAreaLight(&model3d.Cylinder{P1: s.p1.C(), P2: s.p2.C(), Radius: s.radius}, s.em)
}
func (s *cylRef) typ() string { return "render3d.CylinderAreaLight" }
func (s *cylRef) areas() (capA, shaft float64) {
	return math.Pi * s.radius * s.radius, 2 * math.Pi * s.radius * s.h
}
func (s *cylRef) totalEmission() float64 {
	c, sh := s.areas()
	return sumC(s.em) * (2*c + sh)
}
func (s *cylRef) numBins() int { return 2*cylCapR*cylPhi + cylZ*cylPhi }
func (s *cylRef) binProb(i int) float64 {
	c, sh := s.areas()
	tot := 2*c + sh
	if i < 2*cylCapR*cylPhi {
		return c / tot / (cylCapR * cylPhi)
	}
	return sh / tot / (cylZ * cylPhi)
}
func (s *cylRef) binName(i int) string {
	nc := cylCapR * cylPhi
	switch {
	case i < nc:
		return fmt.Sprintf("cap at P1: equal-area ring %d of %d, sector %d of %d", i/cylPhi, cylCapR, i%cylPhi, cylPhi)
	case i < 2*nc:
		i -= nc
		return fmt.Sprintf("cap at P2: equal-area ring %d of %d, sector %d of %d", i/cylPhi, cylCapR, i%cylPhi, cylPhi)
	}
	i -= 2 * nc
	return fmt.Sprintf("shaft: axial band %d of %d, sector %d of %d", i/cylPhi, cylZ, i%cylPhi, cylPhi)
}
func (s *cylRef) convex() bool  { return true }
func (s *cylRef) size() float64 { return math.Max(s.radius, s.h) }
func (s *cylRef) describe() map[string]interface{} {
	return map[string]interface{}{"light": "cylinder", "p1": s.p1.Hex(), "p2": s.p2.Hex(), "radius": s.radius, "height": s.h, "emission": s.em}
}
func (s *cylRef) classify(p, nrm ref.V, em C3) (int, string, string) {
	if em != s.em {
		return 0, "emission", fmt.Sprintf("returned emission %v, light emits %v", em, s.em)
	}
	a := s.frame.A
	v := p.Sub(s.p1)
	z := v.Dot(a)
	rv := v.Sub(a.Scale(z))
	rho := rv.Norm()
	tol := 1e-9*s.size() + 1e-14*(s.p1.Norm()+s.p2.Norm())
	onCap1 := math.Abs(z) <= tol && rho <= s.radius+tol
	onCap2 := math.Abs(z-s.h) <= tol && rho <= s.radius+tol
	onShaft := math.Abs(rho-s.radius) <= tol && z >= -tol && z <= s.h+tol
	if !onCap1 && !onCap2 && !onShaft {
		return 0, "on-surface", fmt.Sprintf("point has axial coordinate %.9g (height %.9g) and distance %.9g from the axis (radius %.9g): not on a cap nor on the shaft", z, s.h, rho, s.radius)
	}
	phi := math.Atan2(rv.Dot(s.frame.Y), rv.Dot(s.frame.X))
	if phi < 0 {
		phi += 2 * math.Pi
	}
	pb := int(phi / (2 * math.Pi) * cylPhi)
	if pb >= cylPhi {
		pb = cylPhi - 1
	}
	capBin := func() int {
		q := rho * rho / (s.radius * s.radius)
		rb := int(q * cylCapR)
		if rb >= cylCapR {
			rb = cylCapR - 1
		}
		return rb*cylPhi + pb
	}
	nc := cylCapR * cylPhi
	// accept the normal of any part the point lies on (rim points lie on two)
	if onCap1 && normalClose(nrm, a.Neg(), 1e-6) {
		return capBin(), "", ""
	}
	if onCap2 && normalClose(nrm, a, 1e-6) {
		return nc + capBin(), "", ""
	}
	if onShaft && rho > 0 && normalClose(nrm, rv.Scale(1/rho), 1e-6) {
		zb := int(z / s.h * cylZ)
		if zb < 0 {
			zb = 0
		}
		if zb >= cylZ {
			zb = cylZ - 1
		}
		return 2*nc + zb*cylPhi + pb, "", ""
	}
	part := "shaft"
	if onCap1 {
		part = "cap at P1"
	} else if onCap2 {
		part = "cap at P2"
	}
	return 0, "outward-normal", fmt.Sprintf("point lies on the %s but the normal %v is not the outward normal there", part, nrm)
}

// ---------------------------------------------------------------------------
// mesh

type meshRef struct {
	tris   [][3]ref.V
	areas  []float64
	norms  []ref.V
	total  float64
	em     C3
	extent float64
	maxAbs float64
	kind   string
	isConv bool
}

func newMeshRef(tris [][3]ref.V, em C3, kind string, conv bool) *meshRef {
	m := &meshRef{tris: tris, em: em, kind: kind, isConv: conv}
	mn, mx := tris[0][0], tris[0][0]
	for _, t := range tris {
		cr := t[1].Sub(t[0]).Cross(t[2].Sub(t[0]))
		a := cr.Norm() / 2
		m.areas = append(m.areas, a)
		m.norms = append(m.norms, cr.Unit())
		m.total += a
		for _, p := range t {
			mn = ref.XYZ(math.Min(mn.X, p.X), math.Min(mn.Y, p.Y), math.Min(mn.Z, p.Z))
			mx = ref.XYZ(math.Max(mx.X, p.X), math.Max(mx.Y, p.Y), math.Max(mx.Z, p.Z))
			m.maxAbs = math.Max(m.maxAbs, p.Norm())
		}
	}
	m.extent = mx.Dist(mn)
	return m
}

func (s *meshRef) build() render3d.AreaLight {
	mesh := model3d.NewMesh()
	for _, t := range s.tris {
		mesh.Add(&model3d.Triangle{t[0].C(), t[1].C(), t[2].C()})
	}
	return render3d.NewMeshAreaLight(mesh, s.em)
}
func (s *meshRef) typ() string            { return "render3d.MeshAreaLight" }
func (s *meshRef) totalEmission() float64 { return sumC(s.em) * s.total }
func (s *meshRef) numBins() int           { return 4 * len(s.tris) }
func (s *meshRef) binProb(i int) float64  { return s.areas[i/4] / s.total / 4 }
func (s *meshRef) binName(i int) string {
	return fmt.Sprintf("triangle %d (area share %.4g), quarter %d of its midpoint subdivision", i/4, s.areas[i/4]/s.total, i%4)
}
func (s *meshRef) convex() bool  { return s.isConv }
func (s *meshRef) size() float64 { return s.extent }
func (s *meshRef) describe() map[string]interface{} {
	d := map[string]interface{}{"light": "mesh", "mesh_kind": s.kind, "triangles": len(s.tris), "emission": s.em, "area": s.total}
	if len(s.tris) <= 12 {
		var ts [][3][3]string
		for _, t := range s.tris {
			ts = append(ts, [3][3]string{t[0].Hex(), t[1].Hex(), t[2].Hex()})
		}
		d["faces"] = ts
	}
	return d
}
func (s *meshRef) classify(p, nrm ref.V, em C3) (int, string, string) {
	if em != s.em {
		return 0, "emission", fmt.Sprintf("returned emission %v, light emits %v", em, s.em)
	}
	tolD := 1e-9*s.extent + 1e-13*s.maxAbs
	onSome := -1
	for i, t := range s.tris {
		if s.areas[i] == 0 {
			continue
		}
		e1, e2 := t[1].Sub(t[0]), t[2].Sub(t[0])
		v := p.Sub(t[0])
		if math.Abs(v.Dot(s.norms[i])) > tolD {
			continue
		}
		d11, d12, d22 := e1.Dot(e1), e1.Dot(e2), e2.Dot(e2)
		b1, b2 := v.Dot(e1), v.Dot(e2)
		det := d11*d22 - d12*d12
		if det <= 0 {
			continue
		}
		u := (b1*d22 - b2*d12) / det
		w := (b2*d11 - b1*d12) / det
		const bt = 1e-9
		if u < -bt || w < -bt || u+w > 1+bt {
			continue
		}
		onSome = i
		if !normalClose(nrm, s.norms[i], 1e-6) {
			continue
		}
		q := 3 // centre
		switch {
		case u+w <= 0.5:
			q = 0
		case u >= 0.5:
			q = 1
		case w >= 0.5:
			q = 2
		}
		return 4*i + q, "", ""
	}
	if onSome >= 0 {
		return 0, "outward-normal", fmt.Sprintf("point lies on triangle %d whose right-hand normal is %v, returned normal is %v", onSome, s.norms[onSome], nrm)
	}
	return 0, "on-surface", fmt.Sprintf("point %v does not lie on any triangle of the mesh", p)
}

// ---------------------------------------------------------------------------
// joined

type joinedRef struct {
	subs []lightRef
}

func (s *joinedRef) build() render3d.AreaLight {
	var ls []render3d.AreaLight
	for _, x := range s.subs {
		ls = append(ls, x.build())
	}
	return render3d.JoinAreaLights(ls...)
}
func (s *joinedRef) typ() string { return "render3d.JoinAreaLights" }
func (s *joinedRef) totalEmission() float64 {
	var t float64
	for _, x := range s.subs {
		t += x.totalEmission()
	}
	return t
}
func (s *joinedRef) numBins() int {
	n := 0
	for _, x := range s.subs {
		n += x.numBins()
	}
	return n
}
func (s *joinedRef) locate(i int) (lightRef, int) {
	for _, x := range s.subs {
		if i < x.numBins() {
			return x, i
		}
		i -= x.numBins()
	}
	panic("bin out of range")
}
func (s *joinedRef) binProb(i int) float64 {
	x, j := s.locate(i)
	return x.totalEmission() / s.totalEmission() * x.binProb(j)
}
func (s *joinedRef) binName(i int) string {
	x, j := s.locate(i)
	return fmt.Sprintf("part %s (power share %.4g): %s", x.typ(), x.totalEmission()/s.totalEmission(), x.binName(j))
}
func (s *joinedRef) convex() bool { return false }
func (s *joinedRef) size() float64 {
	m := 0.0
	for _, x := range s.subs {
		m = math.Max(m, x.size())
	}
	return m
}
func (s *joinedRef) describe() map[string]interface{} {
	var ds []interface{}
	for _, x := range s.subs {
		ds = append(ds, x.describe())
	}
	return map[string]interface{}{"light": "joined", "parts": ds}
}
func (s *joinedRef) owns(em C3) bool {
	for _, x := range s.subs {
		if j, ok := x.(*joinedRef); ok {
			if j.owns(em) {
				return true
			}
			continue
		}
		if emissionOf(x) == em {
			return true
		}
	}
	return false
}
func emissionOf(x lightRef) C3 {
	switch l := x.(type) {
	case *sphereRef:
		return l.em
	case *cylRef:
		return l.em
	case *meshRef:
		return l.em
	}
	return C3{}
}
func (s *joinedRef) classify(p, nrm ref.V, em C3) (int, string, string) {
	off := 0
	for _, x := range s.subs {
		mine := false
		if j, ok := x.(*joinedRef); ok {
			mine = j.owns(em)
		} else {
			mine = emissionOf(x) == em
		}
		if mine {
			b, clause, msg := x.classify(p, nrm, em)
			if clause != "" {
				// keyed by the (innermost) part's own type
				if strings.Contains(clause, "|") {
					return 0, clause, msg
				}
				return 0, x.typ() + "|" + clause, msg
			}
			return off + b, "", ""
		}
		off += x.numBins()
	}
	return 0, "emission", fmt.Sprintf("returned emission %v belongs to none of the joined lights", em)
}

// ---------------------------------------------------------------------------
// generators

func randRotation(rng *rand.Rand) func(ref.V) ref.V {
	f := ref.NewFrame(randUnit(rng))
	if rng.Intn(5) == 0 {
		return func(v ref.V) ref.V { return v }
	}
	return func(v ref.V) ref.V { return f.X.Scale(v.X).Add(f.Y.Scale(v.Y)).Add(f.A.Scale(v.Z)) }
}

func lightEmission(rng *rand.Rand, idx int) C3 {
	c := randColor(rng, 4)
	c.X = float64(idx) + 0.25 + 0.5*rng.Float64() // distinct per part, never zero
	return c
}

func logUniform(rng *rand.Rand, lo, hi float64) float64 {
	return math.Exp(math.Log(lo) + rng.Float64()*(math.Log(hi)-math.Log(lo)))
}

func randSphereLight(rng *rand.Rand, idx int) *sphereRef {
	r := radiusChoices[rng.Intn(len(radiusChoices))]
	if rng.Intn(2) == 0 {
		r = logUniform(rng, 1e-2, 1e2)
	}
	return &sphereRef{center: randPoint(rng, r*10*rng.Float64()), radius: r, em: lightEmission(rng, idx), frame: ref.NewFrame(randUnit(rng))}
}

func randCylLight(rng *rand.Rand, idx int) *cylRef {
	r := radiusChoices[rng.Intn(len(radiusChoices))]
	if rng.Intn(2) == 0 {
		r = logUniform(rng, 1e-2, 1e2)
	}
	if rng.Intn(5) == 0 {
		r = 1
	}
	h := logUniform(rng, 1e-2, 1e2)
	var axis ref.V
	switch rng.Intn(4) {
	case 0:
		v := [3]float64{}
		v[rng.Intn(3)] = float64(1 - 2*rng.Intn(2))
		axis = ref.XYZ(v[0], v[1], v[2])
	default:
		axis = randUnit(rng)
	}
	p1 := randPoint(rng, math.Max(r, h)*5*rng.Float64())
	p2 := p1.Add(axis.Scale(h))
	c := &cylRef{p1: p1, p2: p2, radius: r, em: lightEmission(rng, idx)}
	d := p2.Sub(p1)
	c.h = d.Norm()
	c.frame = ref.NewFrame(d)
	return c
}

func randMeshLight(rng *rand.Rand, idx int) *meshRef {
	scale := logUniform(rng, 1e-2, 1e2)
	rot := randRotation(rng)
	shift := randPoint(rng, scale*5*rng.Float64())
	place := func(v ref.V) ref.V { return rot(v.Scale(scale)).Add(shift) }
	var tris [][3]ref.V
	kind := ""
	conv := false
	switch rng.Intn(5) {
	case 0: // box with anisotropic sides
		kind = "box"
		conv = true
		sx, sy, sz := logUniform(rng, 0.05, 1), logUniform(rng, 0.05, 1), logUniform(rng, 0.05, 1)
		c := func(i, j, k int) ref.V { return place(ref.XYZ(float64(i)*sx, float64(j)*sy, float64(k)*sz)) }
		quad := func(a, b, cc, d ref.V) { tris = append(tris, [3]ref.V{a, b, cc}, [3]ref.V{a, cc, d}) }
		quad(c(0, 0, 0), c(0, 1, 0), c(1, 1, 0), c(1, 0, 0))
		quad(c(0, 0, 1), c(1, 0, 1), c(1, 1, 1), c(0, 1, 1))
		quad(c(0, 0, 0), c(1, 0, 0), c(1, 0, 1), c(0, 0, 1))
		quad(c(0, 1, 0), c(0, 1, 1), c(1, 1, 1), c(1, 1, 0))
		quad(c(0, 0, 0), c(0, 0, 1), c(0, 1, 1), c(0, 1, 0))
		quad(c(1, 0, 0), c(1, 1, 0), c(1, 1, 1), c(1, 0, 1))
	case 1: // single triangle
		kind = "single"
		tris = append(tris, [3]ref.V{place(randPoint(rng, 1)), place(randPoint(rng, 1)), place(randPoint(rng, 1))})
	case 2: // octahedron with random vertex radii (star-shaped closed mesh)
		kind = "octahedron"
		ax := [6]ref.V{{X: 1}, {X: -1}, {Y: 1}, {Y: -1}, {Z: 1}, {Z: -1}}
		var vs [6]ref.V
		for i := range vs {
			vs[i] = place(ax[i].Scale(0.3 + rng.Float64()))
		}
		for _, f := range [8][3]int{{0, 2, 4}, {2, 1, 4}, {1, 3, 4}, {3, 0, 4}, {2, 0, 5}, {1, 2, 5}, {3, 1, 5}, {0, 3, 5}} {
			tris = append(tris, [3]ref.V{vs[f[0]], vs[f[1]], vs[f[2]]})
		}
	default: // triangle soup with very different areas
		kind = "soup"
		k := 2 + rng.Intn(30)
		for i := 0; i < k; i++ {
			c := randPoint(rng, 1)
			s := logUniform(rng, 0.01, 1)
			tris = append(tris, [3]ref.V{place(c.Add(randPoint(rng, s))), place(c.Add(randPoint(rng, s))), place(c.Add(randPoint(rng, s)))})
		}
		if rng.Intn(3) == 0 { // a zero-area face must never be sampled
			kind = "soup+degenerate"
			a, b := place(randPoint(rng, 1)), place(randPoint(rng, 1))
			tris = append(tris, [3]ref.V{a, b, a})
		}
	}
	return newMeshRef(tris, lightEmission(rng, idx), kind, conv)
}

func randLight(rng *rand.Rand, kind, depth int, idx *int) lightRef {
	*idx++
	switch kind {
	case 0:
		return randSphereLight(rng, *idx)
	case 1:
		return randCylLight(rng, *idx)
	case 2:
		return randMeshLight(rng, *idx)
	}
	j := &joinedRef{}
	k := 2 + rng.Intn(3)
	for i := 0; i < k; i++ {
		sk := rng.Intn(3)
		if depth == 0 && rng.Intn(6) == 0 {
			sk = 3
		}
		j.subs = append(j.subs, randLight(rng, sk, depth+1, idx))
	}
	return j
}

// ---------------------------------------------------------------------------

func lightSection(r *vlib.Run) {
	nSamples := r.N(100000, 1000000)
	r.Section("lights", r.N(640, 2400), vlib.SectionOpts{}, func(c *vlib.Case) {
		rng := c.Rng
		idx := 0
		kind := c.Index % 4
		lr := randLight(rng, kind, 0, &idx)
		if j, ok := lr.(*joinedRef); ok && rng.Intn(3) == 0 {
			// the parts emit different colours of exactly the same total (R+G+B): channel values in
			// eighths, so every sum is exact whatever the order of addition
			n := 0
			var recolour func(x lightRef)
			recolour = func(x lightRef) {
				if jj, ok := x.(*joinedRef); ok {
					for _, y := range jj.subs {
						recolour(y)
					}
					return
				}
				n++
				cx := float64(n) * 0.25
				cy := float64(rng.Intn(int((4-cx)*8)+1)) / 8
				em := C3{X: cx, Y: cy, Z: 4 - cx - cy}
				switch l := x.(type) {
				case *sphereRef:
					l.em = em
				case *cylRef:
					l.em = em
				case *meshRef:
					l.em = em
				}
			}
			recolour(j)
			if n <= 15 {
				c.Count("light.joined.cases_with_parts_of_equal_channel_sum", 1)
			}
		}
		light := lr.build()
		kname := []string{"sphere", "cylinder", "mesh", "joined"}[kind]
		c.Count("light."+kname+".cases", 1)
		wit := func(extra map[string]interface{}) map[string]interface{} {
			w := lr.describe()
			for k, v := range extra {
				w[k] = v
			}
			return w
		}
		// total emission
		want := lr.totalEmission()
		got := light.TotalEmission()
		c.Count("light.total_emission_checks", 1)
		if !(math.Abs(got-want) <= 1e-9*want) {
			c.Violation(lr.typ()+".TotalEmission/emission-times-area",
				fmt.Sprintf("TotalEmission() = %.12g, sum(emission)*area = %.12g", got, want), wit(map[string]interface{}{"got": got, "want": want}))
		}
		switch l := lr.(type) {
		case *sphereRef:
			if l.radius != 1 {
				c.Count("light.sphere.radius_not_one", 1)
			}
		case *cylRef:
			if l.radius != 1 {
				c.Count("light.cylinder.radius_not_one", 1)
			}
		}

		nb := lr.numBins()
		probs := make([]float64, nb)
		for i := range probs {
			probs[i] = lr.binProb(i)
		}
		stop := false
		draw := func(seed int64, cnt int, castChecks int) []int64 {
			gen := rand.New(rand.NewSource(seed))
			counts := make([]int64, nb)
			for i := 0; i < cnt; i++ {
				p0, n0, em := light.SampleLight(gen)
				p, nrm := ref.From(p0), ref.From(n0)
				if !p.Finite() || !nrm.Finite() || math.Abs(nrm.Norm2()-1) > 1e-9 {
					c.Violation(lr.typ()+".SampleLight/unit-normal", fmt.Sprintf("sampled point/normal not finite or normal not unit: %v %v", p, nrm),
						wit(map[string]interface{}{"point": p.Hex(), "normal": nrm.Hex(), "sample_index": i, "stream_seed": seed}))
					stop = true
					return counts
				}
				b, clause, msg := lr.classify(p, nrm, em)
				if clause != "" {
					typ := lr.typ()
					for k := 0; k < len(clause); k++ {
						if clause[k] == '|' {
							typ, clause = clause[:k], clause[k+1:]
							break
						}
					}
					c.Violation(typ+".SampleLight/"+clause, msg,
						wit(map[string]interface{}{"point": p.Hex(), "normal": nrm.Hex(), "sample_index": i, "stream_seed": seed}))
					stop = true
					return counts
				}
				counts[b]++
				if i < castChecks {
					// the point lies on the light's own Object: a ray fired at it along
					// -normal from just outside must hit at that distance
					delta := 0.05 * lr.size()
					ray := &model3d.Ray{Origin: p.Add(nrm.Scale(delta)).C(), Direction: nrm.Neg().C()}
					coll, _, ok := light.Cast(ray)
					c.Count("light.own_object_casts", 1)
					tol := 1e-6 * (delta + p.Norm())
					if !ok || coll.Scale > delta+tol || (lr.convex() && coll.Scale < delta-tol) {
						c.Violation(lr.typ()+".SampleLight/on-own-object",
							fmt.Sprintf("a ray fired at the sampled point along -normal from distance %.6g reports hit=%v at %.9g", delta, ok, coll.Scale),
							wit(map[string]interface{}{"point": p.Hex(), "normal": nrm.Hex(), "sample_index": i, "stream_seed": seed}))
						stop = true
						return counts
					}
				}
			}
			return counts
		}
		seed1 := c.SubSeed*4 + 1
		counts := draw(seed1, nSamples, 200)
		c.Count("light."+kname+".samples", int64(nSamples))
		if stop {
			return
		}
		c.Count("light."+kname+".histograms", 1)
		c.Count("light.bins_tested", int64(nb))
		v := ref.TestBins(counts, probs, int64(nSamples), 1e-9, 1e-12, alphaFamily, nb)
		c.Max("light.most_extreme_minus_logp", -v.WorstLogP)
		c.Nontrivial(fmt.Sprint(lr.describe()))
		if c.Index < 8 {
			c.Sample("light-case", 4, lr.describe())
		}
		if !v.Fail {
			return
		}
		c.Count("light.retests", 1)
		seed2 := c.SubSeed*4 + 2
		counts2 := draw(seed2, 8*nSamples, 0)
		if stop {
			return
		}
		v2 := ref.TestBins(counts2, probs, int64(8*nSamples), 1e-9, 1e-12, alphaFamily, nb)
		if !v2.Fail {
			c.Count("light.retest_passed", 1)
			return
		}
		typ := lr.typ()
		name := lr.binName(v2.Worst)
		c.Violation(typ+".SampleLight/uniform-by-power",
			fmt.Sprintf("%s: sampled with frequency %.6g (n=%d), its share of the emitted power is %.6g; Chernoff ln p <= %.1f (threshold %.1f)",
				name, float64(counts2[v2.Worst])/float64(8*nSamples), 8*nSamples, probs[v2.Worst], v2.WorstLogP, v2.Threshold),
			wit(map[string]interface{}{"bin": name, "expected_probability": probs[v2.Worst],
				"observed_first": fmt.Sprintf("%d of %d", counts[v2.Worst], nSamples), "observed_retest": fmt.Sprintf("%d of %d", counts2[v2.Worst], 8*nSamples),
				"stream_seeds": []int64{seed1, seed2}}))
	})
}
