// C19 — Materials and lights sample what their densities say.
// Reference-model monitor: the harness derives lobe axes, supports, Schlick
// and Snell, light surfaces and areas from the definitions, integrates the
// library's densities/BSDFs by lobe-adapted quadrature and compares sampler
// histograms with the densities' own bin masses (DESIGN.md C19).
package main

import (
	"os"
	"strings"

	"verif/vlib"
)

func main() {
	r := vlib.Start("C19", "exploration")
	r.ScaleQuick(3) // quick tier: 3x the case counts written at the sections (still well under a minute)
	r.Rule("seeded materials (Lambert; Phong alpha 0..1e4 with/without diffuse term and flux correction; Henyey-Greenstein g in (-1,1) incl. |g|<1e-5 and 0.99999; refraction index 0.5..2.5 with/without Fresnel colour; nested JoinedMaterial mixtures with dyadic probabilities) x normals (random, axis aligned, tied components) x fixed directions (normal incidence, grazing 1e-3/1e-5, below the surface, generic) x {source sampling, destination sampling via package functions}; focus points (sphere radius 1e-2..1e2 at distance 1.0001..1000 radii, Phong alpha 0..1e4, fall-back paths); area lights (sphere, cylinder, mesh, joined, nested joined; sizes 1e-2..1e2, arbitrary placement/axis). A case is non-trivial when its sampler and density were both exercised; distinct by material/light description")
	r.Assume("directions handed to the library are unit vectors up to rounding; JoinedMaterial probabilities are multiples of 1/64 with exact sum 1; colours are chosen so that reflectances sum to <= 1 per channel")
	r.Assume("the harness knows where lobes and cut-offs should be (own mirror/Snell code); quadrature nodes adapt to those, the integrand is always the library's")
	r.Assume("statistical verdicts: Chernoff bound with Bonferroni over all bins and both tails, family-wise false-alarm probability <= 1e-9 per case, confirmed once with 8x samples and a fresh stream")
	r.Assume("for an HGMaterial with IgnoreNormals=false the energy integral is the renderer's (over source, weighted by the source cosine the material cancels)")

	// C19_ONLY=name,name runs a subset of the sections (diagnosis only; the
	// run is then inconclusive because required counters stay empty).
	only := os.Getenv("C19_ONLY")
	want := func(name string) bool { return only == "" || strings.Contains(","+only+",", ","+name+",") }
	if want("selftest") {
		selfTest(r)
	}
	if want("materials") {
		materialSections(r)
	}
	if want("fresnel") {
		fresnelSection(r)
	}
	if want("focus") {
		focusSection(r)
	}
	if want("lights") {
		lightSection(r)
	}

	for _, k := range []string{"lambert", "phong", "hg", "refract", "joined"} {
		r.Require("mat."+k+".source.density_integrals", 5)
		r.Require("mat."+k+".dest.density_integrals", 5)
		r.Require("energy."+k, 10)
	}
	r.Require("fresnel.source_density_points", 500)
	r.Require("fresnel.bsdf_points", 500)
	r.Require("fresnel.total_internal_reflection", 20)
	r.Require("fresnel.dest_density_points", 500)
	r.Require("fresnel.frequency_tests", 50)
	r.Require("fresnel.direction_samples", 100000)
	r.Require("fresnel.tir_sampled", 10)
	r.Require("fresnel.sweeps", 20)
	r.Require("fresnel.ior_below_1", 5)
	r.Require("fresnel.ior_above_1", 5)
	r.Require("focus.sphere.focused_cases", 10)
	r.Require("focus.phong.focused_cases", 5)
	r.Require("focus.fallback_cases", 5)
	r.Require("focus.sphere.radius_not_one", 5)
	r.Require("energy.nonzero", 100)
	r.Require("histogram.bins_tested", 10000)
	r.Require("light.bins_tested", 10000)
	r.Require("light.own_object_casts", 1000)
	r.Require("light.sphere.histograms", 20)
	r.Require("light.mesh.histograms", 20)
	r.Require("light.total_emission_checks", 100)
	r.Require("light.sphere.cases", 20)
	r.Require("light.cylinder.cases", 20)
	r.Require("light.mesh.cases", 20)
	r.Require("light.joined.cases", 20)
	r.Require("light.sphere.radius_not_one", 5)
	r.Require("light.cylinder.radius_not_one", 5)
	r.Finish()
}
