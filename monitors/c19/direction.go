package main

import (
	"fmt"
	"math"
	"math/rand"

	"verif/vlib"
	ref "verif/vlib/c19ref"
)

// dirCase is one "density over directions + sampler" pair under test.
type dirCase struct {
	typ        string // e.g. "render3d.PhongMaterial"
	sampleAPI  string // e.g. "SampleSource"
	densityAPI string // e.g. "SourceDensity"
	sample     func(gen *rand.Rand) ref.V
	density    func(w ref.V) float64
	info       lobeInfo
	hasDelta   bool
	witness    map[string]interface{}
	tag        string // counter prefix
}

const (
	integralTol = 1e-3
	binRelTol   = 1e-3
	binAbsTol   = 2e-6
	alphaFamily = 1e-9
	// directions are unit only up to rounding, so (1-|cos|)^5 style terms may
	// come out as -1e-70; such values are treated as zero
	negTol = 1e-9
)

type binLabel struct {
	region int
	kind   string // cell, polar, azimuth, region
	a, b   int
}

// checkDirectional decides the three clauses for one case:
// density integrates to one (quadrature), samples are unit vectors in the
// support, sampler histogram matches the density's bin masses.
func checkDirectional(c *vlib.Case, dc *dirCase, n int) {
	if dc.info.undecided != "" {
		c.Undecided(dc.info.undecided)
		return
	}
	part := ref.NewPartition(dc.info.lobes, dc.info.cuts)
	if dc.hasDelta && part.MinAxisSeparation() < 2e-3 {
		c.Undecided("delta-lobe-near-another-axis")
		return
	}
	wit := func(extra map[string]interface{}) map[string]interface{} {
		w := map[string]interface{}{}
		for k, v := range dc.witness {
			w[k] = v
		}
		var axes [][3]string
		for _, r := range part.Regions {
			axes = append(axes, r.Frame.A.Hex())
		}
		w["harness_lobe_axes"] = axes
		for k, v := range extra {
			w[k] = v
		}
		return w
	}

	// ---- clause 1: density integrates to one
	bad := false
	masses, total, evals := part.Masses(func(w ref.V) float64 {
		d := dc.density(w)
		if math.IsNaN(d) || math.IsInf(d, 0) || d < -negTol {
			bad = true
			return 0
		}
		return d
	})
	c.Count(dc.tag+".density_integrals", 1)
	c.Count("quadrature.density_evaluations", int64(evals))
	keyD := dc.typ + "." + dc.densityAPI
	if bad {
		c.Violation(keyD+"/finite-nonnegative", "density is NaN, infinite or negative at a quadrature node", wit(nil))
		return
	}
	c.Max("integral.worst_abs_deviation."+dc.tag, math.Abs(total-1))
	if math.Abs(total-1) > integralTol {
		c.Violation(keyD+"/integrates-to-one",
			fmt.Sprintf("(1/4pi) * integral of the density over the sphere = %.6f, want 1 +- %g", total, integralTol),
			wit(map[string]interface{}{"integral": total, "evaluations": evals}))
		return
	}

	// ---- clause 2+3: sampler
	// flatten the bins: cells, polar marginals, azimuth marginals, region totals
	var labels []binLabel
	var probs []float64
	type regIdx struct {
		cell   [][]int
		polar  []int
		azim   []int
		region int
	}
	idx := make([]regIdx, len(part.Regions))
	addBin := func(l binLabel, p float64) int {
		labels = append(labels, l)
		probs = append(probs, p)
		return len(probs) - 1
	}
	for ri, r := range part.Regions {
		nt, np := r.NumTBins(), r.NPhi
		ix := regIdx{cell: make([][]int, nt), polar: make([]int, nt), azim: make([]int, np)}
		var rtot float64
		az := make([]float64, np)
		for a := 0; a < nt; a++ {
			ix.cell[a] = make([]int, np)
			var pt float64
			for b := 0; b < np; b++ {
				m := masses[ri][a][b]
				ix.cell[a][b] = addBin(binLabel{ri, "cell", a, b}, m)
				pt += m
				az[b] += m
			}
			ix.polar[a] = addBin(binLabel{ri, "polar", a, -1}, pt)
			rtot += pt
		}
		for b := 0; b < np; b++ {
			ix.azim[b] = addBin(binLabel{ri, "azimuth", -1, b}, az[b])
		}
		ix.region = addBin(binLabel{ri, "region", -1, -1}, rtot)
		idx[ri] = ix
	}

	keyS := dc.typ + "." + dc.sampleAPI
	stop := false
	draw := func(seed int64, count int, first bool) []int64 {
		gen := rand.New(rand.NewSource(seed))
		counts := make([]int64, len(probs))
		for i := 0; i < count; i++ {
			w := dc.sample(gen)
			if !w.Finite() || math.Abs(w.Norm2()-1) > 1e-9 {
				c.Violation(keyS+"/unit-vector",
					fmt.Sprintf("sampled direction is not a unit vector: |w|^2-1 = %g", w.Norm2()-1),
					wit(map[string]interface{}{"sample": w.Hex(), "sample_index": i, "stream_seed": seed}))
				stop = true
				return counts
			}
			ri := part.Nearest(w)
			a, b := part.Regions[ri].Bin(w)
			ix := &idx[ri]
			counts[ix.cell[a][b]]++
			counts[ix.polar[a]]++
			counts[ix.azim[b]]++
			counts[ix.region]++
			if first {
				d := dc.density(w)
				if !(d > 0) {
					// margin: within 1e-9 of a cut the zero may be a rounding artefact
					near := false
					for _, cut := range dc.info.cuts {
						if math.Abs(w.Dot(cut.B)-cut.C) < 1e-9*math.Max(1, cut.B.Norm()) {
							near = true
						}
					}
					if near {
						c.Undecided("zero-density-sample-on-support-border")
					} else {
						c.Violation(keyS+"/sample-in-support",
							fmt.Sprintf("sampler returned a direction whose reported density is %g", d),
							wit(map[string]interface{}{"sample": w.Hex(), "density": d, "sample_index": i, "stream_seed": seed}))
						stop = true
						return counts
					}
				}
			}
		}
		return counts
	}
	seed1 := c.SubSeed*4 + 1
	counts := draw(seed1, n, true)
	c.Count(dc.tag+".samples", int64(n))
	if stop {
		return
	}
	c.Count(dc.tag+".histograms", 1)
	c.Count("histogram.bins_tested", int64(len(probs)))
	v := ref.TestBins(counts, probs, int64(n), binRelTol, binAbsTol, alphaFamily, len(probs))
	c.Max("histogram.most_extreme_minus_logp."+dc.tag, -v.WorstLogP)
	if !v.Fail {
		return
	}
	// DESIGN 0.5: repeat once with 8x the samples and a fresh stream
	c.Count("histogram.retests", 1)
	seed2 := c.SubSeed*4 + 2
	counts2 := draw(seed2, 8*n, false)
	if stop {
		return
	}
	v2 := ref.TestBins(counts2, probs, int64(8*n), binRelTol, binAbsTol, alphaFamily, len(probs))
	if !v2.Fail {
		c.Count("histogram.retest_passed", 1)
		return
	}
	l := labels[v2.Worst]
	r := part.Regions[l.region]
	desc := map[string]interface{}{
		"bin_kind": l.kind, "region_axis": r.Frame.A.Hex(),
		"expected_probability": probs[v2.Worst],
		"observed_first":       fmt.Sprintf("%d of %d (bin %d)", counts[v2.Worst], n, v2.Worst),
		"observed_retest":      fmt.Sprintf("%d of %d", counts2[v2.Worst], 8*n),
		"ln_p_bound_retest":    v2.WorstLogP, "ln_p_threshold": v2.Threshold,
		"ln_p_bound_first": v.WorstLogP, "first_worst_bin": v.Worst,
		"stream_seeds": []int64{seed1, seed2},
	}
	if l.a >= 0 {
		desc["t_range_1_minus_cos"] = []float64{r.TEdges[l.a], r.TEdges[l.a+1]}
	}
	if l.b >= 0 {
		desc["phi_bin"] = fmt.Sprintf("%d of %d", l.b, r.NPhi)
	}
	c.Violation(keyS+"/matches-density",
		fmt.Sprintf("sampler frequency in a %s bin is %.6g (retest, n=%d) but the density's mass there is %.6g; Chernoff ln p <= %.1f (threshold %.1f)",
			l.kind, float64(counts2[v2.Worst])/float64(8*n), 8*n, probs[v2.Worst], v2.WorstLogP, v2.Threshold),
		wit(desc))
}
