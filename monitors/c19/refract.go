package main

import (
	"fmt"
	"math"
	"math/rand"

	"github.com/unixpickle/model3d/render3d"
	"verif/vlib"
	ref "verif/vlib/c19ref"
)

// fresnelSection checks RefractMaterial against the harness's own Schlick and
// Snell: lobe shares read off the density plateaus, off the BSDF plateaus and
// off sampling frequencies; lobe directions.
func fresnelSection(r *vlib.Run) {
	nSamples := r.N(200000, 2000000)
	r.Section("fresnel", r.N(320, 1000), vlib.SectionOpts{}, func(c *vlib.Case) {
		rng := c.Rng
		m := randMat(rng, "refract", 1, 0)
		withSpec := c.Index%4 != 3
		if withSpec && (m.Specular == C3{}) {
			m.Specular = C3{X: 1, Y: 1, Z: 1}
		}
		if !withSpec {
			m.Specular = C3{}
		}
		lib := m.lib().(*render3d.RefractMaterial)
		n := randNormal(rng)
		fr := ref.NewFrame(n)
		phi := rng.Float64() * 2 * math.Pi
		side := float64(1 - 2*rng.Intn(2)) // fixed direction on the front or the back side
		const eps = ref.DeltaEps
		typ := "render3d.RefractMaterial"
		if m.IOR < 1 {
			c.Count("fresnel.ior_below_1", 1)
		} else if m.IOR > 1 {
			c.Count("fresnel.ior_above_1", 1)
		}

		// cosines of the sweep: normal incidence ... grazing
		var coss []float64
		const K = 40
		for k := 0; k <= K; k++ {
			coss = append(coss, math.Cos(float64(k)/K*math.Pi/2*0.9999))
		}
		coss = append(coss, 1e-3, 1e-4)
		specChan := func(col C3) (float64, float64) { // first non-zero specular channel
			switch {
			case m.Specular.X != 0:
				return col.X, m.Specular.X
			case m.Specular.Y != 0:
				return col.Y, m.Specular.Y
			}
			return col.Z, m.Specular.Z
		}
		base := map[string]interface{}{"material": m, "normal": n.Hex(), "side": side}
		wit := func(extra map[string]interface{}) map[string]interface{} {
			w := map[string]interface{}{}
			for k, v := range base {
				w[k] = v
			}
			for k, v := range extra {
				w[k] = v
			}
			return w
		}

		prevShare := math.Inf(-1)
		var sweep []float64
		for ci, cosv := range coss {
			fixed := fr.At(1-cosv, phi)
			if side < 0 {
				fixed = ref.Mirror(n, fixed) // same angle, other side
			}
			if ci == 0 {
				fixed = n.Scale(side)
			}
			cosFixed := math.Abs(n.Dot(fixed))
			want := ref.Schlick(m.IOR, cosFixed)

			// --- source mode: fixed is dest
			mir := ref.Mirror(n, fixed)
			t0, tir, margin := ref.Snell(n, fixed.Neg(), m.IOR)
			tr := t0.Neg()
			if margin < 1e-6 {
				c.Undecided("fresnel.critical-angle-margin")
			} else if !tir && mir.Dist(tr) < 2e-3 {
				c.Undecided("fresnel.lobes-overlap")
			} else {
				dm := lib.SourceDensity(n.C(), mir.C(), fixed.C()) * eps / 2
				dt := lib.SourceDensity(n.C(), tr.C(), fixed.C()) * eps / 2
				c.Count("fresnel.source_density_points", 1)
				w := wit(map[string]interface{}{"dest": fixed.Hex(), "cos_incidence": cosFixed, "harness_mirror": mir.Hex(), "harness_refracted": tr.Hex(), "tir": tir})
				switch {
				case tir:
					c.Count("fresnel.total_internal_reflection", 1)
					if math.Abs(dm-1) > 1e-9 {
						c.Violation(typ+".SourceDensity/total-internal-reflection",
							fmt.Sprintf("beyond the critical angle the whole mass must sit in the mirrored lobe; plateau mass there is %g", dm), w)
					}
				case withSpec:
					if math.Abs(dm-want) > 1e-9 || math.Abs(dt-(1-want)) > 1e-9 {
						w["mirror_share"], w["refracted_share"], w["schlick"] = dm, dt, want
						c.Violation(typ+".SourceDensity/fresnel-schlick",
							fmt.Sprintf("mirror-lobe mass of the density = %.9g, refracted = %.9g; Schlick reflectance R0+(1-R0)(1-cos)^5 = %.9g (cos=%.6g, ior=%g)", dm, dt, want, cosFixed, m.IOR), w)
					}
					if ci <= K {
						sweep = append(sweep, dm)
						if dm < prevShare-1e-12 {
							c.Violation(typ+".SourceDensity/fresnel-rises-to-total-reflection",
								fmt.Sprintf("mirror share decreases with the angle of incidence: %.9g after %.9g", dm, prevShare), w)
						}
						prevShare = dm
					}
					if ci == 0 {
						r0 := ref.Schlick(m.IOR, 1)
						if math.Abs(dm-r0) > 1e-12 {
							w["mirror_share"], w["r0"] = dm, r0
							c.Violation(typ+".SourceDensity/fresnel-rises-to-total-reflection",
								fmt.Sprintf("mirror share at normal incidence = %.9g, want R0 = ((n-1)/(n+1))^2 = %.9g", dm, r0), w)
						}
					}
					if cosv == 1e-4 && dm < 0.999 {
						w["mirror_share"] = dm
						c.Violation(typ+".SourceDensity/fresnel-rises-to-total-reflection",
							fmt.Sprintf("mirror share at grazing incidence (cos=1e-4) = %.9g, want -> 1", dm), w)
					}
				default:
					if math.Abs(dt-1) > 1e-9 {
						c.Violation(typ+".SourceDensity/refracted-lobe-mass", fmt.Sprintf("without Fresnel reflection the refracted lobe must carry all mass; got %g", dt), w)
					}
				}
			}

			// --- dest mode and BSDF: fixed is source
			mirD := ref.Mirror(n, fixed)
			trD, tirD, marginD := ref.Snell(n, fixed, m.IOR)
			if marginD < 1e-6 || (!tirD && mirD.Dist(trD) < 2e-3) {
				c.Undecided("fresnel.dest-margin")
				continue
			}
			w := wit(map[string]interface{}{"source": fixed.Hex(), "cos_incidence": cosFixed, "harness_mirror": mirD.Hex(), "harness_refracted": trD.Hex(), "tir": tirD})
			dm := lib.DestDensity(n.C(), fixed.C(), mirD.C()) * eps / 2
			dt := lib.DestDensity(n.C(), fixed.C(), trD.C()) * eps / 2
			c.Count("fresnel.dest_density_points", 1)
			bm := lib.BSDF(n.C(), fixed.C(), mirD.C())
			bt := lib.BSDF(n.C(), fixed.C(), trD.C())
			c.Count("fresnel.bsdf_points", 1)
			cosT := math.Abs(trD.Dot(n))
			if tirD {
				if math.Abs(dm-1) > 1e-9 {
					c.Violation(typ+".DestDensity/total-internal-reflection", fmt.Sprintf("beyond the critical angle the mirrored lobe must carry all mass; got %g", dm), w)
				}
				continue
			}
			if withSpec {
				if math.Abs(dm-want) > 1e-9 || math.Abs(dt-(1-want)) > 1e-9 {
					w["mirror_share"], w["refracted_share"], w["schlick"] = dm, dt, want
					c.Violation(typ+".DestDensity/fresnel-schlick",
						fmt.Sprintf("mirror-lobe mass of the density = %.9g, refracted = %.9g; Schlick = %.9g (cos=%.6g, ior=%g)", dm, dt, want, cosFixed, m.IOR), w)
				}
				// energy share of the mirror lobe: plateau * |cos dest| * (eps/2) / specular
				// (point value at the lobe axis; the cosine varies over the cap by
				// 1.4e-4/cos, second order in the integral, hence cos >= 0.01 and 1e-3)
				bv, sv := specChan(bm)
				em := bv * cosFixed * eps / 2 / sv
				if cosFixed >= 0.01 && math.Abs(em-want) > 1e-3 {
					w["mirror_energy_share"], w["schlick"] = em, want
					c.Violation(typ+".BSDF/fresnel-schlick",
						fmt.Sprintf("energy share of the mirror lobe (BSDF plateau*cos*eps/2 / SpecularColor) = %.9g; Schlick = %.9g (cos=%.6g, ior=%g)", em, want, cosFixed, m.IOR), w)
				}
				if cosT >= 0.01 {
					et := bt.Sum() * cosT * eps / 2
					wantT := (1 - want) * m.Refract.Sum()
					if math.Abs(et-wantT) > 1e-3*math.Max(1, wantT) {
						w["refracted_energy"], w["want"] = et, wantT
						c.Violation(typ+".BSDF/fresnel-schlick",
							fmt.Sprintf("energy of the refracted lobe = %.9g; (1-Schlick)*RefractColor = %.9g", et, wantT), w)
					}
				}
			}
		}
		if len(sweep) > 1 {
			c.Count("fresnel.sweeps", 1)
			c.Max("fresnel.max_mirror_share_seen", sweep[len(sweep)-1])
			if c.Index < 8 {
				c.Sample("fresnel-sweep", 2, map[string]interface{}{"ior": m.IOR, "mirror_share_normal_to_grazing": sweep})
			}
		}

		// --- sampling frequencies and lobe directions at a few angles
		for rep := 0; rep < 3; rep++ {
			var cosv float64
			switch rng.Intn(4) {
			case 0:
				cosv = 1
			case 1:
				cosv = 0.02 + 0.1*rng.Float64()
			default:
				cosv = rng.Float64()
			}
			if rep == 2 {
				// just inside the critical angle (sine of the refracted direction 1-1e-7..1-1e-9): the
				// refracted lobe is almost tangent to the surface but still carries 1-R of the samples
				eta := math.Max(m.IOR, 1/m.IOR)
				if !(eta > 1.0001) {
					continue
				}
				sinI := (1 - math.Pow(10, -7-2*rng.Float64())) / eta
				cosv = math.Sqrt(1 - sinI*sinI)
				c.Count("fresnel.near_critical_angle_cases", 1)
			}
			fixed := fr.At(1-cosv, rng.Float64()*2*math.Pi)
			if side < 0 {
				fixed = ref.Mirror(n, fixed)
			}
			cosFixed := math.Abs(n.Dot(fixed))
			want := ref.Schlick(m.IOR, cosFixed)
			for mode := 0; mode < 2; mode++ {
				var mir, tr ref.V
				var tir bool
				var margin float64
				var api string
				var draw func(gen *rand.Rand) ref.V
				mir = ref.Mirror(n, fixed)
				if mode == 0 {
					var t0 ref.V
					t0, tir, margin = ref.Snell(n, fixed.Neg(), m.IOR)
					tr = t0.Neg()
					api = "SampleSource"
					draw = func(gen *rand.Rand) ref.V { return ref.From(lib.SampleSource(gen, n.C(), fixed.C())) }
				} else {
					tr, tir, margin = ref.Snell(n, fixed, m.IOR)
					api = "SampleDest"
					draw = func(gen *rand.Rand) ref.V { return ref.From(lib.SampleDest(gen, n.C(), fixed.C())) }
				}
				if margin < 1e-10 || (!tir && mir.Dist(tr) < 2e-3) {
					c.Undecided("fresnel.sampling-margin")
					continue
				}
				if rep == 2 && !tir {
					c.Count("fresnel.near_critical_angle_sampling_tests", 1)
				}
				w := wit(map[string]interface{}{"fixed": fixed.Hex(), "api": api, "cos_incidence": cosFixed, "harness_mirror": mir.Hex(), "harness_refracted": tr.Hex(), "tir": tir, "schlick": want})
				run := func(seed int64, cnt int) (nm, nt int64, ok bool) {
					gen := rand.New(rand.NewSource(seed))
					for i := 0; i < cnt; i++ {
						v := draw(gen)
						switch {
						case v.Dist(mir) < 1e-9:
							nm++
						case v.Dist(tr) < 1e-9:
							nt++
						default:
							w["sample"] = v.Hex()
							c.Violation(typ+"."+api+"/snell-direction",
								fmt.Sprintf("sampled direction is neither the mirrored nor the Snell-refracted direction (distance %.3g and %.3g)", v.Dist(mir), v.Dist(tr)), w)
							return 0, 0, false
						}
					}
					return nm, nt, true
				}
				cnt := nSamples / 4
				if !withSpec || tir {
					cnt = 2000
				}
				seed := c.SubSeed*16 + int64(rep*2+mode)
				nm, nt, ok := run(seed, cnt)
				c.Count("fresnel.direction_samples", int64(cnt))
				if !ok {
					continue
				}
				if tir {
					c.Count("fresnel.tir_sampled", 1)
					continue // mir == tr: every sample matched the mirrored direction
				}
				if !withSpec {
					if nm != 0 {
						c.Violation(typ+"."+api+"/snell-direction", "material without Fresnel reflection sampled the mirrored direction", w)
					}
					continue
				}
				c.Count("fresnel.frequency_tests", 1)
				lp := ref.ChernoffLogP(int64(cnt), nm, want-1e-9, want+1e-9)
				thr := math.Log(alphaFamily / 2)
				if lp < thr {
					c.Count("fresnel.retests", 1)
					nm2, _, ok2 := run(seed+1000003, 8*cnt)
					if !ok2 {
						continue
					}
					lp2 := ref.ChernoffLogP(int64(8*cnt), nm2, want-1e-9, want+1e-9)
					if lp2 < thr {
						w["mirror_first"] = fmt.Sprintf("%d of %d", nm, cnt)
						w["mirror_retest"] = fmt.Sprintf("%d of %d", nm2, 8*cnt)
						w["refracted_first"] = nt
						c.Violation(typ+"."+api+"/fresnel-schlick",
							fmt.Sprintf("mirrored direction sampled with frequency %.6g (n=%d); Schlick reflectance = %.6g (cos=%.6g, ior=%g); Chernoff ln p <= %.1f", float64(nm2)/float64(8*cnt), 8*cnt, want, cosFixed, m.IOR, lp2), w)
					}
				}
			}
		}
		c.Nontrivial(fmt.Sprintf("fresnel %g %v %v", m.IOR, withSpec, side))
	})
}
