package main

import (
	"fmt"
	"math"
	"math/rand"

	"github.com/unixpickle/model3d/render3d"
	"verif/vlib"
	ref "verif/vlib/c19ref"
)

func randPoint(rng *rand.Rand, scale float64) ref.V {
	return ref.XYZ(rng.NormFloat64()*scale, rng.NormFloat64()*scale, rng.NormFloat64()*scale)
}

var radiusChoices = []float64{1e-2, 0.1, 0.5, 1, 3, 10, 100}

func focusSection(r *vlib.Run) {
	nSamples := r.N(200000, 2000000)
	r.Section("focus", r.N(300, 900), vlib.SectionOpts{}, func(c *vlib.Case) {
		rng := c.Rng
		// the surface material at the shaded point (used only by the fallback path)
		mk := []string{"lambert", "phong"}[rng.Intn(2)]
		m := randMat(rng, mk, 1, 0)
		lib := m.lib()
		n := randNormal(rng)
		dest, fk := randFixed(rng, n)
		kind := c.Index % 6
		switch {
		case kind <= 2: // sphere focus, focusing
			rad := radiusChoices[rng.Intn(len(radiusChoices))]
			if rng.Intn(3) == 0 {
				rad = math.Exp(math.Log(1e-2) + rng.Float64()*math.Log(1e4))
			}
			center := randPoint(rng, rad*3)
			// up to 1e5 radii away: a small lamp across a large scene subtends a cone of 1e-5 rad
			rel := []float64{1e-4, 1e-2, 0.1, 0.5, 1, 3, 10, 100, 999, 3e3, 1e4, 1e5}[rng.Intn(12)]
			if rng.Intn(3) == 0 {
				rel = math.Exp(math.Log(1e-4) + rng.Float64()*math.Log(1e7))
			}
			dist := rad * (1 + rel)
			dir := randUnit(rng)
			point := center.Add(dir.Scale(dist))
			// recompute the direction and distance the way a user would see them
			axis := point.Sub(center)
			d := axis.Norm()
			axis = axis.Unit()
			x := (rad / d) * (rad / d)
			tmax := x / (1 + math.Sqrt(1-x))
			if d <= rad*(1+1e-9) {
				c.Undecided("focus.point-on-sphere")
				return
			}
			f := &render3d.SphereFocusPoint{Center: center.C(), Radius: rad}
			if rng.Intn(3) == 0 {
				f.MaterialFilter = func(render3d.Material) bool { return true }
			}
			wit := map[string]interface{}{"focus": "SphereFocusPoint", "center": center.Hex(), "radius": rad, "point": point.Hex(),
				"distance_over_radius": d / rad, "normal": n.Hex(), "dest": dest.Hex(), "harness_cone_1_minus_cos": tmax}
			hitFail := false
			dc := &dirCase{
				typ: "render3d.SphereFocusPoint", sampleAPI: "SampleFocus", densityAPI: "FocusDensity", tag: "focus.sphere",
				sample: func(gen *rand.Rand) ref.V {
					w := ref.From(f.SampleFocus(gen, lib, point.C(), n.C(), dest.C()))
					// the ray leaving point against the source direction must hit the sphere
					if !hitFail && center.Sub(point).Cross(w).Norm() > rad*(1+1e-7) {
						hitFail = true
						wit["sample"] = w.Hex()
						c.Violation("render3d.SphereFocusPoint.SampleFocus/ray-hits-sphere",
							fmt.Sprintf("the ray from the point against the sampled source direction misses the sphere: distance of the line from the centre is %.9g radii", center.Sub(point).Cross(w).Norm()/rad), wit)
					}
					return w
				},
				density: func(w ref.V) float64 { return f.FocusDensity(lib, point.C(), n.C(), w.C(), dest.C()) },
				info: lobeInfo{
					lobes: []ref.Lobe{{Axis: axis, TEdges: ref.ConeEdges(tmax, nTBins), NPhi: nPhiBins, Name: "cone"}},
					cuts:  []ref.Cut{{B: axis, C: 1 - tmax}},
				},
				witness: wit,
			}
			checkDirectional(c, dc, nSamples)
			c.Count("focus.sphere.focused_cases", 1)
			if d/rad > 7e3 {
				c.Count("focus.sphere.cone_below_1e-8_in_1_minus_cos", 1)
			}
			if rad != 1 {
				c.Count("focus.sphere.radius_not_one", 1)
			}
			c.Nontrivial(fmt.Sprintf("sfp %g %g", rad, rel))
		case kind == 3: // phong focus
			alpha := alphaChoices[rng.Intn(len(alphaChoices))]
			target := randPoint(rng, 5)
			point := target.Add(randUnit(rng).Scale(math.Exp(rng.NormFloat64() * 2)))
			axis := point.Sub(target).Unit()
			f := &render3d.PhongFocusPoint{Target: target.C(), Alpha: alpha}
			wit := map[string]interface{}{"focus": "PhongFocusPoint", "target": target.Hex(), "alpha": alpha, "point": point.Hex(), "normal": n.Hex(), "dest": dest.Hex()}
			dc := &dirCase{
				typ: "render3d.PhongFocusPoint", sampleAPI: "SampleFocus", densityAPI: "FocusDensity", tag: "focus.phong",
				sample:  func(gen *rand.Rand) ref.V { return ref.From(f.SampleFocus(gen, lib, point.C(), n.C(), dest.C())) },
				density: func(w ref.V) float64 { return f.FocusDensity(lib, point.C(), n.C(), w.C(), dest.C()) },
				info: lobeInfo{
					lobes: []ref.Lobe{{Axis: axis, TEdges: ref.PowerCosEdges(alpha, nTBins), NPhi: nPhiBins, Name: "phong-focus"}},
					cuts:  []ref.Cut{ref.Plane(axis)},
				},
				witness: wit,
			}
			checkDirectional(c, dc, nSamples)
			c.Count("focus.phong.focused_cases", 1)
			c.Nontrivial(fmt.Sprintf("pfp %g", alpha))
		default: // fall-back paths: the focus point must behave as a density/sampler pair too
			var fp render3d.FocusPoint
			var why string
			point := randPoint(rng, 3)
			switch rng.Intn(4) {
			case 0:
				rad := radiusChoices[rng.Intn(len(radiusChoices))]
				center := point.Add(randUnit(rng).Scale(rad * rng.Float64() * 0.99))
				fp = &render3d.SphereFocusPoint{Center: center.C(), Radius: rad}
				why = "sphere: point inside the sphere"
			case 1:
				fp = &render3d.SphereFocusPoint{Center: point.Add(randUnit(rng).Scale(5)).C(), Radius: 1, MaterialFilter: func(render3d.Material) bool { return false }}
				why = "sphere: material filtered out"
			case 2:
				fp = &render3d.PhongFocusPoint{Target: point.C(), Alpha: 10}
				why = "phong: target equals point"
			default:
				fp = &render3d.PhongFocusPoint{Target: point.Add(randUnit(rng)).C(), Alpha: 10, MaterialFilter: func(render3d.Material) bool { return false }}
				why = "phong: material filtered out"
			}
			typ := "render3d.SphereFocusPoint"
			if _, ok := fp.(*render3d.PhongFocusPoint); ok {
				typ = "render3d.PhongFocusPoint"
			}
			wit := caseWitness(m, n, dest, fk, "focus fall-back ("+why+")")
			dc := &dirCase{
				typ: typ, sampleAPI: "SampleFocus", densityAPI: "FocusDensity", tag: "focus.fallback",
				sample:  func(gen *rand.Rand) ref.V { return ref.From(fp.SampleFocus(gen, lib, point.C(), n.C(), dest.C())) },
				density: func(w ref.V) float64 { return fp.FocusDensity(lib, point.C(), n.C(), w.C(), dest.C()) },
				info:    m.lobesOf(n, dest, true),
				witness: wit,
			}
			checkDirectional(c, dc, nSamples)
			c.Count("focus.fallback_cases", 1)
			c.Nontrivial("fallback " + why + m.sig())
		}
	})
}
