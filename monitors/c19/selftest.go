package main

import (
	"fmt"
	"math"

	"verif/vlib"
	ref "verif/vlib/c19ref"
)

// selfTest runs the quadrature on functions whose integral is known in closed
// form, in the hard configurations the monitor meets (sharp lobes off the
// frame axis, steps and kinks crossing the grid, delta caps, several axes).
// A failure makes the run inconclusive (it is an oracle defect, never a
// library violation).
func selfTest(r *vlib.Run) {
	const nCases = 48
	r.Section("oracle-selftest", nCases, vlib.SectionOpts{}, func(c *vlib.Case) {
		rng := c.Rng
		n := randNormal(rng)
		fixed, _ := randFixed(rng, n)
		phong := func(alpha float64, ax ref.V) func(ref.V) float64 {
			return func(w ref.V) float64 {
				d := w.Dot(ax)
				if d < 0 {
					return 0
				}
				return 2 * (alpha + 1) * math.Pow(d, alpha)
			}
		}
		hg := func(g float64, ax ref.V) func(ref.V) float64 {
			return func(w ref.V) float64 {
				return (1 - g*g) / math.Pow(1+g*g-2*g*w.Dot(ax), 1.5)
			}
		}
		lambert := func(ax ref.V) func(ref.V) float64 {
			return func(w ref.V) float64 { return 4 * math.Max(0, w.Dot(ax)) }
		}
		cap := func(ax ref.V, tmax float64) func(ref.V) float64 {
			return func(w ref.V) float64 {
				if w.Sub(ax).Norm2()/2 > tmax {
					return 0
				}
				return 2 / tmax
			}
		}
		var f func(ref.V) float64
		var info lobeInfo
		name := ""
		r1 := ref.Mirror(n, fixed)
		switch c.Index % 8 {
		case 0:
			alpha := alphaChoices[rng.Intn(len(alphaChoices))]
			name = fmt.Sprintf("phong(%g)+lambert", alpha)
			p, l := phong(alpha, r1), lambert(n.Neg())
			f = func(w ref.V) float64 { return 0.5*p(w) + 0.5*l(w) }
			info = (&matSpec{Kind: "phong", Alpha: alpha, Diffuse: C3{X: 1}}).lobesOf(n, fixed, true)
		case 1:
			g := []float64{0.99999, 0.999, 0.9, 1e-5, 0.5}[rng.Intn(5)]
			name = fmt.Sprintf("hg(%g)", g)
			f = hg(g, fixed)
			info = (&matSpec{Kind: "hg", G: g}).lobesOf(n, fixed, true)
			info.add((&matSpec{Kind: "lambert"}).lobesOf(n, fixed, true)) // an extra, irrelevant region
		case 2:
			name = "phong(1e4)+hg(0.999)+hg(-0.9)+lambert, axes close"
			d2 := ref.NewFrame(r1).At(1-math.Cos(5e-3), rng.Float64()*6).Unit() // 5 mrad from the phong axis
			p, h1, h2, l := phong(1e4, r1), hg(0.999, d2), hg(0.9, d2.Neg()), lambert(n.Neg())
			f = func(w ref.V) float64 { return 0.3*p(w) + 0.2*h1(w) + 0.1*h2(w) + 0.4*l(w) }
			info.lobes = []ref.Lobe{
				{Axis: r1, TEdges: ref.PowerCosEdges(1e4, nTBins), NPhi: nPhiBins},
				{Axis: d2, TEdges: ref.HGEdges(0.999, nTBins), NPhi: nPhiBins},
				{Axis: d2.Neg(), TEdges: ref.HGEdges(0.9, nTBins), NPhi: nPhiBins},
				{Axis: n.Neg(), TEdges: ref.LambertEdges(nTBins), NPhi: nPhiBins},
			}
			info.cuts = []ref.Cut{ref.Plane(r1), ref.Plane(n)}
		case 3:
			name = "delta caps + lambert"
			t, _, _ := ref.Snell(n, fixed, 1.5)
			c1, c2, l := cap(r1, ref.DeltaEps), cap(t, ref.DeltaEps), lambert(n.Neg())
			if r1.Dist(t) < 1e-2 {
				c.Count("selftest.passed", 1)
				return
			}
			f = func(w ref.V) float64 { return 0.25*c1(w) + 0.25*c2(w) + 0.5*l(w) }
			info.lobes = []ref.Lobe{
				{Axis: r1, TEdges: []float64{ref.DeltaEps}, NPhi: 1}, {Axis: t, TEdges: []float64{ref.DeltaEps}, NPhi: 1},
				{Axis: n.Neg(), TEdges: ref.LambertEdges(nTBins), NPhi: nPhiBins},
			}
			info.cuts = []ref.Cut{{B: r1, C: 1 - ref.DeltaEps}, {B: t, C: 1 - ref.DeltaEps}, ref.Plane(n)}
		case 4:
			tmax := []float64{5e-7, 1e-3, 0.3, 0.986}[rng.Intn(4)]
			name = fmt.Sprintf("cone(%g)", tmax)
			f = cap(fixed, tmax)
			info.lobes = []ref.Lobe{{Axis: fixed, TEdges: ref.ConeEdges(tmax, nTBins), NPhi: nPhiBins}}
			info.cuts = []ref.Cut{{B: fixed, C: 1 - tmax}}
		case 5:
			// step function (hemisphere) seen from foreign frames only
			name = "hemisphere step in foreign frames"
			f = phong(0, r1)
			info.lobes = []ref.Lobe{{Axis: n, TEdges: ref.LambertEdges(nTBins), NPhi: nPhiBins}, {Axis: fixed, TEdges: ref.HGEdges(0.9, nTBins), NPhi: nPhiBins}}
			info.cuts = []ref.Cut{ref.Plane(r1)}
		case 6:
			// a kink along a small circle about the normal (like Phong's flux
			// correction): max(cos, c0), normalised
			c0 := rng.Float64()
			name = "kink on a small circle"
			norm := (1+c0*c0)/2 + c0 // integral of max(mu,c0) over mu in [-1,1]
			f = func(w ref.V) float64 { return 2 * math.Max(w.Dot(n), c0) / norm }
			info.lobes = []ref.Lobe{{Axis: r1, TEdges: ref.PowerCosEdges(30, nTBins), NPhi: nPhiBins}, {Axis: n, TEdges: ref.LambertEdges(nTBins), NPhi: nPhiBins}}
			info.cuts = []ref.Cut{{B: n, C: c0}}
		default:
			alpha := []float64{0, 3, 300, 1e4}[rng.Intn(4)]
			name = fmt.Sprintf("phong(%g) declared at the wrong axis as well", alpha)
			f = phong(alpha, r1)
			info.lobes = []ref.Lobe{{Axis: r1, TEdges: ref.PowerCosEdges(alpha, nTBins), NPhi: nPhiBins}, {Axis: randUnit(rng), TEdges: ref.UniformEdges(nTBins), NPhi: nPhiBins}}
			info.cuts = []ref.Cut{ref.Plane(r1)}
		}
		part := ref.NewPartition(info.lobes, info.cuts)
		_, total, _ := part.Masses(f)
		c.Max("selftest.worst_abs_error", math.Abs(total-1))
		c.Max(fmt.Sprintf("selftest.worst_abs_error.kind%d", c.Index%8), math.Abs(total-1))
		if math.Abs(total-1) <= 1e-4 {
			c.Count("selftest.passed", 1)
		} else {
			c.Count("selftest.failed", 1)
			c.R.Note("selftest_failure_"+fmt.Sprint(c.Index), fmt.Sprintf("%s: integral %.9f (normal %v fixed %v)", name, total, n, fixed))
		}
	})
	r.Require("selftest.passed", nCases)
}
