package main

// Section "selfx3": Mesh.SelfIntersections()==0 <=> no two triangles cross.
// Clean side: scenes whose components are embedded and pairwise disjoint by
// construction (faces may be removed or flipped, which cannot create a
// crossing). Crossing side: an extra block is placed across the surface of a
// component and the case is decided only if the reference finds an edge that
// pierces the interior of a triangle with generous slack.

import (
	"fmt"
	"math"

	"verif/vlib"
)

func triBounds(t Tri) (lo, hi C3) {
	lo = t[0].Min(t[1]).Min(t[2])
	hi = t[0].Max(t[1]).Max(t[2])
	return
}

// certifiedCrossing looks for an edge of a triangle of A piercing a triangle
// of B (or vice versa) with slack; the triangles must not be near-parallel.
func certifiedCrossing(a, b []Tri) (Tri, Tri, bool) {
	check := func(x, y []Tri) (Tri, Tri, bool) {
		for _, ty := range y {
			lo, hi := triBounds(ty)
			ny := ty[1].Sub(ty[0]).Cross(ty[2].Sub(ty[0]))
			if ny.Norm() == 0 {
				continue
			}
			ny = ny.Scale(1 / ny.Norm())
			for _, tx := range x {
				l2, h2 := triBounds(tx)
				if l2.X > hi.X || l2.Y > hi.Y || l2.Z > hi.Z || h2.X < lo.X || h2.Y < lo.Y || h2.Z < lo.Z {
					continue
				}
				nx := tx[1].Sub(tx[0]).Cross(tx[2].Sub(tx[0]))
				if nx.Norm() == 0 {
					continue
				}
				nx = nx.Scale(1 / nx.Norm())
				if math.Abs(nx.Dot(ny)) > 0.95 {
					continue
				}
				for k := 0; k < 3; k++ {
					if segPiercesTri(tx[k], tx[(k+1)%3], ty, 0.1, 0.1) {
						return tx, ty, true
					}
				}
			}
		}
		return Tri{}, Tri{}, false
	}
	if x, y, ok := check(a, b); ok {
		return x, y, true
	}
	return check(b, a)
}

func selfx3Sections(r *vlib.Run) {
	r.Section("selfx3", r.N(800, 10000), vlib.SectionOpts{}, func(c *vlib.Case) {
		rng := c.Rng
		s := buildScene3(rng, sceneOpts{maxDepth: rng.Intn(3), maxComps: 1 + rng.Intn(5), maxLevel: 3, maxSub: 4,
			childProb: 0.7, allowTorus: true, rotate: rng.Intn(2) == 0})
		s.randomTransform(rng)
		tris := s.allTris()
		if len(tris) > 4000 {
			c.Undecided("selfx3.too-large")
			return
		}
		if rng.Intn(2) == 0 {
			// clean side
			var log []string
			if rng.Intn(2) == 0 {
				k := rng.Intn(5)
				for i := 0; i < k && len(tris) > 4; i++ {
					j := rng.Intn(len(tris))
					tris[j] = tris[len(tris)-1]
					tris = tris[:len(tris)-1]
				}
				k2 := rng.Intn(5)
				for i := 0; i < k2; i++ {
					j := rng.Intn(len(tris))
					tris[j] = flipTri(tris[j])
				}
				log = append(log, fmt.Sprintf("removed%d flipped%d", k, k2))
			}
			m := meshOf(shuffleTris(rng, tris))
			n := m.SelfIntersections()
			c.Count("selfx3.clean_decided", 1)
			c.Count("selfx3.clean_faces", int64(len(tris)))
			if n != 0 {
				c.Violationf("model3d.Mesh.SelfIntersections/embedded-nonzero",
					map[string]interface{}{"scene": s.describe(), "damage": log, "faces": len(tris), "triangles_hex": hexTris(tris, 40)},
					"SelfIntersections()=%d on a union of embedded, pairwise disjoint components", n)
			}
			return
		}
		// crossing side: put a block across the surface of a random component
		a := s.comps[rng.Intn(len(s.comps))]
		t := a.tris[rng.Intn(len(a.tris))]
		anchor := t[0].Add(t[1]).Add(t[2]).Scale(1.0 / 3)
		rad := a.rOut * (0.2 + 0.4*rng.Float64())
		var extra []Tri
		var kind string
		if rng.Intn(2) == 0 {
			extra = boxTris(anchor, xyz(rad, rad*(0.5+0.5*rng.Float64()), rad*(0.5+0.5*rng.Float64())).Scale(0.6), 1+rng.Intn(2), randRot(rng), rng)
			kind = "box"
		} else {
			extra = sphereTris(anchor, rad, rng.Intn(3), 0, randRot(rng), rng)
			kind = "sphere"
		}
		tx, ty, ok := certifiedCrossing(extra, a.tris)
		if !ok {
			c.Undecided("selfx3.no-certified-crossing")
			return
		}
		all := append(append([]Tri{}, tris...), extra...)
		m := meshOf(shuffleTris(rng, all))
		n := m.SelfIntersections()
		c.Count("selfx3.crossing_decided", 1)
		c.Nontrivial(fmt.Sprintf("selfx|%s|%s|%d", s.describe(), kind, len(all)))
		if n == 0 {
			c.Violationf("model3d.Mesh.SelfIntersections/crossing-zero",
				map[string]interface{}{"scene": s.describe(), "extra": kind, "faces": len(all),
					"piercing_triangle_hex": hexTris([]Tri{tx}, 1), "pierced_triangle_hex": hexTris([]Tri{ty}, 1)},
				"SelfIntersections()=0 although an edge of one triangle pierces the interior of another (slack 10%%)")
		}
		c.Sample("selfx3", 1, map[string]interface{}{"scene": s.describe(), "extra": kind, "faces": len(all), "reported": n})
	})
}
