package main

// Reference (exhaustive, definition-level) diagnostics for 3D triangle soups.
// Nothing here calls the library's diagnostics.

import (
	"math"
	"sort"

	"verif/vlib"
)

type ref3 struct {
	verts      []C3
	vid        map[C3]int
	faces      [][3]int
	undirected map[[2]int]int   // undirected edge -> number of incident faces
	directed   map[[2]int][]int // directed edge -> faces traversing it that way
	incident   [][]int          // vertex -> faces
	degenerate int
}

func analyze3(tris []Tri) *ref3 {
	r := &ref3{vid: map[C3]int{}, undirected: map[[2]int]int{}, directed: map[[2]int][]int{}}
	id := func(c C3) int {
		c = cleanZero(c)
		if i, ok := r.vid[c]; ok {
			return i
		}
		r.vid[c] = len(r.verts)
		r.verts = append(r.verts, c)
		return len(r.verts) - 1
	}
	for _, t := range tris {
		f := [3]int{id(t[0]), id(t[1]), id(t[2])}
		if f[0] == f[1] || f[1] == f[2] || f[0] == f[2] {
			r.degenerate++
		}
		r.faces = append(r.faces, f)
	}
	r.incident = make([][]int, len(r.verts))
	for fi, f := range r.faces {
		for k := 0; k < 3; k++ {
			a, b := f[k], f[(k+1)%3]
			r.directed[[2]int{a, b}] = append(r.directed[[2]int{a, b}], fi)
			if a > b {
				a, b = b, a
			}
			r.undirected[[2]int{a, b}]++
			r.incident[f[k]] = append(r.incident[f[k]], fi)
		}
	}
	return r
}

// needsRepair: some edge is not shared by exactly two triangles.
func (r *ref3) needsRepair() bool {
	for _, n := range r.undirected {
		if n != 2 {
			return true
		}
	}
	return false
}

func (r *ref3) maxEdgeCount() int {
	m := 0
	for _, n := range r.undirected {
		if n > m {
			m = n
		}
	}
	return m
}

func shared(a, b [3]int) int {
	n := 0
	for _, x := range a {
		if x == b[0] || x == b[1] || x == b[2] {
			n++
		}
	}
	return n
}

// fanComponents counts the connected components of the faces around vertex v
// where two faces are adjacent iff they share an edge. Faces with identical
// vertex sets (duplicates / flipped copies) are adjacent when dupAdjacent.
func (r *ref3) fanComponents(v int, dupAdjacent bool) int {
	fs := r.incident[v]
	n := len(fs)
	parent := make([]int, n)
	for i := range parent {
		parent[i] = i
	}
	var find func(int) int
	find = func(x int) int {
		for parent[x] != x {
			parent[x] = parent[parent[x]]
			x = parent[x]
		}
		return x
	}
	for i := 0; i < n; i++ {
		for j := i + 1; j < n; j++ {
			s := shared(r.faces[fs[i]], r.faces[fs[j]])
			if s == 2 || (s == 3 && dupAdjacent) {
				parent[find(i)] = find(j)
			}
		}
	}
	roots := map[int]bool{}
	for i := 0; i < n; i++ {
		roots[find(i)] = true
	}
	return len(roots)
}

// singular returns the vertices whose fan is disconnected, and those for which
// the answer depends on whether coincident faces count as edge-adjacent.
func (r *ref3) singular() (sing map[C3]bool, ambiguous map[C3]bool) {
	sing, ambiguous = map[C3]bool{}, map[C3]bool{}
	for v := range r.verts {
		a := r.fanComponents(v, true)
		b := r.fanComponents(v, false)
		if (a > 1) != (b > 1) {
			ambiguous[r.verts[v]] = true
			continue
		}
		if a > 1 {
			sing[r.verts[v]] = true
		}
	}
	return
}

// inconsistent returns directed edges traversed at least twice.
func (r *ref3) inconsistent() map[[2]C3]bool {
	res := map[[2]C3]bool{}
	for e, fs := range r.directed {
		if len(fs) >= 2 {
			res[[2]C3{r.verts[e[0]], r.verts[e[1]]}] = true
		}
	}
	return res
}

// orientable: 2-colouring of faces over edges with exactly two incident faces
// (same traversal direction => different colours, opposite => same colour).
// ok is false when the mesh is not edge-manifold (some edge has > 2 faces) or
// has degenerate faces: the question is then not posed.
func (r *ref3) orientable() (orientable, ok bool) {
	if r.degenerate > 0 || r.maxEdgeCount() > 2 {
		return false, false
	}
	type adj struct {
		f    int
		diff bool
	}
	nb := make([][]adj, len(r.faces))
	for e, fs := range r.directed {
		rev := r.directed[[2]int{e[1], e[0]}]
		if len(fs) == 2 {
			nb[fs[0]] = append(nb[fs[0]], adj{fs[1], true})
			nb[fs[1]] = append(nb[fs[1]], adj{fs[0], true})
		}
		if len(fs) == 1 && len(rev) == 1 && e[0] < e[1] {
			nb[fs[0]] = append(nb[fs[0]], adj{rev[0], false})
			nb[rev[0]] = append(nb[rev[0]], adj{fs[0], false})
		}
	}
	colour := make([]int, len(r.faces))
	for i := range colour {
		colour[i] = -1
	}
	for s := range r.faces {
		if colour[s] >= 0 {
			continue
		}
		colour[s] = 0
		stack := []int{s}
		for len(stack) > 0 {
			f := stack[len(stack)-1]
			stack = stack[:len(stack)-1]
			for _, a := range nb[f] {
				want := colour[f]
				if a.diff {
					want = 1 - want
				}
				if colour[a.f] < 0 {
					colour[a.f] = want
					stack = append(stack, a.f)
				} else if colour[a.f] != want {
					return false, true
				}
			}
		}
	}
	return true, true
}

// components: faces connected through shared edges. Returns component id per face.
func (r *ref3) components() ([]int, int) {
	parent := make([]int, len(r.faces))
	for i := range parent {
		parent[i] = i
	}
	var find func(int) int
	find = func(x int) int {
		for parent[x] != x {
			parent[x] = parent[parent[x]]
			x = parent[x]
		}
		return x
	}
	first := map[[2]int]int{}
	for fi, f := range r.faces {
		for k := 0; k < 3; k++ {
			a, b := f[k], f[(k+1)%3]
			if a > b {
				a, b = b, a
			}
			if o, ok := first[[2]int{a, b}]; ok {
				parent[find(fi)] = find(o)
			} else {
				first[[2]int{a, b}] = fi
			}
		}
	}
	ids := map[int]int{}
	res := make([]int, len(r.faces))
	for fi := range r.faces {
		root := find(fi)
		if _, ok := ids[root]; !ok {
			ids[root] = len(ids)
		}
		res[fi] = ids[root]
	}
	return res, len(ids)
}

// ---------------------------------------------------------------------------
// geometry

// evenOdd3 evaluates the even-odd rule for p on a union of closed components,
// each consistently oriented: parity of the number of components whose winding
// number around p is odd. worst is the largest distance of a raw winding value
// from an integer (a quality indicator for the solid-angle sum).
func evenOdd3(comps [][]Tri, p C3) (inside bool, depth int, worst float64) {
	for _, c := range comps {
		w, frac := vlib.WindingSolidAngle(c, p)
		if frac > worst {
			worst = frac
		}
		if w%2 != 0 {
			depth++
		}
	}
	return depth%2 == 1, depth, worst
}

// rayNearEdge reports the smallest distance between the ray p + t*dir (t>=0)
// and any triangle edge, used only to excuse a mismatch of a fixed-direction
// ray-parity implementation (a measure-zero event of the even-odd rule).
func rayNearEdge(tris []Tri, p, dir C3) float64 {
	best := math.Inf(1)
	d := dir.Scale(1 / dir.Norm())
	for _, t := range tris {
		for k := 0; k < 3; k++ {
			a, b := t[k], t[(k+1)%3]
			if dd := raySegDist(p, d, a, b); dd < best {
				best = dd
			}
		}
	}
	return best
}

// raySegDist: distance between ray (o, unit d) and segment ab (sampled closed form).
func raySegDist(o, d, a, b C3) float64 {
	// minimise |o + s d - (a + t e)| over s>=0, t in [0,1]
	e := b.Sub(a)
	w := o.Sub(a)
	dd, de, ee := 1.0, d.Dot(e), e.Dot(e)
	dw, ew := d.Dot(w), e.Dot(w)
	den := dd*ee - de*de
	best := math.Inf(1)
	try := func(s, t float64) {
		if s < 0 {
			s = 0
		}
		if t < 0 {
			t = 0
		}
		if t > 1 {
			t = 1
		}
		q := o.Add(d.Scale(s)).Sub(a.Add(e.Scale(t)))
		if n := q.Norm(); n < best {
			best = n
		}
	}
	if den > 1e-300 {
		s := (de*ew - ee*dw) / den
		t := (dd*ew - de*dw) / den
		try(s, t)
		// clamp t, re-solve s
		for _, tc := range []float64{0, 1, math.Max(0, math.Min(1, t))} {
			pt := a.Add(e.Scale(tc))
			try(d.Dot(pt.Sub(o)), tc)
		}
		// clamp s to 0, re-solve t
		if ee > 0 {
			try(0, ew/ee)
		}
	} else {
		for _, tc := range []float64{0, 1} {
			pt := a.Add(e.Scale(tc))
			try(d.Dot(pt.Sub(o)), tc)
		}
		if ee > 0 {
			try(0, ew/ee)
		}
	}
	return best
}

// segPiercesTri reports whether segment pq crosses the interior of t with the
// given relative slack: both endpoints at least slack*|pq| away from the plane
// on opposite sides and barycentric coordinates of the crossing >= bary.
func segPiercesTri(p, q C3, t Tri, slack, bary float64) bool {
	n := t[1].Sub(t[0]).Cross(t[2].Sub(t[0]))
	nn := n.Norm()
	if nn == 0 {
		return false
	}
	n = n.Scale(1 / nn)
	dp, dq := p.Sub(t[0]).Dot(n), q.Sub(t[0]).Dot(n)
	l := p.Dist(q)
	if dp*dq >= 0 || math.Abs(dp) < slack*l || math.Abs(dq) < slack*l {
		return false
	}
	x := p.Add(q.Sub(p).Scale(dp / (dp - dq)))
	// barycentric
	v0, v1, v2 := t[1].Sub(t[0]), t[2].Sub(t[0]), x.Sub(t[0])
	d00, d01, d11 := v0.Dot(v0), v0.Dot(v1), v1.Dot(v1)
	d20, d21 := v2.Dot(v0), v2.Dot(v1)
	den := d00*d11 - d01*d01
	if den == 0 {
		return false
	}
	b1 := (d11*d20 - d01*d21) / den
	b2 := (d00*d21 - d01*d20) / den
	b0 := 1 - b1 - b2
	return b0 >= bary && b1 >= bary && b2 >= bary
}

func sortedC3(m map[C3]bool) []C3 {
	var res []C3
	for c := range m {
		res = append(res, c)
	}
	sort.Slice(res, func(i, j int) bool {
		a, b := res[i], res[j]
		if a.X != b.X {
			return a.X < b.X
		}
		if a.Y != b.Y {
			return a.Y < b.Y
		}
		return a.Z < b.Z
	})
	return res
}
