package main

// Meshes at the small end of the size range: no faces at all (new, emptied by Remove, filtered to
// nothing), one face, two faces back to back, a tetrahedron. The definitions are decidable by
// inspection there, and the code paths ("no group was ever appended", "no vertex", ...) differ from
// those of ordinary meshes.

import (
	"fmt"

	"github.com/unixpickle/model3d/model2d"
	"github.com/unixpickle/model3d/model3d"
	"verif/vlib"
)

func tinySections(r *vlib.Run) {
	r.Section("tiny3", r.N(200, 2000), vlib.SectionOpts{}, func(c *vlib.Case) {
		rng := c.Rng
		kind := c.Index % 6
		m := model3d.NewMesh()
		p := func() model3d.Coord3D { return model3d.XYZ(rng.NormFloat64(), rng.NormFloat64(), rng.NormFloat64()) }
		a, b, cc, d := p(), p(), p(), p()
		desc := ""
		switch kind {
		case 0:
			desc = "NewMesh()"
		case 1:
			desc = "emptied by Remove"
			t1, t2 := &model3d.Triangle{a, b, cc}, &model3d.Triangle{a, cc, d}
			m.Add(t1)
			m.Add(t2)
			if rng.Intn(2) == 0 {
				m.Find(a) // build the index first
			}
			m.Remove(t1)
			m.Remove(t2)
		case 2:
			desc = "filtered to nothing"
			src := model3d.NewMeshIcosphere(model3d.Origin, 1, 1)
			src.Iterate(func(t *model3d.Triangle) {
				if t.Area() < 0 {
					m.Add(t)
				}
			})
		case 3:
			desc = "one face"
			m.Add(&model3d.Triangle{a, b, cc})
		case 4:
			desc = "two faces back to back"
			m.Add(&model3d.Triangle{a, b, cc})
			m.Add(&model3d.Triangle{a, cc, b})
		default:
			desc = "tetrahedron"
			if (&model3d.Triangle{a, b, cc}).Normal().Dot(d.Sub(a)) > 0 {
				b, cc = cc, b
			}
			m.Add(&model3d.Triangle{a, b, cc})
			m.Add(&model3d.Triangle{a, d, b})
			m.Add(&model3d.Triangle{b, d, cc})
			m.Add(&model3d.Triangle{cc, d, a})
		}
		c.Count("tiny3.kind."+desc, 1)
		wit := map[string]interface{}{"mesh": desc, "faces": m.NumTriangles()}
		tris := vlib.Tris(m)
		topo := vlib.AnalyzeTris(tris)
		closed := topo.ClosedOrientedManifold()
		empty := len(tris) == 0
		// definitions
		wantNeedsRepair := !empty && !closed && kind == 3 // one face: open edges; back-to-back pair and tetrahedron are closed
		if got := m.NeedsRepair(); got != wantNeedsRepair {
			c.Violation("model3d.Mesh.NeedsRepair/tiny-mesh", fmt.Sprintf("NeedsRepair=%v, want %v", got, wantNeedsRepair), wit)
		}
		// (two coincident faces share three vertices, which the library does not count as sharing an
		// edge; whether that zero-volume shell is "pinched" is not settled by the definition)
		if sv := m.SingularVertices(); len(sv) != 0 && kind != 4 {
			c.Violation("model3d.Mesh.SingularVertices/tiny-mesh", fmt.Sprintf("%d singular vertices reported", len(sv)), wit)
		}
		if ie := m.InconsistentEdges(); len(ie) != 0 {
			c.Violation("model3d.Mesh.InconsistentEdges/tiny-mesh", fmt.Sprintf("%d inconsistent edges reported", len(ie)), wit)
		}
		if !m.Orientable() {
			c.Violation("model3d.Mesh.Orientable/tiny-mesh", "a mesh whose faces can trivially be oriented consistently is reported as not orientable", wit)
		}
		if kind != 4 {
			if n := m.SelfIntersections(); n != 0 {
				c.Violation("model3d.Mesh.SelfIntersections/tiny-mesh", fmt.Sprintf("%d self intersections reported", n), wit)
			}
		}
		if got := vlib.Tris(m.Repair(1e-8)); len(got) != len(tris) {
			c.Violation("model3d.Mesh.Repair/tiny-mesh", fmt.Sprintf("Repair changed the face count from %d to %d", len(tris), len(got)), wit)
		}
		if empty || kind == 5 {
			// closed (or vacuous) inputs: the normal repairs have nothing to flip
			m2, n := m.RepairNormals(1e-8)
			if n != 0 || m2.NumTriangles() != len(tris) {
				c.Violation("model3d.Mesh.RepairNormals/tiny-mesh", fmt.Sprintf("RepairNormals flipped %d faces, result has %d faces", n, m2.NumTriangles()), wit)
			}
			m3, n3 := m.RepairNormalsMajority()
			if n3 != 0 || m3.NumTriangles() != len(tris) {
				c.Violation("model3d.Mesh.RepairNormalsMajority/tiny-mesh", fmt.Sprintf("RepairNormalsMajority flipped %d faces, result has %d faces", n3, m3.NumTriangles()), wit)
			}
			hs := model3d.MeshToHierarchy(m)
			want := 0
			if kind == 5 {
				want = 1
			}
			if len(hs) != want {
				c.Violation("model3d.MeshToHierarchy/tiny-mesh", fmt.Sprintf("%d root nodes, want %d", len(hs), want), wit)
			}
		}
		c.Count("tiny3.meshes", 1)
		c.Nontrivial(fmt.Sprint("tiny3", desc, a))
	})

	r.Section("tiny2", r.N(200, 2000), vlib.SectionOpts{}, func(c *vlib.Case) {
		rng := c.Rng
		kind := c.Index % 4
		m := model2d.NewMesh()
		p := func() model2d.Coord { return model2d.XY(rng.NormFloat64(), rng.NormFloat64()) }
		a, b, cc := p(), p(), p()
		desc := ""
		switch kind {
		case 0:
			desc = "NewMesh()"
		case 1:
			desc = "emptied by Remove"
			s1, s2 := &model2d.Segment{a, b}, &model2d.Segment{b, cc}
			m.Add(s1)
			m.Add(s2)
			if rng.Intn(2) == 0 {
				m.Find(b)
			}
			m.Remove(s1)
			m.Remove(s2)
		case 2:
			desc = "one segment"
			m.Add(&model2d.Segment{a, b})
		default:
			desc = "triangle loop"
			// clockwise: outward normals in the library's convention
			if (b.X-a.X)*(cc.Y-a.Y)-(b.Y-a.Y)*(cc.X-a.X) > 0 {
				b, cc = cc, b
			}
			m.Add(&model2d.Segment{a, b})
			m.Add(&model2d.Segment{b, cc})
			m.Add(&model2d.Segment{cc, a})
		}
		c.Count("tiny2.kind."+desc, 1)
		wit := map[string]interface{}{"mesh": desc, "segments": m.NumSegments()}
		wantManifold := kind != 2
		if got := m.Manifold(); got != wantManifold {
			c.Violation("model2d.Mesh.Manifold/tiny-mesh", fmt.Sprintf("Manifold=%v, want %v", got, wantManifold), wit)
		}
		if kind != 2 {
			if iv := m.InconsistentVertices(); len(iv) != 0 {
				c.Violation("model2d.Mesh.InconsistentVertices/tiny-mesh", fmt.Sprintf("%d inconsistent vertices reported", len(iv)), wit)
			}
			m2, n := m.RepairNormals(1e-8)
			if n != 0 || m2.NumSegments() != m.NumSegments() {
				c.Violation("model2d.Mesh.RepairNormals/tiny-mesh", fmt.Sprintf("RepairNormals flipped %d segments, result has %d segments", n, m2.NumSegments()), wit)
			}
			hs := model2d.MeshToHierarchy(m)
			want := 0
			if kind == 3 {
				want = 1
			}
			if len(hs) != want {
				c.Violation("model2d.MeshToHierarchy/tiny-mesh", fmt.Sprintf("%d root nodes, want %d", len(hs), want), wit)
			}
		}
		if got := m.Repair(1e-8).NumSegments(); got != m.NumSegments() {
			c.Violation("model2d.Mesh.Repair/tiny-mesh", fmt.Sprintf("Repair changed the segment count from %d to %d", m.NumSegments(), got), wit)
		}
		c.Count("tiny2.meshes", 1)
		c.Nontrivial(fmt.Sprint("tiny2", desc, a))
	})
}
