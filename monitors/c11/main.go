// C11 — Mesh diagnostics, repair and nesting agree with their definitions.
// Shape: seeded hostile meshes (clean building blocks damaged deliberately, nested
// scenes whose disjointness is guaranteed by construction) + definition-level
// oracles written from scratch (edge census, fan connectivity, 2-colouring,
// solid-angle winding numbers). DESIGN.md section C11.
//
// Notes on judgement calls (none of these is raised as a violation):
//
//	O1 model2d.MeshToHierarchy guards with Manifold() but removeAllConnected
//	   follows outgoing segments and panics "mesh is non-manifold" when a loop is
//	   not consistently oriented (3D has no such restriction). Undocumented
//	   precondition; the monitor only feeds consistently oriented loops (CW or
//	   CCW per loop) and counts what happens otherwise in the section
//	   "hier2-reoriented-observation".
//	O2 Triangle.SharesEdge is "exactly one edge" (inCommon == 2): coincident
//	   faces are not edge-adjacent for SingularVertices. The oracle evaluates
//	   both readings and skips vertices on which they differ.
//	O3 Closed manifold components have an even face count, so the tie-break of
//	   RepairNormalsMajority cannot change the flip count (equivalent mutant).
//	O4 Point classification in the library is the parity of one fixed ray; a
//	   mismatch is excused only when that ray passes within 1e-9 of an edge.
package main

import (
	"verif/vlib"
)

func main() {
	r := vlib.Start("C11", "exploration")
	r.ScaleQuick(3) // quick tier: 3x the case counts written at the sections (still well under a minute)
	r.Rule("meshes are built from closed embedded blocks (boxes, star-shaped spheres, tori; 2D: star-shaped polygons) placed in provably disjoint balls (nesting to depth 6, up to ~200 components, torus holes), then damaged (faces removed/duplicated/flipped, vertices pinched/cracked/split+jittered, Moebius/Klein/disc surfaces, touching tetrahedra and lattice boxes sharing an edge or a vertex); every library answer is compared with an exhaustive definition-level oracle; a case is non-trivial when the reference answer is not the clean one (needs repair / singular / inconsistent / faces actually flipped / >=2 components with nesting); distinct by hash of generator description + damage log")
	r.Assume("coordinates are finite and free of signed zeros and NaN (those belong to C09)")
	r.Assume("SingularVertices: vertices incident to two faces with identical vertex sets are skipped when the answer depends on whether such faces count as edge-adjacent (Triangle.SharesEdge is documented as 'exactly one edge')")
	r.Assume("point classification is decided only for points farther than a stated margin from every face; a mismatch is excused (undecided) only if the library's fixed parity ray passes within 1e-9 of a mesh edge")
	r.Assume("2D MeshToHierarchy is only given meshes whose loops are each consistently oriented (its traversal follows segment direction)")

	diag3Sections(r)
	collide3Sections(r)
	selfx3Sections(r)
	repair3Sections(r)
	normals3Sections(r)
	hier3Sections(r)
	twoDSections(r)
	reoriented2(r)
	tinySections(r)

	r.Require("diag3.meshes", 1000)
	r.Require("diag3.NeedsRepair.ref_true", 100)
	r.Require("diag3.NeedsRepair.ref_false", 100)
	r.Require("diag3.NeedsRepair.edge_with_3plus_faces", 50)
	r.Require("diag3.SingularVertices.ref_nonempty", 50)
	r.Require("diag3.InconsistentEdges.ref_nonempty", 100)
	r.Require("diag3.Orientable.ref_true", 100)
	r.Require("diag3.Orientable.ref_false", 50)
	r.Require("selfx3.clean_decided", 20)
	r.Require("selfx3.crossing_decided", 20)
	r.Require("repair3.decided", 50)
	r.Require("normals3.RepairNormals.decided", 30)
	r.Require("normals3.RepairNormalsMajority.decided", 30)
	r.Require("hier3.decided", 50)
	r.Require("hier3.nested_cases", 20)
	r.Require("hier3.contains_queries", 2000)
	r.Require("diag2.meshes", 500)
	r.Require("repair2.decided", 50)
	r.Require("normals2.decided", 50)
	r.Require("hier2.decided", 50)
	r.Require("hier2.contains_queries", 2000)
	r.Finish()
}
